package main

// corpus returns the regression histories (witnesses W1..W13 and minimized failures).
func corpus() []*History {
	return corpusC17()
}
