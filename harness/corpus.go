package main

import (
	"encoding/json"
	"os"
	"path/filepath"
	"sort"
	"strings"
	"time"
)

// The regression corpus: the witness histories W1..W18 of DESIGN.md section 6.5
// (ops fully resolved) and every minimized failure ever found.
//
// On the repaired tree W1..W7 and W12 raise no monitor; W8, W9, W10, W13
// re-confirm the known findings K1, K2, K3, K5 (their violations carry the
// "K<n>: " prefix). W7 and W11 stop where the genesis pipeline starts.

const sec = int64(time.Second)

func base(n int64) CoinsArg { return CoinsArg{Kind: "B", Amt: n} }

func price(p string) PricingArg { return PricingArg{Kind: "P", Price: p, Denom: denom} }

func opDefine(svc, owner int64) Op {
	return Op{Kind: "define", Svc: svc, Content: svc, Owner: owner}
}

func opBind(svc, prov, owner int64, dep CoinsArg, pr PricingArg, qos uint64) Op {
	return Op{Kind: "bind", Svc: svc, Prov: prov, Owner: owner, Dep: dep, Pr: pr, QoS: qos}
}

func opCall(tx uint64, svc int64, provs []int64, cons int64, cap int64, timeout int64, rep bool, freq uint64, total int64) Op {
	return Op{Kind: "call", Tx: tx, Svc: svc, Provs: provs, Cons: cons, Input: int64(tx % 1000), InputOK: true, Dep: base(cap),
		Timeout: timeout, Rep: rep, Freq: freq, Total: total}
}

func opModCall(tx uint64, svc int64, provs []int64, cons int64, cap int64, timeout int64, rep bool, freq uint64, total int64, thr int64) Op {
	o := opCall(tx, svc, provs, cons, cap, timeout, rep, freq, total)
	o.Kind = "modcall"
	o.Thr = thr
	o.Mod = cbModAtom
	return o
}

func opEB(dt int64) Op { return Op{Kind: "endblock", Dt: dt} }

// opRespond answers request (tx, 0, batch, height, index) as `who`; out = 0 means no output (use an error code).
func opRespond(tx uint64, batch uint64, h, i int64, who int64, code int64, out int64, valid bool) Op {
	return Op{Kind: "respond", Tx: tx, Batch: batch, RHeight: h, RIndex: i, Who: who, Code: code, Out: out, OutValid: valid}
}

func opCtx(kind string, tx uint64, who int64) Op { return Op{Kind: kind, Tx: tx, Who: who} }

func opWithdraw(owner, prov int64) Op { return Op{Kind: "withdraw", Owner: owner, Prov: prov} }

// 2^255 - 1: the largest sdk.Int
const k6Huge = "57896044618658097711785492504343953926634992332820282019728792003956564819967"

func rich(atoms ...int64) [][2]int64 {
	var f [][2]int64
	for _, a := range atoms {
		f = append(f, [2]int64{a, 50000000})
	}
	return f
}

// k3Set: directed histories around W10 (module-service call path, known finding K3, DESIGN 12.10).
func k3Set(add func(name string, cfg int, funding [][2]int64, ops ...Op) *History) {
	modCall := func(tx uint64, cons int64) Op { return opCall(tx, 5, []int64{126}, cons, 1000, 2, false, 0, 0) }
	// W10b: two module-service calls, blocks apart: the second context gets its own batch 1 / skipped batch 2,
	// the record of the empty owner (key = the bare prefix 0x19) is re-read by the prefix scan: 1, then 1+1.
	add("W10b-module-service-two-calls", 0, append(rich(101), [2]int64{111, 1000}),
		opDefine(5, 101),
		modCall(1030, 111),
		opEB(5*sec),
		modCall(1031, 111),
		opEB(5*sec), opEB(5*sec), opEB(5*sec))
	// W10c: an ordinary paid request is answered first (owner 101 holds 9 after 10 % tax); the module-service
	// call then adds up the records of ALL owners under the bare prefix: the empty owner's record is 9 + 1.
	add("W10c-module-service-owner-prefix-sum", 0, append(rich(101), [2]int64{111, 1000}, [2]int64{112, 1000}),
		opDefine(1, 101),
		opDefine(5, 102),
		opBind(1, 126, 101, base(6000), price("10"), 1),
		opCall(1032, 1, []int64{126}, 111, 1000, 2, false, 0, 0),
		opEB(5*sec),
		opRespond(1032, 1, 10, 0, 126, 200, 1, true),
		modCall(1033, 112),
		opEB(5*sec),
		opWithdraw(101, 0),
		modCall(1034, 112),
		opEB(5*sec), opEB(5*sec), opEB(5*sec))
	// W10d: the consumer drives the one-shot module-service context: pause and kill are refused (not repeated),
	// an update that supplies a frequency is accepted, a stranger is refused; then the skipped batch 2.
	add("W10d-module-service-context-messages", 0, append(rich(101), [2]int64{111, 1000}),
		opDefine(5, 101),
		modCall(1035, 111),
		opCtx("pause", 1035, 111),
		opCtx("kill", 1035, 111),
		opCtx("start", 1035, 111),
		Op{Kind: "updctx", Tx: 1035, Who: 111, Dep: CoinsArg{Kind: "E"}, Freq: 3},
		Op{Kind: "updctx", Tx: 1035, Who: 141, Dep: CoinsArg{Kind: "E"}, Freq: 3},
		Op{Kind: "updctx", Tx: 1035, Who: 111, Dep: base(7), Timeout: 2, Freq: 2, Provs: []int64{126, 127}},
		opEB(5*sec),
		opCtx("kill", 1035, 111),
		opEB(5*sec), opEB(5*sec), opEB(5*sec))
	// W10e: the module's provider address is ALSO an ordinary provider of another service (owner 101): the
	// module-service call credits 1 to provider and owner records that the escrow does not hold; the owner's
	// withdrawal fails while the escrow is empty and succeeds out of another consumer's pending fee.
	add("W10e-module-provider-with-owner", 0, append(rich(101), [2]int64{111, 1000}, [2]int64{112, 1000}),
		opDefine(1, 101),
		opDefine(5, 101),
		opBind(1, modProvAtom, 101, base(6000), price("10"), 1),
		modCall(1036, 111),
		opWithdraw(101, modProvAtom),
		opCall(1037, 1, []int64{modProvAtom}, 112, 1000, 2, false, 0, 0),
		opEB(5*sec),
		opWithdraw(101, modProvAtom),
		opRespond(1037, 1, 10, 0, modProvAtom, 200, 2, true),
		opWithdraw(101, 0),
		opEB(5*sec), opEB(5*sec), opEB(5*sec))
	// W10i: a zero-height export in a state that holds the unbacked earning of a module-service call: the
	// preparation cannot refund it out of the empty escrow (K3 facet of C19; K3_zero_height_export_fails_refuted).
	add("W10i-module-service-then-export", 0, append(rich(101), [2]int64{111, 1000}),
		opDefine(5, 101),
		modCall(1046, 111),
		Op{Kind: "export"})
	// W10j: the module's provider address is bound as an ordinary provider AFTER the call: the provider holds an
	// earning its new owner's record does not include, and the owner's withdrawal for it subtracts below zero
	// (K3 facet of C20; K3_withdraw_panics_refuted).
	add("W10j-module-provider-bound-later-withdraw", 0, append(rich(101), [2]int64{111, 1000}),
		opDefine(1, 101),
		opDefine(5, 101),
		modCall(1047, 111),
		opBind(1, modProvAtom, 101, base(6000), price("10"), 1),
		opWithdraw(101, modProvAtom),
		opEB(5*sec))

	// W10f: what the module-service branch refuses: service not defined, ValidateBasic on the fields the handler
	// then ignores (no provider, timeout 0), empty and foreign cap, malformed input; an unfunded consumer is
	// accepted (the charge is 0).
	{
		noProv := modCall(1039, 111)
		noProv.Provs = nil
		t0 := modCall(1040, 111)
		t0.Timeout = 0
		capE := modCall(1041, 111)
		capE.Dep = CoinsArg{Kind: "E"}
		capX := modCall(1042, 111)
		capX.Dep = CoinsArg{Kind: "X", Raw: "9atom"}
		badIn := modCall(1043, 111)
		badIn.InputOK = false
		rep := opCall(1045, 5, []int64{126, 127}, 113, 1, 3, true, 3, -1) // repeated + super in the message: ignored
		rep.Super = true
		add("W10f-module-service-refusals", 0, append(rich(101), [2]int64{111, 1000}),
			modCall(1038, 111),
			opDefine(5, 101),
			noProv, t0, capE, capX, badIn,
			modCall(1044, 113),
			rep,
			opEB(5*sec), opEB(5*sec), opEB(5*sec))
	}
	// W10g: two module-service calls of one transaction in one block beside a repeated ordinary context;
	// EndBlocks until everything that is ever removed is removed.
	{
		second := modCall(1046, 112)
		second.Idx = 1
		add("W10g-module-service-interleaved", 3, append(rich(101), [2]int64{111, 1000}, [2]int64{112, 1000}),
			opDefine(1, 101),
			opDefine(5, 101),
			opBind(1, 126, 101, base(6000), price("10"), 1),
			opCall(1047, 1, []int64{126}, 111, 1000, 1, true, 2, 3),
			modCall(1046, 112),
			second,
			opEB(5*sec),
			opRespond(1047, 1, 10, 0, 126, 200, 3, true),
			modCall(1048, 111),
			opEB(5*sec),
			opCtx("pause", 1047, 111),
			opEB(5*sec),
			opCtx("start", 1047, 111),
			opEB(5*sec), opEB(5*sec), opEB(5*sec), opEB(5*sec))
	}
	// W10h: a tax rate close to 1 and a parameter change between two module-service calls: the fee is 1, the
	// tax floor(1 * rate) = 0 under every legal rate.
	add("W10h-module-service-tax-and-params", 2, append(rich(101), [2]int64{111, 1000}),
		opDefine(5, 101),
		modCall(1049, 111),
		Op{Kind: "setparams", P: &Cfg{MaxTimeout: 1, Multiple: 1, MinDeposit: 50, Tax: "0.999999999999999999", Slash: "1", Arb: 10 * time.Second, Compl: 5 * time.Second}},
		modCall(1050, 111),
		opEB(5*sec), opEB(5*sec), opEB(5*sec))
}

// k5Atoms: the standard pools plus the short addresses of W11 / W13.
func k5Atoms() *Atoms {
	a := standardAtoms()
	a.addAddr(151, []byte("owner"))
	a.addAddr(152, []byte("ownerX"))
	a.addAddr(153, []byte("tiny"))
	a.addAddr(154, []byte("tin2"))
	return a
}

func atomsFor(h *History) *Atoms {
	if h.AtomSet == "k5" {
		return k5Atoms()
	}
	return standardAtoms()
}

// w7prefix: the message part of W7 / W11 for a given provider atom.
func w7prefix(prov int64) []Op {
	return []Op{
		opDefine(1, 101),
		opBind(1, prov, 101, base(20000), price("10"), 1),
		{Kind: "setwd", Owner: 101, Addr: 131},
		opCall(7001, 1, []int64{prov}, 111, 1000, 2, true, 2, -1),
		opEB(5 * sec),
		opRespond(7001, 1, 10, 0, prov, 200, 1, true),
		opEB(5 * sec),
		opEB(5 * sec),
		{Kind: "export"},
	}
}

func corpus() []*History {
	var hs []*History
	add := func(name string, cfg int, funding [][2]int64, ops ...Op) *History {
		h := &History{Name: name, CfgIdx: cfg, Funding: funding, Ops: ops}
		hs = append(hs, h)
		return h
	}

	// W1 (D1): a consumer holding 5 calls a provider priced 10: paused, nothing issued, nothing charged.
	add("W1-D1-pause-for-funds", 0, append(rich(101), [2]int64{111, 5}),
		opDefine(1, 101),
		opBind(1, 126, 101, base(6000), price("10"), 1),
		opCall(1001, 1, []int64{126}, 111, 1000, 2, false, 0, 0),
		opEB(5*sec), opEB(5*sec), opEB(5*sec))

	// W2 (D2): a price that parses to 0 is charged as 1 and recorded as 1.
	add("W2-D2-subunit-price", 0, append(rich(101), [2]int64{111, 1000}),
		opDefine(1, 101),
		opBind(1, 126, 101, base(6000), price("0.5"), 1),
		opCall(1002, 1, []int64{126}, 111, 1000, 2, false, 0, 0),
		opEB(5*sec))

	// W3 (D3): raising the price above what the deposit covers is rejected.
	add("W3-D3-update-price-min-deposit", 0, rich(101),
		opDefine(1, 101),
		opBind(1, 126, 101, base(6000), price("1"), 1),
		Op{Kind: "update", Svc: 1, Prov: 126, Owner: 101, Dep: CoinsArg{Kind: "E"}, Pr: price("100")})

	// W4 (D4): an empty deposit is an error, not a panic.
	add("W4-D4-empty-deposit", 0, rich(101),
		opDefine(1, 101),
		opBind(1, 126, 101, CoinsArg{Kind: "E"}, price("1"), 1))

	// W5 (D5): total 1, paused during the only batch, started after it expired: completed, no batch 2.
	add("W5-D5-total-after-restart", 0, append(rich(101), [2]int64{111, 1000}),
		opDefine(1, 101),
		opBind(1, 126, 101, base(6000), price("10"), 1),
		opCall(1005, 1, []int64{126}, 111, 1000, 2, true, 2, 1),
		opEB(5*sec),
		opCtx("pause", 1005, 111),
		opEB(5*sec), opEB(5*sec),
		opCtx("start", 1005, 111),
		opEB(5*sec), opEB(5*sec))

	// W23 (seed C05-1): a provider keeps its owner for life, also after the deposit of one of its bindings was
	// refunded: another account that binds the provider afterwards is refused, and only the first owner withdraws.
	add("W23-provider-owner-for-life", 0, append(rich(101, 102), [2]int64{111, 1000}),
		opDefine(1, 101),
		opDefine(2, 101),
		opBind(1, 126, 101, base(6000), price("10"), 1),
		opBind(2, 126, 101, base(6000), price("10"), 1),
		Op{Kind: "disable", Svc: 1, Prov: 126, Owner: 101},
		opEB(10*sec),
		Op{Kind: "refunddep", Svc: 1, Prov: 126, Owner: 101},
		opDefine(3, 102),
		opBind(3, 126, 102, base(6000), price("10"), 1),
		opCall(1023, 2, []int64{126}, 111, 1000, 2, false, 0, 0),
		opEB(5*sec),
		opRespond(1023, 1, 11, 0, 126, 200, 1, true),
		opWithdraw(102, 126),
		opWithdraw(101, 126),
		opEB(5*sec), opEB(5*sec))

	// W22 (seed C12-7): every provider answers early, so the batch is complete while its expiry is still
	// pending; the consumer pauses and starts again inside that window. The start must not queue a batch:
	// the next one starts at the old expiry, and no batch is ever completed before its own expiry unanswered.
	add("W22-pause-start-after-early-answers", 9, append(rich(101), [2]int64{111, 1000}),
		opDefine(1, 101),
		opBind(1, 126, 101, base(6000), price("10"), 1),
		opCall(1022, 1, []int64{126}, 111, 1000, 3, true, 6, -1),
		opEB(5*sec),
		opRespond(1022, 1, 10, 0, 126, 200, 1, true),
		opCtx("pause", 1022, 111),
		opCtx("start", 1022, 111),
		opEB(5*sec), opEB(5*sec), opEB(5*sec), opEB(5*sec), opEB(5*sec), opEB(5*sec))

	// W6 (D6): provider V (20 bytes) and a foreign provider V[:19]; withdrawing V[:19] must not take V's earnings.
	add("W6-D6-prefix-provider-earnings", 0, append(rich(101, 102), [2]int64{111, 1000}),
		opDefine(1, 101),
		opBind(1, 121, 101, base(20000), price("10"), 1),
		opBind(1, 122, 102, base(20000), price("10"), 1),
		opBind(1, 126, 102, base(20000), price("10"), 1),
		opCall(1006, 1, []int64{121, 126}, 111, 1000, 2, false, 0, 0),
		opEB(5*sec),
		opRespond(1006, 1, 10, 0, 121, 200, 1, true),
		opRespond(1006, 1, 10, 1, 126, 200, 2, true),
		opWithdraw(102, 122),
		opWithdraw(101, 121),
		opWithdraw(102, 0),
		opEB(5*sec), opEB(5*sec))

	// W7 (D7 D8 D9): message prefix only; the genesis steps are run by the export pipeline.
	add("W7-D7D8D9-genesis-prefix", 0, append(rich(101), [2]int64{111, 1000}), w7prefix(126)...)

	// W8 (K1): a base price whose minimum deposit overflows 255 bits panics.
	add("W8-K1-price-overflow", 0, rich(101),
		opDefine(1, 101),
		opBind(1, 126, 101, base(6000), PricingArg{Kind: "N", Text: `{"price":"1` + strings.Repeat("0", 76) + `stake"}`}, 1))

	// W20 (D11): a withdrawal address that is a module account is rejected; the owner's earnings
	// still reach an ordinary address, escrow and deposit account stay exactly backed.
	add("W20-D11-blocked-withdraw-address", 0, append(rich(101), [2]int64{111, 1000}),
		opDefine(1, 101),
		opBind(1, 126, 101, base(6000), price("10"), 1),
		opCall(1018, 1, []int64{126}, 111, 1000, 2, false, 0, 0),
		opEB(5*sec),
		opRespond(1018, 1, 10, 0, 126, 200, 1, true),
		Op{Kind: "setwd", Owner: 101, Addr: 9001},
		opWithdraw(101, 0),
		opCall(1019, 1, []int64{126}, 111, 1000, 2, false, 0, 0),
		opEB(5*sec),
		opRespond(1019, 1, 11, 0, 126, 200, 1, true),
		Op{Kind: "setwd", Owner: 101, Addr: 9002},
		opWithdraw(101, 0),
		Op{Kind: "setwd", Owner: 101, Addr: 9003},
		Op{Kind: "setwd", Owner: 101, Addr: 9004},
		opEB(5*sec), opEB(5*sec))

	// W21 (K6): a top-up whose sum with the stored deposit needs more than 255 bits panics in
	// Coins.Add before the owner is asked to pay (update and enable).
	add("W21-deposit-overflow-k6", 0, rich(101),
		opDefine(1, 101),
		opBind(1, 126, 101, base(6000), price("10"), 1),
		Op{Kind: "update", Svc: 1, Prov: 126, Owner: 101, Dep: CoinsArg{Kind: "B", Big: k6Huge}, Pr: PricingArg{Kind: "-"}},
		Op{Kind: "disable", Svc: 1, Prov: 126, Owner: 101},
		Op{Kind: "enable", Svc: 1, Prov: 126, Owner: 101, Dep: CoinsArg{Kind: "B", Big: k6Huge}})

	// W9 (K2): frequency 2^64-1 wraps the next-batch height into the past.
	add("W9-K2-frequency-wrap", 0, append(rich(101), [2]int64{111, 1000}),
		opDefine(1, 101),
		opBind(1, 126, 101, base(6000), price("10"), 1),
		opCall(1009, 1, []int64{126}, 111, 1000, 2, true, 1<<64-1, -1),
		opEB(5*sec), opEB(5*sec), opEB(5*sec))

	// W10 (K3): the module-service call path; the user bind of the reserved service is rejected (C05).
	// The path is INSIDE the model (coq/Model/ModSvc.v, XCallMod): W10 and the directed set W10b..W10h
	// are compared group by group like every other history (their names carry no -K3- marker); the
	// implementation monitors keep tagging what the path breaks "K3: ".
	add("W10-module-service-call", 0, append(rich(101), [2]int64{111, 1000}),
		opDefine(5, 101),
		opBind(5, 126, 101, base(6000), price("10"), 1),
		opCall(1010, 5, []int64{126}, 111, 1000, 2, false, 0, 0),
		opEB(5*sec), opEB(5*sec), opEB(5*sec))
	k3Set(add)

	// W11 (K4): W7 with a 4-byte provider; message prefix only.
	add("W11-K4-short-provider-genesis-prefix", 0, append(rich(101), [2]int64{111, 1000}), w7prefix(153)...).AtomSet = "k5"

	// W12 (positive): simultaneous expiries and new batches, module callbacks, pause for funds with a state callback.
	{
		provs := []int64{126, 127, 121}
		cons := []int64{111, 112, 102, 103, 131, 132, 141, 101}
		ops := []Op{opDefine(1, 101)}
		for _, p := range provs {
			ops = append(ops, opBind(1, p, 101, base(20000), price("10"), 1))
		}
		for i, c := range cons {
			rep := i >= 4
			freq, total := uint64(0), int64(0)
			if rep {
				freq, total = 2, -1
			}
			ops = append(ops, opCall(uint64(2001+i), 1, provs, c, 1000, 2, rep, freq, total))
		}
		ops = append(ops,
			opModCall(2101, 1, provs, 112, 1000, 2, false, 0, 0, 2),
			opModCall(2102, 1, []int64{126}, 113, 1000, 1, true, 1, -1, 1),
			opEB(5*sec),
			opRespond(2102, 1, 10, 0, 126, 200, 1, true),
			opRespond(2101, 1, 10, 0, 126, 200, 2, true),
			opRespond(2101, 1, 10, 1, 127, 200, 3, false),
			opEB(5*sec), // module context 2: batch 2 cannot be paid -> paused, one state callback
			opEB(5*sec), // 24 requests of 8 contexts and module context 1 expire; 4 repeated contexts start batch 2 at once
			opEB(5*sec),
			opEB(5*sec), // batch 2 of the repeated contexts expires
			opEB(5*sec))
		f := rich(101, 111, 112, 102, 103, 131, 132, 141)
		f = append(f, [2]int64{113, 15})
		add("W12-positive-simultaneous-expiry-callbacks", 0, f, ops...)
	}

	// W13 (K5): owners that are not 20 bytes: the owner-prefixed scans are inexact and withdraw-all panics.
	add("W13-K5-short-owner", 0, rich(151, 152),
		opDefine(1, 151),
		opBind(1, 153, 151, base(6000), price("10"), 1),
		opBind(1, 154, 152, base(6000), price("10"), 1),
		opWithdraw(151, 0),
		Op{Kind: "query"}).AtomSet = "k5"

	// W14 (positive): the boundaries the mutation study showed the other witnesses do not reach: cap = price,
	// block time exactly at the start / end of a time promotion, a volume tier reached, super-mode time-out
	// (no slash) and super-mode malformed answer (slash), answers by a stranger / twice / after the expiry
	// block, a killed context that is still answered and then removed, refused pause / kill / update / start.
	{
		t0 := time0.Unix()
		promo := PricingArg{Kind: "P", Price: "10", Denom: denom, T: []PT{{Start: t0 + 5, End: t0 + 10, Disc: "0.5"}}, V: []PV{{Vol: 1, Disc: "0.5"}}}
		super := func(tx uint64) Op {
			o := opCall(tx, 1, []int64{127}, 112, 1000, 2, false, 0, 0)
			o.Super = true
			return o
		}
		upd := Op{Kind: "updctx", Tx: 3005, Who: 113, Dep: CoinsArg{Kind: "E"}, Freq: 3}
		add("W14-positive-boundaries", 0, append(rich(101), [2]int64{111, 1000}, [2]int64{112, 1000}, [2]int64{113, 1000}),
			opDefine(1, 101),
			opBind(1, 126, 101, base(20000), promo, 1),
			opBind(1, 127, 101, base(20000), price("10"), 2),
			opCall(3001, 1, []int64{126}, 111, 10, 1, true, 1, -1), // A: cap = price
			super(3002), // B: never answered
			super(3003), // C: answered with a malformed output
			opCall(3004, 1, []int64{127}, 113, 1000, 2, false, 0, 0),       // D: one-shot
			opCall(3005, 1, []int64{127}, 113, 1000, 2, true, 2, 2),        // E: killed in flight
			opModCall(3006, 1, []int64{127}, 113, 1000, 2, false, 0, 0, 1), // F: module-created
			opCall(3007, 1, []int64{127}, 112, 1000, 2, true, 2, -1),       // G: killed in flight, never answered
			opCtx("kill", 3004, 113),                                       // refused: not repeated
			opCtx("pause", 3004, 113),                                      // refused: not repeated
			opCtx("pause", 3006, 113),                                      // refused: module-created
			opEB(5*sec),
			opRespond(3001, 1, 10, 0, 141, 200, 1, true),  // refused: a stranger
			opRespond(3001, 1, 10, 0, 126, 200, 2, true),  // accepted, volume 1
			opRespond(3001, 1, 10, 0, 126, 200, 3, true),  // refused: already answered
			opRespond(3003, 1, 10, 0, 127, 200, 4, false), // accepted, slashed although super mode
			opCtx("kill", 3005, 113),
			opCtx("kill", 3007, 112),
			upd,                                          // refused: completed
			opCtx("start", 3005, 113),                    // refused: completed
			opRespond(3005, 1, 10, 0, 127, 200, 5, true), // accepted: the batch of a killed context is still answerable
			opEB(5*sec),                                  // A: batch 2 at the very start of the promotion, volume tier reached: fee 2
			opEB(5*sec),                                  // A: batch 2 times out (slash, refund), batch 3 at the very end of the promotion: fee 5; B times out unslashed; E removed
			opRespond(3001, 2, 11, 0, 126, 200, 6, true), // refused: after the expiry block
			opEB(5*sec))
	}

	// W16 (positive): the owning module changes the response threshold of its context between batches. Two
	// providers, 127 permanently priced above the cap, so exactly one is eligible. Threshold 1: batch 1 is issued.
	// Threshold -> 2: batch 2 is SKIPPED (1 eligible < 2) and completes at its expiry with ([], error) judged by the
	// threshold 2 recorded at its start, although the module has lowered the threshold to 1 again by then; batch 3 is
	// issued with per-batch threshold 1 and its single answer satisfies it. Refused: a threshold above the number of
	// providers (given, or kept when none are given), a consumer that is not the context's. Then pause / start /
	// kill through the keeper API, which the message handlers refuse for a module context.
	{
		modUpd := func(who int64, thr int64, provs ...int64) Op {
			return Op{Kind: "modupd", Tx: 4001, Who: who, Thr: thr, Provs: provs, Dep: CoinsArg{Kind: "E"}}
		}
		add("W16-module-threshold-update", 0, append(rich(101), [2]int64{111, 1000}),
			opDefine(1, 101),
			opBind(1, 126, 101, base(20000), price("10"), 1),
			opBind(1, 127, 101, base(400000), price("2000"), 1),
			opModCall(4001, 1, []int64{126, 127}, 111, 1000, 1, true, 1, -1, 1),
			opEB(5*sec), // H=10: batch 1 to 126 only, per-batch threshold 1
			opRespond(4001, 1, 10, 0, 126, 200, 1, true), // callback ([1], no error)
			modUpd(112, 2),      // refused: not the consumer of the context
			modUpd(111, 3),      // refused: 3 > 2 providers
			modUpd(111, 0, 126), // accepted: the kept threshold 1 <= 1 provider given; providers := [126]
			modUpd(111, 2, 126), // refused: 2 > 1 provider given
			modUpd(111, 2, 126, 127), // accepted: threshold 2, providers [126 127]; the per-batch threshold stays 1
			opCtx("pause", 4001, 111), // refused: a message cannot drive a module context
			opEB(5*sec), // H=11: batch 2 SKIPPED (1 eligible < 2), per-batch threshold 2
			modUpd(111, 0, 126), // refused: the kept threshold 2 > 1 provider given
			modUpd(111, 1),      // accepted: threshold 1; batch 2 keeps its threshold 2
			opEB(5*sec), // H=12: batch 2 expires: callback ([], error); batch 3 issued with per-batch threshold 1
			opRespond(4001, 3, 12, 0, 126, 200, 2, true), // callback ([2], no error)
			opCtx("modpause", 4001, 112), // refused: not the consumer
			opCtx("modpause", 4001, 111),
			opCtx("modpause", 4001, 111), // refused: not running
			opEB(5*sec), // H=13: batch 3 (answered) expires; paused: nothing queued
			opCtx("modstart", 4001, 111), // running again, new batch due at once
			opCtx("modstart", 4001, 111), // refused: not paused
			opEB(5*sec), // H=14: batch 4 issued
			opCtx("modkill", 4001, 111),
			modUpd(111, 1), // refused: completed
			opEB(5*sec),    // H=15: batch 4 times out (slash, refund), callback ([], error); context removed
			opEB(5*sec))
	}

	// W17: the refund deadline is an instant, not a second: disabled at +0.6 s with a 10 s waiting period
	// (cfg 0: 5 s + 5 s), a refund at +10.3 s (same wall-clock second as the deadline +10.6 s) is refused,
	// at +10.6 s it is paid.
	ms := int64(1e6)
	add("W17-refund-deadline-subsecond", 0, rich(101),
		opDefine(1, 101),
		opBind(1, 126, 101, base(6000), price("1"), 1),
		opEB(600*ms),
		Op{Kind: "disable", Svc: 1, Prov: 126, Owner: 101},
		opEB(5*sec),
		opEB(4*sec+700*ms),
		Op{Kind: "refunddep", Svc: 1, Prov: 126, Owner: 101},
		opEB(300*ms),
		Op{Kind: "refunddep", Svc: 1, Prov: 126, Owner: 101})

	// W18 (seed C06-4): governance parameter changes inside a history. A provider binds with QoS 150 while
	// the maximum request timeout is 200; the maximum is lowered to 100 (the binding is grandfathered); a
	// call with timeout 100 = the CURRENT maximum names that provider: QoS 150 > timeout 100, so it is not
	// eligible and the batch is skipped without a request or a charge. A second provider bound with QoS 100
	// under the new maximum IS eligible under the same terms. Illegal proposals are refused without a trace;
	// QoS 101 can no longer be bound; the final query step reads the parameters in force.
	{
		pset := func(f func(c *Cfg)) Op {
			c := cfgs[0]
			f(&c)
			return Op{Kind: "setparams", P: &c}
		}
		add("W18-param-change-qos-above-timeout", 0, append(rich(101), [2]int64{111, 1000}),
			pset(func(c *Cfg) { c.MaxTimeout = 200 }),
			opDefine(1, 101),
			opBind(1, 126, 101, base(6000), price("2"), 150),
			pset(func(c *Cfg) { c.MaxTimeout = 100; c.Tax = "1" }),   // refused: tax = 1
			pset(func(c *Cfg) { c.MaxTimeout = 0 }),                  // refused: timeout 0
			pset(func(c *Cfg) { c.MaxTimeout = 100; c.Slash = "1.000000000000000001" }), // refused: slash > 1
			pset(func(c *Cfg) { c.MaxTimeout = 100; c.Multiple = 0 }), // refused: multiple 0
			pset(func(c *Cfg) { c.MaxTimeout = 100; c.Tax = "0.25"; c.Compl = 3 * time.Second }),
			opCall(1801, 1, []int64{126}, 111, 10, 100, false, 0, 0),  // timeout = current maximum
			opCall(1802, 1, []int64{126}, 111, 10, 101, false, 0, 0),  // refused: above the current maximum
			opBind(1, 127, 101, base(6000), price("2"), 101),          // refused: QoS above the current maximum
			opBind(1, 127, 101, base(6000), price("2"), 100),
			opCall(1803, 1, []int64{126, 127}, 111, 10, 100, false, 0, 0),
			opEB(5*sec), // 1801: skipped (no eligible provider); 1803: one request, to 127 only
			opRespond(1803, 1, 10, 0, 127, 200, 1, true), // fee 2, tax 25 % = floor(0.5) = 0
			pset(func(c *Cfg) { c.MaxTimeout = 100; c.Tax = "0.25"; c.Compl = 3 * time.Second; c.Multiple = 100; c.MinDeposit = 10 }),
			Op{Kind: "query"},
			opEB(5*sec))
	}

	hs = append(hs, corpusC17()...)
	hs = append(hs, corpusFiles("corpus")...)
	return hs
}

// corpusFiles loads the minimised failures kept as JSON histories (one file per history) from dir,
// relative to the working directory (the checks run with /verif as working directory).
func corpusFiles(dir string) []*History {
	names, _ := filepath.Glob(filepath.Join(dir, "*.json"))
	sort.Strings(names)
	var out []*History
	for _, n := range names {
		b, err := os.ReadFile(n)
		if err != nil {
			continue
		}
		var h History
		if json.Unmarshal(b, &h) != nil || len(h.Ops) == 0 {
			continue
		}
		out = append(out, &h)
	}
	return out
}
