package main

import (
	"bufio"
	"fmt"
	"sort"
	"strings"
	"time"

	abci "github.com/tendermint/tendermint/abci/types"
	tmproto "github.com/tendermint/tendermint/proto/tendermint/types"

	sdk "github.com/cosmos/cosmos-sdk/types"

	service "github.com/irismod/service"
	"github.com/irismod/service/types"
)

// History is a config, a funding and a list of fully resolved ops.
type History struct {
	ID      int
	Name    string
	Seed    int64
	CfgIdx  int
	Funding [][2]int64 // atom, amount
	Ops     []Op
	AtomSet string `json:",omitempty"` // "" = standardAtoms, "k5" = plus the short addresses of W11 / W13
}

type slashEv struct {
	Rid string
	Amt string
}

// Runner executes one history on a cache branch of the world's base context.
type Runner struct {
	w        *World
	a        *Atoms
	cfg      Cfg
	ctx      sdk.Context
	height   int64
	now      time.Time
	out      *bufio.Writer
	step     int
	supply0  sdk.Int
	feeColl0 sdk.Int
	prev     map[string]string
	snap     *Snap
	mon      *Monitors
	hist     *History
	results  []string
	lastSlash []slashEv
	lastBatch []batchEv // new_batch_request events of the current EndBlock (C18)
	qLines    []string // sampled query arguments of the current query step (queries.go)
	qGroup    []string // observation group `query` of the current query step
	wantDigest bool     // C20: record a state digest after every step
	digests    []string
}

var groupsOrder = []string{"bank", "oblig", "bind", "index", "ctx", "queue", "req", "vol", "cb", "slash"}

func newRunner(w *World, a *Atoms, h *History, out *bufio.Writer) *Runner {
	ctx, _ := w.base.CacheContext()
	w.cbLog = nil
	r := &Runner{w: w, a: a, cfg: cfgs[h.CfgIdx], ctx: ctx, height: height0, now: time0, out: out, prev: map[string]string{}, hist: h}
	w.k.SetParams(r.ctx, r.cfg.params())
	r.supply0 = w.supply(r.ctx)
	r.feeColl0 = w.balance(r.ctx, w.moduleAddr("fee_collector"))
	for _, f := range h.Funding {
		w.fund(r.ctx, a.addr(f[0]), f[1])
	}
	r.snap = w.scan(r.ctx)
	r.mon = newMonitors(r)
	return r
}

func scaled(s string) string { return decToScaled(s).String() }

func (r *Runner) header() {
	h := r.hist
	fmt.Fprintf(r.out, "H %d %d %d %s\n", h.ID, h.Seed, h.CfgIdx, h.Name)
	c := r.cfg
	fmt.Fprintf(r.out, "P %d %d %d %s %s %d %d %d %d %d %d\n", c.MaxTimeout, c.Multiple, c.MinDeposit, scaled(c.Tax), scaled(c.Slash),
		int64(c.Arb), int64(c.Compl), r.a.svcAtom[modSvc], cbModAtom, height0, time0.UnixNano())
	for _, at := range r.a.allAddrAtomsSorted() {
		fmt.Fprintf(r.out, "A %d %x\n", at, r.a.addrBytes[at])
	}
	// the module registered for modSvc: provider atom, result code, output atom, output valid
	fmt.Fprintf(r.out, "M %d %d %d 1\n", r.a.atomOfAddr(r.w.modProv), modSvcCode, modSvcOut)
	for _, f := range h.Funding {
		fmt.Fprintf(r.out, "F %d %d\n", f[0], f[1])
	}
	r.observe(-1)
}

func parseSlash(evs []abci.Event) []slashEv {
	var out []slashEv
	for _, e := range evs {
		if e.Type != types.EventTypeServiceSlash {
			continue
		}
		var rid, coins string
		for _, at := range e.Attributes {
			switch string(at.Key) {
			case types.AttributeKeyRequestID:
				rid = string(at.Value)
			case types.AttributeKeySlashedCoins:
				coins = string(at.Value)
			}
		}
		amt := "0"
		if coins != "" {
			cs, err := sdk.ParseCoins(coins)
			if err == nil {
				amt = cs.AmountOf(denom).String()
			} else {
				amt = "?" + coins
			}
		}
		out = append(out, slashEv{rid, amt})
	}
	return out
}

func hexToBytes(s string) []byte {
	var b []byte
	fmt.Sscanf(s, "%x", &b)
	return b
}

// exec runs one op against the implementation and returns ok / err / panic.
func (r *Runner) exec(o *Op) (res string) {
	r.w.cbLog = nil
	r.lastSlash = nil
	r.lastBatch = nil
	switch o.Kind {
	case "endblock":
		r.ctx = r.ctx.WithEventManager(sdk.NewEventManager())
		func() {
			defer func() {
				if e := recover(); e != nil {
					res = "panic"
					o.Note = fmt.Sprint(e)
				}
			}()
			service.EndBlocker(r.ctx, r.w.k)
			res = "ok"
		}()
		r.lastSlash = parseSlash(r.ctx.EventManager().ABCIEvents())
		r.lastBatch = parseNewBatch(r.ctx.EventManager().ABCIEvents())
		r.height++
		r.now = r.now.Add(time.Duration(o.Dt))
		r.ctx = r.ctx.WithBlockHeader(tmproto.Header{Height: r.height, Time: r.now})
		return res
	case "query":
		r.runQueries()
		return "ok"
	case "export":
		return "ok"
	}
	cctx, write := r.ctx.CacheContext()
	cctx = cctx.WithValue(types.TxHash, txHash(o.Tx)).WithValue(types.MsgIndex, o.Idx)
	defer func() {
		if e := recover(); e != nil {
			res = "panic"
			o.Note = fmt.Sprint(e)
		}
	}()
	switch o.Kind {
	case "transfer":
		o.OK = true
		if o.Amt <= 0 {
			return "err"
		}
		err := r.w.app.BankKeeper.SendCoins(cctx, r.a.addr(o.From), r.a.addr(o.To), sdk.NewCoins(sdk.NewCoin(denom, sdk.NewInt(o.Amt))))
		if err != nil {
			return "err"
		}
	case "modcall":
		o.OK = true
		var provs []sdk.AccAddress
		for _, p := range o.Provs {
			provs = append(provs, r.a.addr(p))
		}
		mod := ""
		if o.Mod == cbModAtom {
			mod = cbModule
		} else if o.Mod != 0 {
			mod = "unregistered"
		}
		_, err := r.w.k.CreateRequestContext(cctx, r.a.svcName[o.Svc], provs, r.a.addr(o.Cons), inputText(o.Input, o.InputOK), o.Dep.coins(),
			o.Timeout, o.Super, o.Rep, o.Freq, o.Total, types.RUNNING, uint32(o.Thr), mod)
		if err != nil {
			return "err"
		}
	case "setparams":
		// governance parameter change: the proposal handler validates the set (types/params.go, the same
		// per-field validators the params subspace applies) and stores it; no message, no signer. An illegal
		// set is refused and nothing is written. From the next step on every monitor, query and export that
		// reads r.cfg sees the parameters in force.
		o.OK = true
		p := o.P.proposed()
		if err := p.Validate(); err != nil {
			o.Note = err.Error()
			return "err"
		}
		r.w.k.SetParams(cctx, p)
		write()
		r.cfg = *o.P
		return "ok"
	case "modupd", "modpause", "modstart", "modkill":
		// the module that owns the context drives it through the keeper API (no message, no ValidateBasic)
		o.OK = true
		id := ctxID(o.Tx, o.Idx)
		var err error
		switch o.Kind {
		case "modupd":
			var provs []sdk.AccAddress
			for _, p := range o.Provs {
				provs = append(provs, r.a.addr(p))
			}
			err = r.w.k.UpdateRequestContext(cctx, id, provs, uint32(o.Thr), o.Dep.coins(), o.Timeout, o.Freq, o.Total, r.a.addr(o.Who))
		case "modpause":
			err = r.w.k.PauseRequestContext(cctx, id, r.a.addr(o.Who))
		case "modstart":
			err = r.w.k.StartRequestContext(cctx, id, r.a.addr(o.Who))
		case "modkill":
			err = r.w.k.KillRequestContext(cctx, id, r.a.addr(o.Who))
		}
		if err != nil {
			o.Note = err.Error()
			return "err"
		}
	default:
		msg := o.msg(r.a)
		if verr := msg.ValidateBasic(); verr != nil {
			o.Note = "basic: " + verr.Error()
			return "err"
		}
		o.OK = true
		result, err := r.w.handler(cctx, msg)
		if err != nil {
			o.Note = err.Error()
			return "err"
		}
		r.lastSlash = parseSlash(result.Events)
	}
	write()
	return "ok"
}

// observe writes the groups that changed since the previous step.
func (r *Runner) observe(step int) {
	r.snap = r.w.scan(r.ctx)
	g := r.lines(r.snap)
	for _, c := range r.w.cbLog {
		if c.kind == "r" {
			var outs []int64
			for _, o := range c.outs {
				outs = append(outs, outputAtom(o))
			}
			g["cb"] = append(g["cb"], fmt.Sprintf("cbr %s %s %d", ctxLine(c.ctxID), listLine(outs), b2i(c.err)))
		} else {
			g["cb"] = append(g["cb"], fmt.Sprintf("cbs %s", ctxLine(c.ctxID)))
		}
	}
	for _, s := range r.lastSlash {
		g["slash"] = append(g["slash"], fmt.Sprintf("sl %s %s", ridLine(hexToBytes(s.Rid)), s.Amt))
	}
	for _, name := range groupsOrder {
		joined := strings.Join(g[name], "\n")
		if old, ok := r.prev[name]; ok && old == joined {
			continue
		}
		r.prev[name] = joined
		fmt.Fprintf(r.out, "G %d %s %d\n", step, name, len(g[name]))
		for _, l := range g[name] {
			fmt.Fprintf(r.out, "L %s\n", l)
		}
	}
	// group `query`: on query steps only, and on every one of them
	if r.qGroup != nil {
		fmt.Fprintf(r.out, "G %d query %d\n", step, len(r.qGroup))
		for _, l := range r.qGroup {
			fmt.Fprintf(r.out, "L %s\n", l)
		}
		r.qGroup = nil
	}
}

// apply executes the op, writes it with its result and observations, and runs the monitors.
func (r *Runner) apply(o *Op) string {
	pre := r.mon.before(o)
	res := r.exec(o)
	for _, q := range r.qLines {
		fmt.Fprintf(r.out, "Q %d %s\n", r.step, q)
	}
	r.qLines = nil
	fmt.Fprintf(r.out, "O %d %s\n", r.step, o.line())
	fmt.Fprintf(r.out, "R %d %s\n", r.step, res)
	r.observe(r.step)
	if o.Kind == "export" {
		r.exportStep() // monitor C19 + group gen, on cache branches
	}
	r.mon.after(o, res, pre)
	r.results = append(r.results, res)
	if r.wantDigest {
		r.digests = append(r.digests, r.digest(res))
	}
	r.hist.Ops = append(r.hist.Ops, *o)
	r.step++
	return res
}

func (r *Runner) finish() {
	fmt.Fprintf(r.out, "E %d\n", r.hist.ID)
}

func sortedKeys(m map[string]int) []string {
	var ks []string
	for k := range m {
		ks = append(ks, k)
	}
	sort.Strings(ks)
	return ks
}
