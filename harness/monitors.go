package main

import (
	"bytes"
	"encoding/binary"
	"fmt"
	"math/big"
	"sort"
	"strings"

	sdk "github.com/cosmos/cosmos-sdk/types"

	"github.com/irismod/service/types"
)

// Violation of a property's own predicate, observed on the implementation.
type Violation struct {
	Prop   string
	Step   int
	Detail string
}

type Pre struct {
	snap *Snap
	bal  map[int64]*big.Int
	esc  *big.Int
	dep  *big.Int
	fee  *big.Int
	sup  *big.Int
	h    int64
	now  int64
}

type Monitors struct {
	r     *Runner
	viol  []Violation
	evals map[string]int
	// history-long facts
	defsSeen  map[string]string  // name -> serialized definition
	bindOwner map[bindKey]string // binding -> owner
	provOwner map[string]string
	ctxSeen   map[string]*ctxTrack
	rel       *relState // per-history memory of the step-relational monitors
	k2, k5    bool      // the history contains a K2 / K5 input (frequency >= 2^62, signer address not 20 bytes)
}

// ctxTrack: what C10 remembers about one context over the history.
type ctxTrack struct {
	maxTotal   int64 // largest non-negative total ever in force
	unlimited  bool  // a negative total was in force at some point
	createdAt  int64 // height of the block containing the call
	lastStart  int64 // height of the EndBlock that last advanced the counter, -1 = none
	freqAtLast uint64
	toutAtLast int64
	steady     bool // running, with unchanged timeout and frequency, ever since lastStart
	restarted  bool // was seen not running at some point
}

func newMonitors(r *Runner) *Monitors {
	return &Monitors{r: r, evals: map[string]int{}, defsSeen: map[string]string{}, bindOwner: map[bindKey]string{},
		provOwner: map[string]string{}, ctxSeen: map[string]*ctxTrack{}}
}

// fail records a violation. Failures that stem from an input class recorded as
// a known finding carry the prefix "K1: " .. "K5: " so that the caller can
// classify them; every other failure is a genuine alarm.
func (m *Monitors) fail(prop string, format string, args ...interface{}) {
	detail := fmt.Sprintf(format, args...)
	if !(len(detail) > 3 && detail[0] == 'K' && detail[2] == ':') {
		switch {
		case m.k5:
			detail = "K5: " + detail
		case m.k2 && (prop == "C10" || prop == "C11"):
			detail = "K2: " + detail
		case m.rel != nil && m.rel.k3any && (prop == "C01" || prop == "C16" || prop == "C12" || prop == "C11" || prop == "C13" || prop == "C19" || prop == "C20"):
			// aggregate state predicates cannot name the context: once the module-service
			// path (K3) ran in this history its unbacked earning / leftover records persist
			detail = "K3: " + detail
		}
	}
	v := Violation{prop, m.r.step, detail}
	m.viol = append(m.viol, v)
	fmt.Fprintf(m.r.out, "V %d %s %s\n", v.Step, v.Prop, v.Detail)
}

func (m *Monitors) balances() (map[int64]*big.Int, *big.Int, *big.Int, *big.Int, *big.Int) {
	r := m.r
	bal := map[int64]*big.Int{}
	for _, at := range r.a.addrAtomsSorted() {
		bal[at] = r.w.balance(r.ctx, r.a.addr(at)).BigInt()
	}
	return bal, r.w.balance(r.ctx, r.w.moduleAddr(types.RequestAccName)).BigInt(),
		r.w.balance(r.ctx, r.w.moduleAddr(types.DepositAccName)).BigInt(),
		r.w.balance(r.ctx, r.w.moduleAddr("fee_collector")).BigInt(),
		r.w.supply(r.ctx).BigInt()
}

func (m *Monitors) before(o *Op) *Pre {
	// known-finding input classes
	if sg := o.signer(); sg != 0 && o.Kind != "respond" {
		if b, ok := m.r.a.addrBytes[sg]; ok && len(b) != 20 {
			m.k5 = true
		}
	}
	if (o.Kind == "call" || o.Kind == "modcall" || o.Kind == "updctx" || o.Kind == "modupd") && o.Freq >= 1<<62 {
		m.k2 = true
	}
	bal, esc, dep, fee, sup := m.balances()
	return &Pre{snap: m.r.snap, bal: bal, esc: esc, dep: dep, fee: fee, sup: sup, h: m.r.height, now: m.r.now.UnixNano()}
}

func ridCtx(rid string) string { return rid[:40] }
func ridBatch(rid string) uint64 {
	return binary.BigEndian.Uint64([]byte(rid[40:48]))
}

// priceOfText recomputes the truncated base price from the published text.
func priceOfText(text string) (*big.Int, bool) {
	l := rawPricingLine(text)
	if l == "unparsed" {
		return nil, false
	}
	var raw string
	fmt.Sscanf(l, "%s", &raw)
	x, _ := new(big.Int).SetString(raw, 10)
	return new(big.Int).Quo(x, prec), true
}

func (m *Monitors) minDeposit(price *big.Int) *big.Int {
	md := new(big.Int).Mul(price, big.NewInt(m.r.cfg.Multiple))
	if p := big.NewInt(m.r.cfg.MinDeposit); md.Cmp(p) < 0 {
		md = p
	}
	return md
}

// static checks the state predicates (C01 C03 C11 C12 C13 C14 C15 C16) on a snapshot.
func (m *Monitors) static(s *Snap, esc, dep *big.Int) {
	r := m.r
	// C01
	m.evals["C01"]++
	sum := new(big.Int)
	for _, rid := range s.ActID {
		if q, ok := s.Reqs[rid]; ok {
			sum.Add(sum, amountOf(q.ServiceFee))
		}
	}
	for _, e := range s.Earned {
		sum.Add(sum, e)
	}
	if sum.Cmp(esc) != 0 {
		m.fail("C01", "escrow=%s pending+earned=%s", esc, sum)
	}
	// C03
	m.evals["C03"]++
	dsum := new(big.Int)
	for _, b := range s.Binds {
		dsum.Add(dsum, amountOf(b.Deposit))
	}
	if dsum.Cmp(dep) != 0 {
		m.fail("C03", "deposit-account=%s sum-of-deposits=%s", dep, dsum)
	}
	// C11
	m.evals["C11"]++
	check := func(q []qEntry, hmap map[string]int64, name string) map[string]int {
		cnt := map[string]int{}
		for _, e := range q {
			cnt[e.ID]++
			if h, ok := hmap[e.ID]; !ok || h != e.H {
				m.fail("C11", "%s entry (%d,%s) without matching pointer", name, e.H, ctxLine([]byte(e.ID)))
			}
			if e.H < r.height {
				m.fail("C11", "%s entry (%d,%s) in the past, height %d", name, e.H, ctxLine([]byte(e.ID)), r.height)
			}
			if _, ok := s.Ctxs[e.ID]; !ok {
				m.fail("C11", "%s entry for missing context %s", name, ctxLine([]byte(e.ID)))
			}
		}
		for id, n := range cnt {
			if n > 1 {
				m.fail("C11", "%d %s entries for context %s", n, name, ctxLine([]byte(id)))
			}
		}
		for id := range hmap {
			if cnt[id] == 0 {
				m.fail("C11", "%s pointer without entry for %s", name, ctxLine([]byte(id)))
			}
		}
		return cnt
	}
	ec := check(s.ExpQ, s.ExpH, "expiry")
	nc := check(s.NewQ, s.NewH, "new-batch")
	for id, rc := range s.Ctxs {
		n := ec[id] + nc[id]
		if ec[id] > 0 && nc[id] > 0 {
			m.fail("C11", "context %s in both queues", ctxLine([]byte(id)))
		}
		if rc.State == types.RUNNING && n != 1 {
			m.fail("C11", "running context %s has %d pending events", ctxLine([]byte(id)), n)
		}
	}
	for _, rid := range s.ActID {
		q, ok := s.Reqs[rid]
		if !ok {
			m.fail("C11", "active marker without request %s", ridLine([]byte(rid)))
			continue
		}
		rc, ok := s.Ctxs[ridCtx(rid)]
		if !ok {
			m.fail("C11", "active request %s of missing context", ridLine([]byte(rid)))
			continue
		}
		if rc.BatchCounter != ridBatch(rid) {
			m.fail("C11", "active request %s not of current batch %d", ridLine([]byte(rid)), rc.BatchCounter)
		}
		if h, ok := s.ExpH[ridCtx(rid)]; !ok || h != q.ExpirationHeight {
			m.fail("C11", "active request %s expires at %d but context expiry pointer is %d (present=%v)", ridLine([]byte(rid)), q.ExpirationHeight, h, ok)
		}
	}
	// C16
	m.evals["C16"]++
	act := map[string]bool{}
	for _, rid := range s.ActID {
		act[rid] = true
	}
	for rid := range s.Reqs {
		rc, ok := s.Ctxs[ridCtx(rid)]
		if !ok {
			m.fail("C16", "request %s of missing context", ridLine([]byte(rid)))
			continue
		}
		if rc.BatchCounter != ridBatch(rid) {
			m.fail("C16", "request %s outside current batch %d", ridLine([]byte(rid)), rc.BatchCounter)
		}
		if _, ok := s.ExpH[ridCtx(rid)]; !ok {
			m.fail("C16", "request %s of a batch with no pending expiry", ridLine([]byte(rid)))
		}
	}
	for rid := range s.Resps {
		if _, ok := s.Reqs[rid]; !ok {
			m.fail("C16", "response without request %s", ridLine([]byte(rid)))
		}
		if act[rid] {
			m.fail("C16", "answered request %s still pending", ridLine([]byte(rid)))
		}
	}
	ab := map[string]bool{}
	for _, e := range s.ActBind {
		ab[e.Rid] = true
		q, ok := s.Reqs[e.Rid]
		if !ok {
			m.fail("C16", "binding marker without request %s", ridLine([]byte(e.Rid)))
			continue
		}
		rc := s.Ctxs[ridCtx(e.Rid)]
		if rc.ServiceName != e.Svc || !bytes.Equal(q.Provider, []byte(e.Prov)) || q.ExpirationHeight != e.Exp {
			m.fail("C16", "binding marker of %s does not describe its request", ridLine([]byte(e.Rid)))
		}
		if !act[e.Rid] {
			m.fail("C16", "request %s in by-binding index only", ridLine([]byte(e.Rid)))
		}
	}
	for rid := range act {
		if !ab[rid] {
			m.fail("C16", "request %s in by-id index only", ridLine([]byte(rid)))
		}
	}
	// C12 (counts while the batch's expiry is pending)
	m.evals["C12"]++
	for id, rc := range s.Ctxs {
		if _, ok := s.ExpH[id]; !ok {
			continue
		}
		nreq, nresp := uint32(0), uint32(0)
		for rid := range s.Reqs {
			if ridCtx(rid) == id && ridBatch(rid) == rc.BatchCounter {
				nreq++
			}
		}
		for rid := range s.Resps {
			if ridCtx(rid) == id && ridBatch(rid) == rc.BatchCounter {
				nresp++
			}
		}
		if nreq != rc.BatchRequestCount || nresp != rc.BatchResponseCount {
			m.fail("C12", "context %s records %d/%d requests/responses, store has %d/%d", ctxLine([]byte(id)), rc.BatchRequestCount, rc.BatchResponseCount, nreq, nresp)
		}
		done := rc.BatchRequestCount > 0 && rc.BatchRequestCount == rc.BatchResponseCount
		if done != (rc.BatchState == types.BATCHCOMPLETED) {
			m.fail("C12", "context %s batch state %v with %d/%d answered", ctxLine([]byte(id)), rc.BatchState, rc.BatchResponseCount, rc.BatchRequestCount)
		}
	}
	// C13
	m.evals["C13"]++
	byOwner := map[string]*big.Int{}
	for p, e := range s.Earned {
		o, ok := s.Owners[p]
		if !ok {
			m.fail("C13", "earnings of provider %d without owner", r.a.atomOfAddr([]byte(p)))
			continue
		}
		if byOwner[o] == nil {
			byOwner[o] = new(big.Int)
		}
		byOwner[o].Add(byOwner[o], e)
	}
	owners := map[string]bool{}
	for o := range byOwner {
		owners[o] = true
	}
	for o := range s.OwnerEarned {
		owners[o] = true
	}
	for o := range owners {
		x, y := byOwner[o], s.OwnerEarned[o]
		if x == nil {
			x = new(big.Int)
		}
		if y == nil {
			y = new(big.Int)
		}
		if x.Cmp(y) != 0 {
			m.fail("C13", "owner %d records %s, its providers sum to %s", r.a.atomOfAddr([]byte(o)), y, x)
		}
	}
	// C14
	m.evals["C14"]++
	for k, b := range s.Binds {
		if !b.Available {
			continue
		}
		price, ok := priceOfText(b.Pricing)
		if !ok {
			m.fail("C14", "binding %s/%d pricing text does not parse", k.Svc, r.a.atomOfAddr([]byte(k.Prov)))
			continue
		}
		if amountOf(b.Deposit).Cmp(m.minDeposit(price)) < 0 {
			m.fail("C14", "available binding %s/%d holds %s, minimum %s", k.Svc, r.a.atomOfAddr([]byte(k.Prov)), amountOf(b.Deposit), m.minDeposit(price))
		}
	}
	// C15
	m.evals["C15"]++
	ob := map[[3]string]bool{}
	for _, e := range s.OwnerBinds {
		ob[e] = true
		if b, ok := s.Binds[bindKey{e[1], e[2]}]; !ok || string(b.Owner) != e[0] {
			m.fail("C15", "owner-binding entry without such binding (%s)", e[1])
		}
	}
	op := map[[2]string]bool{}
	for _, e := range s.OwnerProvs {
		op[e] = true
		if s.Owners[e[1]] != e[0] {
			m.fail("C15", "owner-provider entry disagrees with provider's owner")
		}
	}
	for k, b := range s.Binds {
		if _, ok := s.Defs[k.Svc]; !ok {
			m.fail("C15", "binding of undefined service %s", k.Svc)
		}
		if !ob[[3]string{string(b.Owner), k.Svc, k.Prov}] {
			m.fail("C15", "binding %s/%d missing from owner index", k.Svc, r.a.atomOfAddr([]byte(k.Prov)))
		}
		if s.Owners[k.Prov] != string(b.Owner) {
			m.fail("C15", "binding %s/%d owner differs from provider's owner", k.Svc, r.a.atomOfAddr([]byte(k.Prov)))
		}
		if !op[[2]string{string(b.Owner), k.Prov}] {
			m.fail("C15", "binding %s/%d missing owner-provider entry", k.Svc, r.a.atomOfAddr([]byte(k.Prov)))
		}
		p, ok := s.Pricings[k]
		if !ok {
			m.fail("C15", "binding %s/%d without price terms", k.Svc, r.a.atomOfAddr([]byte(k.Prov)))
		} else {
			want := rawPricingLine(b.Pricing)
			// compare promotions textually and the price after truncation
			price, ok2 := priceOfText(b.Pricing)
			if !ok2 || price.Cmp(amountOf(p.Price)) != 0 || !samePromos(want, p) {
				m.fail("C15", "binding %s/%d stored price terms differ from its pricing text", k.Svc, r.a.atomOfAddr([]byte(k.Prov)))
			}
		}
		if err := b.Validate(); err != nil {
			m.fail("C15", "stored binding %s/%d invalid: %v", k.Svc, r.a.atomOfAddr([]byte(k.Prov)), err)
		}
		if o, ok := m.bindOwner[k]; ok && o != string(b.Owner) {
			m.fail("C15", "binding %s/%d changed owner", k.Svc, r.a.atomOfAddr([]byte(k.Prov)))
		}
		m.bindOwner[k] = string(b.Owner)
	}
	for k := range m.bindOwner {
		if _, ok := s.Binds[k]; !ok {
			m.fail("C15", "binding %s/%d disappeared", k.Svc, r.a.atomOfAddr([]byte(k.Prov)))
		}
	}
	for k := range s.Pricings {
		if _, ok := s.Binds[k]; !ok {
			m.fail("C15", "price terms without binding %s", k.Svc)
		}
	}
	for p, o := range s.Owners {
		old, ok := m.provOwner[p]
		if ok && old != o {
			m.fail("C15", "provider %d changed owner", r.a.atomOfAddr([]byte(p)))
		}
		if !ok {
			m.provOwner[p] = o // the owner as first registered: a provider has one owner for life
		}
	}
	for name, d := range s.Defs {
		ser := string(r.w.app.AppCodec().MustMarshalBinaryBare(&d))
		if old, ok := m.defsSeen[name]; ok && old != ser {
			m.fail("C15", "definition %s changed", name)
		}
		m.defsSeen[name] = ser
		if err := d.Validate(); err != nil {
			m.fail("C15", "stored definition %s invalid: %v", name, err)
		}
	}
	for name := range m.defsSeen {
		if _, ok := s.Defs[name]; !ok {
			m.fail("C15", "definition %s disappeared", name)
		}
	}
}

func samePromos(rawLine string, p types.Pricing) bool {
	var sb strings.Builder
	promoLine(&sb, p.PromotionsByTime, p.PromotionsByVolume)
	// rawLine = "<rawprice> <promos...>"
	i := bytes.IndexByte([]byte(rawLine), ' ')
	if i < 0 {
		return false
	}
	return rawLine[i:] == sb.String()
}

func (m *Monitors) after(o *Op, res string, pre *Pre) {
	bal, esc, dep, fee, sup := m.balances()
	s := m.r.snap
	m.noteK3(s)
	m.static(s, esc, dep)
	m.evals["C20"]++
	if res == "panic" {
		tag := ""
		if strings.Contains(o.Note, "Int overflow") {
			switch {
			case m.k6Input(o, pre):
				tag = "K6: " // stored deposit + top-up needs more than 255 bits
			case o.Kind == "bind" || o.Kind == "update":
				tag = "K1: "
			}
		}
		m.fail("C20", "%s%s panicked: %s", tag, o.Kind, o.Note)
	}
	m.relational(o, res, pre, s, bal, esc, dep, fee, sup)
	m.c18(s)
}

// k6Input: an update / enable whose top-up, added to the stored deposit, exceeds the largest sdk.Int
// (known finding K6: Coins.Add panics before the owner is asked to pay).
func (m *Monitors) k6Input(o *Op, pre *Pre) bool {
	if (o.Kind != "update" && o.Kind != "enable") || o.Dep.Kind != "B" || pre == nil || pre.snap == nil {
		return false
	}
	b, ok := pre.snap.Binds[bindKey{m.r.a.svcName[o.Svc], string(m.r.a.addr(o.Prov))}]
	if !ok {
		return false
	}
	amt := big.NewInt(o.Dep.Amt)
	if o.Dep.Big != "" {
		amt, _ = new(big.Int).SetString(o.Dep.Big, 10)
	}
	sum := new(big.Int).Add(b.Deposit.AmountOf(denom).BigInt(), amt)
	return sum.BitLen() > 255
}

func sortedInt64(m map[int64]*big.Int) []int64 {
	var ks []int64
	for k := range m {
		ks = append(ks, k)
	}
	sort.Slice(ks, func(i, j int) bool { return ks[i] < ks[j] })
	return ks
}

var _ = sdk.NewInt
