package main

import (
	"bufio"
	"encoding/json"
	"fmt"
	"io"
	"os"
	"strings"
)

// failsFor replays the history and reports whether a monitor of the property fails (a failure that
// stems from a recorded finding, tagged K<n>:, does not count), and at which step first.
func failsFor(w *World, h *History, prop string) (bool, int, string) {
	c := *h
	c.Ops = append([]Op{}, h.Ops...)
	out := bufio.NewWriter(io.Discard)
	var first *Violation
	runFixed(w, &c, out, func(r *Runner) {
		for i := range r.mon.viol {
			v := r.mon.viol[i]
			if v.Prop == prop && !(len(v.Detail) > 2 && v.Detail[0] == 'K' && strings.Contains(v.Detail[:4], ":")) {
				if first == nil || v.Step < first.Step {
					first = &v
				}
			}
		}
	})
	if first == nil {
		return false, -1, ""
	}
	return true, first.Step, first.Detail
}

// shrink: greedy deletion of blocks of ops (halving block sizes), keeping a deletion whenever a
// monitor of the property still fails; finally cut after the first failing step. The ops are fully
// resolved (explicit ids and heights), so deleting a block may turn later ops into rejected ones;
// that is fine, the result only has to fail the same property.
func shrink(w *World, h *History, prop string) (*History, int, string) {
	ok, step, detail := failsFor(w, h, prop)
	if !ok {
		return nil, -1, ""
	}
	cur := *h
	cur.Ops = append([]Op{}, h.Ops[:step+1]...)
	runs := 0
	for size := len(cur.Ops) / 2; size >= 1; size /= 2 {
		for i := 0; i+size <= len(cur.Ops) && runs < 600; {
			cand := cur
			cand.Ops = append(append([]Op{}, cur.Ops[:i]...), cur.Ops[i+size:]...)
			runs++
			if ok, st, d := failsFor(w, &cand, prop); ok {
				cand.Ops = cand.Ops[:st+1]
				cur, step, detail = cand, st, d
			} else {
				i += size
			}
		}
	}
	return &cur, step, detail
}

func runShrink(w *World, path, prop, outPath string) {
	b, err := os.ReadFile(path)
	must(err)
	var h History
	must(json.Unmarshal(b, &h))
	n0 := len(h.Ops)
	m, step, detail := shrink(w, &h, prop)
	if m == nil {
		fmt.Printf("shrink: the history does not fail %s on this tree\n", prop)
		return
	}
	m.Name = h.Name + "-min"
	ob, _ := json.Marshal(m)
	must(os.WriteFile(outPath, ob, 0644))
	fmt.Printf("shrink: %d -> %d ops; fails %s at step %d: %s\n", n0, len(m.Ops), prop, step, detail)
}
