package main

// Key monitor (C18): the search for a concrete failing input of the key layer, on the
// implementation side, inside the pure key stream.
//
// Every call the stream evaluates (enumeration, random cases, and the crafted cases of
// pkCrafted below) is handed to the monitor, which looks for
//
//	collision              two different argument tuples of one key constructor, equal bytes
//	cross-family-collision two different key constructors (record families), equal bytes
//	scan-overmatch         subspace(args) is a prefix of a key of its family that was built
//	                       from arguments which differ from args on the subspace's fields
//	scan-miss              subspace(fields of the key) is NOT a prefix of the key
//	scan-cross-family      a subspace is a prefix of a key of another family
//	family-prefix          a key does not start with its family's prefix variable, or starts
//	                       with another family's
//
// Each law is checked only on the domain on which coq/Properties/C18.v proves it for the
// unchanged code (kmKeySpecs / kmScanSpecs name the theorem). Collisions outside the domain
// (owners of different lengths = known finding K5, names containing 0x00, the raw earned-fee
// prefix for providers of different lengths = repaired by the keeper's filter, D6) are counted
// in the statistics and never reported: the unchanged tree gives zero findings.

import (
	"bytes"
	"encoding/hex"
	"fmt"
	"os"
	"sort"
	"strconv"
	"strings"

	sdk "github.com/cosmos/cosmos-sdk/types"
	sdkbech32 "github.com/cosmos/cosmos-sdk/types/bech32"

	"github.com/irismod/service/types"
)

// ---------------------------------------------------------------------------------------
// what is written out

type KMCall struct {
	Fn     string   `json:"fn"`
	Args   []string `json:"args"`   // stream syntax: hex ("-" = empty) / decimal, in the order of the Go parameters
	Result string   `json:"result"` // hex
	Pretty string   `json:"pretty"` // the same call for the reader (printable names as text, lengths)
}

type KMFinding struct {
	Kind    string   `json:"kind"`
	Prop    string   `json:"prop"`
	Theorem string   `json:"theorem"`           // the statement of Properties/C18.v that the two calls contradict
	Calls   []KMCall `json:"calls"`             // collision: the two calls; scan-*: [subspace call, key call]; family-prefix: [key call]
	Subject []string `json:"subject,omitempty"` // scan-*: the values of the subspace's fields the key was built from
	Detail  string   `json:"detail"`
}

type KeyMonSummary struct {
	KeyCalls              int            `json:"key_calls"`                 // distinct (constructor, arguments) evaluated
	SubspaceCalls         int            `json:"subspace_calls"`            // distinct (subspace function, arguments) evaluated
	DistinctKeyBytes      int            `json:"distinct_key_bytes"`        // distinct results of the constructors
	CollisionComparisons  int            `json:"collision_comparisons"`     // every key result against all earlier ones (hash index): one per distinct call
	EqualBytesPairs       int            `json:"equal_bytes_pairs"`         // pairs of distinct calls with equal bytes that were judged
	OutOfDomainCollisions int            `json:"out_of_domain_collisions"`  // of these: outside the injective domain (K5 class, 0x00 in names, ...): not reported
	ScanComparisons       int            `json:"scan_comparisons"`          // (subspace call, key call of the same family) pairs decided: prefix test + subject comparison
	ScanPrefixMatches     int            `json:"scan_prefix_matches"`       // of these: the subspace is a prefix of the key
	K5Overmatches         int            `json:"k5_overmatches"`            // of the out-of-domain over-matches: an owner-prefixed scan of one owner matching the key of an owner of ANOTHER length (known finding K5)
	K5Example             string         `json:"k5_example"`
	OutOfDomainOvermatch  int            `json:"out_of_domain_overmatches"` // over-matches outside the exact domain (K5 class, raw earned prefix, 0x00 in names): not reported
	ScanCompleteness      int            `json:"scan_completeness_checks"`  // subspace(fields of the key) evaluated and tested to be a prefix of the key
	CrossFamilyTests      int            `json:"scan_cross_family_tests"`   // (subspace call, key of another family) pairs decided
	FamilyPrefixTests     int            `json:"family_prefix_tests"`
	BechExtensions        int            `json:"bech32_extension_addresses"` // distinct addresses P' built and verified by kmBechExtend that occur in the cases
	CraftedCases          int            `json:"crafted_cases"`              // cases added by pkCrafted (boundary shifts, bech32 extensions, prefix-related values)
	PerKind               map[string]int `json:"findings_per_kind"`
	NFindings             int            `json:"n_findings"`
	Findings              []KMFinding    `json:"findings"` // at most kmMaxPerClass per (kind, functions), kmMaxFindings in all
}

// VERIF_KM_DEBUG=1: list on stderr what was judged to be outside the domains
var kmDebug = os.Getenv("VERIF_KM_DEBUG") != ""

const (
	kmMaxFindings = 60
	kmMaxPerClass = 3
)

// ---------------------------------------------------------------------------------------
// the laws and their domains

func kmZeroFree(b []byte) bool { return bytes.IndexByte(b, 0) < 0 }

type kmDomain func(a []pkArg) (class string, ok bool)

func kmAll(a []pkArg) (string, bool) { return "", true }
func kmNameAt(i int) kmDomain {
	return func(a []pkArg) (string, bool) { return "", kmZeroFree(a[i].b) }
}

type kmKeySpec struct {
	prefix  func() []byte // the family's prefix variable
	sig     []int         // argument positions the key is claimed to determine (nil = all)
	domains []kmDomain    // a collision of two tuples is a finding iff some domain accepts both with the same class
	theorem string
}

func kmKeySpecs() map[string]kmKeySpec {
	ownerLenName := func(o, n int) kmDomain {
		return func(a []pkArg) (string, bool) { return strconv.Itoa(len(a[o].b)), kmZeroFree(a[n].b) }
	}
	lenOf := func(i int) kmDomain {
		return func(a []pkArg) (string, bool) { return strconv.Itoa(len(a[i].b)), true }
	}
	valOf := func(i int) kmDomain {
		return func(a []pkArg) (string, bool) { return "v" + a[i].String(), true }
	}
	d := func(ds ...kmDomain) []kmDomain { return ds }
	return map[string]kmKeySpec{
		"GetServiceDefinitionKey":         {func() []byte { return types.ServiceDefinitionKey }, nil, d(kmAll), "C18_K_inj_definition"},
		"GetServiceBindingKey":            {func() []byte { return types.ServiceBindingKey }, nil, d(kmNameAt(0)), "C18_K_inj_binding"},
		"GetOwnerServiceBindingKey":       {func() []byte { return types.OwnerServiceBindingKey }, nil, d(ownerLenName(0, 1)), "C18_K_inj_owner_binding"},
		"GetOwnerKey":                     {func() []byte { return types.OwnerKey }, nil, d(kmAll), "C18_K_inj_owner"},
		"GetOwnerProviderKey":             {func() []byte { return types.OwnerProviderKey }, nil, d(lenOf(0)), "C18_K_inj_owner_provider"},
		"GetPricingKey":                   {func() []byte { return types.PricingKey }, nil, d(kmNameAt(0)), "C18_K_inj_pricing"},
		"GetWithdrawAddrKey":              {func() []byte { return types.WithdrawAddrKey }, nil, d(kmAll), "C18_K_inj_withdraw_addr"},
		"GetRequestContextKey":            {func() []byte { return types.RequestContextKey }, nil, d(kmAll), "C18_K_inj_request_context"},
		"GetExpiredRequestBatchKey":       {func() []byte { return types.ExpiredRequestBatchKey }, nil, d(kmAll), "C18_K_inj_expired_batch"},
		"GetNewRequestBatchKey":           {func() []byte { return types.NewRequestBatchKey }, nil, d(kmAll), "C18_K_inj_new_batch"},
		"GetExpiredRequestBatchHeightKey": {func() []byte { return types.ExpiredRequestBatchHeightKey }, nil, d(kmAll), "C18_K_inj_expired_batch_height"},
		"GetNewRequestBatchHeightKey":     {func() []byte { return types.NewRequestBatchHeightKey }, nil, d(kmAll), "C18_K_inj_new_batch_height"},
		"GetRequestKey":                   {func() []byte { return types.RequestKey }, nil, d(kmAll), "C18_K_inj_request"},
		"GetActiveRequestKey":             {func() []byte { return types.ActiveRequestKey }, nil, d(kmNameAt(0)), "C18_K_inj_active_request"},
		"GetActiveRequestKeyByID":         {func() []byte { return types.ActiveRequestByIDKey }, nil, d(kmAll), "C18_K_inj_active_request_by_id"},
		"GetResponseKey":                  {func() []byte { return types.ResponseKey }, nil, d(kmAll), "C18_K_inj_response"},
		"GetRequestVolumeKey":             {func() []byte { return types.RequestVolumeKey }, nil, d(kmNameAt(1)), "C18_K_inj_request_volume"},
		// provider||denom without separator: injective for providers of one length, and for one denom
		"GetEarnedFeesKey": {func() []byte { return types.EarnedFeesKey }, nil, d(lenOf(0), valOf(1)), "C18_K_inj_earned / C18_K_inj_earned_same_denom"},
		// the denom parameter is ignored by the unchanged code (C18_K_owner_earned_ignores_denom): one record per owner
		"GetOwnerEarnedFeesKey": {func() []byte { return types.OwnerEarnedFeesKey }, []int{0}, d(kmAll), "C18_K_inj_owner_earned"},
	}
}

// one prefix scan of the module: subspace function, the key constructor of the records it ranges over
type kmScanSpec struct {
	sub, key string
	// subject: the arguments of the subspace function that select exactly this key (nil, false: not decidable)
	subject func(m *keyMon, key []pkArg) ([]pkArg, bool)
	// domain on which the unchanged code is exact (sub = arguments of the subspace call, subj = subject of the key)
	domain  func(sub, subj, key []pkArg) bool
	theorem string
}

func kmScanSpecs() []kmScanSpec {
	pick := func(idx ...int) func(m *keyMon, key []pkArg) ([]pkArg, bool) {
		return func(m *keyMon, key []pkArg) ([]pkArg, bool) {
			out := make([]pkArg, len(idx))
			for i, j := range idx {
				out[i] = key[j]
			}
			return out, true
		}
	}
	// (context id, batch counter) of a request id: from the construction if the id was built by the
	// stream with the real GenerateRequestID, otherwise from the real SplitRequestID
	ofReq := func(m *keyMon, key []pkArg) ([]pkArg, bool) {
		if o, ok := m.reqOrigin[string(key[0].b)]; ok {
			return []pkArg{{k: pkBytes, b: o.ctx}, {k: pkU64, u: o.batch}}, true
		}
		c, b, _, _, err := types.SplitRequestID(pkCopy(key[0].b))
		if err != nil {
			return nil, false
		}
		return []pkArg{{k: pkBytes, b: c}, {k: pkU64, u: b}}, true
	}
	always := func(sub, subj, key []pkArg) bool { return true }
	sameLen0 := func(sub, subj, key []pkArg) bool { return len(sub[0].b) == len(subj[0].b) }
	return []kmScanSpec{
		{"GetBindingsSubspace", "GetServiceBindingKey", pick(0),
			func(sub, subj, key []pkArg) bool { return kmZeroFree(sub[0].b) && kmZeroFree(subj[0].b) }, "C18_K_scan_exact_bindings_by_service"},
		{"GetOwnerBindingsSubspace", "GetOwnerServiceBindingKey", pick(0, 1),
			func(sub, subj, key []pkArg) bool {
				return len(sub[0].b) == len(subj[0].b) && kmZeroFree(sub[1].b) && kmZeroFree(subj[1].b)
			}, "C18_K_scan_exact_bindings_by_owner_service"},
		{"GetOwnerProvidersSubspace", "GetOwnerProviderKey", pick(0), sameLen0, "C18_K_scan_exact_owner_providers"},
		{"GetExpiredRequestBatchSubspace", "GetExpiredRequestBatchKey", pick(1), always, "C18_K_scan_exact_expired_batch_by_height"},
		{"GetNewRequestBatchSubspace", "GetNewRequestBatchKey", pick(1), always, "C18_K_scan_exact_new_batch_by_height"},
		{"GetRequestSubspaceByReqCtx", "GetRequestKey", ofReq, sameLen0, "C18_K_scan_exact_requests_by_ctx_batch"},
		{"GetActiveRequestSubspaceByReqCtx", "GetActiveRequestKeyByID", ofReq, sameLen0, "C18_K_scan_exact_markers_by_ctx_batch"},
		{"GetResponseSubspaceByReqCtx", "GetResponseKey", ofReq, sameLen0, "C18_K_scan_exact_responses_by_ctx_batch"},
		{"GetActiveRequestSubspace", "GetActiveRequestKey", pick(0, 1),
			func(sub, subj, key []pkArg) bool { return kmZeroFree(sub[0].b) && kmZeroFree(subj[0].b) }, "C18_K_scan_exact_markers_by_binding"},
		// the raw prefix is exact only among providers of one length (C18_K_earned_raw_prefix_refuted; the keeper
		// filters by the exact key since repair D6)
		{"GetEarnedFeesSubspace", "GetEarnedFeesKey", pick(0), sameLen0, "C18_K_scan_exact_earned_raw_same_length"},
		{"GetOwnerEarnedFeesSubspace", "GetOwnerEarnedFeesKey", pick(0), sameLen0, "C18_K_scan_exact_owner_earned"},
	}
}

// ---------------------------------------------------------------------------------------
// the monitor

type kmRec struct {
	fn   int
	args []pkArg
	res  []byte
}

type kmReqOrigin struct {
	ctx   []byte
	batch uint64
}

type keyMon struct {
	fs        []pkFunc
	byName    map[string]int
	keySpec   map[int]kmKeySpec // by function index
	scans     []kmScanSpec
	subOf     map[int][]int // subspace function index -> scan spec indices
	reqOrigin map[string]kmReqOrigin

	seen   map[string]bool // fn|args of every distinct call
	keys   []kmRec
	subs   []kmRec
	byRes  map[string][]int // result bytes -> indices into keys
	perCls map[string][]kmScored
	sum    KeyMonSummary
}

func newKeyMon(fs []pkFunc, p *pkPools) *keyMon {
	m := &keyMon{fs: fs, byName: map[string]int{}, keySpec: map[int]kmKeySpec{}, scans: kmScanSpecs(), subOf: map[int][]int{},
		reqOrigin: p.reqOrigin, seen: map[string]bool{}, byRes: map[string][]int{}, perCls: map[string][]kmScored{}}
	m.sum.PerKind = map[string]int{}
	m.sum.Findings = []KMFinding{}
	for i, f := range fs {
		m.byName[f.name] = i
	}
	for n, s := range kmKeySpecs() {
		i, ok := m.byName[n]
		if !ok {
			panic("key monitor: no stream function " + n)
		}
		m.keySpec[i] = s
	}
	for si, s := range m.scans {
		i, ok := m.byName[s.sub]
		if _, ok2 := m.byName[s.key]; !ok || !ok2 {
			panic("key monitor: no stream function " + s.sub + " / " + s.key)
		}
		m.subOf[i] = append(m.subOf[i], si)
	}
	return m
}

func kmArgsText(args []pkArg) string {
	var sb strings.Builder
	for i, a := range args {
		if i > 0 {
			sb.WriteByte(' ')
		}
		sb.WriteString(a.String())
	}
	return sb.String()
}

func kmPretty(fn string, args []pkArg) string {
	var parts []string
	for _, a := range args {
		switch a.k {
		case pkName:
			parts = append(parts, strconv.Quote(string(a.b)))
		case pkAddr:
			parts = append(parts, fmt.Sprintf("addr[%d]%s", len(a.b), hex.EncodeToString(a.b)))
		case pkBytes:
			parts = append(parts, fmt.Sprintf("bytes[%d]%s", len(a.b), hex.EncodeToString(a.b)))
		default:
			parts = append(parts, a.String())
		}
	}
	return fn + "(" + strings.Join(parts, ", ") + ")"
}

func (m *keyMon) call(r kmRec) KMCall {
	c := KMCall{Fn: m.fs[r.fn].name, Result: pkHex(r.res), Pretty: kmPretty(m.fs[r.fn].name, r.args)}
	for _, a := range r.args {
		c.Args = append(c.Args, a.String())
	}
	return c
}

// kmOddness: how far a call is from ordinary use (20-byte addresses, printable non-empty names, ids of the real
// lengths); the findings of a class are kept and listed most ordinary first
func kmOddness(args []pkArg) int {
	n := 0
	for _, a := range args {
		switch a.k {
		case pkName:
			if len(a.b) == 0 {
				n += 6
			}
			for _, c := range a.b {
				if c < 0x21 || c > 0x7e {
					n += 10
					break
				}
			}
			n += len(a.b)
		case pkAddr:
			switch {
			case len(a.b) == 20:
			case len(a.b) == 0:
				n += 30
			case len(a.b) > 20 && len(a.b) <= 24:
				n += 4
			default:
				n += 12
			}
			if bytes.IndexByte(a.b, 0) >= 0 {
				n += 2
			}
		case pkBytes:
			if len(a.b) != 40 && len(a.b) != 58 && len(a.b) != 32 {
				n += 8
			}
		case pkI64, pkI16:
			if a.i < 0 {
				n += 3
			}
		}
	}
	return n
}

type kmScored struct {
	score int
	f     KMFinding
}

func (m *keyMon) report(kind, theorem, detail string, subject []pkArg, recs ...kmRec) {
	m.sum.NFindings++
	m.sum.PerKind[kind]++
	cls := kind
	score := 0
	for _, r := range recs {
		cls += "|" + m.fs[r.fn].name
		score += kmOddness(r.args)
	}
	best := m.perCls[cls]
	if len(best) >= kmMaxPerClass && score >= best[len(best)-1].score {
		return
	}
	f := KMFinding{Kind: kind, Prop: "C18", Theorem: theorem, Detail: detail}
	for _, r := range recs {
		f.Calls = append(f.Calls, m.call(r))
	}
	for _, a := range subject {
		f.Subject = append(f.Subject, a.String())
	}
	best = append(best, kmScored{score, f})
	sort.SliceStable(best, func(i, j int) bool { return best[i].score < best[j].score })
	if len(best) > kmMaxPerClass {
		best = best[:kmMaxPerClass]
	}
	m.perCls[cls] = best
}

// collect: the kept findings, most ordinary first
func (m *keyMon) collect() {
	var all []kmScored
	var clss []string
	for c := range m.perCls {
		clss = append(clss, c)
	}
	sort.Strings(clss)
	for _, c := range clss {
		all = append(all, m.perCls[c]...)
	}
	sort.SliceStable(all, func(i, j int) bool { return all[i].score < all[j].score })
	for _, x := range all {
		if len(m.sum.Findings) >= kmMaxFindings {
			break
		}
		m.sum.Findings = append(m.sum.Findings, x.f)
	}
}

func kmSameAt(a, b []pkArg, sig []int) bool {
	if sig == nil {
		for i := range a {
			if a[i].String() != b[i].String() {
				return false
			}
		}
		return true
	}
	for _, i := range sig {
		if a[i].String() != b[i].String() {
			return false
		}
	}
	return true
}

// observe is called for every case of the stream (result in the stream's hex syntax)
func (m *keyMon) observe(fi int, args []pkArg, result string) {
	_, isKey := m.keySpec[fi]
	_, isSub := m.subOf[fi]
	if !isKey && !isSub {
		return
	}
	id := strconv.Itoa(fi) + "|" + kmArgsText(args)
	if m.seen[id] {
		return
	}
	m.seen[id] = true
	var res []byte
	if result != "-" {
		var err error
		if res, err = hex.DecodeString(result); err != nil {
			panic("key monitor: result not hex: " + result)
		}
	}
	rec := kmRec{fi, append([]pkArg(nil), args...), res}
	if isSub {
		m.subs = append(m.subs, rec)
		return
	}
	// collision search: against every earlier key with the same bytes
	m.sum.CollisionComparisons++
	spec := m.keySpec[fi]
	dup := false
	for _, j := range m.byRes[string(res)] {
		o := m.keys[j]
		if o.fn != fi {
			m.sum.EqualBytesPairs++
			m.report("cross-family-collision", "C18_K_families_disjoint",
				fmt.Sprintf("%s and %s give the same key %s", kmPretty(m.fs[o.fn].name, o.args), kmPretty(m.fs[fi].name, args), pkHex(res)), nil, o, rec)
			continue
		}
		if kmSameAt(o.args, args, spec.sig) {
			dup = true // same record (the ignored parameters differ)
			continue
		}
		m.sum.EqualBytesPairs++
		in := false
		for _, d := range spec.domains {
			c1, ok1 := d(o.args)
			c2, ok2 := d(args)
			if ok1 && ok2 && c1 == c2 {
				in = true
			}
		}
		if !in {
			m.sum.OutOfDomainCollisions++
			if kmDebug {
				fmt.Fprintf(os.Stderr, "out-of-domain collision: %s | %s\n", kmPretty(m.fs[fi].name, o.args), kmPretty(m.fs[fi].name, args))
			}
			continue
		}
		m.report("collision", spec.theorem,
			fmt.Sprintf("%s and %s give the same key %s", kmPretty(m.fs[fi].name, o.args), kmPretty(m.fs[fi].name, args), pkHex(res)), nil, o, rec)
	}
	if dup {
		return
	}
	if len(m.byRes[string(res)]) < 16 {
		m.byRes[string(res)] = append(m.byRes[string(res)], len(m.keys))
	}
	m.keys = append(m.keys, rec)
}

// finish runs the scan-exactness and family-prefix checks over everything observed
func (m *keyMon) finish() *KeyMonSummary {
	m.sum.KeyCalls = len(m.keys)
	m.sum.BechExtensions = len(kmBechBuilt)
	m.sum.SubspaceCalls = len(m.subs)
	m.sum.DistinctKeyBytes = len(m.byRes)

	// family prefixes (whole-prefix iterations, C18_K_scan_whole)
	type fam struct {
		fn     int
		prefix []byte
	}
	var fams []fam
	for fi, s := range m.keySpec {
		fams = append(fams, fam{fi, s.prefix()})
	}
	sort.Slice(fams, func(i, j int) bool { return fams[i].fn < fams[j].fn })
	for _, k := range m.keys {
		for _, f := range fams {
			m.sum.FamilyPrefixTests++
			has := bytes.HasPrefix(k.res, f.prefix)
			if has != (f.fn == k.fn) {
				m.report("family-prefix", "C18_K_scan_whole",
					fmt.Sprintf("%s = %s: starts with the prefix %s of the records of %s: %v", kmPretty(m.fs[k.fn].name, k.args), pkHex(k.res),
						pkHex(f.prefix), m.fs[f.fn].name, has), nil, k)
			}
		}
	}

	// keys sorted by bytes: the keys a subspace ranges over are one contiguous run
	idx := make([]int, len(m.keys))
	for i := range idx {
		idx[i] = i
	}
	sort.Slice(idx, func(a, b int) bool { return bytes.Compare(m.keys[idx[a]].res, m.keys[idx[b]].res) < 0 })
	perFn := map[int]int{}
	for _, k := range m.keys {
		perFn[k.fn]++
	}

	for _, s := range m.subs {
		lo := sort.Search(len(idx), func(i int) bool { return bytes.Compare(m.keys[idx[i]].res, s.res) >= 0 })
		matched := map[int]bool{}
		var run []int
		for i := lo; i < len(idx) && bytes.HasPrefix(m.keys[idx[i]].res, s.res); i++ {
			run = append(run, idx[i])
		}
		for _, si := range m.subOf[s.fn] {
			spec := m.scans[si]
			kfn := m.byName[spec.key]
			matched[kfn] = true
			// every key of the family is decided against this subspace call: those outside the run do not match
			// (their completeness is checked below from the key's side), those inside must have this subject
			m.sum.ScanComparisons += perFn[kfn]
			for _, ki := range run {
				k := m.keys[ki]
				if k.fn != kfn {
					continue
				}
				m.sum.ScanPrefixMatches++
				subj, ok := spec.subject(m, k.args)
				if !ok {
					continue
				}
				if kmSameAt(s.args, subj, nil) {
					continue
				}
				if !spec.domain(s.args, subj, k.args) {
					m.sum.OutOfDomainOvermatch++
					if (spec.sub == "GetOwnerBindingsSubspace" || spec.sub == "GetOwnerProvidersSubspace" || spec.sub == "GetOwnerEarnedFeesSubspace") &&
						len(s.args) > 0 && len(k.args) > 0 && len(s.args[0].b) != len(k.args[0].b) && len(s.args[0].b) > 0 {
						m.sum.K5Overmatches++
						if m.sum.K5Example == "" {
							m.sum.K5Example = fmt.Sprintf("%s = %s is a prefix of %s = %s", kmPretty(spec.sub, s.args), pkHex(s.res), kmPretty(spec.key, k.args), pkHex(k.res))
						}
					}
					if kmDebug {
						fmt.Fprintf(os.Stderr, "out-of-domain overmatch: %s | %s\n", kmPretty(spec.sub, s.args), kmPretty(spec.key, k.args))
					}
					continue
				}
				m.report("scan-overmatch", spec.theorem,
					fmt.Sprintf("%s = %s is a prefix of %s = %s, a record of (%s)", kmPretty(spec.sub, s.args), pkHex(s.res),
						kmPretty(spec.key, k.args), pkHex(k.res), kmArgsText(subj)), subj, s, k)
			}
		}
		// a subspace never ranges over records of another family (C18_K_scan_stays_in_family)
		m.sum.CrossFamilyTests += len(m.keys)
		for _, ki := range run {
			k := m.keys[ki]
			if matched[k.fn] {
				continue
			}
			m.report("scan-cross-family", "C18_K_scan_stays_in_family",
				fmt.Sprintf("%s = %s is a prefix of %s = %s", kmPretty(m.fs[s.fn].name, s.args), pkHex(s.res),
					kmPretty(m.fs[k.fn].name, k.args), pkHex(k.res)), nil, s, k)
		}
	}

	// completeness: the subspace of the key's own subject ranges over the key
	for _, spec := range m.scans {
		kfn, sfn := m.byName[spec.key], m.byName[spec.sub]
		for _, k := range m.keys {
			if k.fn != kfn {
				continue
			}
			subj, ok := spec.subject(m, k.args)
			if !ok || !spec.domain(subj, subj, k.args) {
				continue
			}
			m.sum.ScanCompleteness++
			r := m.fs[sfn].call(subj)
			var sres []byte
			if r != "-" {
				sres, _ = hex.DecodeString(r)
			}
			if !bytes.HasPrefix(k.res, sres) {
				srec := kmRec{sfn, subj, sres}
				m.report("scan-miss", spec.theorem,
					fmt.Sprintf("%s = %s is not a prefix of its own record %s = %s", kmPretty(spec.sub, subj), pkHex(sres),
						kmPretty(spec.key, k.args), pkHex(k.res)), subj, srec, k)
			}
		}
	}
	m.collect()
	return &m.sum
}

// ---------------------------------------------------------------------------------------
// crafted arguments

var kmBechBuilt = map[string]bool{}

const kmBech32Charset = "qpzry9x8gf2tvdw0s3jn54khce6mua7l"

// kmBechExtend: for a 20-byte address P (exactly 32 five-bit symbols) the 24-byte address P ++ 4 bytes whose
// first 30 bits are P's six checksum symbols: its bech32 text starts with the WHOLE bech32 text of P.
// nil if the construction does not verify against the SDK's own encoder / decoder.
func kmBechExtend(p []byte) []byte {
	if len(p) != 20 {
		return nil
	}
	s := sdk.AccAddress(pkCopy(p)).String()
	i := strings.LastIndex(s, "1")
	if i < 0 || len(s)-i-1 != 38 {
		return nil
	}
	var acc, nbits uint
	var out []byte
	for _, c := range s[i+1:] + "q" {
		v := strings.IndexRune(kmBech32Charset, c)
		if v < 0 {
			return nil
		}
		acc = acc<<5 | uint(v)
		nbits += 5
		for nbits >= 8 {
			nbits -= 8
			out = append(out, byte(acc>>nbits))
			acc &= 1<<nbits - 1
		}
	}
	if len(out) != 24 || acc != 0 || !bytes.Equal(out[:20], p) {
		return nil
	}
	es := sdk.AccAddress(pkCopy(out)).String()
	_, back, err := sdkbech32.DecodeAndConvert(es)
	if err != nil || !bytes.Equal(back, out) || !strings.HasPrefix(es, s) || es == s {
		return nil
	}
	kmBechBuilt[string(out)] = true
	return out
}

func kmVar(k pkKind) bool { return k == pkName || k == pkAddr || k == pkBytes }

func kmCat(parts ...[]byte) []byte {
	var out []byte
	for _, p := range parts {
		out = append(out, p...)
	}
	if out == nil {
		out = []byte{}
	}
	return out
}

func kmBE64(v uint64) []byte {
	b := make([]byte, 8)
	for i := 7; i >= 0; i-- {
		b[i] = byte(v)
		v >>= 8
	}
	return b
}

func kmU64(b []byte) uint64 {
	var v uint64
	for _, x := range b {
		v = v<<8 | uint64(x)
	}
	return v
}

// pkCrafted: argument tuples that make a lost separator / a lost length prefix visible, for one function:
//
//	(a) boundary shifts between two variable-length parameters: (x ++ c, y) against (x, c ++ y) with c a byte
//	    or the first bytes of y; and across a 64-bit integer between two of them:
//	    (x ++ be(h)[:k], be(h)[k:] ++ r[:k], r[k:]) against (x, h, r)
//	(b) for every address parameter the bech32 extension P' of a 20-byte P (kmBechExtend) next to P
//	(c) every variable-length parameter extended by one byte / by a separator and a byte, so that the values are
//	    proper prefixes of one another and contain the bytes the layout uses as separators
//
// The same tuples are used for every function of a family (the projection of a crafted key tuple is handed to
// the subspace functions by pkCraftedSubs).
func pkCrafted(f *pkFunc, p *pkPools) [][]pkArg {
	var out [][]pkArg
	add := func(t []pkArg) { out = append(out, append([]pkArg(nil), t...)) }
	with := func(t []pkArg, i int, b []byte) []pkArg {
		c := append([]pkArg(nil), t...)
		c[i] = pkArg{k: t[i].k, b: b}
		return c
	}
	for _, base := range p.craftBases(f) {
		add(base)
		for i, k := range f.kinds {
			if !kmVar(k) {
				continue
			}
			x := base[i].b
			// (c)
			for _, ext := range [][]byte{{'a'}, {'b'}, {0x00}, {0x01}, {0xff}, {0x00, 'a'}, {'a', 0x00}, {'a', 'b'}} {
				add(with(base, i, kmCat(x, ext)))
			}
			if len(x) > 0 {
				add(with(base, i, x[:len(x)-1]))
			}
			// (b)
			if k == pkAddr {
				if e := kmBechExtend(x); e != nil {
					add(with(base, i, e))
				}
			}
			// (a) two variable-length parameters
			for j, kj := range f.kinds {
				if j == i || !kmVar(kj) {
					continue
				}
				y := base[j].b
				for _, c := range [][]byte{{'a'}, {'b'}, {0x00}, {0x01}, {0xff}} {
					add(with(with(base, i, kmCat(x, c)), j, y))
					add(with(with(base, i, x), j, kmCat(c, y)))
				}
				for n := 1; n <= 2 && n <= len(y); n++ {
					add(with(with(base, i, kmCat(x, y[:n])), j, y[n:]))
				}
				for n := 1; n <= 2 && n <= len(x); n++ {
					add(with(with(base, i, x[:len(x)-n]), j, kmCat(x[len(x)-n:], y)))
				}
			}
			// (a) across an integer: x, h, r consecutive parameters
			if i+2 < len(f.kinds) && (f.kinds[i+1] == pkI64 || f.kinds[i+1] == pkU64) && kmVar(f.kinds[i+2]) {
				hk := f.kinds[i+1]
				var hv uint64
				if hk == pkI64 {
					hv = uint64(base[i+1].i)
				} else {
					hv = base[i+1].u
				}
				r := base[i+2].b
				for n := 1; n <= 2 && n <= len(r); n++ {
					be := kmBE64(hv)
					nh := kmU64(kmCat(be[n:], r[:n]))
					t := with(with(base, i, kmCat(x, be[:n])), i+2, r[n:])
					if hk == pkI64 {
						t[i+1] = pkArg{k: pkI64, i: int64(nh)}
					} else {
						t[i+1] = pkArg{k: pkU64, u: nh}
					}
					add(t)
				}
			}
		}
	}
	return out
}

// craftBases: a few ordinary tuples (20-byte addresses, plain names, real ids, small numbers)
func (p *pkPools) craftBases(f *pkFunc) [][]pkArg {
	a1 := []byte{0x11, 0x22, 0x33, 0x44, 0x55, 0x66, 0x77, 0x88, 0x99, 0xaa, 0xbb, 0xcc, 0xdd, 0xee, 0xff, 0x01, 0x02, 0x03, 0x04, 0x73}
	a2 := append(make([]byte, 18), 'A', 'b')
	a3 := []byte("\x00a\x00bcosmos1\x00\x00\xff\xffzzzzz")
	var ctx40, req58 []byte
	for _, c := range p.ctxs {
		if len(c.b) == 40 {
			ctx40 = c.b
			break
		}
	}
	for _, r := range p.reqs {
		if len(r.b) == 58 {
			req58 = r.b
			break
		}
	}
	var bases [][]pkArg
	for v := 0; v < 3; v++ {
		t := make([]pkArg, len(f.kinds))
		nAddr := 0
		for i, k := range f.kinds {
			switch k {
			case pkName:
				if f.pools[i] == "denom" {
					t[i] = pkArg{k: k, b: []byte([]string{"stake", "s", "iris"}[v])}
				} else {
					t[i] = pkArg{k: k, b: []byte([]string{"bc", "a", "svc-1"}[v])}
				}
			case pkAddr:
				t[i] = pkArg{k: k, b: [][]byte{a1, a2, a3}[(v+nAddr)%3]}
				nAddr++
			case pkBytes:
				switch f.pools[i] {
				case "req":
					t[i] = pkArg{k: k, b: req58}
				case "hash":
					t[i] = pkArg{k: k, b: p.hashes[2].b}
				default:
					t[i] = pkArg{k: k, b: ctx40}
				}
			case pkI64:
				t[i] = pkArg{k: k, i: []int64{7, 0x0102030405060708, 1}[v]}
			case pkU64:
				t[i] = pkArg{k: k, u: []uint64{1, 0x0102030405060708, 256}[v]}
			case pkI16:
				t[i] = pkArg{k: k, i: []int64{0, 1, 258}[v]}
			}
		}
		bases = append(bases, t)
	}
	return bases
}

// pkCraftedSubs: for a subspace function, the subjects of the crafted tuples of its key constructor(s)
func pkCraftedSubs(m *keyMon, fi int, p *pkPools) [][]pkArg {
	var out [][]pkArg
	for _, si := range m.subOf[fi] {
		spec := m.scans[si]
		kf := &m.fs[m.byName[spec.key]]
		for _, t := range pkCrafted(kf, p) {
			if subj, ok := spec.subject(m, t); ok {
				out = append(out, subj)
			}
		}
	}
	return out
}

// ---------------------------------------------------------------------------------------
// replay of one finding against the current tree (harness -mode keyreplay)

func kmParseArgs(f *pkFunc, ss []string) ([]pkArg, error) {
	if len(ss) != len(f.kinds) {
		return nil, fmt.Errorf("%s takes %d arguments, got %d", f.name, len(f.kinds), len(ss))
	}
	out := make([]pkArg, len(ss))
	for i, k := range f.kinds {
		switch k {
		case pkI64, pkI16:
			v, err := strconv.ParseInt(ss[i], 10, 64)
			if err != nil {
				return nil, err
			}
			out[i] = pkArg{k: k, i: v}
		case pkU64:
			v, err := strconv.ParseUint(ss[i], 10, 64)
			if err != nil {
				return nil, err
			}
			out[i] = pkArg{k: k, u: v}
		default:
			b := []byte{}
			if ss[i] != "-" {
				var err error
				if b, err = hex.DecodeString(ss[i]); err != nil {
					return nil, err
				}
			}
			out[i] = pkArg{k: k, b: b}
		}
	}
	return out, nil
}

// runKeyReplay re-evaluates exactly the calls of the finding on the real functions and reports whether the
// defect is still there. Returns true if it is.
func runKeyReplay(f KMFinding) (bool, []string) {
	fs := pkFuncs()
	by := map[string]*pkFunc{}
	for i := range fs {
		by[fs[i].name] = &fs[i]
	}
	var lines []string
	var res [][]byte
	var args [][]pkArg
	for _, c := range f.Calls {
		fn, ok := by[c.Fn]
		if !ok {
			return false, []string{"unknown function " + c.Fn}
		}
		a, err := kmParseArgs(fn, c.Args)
		if err != nil {
			return false, []string{"bad arguments of " + c.Fn + ": " + err.Error()}
		}
		r := fn.call(a)
		var rb []byte
		if r != "-" {
			rb, _ = hex.DecodeString(r)
		}
		note := "same bytes as recorded"
		if r != c.Result {
			note = "recorded " + c.Result
		}
		lines = append(lines, fmt.Sprintf("  %s = %s   (%s)", kmPretty(c.Fn, a), r, note))
		res = append(res, rb)
		args = append(args, a)
	}
	need := map[string]int{"collision": 2, "cross-family-collision": 2, "scan-overmatch": 2, "scan-cross-family": 2, "scan-miss": 2, "family-prefix": 1}
	if n, ok := need[f.Kind]; !ok || len(res) != n {
		return false, append(lines, "malformed finding of kind "+f.Kind)
	}
	switch f.Kind {
	case "collision", "cross-family-collision":
		if f.Calls[0].Fn == f.Calls[1].Fn && kmArgsText(args[0]) == kmArgsText(args[1]) {
			return false, append(lines, "the two argument tuples are identical")
		}
		return bytes.Equal(res[0], res[1]), lines
	case "scan-overmatch":
		if len(f.Subject) == len(args[0]) {
			same := true
			for i := range f.Subject {
				same = same && f.Subject[i] == args[0][i].String()
			}
			if same {
				return false, append(lines, "the key's subject equals the subspace's arguments")
			}
		}
		return bytes.HasPrefix(res[1], res[0]), lines
	case "scan-cross-family":
		return bytes.HasPrefix(res[1], res[0]), lines
	case "scan-miss":
		return !bytes.HasPrefix(res[1], res[0]), lines
	case "family-prefix":
		specs := kmKeySpecs()
		bad := false
		for n, s := range specs {
			if bytes.HasPrefix(res[0], s.prefix()) != (n == f.Calls[0].Fn) {
				bad = true
				lines = append(lines, fmt.Sprintf("  prefix %s of %s: %v", pkHex(s.prefix()), n, n != f.Calls[0].Fn))
			}
		}
		return bad, lines
	}
	return false, lines
}
