package main

// Property C20, determinism half (implementation only): every generated history is replayed
// in two SEPARATE fresh application instances; after every step a SHA-256 digest over every
// key/value of the service store, all tracked balances, the supply and the step's result is
// compared between the generating run and both replays. Go randomises map iteration per
// range statement, so the three executions traverse the EndBlocker's provider->requests
// grouping and the genesis maps in independent orders.

import (
	"bufio"
	"crypto/sha256"
	"encoding/binary"
	"encoding/hex"
	"fmt"
	"io"

	"github.com/irismod/service/types"
)

type DetSummary struct {
	Histories         int `json:"histories"`
	Steps             int `json:"steps"`
	DigestComparisons int `json:"digest_comparisons"`
	Differences       int `json:"differences"`
	RecoveredPanics   int `json:"recovered_panics"`
	FreshInstances    int `json:"fresh_app_instances"`
}

// digest of the consensus state of the module after a step.
func (r *Runner) digest(res string) string {
	h := sha256.New()
	var n [8]byte
	put := func(b []byte) {
		binary.BigEndian.PutUint64(n[:], uint64(len(b)))
		h.Write(n[:])
		h.Write(b)
	}
	store := r.ctx.KVStore(r.w.app.GetKey(types.StoreKey))
	it := store.Iterator(nil, nil)
	for ; it.Valid(); it.Next() {
		put(it.Key())
		put(it.Value())
	}
	it.Close()
	for _, at := range r.a.addrAtomsSorted() {
		put([]byte(fmt.Sprintf("%d=%s", at, r.w.balance(r.ctx, r.a.addr(at)))))
	}
	for _, m := range []string{types.RequestAccName, types.DepositAccName, "fee_collector"} {
		put([]byte(m + "=" + r.w.balance(r.ctx, r.w.moduleAddr(m)).String()))
	}
	put([]byte("supply=" + r.w.supply(r.ctx).String()))
	put([]byte(fmt.Sprintf("h=%d t=%d", r.height, r.now.UnixNano())))
	put([]byte(res))
	return hex.EncodeToString(h.Sum(nil))
}

// replayFresh executes the resolved ops of h in a brand-new application instance.
func replayFresh(h *History) *Runner {
	c := *h
	c.Ops = append([]Op{}, h.Ops...)
	var r *Runner
	runFixedWith(newWorld(), &c, bufio.NewWriter(io.Discard), true, func(x *Runner) { r = x })
	return r
}

// checkDeterminism compares the generating run g with two replays in fresh instances.
func checkDeterminism(g *Runner, sum *Summary) {
	d := sum.Determinism
	d.Histories++
	d.Steps += len(g.hist.Ops)
	a, b := replayFresh(g.hist), replayFresh(g.hist)
	d.FreshInstances += 2
	report := func(step int, what string) {
		d.Differences++
		sum.Violations = append(sum.Violations, VRec{g.hist.ID, g.hist.Name, "C20", step, what})
	}
	for _, x := range []*Runner{g, a, b} {
		for _, res := range x.results {
			if res == "panic" {
				d.RecoveredPanics++
			}
		}
	}
	for i := range g.digests {
		for name, x := range map[string]*Runner{"first": a, "second": b} {
			d.DigestComparisons++
			if i >= len(x.digests) {
				report(i, fmt.Sprintf("%s replay in a fresh instance stopped after %d steps", name, len(x.digests)))
				return
			}
			if x.digests[i] != g.digests[i] {
				report(i, fmt.Sprintf("state digest of the %s replay differs after %s (result %s vs %s): %s vs %s",
					name, g.hist.Ops[i].Kind, g.results[i], x.results[i], g.digests[i][:16], x.digests[i][:16]))
				return
			}
		}
	}
}

// detWitness: a fixed history in which one EndBlock issues requests of several contexts to
// three providers of one service, so that the EndBlocker's provider->requests Go map has
// several entries when it is traversed (generated histories rarely reach that: measured 0 of
// 31 issuing blocks in 40 histories had two providers), followed by responses, expiry with
// slashing, a second batch and an export.
func detWitness(id int) *History {
	h := &History{ID: id, Name: "det-witness", Seed: 0, CfgIdx: 1}
	for _, o := range ownerAtoms {
		h.Funding = append(h.Funding, [2]int64{o, 50000000})
	}
	for _, c := range consumerAtoms {
		h.Funding = append(h.Funding, [2]int64{c, 1000000})
	}
	price := func(p string) PricingArg { return PricingArg{Kind: "P", Price: p, Denom: denom} }
	dep := func(n int64) CoinsArg { return CoinsArg{Kind: "B", Amt: n} }
	provs := []int64{121, 126, 127}
	h.Ops = append(h.Ops, Op{Kind: "define", Svc: 1, Content: 1, Owner: 101})
	for i, p := range provs {
		h.Ops = append(h.Ops, Op{Kind: "bind", Svc: 1, Prov: p, Owner: 101 + int64(i%2), Pr: price([]string{"10", "7", "3"}[i]), Dep: dep(1000), QoS: 1})
	}
	h.Ops = append(h.Ops, Op{Kind: "setwd", Owner: 101, Addr: 131})
	for i, c := range consumerAtoms {
		h.Ops = append(h.Ops, Op{Kind: "call", Tx: uint64(5000 - i), Idx: int64(i), Svc: 1, Provs: provs, Cons: c, Input: int64(i + 1), InputOK: true,
			Dep: dep(1000), Timeout: 2, Rep: true, Freq: 2, Total: -1})
	}
	h.Ops = append(h.Ops, Op{Kind: "endblock", Dt: int64(5e9)})
	h.Ops = append(h.Ops, Op{Kind: "respond", Tx: 5000, Idx: 0, Batch: 1, RHeight: height0, RIndex: 0, Who: 121, Code: 200, Out: 1, OutValid: true})
	h.Ops = append(h.Ops, Op{Kind: "respond", Tx: 4999, Idx: 1, Batch: 1, RHeight: height0, RIndex: 1, Who: 126, Code: 200, Out: 2, OutValid: false})
	h.Ops = append(h.Ops, Op{Kind: "export"})
	for i := 0; i < 3; i++ {
		h.Ops = append(h.Ops, Op{Kind: "endblock", Dt: int64(5e9)})
	}
	h.Ops = append(h.Ops, Op{Kind: "export"})
	return h
}


// detWitness2: the order in which the contexts due in one block are handled matters when they
// compete for one consumer's balance: a consumer holding 6 opens four one-provider contexts priced
// 3, 4, 5 and 6 in one block; in store-key order the first (3) is paid, the others pause. Any
// traversal that is not the store's key order (e.g. a Go map) gives another outcome on some replay.
func detWitness2(id int) *History {
	h := &History{ID: id, Name: "det-witness-competing", Seed: 0, CfgIdx: 1}
	for _, o := range ownerAtoms {
		h.Funding = append(h.Funding, [2]int64{o, 50000000})
	}
	h.Funding = append(h.Funding, [2]int64{111, 6})
	price := func(p string) PricingArg { return PricingArg{Kind: "P", Price: p, Denom: denom} }
	dep := func(n int64) CoinsArg { return CoinsArg{Kind: "B", Amt: n} }
	provs := []int64{121, 126, 127, 101}
	h.Ops = append(h.Ops, Op{Kind: "define", Svc: 1, Content: 1, Owner: 101})
	for i, p := range provs {
		h.Ops = append(h.Ops, Op{Kind: "bind", Svc: 1, Prov: p, Owner: 101, Pr: price([]string{"3", "4", "5", "6"}[i]), Dep: dep(1000), QoS: 1})
	}
	for i, p := range provs {
		h.Ops = append(h.Ops, Op{Kind: "call", Tx: uint64(7000 + 13*i), Idx: 0, Svc: 1, Provs: []int64{p}, Cons: 111, Input: int64(i + 1), InputOK: true,
			Dep: dep(1000), Timeout: 2, Rep: true, Freq: 2, Total: 2})
	}
	for i := 0; i < 4; i++ {
		h.Ops = append(h.Ops, Op{Kind: "endblock", Dt: int64(5e9)})
	}
	return h
}
