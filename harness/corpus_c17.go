package main

// W14 (defect D10, property C17): a history that ends in a query step. The sampled
// arguments of every query step contain the never-created context id (tx 0, idx 0), the
// request id (0,0,1,height,0) and, for every existing context, the id with idx+1. Before
// the D10 repair RequestContext / Request / Response answered them with a zero-valued
// record and no error (monitor C17 `zero-for-absent ...`, group `query`: `zero` vs `nf`).
func corpusC17() []*History {
	return []*History{{
		Name: "W14", CfgIdx: 1,
		Funding: [][2]int64{{101, 50000000}, {111, 1000}},
		Ops: []Op{
			{Kind: "define", Svc: 1, Content: 1, Owner: 101},
			{Kind: "bind", Svc: 1, Prov: 121, Owner: 101, QoS: 1, Dep: CoinsArg{Kind: "B", Amt: 100}, Pr: PricingArg{Kind: "P", Price: "1", Denom: denom}},
			{Kind: "call", Tx: 77, Idx: 0, Svc: 1, Provs: []int64{121}, Cons: 111, Input: 1, InputOK: true, Dep: CoinsArg{Kind: "B", Amt: 10}, Timeout: 2},
			{Kind: "endblock", Dt: 5000000000},
			{Kind: "query"},
		},
	}}
}
