package main

// W14 (defect D10, property C17): a history that ends in a query step. The sampled
// arguments of every query step contain the never-created context id (tx 0, idx 0), the
// request id (0,0,1,height,0) and, for every existing context, the id with idx+1. Before
// the D10 repair RequestContext / Request / Response answered them with a zero-valued
// record and no error (monitor C17 `zero-for-absent ...`, group `query`: `zero` vs `nf`).
func corpusC17() []*History {
	return []*History{{
		Name: "W14", CfgIdx: 1,
		Funding: [][2]int64{{101, 50000000}, {111, 1000}},
		Ops: []Op{
			{Kind: "define", Svc: 1, Content: 1, Owner: 101},
			{Kind: "bind", Svc: 1, Prov: 121, Owner: 101, QoS: 1, Dep: CoinsArg{Kind: "B", Amt: 100}, Pr: PricingArg{Kind: "P", Price: "1", Denom: denom}},
			{Kind: "call", Tx: 77, Idx: 0, Svc: 1, Provs: []int64{121}, Cons: 111, Input: 1, InputOK: true, Dep: CoinsArg{Kind: "B", Amt: 10}, Timeout: 2},
			{Kind: "endblock", Dt: 5000000000},
			{Kind: "query"},
		},
	}, w15()}
}

// W15 (positive, property C17): listings with several entries, which random histories
// rarely hold at the moment of a query step. Service "ab" (names "a" and "ab-1" exist
// too) bound by the 20-byte provider P, by its 19-byte prefix and by a third provider,
// for two owners; a one-shot call to all three and a repeated call to two of them issue
// 5 requests in one EndBlock; query; three answers; query; the last answer; query.
func w15() *History {
	pr := PricingArg{Kind: "P", Price: "1", Denom: denom}
	dep := CoinsArg{Kind: "B", Amt: 100}
	capc := CoinsArg{Kind: "B", Amt: 10}
	resp := func(tx uint64, idx, i, who, out int64) Op {
		return Op{Kind: "respond", Tx: tx, Idx: idx, Batch: 1, RHeight: height0, RIndex: i, Who: who, Code: 200, Out: out, OutValid: true}
	}
	return &History{
		Name: "W15", CfgIdx: 1,
		Funding: [][2]int64{{101, 50000000}, {102, 50000000}, {111, 1000000}, {112, 1000000}},
		Ops: []Op{
			{Kind: "define", Svc: 2, Content: 1, Owner: 101},
			{Kind: "define", Svc: 1, Content: 2, Owner: 102},
			{Kind: "define", Svc: 3, Content: 3, Owner: 102},
			{Kind: "bind", Svc: 2, Prov: 121, Owner: 101, QoS: 1, Dep: dep, Pr: pr},
			{Kind: "bind", Svc: 2, Prov: 122, Owner: 101, QoS: 1, Dep: dep, Pr: pr},
			{Kind: "bind", Svc: 2, Prov: 126, Owner: 102, QoS: 1, Dep: dep, Pr: pr},
			{Kind: "bind", Svc: 1, Prov: 121, Owner: 101, QoS: 1, Dep: dep, Pr: pr},
			{Kind: "bind", Svc: 3, Prov: 126, Owner: 102, QoS: 1, Dep: dep, Pr: pr},
			{Kind: "setwd", Owner: 101, Addr: 131},
			{Kind: "call", Tx: 90, Idx: 0, Svc: 2, Provs: []int64{121, 122, 126}, Cons: 111, Input: 1, InputOK: true, Dep: capc, Timeout: 2},
			{Kind: "call", Tx: 80, Idx: 1, Svc: 2, Provs: []int64{126, 121}, Cons: 112, Input: 2, InputOK: true, Dep: capc, Timeout: 1, Rep: true, Freq: 2, Total: -1},
			{Kind: "endblock", Dt: 5000000000},
			{Kind: "query"},
			resp(90, 0, 0, 121, 1),
			resp(90, 0, 2, 126, 2),
			resp(80, 1, 1, 121, 3),
			{Kind: "query"},
			resp(90, 0, 1, 122, 4),
			{Kind: "query"},
			{Kind: "endblock", Dt: 5000000000},
			{Kind: "query"},
		},
	}
}
