package main

// Property C17 "queries return exactly the stored state": query steps.
//
// On an op of kind `query` the harness calls every query of both interfaces of the
// real module (gRPC: the keeper as types.QueryServer; legacy: keeper.NewQuerier with
// amino-JSON parameters) on arguments sampled from the current raw-store snapshot
// (existing objects, capped per kind) and from the atom pools (non-existing ones:
// unknown names, names that are prefixes of existing names, providers that are byte
// prefixes of others, unbound pairs, unknown context / request ids, owners without
// bindings). Sampling is a deterministic function of (snapshot, step): replays
// re-sample the same arguments.
//
// TRACE SYNTAX added by this file (every other line kind is unchanged):
//
//   Q <step> <kind> <args…>        one line per sampled query argument, written
//                                  BEFORE the `O <step> query` line of that step
//     def     <svc>                            Definition
//     bind    <svc> <prov>                     Binding
//     binds   <svc> <owner|0>                  Bindings (0 = no owner filter)
//     wd      <owner>                          WithdrawAddress
//     ctx     <tx> <idx>                       RequestContext
//     req     <tx> <idx> <batch> <height> <i>  Request
//     reqs    <svc> <prov>                     Requests (active requests of a binding)
//     reqsctx <tx> <idx> <batch>               RequestsByReqCtx
//     resp    <tx> <idx> <batch> <height> <i>  Response
//     resps   <tx> <idx> <batch>               Responses
//     fees    <prov>                           EarnedFees
//     schema  <1 pricing | 2 result | 3 unknown name>
//     params
//   G <step> query <n> / L …        the observation group, emitted on EVERY query
//                                  step (never suppressed as "unchanged"); two lines
//                                  per Q line, in Q order:
//     g <kind> <args> = <answer>    gRPC answer
//     l <kind> <args> = <answer>    legacy answer
//   <answer> := nf                  the query's not-found error
//             | err                 any other error
//             | zero                no error, but the record returned is the zero value
//             | panic
//             | ok <fields…>
//     def    : ok <content>
//     bind   : ok <deposit> <available> <disabled ns|-1> <owner> <qos> <raw pricing line>
//     binds  : ok <n> (| <svc> <prov> <bind fields>)*       items sorted as text
//     wd     : ok <addr>
//     ctx    : ok <the fields of the `c` line of group ctx, without the id>
//     req    : ok <tx idx batch height i> <svc> <prov> <cons> <input> <fee> <super> <height> <exp> <ctx tx idx> <batch>
//     reqs, reqsctx : ok <n> (| <req fields> | zero)*       in answer (= store) order
//     resp   : ok <prov> <cons> <code> <out> <ctx tx idx> <batch>
//     resps  : ok <n> (| <resp fields>)*                     in answer (= store) order
//     fees   : ok <n> <amount>*                              n = number of coins (0 or 1)
//     schema : ok <1|2>
//     params : ok <maxTimeout> <multiple> <minDeposit> <tax·10^18> <slash·10^18> <arb ns> <complaint ns>
//
// Monitor C17 (implementation only): every answer of either interface equals what the
// raw-store snapshot says (status, every field of every record by binary encoding,
// order of listings = store order), gRPC and legacy agree, no panic, and an absent
// object is never answered with a zero value.

import (
	"bytes"
	"encoding/json"
	"fmt"
	"sort"
	"strings"

	abci "github.com/tendermint/tendermint/abci/types"

	"github.com/cosmos/cosmos-sdk/codec"
	sdk "github.com/cosmos/cosmos-sdk/types"
	"github.com/cosmos/cosmos-sdk/types/bech32"
	sdkerrors "github.com/cosmos/cosmos-sdk/types/errors"

	"github.com/irismod/service/keeper"
	"github.com/irismod/service/types"
)

const qCap = 12

type qArg struct {
	Kind  string
	Svc   int64
	Addr  int64
	Tx    uint64
	Idx   int64
	Batch uint64
	H, I  int64
	N     int64
}

func (q qArg) args() string {
	switch q.Kind {
	case "def":
		return fmt.Sprintf("%d", q.Svc)
	case "bind", "reqs", "binds":
		return fmt.Sprintf("%d %d", q.Svc, q.Addr)
	case "wd", "fees":
		return fmt.Sprintf("%d", q.Addr)
	case "ctx":
		return fmt.Sprintf("%d %d", q.Tx, q.Idx)
	case "req", "resp":
		return fmt.Sprintf("%d %d %d %d %d", q.Tx, q.Idx, q.Batch, q.H, q.I)
	case "reqsctx", "resps":
		return fmt.Sprintf("%d %d %d", q.Tx, q.Idx, q.Batch)
	case "schema":
		return fmt.Sprintf("%d", q.N)
	}
	return ""
}

func (q qArg) head() string {
	if a := q.args(); a != "" {
		return q.Kind + " " + a
	}
	return q.Kind
}

type qAns struct {
	St   string   // ok | nf | err | zero | panic
	Line string   // canonical fields when ok
	Recs [][]byte // exact encodings of the returned records, in answer order
	Note string
}

func (a qAns) text() string {
	if a.St == "ok" {
		return "ok " + a.Line
	}
	return a.St
}

func sameRecs(a, b [][]byte) bool {
	if len(a) != len(b) {
		return false
	}
	for i := range a {
		if !bytes.Equal(a[i], b[i]) {
			return false
		}
	}
	return true
}

// rot takes at most n elements starting at a step-dependent offset.
func rot(l []string, n, off int) []string {
	if len(l) <= n {
		return l
	}
	var out []string
	for i := 0; i < n; i++ {
		out = append(out, l[(off+i)%len(l)])
	}
	return out
}

func ridArg(kind string, rid []byte) qArg {
	tx, idx := splitCtx(rid[:40])
	return qArg{Kind: kind, Tx: tx, Idx: idx, Batch: beU64(rid[40:48]), H: int64(beU64(rid[48:56])),
		I: int64(int16(uint16(rid[56])<<8 | uint16(rid[57])))}
}

func (q qArg) ctxID() []byte { return ctxID(q.Tx, q.Idx) }
func (q qArg) reqID() []byte { return reqID(q.Tx, q.Idx, q.Batch, q.H, q.I) }

// sampleQueries chooses the arguments of one query step from the snapshot.
func (r *Runner) sampleQueries(s *Snap) []qArg {
	a := r.a
	off := r.step
	var qs []qArg
	seen := map[string]bool{}
	add := func(q qArg) {
		if h := q.head(); !seen[h] {
			seen[h] = true
			qs = append(qs, q)
		}
	}
	svcs := []int64{1, 2, 3, 4, 5, a.atomOfSvc("nosuch"), a.atomOfSvc("ab-")}
	owners := []int64{101, 102, 103, strangerAtom, 111}
	// the owners that actually hold bindings in this state (outside the standard pool only in the K5 witnesses)
	for _, b := range s.Binds {
		at := a.atomOfAddr(b.Owner)
		known := false
		for _, o := range owners {
			known = known || o == at
		}
		if !known && len(owners) < 9 {
			owners = append(owners, at)
		}
	}
	sort.Slice(owners[5:], func(i, j int) bool { return owners[5+i] < owners[5+j] })

	for _, v := range svcs {
		add(qArg{Kind: "def", Svc: v})
	}
	// bindings: existing ones, then unbound pairs from the pools (prefix names, prefix addresses)
	var bks []string
	for k := range s.Binds {
		bks = append(bks, k.Svc+"\x00"+k.Prov)
	}
	sort.Strings(bks)
	for _, k := range rot(bks, qCap, off) {
		i := strings.IndexByte(k, 0)
		svc, prov := a.atomOfSvc(k[:i]), a.atomOfAddr([]byte(k[i+1:]))
		add(qArg{Kind: "bind", Svc: svc, Addr: prov})
		add(qArg{Kind: "reqs", Svc: svc, Addr: prov})
	}
	for i := 0; i < 8; i++ {
		j := off*8 + i
		svc, prov := svcs[j%len(svcs)], providerAtoms[(j/len(svcs))%len(providerAtoms)]
		add(qArg{Kind: "bind", Svc: svc, Addr: prov})
		add(qArg{Kind: "reqs", Svc: svc, Addr: prov})
	}
	for _, e := range s.ActBind {
		if len(qs) > 400 {
			break
		}
		add(qArg{Kind: "reqs", Svc: a.atomOfSvc(e.Svc), Addr: a.atomOfAddr([]byte(e.Prov))})
	}
	for _, v := range svcs {
		add(qArg{Kind: "binds", Svc: v, Addr: 0})
		for _, o := range owners {
			add(qArg{Kind: "binds", Svc: v, Addr: o})
		}
	}
	for _, o := range append(append([]int64{}, owners...), wdAtoms...) {
		add(qArg{Kind: "wd", Addr: o})
	}
	// contexts
	var cids []string
	for id := range s.Ctxs {
		cids = append(cids, id)
	}
	sort.Strings(cids)
	for _, id := range rot(cids, qCap, off) {
		tx, idx := splitCtx([]byte(id))
		rc := s.Ctxs[id]
		add(qArg{Kind: "ctx", Tx: tx, Idx: idx})
		add(qArg{Kind: "ctx", Tx: tx, Idx: idx + 1})
		for _, b := range []uint64{rc.BatchCounter, rc.BatchCounter + 1, rc.BatchCounter - 1, 0} {
			if b == ^uint64(0) {
				continue
			}
			add(qArg{Kind: "reqsctx", Tx: tx, Idx: idx, Batch: b})
			add(qArg{Kind: "resps", Tx: tx, Idx: idx, Batch: b})
		}
	}
	add(qArg{Kind: "ctx", Tx: 0, Idx: 0})
	add(qArg{Kind: "reqsctx", Tx: 0, Idx: 0, Batch: 1})
	add(qArg{Kind: "resps", Tx: 0, Idx: 0, Batch: 1})
	// contexts that no longer exist but whose ids occur in request / response records
	// requests and responses
	var rids, sids []string
	for id := range s.Reqs {
		rids = append(rids, id)
	}
	for id := range s.Resps {
		sids = append(sids, id)
	}
	sort.Strings(rids)
	sort.Strings(sids)
	for _, id := range rot(rids, qCap, off) {
		q := ridArg("req", []byte(id))
		add(q)
		q.Kind = "resp"
		add(q)
		q.Kind = "req"
		q.I++
		add(q)
		q.I--
		q.Batch++
		add(q)
		add(qArg{Kind: "reqsctx", Tx: q.Tx, Idx: q.Idx, Batch: q.Batch - 1})
	}
	for _, id := range rot(sids, qCap, off) {
		q := ridArg("resp", []byte(id))
		add(q)
		q.Kind = "req"
		add(q)
		q.Kind = "resp"
		q.H++
		add(q)
		add(qArg{Kind: "resps", Tx: q.Tx, Idx: q.Idx, Batch: q.Batch})
	}
	add(qArg{Kind: "req", Tx: 0, Idx: 0, Batch: 1, H: r.height, I: 0})
	add(qArg{Kind: "resp", Tx: 0, Idx: 0, Batch: 1, H: r.height, I: 0})
	for _, p := range append(append([]int64{}, providerAtoms...), strangerAtom) {
		add(qArg{Kind: "fees", Addr: p})
	}
	for n := int64(1); n <= 3; n++ {
		add(qArg{Kind: "schema", N: n})
	}
	add(qArg{Kind: "params"})
	return qs
}

// ---- rendering of returned records (same atom conventions as lines()) ----

func (r *Runner) encode(m codec.ProtoMarshaler) []byte {
	return r.w.app.AppCodec().MustMarshalBinaryBare(m)
}

func (r *Runner) qBindFields(b *types.ServiceBinding) string {
	return fmt.Sprintf("%s %d %d %d %d %s", amountOf(b.Deposit).String(), b2i(b.Available), timeAtom(b.DisabledTime),
		r.a.atomOfAddr(b.Owner), b.QoS, rawPricingLine(b.Pricing))
}

func (r *Runner) qCtxFields(rc *types.RequestContext) string {
	a := r.a
	var provs []int64
	for _, p := range rc.Providers {
		provs = append(provs, a.atomOfAddr(p))
	}
	mod := int64(0)
	if rc.ModuleName == cbModule {
		mod = cbModAtom
	} else if rc.ModuleName != "" {
		mod = -5
	}
	return fmt.Sprintf("%d %s %d %d %s %d %d %d %d %d %d %d %d %d %d %d %d %d", a.atomOfSvc(rc.ServiceName), listLine(provs),
		a.atomOfAddr(rc.Consumer), inputAtom(rc.Input), amountOf(rc.ServiceFeeCap).String(), rc.Timeout, b2i(rc.SuperMode), b2i(rc.Repeated),
		rc.RepeatedFrequency, rc.RepeatedTotal, rc.BatchCounter, rc.BatchRequestCount, rc.BatchResponseCount, rc.BatchResponseThreshold,
		b2i(rc.BatchState == types.BATCHCOMPLETED), int(rc.State), rc.ResponseThreshold, mod)
}

func (r *Runner) qReqFields(q *types.Request) string {
	a := r.a
	return fmt.Sprintf("%s %d %d %d %d %s %d %d %d %s %d", ridLine(q.Id), a.atomOfSvc(q.ServiceName), a.atomOfAddr(q.Provider), a.atomOfAddr(q.Consumer),
		inputAtom(q.Input), amountOf(q.ServiceFee).String(), b2i(q.SuperMode), q.RequestHeight, q.ExpirationHeight, ctxLine(q.RequestContextId),
		q.RequestContextBatchCounter)
}

func (r *Runner) qRespFields(rs *types.Response) string {
	a := r.a
	return fmt.Sprintf("%d %d %d %d %s %d", a.atomOfAddr(rs.Provider), a.atomOfAddr(rs.Consumer), resultCode(rs.Result), outputAtom(rs.Output),
		ctxLine(rs.RequestContextId), rs.RequestContextBatchCounter)
}

func one(bz []byte, line string) qAns {
	if len(bz) == 0 {
		return qAns{St: "zero"}
	}
	return qAns{St: "ok", Line: line, Recs: [][]byte{bz}}
}

func (r *Runner) ansDef(d *types.ServiceDefinition) qAns {
	return one(r.encode(d), fmt.Sprintf("%d", contentAtom(d.Description)))
}
func (r *Runner) ansBind(b *types.ServiceBinding) qAns { return one(r.encode(b), r.qBindFields(b)) }
func (r *Runner) ansCtx(rc *types.RequestContext) qAns { return one(r.encode(rc), r.qCtxFields(rc)) }
func (r *Runner) ansReq(q *types.Request) qAns         { return one(r.encode(q), r.qReqFields(q)) }
func (r *Runner) ansResp(rs *types.Response) qAns      { return one(r.encode(rs), r.qRespFields(rs)) }

func listAns(items []string, recs [][]byte, sorted bool) qAns {
	if sorted {
		items = append([]string{}, items...)
		sort.Strings(items)
	}
	line := fmt.Sprintf("%d", len(items))
	for _, it := range items {
		line += " | " + it
	}
	return qAns{St: "ok", Line: line, Recs: recs}
}

func (r *Runner) ansBinds(bs []*types.ServiceBinding) qAns {
	var items []string
	var recs [][]byte
	for _, b := range bs {
		items = append(items, fmt.Sprintf("%d %d %s", r.a.atomOfSvc(b.ServiceName), r.a.atomOfAddr(b.Provider), r.qBindFields(b)))
		recs = append(recs, r.encode(b))
	}
	return listAns(items, recs, true)
}

func (r *Runner) ansReqs(qs []*types.Request) qAns {
	var items []string
	var recs [][]byte
	for _, q := range qs {
		bz := r.encode(q)
		if len(bz) == 0 {
			items = append(items, "zero")
		} else {
			items = append(items, r.qReqFields(q))
		}
		recs = append(recs, bz)
	}
	return listAns(items, recs, false)
}

func (r *Runner) ansResps(rs []*types.Response) qAns {
	var items []string
	var recs [][]byte
	for _, x := range rs {
		bz := r.encode(x)
		if len(bz) == 0 {
			items = append(items, "zero")
		} else {
			items = append(items, r.qRespFields(x))
		}
		recs = append(recs, bz)
	}
	return listAns(items, recs, false)
}

func (r *Runner) ansAddr(addr sdk.AccAddress) qAns {
	if len(addr) == 0 {
		return qAns{St: "zero"}
	}
	return qAns{St: "ok", Line: fmt.Sprintf("%d", r.a.atomOfAddr(addr)), Recs: [][]byte{append([]byte{}, addr...)}}
}

func (r *Runner) ansCoins(cs sdk.Coins) qAns {
	line := fmt.Sprintf("%d", len(cs))
	var recs [][]byte
	for i := range cs {
		if cs[i].Denom == denom {
			line += " " + cs[i].Amount.String()
		} else {
			line += " ?" + cs[i].String()
		}
		recs = append(recs, r.encode(&cs[i]))
	}
	return qAns{St: "ok", Line: line, Recs: recs}
}

func ansSchema(text string) qAns {
	switch text {
	case types.PricingSchema:
		return qAns{St: "ok", Line: "1", Recs: [][]byte{[]byte(text)}}
	case types.ResultSchema:
		return qAns{St: "ok", Line: "2", Recs: [][]byte{[]byte(text)}}
	case "":
		return qAns{St: "zero"}
	}
	return qAns{St: "ok", Line: "-5", Recs: [][]byte{[]byte(text)}}
}

func (r *Runner) ansParams(p *types.Params) qAns {
	return qAns{St: "ok", Line: fmt.Sprintf("%d %d %s %s %s %d %d", p.MaxRequestTimeout, p.MinDepositMultiple, amountOf(p.MinDeposit).String(),
		p.ServiceFeeTax.BigInt().String(), p.SlashFraction.BigInt().String(), int64(p.ArbitrationTimeLimit), int64(p.ComplaintRetrospect)),
		Recs: [][]byte{r.encode(p)}}
}

func ansErr(err error) qAns {
	for _, nf := range []*sdkerrors.Error{types.ErrUnknownServiceDefinition, types.ErrUnknownServiceBinding, types.ErrUnknownRequest,
		types.ErrUnknownResponse, types.ErrUnknownRequestContext, types.ErrNoEarnedFees, types.ErrInvalidSchemaName} {
		if nf.Is(err) {
			return qAns{St: "nf", Note: err.Error()}
		}
	}
	return qAns{St: "err", Note: err.Error()}
}

func schemaName(n int64) string {
	switch n {
	case 1:
		return "pricing"
	case 2:
		return "Result" // the code lower-cases the name
	}
	return "nosuch"
}

// ---- the three sources of an answer ----

// qExpect computes the answer from the primary records of the raw-store snapshot only.
func (r *Runner) qExpect(s *Snap, q qArg) qAns {
	a := r.a
	nf := qAns{St: "nf"}
	join := func(rid string) *types.Request {
		c, ok := s.Reqs[rid]
		if !ok {
			return nil
		}
		rc, ok := s.Ctxs[string(c.RequestContextId)]
		if !ok {
			return nil
		}
		x := types.NewRequest([]byte(rid), rc.ServiceName, c.Provider, rc.Consumer, rc.Input, c.ServiceFee, rc.SuperMode, c.RequestHeight,
			c.ExpirationHeight, c.RequestContextId, c.RequestContextBatchCounter)
		return &x
	}
	switch q.Kind {
	case "def":
		if d, ok := s.Defs[a.svcName[q.Svc]]; ok {
			return r.ansDef(&d)
		}
		return nf
	case "bind":
		if b, ok := s.Binds[bindKey{a.svcName[q.Svc], string(a.addr(q.Addr))}]; ok {
			return r.ansBind(&b)
		}
		return nf
	case "binds":
		svc := a.svcName[q.Svc]
		type kb struct {
			key []byte
			b   types.ServiceBinding
		}
		var l []kb
		for k, b := range s.Binds {
			if k.Svc != svc {
				continue
			}
			if q.Addr == 0 {
				// store order of prefix 0x02: service name, 0x00, bech32 text of the provider
				l = append(l, kb{[]byte(sdk.AccAddress(k.Prov).String()), b})
			} else if bytes.Equal(b.Owner, a.addr(q.Addr)) {
				// store order of prefix 0x03 within (owner, service): raw provider bytes
				l = append(l, kb{[]byte(k.Prov), b})
			}
		}
		sort.Slice(l, func(i, j int) bool { return bytes.Compare(l[i].key, l[j].key) < 0 })
		var bs []*types.ServiceBinding
		for i := range l {
			bs = append(bs, &l[i].b)
		}
		return r.ansBinds(bs)
	case "wd":
		o := a.addr(q.Addr)
		if w, ok := s.Wd[string(o)]; ok {
			return r.ansAddr(sdk.AccAddress(w))
		}
		return r.ansAddr(o)
	case "ctx":
		if rc, ok := s.Ctxs[string(q.ctxID())]; ok {
			return r.ansCtx(&rc)
		}
		return nf
	case "req":
		if x := join(string(q.reqID())); x != nil {
			return r.ansReq(x)
		}
		return nf
	case "reqs":
		svc, prov := a.svcName[q.Svc], a.addr(q.Addr)
		active := map[string]bool{}
		for _, id := range s.ActID {
			active[id] = true
		}
		type ke struct {
			key []byte
			x   *types.Request
		}
		var l []ke
		for rid, c := range s.Reqs {
			if !active[rid] || !bytes.Equal(c.Provider, prov) {
				continue
			}
			x := join(rid)
			if x == nil || x.ServiceName != svc {
				continue
			}
			// store order of prefix 0x14 within a binding: expiration height, request id
			l = append(l, ke{append(sdk.Uint64ToBigEndian(uint64(c.ExpirationHeight)), rid...), x})
		}
		sort.Slice(l, func(i, j int) bool { return bytes.Compare(l[i].key, l[j].key) < 0 })
		var xs []*types.Request
		for _, e := range l {
			xs = append(xs, e.x)
		}
		return r.ansReqs(xs)
	case "reqsctx":
		pre := string(q.ctxID()) + string(sdk.Uint64ToBigEndian(q.Batch))
		var ids []string
		for rid := range s.Reqs {
			if strings.HasPrefix(rid, pre) {
				ids = append(ids, rid)
			}
		}
		sort.Strings(ids)
		var xs []*types.Request
		for _, rid := range ids {
			x := join(rid)
			if x == nil {
				x = &types.Request{} // the record exists but cannot be reconstructed: C16's business, shows as `zero`
			}
			xs = append(xs, x)
		}
		return r.ansReqs(xs)
	case "resp":
		if rs, ok := s.Resps[string(q.reqID())]; ok {
			return r.ansResp(&rs)
		}
		return nf
	case "resps":
		pre := string(q.ctxID()) + string(sdk.Uint64ToBigEndian(q.Batch))
		var ids []string
		for rid := range s.Resps {
			if strings.HasPrefix(rid, pre) {
				ids = append(ids, rid)
			}
		}
		sort.Strings(ids)
		var xs []*types.Response
		for _, rid := range ids {
			rs := s.Resps[rid]
			xs = append(xs, &rs)
		}
		return r.ansResps(xs)
	case "fees":
		if amt, ok := s.Earned[string(a.addr(q.Addr))]; ok {
			return r.ansCoins(sdk.Coins{sdk.NewCoin(denom, sdk.NewIntFromBigInt(amt))})
		}
		return r.ansCoins(sdk.Coins{})
	case "schema":
		switch q.N {
		case 1:
			return ansSchema(types.PricingSchema)
		case 2:
			return ansSchema(types.ResultSchema)
		}
		return nf
	case "params":
		p := r.cfg.params()
		return r.ansParams(&p)
	}
	panic("query kind " + q.Kind)
}

func guard(f func() qAns) (ans qAns) {
	defer func() {
		if e := recover(); e != nil {
			ans = qAns{St: "panic", Note: fmt.Sprint(e)}
		}
	}()
	return f()
}

func (r *Runner) qGRPC(q qArg) qAns {
	k := r.w.k
	c := sdk.WrapSDKContext(r.ctx)
	a := r.a
	return guard(func() qAns {
		switch q.Kind {
		case "def":
			res, err := k.Definition(c, &types.QueryDefinitionRequest{ServiceName: a.svcName[q.Svc]})
			if err != nil {
				return ansErr(err)
			}
			return r.ansDef(res.ServiceDefinition)
		case "bind":
			res, err := k.Binding(c, &types.QueryBindingRequest{ServiceName: a.svcName[q.Svc], Provider: a.addr(q.Addr)})
			if err != nil {
				return ansErr(err)
			}
			return r.ansBind(res.ServiceBinding)
		case "binds":
			res, err := k.Bindings(c, &types.QueryBindingsRequest{ServiceName: a.svcName[q.Svc], Owner: a.addr(q.Addr)})
			if err != nil {
				return ansErr(err)
			}
			return r.ansBinds(res.ServiceBindings)
		case "wd":
			res, err := k.WithdrawAddress(c, &types.QueryWithdrawAddressRequest{Owner: a.addr(q.Addr)})
			if err != nil {
				return ansErr(err)
			}
			return r.ansAddr(res.WithdrawAddress)
		case "ctx":
			res, err := k.RequestContext(c, &types.QueryRequestContextRequest{RequestContextId: q.ctxID()})
			if err != nil {
				return ansErr(err)
			}
			return r.ansCtx(res.RequestContext)
		case "req":
			res, err := k.Request(c, &types.QueryRequestRequest{RequestId: q.reqID()})
			if err != nil {
				return ansErr(err)
			}
			return r.ansReq(res.Request)
		case "reqs":
			res, err := k.Requests(c, &types.QueryRequestsRequest{ServiceName: a.svcName[q.Svc], Provider: a.addr(q.Addr)})
			if err != nil {
				return ansErr(err)
			}
			return r.ansReqs(res.Requests)
		case "reqsctx":
			res, err := k.RequestsByReqCtx(c, &types.QueryRequestsByReqCtxRequest{RequestContextId: q.ctxID(), BatchCounter: q.Batch})
			if err != nil {
				return ansErr(err)
			}
			return r.ansReqs(res.Requests)
		case "resp":
			res, err := k.Response(c, &types.QueryResponseRequest{RequestId: q.reqID()})
			if err != nil {
				return ansErr(err)
			}
			return r.ansResp(res.Response)
		case "resps":
			res, err := k.Responses(c, &types.QueryResponsesRequest{RequestContextId: q.ctxID(), BatchCounter: q.Batch})
			if err != nil {
				return ansErr(err)
			}
			return r.ansResps(res.Responses)
		case "fees":
			res, err := k.EarnedFees(c, &types.QueryEarnedFeesRequest{Provider: a.addr(q.Addr)})
			if err != nil {
				return ansErr(err)
			}
			return r.ansCoins(res.Fees)
		case "schema":
			res, err := k.Schema(c, &types.QuerySchemaRequest{SchemaName: schemaName(q.N)})
			if err != nil {
				return ansErr(err)
			}
			return ansSchema(res.Schema)
		case "params":
			res, err := k.Params(c, &types.QueryParamsRequest{})
			if err != nil {
				return ansErr(err)
			}
			return r.ansParams(&res.Params)
		}
		panic("query kind " + q.Kind)
	})
}

// The amino-JSON form of an address is bech32 text which the SDK refuses to read back
// unless the address has 20 bytes (known finding K4). Two consequences for the legacy
// interface: (1) it cannot be ASKED about a provider that is not 20 bytes (the querier
// fails to read its own parameters) - legacyAskable; (2) an answer that mentions such an
// address cannot be decoded with the SDK types. To still compare every field, such
// addresses are replaced by 20-byte surrogates in the JSON text before decoding and
// put back afterwards.
type surrogates struct {
	real map[string][]byte
}

func (s *surrogates) rewrite(v interface{}) interface{} {
	switch x := v.(type) {
	case map[string]interface{}:
		for k, e := range x {
			x[k] = s.rewrite(e)
		}
	case []interface{}:
		for i, e := range x {
			x[i] = s.rewrite(e)
		}
	case string:
		hrp, bz, err := bech32.DecodeAndConvert(x)
		if err == nil && hrp == sdk.GetConfig().GetBech32AccountAddrPrefix() && len(bz) != sdk.AddrLen {
			sur := make([]byte, sdk.AddrLen)
			copy(sur, []byte{0xff, 0xfe, 'S', 'U', 'R', byte(len(s.real))})
			s.real[string(sur)] = bz
			return sdk.AccAddress(sur).String()
		}
	}
	return v
}

func (s *surrogates) rewriteJSON(bz []byte) []byte {
	d := json.NewDecoder(bytes.NewReader(bz))
	d.UseNumber()
	var v interface{}
	if d.Decode(&v) != nil {
		return bz
	}
	out, err := json.Marshal(s.rewrite(v))
	if err != nil {
		return bz
	}
	return out
}

func (s *surrogates) back(a *sdk.AccAddress) {
	if r, ok := s.real[string(*a)]; ok {
		*a = sdk.AccAddress(r)
	}
}

func (s *surrogates) restore(ptr interface{}) {
	switch x := ptr.(type) {
	case *types.ServiceDefinition:
		s.back(&x.Author)
	case *types.ServiceBinding:
		s.back(&x.Provider)
		s.back(&x.Owner)
	case *[]*types.ServiceBinding:
		for _, b := range *x {
			s.restore(b)
		}
	case *sdk.AccAddress:
		s.back(x)
	case *types.RequestContext:
		s.back(&x.Consumer)
		for i := range x.Providers {
			s.back(&x.Providers[i])
		}
	case *types.Request:
		s.back(&x.Provider)
		s.back(&x.Consumer)
	case *[]types.Request:
		for i := range *x {
			s.restore(&(*x)[i])
		}
	case *types.Response:
		s.back(&x.Provider)
		s.back(&x.Consumer)
	case *[]types.Response:
		for i := range *x {
			s.restore(&(*x)[i])
		}
	}
}

// legacyAskable: the argument can be written in the legacy parameter encoding.
func (r *Runner) legacyAskable(q qArg) bool {
	switch q.Kind {
	case "bind", "reqs", "fees", "wd":
		return len(r.a.addr(q.Addr)) == sdk.AddrLen
	case "binds":
		return q.Addr == 0 || len(r.a.addr(q.Addr)) == sdk.AddrLen
	}
	return true
}

func (r *Runner) qLegacy(q qArg) qAns {
	amino := r.w.app.LegacyAmino()
	querier := keeper.NewQuerier(r.w.k, amino)
	a := r.a
	sur := &surrogates{real: map[string][]byte{}}
	call := func(path string, params interface{}) ([]byte, error) {
		var data []byte
		if params != nil {
			data = amino.MustMarshalJSON(params)
		}
		return querier(r.ctx, []string{path}, abci.RequestQuery{Data: data})
	}
	return guard(func() qAns {
		dec := func(bz []byte, ptr interface{}) *qAns {
			if err := amino.UnmarshalJSON(sur.rewriteJSON(bz), ptr); err != nil {
				return &qAns{St: "err", Note: "undecodable legacy answer: " + err.Error()}
			}
			sur.restore(ptr)
			return nil
		}
		switch q.Kind {
		case "def":
			bz, err := call(types.QueryDefinition, types.QueryDefinitionParams{ServiceName: a.svcName[q.Svc]})
			if err != nil {
				return ansErr(err)
			}
			var d types.ServiceDefinition
			if e := dec(bz, &d); e != nil {
				return *e
			}
			return r.ansDef(&d)
		case "bind":
			bz, err := call(types.QueryBinding, types.QueryBindingParams{ServiceName: a.svcName[q.Svc], Provider: a.addr(q.Addr)})
			if err != nil {
				return ansErr(err)
			}
			var b types.ServiceBinding
			if e := dec(bz, &b); e != nil {
				return *e
			}
			return r.ansBind(&b)
		case "binds":
			bz, err := call(types.QueryBindings, types.QueryBindingsParams{ServiceName: a.svcName[q.Svc], Owner: a.addr(q.Addr)})
			if err != nil {
				return ansErr(err)
			}
			var bs []*types.ServiceBinding
			if e := dec(bz, &bs); e != nil {
				return *e
			}
			return r.ansBinds(bs)
		case "wd":
			bz, err := call(types.QueryWithdrawAddress, types.QueryWithdrawAddressParams{Owner: a.addr(q.Addr)})
			if err != nil {
				return ansErr(err)
			}
			var w sdk.AccAddress
			if e := dec(bz, &w); e != nil {
				return *e
			}
			return r.ansAddr(w)
		case "ctx":
			bz, err := call(types.QueryRequestContext, types.QueryRequestContextParams{RequestContextID: q.ctxID()})
			if err != nil {
				return ansErr(err)
			}
			var rc types.RequestContext
			if e := dec(bz, &rc); e != nil {
				return *e
			}
			return r.ansCtx(&rc)
		case "req":
			bz, err := call(types.QueryRequest, types.QueryRequestParams{RequestID: q.reqID()})
			if err != nil {
				return ansErr(err)
			}
			var x types.Request
			if e := dec(bz, &x); e != nil {
				return *e
			}
			return r.ansReq(&x)
		case "reqs", "reqsctx":
			var bz []byte
			var err error
			if q.Kind == "reqs" {
				bz, err = call(types.QueryRequests, types.QueryRequestsParams{ServiceName: a.svcName[q.Svc], Provider: a.addr(q.Addr)})
			} else {
				bz, err = call(types.QueryRequestsByReqCtx, types.QueryRequestsByReqCtxParams{RequestContextID: q.ctxID(), BatchCounter: q.Batch})
			}
			if err != nil {
				return ansErr(err)
			}
			var xs []types.Request
			if e := dec(bz, &xs); e != nil {
				return *e
			}
			var ps []*types.Request
			for i := range xs {
				ps = append(ps, &xs[i])
			}
			return r.ansReqs(ps)
		case "resp":
			bz, err := call(types.QueryResponse, types.QueryResponseParams{RequestID: q.reqID()})
			if err != nil {
				return ansErr(err)
			}
			var rs types.Response
			if e := dec(bz, &rs); e != nil {
				return *e
			}
			return r.ansResp(&rs)
		case "resps":
			bz, err := call(types.QueryResponses, types.QueryResponsesParams{RequestContextID: q.ctxID(), BatchCounter: q.Batch})
			if err != nil {
				return ansErr(err)
			}
			var xs []types.Response
			if e := dec(bz, &xs); e != nil {
				return *e
			}
			var ps []*types.Response
			for i := range xs {
				ps = append(ps, &xs[i])
			}
			return r.ansResps(ps)
		case "fees":
			bz, err := call(types.QueryEarnedFees, types.QueryEarnedFeesParams{Provider: a.addr(q.Addr)})
			if err != nil {
				return ansErr(err)
			}
			var cs sdk.Coins
			if e := dec(bz, &cs); e != nil {
				return *e
			}
			return r.ansCoins(cs)
		case "schema":
			bz, err := call(types.QuerySchema, types.QuerySchemaParams{SchemaName: schemaName(q.N)})
			if err != nil {
				return ansErr(err)
			}
			var text string
			if e := dec(bz, &text); e != nil {
				return *e
			}
			return ansSchema(text)
		case "params":
			bz, err := call(types.QueryParameters, nil)
			if err != nil {
				return ansErr(err)
			}
			var p types.Params
			if e := dec(bz, &p); e != nil {
				return *e
			}
			return r.ansParams(&p)
		}
		panic("query kind " + q.Kind)
	})
}

// runQueries executes one query step: samples the arguments, asks both interfaces,
// evaluates monitor C17 and prepares the Q lines and the `query` group.
func (r *Runner) runQueries() {
	s := r.w.scan(r.ctx)
	m := r.mon
	r.qLines, r.qGroup = nil, nil
	for _, q := range r.sampleQueries(s) {
		head := q.head()
		want := r.qExpect(s, q)
		g := r.qGRPC(q)
		l := r.qLegacy(q)
		// For a single request context, request or response the module's own encoding of
		// "no such record" is an EMPTY record with a nil error: the clients test .Empty() and
		// fall back to a transaction search (client/utils/query.go). It is therefore read as
		// not-found, exactly like an explicit not-found error would be; an empty answer for a
		// record that EXISTS is still reported (status nf, want ok).
		if q.Kind == "ctx" || q.Kind == "req" || q.Kind == "resp" {
			if g.St == "zero" {
				g = qAns{St: "nf"}
			}
			if l.St == "zero" {
				l = qAns{St: "nf"}
			}
		}
		r.qLines = append(r.qLines, head)
		r.qGroup = append(r.qGroup, "g "+head+" = "+g.text(), "l "+head+" = "+l.text())
		askable := r.legacyAskable(q)
		for _, x := range []struct {
			iface string
			ans   qAns
		}{{"grpc", g}, {"legacy", l}} {
			m.evals["C17"]++
			m.evals["C17."+q.Kind]++
			if x.iface == "legacy" && !askable {
				// K4: the legacy parameter encoding cannot express this address; the only
				// acceptable outcome is a refusal
				m.evals["C17.legacy-unaskable"]++
				if x.ans.St != "err" {
					m.fail("C17", "unaskable %s: legacy answered [%s] to an address it cannot read", head, x.ans.text())
				}
				continue
			}
			switch {
			case x.ans.St == "panic":
				m.fail("C17", "panic %s %s: %s", x.iface, head, x.ans.Note)
			case x.ans.St == "zero" && want.St == "nf":
				m.fail("C17", "zero-for-absent %s %s: no such record, answered with a zero value and no error", x.iface, head)
			case x.ans.St != want.St:
				m.fail("C17", "status %s %s: got %s want %s %s", x.iface, head, x.ans.text(), want.text(), x.ans.Note)
			case x.ans.Line != want.Line:
				m.fail("C17", "content %s %s: got [%s] stored [%s]", x.iface, head, x.ans.Line, want.Line)
				if q.Kind == "binds" && q.Addr != 0 {
					// the owner-filtered listing is the module's own reading of its owner index (0x04):
					// when it differs from the stored bindings the index is not consistent as read (C15)
					m.evals["C15"]++
					m.fail("C15", "bindings of service %d listed through the owner index for owner %d [%s] differ from the stored bindings [%s]", q.Svc, q.Addr, x.ans.Line, want.Line)
					if !m.k5 {
						m.fail("C18", "the owner-service scan (owner %d, service %d) returned [%s], its subject's records are [%s]", q.Addr, q.Svc, x.ans.Line, want.Line)
					}
				}
			case !sameRecs(x.ans.Recs, want.Recs):
				m.fail("C17", "records %s %s: same projection [%s] but the returned records differ from the stored ones (bytes or order)", x.iface, head, want.Line)
			}
		}
		if askable && (g.St != l.St || g.Line != l.Line || !sameRecs(g.Recs, l.Recs)) {
			m.fail("C17", "interfaces-differ %s: grpc [%s] legacy [%s]", head, g.text(), l.text())
		}
	}
	// arguments outside the model's vocabulary: a request id of the wrong length must be refused
	for _, n := range []int{0, 57, 59} {
		id := make([]byte, n)
		m.evals["C17"] += 2
		m.evals["C17.badid"] += 2
		g := guard(func() qAns {
			_, err := r.w.k.Request(sdk.WrapSDKContext(r.ctx), &types.QueryRequestRequest{RequestId: id})
			_, err2 := r.w.k.Response(sdk.WrapSDKContext(r.ctx), &types.QueryResponseRequest{RequestId: id})
			if err == nil || err2 == nil {
				return qAns{St: "ok"}
			}
			return qAns{St: "err"}
		})
		if g.St != "err" {
			m.fail("C17", "badid length %d: %s", n, g.St)
		}
	}
}
