package main

import (
	"encoding/binary"
	"fmt"
	"math/big"
	"strings"
	"time"

	sdk "github.com/cosmos/cosmos-sdk/types"

	"github.com/irismod/service/types"
)

var prec = new(big.Int).Exp(big.NewInt(10), big.NewInt(18), nil)

// PT / PV / Pricing: the structure a pricing text denotes (rates scaled by 10^18).
type PT struct {
	Start, End int64 // unix seconds
	Disc       string
}
type PV struct {
	Vol  uint64
	Disc string
}
type PricingArg struct {
	Kind  string // "-" not given, "N" text that does not parse / unknown token, "P" parsed
	Price string // decimal text of the price amount, e.g. "0.5"
	Denom string
	T     []PT
	V     []PV
	Text  string // explicit text (malformed stream); empty = render from the structure
}

type CoinsArg struct {
	Kind string // "E" empty, "B" one coin of the base denom, "X" anything else
	Amt  int64
	Raw  string // for X: e.g. "5atom" or "5atom,3stake"
	Big  string // for B: decimal amount beyond int64 (overrides Amt)
}

type Op struct {
	Kind                                string
	Svc, Prov, Owner, Addr, Who, Cons   int64
	Content, Input                      int64
	Dep                                 CoinsArg
	Pr                                  PricingArg
	QoS                                 uint64
	Tx                                  uint64
	Idx                                 int64
	Provs                               []int64
	Timeout                             int64
	Super, Rep                          bool
	Freq                                uint64
	Total                               int64
	Thr                                 int64
	Mod                                 int64
	InputOK                             bool
	Batch                               uint64
	RHeight, RIndex                     int64
	Code, Out                           int64
	OutValid                            bool
	From, To, Amt                       int64
	Dt                                  int64 // nanoseconds
	NameOverride, ResultOverride        string // malformed stream
	P                                   *Cfg   `json:",omitempty"` // setparams: the parameter set proposed (governance parameter change)
	OK                                  bool   // ValidateBasic passed (filled at execution)
	Note                                string
}

func decToScaled(s string) *big.Int {
	d, err := sdk.NewDecFromStr(s)
	if err != nil {
		panic("bad decimal in generator: " + s)
	}
	return d.BigInt()
}

func b2i(b bool) int {
	if b {
		return 1
	}
	return 0
}

func coinsLine(c CoinsArg) string {
	switch c.Kind {
	case "E":
		return "E"
	case "B":
		if c.Big != "" {
			return "B " + c.Big
		}
		return fmt.Sprintf("B %d", c.Amt)
	default:
		return "X"
	}
}

func (c CoinsArg) coins() sdk.Coins {
	switch c.Kind {
	case "E":
		return sdk.Coins{}
	case "B":
		if c.Big != "" {
			n, ok := sdk.NewIntFromString(c.Big)
			if !ok {
				panic("bad big amount " + c.Big)
			}
			return sdk.Coins{sdk.Coin{Denom: denom, Amount: n}}
		}
		return sdk.Coins{sdk.Coin{Denom: denom, Amount: sdk.NewInt(c.Amt)}}
	default:
		cs, err := sdk.ParseCoins(c.Raw)
		if err != nil {
			panic(err)
		}
		return cs
	}
}

func pricingLine(p PricingArg) string {
	switch p.Kind {
	case "-":
		return "-"
	case "N":
		return "N"
	}
	var sb strings.Builder
	fmt.Fprintf(&sb, "P %s %d", decToScaled(p.Price).String(), len(p.T))
	for _, t := range p.T {
		fmt.Fprintf(&sb, " %d %d %s", t.Start*1e9, t.End*1e9, decToScaled(t.Disc).String())
	}
	fmt.Fprintf(&sb, " %d", len(p.V))
	for _, v := range p.V {
		fmt.Fprintf(&sb, " %d %s", v.Vol, decToScaled(v.Disc).String())
	}
	return sb.String()
}

func (p PricingArg) text() string {
	if p.Kind == "-" {
		return ""
	}
	if p.Text != "" {
		return p.Text
	}
	var sb strings.Builder
	fmt.Fprintf(&sb, `{"price":"%s%s"`, p.Price, p.Denom)
	if len(p.T) > 0 {
		sb.WriteString(`,"promotions_by_time":[`)
		for i, t := range p.T {
			if i > 0 {
				sb.WriteString(",")
			}
			fmt.Fprintf(&sb, `{"start_time":"%s","end_time":"%s","discount":"%s"}`,
				time.Unix(t.Start, 0).UTC().Format(time.RFC3339), time.Unix(t.End, 0).UTC().Format(time.RFC3339), t.Disc)
		}
		sb.WriteString("]")
	}
	if len(p.V) > 0 {
		sb.WriteString(`,"promotions_by_volume":[`)
		for i, v := range p.V {
			if i > 0 {
				sb.WriteString(",")
			}
			fmt.Fprintf(&sb, `{"volume":%d,"discount":"%s"}`, v.Vol, v.Disc)
		}
		sb.WriteString("]")
	}
	sb.WriteString("}")
	return sb.String()
}

func listLine(l []int64) string {
	var sb strings.Builder
	fmt.Fprintf(&sb, "%d", len(l))
	for _, x := range l {
		fmt.Fprintf(&sb, " %d", x)
	}
	return sb.String()
}

// line renders the op in the trace syntax read by the model driver.
func (o *Op) line() string {
	ok := b2i(o.OK)
	switch o.Kind {
	case "define":
		return fmt.Sprintf("define %d %d %d", o.Svc, o.Content, ok)
	case "bind":
		return fmt.Sprintf("bind %d %d %s %s %d %d %d", o.Svc, o.Prov, coinsLine(o.Dep), pricingLine(o.Pr), o.QoS, o.Owner, ok)
	case "update":
		return fmt.Sprintf("update %d %d %s %s %d %d %d", o.Svc, o.Prov, coinsLine(o.Dep), pricingLine(o.Pr), o.QoS, o.Owner, ok)
	case "disable":
		return fmt.Sprintf("disable %d %d %d %d", o.Svc, o.Prov, o.Owner, ok)
	case "enable":
		return fmt.Sprintf("enable %d %d %s %d %d", o.Svc, o.Prov, coinsLine(o.Dep), o.Owner, ok)
	case "refunddep":
		return fmt.Sprintf("refunddep %d %d %d %d", o.Svc, o.Prov, o.Owner, ok)
	case "setwd":
		return fmt.Sprintf("setwd %d %d %d", o.Owner, o.Addr, ok)
	case "call":
		return fmt.Sprintf("call %d %d %d %s %d %d %s %d %d %d %d %d %d %d", o.Tx, o.Idx, o.Svc, listLine(o.Provs), o.Cons, o.Input,
			coinsLine(o.Dep), o.Timeout, b2i(o.Super), b2i(o.Rep), o.Freq, o.Total, b2i(o.InputOK), ok)
	case "modcall":
		return fmt.Sprintf("modcall %d %d %d %s %d %d %s %d %d %d %d %d %d %d %d", o.Tx, o.Idx, o.Svc, listLine(o.Provs), o.Cons, o.Input,
			coinsLine(o.Dep), o.Timeout, b2i(o.Super), b2i(o.Rep), o.Freq, o.Total, o.Thr, o.Mod, b2i(o.InputOK))
	case "respond":
		return fmt.Sprintf("respond %d %d %d %d %d %d %d %d %d %d", o.Tx, o.Idx, o.Batch, o.RHeight, o.RIndex, o.Who, o.Code, o.Out, b2i(o.OutValid), ok)
	case "pause", "start", "kill":
		return fmt.Sprintf("%s %d %d %d %d", o.Kind, o.Tx, o.Idx, o.Who, ok)
	case "updctx":
		return fmt.Sprintf("updctx %d %d %d %s %s %d %d %d %d", o.Tx, o.Idx, o.Who, listLine(o.Provs), coinsLine(o.Dep), o.Timeout, o.Freq, o.Total, ok)
	case "modupd": // keeper.UpdateRequestContext called by the owning module: tx idx who n prov... thr coins timeout freq total
		return fmt.Sprintf("modupd %d %d %d %s %d %s %d %d %d", o.Tx, o.Idx, o.Who, listLine(o.Provs), o.Thr, coinsLine(o.Dep), o.Timeout, o.Freq, o.Total)
	case "modpause", "modstart", "modkill": // keeper.{Pause,Start,Kill}RequestContext called by the owning module
		return fmt.Sprintf("%s %d %d %d", o.Kind, o.Tx, o.Idx, o.Who)
	case "withdraw":
		return fmt.Sprintf("withdraw %d %d %d", o.Owner, o.Prov, ok)
	case "transfer":
		return fmt.Sprintf("transfer %d %d %d", o.From, o.To, o.Amt)
	case "endblock":
		return fmt.Sprintf("endblock %d", o.Dt)
	case "setparams": // governance parameter change: max_timeout multiple min_deposit tax slash arb compl (rates scaled by 10^18, durations in ns)
		c := o.P
		return fmt.Sprintf("setparams %d %d %d %s %s %d %d", c.MaxTimeout, c.Multiple, c.MinDeposit, scaled(c.Tax), scaled(c.Slash), int64(c.Arb), int64(c.Compl))
	case "query", "export":
		return o.Kind
	}
	panic("unknown op kind " + o.Kind)
}

func txHash(tx uint64) []byte {
	h := make([]byte, 32)
	binary.BigEndian.PutUint64(h, tx)
	return h
}

func ctxID(tx uint64, idx int64) []byte {
	return types.GenerateRequestContextID(txHash(tx), idx)
}

func reqID(tx uint64, idx int64, batch uint64, h int64, i int64) []byte {
	return types.GenerateRequestID(ctxID(tx, idx), batch, h, int16(i))
}

const testSchemas = `{"input":{"type":"object"},"output":{"type":"object"}}`

func inputText(atom int64, ok bool) string {
	if ok {
		return fmt.Sprintf(`{"header":{},"body":{"i":%d}}`, atom)
	}
	return fmt.Sprintf(`{"body":{"i":%d}}`, atom)
}

func outputText(atom int64, valid bool) string {
	if atom == 0 {
		return ""
	}
	if valid {
		return fmt.Sprintf(`{"header":{},"body":{"o":%d}}`, atom)
	}
	return fmt.Sprintf(`{"body":{"o":%d}}`, atom)
}

func resultText(code int64) string {
	return fmt.Sprintf(`{"code":%d,"message":""}`, code)
}

func contentText(atom int64) string { return fmt.Sprintf("content-%d", atom) }

// msg builds the real message for a message op.
func (o *Op) msg(a *Atoms) sdk.Msg {
	addrs := func(l []int64) []sdk.AccAddress {
		var out []sdk.AccAddress
		for _, x := range l {
			out = append(out, a.addr(x))
		}
		return out
	}
	svc := a.svcName[o.Svc]
	if o.NameOverride != "" {
		svc = o.NameOverride
	}
	switch o.Kind {
	case "define":
		return &types.MsgDefineService{Name: svc, Description: contentText(o.Content), Tags: tagsOf(o.Content), Author: a.addr(o.Owner), Schemas: testSchemas}
	case "bind":
		return &types.MsgBindService{ServiceName: svc, Provider: a.addr(o.Prov), Deposit: o.Dep.coins(), Pricing: o.Pr.text(),
			QoS: o.QoS, Options: "{}", Owner: a.addr(o.Owner)}
	case "update":
		return &types.MsgUpdateServiceBinding{ServiceName: svc, Provider: a.addr(o.Prov), Deposit: o.Dep.coins(), Pricing: o.Pr.text(),
			QoS: o.QoS, Options: "{}", Owner: a.addr(o.Owner)}
	case "disable":
		return &types.MsgDisableServiceBinding{ServiceName: svc, Provider: a.addr(o.Prov), Owner: a.addr(o.Owner)}
	case "enable":
		return &types.MsgEnableServiceBinding{ServiceName: svc, Provider: a.addr(o.Prov), Deposit: o.Dep.coins(), Owner: a.addr(o.Owner)}
	case "refunddep":
		return &types.MsgRefundServiceDeposit{ServiceName: svc, Provider: a.addr(o.Prov), Owner: a.addr(o.Owner)}
	case "setwd":
		return &types.MsgSetWithdrawAddress{Owner: a.addr(o.Owner), WithdrawAddress: a.addr(o.Addr)}
	case "call":
		return &types.MsgCallService{ServiceName: svc, Providers: addrs(o.Provs), Consumer: a.addr(o.Cons), Input: inputText(o.Input, o.InputOK),
			ServiceFeeCap: o.Dep.coins(), Timeout: o.Timeout, SuperMode: o.Super, Repeated: o.Rep, RepeatedFrequency: o.Freq, RepeatedTotal: o.Total}
	case "respond":
		res := resultText(o.Code)
		if o.ResultOverride != "" {
			res = o.ResultOverride
		}
		return &types.MsgRespondService{RequestId: reqID(o.Tx, o.Idx, o.Batch, o.RHeight, o.RIndex), Provider: a.addr(o.Who), Result: res,
			Output: outputText(o.Out, o.OutValid)}
	case "pause":
		return &types.MsgPauseRequestContext{RequestContextId: ctxID(o.Tx, o.Idx), Consumer: a.addr(o.Who)}
	case "start":
		return &types.MsgStartRequestContext{RequestContextId: ctxID(o.Tx, o.Idx), Consumer: a.addr(o.Who)}
	case "kill":
		return &types.MsgKillRequestContext{RequestContextId: ctxID(o.Tx, o.Idx), Consumer: a.addr(o.Who)}
	case "updctx":
		return &types.MsgUpdateRequestContext{RequestContextId: ctxID(o.Tx, o.Idx), Providers: addrs(o.Provs), Consumer: a.addr(o.Who),
			ServiceFeeCap: o.Dep.coins(), Timeout: o.Timeout, RepeatedFrequency: o.Freq, RepeatedTotal: o.Total}
	case "withdraw":
		return &types.MsgWithdrawEarnedFees{Owner: a.addr(o.Owner), Provider: a.addr(o.Prov)}
	}
	return nil
}

// isModOp: the keeper API driven by the module that owns a context.
func (o *Op) isModOp() bool {
	switch o.Kind {
	case "modupd", "modpause", "modstart", "modkill":
		return true
	}
	return false
}

// signer of a message op (the account the SDK would debit fees from and whose
// signature it checks); used by the authority monitor. Keeper-API ops (modcall, modupd,
// modpause, modstart, modkill) and the governance parameter change (setparams) carry no signature: 0.
func (o *Op) signer() int64 {
	switch o.Kind {
	case "define", "bind", "update", "disable", "enable", "refunddep", "setwd", "withdraw":
		return o.Owner
	case "call":
		return o.Cons
	case "respond", "pause", "start", "kill", "updctx":
		return o.Who
	case "transfer":
		return o.From
	}
	return 0
}


// tagsOf: the tags of a definition are glue the model does not carry; they are a function of the
// content atom so that histories replay identically. Sets that differ only by case or blanks are legal
// for the message and must be stored as sent (every stored definition must satisfy the module's own rules).
func tagsOf(content int64) []string {
	sets := [][]string{nil, {"a"}, {"DeFi", "defi"}, {"x", " x"}, {"t1", "t2", "t3"}, {"Oracle", "oracle", "ORACLE"}}
	return sets[int(content)%len(sets)]
}
