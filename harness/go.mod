module verif/harness

go 1.14

require (
	github.com/cosmos/cosmos-sdk v0.34.4-0.20200914022129-c26ef79ed0a2
	github.com/gogo/protobuf v1.3.1
	github.com/irismod/service v0.0.0
	github.com/tendermint/tendermint v0.34.0-rc3.0.20200907055413-3359e0bf2f84
	github.com/tendermint/tm-db v0.6.2
)

replace (
	github.com/gogo/protobuf => github.com/regen-network/protobuf v1.3.2-alpha.regen.4
	github.com/irismod/service => /repo
	github.com/keybase/go-keychain => github.com/99designs/go-keychain v0.0.0-20191008050251-8e49817e8af4
)
