package main

// Pure stream for the key layer (K) and the identifier models (C18).
//
// Calls every real function of /repo/types/keys.go and the four ID functions of
// /repo/types/invocation.go on a structured enumeration and writes
//
//	B <hex address> <hex of its bech32 text>        (before first use)
//	K <function> <args...> = <result>
//
// ocaml/keys_driver.ml re-evaluates the same calls on the definitions extracted
// from coq/gen/KeysGen.v and coq/Model/Ids.v and prints the same lines; a plain
// diff decides agreement (tools/pure_keys.sh).
//
// Canonical syntax: byte strings in lower-case hex, "-" for the empty string;
// int64/int16 signed decimal; uint64 unsigned decimal. Split* results are
// "<hex> <ints...>" or "ERR".

import (
	"bufio"
	"encoding/hex"
	"fmt"
	"math"
	"math/rand"
	"strconv"
	"strings"

	sdk "github.com/cosmos/cosmos-sdk/types"

	"github.com/irismod/service/types"
)

type pkKind int

const (
	pkName  pkKind = iota // string parameter (service name, denom)
	pkAddr                // sdk.AccAddress
	pkBytes               // []byte (context id, request id, tx hash)
	pkI64
	pkU64
	pkI16
)

type pkArg struct {
	k pkKind
	b []byte
	i int64
	u uint64
}

func (a pkArg) String() string {
	switch a.k {
	case pkI64, pkI16:
		return strconv.FormatInt(a.i, 10)
	case pkU64:
		return strconv.FormatUint(a.u, 10)
	}
	return pkHex(a.b)
}

func pkHex(b []byte) string {
	if len(b) == 0 {
		return "-"
	}
	return hex.EncodeToString(b)
}

// fresh copy with cap == len, so that no callee can write into shared memory
func pkCopy(b []byte) []byte {
	c := make([]byte, len(b))
	copy(c, b)
	return c
}

type pkFunc struct {
	name  string
	kinds []pkKind
	// pools overrides the default pool of an argument position (nil = default)
	pools map[int]string
	call  func(a []pkArg) string
}

func pkS(a pkArg) string         { return string(a.b) }
func pkA(a pkArg) sdk.AccAddress { return sdk.AccAddress(pkCopy(a.b)) }
func pkB(a pkArg) []byte         { return pkCopy(a.b) }

func pkFuncs() []pkFunc {
	N, A, B, I, U, S := pkName, pkAddr, pkBytes, pkI64, pkU64, pkI16
	ctx := map[int]string{0: "ctx"}
	req := map[int]string{0: "req"}
	h := pkHex
	return []pkFunc{
		{"GetServiceDefinitionKey", []pkKind{N}, nil, func(a []pkArg) string { return h(types.GetServiceDefinitionKey(pkS(a[0]))) }},
		{"GetServiceBindingKey", []pkKind{N, A}, nil, func(a []pkArg) string { return h(types.GetServiceBindingKey(pkS(a[0]), pkA(a[1]))) }},
		{"GetOwnerServiceBindingKey", []pkKind{A, N, A}, nil, func(a []pkArg) string {
			return h(types.GetOwnerServiceBindingKey(pkA(a[0]), pkS(a[1]), pkA(a[2])))
		}},
		{"GetOwnerKey", []pkKind{A}, nil, func(a []pkArg) string { return h(types.GetOwnerKey(pkA(a[0]))) }},
		{"GetOwnerProviderKey", []pkKind{A, A}, nil, func(a []pkArg) string { return h(types.GetOwnerProviderKey(pkA(a[0]), pkA(a[1]))) }},
		{"GetPricingKey", []pkKind{N, A}, nil, func(a []pkArg) string { return h(types.GetPricingKey(pkS(a[0]), pkA(a[1]))) }},
		{"GetWithdrawAddrKey", []pkKind{A}, nil, func(a []pkArg) string { return h(types.GetWithdrawAddrKey(pkA(a[0]))) }},
		{"GetBindingsSubspace", []pkKind{N}, nil, func(a []pkArg) string { return h(types.GetBindingsSubspace(pkS(a[0]))) }},
		{"GetOwnerBindingsSubspace", []pkKind{A, N}, nil, func(a []pkArg) string { return h(types.GetOwnerBindingsSubspace(pkA(a[0]), pkS(a[1]))) }},
		{"GetOwnerProvidersSubspace", []pkKind{A}, nil, func(a []pkArg) string { return h(types.GetOwnerProvidersSubspace(pkA(a[0]))) }},
		{"GetRequestContextKey", []pkKind{B}, ctx, func(a []pkArg) string { return h(types.GetRequestContextKey(pkB(a[0]))) }},
		{"GetExpiredRequestBatchKey", []pkKind{B, I}, ctx, func(a []pkArg) string { return h(types.GetExpiredRequestBatchKey(pkB(a[0]), a[1].i)) }},
		{"GetNewRequestBatchKey", []pkKind{B, I}, ctx, func(a []pkArg) string { return h(types.GetNewRequestBatchKey(pkB(a[0]), a[1].i)) }},
		{"GetExpiredRequestBatchSubspace", []pkKind{I}, nil, func(a []pkArg) string { return h(types.GetExpiredRequestBatchSubspace(a[0].i)) }},
		{"GetNewRequestBatchSubspace", []pkKind{I}, nil, func(a []pkArg) string { return h(types.GetNewRequestBatchSubspace(a[0].i)) }},
		{"GetExpiredRequestBatchHeightKey", []pkKind{B}, ctx, func(a []pkArg) string { return h(types.GetExpiredRequestBatchHeightKey(pkB(a[0]))) }},
		{"GetNewRequestBatchHeightKey", []pkKind{B}, ctx, func(a []pkArg) string { return h(types.GetNewRequestBatchHeightKey(pkB(a[0]))) }},
		{"GetRequestKey", []pkKind{B}, req, func(a []pkArg) string { return h(types.GetRequestKey(pkB(a[0]))) }},
		{"GetRequestSubspaceByReqCtx", []pkKind{B, U}, ctx, func(a []pkArg) string { return h(types.GetRequestSubspaceByReqCtx(pkB(a[0]), a[1].u)) }},
		{"GetActiveRequestKey", []pkKind{N, A, I, B}, map[int]string{3: "req"}, func(a []pkArg) string {
			return h(types.GetActiveRequestKey(pkS(a[0]), pkA(a[1]), a[2].i, pkB(a[3])))
		}},
		{"GetActiveRequestSubspace", []pkKind{N, A}, nil, func(a []pkArg) string { return h(types.GetActiveRequestSubspace(pkS(a[0]), pkA(a[1]))) }},
		{"GetActiveRequestKeyByID", []pkKind{B}, req, func(a []pkArg) string { return h(types.GetActiveRequestKeyByID(pkB(a[0]))) }},
		{"GetActiveRequestSubspaceByReqCtx", []pkKind{B, U}, ctx, func(a []pkArg) string {
			return h(types.GetActiveRequestSubspaceByReqCtx(pkB(a[0]), a[1].u))
		}},
		{"GetRequestVolumeKey", []pkKind{A, N, A}, nil, func(a []pkArg) string {
			return h(types.GetRequestVolumeKey(pkA(a[0]), pkS(a[1]), pkA(a[2])))
		}},
		{"GetResponseKey", []pkKind{B}, req, func(a []pkArg) string { return h(types.GetResponseKey(pkB(a[0]))) }},
		{"GetResponseSubspaceByReqCtx", []pkKind{B, U}, ctx, func(a []pkArg) string { return h(types.GetResponseSubspaceByReqCtx(pkB(a[0]), a[1].u)) }},
		{"GetEarnedFeesKey", []pkKind{A, N}, map[int]string{1: "denom"}, func(a []pkArg) string { return h(types.GetEarnedFeesKey(pkA(a[0]), pkS(a[1]))) }},
		{"GetEarnedFeesSubspace", []pkKind{A}, nil, func(a []pkArg) string { return h(types.GetEarnedFeesSubspace(pkA(a[0]))) }},
		{"GetOwnerEarnedFeesKey", []pkKind{A, N}, map[int]string{1: "denom"}, func(a []pkArg) string { return h(types.GetOwnerEarnedFeesKey(pkA(a[0]), pkS(a[1]))) }},
		{"GetOwnerEarnedFeesSubspace", []pkKind{A}, nil, func(a []pkArg) string { return h(types.GetOwnerEarnedFeesSubspace(pkA(a[0]))) }},

		{"GenerateRequestContextID", []pkKind{B, I}, map[int]string{0: "hash"}, func(a []pkArg) string {
			return h(types.GenerateRequestContextID(pkB(a[0]), a[1].i))
		}},
		{"SplitRequestContextID", []pkKind{B}, map[int]string{0: "ctx"}, func(a []pkArg) string {
			tx, idx, err := types.SplitRequestContextID(pkB(a[0]))
			if err != nil {
				return "ERR"
			}
			return fmt.Sprintf("%s %d", h(tx), idx)
		}},
		{"GenerateRequestID", []pkKind{B, U, I, S}, map[int]string{0: "ctx"}, func(a []pkArg) string {
			return h(types.GenerateRequestID(pkB(a[0]), a[1].u, a[2].i, int16(a[3].i)))
		}},
		{"SplitRequestID", []pkKind{B}, map[int]string{0: "req"}, func(a []pkArg) string {
			c, b, ht, i, err := types.SplitRequestID(pkB(a[0]))
			if err != nil {
				return "ERR"
			}
			return fmt.Sprintf("%s %d %d %d", h(c), b, ht, i)
		}},
	}
}

type pkPools struct {
	rng    *rand.Rand
	names  []pkArg
	denoms []pkArg
	addrs  []pkArg
	hashes []pkArg
	ctxs   []pkArg
	reqs   []pkArg
	i64s   []pkArg
	u64s   []pkArg
	i16s   []pkArg
	// request ids built by the stream with the real GenerateRequestID: the (context, batch) they were built from
	reqOrigin map[string]kmReqOrigin
}

func (p *pkPools) randBytes(n int) []byte {
	b := make([]byte, n)
	p.rng.Read(b)
	return b
}

func pkBuildPools(rng *rand.Rand, n int) *pkPools {
	p := &pkPools{rng: rng, reqOrigin: map[string]kmReqOrigin{}}
	by := func(k pkKind, b []byte) pkArg { return pkArg{k: k, b: b} }

	// service names: prefixes of one another, the separators of the name syntax, a long one,
	// and (for the translation only; the theorems exclude them) names containing 0x00 / 0xff
	for _, s := range []string{"", "a", "ab", "abc", "svc", "svc-1", "svc-10", "svc_1", "A", "Ab", "b",
		strings.Repeat("x", 70), "a\x00b", "\x00", "a\x00", "\xff\xfe", "stake", "bc"} {
		p.names = append(p.names, by(pkName, []byte(s)))
	}
	for _, s := range []string{"", "s", "stake", "stakes", "take", "iris", "a\x00"} {
		p.denoms = append(p.denoms, by(pkName, []byte(s)))
	}

	// addresses: every length 0..22 as prefixes of one 22-byte string (so they extend each
	// other), a second chain ending in printable bytes (an address tail that reads as a name
	// or denom), all-zero and all-0xff of lengths 1, 19, 20, 21, and random 20-byte ones
	base := []byte{0x11, 0x22, 0x33, 0x44, 0x55, 0x66, 0x77, 0x88, 0x99, 0xaa, 0xbb, 0xcc, 0xdd, 0xee, 0xff, 0x01, 0x02, 0x03, 0x04, 0x73, 0x74, 0x61}
	for l := 0; l <= 22; l++ {
		p.addrs = append(p.addrs, by(pkAddr, base[:l]))
	}
	chain2 := append(append([]byte{}, make([]byte, 18)...), 'A', 'b', 's', 't')
	for l := 18; l <= 22; l++ {
		p.addrs = append(p.addrs, by(pkAddr, chain2[:l]))
	}
	for _, l := range []int{1, 19, 20, 21} {
		z := make([]byte, l)
		f := make([]byte, l)
		for i := range f {
			f[i] = 0xff
		}
		p.addrs = append(p.addrs, by(pkAddr, z), by(pkAddr, f))
	}
	for i := 0; i < 4; i++ {
		p.addrs = append(p.addrs, by(pkAddr, p.randBytes(20)))
	}
	// crafted for the key monitor (mon_keys.go): bech32 extensions (the TEXT of P' starts with the whole text of P)
	// of three 20-byte addresses of the pool, and a 20-byte address that contains the separator bytes
	for _, a := range [][]byte{base[:20], chain2[:20], p.addrs[len(p.addrs)-1].b} {
		if e := kmBechExtend(a); e != nil {
			p.addrs = append(p.addrs, by(pkAddr, e))
		}
	}
	p.addrs = append(p.addrs, by(pkAddr, []byte("\x00a\x00bcosmos1\x00\x00\xff\xffzzzzz")))
	// dedupe addresses
	seen := map[string]bool{}
	var as []pkArg
	for _, a := range p.addrs {
		if !seen[string(a.b)] {
			seen[string(a.b)] = true
			as = append(as, a)
		}
	}
	p.addrs = as

	i64 := []int64{0, 1, 255, 256, 1 << 32, math.MaxInt64, -1, -256, math.MinInt64, math.MinInt64 + 1, 65535, 65536, 1<<56 - 1, 1 << 56}
	for i := 0; i < 6; i++ {
		i64 = append(i64, int64(rng.Uint64()))
	}
	for _, v := range i64 {
		p.i64s = append(p.i64s, pkArg{k: pkI64, i: v})
	}
	u64 := []uint64{0, 1, 255, 256, 1 << 32, math.MaxInt64, 1 << 63, math.MaxUint64, 65535, 65536, 1<<56 - 1, 1 << 56}
	for i := 0; i < 6; i++ {
		u64 = append(u64, rng.Uint64())
	}
	for _, v := range u64 {
		p.u64s = append(p.u64s, pkArg{k: pkU64, u: v})
	}
	i16 := []int64{0, 1, 255, 256, math.MaxInt16, -1, -256, math.MinInt16, 127, 128}
	for i := 0; i < 4; i++ {
		i16 = append(i16, int64(int16(rng.Uint32())))
	}
	for _, v := range i16 {
		p.i16s = append(p.i16s, pkArg{k: pkI16, i: v})
	}

	// tx hashes: 32 bytes (zero, 0xff, random) and the wrong lengths the functions do not reject
	p.hashes = append(p.hashes, by(pkBytes, make([]byte, 32)), by(pkBytes, []byte(strings.Repeat("\xff", 32))),
		by(pkBytes, p.randBytes(32)), by(pkBytes, p.randBytes(32)),
		by(pkBytes, nil), by(pkBytes, p.randBytes(31)), by(pkBytes, p.randBytes(33)), by(pkBytes, p.randBytes(1)))

	// context ids: real ones (hash x index), raw 40-byte strings, and wrong lengths
	for _, hh := range p.hashes[:4] {
		for _, idx := range []int64{0, 1, 255, -1, math.MaxInt64, math.MinInt64} {
			p.ctxs = append(p.ctxs, by(pkBytes, types.GenerateRequestContextID(pkCopy(hh.b), idx)))
		}
	}
	p.ctxs = append(p.ctxs, by(pkBytes, p.randBytes(40)), by(pkBytes, nil), by(pkBytes, p.randBytes(39)),
		by(pkBytes, p.randBytes(41)), by(pkBytes, p.randBytes(8)))

	// request ids: real ones, raw 58-byte strings, wrong lengths
	for ci, c := range p.ctxs {
		if ci%5 != 0 || len(c.b) != 40 {
			continue
		}
		for _, bc := range []uint64{0, 1, 256, math.MaxUint64} {
			for _, ht := range []int64{1, -1, math.MaxInt64} {
				for _, ix := range []int16{0, 1, -1, math.MinInt16} {
					id := types.GenerateRequestID(pkCopy(c.b), bc, ht, ix)
					p.reqs = append(p.reqs, by(pkBytes, id))
					if _, dup := p.reqOrigin[string(id)]; !dup {
						p.reqOrigin[string(id)] = kmReqOrigin{c.b, bc}
					}
				}
			}
		}
	}
	p.reqs = append(p.reqs, by(pkBytes, p.randBytes(58)), by(pkBytes, []byte(strings.Repeat("\xff", 58))),
		by(pkBytes, make([]byte, 58)), by(pkBytes, nil), by(pkBytes, p.randBytes(57)), by(pkBytes, p.randBytes(59)),
		by(pkBytes, p.randBytes(40)))
	return p
}

func (p *pkPools) pool(k pkKind, override string) []pkArg {
	switch override {
	case "ctx":
		return p.ctxs
	case "req":
		return p.reqs
	case "hash":
		return p.hashes
	case "denom":
		return p.denoms
	}
	switch k {
	case pkName:
		return p.names
	case pkAddr:
		return p.addrs
	case pkBytes:
		return p.ctxs
	case pkI64:
		return p.i64s
	case pkU64:
		return p.u64s
	case pkI16:
		return p.i16s
	}
	panic("pool")
}

// a fresh random argument of the kind (not from the pools)
func (p *pkPools) random(k pkKind, override string) pkArg {
	r := p.rng
	switch k {
	case pkName:
		l := r.Intn(12)
		b := make([]byte, l)
		const alpha = "abcdefghijklmnopqrstuvwxyzABCDEFGHIJKLMNOPQRSTUVWXYZ0123456789-_"
		for i := range b {
			b[i] = alpha[r.Intn(len(alpha))]
		}
		return pkArg{k: k, b: b}
	case pkAddr:
		l := 20
		if r.Intn(3) == 0 {
			l = 1 + r.Intn(22)
		}
		return pkArg{k: k, b: p.randBytes(l)}
	case pkBytes:
		l := 40
		switch override {
		case "req":
			l = 58
		case "hash":
			l = 32
		}
		if r.Intn(8) == 0 {
			l = r.Intn(70)
		}
		return pkArg{k: k, b: p.randBytes(l)}
	case pkI64:
		v := int64(r.Uint64())
		if r.Intn(2) == 0 {
			v >>= uint(r.Intn(64))
		}
		return pkArg{k: k, i: v}
	case pkU64:
		v := r.Uint64()
		if r.Intn(2) == 0 {
			v >>= uint(r.Intn(64))
		}
		return pkArg{k: k, u: v}
	case pkI16:
		return pkArg{k: k, i: int64(int16(r.Uint32()))}
	}
	panic("random")
}

const pkFullProductCap = 6000

func runPureKeys(out *bufio.Writer, seed int64, n int) (cases int, mon *KeyMonSummary) {
	rng := rand.New(rand.NewSource(seed))
	p := pkBuildPools(rng, n)
	bechDone := map[string]bool{}
	fs := pkFuncs()
	km := newKeyMon(fs, p)
	fidx := map[*pkFunc]int{}
	for fi := range fs {
		fidx[&fs[fi]] = fi
	}

	emit := func(f *pkFunc, args []pkArg) {
		for _, a := range args {
			if a.k == pkAddr && !bechDone[string(a.b)] {
				bechDone[string(a.b)] = true
				fmt.Fprintf(out, "B %s %s\n", pkHex(a.b), pkHex([]byte(sdk.AccAddress(pkCopy(a.b)).String())))
			}
		}
		var sb strings.Builder
		sb.WriteString("K ")
		sb.WriteString(f.name)
		for _, a := range args {
			sb.WriteByte(' ')
			sb.WriteString(a.String())
		}
		sb.WriteString(" = ")
		r := f.call(args)
		sb.WriteString(r)
		sb.WriteByte('\n')
		out.WriteString(sb.String())
		cases++
		km.observe(fidx[f], args, r)
	}

	for fi := range fs {
		f := &fs[fi]
		pools := make([][]pkArg, len(f.kinds))
		prod := 1
		for i, k := range f.kinds {
			pools[i] = p.pool(k, f.pools[i])
			prod *= len(pools[i])
		}
		args := make([]pkArg, len(f.kinds))
		if prod <= pkFullProductCap {
			// full product, first argument slowest
			var rec func(i int)
			rec = func(i int) {
				if i == len(pools) {
					emit(f, args)
					return
				}
				for _, a := range pools[i] {
					args[i] = a
					rec(i + 1)
				}
			}
			rec(0)
		} else {
			// every value of every argument against a few fixed settings of the others,
			// then random combinations of pool values
			for i := range pools {
				for base := 0; base < 3; base++ {
					for j := range pools {
						args[j] = pools[j][(base*7+j*3)%len(pools[j])]
					}
					for _, a := range pools[i] {
						args[i] = a
						emit(f, args)
					}
				}
			}
			for c := 0; c < pkFullProductCap; c++ {
				for j := range pools {
					args[j] = pools[j][rng.Intn(len(pools[j]))]
				}
				emit(f, args)
			}
		}
		// n fresh random cases
		for c := 0; c < n; c++ {
			for j, k := range f.kinds {
				args[j] = p.random(k, f.pools[j])
			}
			emit(f, args)
		}
		// crafted cases (mon_keys.go): boundary shifts, bech32 extensions, prefix-related values with separators
		before := cases
		for _, t := range pkCrafted(f, p) {
			emit(f, t)
		}
		for _, t := range pkCraftedSubs(km, fi, p) {
			emit(f, t)
		}
		km.sum.CraftedCases += cases - before
	}
	return cases, km.finish()
}
