package main

import (
	"bufio"
	"encoding/json"
	"flag"
	"fmt"
	"math/rand"
	"os"
)

type Summary struct {
	DistinctOK int `json:"distinct_ok_ops"` // distinct accepted operations (by their full resolved text)
	Histories  int                       `json:"histories"`
	Steps      int                       `json:"steps"`
	OpCounts   map[string]map[string]int `json:"op_counts"`
	MonEvals   map[string]int            `json:"monitor_evals"`
	Violations []VRec                    `json:"violations"`
	Samples    []string                  `json:"samples"`
	Determinism *DetSummary              `json:"determinism,omitempty"`
	KeyMon      *KeyMonSummary           `json:"keymon,omitempty"` // mode purekeys: the key monitor (mon_keys.go)
}

type VRec struct {
	Hist   int    `json:"hist"`
	Name   string `json:"name"`
	Prop   string `json:"prop"`
	Step   int    `json:"step"`
	Detail string `json:"detail"`
}

var distinctOK map[string]bool

func main() {
	mode := flag.String("mode", "explore", "explore | determinism | corpus | replay | shrink | pureprice | purekeys | keyreplay")
	seed := flag.Int64("seed", 1, "PRNG seed")
	n := flag.Int("n", 10, "number of generated histories")
	minOps := flag.Int("minops", 30, "")
	maxOps := flag.Int("maxops", 80, "")
	outPath := flag.String("out", "impl.trace", "trace output")
	sumPath := flag.String("summary", "", "summary json output")
	histDir := flag.String("histdir", "", "directory to save every history as JSON (replayable)")
	replay := flag.String("replay", "", "history JSON to replay")
	prop := flag.String("prop", "", "property whose monitor must keep failing (mode shrink)")
	firstID := flag.Int("firstid", 0, "id of the first history")
	k3 := flag.Float64("k3", 0, "probability that a generated call targets the module-registered service (known finding K3)")
	flag.Parse()

	f, err := os.Create(*outPath)
	must(err)
	defer f.Close()
	out := bufio.NewWriterSize(f, 1<<20)
	defer out.Flush()

	if *mode == "pureprice" {
		fmt.Printf("pureprice cases=%d\n", runPurePrice(out, *seed, *n))
		return
	}

	sum := &Summary{OpCounts: map[string]map[string]int{}, MonEvals: map[string]int{}}
	w := newWorld()

	record := func(r *Runner) {
		h := r.hist
		sum.Histories++
		sum.Steps += len(h.Ops)
		for i, o := range h.Ops {
			if sum.OpCounts[o.Kind] == nil {
				sum.OpCounts[o.Kind] = map[string]int{}
			}
			sum.OpCounts[o.Kind][r.results[i]]++
			if r.results[i] == "ok" && o.Kind != "query" && o.Kind != "export" {
				if distinctOK == nil {
					distinctOK = map[string]bool{}
				}
				distinctOK[o.line()] = true
				sum.DistinctOK = len(distinctOK)
			}
		}
		for k, v := range r.mon.evals {
			sum.MonEvals[k] += v
		}
		for _, v := range r.mon.viol {
			sum.Violations = append(sum.Violations, VRec{h.ID, h.Name, v.Prop, v.Step, v.Detail})
		}
		if *histDir != "" {
			b, _ := json.Marshal(h)
			must(os.WriteFile(fmt.Sprintf("%s/h%d.json", *histDir, h.ID), b, 0644))
		}
		if len(sum.Samples) < 3 {
			s := ""
			for i, o := range h.Ops {
				if i >= 12 {
					s += " ..."
					break
				}
				s += fmt.Sprintf("[%s -> %s] ", o.line(), r.results[i])
			}
			sum.Samples = append(sum.Samples, s)
		}
	}

	switch *mode {
	case "purekeys":
		cases, km := runPureKeys(out, *seed, *n)
		sum.KeyMon = km
		for _, f := range km.Findings {
			sum.Violations = append(sum.Violations, VRec{-1, "purekeys", f.Prop, -1, f.Kind + ": " + f.Detail})
		}
		fmt.Printf("purekeys cases=%d keymon: key_calls=%d subspace_calls=%d equal_bytes_pairs=%d scan_comparisons=%d findings=%d\n", cases,
			km.KeyCalls, km.SubspaceCalls, km.EqualBytesPairs, km.ScanComparisons, km.NFindings)
	case "keyreplay":
		b, err := os.ReadFile(*replay)
		must(err)
		var body struct {
			Finding KMFinding `json:"finding"`
		}
		must(json.Unmarshal(b, &body))
		still, lines := runKeyReplay(body.Finding)
		fmt.Printf("keyreplay kind=%s theorem=%s\n", body.Finding.Kind, body.Finding.Theorem)
		for _, l := range lines {
			fmt.Println(l)
		}
		if still {
			fmt.Println("KEYREPLAY still-present")
		} else {
			fmt.Println("KEYREPLAY gone")
		}
		return
	case "shrink":
		runShrink(w, *replay, *prop, *outPath+".min.json")
	case "replay":
		b, err := os.ReadFile(*replay)
		must(err)
		var h History
		must(json.Unmarshal(b, &h))
		runFixed(w, &h, out, record)
	case "corpus":
		for i, h := range corpus() {
			h.ID = *firstID + i
			runFixed(w, h, out, record)
		}
	case "explore", "determinism":
		if *mode == "determinism" {
			sum.Determinism = &DetSummary{}
			// the directed witness first: several providers receive requests in one block
			runFixedWith(w, detWitness(*firstID-1), out, true, func(r *Runner) {
				record(r)
				checkDeterminism(r, sum)
			})
			// contexts competing for one balance: several independent replays, because a randomised
			// traversal order coincides with the store order on a fraction of the runs
			for k := 0; k < 5; k++ {
				runFixedWith(w, detWitness2(*firstID-2-k), out, true, func(r *Runner) {
					record(r)
					checkDeterminism(r, sum)
				})
			}
		}
		for i := 0; i < *n; i++ {
			hs := *seed*1000003 + int64(i)
			rng := rand.New(rand.NewSource(hs))
			h := &History{ID: *firstID + i, Name: "gen", Seed: hs, CfgIdx: rng.Intn(len(cfgs))}
			a := standardAtoms()
			g := &Gen{rng: rng, tempo: 0.15 + 0.2*rng.Float64(), txUsed: map[uint64]bool{}, k3: *k3}
			h.Funding = (&Gen{rng: rng}).funding()
			g.planParams(hs)
			r := newRunner(w, a, h, out)
			r.wantDigest = *mode == "determinism"
			g.r = r
			r.header()
			nops := *minOps + rng.Intn(*maxOps-*minOps+1)
			g.planExport(nops)
			for j := 0; j < nops; j++ {
				r.apply(g.next())
			}
			r.apply(&Op{Kind: "query"}) // every history ends with a query step (C17)
			r.finish()
			record(r)
			if *mode == "determinism" {
				checkDeterminism(r, sum)
			}
		}
	}
	if *sumPath != "" {
		b, _ := json.MarshalIndent(sum, "", " ")
		must(os.WriteFile(*sumPath, b, 0644))
	}
	fmt.Printf("histories=%d steps=%d violations=%d\n", sum.Histories, sum.Steps, len(sum.Violations))
	if d := sum.Determinism; d != nil {
		fmt.Printf("determinism: histories=%d steps=%d digest_comparisons=%d differences=%d recovered_panics=%d\n",
			d.Histories, d.Steps, d.DigestComparisons, d.Differences, d.RecoveredPanics)
	}
}

// runFixed executes a history whose ops are already resolved.
func runFixed(w *World, h *History, out *bufio.Writer, record func(*Runner)) {
	runFixedWith(w, h, out, false, record)
}

func runFixedWith(w *World, h *History, out *bufio.Writer, digest bool, record func(*Runner)) {
	ops := h.Ops
	h.Ops = nil
	a := atomsFor(h)
	r := newRunner(w, a, h, out)
	r.wantDigest = digest
	r.header()
	for i := range ops {
		o := ops[i]
		r.apply(&o)
	}
	r.finish()
	record(r)
}
