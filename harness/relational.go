package main

import (
	"bytes"
	"encoding/binary"
	"encoding/json"
	"fmt"
	"math/big"
	"sort"
	"strings"
	"time"

	sdk "github.com/cosmos/cosmos-sdk/types"

	"github.com/irismod/service/types"
)

// ---------------------------------------------------------------------------
// Step-relational monitors (C02 C04 C05 C06 C07 C08 C09 C10).
//
// Everything here is computed from two raw store scans (before / after the
// step), the bank balances before / after, the op and its result, and the
// slash events of the step; nothing is taken from the model. The per-history
// memory (which request was issued with which fee and how it was settled, at
// which heights a context's counter moved, the totals ever in force) lives in
// relState.
// ---------------------------------------------------------------------------

type reqTrack struct {
	fee      *big.Int
	consumer string // raw bytes
	provider string
	svc      string
	super    bool
	issuedH  int64
	exp      int64
	settled  string // "" | "earn" | "refund-malformed" | "refund-expired"
	settledH int64
	gone     bool // all records seen removed
	k3       bool
	// the designated provider sent a stateless-valid response while the request was pending and in time, and it
	// was REJECTED (C08 reports that); if the request is later settled by the expiry, C02 reports the wrong party
	refusedInTime int64 // height of the refusal, 0 = none
}

type relState struct {
	reqs  map[string]*reqTrack
	k3ctx map[string]bool
	k3any bool
	// C12: per context, the response threshold in force when its current batch started (at creation:
	// the threshold it was created with) -- the value the response callback of that batch is judged by,
	// whatever the owning module did to the context's threshold since
	batchThr map[string]uint32
	// C03: the block time at which each binding was last SEEN to turn unavailable (by the owner's
	// disable or by a slash), kept by the monitor itself: the refund deadline is judged by it, not
	// by the DisabledTime field the implementation stored
	disabledAt map[bindKey]int64
}

func (m *Monitors) relInit() *relState {
	if m.rel == nil {
		m.rel = &relState{reqs: map[string]*reqTrack{}, k3ctx: map[string]bool{}, batchThr: map[string]uint32{}, disabledAt: map[bindKey]int64{}}
	}
	return m.rel
}

// noteK3 remembers the contexts on the module-registered service (known finding K3).
func (m *Monitors) noteK3(s *Snap) {
	st := m.relInit()
	for id, rc := range s.Ctxs {
		if rc.ServiceName == modSvc && !st.k3ctx[id] {
			st.k3ctx[id] = true
			st.k3any = true
		}
	}
}

// tagCtx gives the known-finding prefix for failures that stem from a context.
func (m *Monitors) tagCtx(id string) string {
	if m.rel != nil && m.rel.k3ctx[id] {
		return "K3: "
	}
	return ""
}

func big0() *big.Int { return new(big.Int) }

func getBal(mp map[int64]*big.Int, at int64) *big.Int {
	if v, ok := mp[at]; ok {
		return v
	}
	return big0()
}

func addTo(mp map[int64]*big.Int, at int64, x *big.Int) {
	if mp[at] == nil {
		mp[at] = big0()
	}
	mp[at].Add(mp[at], x)
}

// floorMul = floor(x * rate) for a rate given as decimal text (18 decimals), exact.
func floorMul(x *big.Int, rate string) *big.Int {
	r := decToScaled(rate)
	p := new(big.Int).Mul(x, r)
	return p.Quo(p, prec) // x, r >= 0
}

func ridHeight(rid string) int64 { return int64(binary.BigEndian.Uint64([]byte(rid[48:56]))) }
func ridIndex(rid string) int64 {
	return int64(int16(binary.BigEndian.Uint16([]byte(rid[56:58]))))
}

func sortedStrs(set map[string]bool) []string {
	var l []string
	for k := range set {
		l = append(l, k)
	}
	sort.Strings(l)
	return l
}

// feeFromText recomputes a fee from the PUBLISHED pricing text of a binding,
// the block time and the volume: max(1, trunc(base * dT * dV)) with sdk.Dec.
// dT: discount of the window with start <= t < end, else 1. dV: discount of
// the last tier whose volume is <= v, else 1.
func feeFromText(text string, now time.Time, vol uint64) (fee sdk.Int, base sdk.Int, ok bool) {
	var raw types.RawPricing
	if err := json.Unmarshal([]byte(text), &raw); err != nil {
		return fee, base, false
	}
	dc, err := sdk.ParseDecCoin(raw.Price)
	if err != nil {
		c, err := sdk.ParseCoin(raw.Price)
		if err != nil {
			return fee, base, false
		}
		dc = sdk.NewDecCoinFromCoin(c)
	}
	if dc.Denom != denom {
		return fee, base, false
	}
	base = dc.Amount.TruncateInt()
	dT := sdk.OneDec()
	for _, p := range raw.PromotionsByTime {
		if !now.Before(p.StartTime) && now.Before(p.EndTime) {
			dT = p.Discount
			break
		}
	}
	dV := sdk.OneDec()
	for _, p := range raw.PromotionsByVolume {
		if p.Volume <= vol {
			dV = p.Discount
		}
	}
	price := sdk.NewDecFromInt(base).Mul(dT).Mul(dV)
	if price.LT(sdk.OneDec()) {
		price = sdk.OneDec()
	}
	return price.TruncateInt(), base, true
}

// batchPlan is the independently recomputed decision of the new-batch handler for one context.
type batchPlan struct {
	id     string
	rc     types.RequestContext // record as the handler sees it
	kind   string               // "idle" (not running) | "complete" (total reached) | "skip" | "pause" | "issue"
	provs  []string             // eligible providers in order
	fees   []*big.Int           // price per eligible provider (what the filter sums)
	total  *big.Int
	reason string
}

// stepFacts: what happened in the step, read off the two snapshots.
type stepFacts struct {
	H        int64
	now      time.Time
	isEB     bool
	issued   []string // request ids that appeared
	deact    []string // ids that were active before and are not active after
	answered string   // id accepted by a respond op ("" if none)
	malf     bool     // the accepted response carried a non-empty schema-invalid output
	k3step   bool     // the step runs the module-service call path
}

func (m *Monitors) facts(o *Op, res string, pre *Pre, s *Snap) *stepFacts {
	f := &stepFacts{H: pre.h, now: time.Unix(0, pre.now).UTC(), isEB: o.Kind == "endblock"}
	for rid := range s.Reqs {
		if _, ok := pre.snap.Reqs[rid]; !ok {
			f.issued = append(f.issued, rid)
		}
	}
	sort.Strings(f.issued)
	post := map[string]bool{}
	for _, rid := range s.ActID {
		post[rid] = true
	}
	for _, rid := range pre.snap.ActID {
		if !post[rid] {
			f.deact = append(f.deact, rid)
		}
	}
	sort.Strings(f.deact)
	if o.Kind == "respond" && res == "ok" {
		f.answered = string(reqID(o.Tx, o.Idx, o.Batch, o.RHeight, o.RIndex))
		f.malf = o.Out != 0 && !o.OutValid
	}
	if o.Kind == "call" && m.r.a.svcName[o.Svc] == modSvc && o.NameOverride == "" {
		f.k3step = true
	}
	return f
}

// relational evaluates the step predicates (C02 C04 C05 C06 C07 C08 C09 C10).
func (m *Monitors) relational(o *Op, res string, pre *Pre, s *Snap, bal map[int64]*big.Int, esc, dep, fee, sup *big.Int) {
	st := m.relInit()
	f := m.facts(o, res, pre, s)

	m.noteK3(s)
	m.c13WdFrame(o, res, pre, s)
	m.c03Step(o, res, pre, s, bal, dep)

	// register newly issued requests before the checks use them
	m.c02Issue(f, pre, s)

	var plans []*batchPlan
	refunds := map[int64]*big.Int{} // expiry refunds of this EndBlock, per consumer atom
	if f.isEB {
		for _, rid := range f.deact {
			if t := st.reqs[rid]; t != nil && !t.super {
				addTo(refunds, m.r.a.atomOfAddr([]byte(t.consumer)), t.fee)
			}
		}
		plans = m.planBatches(f, pre, s, refunds)
	}

	m.c08respond(o, res, f, pre, s)
	m.c02(o, res, f, pre, s, bal, esc, fee)
	m.c08window(f, s)
	m.c04(o, res, f, pre, s, dep, sup)
	m.c05(o, res, f, pre, s, bal)
	m.c06(f, pre, s, plans)
	m.c07(o, res, f, pre, s, bal, refunds)
	m.c09(o, res, f, pre, s, plans)
	m.c10(o, res, f, pre, s)
	m.c12cb(o, res, f, pre, s)
	m.c16finished(f, pre, s)

	// forget nothing, but note the requests whose records are all gone
	for rid, t := range st.reqs {
		if _, ok := s.Reqs[rid]; !ok && t.settled != "" {
			t.gone = true
		}
	}
}

// ---------------------------------------------------------------------------
// C02
// ---------------------------------------------------------------------------

func (m *Monitors) c02Issue(f *stepFacts, pre *Pre, s *Snap) {
	st := m.rel
	for _, rid := range f.issued {
		q := s.Reqs[rid]
		id := ridCtx(rid)
		tag := m.tagCtx(id)
		if _, seen := st.reqs[rid]; seen {
			m.fail("C02", "%srequest id %s created a second time", tag, ridLine([]byte(rid)))
			continue
		}
		rc, ok := s.Ctxs[id]
		if !ok {
			// request of a missing context: C16 reports it; money is checked against the record only
			rc = pre.snap.Ctxs[id]
		}
		st.reqs[rid] = &reqTrack{fee: amountOf(q.ServiceFee), consumer: string(rc.Consumer), provider: string(q.Provider), svc: rc.ServiceName,
			super: rc.SuperMode, issuedH: q.RequestHeight, exp: q.ExpirationHeight, k3: st.k3ctx[id]}
		if !f.isEB && !f.k3step {
			m.fail("C02", "%srequest %s appeared outside an EndBlock", tag, ridLine([]byte(rid)))
		}
	}
}

func (m *Monitors) c02(o *Op, res string, f *stepFacts, pre *Pre, s *Snap, bal map[int64]*big.Int, esc, feeColl *big.Int) {
	st := m.rel
	a := m.r.a
	expBal := map[int64]*big.Int{}
	expEsc, expFee := big0(), big0()
	expEarn := map[string]*big.Int{}
	nontrivial := 0
	stepTag := ""
	if f.k3step {
		stepTag = "K3: "
	}

	// stored fees never change
	for rid, q := range s.Reqs {
		if t := st.reqs[rid]; t != nil && amountOf(q.ServiceFee).Cmp(t.fee) != 0 {
			m.fail("C02", "%sfee of request %s changed from %s to %s", m.tagCtx(ridCtx(rid)), ridLine([]byte(rid)), t.fee, amountOf(q.ServiceFee))
		}
	}

	// issued: consumer pays the fee into escrow
	for _, rid := range f.issued {
		t := st.reqs[rid]
		if t == nil {
			continue
		}
		if t.k3 {
			stepTag = "K3: "
		}
		nontrivial++
		addTo(expBal, a.atomOfAddr([]byte(t.consumer)), new(big.Int).Neg(t.fee))
		expEsc.Add(expEsc, t.fee)
	}

	// deactivated: each must be explained by exactly one settlement of this step
	for _, rid := range f.deact {
		t := st.reqs[rid]
		tag := m.tagCtx(ridCtx(rid))
		if t == nil {
			m.fail("C02", "%sactive request %s was never seen being issued", tag, ridLine([]byte(rid)))
			continue
		}
		if t.k3 {
			stepTag = "K3: "
		}
		if t.settled != "" {
			m.fail("C02", "%srequest %s settled twice: %s at height %d and again now", tag, ridLine([]byte(rid)), t.settled, t.settledH)
			continue
		}
		nontrivial++
		switch {
		case rid == f.answered && f.malf:
			t.settled = "refund-malformed"
			addTo(expBal, a.atomOfAddr([]byte(t.consumer)), t.fee)
			expEsc.Sub(expEsc, t.fee)
		case rid == f.answered:
			t.settled = "earn"
			tax := floorMul(t.fee, m.r.cfg.Tax)
			expEsc.Sub(expEsc, tax)
			expFee.Add(expFee, tax)
			e := new(big.Int).Sub(t.fee, tax)
			if expEarn[t.provider] == nil {
				expEarn[t.provider] = big0()
			}
			expEarn[t.provider].Add(expEarn[t.provider], e)
			if string(a.addr(o.Who)) != t.provider {
				m.fail("C02", "%srequest %s settled in favour of %d, not its provider", tag, ridLine([]byte(rid)), o.Who)
			}
			if f.H > t.exp {
				m.fail("C02", "%srequest %s paid out at height %d, after its expiry block %d", tag, ridLine([]byte(rid)), f.H, t.exp)
			}
		case f.isEB:
			t.settled = "refund-expired"
			if t.refusedInTime > 0 {
				m.fail("C02", "%srequest %s is settled by expiry (refund to the consumer, slash of the provider) although its provider answered in time at height %d and was refused", tag, ridLine([]byte(rid)), t.refusedInTime)
			}
			if f.H != t.exp {
				m.fail("C02", "%srequest %s expired in the EndBlock of %d, its expiry block is %d", tag, ridLine([]byte(rid)), f.H, t.exp)
			}
			if !t.super {
				addTo(expBal, a.atomOfAddr([]byte(t.consumer)), t.fee)
				expEsc.Sub(expEsc, t.fee)
			}
		default:
			t.settled = "vanished"
			m.fail("C02", "%srequest %s stopped being pending in a %s step without a settlement", tag, ridLine([]byte(rid)), o.Kind)
		}
		t.settledH = f.H
	}
	if f.k3step && res == "ok" {
		// the module-service path issues and answers in one message: the request never shows up as active
		for _, rid := range f.issued {
			if t := st.reqs[rid]; t != nil && t.settled == "" {
				if _, act := indexOf(s.ActID, rid); !act {
					t.settled = "earn"
					t.settledH = f.H
					tax := floorMul(t.fee, m.r.cfg.Tax)
					expEsc.Sub(expEsc, tax)
					expFee.Add(expFee, tax)
					if expEarn[t.provider] == nil {
						expEarn[t.provider] = big0()
					}
					expEarn[t.provider].Add(expEarn[t.provider], new(big.Int).Sub(t.fee, tax))
				}
			}
		}
	}
	if f.answered != "" {
		if _, was := indexOf(pre.snap.ActID, f.answered); !was {
			m.fail("C02", "%sresponse to %s accepted although the request was not pending", m.tagCtx(ridCtx(f.answered)), ridLine([]byte(f.answered)))
		}
	}
	// a settled request never becomes pending again
	for _, rid := range s.ActID {
		if t := st.reqs[rid]; t != nil && t.settled != "" {
			m.fail("C02", "%srequest %s pending again after %s", m.tagCtx(ridCtx(rid)), ridLine([]byte(rid)), t.settled)
		}
	}

	// withdraw: earnings leave the escrow to the withdrawal address of the signer
	earnPre, earnPost := big0(), big0()
	for _, e := range pre.snap.Earned {
		earnPre.Add(earnPre, e)
	}
	for _, e := range s.Earned {
		earnPost.Add(earnPost, e)
	}
	moneyStep := f.isEB || f.answered != "" || (f.k3step && res == "ok")
	if o.Kind == "withdraw" && res == "ok" {
		paid := new(big.Int).Sub(earnPre, earnPost)
		expEsc.Sub(expEsc, paid)
		dest := string(a.addr(o.Owner))
		if w, ok := pre.snap.Wd[dest]; ok {
			dest = w
		}
		if d := new(big.Int).Sub(esc, pre.esc); d.Cmp(expEsc) != 0 {
			m.fail("C02", "withdraw moved %s out of escrow, earnings fell by %s", new(big.Int).Neg(d), paid)
		}
		at := a.atomOfAddr([]byte(dest))
		if d := new(big.Int).Sub(getBal(bal, at), getBal(pre.bal, at)); d.Cmp(paid) != 0 {
			m.fail("C02", "withdraw of %s credited %s to the withdrawal address %d", paid, d, at)
			m.fail("C13", "withdraw of %s credited %s to the withdrawal address %d of owner %d (the owner itself unless it has set another)", paid, d, at, o.Owner)
		}
		// C13: exactly that provider's earnings, or exactly the owner's total
		m.evals["C13.withdraw"]++
		wantPaid := big0()
		if o.Prov != 0 {
			if e := pre.snap.Earned[string(a.addr(o.Prov))]; e != nil {
				wantPaid = e
			}
		} else if e := pre.snap.OwnerEarned[string(a.addr(o.Owner))]; e != nil {
			wantPaid = e
		}
		if !f.k3step && !(m.rel != nil && m.rel.k3any) && !m.k5 && paid.Cmp(wantPaid) != 0 {
			m.fail("C13", "withdraw by %d for provider %d paid %s, the records said %s", o.Owner, o.Prov, paid, wantPaid)
		}
		for p, e := range pre.snap.Earned {
			now := s.Earned[p]
			if now == nil {
				now = big0()
			}
			if now.Cmp(e) > 0 {
				m.fail("C02", "earnings of %d grew in a withdraw", a.atomOfAddr([]byte(p)))
			}
			if now.Cmp(e) != 0 && pre.snap.Owners[p] != string(a.addr(o.Owner)) {
				m.fail("C02", "withdraw by %d took the earnings of %d, owned by someone else", o.Owner, a.atomOfAddr([]byte(p)))
				m.fail("C13", "withdraw by %d reset the earnings of %d, owned by someone else", o.Owner, a.atomOfAddr([]byte(p)))
				m.fail("C18", "the earned-fee scan of a withdrawal by %d (provider %d) touched the record of provider %d, which is not its subject", o.Owner, o.Prov, a.atomOfAddr([]byte(p)))
			} else if now.Cmp(e) != 0 && o.Prov != 0 && p != string(a.addr(o.Prov)) && !m.k5 && !(m.rel != nil && m.rel.k3any) {
				m.fail("C13", "withdraw by %d for provider %d changed the earnings of provider %d", o.Owner, o.Prov, a.atomOfAddr([]byte(p)))
				m.fail("C18", "the earned-fee scan of provider %d touched the record of provider %d, which is not its subject", o.Prov, a.atomOfAddr([]byte(p)))
			}
			// an owner-wide withdrawal visits exactly the providers of the owner: none of them keeps earnings
			if o.Prov == 0 && pre.snap.Owners[p] == string(a.addr(o.Owner)) && now.Sign() != 0 && !m.k5 && !(m.rel != nil && m.rel.k3any) {
				m.fail("C13", "owner-wide withdrawal by %d left provider %d with earnings %s", o.Owner, a.atomOfAddr([]byte(p)), now)
				m.fail("C18", "the owner-to-providers scan of owner %d did not return its provider %d", o.Owner, a.atomOfAddr([]byte(p)))
			}
		}
		if feeColl.Cmp(pre.fee) != 0 {
			m.fail("C02", "fee collector changed in a withdraw")
		}
		if paid.Sign() > 0 {
			m.evals["C02"]++
		}
		return
	}

	// escrow and fee collector: every step
	if d := new(big.Int).Sub(esc, pre.esc); d.Cmp(expEsc) != 0 {
		m.fail("C02", "%sescrow moved by %s in a %s step, the requests issued/answered/expired explain %s", stepTag, d, o.Kind, expEsc)
	}
	if d := new(big.Int).Sub(feeColl, pre.fee); d.Cmp(expFee) != 0 {
		m.fail("C02", "%sfee collector moved by %s, the tax of the step is %s", stepTag, d, expFee)
	}
	// earnings: only the answered provider's record moves, by fee - tax
	provs := map[string]bool{}
	for p := range pre.snap.Earned {
		provs[p] = true
	}
	for p := range s.Earned {
		provs[p] = true
	}
	for p := range expEarn {
		provs[p] = true
	}
	for _, p := range sortedStrs(provs) {
		x, y, e := pre.snap.Earned[p], s.Earned[p], expEarn[p]
		if x == nil {
			x = big0()
		}
		if y == nil {
			y = big0()
		}
		if e == nil {
			e = big0()
		}
		if d := new(big.Int).Sub(y, x); d.Cmp(e) != 0 {
			m.fail("C02", "%searnings of provider %d moved by %s, settlements of the step give %s", stepTag, a.atomOfAddr([]byte(p)), d, e)
		}
	}
	// ordinary accounts: in the steps that settle or issue, every delta is explained
	if moneyStep {
		ats := map[int64]bool{}
		for at := range bal {
			ats[at] = true
		}
		for at := range pre.bal {
			ats[at] = true
		}
		for at := range expBal {
			ats[at] = true
		}
		var l []int64
		for at := range ats {
			l = append(l, at)
		}
		sort.Slice(l, func(i, j int) bool { return l[i] < l[j] })
		for _, at := range l {
			d := new(big.Int).Sub(getBal(bal, at), getBal(pre.bal, at))
			if d.Cmp(getBal(expBal, at)) != 0 {
				m.fail("C02", "%sbalance of %d moved by %s in a %s step, its debits/refunds give %s", stepTag, at, d, o.Kind, getBal(expBal, at))
			}
		}
	}
	m.evals["C02"] += nontrivial
}

func indexOf(l []string, x string) (int, bool) {
	for i, y := range l {
		if y == x {
			return i, true
		}
	}
	return -1, false
}

// ---------------------------------------------------------------------------
// C04
// ---------------------------------------------------------------------------

func (m *Monitors) c04(o *Op, res string, f *stepFacts, pre *Pre, s *Snap, dep, sup *big.Int) {
	st := m.rel
	a := m.r.a
	// expected failures of the step
	want := map[string]bool{}
	if f.answered != "" && f.malf {
		want[f.answered] = true
	}
	if f.isEB {
		for _, rid := range pre.snap.ActID {
			q, ok := pre.snap.Reqs[rid]
			if !ok || q.ExpirationHeight != f.H {
				continue
			}
			rc, ok := pre.snap.Ctxs[ridCtx(rid)]
			if !ok || rc.SuperMode {
				continue
			}
			want[rid] = true
		}
	}
	got := map[string]int{}
	for _, e := range m.r.lastSlash {
		got[string(hexUpperToBytes(e.Rid))]++
	}
	for rid := range want {
		if got[rid] != 1 {
			m.fail("C04", "%s%d slash events for the failed request %s", m.tagCtx(ridCtx(rid)), got[rid], ridLine([]byte(rid)))
		}
	}
	for rid, n := range got {
		if !want[rid] {
			why := "which did not fail in this step"
			if len(rid) == 58 {
				if rc, ok := pre.snap.Ctxs[ridCtx(rid)]; ok && rc.SuperMode && f.isEB {
					why = "a super-mode time-out"
				}
				m.fail("C04", "%s%d slash events for request %s, %s", m.tagCtx(ridCtx(rid)), n, ridLine([]byte(rid)), why)
			} else {
				m.fail("C04", "slash event with unreadable request id %x", rid)
			}
		}
	}
	// effect: sequential floor(deposit * fraction) per binding, in event order
	cur := map[bindKey]*big.Int{}
	disabled := map[bindKey]bool{}
	total := big0()
	for _, e := range m.r.lastSlash {
		rid := string(hexUpperToBytes(e.Rid))
		if len(rid) != 58 {
			continue
		}
		t := st.reqs[rid]
		if t == nil {
			continue
		}
		k := bindKey{t.svc, t.provider}
		b, ok := pre.snap.Binds[k]
		if !ok {
			m.fail("C04", "%sslash of request %s whose binding does not exist", m.tagCtx(ridCtx(rid)), ridLine([]byte(rid)))
			continue
		}
		if cur[k] == nil {
			cur[k] = new(big.Int).Set(amountOf(b.Deposit))
		}
		amt := floorMul(cur[k], m.r.cfg.Slash)
		if amt.String() != e.Amt {
			m.fail("C04", "%sslash of request %s took %s, floor(%s * %s) = %s", m.tagCtx(ridCtx(rid)), ridLine([]byte(rid)), e.Amt, cur[k], m.r.cfg.Slash, amt)
		}
		cur[k].Sub(cur[k], amt)
		total.Add(total, amt)
		if price, ok := priceOfText(b.Pricing); ok && cur[k].Cmp(m.minDeposit(price)) < 0 {
			disabled[k] = true
		}
		m.evals["C04"]++
	}
	// deposits, availability and disabled time of every binding
	bindingStep := res == "ok" && (o.Kind == "bind" || o.Kind == "update" || o.Kind == "enable" || o.Kind == "disable" || o.Kind == "refunddep")
	if !bindingStep {
		for k, b := range pre.snap.Binds {
			nb, ok := s.Binds[k]
			if !ok {
				continue // C15
			}
			wantDep := amountOf(b.Deposit)
			if cur[k] != nil {
				wantDep = cur[k]
			}
			name := fmt.Sprintf("%s/%d", k.Svc, a.atomOfAddr([]byte(k.Prov)))
			if amountOf(nb.Deposit).Cmp(wantDep) != 0 {
				m.fail("C04", "deposit of %s went from %s to %s, the slashes of the step leave %s", name, amountOf(b.Deposit), amountOf(nb.Deposit), wantDep)
			}
			wantAvail := b.Available && !disabled[k]
			if nb.Available != wantAvail {
				m.fail("C04", "binding %s available=%v after the step, expected %v (deposit %s)", name, nb.Available, wantAvail, wantDep)
			}
			if b.Available && !wantAvail {
				if nb.DisabledTime.UnixNano() != pre.now || nb.DisabledTime.IsZero() {
					m.fail("C04", "binding %s disabled by a slash with disabled time %v, block time %v", name, nb.DisabledTime, f.now)
				}
			} else if !nb.DisabledTime.Equal(b.DisabledTime) {
				m.fail("C04", "disabled time of %s changed without a disabling slash", name)
			}
		}
		if d := new(big.Int).Sub(pre.dep, dep); d.Cmp(total) != 0 {
			m.fail("C04", "deposit account fell by %s, slashed %s", d, total)
		}
	}
	if d := new(big.Int).Sub(pre.sup, sup); d.Cmp(total) != 0 {
		m.fail("C04", "total supply fell by %s, slashed %s", d, total)
	}
}

func hexUpperToBytes(s string) []byte {
	var b []byte
	if _, err := fmt.Sscanf(strings.ToLower(s), "%x", &b); err != nil {
		return []byte("?" + s)
	}
	return b
}

// ---------------------------------------------------------------------------
// C05
// ---------------------------------------------------------------------------

// rightful returns whether the signer is the rightful party of a message op in
// the pre-state, and whether the question is meaningful (target exists).
func (m *Monitors) rightful(o *Op, pre *Pre) (ok bool, meaningful bool, what string) {
	a := m.r.a
	ps := pre.snap
	signer := ""
	if o.isModOp() {
		// no signature: the authority is the owning module's, which names the consumer it acts for
		signer = string(a.addr(o.Who))
	} else {
		signer = string(a.addr(o.signer()))
	}
	svc := a.svcName[o.Svc]
	if o.NameOverride != "" {
		svc = o.NameOverride
	}
	switch o.Kind {
	case "update", "disable", "enable", "refunddep":
		b, found := ps.Binds[bindKey{svc, string(a.addr(o.Prov))}]
		if !found {
			return false, false, ""
		}
		return string(b.Owner) == signer, true, "binding owner"
	case "bind":
		if svc == modSvc {
			return false, true, "a service reserved by a module"
		}
		own, found := ps.Owners[string(a.addr(o.Prov))]
		if !found {
			// the owner this monitor has SEEN for the provider earlier in the history stays its owner for life,
			// whatever became of the stored record
			if seen, ok := m.provOwner[string(a.addr(o.Prov))]; ok {
				return seen == signer, true, "provider's owner (as first registered)"
			}
			return true, false, ""
		}
		return own == signer, true, "provider's owner"
	case "withdraw":
		if o.Prov == 0 {
			return true, false, ""
		}
		own, found := ps.Owners[string(a.addr(o.Prov))]
		if seen, ok := m.provOwner[string(a.addr(o.Prov))]; ok && (!found || own != seen) {
			return seen == signer, true, "provider's owner (as first registered)"
		}
		if !found {
			// a provider nobody owns has no rightful withdrawer
			return false, true, "provider's owner (provider unowned)"
		}
		return own == signer, true, "provider's owner"
	case "pause", "start", "kill", "updctx":
		rc, found := ps.Ctxs[string(ctxID(o.Tx, o.Idx))]
		if !found {
			return false, false, ""
		}
		if rc.ModuleName != "" {
			return false, true, "nobody (module-created context)"
		}
		return string(rc.Consumer) == signer, true, "context consumer"
	case "modupd", "modpause", "modstart", "modkill":
		// keeper API, CheckAuthority(..., false): the named consumer must be the context's
		rc, found := ps.Ctxs[string(ctxID(o.Tx, o.Idx))]
		if !found {
			return false, false, ""
		}
		return string(rc.Consumer) == signer, true, "context consumer named by the owning module"
	case "respond":
		q, found := ps.Reqs[string(reqID(o.Tx, o.Idx, o.Batch, o.RHeight, o.RIndex))]
		if !found {
			return false, false, ""
		}
		return string(q.Provider) == signer, true, "request provider"
	}
	return true, false, ""
}

func (m *Monitors) c05(o *Op, res string, f *stepFacts, pre *Pre, s *Snap, bal map[int64]*big.Int) {
	a := m.r.a
	switch o.Kind {
	case "endblock":
		payers := map[int64]bool{}
		for _, rid := range f.issued {
			if t := m.rel.reqs[rid]; t != nil && t.fee.Sign() > 0 {
				payers[a.atomOfAddr([]byte(t.consumer))] = true
			}
		}
		fell := 0
		for _, at := range sortedInt64(pre.bal) {
			if getBal(bal, at).Cmp(pre.bal[at]) < 0 {
				fell++
				if !payers[at] {
					m.fail("C05", "EndBlock lowered the balance of %d (%s -> %s), which started no paid batch in this block", at, pre.bal[at], getBal(bal, at))
				}
			}
		}
		if fell > 0 {
			m.evals["C05"]++
		}
		return
	case "query", "export":
		return
	}
	if o.Kind != "transfer" && o.Kind != "modcall" {
		ok, meaningful, what := m.rightful(o, pre)
		if meaningful && !ok {
			m.evals["C05"]++
			if res == "ok" {
				by := o.signer()
				if o.isModOp() {
					by = o.Who
				}
				m.fail("C05", "%s signed by %d succeeded; the rightful party is the %s", o.Kind, by, what)
			}
		}
	}
	if res != "ok" {
		// nothing was written: every balance is as before
		for _, at := range sortedInt64(pre.bal) {
			if getBal(bal, at).Cmp(pre.bal[at]) != 0 {
				m.fail("C05", "failed %s changed the balance of %d", o.Kind, at)
			}
		}
		return
	}
	signer := o.signer()
	if o.Kind == "modcall" || o.isModOp() {
		signer = -999 // keeper API: debits nobody
	}
	lowered := false
	for _, at := range sortedInt64(pre.bal) {
		if getBal(bal, at).Cmp(pre.bal[at]) < 0 {
			lowered = true
			if at != signer {
				tag := ""
				if f.k3step {
					tag = "K3: "
				}
				m.fail("C05", "%s%s signed by %d lowered the balance of %d (%s -> %s)", tag, o.Kind, o.signer(), at, pre.bal[at], getBal(bal, at))
			}
		}
	}
	if lowered {
		m.evals["C05"]++
	}
}

// ---------------------------------------------------------------------------
// C06 (and the plan shared with C09)
// ---------------------------------------------------------------------------

// planBatches recomputes, for every context with a new-batch entry due in this
// EndBlock, what the handler has to decide. Inputs: the contexts as they stood
// before the EndBlock, the binding records AFTER it (bindings change only by
// the slashes of the expiry phase, which precedes every new batch), the
// published pricing text, the volumes and block time (constant inside an
// EndBlock), the balances after the expiry refunds, debited in context-id order.
func (m *Monitors) planBatches(f *stepFacts, pre *Pre, s *Snap, refunds map[int64]*big.Int) []*batchPlan {
	a := m.r.a
	ps := pre.snap
	due := map[string]types.RequestContext{}
	for _, e := range ps.NewQ {
		if e.H == f.H {
			if rc, ok := ps.Ctxs[e.ID]; ok {
				due[e.ID] = rc
			}
		}
	}
	// contexts whose batch expires now and whose next batch is due at once (frequency = timeout)
	for _, e := range ps.ExpQ {
		if e.H != f.H {
			continue
		}
		rc, ok := ps.Ctxs[e.ID]
		if !ok {
			continue
		}
		if rc.State == types.RUNNING && rc.Repeated && (rc.RepeatedTotal < 0 || int64(rc.BatchCounter) < rc.RepeatedTotal) &&
			f.H-rc.Timeout+int64(rc.RepeatedFrequency) == f.H {
			rc.BatchState = types.BATCHCOMPLETED
			due[e.ID] = rc
		}
	}
	ids := make([]string, 0, len(due))
	for id := range due {
		ids = append(ids, id)
	}
	sort.Strings(ids)
	sim := map[int64]*big.Int{}
	for at, b := range pre.bal {
		sim[at] = new(big.Int).Set(b)
	}
	for at, x := range refunds {
		addTo(sim, at, x)
	}
	var plans []*batchPlan
	for _, id := range ids {
		rc := due[id]
		p := &batchPlan{id: id, rc: rc, total: big0()}
		plans = append(plans, p)
		switch {
		case rc.State != types.RUNNING:
			p.kind = "idle"
			continue
		case rc.Repeated && rc.RepeatedTotal > 0 && int64(rc.BatchCounter) >= rc.RepeatedTotal:
			p.kind = "complete"
			continue
		}
		capAmt := amountOf(rc.ServiceFeeCap)
		for _, prov := range rc.Providers {
			b, ok := s.Binds[bindKey{rc.ServiceName, string(prov)}]
			if !ok || !b.Available || b.QoS > uint64(rc.Timeout) {
				continue
			}
			price, _, ok := feeFromText(b.Pricing, f.now, ps.Vols[[3]string{string(rc.Consumer), rc.ServiceName, string(prov)}])
			if !ok {
				p.reason = "pricing text unreadable"
				continue
			}
			if price.BigInt().Cmp(capAmt) > 0 {
				continue
			}
			p.provs = append(p.provs, string(prov))
			p.fees = append(p.fees, price.BigInt())
			p.total.Add(p.total, price.BigInt())
		}
		cons := a.atomOfAddr(rc.Consumer)
		switch {
		case len(p.provs) == 0 || len(p.provs) < int(rc.ResponseThreshold):
			p.kind = "skip"
		case !rc.SuperMode && getBal(sim, cons).Cmp(p.total) < 0:
			p.kind = "pause"
		default:
			p.kind = "issue"
			if !rc.SuperMode {
				addTo(sim, cons, new(big.Int).Neg(p.total))
			}
		}
	}
	return plans
}

func (m *Monitors) c06(f *stepFacts, pre *Pre, s *Snap, plans []*batchPlan) {
	a := m.r.a
	newOf := map[string][]string{}
	for _, rid := range f.issued {
		newOf[ridCtx(rid)] = append(newOf[ridCtx(rid)], rid)
	}
	planned := map[string]bool{}
	for _, p := range plans {
		planned[p.id] = true
		tag := m.tagCtx(p.id)
		name := ctxLine([]byte(p.id))
		got := newOf[p.id]
		post, exists := s.Ctxs[p.id]
		switch p.kind {
		case "idle", "complete":
			if len(got) != 0 {
				m.fail("C06", "%scontext %s (%s) got %d requests", tag, name, p.kind, len(got))
			}
			continue
		}
		m.evals["C06"]++
		if !exists {
			m.fail("C06", "%scontext %s disappeared in its new-batch EndBlock", tag, name)
			continue
		}
		elig := make([]int64, len(p.provs))
		for i, pr := range p.provs {
			elig[i] = a.atomOfAddr([]byte(pr))
		}
		switch p.kind {
		case "skip":
			if len(got) != 0 {
				m.fail("C06", "%scontext %s: eligible set %v is empty or below threshold %d, yet %d requests were issued", tag, name, elig, p.rc.ResponseThreshold, len(got))
			}
			if post.BatchCounter != p.rc.BatchCounter+1 || post.BatchRequestCount != 0 || post.State != types.RUNNING {
				m.fail("C06", "%scontext %s: batch should be skipped (counter %d -> %d, 0 requests), found counter %d, %d requests, state %v", tag, name,
					p.rc.BatchCounter, p.rc.BatchCounter+1, post.BatchCounter, post.BatchRequestCount, post.State)
			}
		case "pause":
			if len(got) != 0 {
				m.fail("C06", "%scontext %s: consumer cannot pay %s, yet %d requests were issued", tag, name, p.total, len(got))
			}
			if post.State != types.PAUSED || post.BatchCounter != p.rc.BatchCounter {
				m.fail("C06", "%scontext %s: consumer cannot pay %s: expected paused with counter %d, found state %v counter %d", tag, name, p.total,
					p.rc.BatchCounter, post.State, post.BatchCounter)
			}
		case "issue":
			if post.State != types.RUNNING || post.BatchCounter != p.rc.BatchCounter+1 {
				m.fail("C06", "%scontext %s: a batch to %v (total %s) was due, found state %v counter %d -> %d", tag, name, elig, p.total, post.State, p.rc.BatchCounter, post.BatchCounter)
			}
			if len(got) != len(p.provs) {
				var have []int64
				for _, rid := range got {
					have = append(have, a.atomOfAddr(s.Reqs[rid].Provider))
				}
				m.fail("C06", "%scontext %s: eligible providers %v, requests went to %v", tag, name, elig, have)
				continue
			}
			for i, pr := range p.provs {
				want := string(types.GenerateRequestID([]byte(p.id), p.rc.BatchCounter+1, f.H, int16(i)))
				q, ok := s.Reqs[want]
				if !ok {
					m.fail("C06", "%scontext %s: no request with id (%s) for eligible provider #%d", tag, name, ridLine([]byte(want)), i)
					continue
				}
				if !bytes.Equal(q.Provider, []byte(pr)) {
					m.fail("C06", "%srequest %s goes to %d, eligible provider #%d is %d", tag, ridLine([]byte(want)), a.atomOfAddr(q.Provider), i, elig[i])
				}
				wantFee := p.fees[i]
				if p.rc.SuperMode {
					wantFee = big0()
				}
				if amountOf(q.ServiceFee).Cmp(wantFee) != 0 {
					m.fail("C06", "%srequest %s carries fee %s, price of the provider is %s", tag, ridLine([]byte(want)), amountOf(q.ServiceFee), wantFee)
				}
				if q.RequestHeight != f.H || q.ExpirationHeight != f.H+p.rc.Timeout || q.RequestContextBatchCounter != p.rc.BatchCounter+1 ||
					!bytes.Equal(q.RequestContextId, []byte(p.id)) {
					m.fail("C06", "%srequest %s has height/expiry/batch %d/%d/%d, expected %d/%d/%d", tag, ridLine([]byte(want)), q.RequestHeight, q.ExpirationHeight,
						q.RequestContextBatchCounter, f.H, f.H+p.rc.Timeout, p.rc.BatchCounter+1)
				}
			}
		}
	}
	// requests of contexts that had no new-batch entry due
	for id, got := range newOf {
		if !planned[id] && f.isEB {
			m.fail("C06", "%scontext %s had no batch due in this block and got %d requests", m.tagCtx(id), ctxLine([]byte(id)), len(got))
		}
	}
	// fee <= cap in force at issue
	for _, rid := range f.issued {
		rc, ok := s.Ctxs[ridCtx(rid)]
		if !ok {
			continue
		}
		if amountOf(s.Reqs[rid].ServiceFee).Cmp(amountOf(rc.ServiceFeeCap)) > 0 {
			m.fail("C06", "%srequest %s carries fee %s above the cap %s", m.tagCtx(ridCtx(rid)), ridLine([]byte(rid)), amountOf(s.Reqs[rid].ServiceFee), amountOf(rc.ServiceFeeCap))
		}
	}
}

// ---------------------------------------------------------------------------
// C07
// ---------------------------------------------------------------------------

func (m *Monitors) c07(o *Op, res string, f *stepFacts, pre *Pre, s *Snap, bal map[int64]*big.Int, refunds map[int64]*big.Int) {
	a := m.r.a
	debit := map[int64]*big.Int{}
	tagOf := map[int64]string{}
	for _, rid := range f.issued {
		t := m.rel.reqs[rid]
		if t == nil {
			continue
		}
		tag := m.tagCtx(ridCtx(rid))
		q := s.Reqs[rid]
		cons := a.atomOfAddr([]byte(t.consumer))
		if tag != "" {
			tagOf[cons] = tag
		}
		if debit[cons] == nil {
			debit[cons] = big0()
		}
		m.evals["C07"]++
		if t.super {
			if amountOf(q.ServiceFee).Sign() != 0 {
				m.fail("C07", "%ssuper-mode request %s carries fee %s", tag, ridLine([]byte(rid)), amountOf(q.ServiceFee))
			}
			continue
		}
		b, ok := s.Binds[bindKey{t.svc, t.provider}]
		if !ok {
			m.fail("C07", "%srequest %s to a provider without binding", tag, ridLine([]byte(rid)))
			continue
		}
		vol := pre.snap.Vols[[3]string{t.consumer, t.svc, t.provider}]
		want, base, ok := feeFromText(b.Pricing, f.now, vol)
		if !ok {
			m.fail("C07", "%spublished pricing of %s/%d unreadable", tag, t.svc, a.atomOfAddr([]byte(t.provider)))
			continue
		}
		debit[cons].Add(debit[cons], want.BigInt())
		if amountOf(q.ServiceFee).Cmp(want.BigInt()) != 0 {
			m.fail("C07", "%srequest %s carries fee %s; published pricing (base %s) at time %d, volume %d gives %s", tag, ridLine([]byte(rid)),
				amountOf(q.ServiceFee), base, pre.now, vol, want)
		}
		ceil := base.BigInt()
		if ceil.Sign() <= 0 {
			ceil = big.NewInt(1)
		}
		if amountOf(q.ServiceFee).Cmp(ceil) > 0 {
			m.fail("C07", "%srequest %s carries fee %s above max(base price %s, 1)", tag, ridLine([]byte(rid)), amountOf(q.ServiceFee), base)
		}
	}
	// the consumer's debit is the sum of the recomputed fees
	if f.isEB {
		for at, want := range debit {
			got := new(big.Int).Sub(getBal(pre.bal, at), getBal(bal, at))
			got.Add(got, getBal(refunds, at))
			if got.Cmp(want) != 0 {
				m.fail("C07", "%sconsumer %d was debited %s for this block's batches, the recomputed fees sum to %s", tagOf[at], at, got, want)
			}
		}
	}
	// volumes move by one per accepted response and in no other way
	keys := map[[3]string]bool{}
	for k := range pre.snap.Vols {
		keys[k] = true
	}
	for k := range s.Vols {
		keys[k] = true
	}
	var bump [3]string
	haveBump := false
	if f.answered != "" {
		if t := m.rel.reqs[f.answered]; t != nil {
			bump = [3]string{t.consumer, t.svc, t.provider}
			haveBump = true
			keys[bump] = true
			m.evals["C07"]++
		}
	}
	for k := range keys {
		want := pre.snap.Vols[k]
		if haveBump && k == bump {
			want++
		}
		if s.Vols[k] != want {
			tag := ""
			if f.k3step {
				tag = "K3: "
			}
			m.fail("C07", "%svolume of (%d,%s,%d) is %d after a %s step, expected %d", tag, a.atomOfAddr([]byte(k[0])), k[1], a.atomOfAddr([]byte(k[2])), s.Vols[k], o.Kind, want)
		}
	}
}

// ---------------------------------------------------------------------------
// C08
// ---------------------------------------------------------------------------

func (m *Monitors) c08respond(o *Op, res string, f *stepFacts, pre *Pre, s *Snap) {
	st := m.rel
	a := m.r.a
	if o.Kind == "respond" {
		rid := string(reqID(o.Tx, o.Idx, o.Batch, o.RHeight, o.RIndex))
		t := st.reqs[rid]
		tag := m.tagCtx(ridCtx(rid))
		// expectation from the history alone: issued, not settled, not past its expiry block, sent by its provider
		want := o.OK && t != nil && t.settled == "" && f.H <= t.exp && string(a.addr(o.Who)) == t.provider
		why := "acceptable"
		switch {
		case !o.OK:
			why = "stateless-invalid"
		case t == nil:
			why = "to a request that was never issued"
		case t.settled != "":
			why = "to a request already " + t.settled
		case f.H > t.exp:
			why = fmt.Sprintf("after the expiry block %d", t.exp)
		case string(a.addr(o.Who)) != t.provider:
			why = "not from the request's provider"
		}
		if t != nil {
			m.evals["C08"]++
		}
		if (res == "ok") != want {
			m.fail("C08", "%sresponse %s at height %d (%s) -> %s", tag, ridLine([]byte(rid)), f.H, why, res)
			if want && res == "err" && t != nil && o.OutValid {
				t.refusedInTime = f.H
			}
		}
		if res == "panic" {
			m.fail("C08", "%sresponse %s panicked", tag, ridLine([]byte(rid)))
		}
		// the store's own view must agree with the history's
		_, hasReq := pre.snap.Reqs[rid]
		_, active := indexOf(pre.snap.ActID, rid)
		if t != nil && t.settled == "" && f.H <= t.exp && !(hasReq && active) {
			m.fail("C08", "%srequest %s (expiry block %d) is not pending at height %d", tag, ridLine([]byte(rid)), t.exp, f.H)
		}
		if res == "ok" {
			if _, ok := s.Resps[rid]; !ok {
				m.fail("C08", "%saccepted response to %s not stored", tag, ridLine([]byte(rid)))
			}
		}
	}
}

// c08window: pending exactly while unsettled and height <= expiry; all records gone after the expiry block.
// Runs after C02 has recorded the settlements of the step.
func (m *Monitors) c08window(f *stepFacts, s *Snap) {
	st := m.rel
	hNow := m.r.height
	act := map[string]bool{}
	for _, rid := range s.ActID {
		act[rid] = true
	}
	ab := map[string]bool{}
	for _, e := range s.ActBind {
		ab[e.Rid] = true
	}
	for rid, t := range st.reqs {
		if t.gone {
			continue
		}
		tag := m.tagCtx(ridCtx(rid))
		_, has := s.Reqs[rid]
		if hNow <= t.exp {
			if !has {
				m.fail("C08", "%srequest %s removed at height %d, before its expiry block %d ended", tag, ridLine([]byte(rid)), hNow, t.exp)
				t.gone = true
				continue
			}
			if t.settled == "" && !(act[rid] && ab[rid]) {
				m.fail("C08", "%sunanswered request %s not pending at height %d, expiry block %d", tag, ridLine([]byte(rid)), hNow, t.exp)
			}
		} else {
			_, hasResp := s.Resps[rid]
			if f.isEB && f.H == t.exp {
				m.evals["C08"]++
			}
			if has || act[rid] || ab[rid] || hasResp {
				m.fail("C08", "%srequest %s still stored (record=%v pending=%v/%v response=%v) at height %d, after its expiry block %d", tag, ridLine([]byte(rid)), has, act[rid], ab[rid], hasResp, hNow, t.exp)
			}
			t.gone = true
			if t.settled == "" {
				t.settled = "lost"
				m.fail("C08", "%srequest %s passed its expiry block %d without being answered or expired", tag, ridLine([]byte(rid)), t.exp)
			}
		}
	}
}

// ---------------------------------------------------------------------------
// C09
// ---------------------------------------------------------------------------

func addrsEqual(x, y []sdk.AccAddress) bool {
	if len(x) != len(y) {
		return false
	}
	for i := range x {
		if !bytes.Equal(x[i], y[i]) {
			return false
		}
	}
	return true
}

func staticDiff(x, y types.RequestContext) string {
	var d []string
	if x.ServiceName != y.ServiceName {
		d = append(d, "service")
	}
	if !bytes.Equal(x.Consumer, y.Consumer) {
		d = append(d, "consumer")
	}
	if x.Input != y.Input {
		d = append(d, "input")
	}
	if x.SuperMode != y.SuperMode {
		d = append(d, "super-mode")
	}
	if x.Repeated != y.Repeated {
		d = append(d, "repeated")
	}
	if x.ModuleName != y.ModuleName {
		d = append(d, "module")
	}
	return strings.Join(d, ",")
}

func termsDiff(x, y types.RequestContext) string {
	var d []string
	if !addrsEqual(x.Providers, y.Providers) {
		d = append(d, "providers")
	}
	if !x.ServiceFeeCap.IsEqual(y.ServiceFeeCap) {
		d = append(d, "cap")
	}
	if x.Timeout != y.Timeout {
		d = append(d, "timeout")
	}
	if x.RepeatedFrequency != y.RepeatedFrequency {
		d = append(d, "frequency")
	}
	if x.RepeatedTotal != y.RepeatedTotal {
		d = append(d, "total")
	}
	if x.ResponseThreshold != y.ResponseThreshold {
		d = append(d, "threshold")
	}
	return strings.Join(d, ",")
}

func bookDiff(x, y types.RequestContext) string {
	var d []string
	if x.BatchState != y.BatchState {
		d = append(d, "batch-state")
	}
	if x.BatchRequestCount != y.BatchRequestCount {
		d = append(d, "request-count")
	}
	if x.BatchResponseCount != y.BatchResponseCount {
		d = append(d, "response-count")
	}
	if x.BatchResponseThreshold != y.BatchResponseThreshold {
		d = append(d, "batch-threshold")
	}
	return strings.Join(d, ",")
}

func (m *Monitors) c09(o *Op, res string, f *stepFacts, pre *Pre, s *Snap, plans []*batchPlan) {
	ps := pre.snap
	ids := map[string]bool{}
	for id := range ps.Ctxs {
		ids[id] = true
	}
	for id := range s.Ctxs {
		ids[id] = true
	}
	target := ""
	switch o.Kind {
	case "call", "modcall", "pause", "start", "kill", "updctx", "modupd", "modpause", "modstart", "modkill":
		target = string(ctxID(o.Tx, o.Idx))
	case "respond":
		target = string(ctxID(o.Tx, o.Idx))
	}
	planOf := map[string]*batchPlan{}
	for _, p := range plans {
		planOf[p.id] = p
	}
	expiring := map[string]bool{}
	if f.isEB {
		for _, e := range ps.ExpQ {
			if e.H == f.H {
				expiring[e.ID] = true
			}
		}
	}
	for _, id := range sortedStrs(ids) {
		x, inPre := ps.Ctxs[id]
		y, inPost := s.Ctxs[id]
		tag := m.tagCtx(id)
		name := ctxLine([]byte(id))
		switch {
		case !inPre && inPost:
			m.evals["C09"]++
			if !((o.Kind == "call" || o.Kind == "modcall") && res == "ok" && id == target) {
				m.fail("C09", "%scontext %s appeared in a %s step", tag, name, o.Kind)
				continue
			}
			if y.BatchCounter != 0 || y.State != types.RUNNING || y.BatchState != types.BATCHCOMPLETED || y.BatchRequestCount != 0 || y.BatchResponseCount != 0 {
				m.fail("C09", "%snew context %s starts with counter %d state %v batch %v %d/%d", tag, name, y.BatchCounter, y.State, y.BatchState, y.BatchResponseCount, y.BatchRequestCount)
			}
			continue
		case inPre && !inPost:
			m.evals["C09"]++
			if !f.isEB {
				m.fail("C09", "%scontext %s removed by a %s step", tag, name, o.Kind)
				continue
			}
			finished := x.State == types.COMPLETED || (x.State == types.RUNNING && (!x.Repeated || (x.RepeatedTotal >= 0 && int64(x.BatchCounter) >= x.RepeatedTotal)))
			switch {
			case expiring[id] && finished:
			case planOf[id] != nil && planOf[id].kind == "complete":
			default:
				m.fail("C09", "%scontext %s (state %v, repeated %v, batch %d of %d) removed by an EndBlock that neither expired its last batch nor found its total reached", tag, name, x.State, x.Repeated, x.BatchCounter, x.RepeatedTotal)
			}
			continue
		}
		sd, td, bd := staticDiff(x, y), termsDiff(x, y), bookDiff(x, y)
		stateCh := x.State != y.State
		ctrCh := x.BatchCounter != y.BatchCounter
		if sd == "" && td == "" && bd == "" && !stateCh && !ctrCh {
			continue
		}
		m.evals["C09"]++
		if sd != "" {
			m.fail("C09", "%sstatic fields of context %s changed: %s", tag, name, sd)
		}
		if y.BatchCounter < x.BatchCounter || y.BatchCounter > x.BatchCounter+1 {
			m.fail("C09", "%scounter of context %s went from %d to %d", tag, name, x.BatchCounter, y.BatchCounter)
		}
		if x.State == types.COMPLETED && (stateCh || td != "" || ctrCh) {
			m.fail("C09", "%scompleted context %s changed (state %v -> %v, terms [%s], counter %d -> %d) in a %s step", tag, name, x.State, y.State, td, x.BatchCounter, y.BatchCounter, o.Kind)
			continue
		}
		bad := func(what string) {
			m.fail("C09", "%scontext %s: %s step (%s) is not an allowed transition: state %v -> %v, counter %d -> %d, terms [%s], bookkeeping [%s]", tag, name, o.Kind, what,
				x.State, y.State, x.BatchCounter, y.BatchCounter, td, bd)
		}
		if res != "ok" {
			bad("failed op changed a context")
			continue
		}
		if !f.isEB && id != target {
			bad("not the target of the op")
			continue
		}
		if (o.isModOp() && x.ModuleName == "") || ((o.Kind == "pause" || o.Kind == "start" || o.Kind == "kill" || o.Kind == "updctx") && x.ModuleName != "") {
			bad("messages drive only contexts without a module, the keeper API only contexts of a module")
			continue
		}
		switch o.Kind {
		case "pause", "modpause":
			if !(x.State == types.RUNNING && x.Repeated && y.State == types.PAUSED) || td != "" || bd != "" || ctrCh {
				bad("pause moves only running+repeated to paused")
			}
		case "start", "modstart":
			if !(x.State == types.PAUSED && y.State == types.RUNNING) || td != "" || bd != "" || ctrCh {
				bad("start moves only paused to running")
			}
		case "kill", "modkill":
			if !(x.Repeated && y.State == types.COMPLETED) || td != "" || bd != "" || ctrCh {
				bad("kill moves only a repeated context to completed")
			}
		case "updctx":
			if stateCh || bd != "" || ctrCh || strings.Contains(td, "threshold") {
				bad("update changes only providers, cap, timeout, frequency, total")
			}
		case "modupd":
			// the only op that changes the response threshold; the per-batch copy stays as recorded at the batch's start
			if stateCh || bd != "" || ctrCh {
				bad("module update changes only providers, threshold, cap, timeout, frequency, total")
			}
			if x.ResponseThreshold != y.ResponseThreshold {
				want := uint32(o.Thr)
				if y.ResponseThreshold != want || want == 0 || int(want) > len(y.Providers) {
					bad(fmt.Sprintf("threshold %d -> %d, requested %d with %d providers", x.ResponseThreshold, y.ResponseThreshold, o.Thr, len(y.Providers)))
				}
			} else if o.Thr != 0 && uint32(o.Thr) != x.ResponseThreshold {
				bad(fmt.Sprintf("accepted module update requested threshold %d, it stayed %d", o.Thr, x.ResponseThreshold))
			}
		case "respond":
			okBook := y.BatchResponseCount == x.BatchResponseCount+1 && y.BatchRequestCount == x.BatchRequestCount && y.BatchResponseThreshold == x.BatchResponseThreshold
			complete := y.BatchResponseCount == y.BatchRequestCount
			okState := (complete && y.BatchState == types.BATCHCOMPLETED) || (!complete && y.BatchState == x.BatchState)
			if stateCh || td != "" || ctrCh || !okBook || !okState {
				bad("a response moves only the response count and completes the batch when all answered")
			}
		case "endblock":
			if td != "" {
				bad("EndBlock changes no terms")
			}
			if stateCh {
				p := planOf[id]
				if !(x.State == types.RUNNING && y.State == types.PAUSED && !ctrCh && p != nil && p.kind != "idle" && p.kind != "complete" && !x.SuperMode) {
					bad("only a running context with a batch due that cannot be paid becomes paused")
				} else if y.BatchState != types.BATCHCOMPLETED {
					bad("paused for funds leaves the batch completed")
				}
			}
			if ctrCh {
				if x.State != types.RUNNING || y.State != types.RUNNING {
					bad("a batch is started only while running")
				}
				if planOf[id] == nil {
					bad("no new-batch entry was due")
				}
				if y.BatchState != types.BATCHRUNNING || y.BatchResponseCount != 0 || y.BatchResponseThreshold != y.ResponseThreshold {
					bad("a started batch is running with 0 responses and the context's threshold")
				}
			} else if !stateCh {
				// only the expiry of the batch may have touched the record
				if !(expiring[id] && x.BatchState == types.BATCHRUNNING && y.BatchState == types.BATCHCOMPLETED && bd == "batch-state") {
					bad("without a batch start only an expiring batch is completed")
				}
			}
		default:
			bad("this op never changes a context")
		}
	}
}

// ---------------------------------------------------------------------------
// C10
// ---------------------------------------------------------------------------

func (m *Monitors) c10(o *Op, res string, f *stepFacts, pre *Pre, s *Snap) {
	ps := pre.snap
	for _, id := range sortedCtxIDs(s.Ctxs) {
		y := s.Ctxs[id]
		tag := m.tagCtx(id)
		name := ctxLine([]byte(id))
		t := m.ctxSeen[id]
		x, inPre := ps.Ctxs[id]
		if t == nil {
			t = &ctxTrack{createdAt: f.H, lastStart: -1, maxTotal: 0}
			m.ctxSeen[id] = t
			if inPre {
				t.createdAt = -1 // not seen being created (cannot happen in a history that starts empty)
			}
		}
		// totals in force
		if y.Repeated {
			if y.RepeatedTotal < 0 {
				t.unlimited = true
			} else if y.RepeatedTotal > t.maxTotal {
				t.maxTotal = y.RepeatedTotal
			}
		}
		advanced := inPre && y.BatchCounter > x.BatchCounter
		if !inPre && y.BatchCounter > 0 {
			m.evals["C10"]++
			m.fail("C10", "%scontext %s created with batch counter %d", tag, name, y.BatchCounter)
		}
		if advanced {
			m.evals["C10"]++
			if !f.isEB {
				m.fail("C10", "%sbatch counter of %s advanced in a %s step", tag, name, o.Kind)
			}
			if h, ok := ps.ExpH[id]; ok && h != f.H {
				m.fail("C10", "%sbatch %d of %s started at height %d while batch %d is in flight until %d", tag, y.BatchCounter, name, f.H, x.BatchCounter, h)
			}
			if t.lastStart >= 0 && t.steady && x.Repeated {
				if want := t.lastStart + int64(t.freqAtLast); f.H != want {
					m.fail("C10", "%scontext %s stayed running with timeout %d frequency %d: batch %d started at %d, batch %d at %d (expected %d)", tag, name,
						t.toutAtLast, t.freqAtLast, x.BatchCounter, t.lastStart, y.BatchCounter, f.H, want)
				}
			}
			t.lastStart = f.H
			t.freqAtLast = y.RepeatedFrequency
			t.toutAtLast = y.Timeout
			t.steady = true
		}
		if !y.Repeated && y.BatchCounter > 1 {
			m.fail("C10", "%sone-shot context %s has batch counter %d", tag, name, y.BatchCounter)
		}
		if y.Repeated && !t.unlimited && int64(y.BatchCounter) > t.maxTotal {
			m.fail("C10", "%scontext %s: counter %d > max total %d", tag, name, y.BatchCounter, t.maxTotal)
		}
		if y.State != types.RUNNING || y.RepeatedFrequency != t.freqAtLast || y.Timeout != t.toutAtLast {
			t.steady = false
		}
		// first batch: at the EndBlock of the creation block
		if f.isEB && inPre && t.createdAt == f.H && x.State == types.RUNNING {
			m.evals["C10"]++
			if !(y.BatchCounter == 1 || (y.BatchCounter == 0 && y.State == types.PAUSED)) {
				m.fail("C10", "%scontext %s was running at the end of its creation block %d and got no first batch (counter %d, state %v)", tag, name, f.H, y.BatchCounter, y.State)
			}
		}
		if f.isEB && inPre && x.BatchCounter == 0 && advanced && t.createdAt >= 0 && t.createdAt != f.H && !t.restarted {
			m.fail("C10", "%sfirst batch of %s started at %d, it was created (and never paused) in block %d", tag, name, f.H, t.createdAt)
		}
		if y.State != types.RUNNING {
			t.restarted = true
		}
	}
	// contexts removed in the EndBlock of their creation block while running: a one-shot cannot finish that fast
	if f.isEB {
		for id, x := range ps.Ctxs {
			if _, ok := s.Ctxs[id]; ok {
				continue
			}
			if t := m.ctxSeen[id]; t != nil && t.createdAt == f.H && x.State == types.RUNNING && x.BatchCounter == 0 {
				m.evals["C10"]++
				m.fail("C10", "%scontext %s removed at the end of its creation block without a first batch", m.tagCtx(id), ctxLine([]byte(id)))
			}
		}
	}
}

// c12cb: the response callback of a module context reports an error exactly when the batch delivered
// fewer non-empty outputs than the response threshold that was in force WHEN THE BATCH STARTED (the owning
// module may have changed the context's threshold since; only the next batch sees that).
func (m *Monitors) c12cb(o *Op, res string, f *stepFacts, pre *Pre, s *Snap) {
	st := m.rel
	ps := pre.snap
	if res == "ok" {
		// callbacks of this step first: within an EndBlock a batch is completed (expiry phase) before the next one starts
		for _, c := range m.r.w.cbLog {
			if c.kind != "r" {
				continue
			}
			id := string(c.ctxID)
			thr, ok := st.batchThr[id]
			if !ok {
				continue
			}
			m.evals["C12.cb"]++
			if want := len(c.outs) < int(thr); c.err != want {
				m.fail("C12", "%sresponse callback of context %s: %d outputs, threshold in force when the batch started %d: error flag is %v, expected %v",
					m.tagCtx(id), ctxLine(c.ctxID), len(c.outs), thr, c.err, want)
			}
		}
	}
	// the response callback of a module context is invoked exactly once per batch, in the step that completes
	// the batch (its last response, or the EndBlock of its expiry), whatever the state of the context then
	if res == "ok" {
		n := map[string]int{}
		for _, c := range m.r.w.cbLog {
			if c.kind == "r" {
				n[string(c.ctxID)]++
			}
		}
		for id, x := range ps.Ctxs {
			if x.ModuleName == "" || x.BatchCounter == 0 {
				continue
			}
			y, inPost := s.Ctxs[id]
			completedNow := x.BatchState == types.BATCHRUNNING &&
				(!inPost || y.BatchCounter != x.BatchCounter || y.BatchState == types.BATCHCOMPLETED)
			want := 0
			if completedNow {
				want = 1
			}
			m.evals["C12.once"]++
			if n[id] != want {
				m.fail("C12", "%sresponse callback of module context %s invoked %d times in a %s step at height %d, expected %d (batch %d %s)",
					m.tagCtx(id), ctxLine([]byte(id)), n[id], o.Kind, f.H, want, x.BatchCounter,
					map[bool]string{true: "is completed in this step", false: "is not completed in this step"}[completedNow])
			}
		}
	}
	for id, y := range s.Ctxs {
		x, inPre := ps.Ctxs[id]
		switch {
		case !inPre:
			st.batchThr[id] = y.ResponseThreshold
		case y.BatchCounter == x.BatchCounter && y.BatchCounter > 0 && x.BatchState == types.BATCHRUNNING && y.BatchState == types.BATCHCOMPLETED:
			// a batch is completed exactly when its last response arrives or when its expiry block ends
			m.evals["C12.done"]++
			lastResp := y.BatchRequestCount > 0 && y.BatchResponseCount == y.BatchRequestCount && y.BatchResponseCount == x.BatchResponseCount+1
			atExpiry := false
			if h, ok := ps.ExpH[id]; ok && f.isEB && h == f.H {
				atExpiry = true
			}
			if t := m.ctxSeen[id]; t != nil && t.lastStart >= 0 && f.isEB && f.H != t.lastStart+t.toutAtLast {
				atExpiry = false // the expiry that fired is not this batch's own (start + timeout in force at the start)
			}
			if !lastResp && !atExpiry {
				m.fail("C12", "%sbatch %d of context %s completed in a %s step at height %d with %d of %d answered: neither its last response nor its expiry block",
					m.tagCtx(id), y.BatchCounter, ctxLine([]byte(id)), o.Kind, f.H, y.BatchResponseCount, y.BatchRequestCount)
			}
		case y.BatchCounter != x.BatchCounter:
			st.batchThr[id] = x.ResponseThreshold // EndBlock changes no terms: the threshold the decision was taken with
			if y.BatchResponseThreshold != x.ResponseThreshold {
				m.evals["C12.cb"]++
				m.fail("C12", "%sbatch %d of context %s started with threshold %d in force, its per-batch threshold is recorded as %d",
					m.tagCtx(id), y.BatchCounter, ctxLine([]byte(id)), x.ResponseThreshold, y.BatchResponseThreshold)
			}
		}
	}
}

// c16finished: the step-relational half of C16. When the expiry block of a batch ends, a context that
// has finished (killed; one-shot; repeated with its total reached) is removed together with the batch.
func (m *Monitors) c16finished(f *stepFacts, pre *Pre, s *Snap) {
	if !f.isEB {
		return
	}
	for _, e := range pre.snap.ExpQ {
		if e.H != f.H {
			continue
		}
		x, ok := pre.snap.Ctxs[e.ID]
		if !ok {
			continue
		}
		finished := x.State == types.COMPLETED || (x.State == types.RUNNING && (!x.Repeated || (x.RepeatedTotal >= 0 && int64(x.BatchCounter) >= x.RepeatedTotal)))
		if _, still := s.Ctxs[e.ID]; finished && still {
			m.fail("C16", "%scontext %s (state %v, repeated %v, batch %d of %d) has finished and is still stored after its batch's expiry block %d", m.tagCtx(e.ID),
				ctxLine([]byte(e.ID)), x.State, x.Repeated, x.BatchCounter, x.RepeatedTotal, f.H)
		}
	}
	// a running repeated context whose positive total is reached and that has no batch in flight (it was paused
	// during its last batch and started after the expiry) has finished too: the block that follows the start ends it
	for id, x := range pre.snap.Ctxs {
		if _, inFlight := pre.snap.ExpH[id]; inFlight {
			continue
		}
		// (if its next-batch event is queued for a LATER height - scheduled before the total was lowered by an
		// update - that later block ends it; with the event due now, or with no event at all, this block must)
		if h, queued := pre.snap.NewH[id]; queued && h > f.H {
			continue
		}
		if x.State == types.RUNNING && x.Repeated && x.RepeatedTotal > 0 && int64(x.BatchCounter) >= x.RepeatedTotal {
			m.evals["C16.fin"]++
			if _, still := s.Ctxs[id]; still {
				m.fail("C16", "%scontext %s is running with its total reached (batch %d of %d) and no batch in flight, and is still stored after the EndBlock of height %d",
					m.tagCtx(id), ctxLine([]byte(id)), x.BatchCounter, x.RepeatedTotal, f.H)
			}
		}
	}
}

func sortedCtxIDs(mp map[string]types.RequestContext) []string {
	l := make([]string, 0, len(mp))
	for k := range mp {
		l = append(l, k)
	}
	sort.Strings(l)
	return l
}


// c13WdFrame: an owner's withdrawal address changes only by that owner's own accepted
// MsgSetWithdrawAddress (C13: "to the withdrawal address the owner designated").
func (m *Monitors) c13WdFrame(o *Op, res string, pre *Pre, s *Snap) {
	a := m.r.a
	check := func(owner string, before, after string, had, has bool) {
		if had == has && before == after {
			return
		}
		m.evals["C13.wd"]++
		if o.Kind == "setwd" && res == "ok" && string(a.addr(o.Owner)) == owner && has && after == string(a.addr(o.Addr)) {
			return
		}
		m.fail("C13", "withdrawal address of owner %d changed by %s (was %x, now %x) without its own set-withdraw-address message",
			a.atomOfAddr([]byte(owner)), o.Kind, before, after)
	}
	for owner, w := range pre.snap.Wd {
		nw, ok := s.Wd[owner]
		check(owner, w, nw, true, ok)
	}
	for owner, nw := range s.Wd {
		if _, ok := pre.snap.Wd[owner]; !ok {
			check(owner, "", nw, false, true)
		}
	}
}


// c03Step: deposits enter custody only from the owner who signs, by exactly the amount named, and
// leave it (other than by a slash) only as the refund of the ENTIRE deposit to the binding's owner;
// a bind never lands on an existing binding (C15: a binding exists at most once per service and provider).
func (m *Monitors) c03Step(o *Op, res string, pre *Pre, s *Snap, bal map[int64]*big.Int, dep *big.Int) {
	st := m.relInit()
	for k, nb := range s.Binds {
		pb, existed := pre.snap.Binds[k]
		switch {
		case !nb.Available && (!existed || pb.Available):
			st.disabledAt[k] = pre.now // turned unavailable in this step (message or EndBlock of the block at pre.now)
		case nb.Available:
			delete(st.disabledAt, k)
		}
	}
	if res != "ok" {
		return
	}
	a := m.r.a
	k := bindKey{a.svcName[o.Svc], string(a.addr(o.Prov))}
	delta := func(at int64) *big.Int { return new(big.Int).Sub(bal[at], pre.bal[at]) }
	depDelta := new(big.Int).Sub(dep, pre.dep)
	others := func(except int64) {
		for at := range bal {
			if at != except && delta(at).Sign() != 0 {
				m.fail("C03", "%s by %d changed the balance of account %d by %s", o.Kind, o.Owner, at, delta(at))
			}
		}
	}
	switch o.Kind {
	case "refunddep":
		m.evals["C03.step"]++
		pb, ok := pre.snap.Binds[k]
		if !ok {
			m.fail("C03", "refund of a binding that did not exist")
			return
		}
		d := amountOf(pb.Deposit)
		// a refund succeeds only for an unavailable binding with a non-zero deposit, at or after the
		// disabling time (as this monitor saw it) plus the arbitration and complaint periods
		if pb.Available || d.Sign() == 0 {
			m.fail("C03", "refund accepted for a binding that is available=%v with deposit %s", pb.Available, d)
		}
		if at, seen := m.relInit().disabledAt[k]; seen && !pb.Available {
			deadline := at + int64(m.r.cfg.Arb) + int64(m.r.cfg.Compl)
			if pre.now < deadline {
				m.fail("C03", "refund accepted at block time %d, before the disabling time %d plus the arbitration and complaint periods (%d)", pre.now, at, deadline)
			}
		}
		owner := a.atomOfAddr(pb.Owner)
		if delta(owner).Cmp(d) != 0 || new(big.Int).Neg(depDelta).Cmp(d) != 0 {
			m.fail("C03", "refund of deposit %s: owner %d received %s, the deposit account paid %s", d, owner, delta(owner), new(big.Int).Neg(depDelta))
		}
		if nb, ok := s.Binds[k]; !ok || amountOf(nb.Deposit).Sign() != 0 {
			m.fail("C03", "refund did not leave the binding with an empty deposit")
		}
		others(owner)
	case "bind", "update", "enable":
		m.evals["C03.step"]++
		amt := big.NewInt(0)
		if o.Dep.Kind == "B" {
			amt = big.NewInt(o.Dep.Amt)
			if o.Dep.Big != "" {
				amt, _ = new(big.Int).SetString(o.Dep.Big, 10)
			}
		}
		before := big.NewInt(0)
		pb, existed := pre.snap.Binds[k]
		if existed {
			before = amountOf(pb.Deposit)
		}
		if o.Kind == "bind" && existed {
			m.evals["C15"]++
			m.fail("C15", "bind accepted for an existing binding (service %d, provider %d): a binding exists at most once", o.Svc, o.Prov)
		}
		nb := s.Binds[k]
		if new(big.Int).Sub(amountOf(nb.Deposit), before).Cmp(amt) != 0 {
			m.fail("C03", "%s with deposit %s moved the recorded deposit from %s to %s", o.Kind, amt, before, amountOf(nb.Deposit))
		}
		if new(big.Int).Neg(delta(o.Owner)).Cmp(amt) != 0 || depDelta.Cmp(amt) != 0 {
			m.fail("C03", "%s with deposit %s: signer %d paid %s, the deposit account received %s", o.Kind, amt, o.Owner, new(big.Int).Neg(delta(o.Owner)), depDelta)
		}
		others(o.Owner)
	}
}
