package main

import "math/big"

// relational evaluates the step predicates (C02 C04 C05 C06 C07 C08 C09 C10).
func (m *Monitors) relational(o *Op, res string, pre *Pre, s *Snap, bal map[int64]*big.Int, esc, dep, fee, sup *big.Int) {
}
