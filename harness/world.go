package main

import (
	"fmt"
	"sort"
	"time"

	tmbytes "github.com/tendermint/tendermint/libs/bytes"
	tmproto "github.com/tendermint/tendermint/proto/tendermint/types"

	sdk "github.com/cosmos/cosmos-sdk/types"
	authtypes "github.com/cosmos/cosmos-sdk/x/auth/types"

	service "github.com/irismod/service"
	simapp "github.com/irismod/service/app"
	"github.com/irismod/service/keeper"
	"github.com/irismod/service/types"
)

const (
	denom     = "stake"
	cbModule  = "testmod"
	modSvc    = "modsvc"
	cbModAtom = 7001
	// the module registered for modSvc: the atom of its provider address and the fixed answer of its
	// request function (result code, output atom); header line `M` of a trace, XCallMod of Model/ModSvc.v
	modProvAtom = 161
	modSvcCode  = 200
	modSvcOut   = 7003
)

var modProvBytes = []byte("module-service-prov1")

// Atoms: the integers the model works with, and the real bytes they stand for.
type Atoms struct {
	addrBytes map[int64][]byte
	addrAtom  map[string]int64
	svcName   map[int64]string
	svcAtom   map[string]int64
	unknown   int64
}

func newAtoms() *Atoms {
	return &Atoms{
		addrBytes: map[int64][]byte{}, addrAtom: map[string]int64{},
		svcName: map[int64]string{}, svcAtom: map[string]int64{},
		unknown: 900000,
	}
}

func (a *Atoms) addAddr(atom int64, b []byte) {
	a.addrBytes[atom] = b
	a.addrAtom[string(b)] = atom
}

func (a *Atoms) addSvc(atom int64, name string) {
	a.svcName[atom] = name
	a.svcAtom[name] = atom
}

func (a *Atoms) addr(atom int64) sdk.AccAddress {
	if atom == 0 {
		return nil
	}
	b, ok := a.addrBytes[atom]
	if !ok {
		panic(fmt.Sprintf("unknown address atom %d", atom))
	}
	return sdk.AccAddress(b)
}

// atomOfAddr maps real bytes back; bytes never handed out get a fresh atom so
// that they can never agree with the model.
func (a *Atoms) atomOfAddr(b []byte) int64 {
	if len(b) == 0 {
		return 0
	}
	if at, ok := a.addrAtom[string(b)]; ok {
		return at
	}
	a.unknown++
	a.addAddr(a.unknown, append([]byte{}, b...))
	return a.unknown
}

func (a *Atoms) atomOfSvc(name string) int64 {
	if at, ok := a.svcAtom[name]; ok {
		return at
	}
	a.unknown++
	a.addSvc(a.unknown, name)
	return a.unknown
}

// isBlockedAtom: the atoms that stand for module accounts (model: is_blocked)
func isBlockedAtom(at int64) bool { return at >= 9001 && at <= 9004 }

// addrAtomsSorted lists the ordinary addresses; the module accounts behind the blocked atoms
// are observed under their own names (-1 escrow, -2 deposit account, -3 fee collector).
func (a *Atoms) addrAtomsSorted() []int64 {
	var out []int64
	for _, at := range a.allAddrAtomsSorted() {
		if !isBlockedAtom(at) {
			out = append(out, at)
		}
	}
	return out
}

func (a *Atoms) allAddrAtomsSorted() []int64 {
	var out []int64
	for at := range a.addrBytes {
		out = append(out, at)
	}
	sort.Slice(out, func(i, j int) bool { return out[i] < out[j] })
	return out
}

// Cfg is one legal parameter set (all amounts in the base denom, rates scaled by 10^18).
type Cfg struct {
	MaxTimeout int64
	Multiple   int64
	MinDeposit int64
	Tax        string
	Slash      string
	Arb        time.Duration
	Compl      time.Duration
}

func (c Cfg) params() types.Params {
	md := sdk.Coins{}
	if c.MinDeposit > 0 {
		md = sdk.NewCoins(sdk.NewCoin(denom, sdk.NewInt(c.MinDeposit)))
	}
	return types.NewParams(c.MaxTimeout, c.Multiple, md, sdk.MustNewDecFromStr(c.Tax),
		sdk.MustNewDecFromStr(c.Slash), c.Compl, c.Arb, 4000, denom)
}

// proposed builds the parameter set of a `setparams` op as a governance proposal would carry it, WITHOUT
// normalising it: an illegal set (tax = 1, slash > 1, multiple 0, timeout 0, a non-positive duration, a
// negative minimum deposit) must reach Params.Validate as it is.
func (c Cfg) proposed() types.Params {
	md := sdk.Coins{}
	if c.MinDeposit != 0 {
		md = sdk.Coins{sdk.Coin{Denom: denom, Amount: sdk.NewInt(c.MinDeposit)}}
	}
	return types.NewParams(c.MaxTimeout, c.Multiple, md, sdk.MustNewDecFromStr(c.Tax),
		sdk.MustNewDecFromStr(c.Slash), c.Compl, c.Arb, 4000, denom)
}

type cbRec struct {
	kind  string // "r" response callback, "s" state callback
	ctxID []byte
	outs  []string
	err   bool
}

// World owns one simapp instance; histories run on cache branches of base.
type World struct {
	app     *simapp.SimApp
	k       keeper.Keeper
	base    sdk.Context
	handler sdk.Handler
	cbLog   []cbRec
	modProv sdk.AccAddress
	imp     *World // pristine second application, target of genesis imports (C19)
}

const height0 = int64(10)

var time0 = time.Date(2026, 1, 1, 0, 0, 0, 0, time.UTC)

func newWorld() *World {
	app := simapp.Setup(false)
	w := &World{app: app, k: app.ServiceKeeper}
	w.base = app.BaseApp.NewContext(false, tmproto.Header{Height: height0, Time: time0})
	w.handler = service.NewHandler(w.k)
	must(w.k.RegisterResponseCallback(cbModule, func(ctx sdk.Context, id tmbytes.HexBytes, outs []string, err error) {
		w.cbLog = append(w.cbLog, cbRec{kind: "r", ctxID: append([]byte{}, id...), outs: append([]string{}, outs...), err: err != nil})
	}))
	must(w.k.RegisterStateCallback(cbModule, func(ctx sdk.Context, id tmbytes.HexBytes, cause string) {
		w.cbLog = append(w.cbLog, cbRec{kind: "s", ctxID: append([]byte{}, id...)})
	}))
	w.modProv = sdk.AccAddress(modProvBytes)
	must(w.k.RegisterModuleService("oracle", &types.ModuleService{
		ServiceName: modSvc,
		Provider:    w.modProv,
		ReuquestService: func(ctx sdk.Context, input string) (string, string) {
			return resultText(modSvcCode), outputText(modSvcOut, true)
		},
	}))
	return w
}

func must(err error) {
	if err != nil {
		panic(err)
	}
}

// fund mints coins and sends them to the account (total supply grows by amt).
func (w *World) fund(ctx sdk.Context, addr sdk.AccAddress, amt int64) {
	if amt <= 0 {
		return
	}
	coins := sdk.NewCoins(sdk.NewCoin(denom, sdk.NewInt(amt)))
	must(w.app.BankKeeper.MintCoins(ctx, "mint", coins))
	must(w.app.BankKeeper.SendCoinsFromModuleToAccount(ctx, "mint", addr, coins))
}

func (w *World) balance(ctx sdk.Context, addr sdk.AccAddress) sdk.Int {
	return w.app.BankKeeper.GetBalance(ctx, addr, denom).Amount
}

func (w *World) moduleAddr(name string) sdk.AccAddress {
	return authtypes.NewModuleAddress(name)
}

func (w *World) supply(ctx sdk.Context) sdk.Int {
	return w.app.BankKeeper.GetSupply(ctx).GetTotal().AmountOf(denom)
}
