package main

// The pure price stream: the checked tie between the pure functions of
// coq/Model/Pricing.v, coq/Base/Dec.v and the real code.  Every line is
//
//	PP <func> <args> = <result>
//
// with amounts as decimal integers, rates and sdk.Dec values scaled by 10^18,
// times in unix nanoseconds.  ocaml/price_driver.ml recomputes every result
// with the extracted model; tools/pure_price.sh diffs the two files.
//
// functions written (model function it is compared with):
//
//	disc_time  P t          types.GetDiscountByTime                       (disc_time)
//	disc_vol   P v          types.GetDiscountByVolume                     (disc_vol)
//	validate   P            types.ValidatePricing == nil                  (validate_pricing)
//	get_price  P t v        expression sequence of keeper.GetPrice on real sdk.Dec (get_price)
//	exch_price P t v        expression sequence of keeper.GetExchangedPrice, base denom (exchanged_price)
//	k_get_price  P t v      the real k.GetPrice on a simapp keeper        (get_price)
//	k_exch_price P t v      the real k.GetExchangedPrice                  (exchanged_price)
//	mul_trunc  n r          sdk.NewDecFromInt(n).Mul(r).TruncateInt()     (mul_trunc)
//	dmul       a b          sdk.Dec.Mul on raw 18-digit values            (dmul)
//	dtrunc     a            sdk.Dec.TruncateInt                           (dtrunc)
//	min_deposit price multiple mindep   expression sequence of keeper.getMinDeposit (min_deposit; "panic")
//	parse      raw          the real k.ParsePricing on the price text     (pr_price (parse_pricing _))
//
// P is  <price> <nT> (<start> <end> <disc>)* <nV> (<vol> <disc>)* .

import (
	"bufio"
	"fmt"
	"math/big"
	"math/rand"
	"strings"
	"time"

	sdk "github.com/cosmos/cosmos-sdk/types"

	"github.com/irismod/service/types"
)

type ppWin struct{ s, e int64 } // offsets from time0 in ns

var ppDiscs = []string{
	"0.000000000000000001", "0.100000000000000000", "0.500000000000000000", "0.999999999999999999",
}

func ppTime(off int64) time.Time { return time0.Add(time.Duration(off)) }

func ppBig(s string) *big.Int {
	b, ok := new(big.Int).SetString(s, 10)
	if !ok {
		panic("bad integer " + s)
	}
	return b
}

func ppRawDec(b *big.Int) sdk.Dec { return sdk.NewDecFromBigIntWithPrec(b, 18) }

func ppPricing(price *big.Int, wins []ppWin, wdisc []sdk.Dec, vols []uint64, vdisc []sdk.Dec) types.Pricing {
	p := types.Pricing{}
	// as ParsePricing stores it: a zero price keeps its (zero) coin
	p.Price = sdk.Coins{sdk.Coin{Denom: denom, Amount: sdk.NewIntFromBigInt(price)}}
	for i, w := range wins {
		p.PromotionsByTime = append(p.PromotionsByTime,
			types.PromotionByTime{StartTime: ppTime(w.s), EndTime: ppTime(w.e), Discount: wdisc[i]})
	}
	for i, v := range vols {
		p.PromotionsByVolume = append(p.PromotionsByVolume, types.PromotionByVolume{Volume: v, Discount: vdisc[i]})
	}
	return p
}

func ppPricingLine(p types.Pricing) string {
	var sb strings.Builder
	sb.WriteString(p.Price.AmountOf(denom).String())
	promoLine(&sb, p.PromotionsByTime, p.PromotionsByVolume)
	return sb.String()
}

type ppStream struct {
	out   *bufio.Writer
	w     *World
	ctx   sdk.Context
	cases int
	prov  sdk.AccAddress
	cons  sdk.AccAddress
}

func (s *ppStream) emit(format string, args ...interface{}) {
	fmt.Fprintf(s.out, "PP "+format+"\n", args...)
	s.cases++
}

func (s *ppStream) discTime(p types.Pricing, t time.Time) {
	s.emit("disc_time %s %d = %s", ppPricingLine(p), t.UnixNano(), types.GetDiscountByTime(p, t).BigInt().String())
}

func (s *ppStream) discVol(p types.Pricing, v uint64) {
	s.emit("disc_vol %s %d = %s", ppPricingLine(p), v, types.GetDiscountByVolume(p, v).BigInt().String())
}

func (s *ppStream) validate(p types.Pricing) {
	r := 0
	if types.ValidatePricing(p) == nil {
		r = 1
	}
	s.emit("validate %s = %d", ppPricingLine(p), r)
}

// the expression sequence of keeper.GetPrice (keeper/invocation.go) on the real sdk.Dec
func exprGetPrice(p types.Pricing, t time.Time, vol uint64) sdk.Int {
	discountByTime := types.GetDiscountByTime(p, t)
	discountByVolume := types.GetDiscountByVolume(p, vol)
	basePrice := p.Price.AmountOf(denom)
	price := sdk.NewDecFromInt(basePrice).Mul(discountByTime).Mul(discountByVolume)
	if price.LT(sdk.OneDec()) {
		price = sdk.OneDec()
	}
	return price.TruncateInt()
}

// the expression sequence of keeper.GetExchangedPrice (keeper/oracle_price.go), raw denom = base denom
func exprExchangedPrice(p types.Pricing, t time.Time, vol uint64) sdk.Int {
	discountByTime := types.GetDiscountByTime(p, t)
	discountByVolume := types.GetDiscountByVolume(p, vol)
	rawDenom := p.Price.GetDenomByIndex(0)
	rawPrice := p.Price.AmountOf(rawDenom)
	price := sdk.NewDecFromInt(rawPrice).Mul(discountByTime).Mul(discountByVolume)
	realPrice := price
	if realPrice.LT(sdk.OneDec()) {
		realPrice = sdk.OneDec()
	}
	return realPrice.TruncateInt()
}

// price writes the four price lines of one (pricing, time, volume): the two
// expression sequences and the two real keeper methods.
func (s *ppStream) price(p types.Pricing, t time.Time, vol uint64) {
	pl := ppPricingLine(p)
	s.emit("get_price %s %d %d = %s", pl, t.UnixNano(), vol, exprGetPrice(p, t, vol).String())
	s.emit("exch_price %s %d %d = %s", pl, t.UnixNano(), vol, exprExchangedPrice(p, t, vol).String())

	ctx, _ := s.ctx.CacheContext()
	ctx = ctx.WithBlockTime(t)
	const svc = "ppsvc"
	s.w.k.SetPricing(ctx, svc, s.prov, p)
	s.w.k.SetRequestVolume(ctx, s.cons, svc, s.prov, vol)
	binding := types.ServiceBinding{ServiceName: svc, Provider: s.prov}
	fee := s.w.k.GetPrice(ctx, s.cons, binding)
	s.emit("k_get_price %s %d %d = %s", pl, t.UnixNano(), vol, fee.AmountOf(denom).String())
	charged, _, err := s.w.k.GetExchangedPrice(ctx, s.cons, binding)
	res := "error"
	if err == nil {
		res = charged.AmountOf(denom).String()
	}
	s.emit("k_exch_price %s %d %d = %s", pl, t.UnixNano(), vol, res)
}

func (s *ppStream) mulTrunc(n *big.Int, rate sdk.Dec) {
	r := sdk.NewDecFromInt(sdk.NewIntFromBigInt(n)).Mul(rate).TruncateInt()
	s.emit("mul_trunc %s %s = %s", n.String(), rate.BigInt().String(), r.String())
}

func (s *ppStream) dmul(a, b *big.Int) {
	r := ppRawDec(a).Mul(ppRawDec(b))
	s.emit("dmul %s %s = %s", a.String(), b.String(), r.BigInt().String())
}

func (s *ppStream) dtrunc(a *big.Int) {
	s.emit("dtrunc %s = %s", a.String(), ppRawDec(a).TruncateInt().String())
}

// the expression sequence of keeper.getMinDeposit (unexported) on the real sdk.Int / sdk.Coins
func exprMinDeposit(price sdk.Int, multiple int64, minDepositParam sdk.Coins) (res string) {
	defer func() {
		if r := recover(); r != nil {
			res = "panic"
		}
	}()
	minDepositMultiple := sdk.NewInt(multiple)
	minDeposit := sdk.NewCoins(sdk.NewCoin(denom, price.Mul(minDepositMultiple)))
	if minDeposit.IsAllLT(minDepositParam) {
		minDeposit = minDepositParam
	}
	return minDeposit.AmountOf(denom).String()
}

func (s *ppStream) minDeposit(price *big.Int, multiple int64, minDep int64) {
	param := sdk.Coins{}
	if minDep > 0 {
		param = sdk.NewCoins(sdk.NewCoin(denom, sdk.NewInt(minDep)))
	}
	s.emit("min_deposit %s %d %d = %s", price.String(), multiple, minDep,
		exprMinDeposit(sdk.NewIntFromBigInt(price), multiple, param))
}

// parse: raw is the published price scaled by 10^18; the text is "<int>.<18 digits>stake"
func (s *ppStream) parse(raw *big.Int) {
	q, r := new(big.Int).QuoRem(raw, prec, new(big.Int))
	text := fmt.Sprintf(`{"price":"%s.%018s%s"}`, q.String(), r.String(), denom)
	p, err := s.w.k.ParsePricing(s.ctx, text)
	res := "error"
	if err == nil {
		res = p.Price.AmountOf(denom).String()
	}
	s.emit("parse %s = %s", raw.String(), res)
}

func ppDecs(n int, from int) []sdk.Dec {
	out := make([]sdk.Dec, n)
	for i := range out {
		out[i] = sdk.MustNewDecFromStr(ppDiscs[(from+i)%len(ppDiscs)])
	}
	return out
}

// runPurePrice writes the boundary enumeration and n seeded random cases.
func runPurePrice(out *bufio.Writer, seed int64, n int) (cases int) {
	w := newWorld()
	s := &ppStream{out: out, w: w,
		prov: sdk.AccAddress([]byte("pure-price-provider1")),
		cons: sdk.AccAddress([]byte("pure-price-consumer1"))}
	ctx, _ := w.base.CacheContext()
	w.k.SetParams(ctx, cfgs[0].params())
	s.ctx = ctx

	one := big.NewInt(1)
	p30 := new(big.Int).Exp(big.NewInt(10), big.NewInt(30), nil)
	prices := []*big.Int{big.NewInt(0), one, big.NewInt(2), big.NewInt(10), big.NewInt(1000), p30}

	// ---- 1. time windows: every list of <= 3 windows over the points {100,200,300}
	// (valid or not: empty, inverted, overlapping, out of order, adjacent), every
	// time at, just before and just after each point
	pts := []int64{100, 200, 300}
	var wins []ppWin
	for _, a := range pts {
		for _, b := range pts {
			wins = append(wins, ppWin{a, b})
		}
	}
	var times []int64
	for _, a := range pts {
		times = append(times, a-1, a, a+1)
	}
	var lists [][]ppWin
	lists = append(lists, nil)
	for _, a := range wins {
		lists = append(lists, []ppWin{a})
		for _, b := range wins {
			lists = append(lists, []ppWin{a, b})
			for _, c := range wins {
				lists = append(lists, []ppWin{a, b, c})
			}
		}
	}
	for i, l := range lists {
		p := ppPricing(big.NewInt(10), l, ppDecs(len(l), i), nil, nil)
		s.validate(p)
		for _, t := range times {
			s.discTime(p, ppTime(t))
		}
	}
	// valid lists of <= 3 disjoint ordered windows over six points, incl. adjacent ones
	pts6 := []int64{100, 200, 300, 400, 500, 600}
	var times6 []int64
	for _, a := range pts6 {
		times6 = append(times6, a-1, a, a+1)
	}
	var rec func(from int, cur []ppWin)
	nvalid := 0
	rec = func(from int, cur []ppWin) {
		if len(cur) > 0 {
			nvalid++
			p := ppPricing(big.NewInt(1000), cur, ppDecs(len(cur), nvalid), []uint64{2}, ppDecs(1, nvalid+1))
			s.validate(p)
			for _, t := range times6 {
				s.discTime(p, ppTime(t))
				s.price(p, ppTime(t), uint64(nvalid%4))
			}
		}
		if len(cur) == 3 {
			return
		}
		for i := from; i < len(pts6); i++ {
			for j := i + 1; j < len(pts6); j++ {
				rec(j, append(append([]ppWin{}, cur...), ppWin{pts6[i], pts6[j]}))
			}
		}
	}
	rec(0, nil)

	// ---- 2. volume tiers: every list of <= 3 tiers over the volumes {0,1,2,3,5}
	// (ascending, equal, descending), every volume 0..6
	vs := []uint64{0, 1, 2, 3, 5}
	var vlists [][]uint64
	vlists = append(vlists, nil)
	for _, a := range vs {
		vlists = append(vlists, []uint64{a})
		for _, b := range vs {
			vlists = append(vlists, []uint64{a, b})
			for _, c := range vs {
				vlists = append(vlists, []uint64{a, b, c})
			}
		}
	}
	for i, l := range vlists {
		p := ppPricing(big.NewInt(1000), nil, nil, l, ppDecs(len(l), i))
		s.validate(p)
		for v := uint64(0); v <= 6; v++ {
			s.discVol(p, v)
			if i%7 == 0 {
				s.price(p, ppTime(0), v)
			}
		}
	}
	// a huge volume and threshold
	{
		p := ppPricing(big.NewInt(1000), nil, nil, []uint64{1, 1 << 63, ^uint64(0)}, ppDecs(3, 0))
		s.validate(p)
		for _, v := range []uint64{0, 1, 1<<63 - 1, 1 << 63, ^uint64(0) - 1, ^uint64(0)} {
			s.discVol(p, v)
			s.price(p, ppTime(0), v)
		}
	}

	// ---- 3. prices x time discount x volume discount (index len = no discount applies)
	for _, price := range prices {
		for ti := 0; ti <= len(ppDiscs); ti++ {
			for vi := 0; vi <= len(ppDiscs); vi++ {
				var wl []ppWin
				var wd []sdk.Dec
				if ti < len(ppDiscs) {
					wl, wd = []ppWin{{100, 200}}, ppDecs(1, ti)
				}
				var vl []uint64
				var vd []sdk.Dec
				if vi < len(ppDiscs) {
					vl, vd = []uint64{3}, ppDecs(1, vi)
				}
				p := ppPricing(price, wl, wd, vl, vd)
				for _, t := range []int64{99, 100, 199, 200} {
					for _, v := range []uint64{2, 3} {
						s.price(p, ppTime(t), v)
					}
				}
			}
		}
	}
	// every small price with the discounts that bring it around 1
	for pr := int64(0); pr <= 25; pr++ {
		for ti := 0; ti < len(ppDiscs); ti++ {
			for vi := 0; vi < len(ppDiscs); vi++ {
				p := ppPricing(big.NewInt(pr), []ppWin{{100, 200}}, ppDecs(1, ti), []uint64{1}, ppDecs(1, vi))
				s.price(p, ppTime(150), 1)
			}
		}
	}

	// ---- 4. products landing exactly on half a unit in the last place
	// price * 0.5 * dV = k - 0.0000000000000000005 : the tie is visible in the fee
	for _, c := range []struct {
		price int64
		dv    string
	}{{31, "129032258064516129"}, {29, "206896551724137931"}, {17, "470588235294117647"},
		{97, "123711340206185567"}, {23, "782608695652173913"}, {47, "340425531914893617"},
		// double-rounding: exact 1.99999...992 -> fee 2
		{6, "999999999999999998"}} {
		dT := "0.500000000000000000"
		if c.price == 6 {
			dT = "0.333333333333333334"
		}
		p := ppPricing(big.NewInt(c.price), []ppWin{{100, 200}}, []sdk.Dec{sdk.MustNewDecFromStr(dT)},
			[]uint64{1}, []sdk.Dec{ppRawDec(ppBig(c.dv))})
		for _, t := range []int64{99, 150} {
			for _, v := range []uint64{0, 1} {
				s.price(p, ppTime(t), v)
			}
		}
		// one ulp to either side of the tie
		for _, d := range []int64{-1, 1} {
			dv := new(big.Int).Add(ppBig(c.dv), big.NewInt(d))
			p := ppPricing(big.NewInt(c.price), []ppWin{{100, 200}}, []sdk.Dec{sdk.MustNewDecFromStr(dT)},
				[]uint64{1}, []sdk.Dec{ppRawDec(dv)})
			s.price(p, ppTime(150), 1)
		}
	}
	// raw Dec.Mul ties: 0.5 * (2q+1)e-18 = q.5e-18, both signs; and neighbours
	half := ppBig("500000000000000000")
	for q := int64(0); q <= 12; q++ {
		for _, sign := range []int64{1, -1} {
			b := big.NewInt(sign * (2*q + 1))
			s.dmul(half, b)
			s.dmul(b, half)
			s.dmul(new(big.Int).Add(half, one), b)
			s.dmul(new(big.Int).Sub(half, one), b)
			s.dmul(new(big.Int).Neg(half), b)
		}
	}
	// ties at large magnitude: a*b = (2q+1)*5*10^17 with q around 10^18 and 10^29 (odd and even q)
	for _, qs := range []string{"999999999999999999", "1000000000000000000", "1000000000000000001",
		"123456789012345678901234567890", "123456789012345678901234567891"} {
		q := ppBig(qs)
		b := new(big.Int).Add(new(big.Int).Mul(q, big.NewInt(2)), one)
		s.dmul(half, b)
		s.dmul(half, new(big.Int).Neg(b))
	}
	for _, a := range []string{"0", "1", "-1", "999999999999999999", "1000000000000000000", "1000000000000000001",
		"-999999999999999999", "-1000000000000000000", "-1000000000000000001", "1999999999999999999",
		"2000000000000000000", "123456789012345678901234567890123456"} {
		s.dtrunc(ppBig(a))
	}

	// ---- 5. slash amount / tax: NewDecFromInt(n).Mul(rate).TruncateInt()
	rates := []string{"0", "0.000000000000000001", "0.001", "0.05", "0.1", "0.333333333333333333",
		"0.5", "0.999999999999999999", "1"}
	amts := []*big.Int{big.NewInt(0), one, big.NewInt(2), big.NewInt(3), big.NewInt(9), big.NewInt(10),
		big.NewInt(19), big.NewInt(20), big.NewInt(21), big.NewInt(999), big.NewInt(1000), big.NewInt(1001),
		ppBig("999999999999999999"), ppBig("1000000000000000000"), ppBig("1000000000000000001"), p30,
		new(big.Int).Lsh(one, 200)}
	for _, a := range amts {
		for _, r := range rates {
			s.mulTrunc(a, sdk.MustNewDecFromStr(r))
		}
	}

	// ---- 6. minimum deposit, around the parameter and around 2^255
	lim := new(big.Int).Lsh(one, 255)
	for _, mult := range []int64{1, 2, 1000} {
		for _, md := range []int64{0, 1, 5000} {
			for pr := int64(0); pr <= 7; pr++ {
				s.minDeposit(big.NewInt(pr), mult, md)
			}
			for _, d := range []int64{-1, 0, 1} {
				s.minDeposit(big.NewInt(md/mult+d+1), mult, md)
			}
			edge := new(big.Int).Div(new(big.Int).Sub(lim, one), big.NewInt(mult)) // largest price that fits
			for _, d := range []int64{-1, 0, 1, 2} {
				pr := new(big.Int).Add(edge, big.NewInt(d))
				if pr.BitLen() <= 255 {
					s.minDeposit(pr, mult, md)
				}
			}
			s.minDeposit(p30, mult, md)
			s.minDeposit(new(big.Int).Lsh(one, 246), mult, md)
			s.minDeposit(new(big.Int).Lsh(one, 245), mult, md)
		}
	}

	// ---- 7. price text parsing (truncation of the published decimal price)
	for _, a := range []string{"0", "1", "499999999999999999", "500000000000000000", "999999999999999999",
		"1000000000000000000", "1000000000000000001", "1500000000000000000", "2999999999999999999",
		"1000000000000000000000", "1000000000000000000000000000000000000000000000001"} {
		s.parse(ppBig(a))
	}

	// ---- 8. seeded random cases
	rng := rand.New(rand.NewSource(seed))
	rdec := func() sdk.Dec {
		switch rng.Intn(4) {
		case 0:
			return sdk.MustNewDecFromStr(ppDiscs[rng.Intn(len(ppDiscs))])
		case 1:
			return sdk.NewDecWithPrec(int64(1+rng.Intn(99)), 2)
		default:
			return ppRawDec(big.NewInt(1 + rng.Int63n(999999999999999998)))
		}
	}
	rbig := func() *big.Int {
		switch rng.Intn(5) {
		case 0:
			return big.NewInt(int64(rng.Intn(4)))
		case 1:
			return big.NewInt(int64(rng.Intn(3000)))
		case 2:
			return big.NewInt(rng.Int63())
		case 3:
			return new(big.Int).Mul(big.NewInt(rng.Int63()), big.NewInt(rng.Int63()))
		default:
			return new(big.Int).Add(p30, big.NewInt(rng.Int63n(1000)))
		}
	}
	for i := 0; i < n; i++ {
		// windows: mostly valid (sorted cut points), sometimes arbitrary
		nw := rng.Intn(4)
		var wl []ppWin
		if rng.Intn(5) == 0 {
			for j := 0; j < nw; j++ {
				wl = append(wl, ppWin{int64(rng.Intn(12)) * 10, int64(rng.Intn(12)) * 10})
			}
		} else {
			cur := int64(rng.Intn(3)) * 10
			for j := 0; j < nw; j++ {
				st := cur + int64(rng.Intn(3))*10
				en := st + int64(1+rng.Intn(3))*10
				wl = append(wl, ppWin{st, en})
				cur = en
			}
		}
		wd := make([]sdk.Dec, len(wl))
		for j := range wd {
			wd[j] = rdec()
		}
		nv := rng.Intn(4)
		var vl []uint64
		cv := uint64(0)
		for j := 0; j < nv; j++ {
			if rng.Intn(6) == 0 {
				vl = append(vl, uint64(rng.Intn(8)))
			} else {
				cv += uint64(rng.Intn(3))
				if cv == 0 {
					cv = 1
				}
				vl = append(vl, cv)
			}
		}
		vd := make([]sdk.Dec, len(vl))
		for j := range vd {
			vd[j] = rdec()
		}
		p := ppPricing(rbig(), wl, wd, vl, vd)
		t := ppTime(int64(rng.Intn(13))*10 - int64(rng.Intn(3)) + 1)
		v := uint64(rng.Intn(9))
		s.validate(p)
		s.discTime(p, t)
		s.discVol(p, v)
		s.price(p, t, v)
		s.mulTrunc(rbig(), rdec())
		a, b := rbig(), rbig()
		if rng.Intn(2) == 0 {
			a.Neg(a)
		}
		s.dmul(a, b)
		s.dtrunc(a)
		s.minDeposit(rbig(), int64(1+rng.Intn(2000)), int64(rng.Intn(10000)))
	}
	return s.cases
}
