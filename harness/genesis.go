package main

// Property C19: export / zero-height preparation / validation / JSON / import.
//
// On an `export` step the pipeline of the property's observe_at is run on CACHE
// BRANCHES of the current context, so the history itself continues unchanged:
//
//   (i)  plain export   ExportGenesis -> JSON write/read through the app codec -> (when it
//        validates) InitGenesis into a second, pristine simapp -> ExportGenesis -> identical,
//        raw records 0x01..0x08 identical, nothing else in the imported store.
//        The property demands validation only of the genesis exported AFTER the zero-height
//        preparation; ValidateGenesis refuses running / batch-in-flight contexts by design,
//        so on a plain export validation is demanded only when every context is already
//        paused with its batch completed.
//   (ii) zero-height    PrepForZeroHeightGenesis: every pending fee back to its consumer,
//        every earning to its provider, escrow empty, deposits / fee collector / supply
//        untouched, every context paused + batch completed + counts 0 and otherwise
//        unchanged; then export -> ValidateGenesis MUST pass -> JSON -> import -> re-export.
//
// Record families that are NOT exported (and are therefore absent after the import, which the
// property statement does not list either): requests 0x13, both active-request indexes
// 0x14/0x15, responses 0x16, both queues with their pointers 0x09..0x12, volumes 0x17,
// earnings 0x18/0x19. Their sizes at the export point are counted in the monitor evals
// ("C19.notexported.*") so that the evidence shows the round trip was exercised on states
// that had such records.
//
// K4: a stored address that is not 20 bytes cannot be read back by the SDK's bech32 parser.
// The monitor first decides whether the exported genesis carries such an address; only the
// failure of the JSON read-back in such a state is tagged "K4:". Everything else (validation,
// JSON writing, import of the in-memory genesis, re-export, rebuilt indexes) is demanded of
// those states as well.

import (
	"bytes"
	"fmt"
	"math/big"
	"sort"
	"strings"

	"github.com/gogo/protobuf/proto"

	sdk "github.com/cosmos/cosmos-sdk/types"

	service "github.com/irismod/service"
	"github.com/irismod/service/types"
)

type rawKV struct{ K, V []byte }

// rawRange returns the raw records of the service store of world w with lo <= key[0] < hi.
func (w *World) rawRange(ctx sdk.Context, lo, hi byte) []rawKV {
	store := ctx.KVStore(w.app.GetKey(types.StoreKey))
	it := store.Iterator([]byte{lo}, []byte{hi})
	defer it.Close()
	var out []rawKV
	for ; it.Valid(); it.Next() {
		out = append(out, rawKV{append([]byte{}, it.Key()...), append([]byte{}, it.Value()...)})
	}
	return out
}

func diffRaw(a, b []rawKV) string {
	am := map[string]string{}
	for _, kv := range a {
		am[string(kv.K)] = string(kv.V)
	}
	bm := map[string]string{}
	for _, kv := range b {
		bm[string(kv.K)] = string(kv.V)
	}
	var d []string
	for k, v := range am {
		if bv, ok := bm[k]; !ok {
			d = append(d, fmt.Sprintf("missing-after-import:%x", k))
		} else if bv != v {
			d = append(d, fmt.Sprintf("value-differs:%x", k))
		}
	}
	for k := range bm {
		if _, ok := am[k]; !ok {
			d = append(d, fmt.Sprintf("extra-after-import:%x", k))
		}
	}
	sort.Strings(d)
	if len(d) > 4 {
		d = append(d[:4], fmt.Sprintf("(+%d more)", len(d)-4))
	}
	return fmt.Sprint(d)
}

// importWorld is the second, pristine application instance genesis is imported into.
func (w *World) importWorld() *World {
	if w.imp == nil {
		w.imp = newWorld()
	}
	return w.imp
}

// shortAddress reports an address of the genesis that is not 20 bytes long (K4), if any.
func shortAddress(g *types.GenesisState) (string, bool) {
	bad := func(what string, a []byte) (string, bool) {
		return fmt.Sprintf("%s %x (%d bytes)", what, a, len(a)), true
	}
	for _, d := range g.Definitions {
		if len(d.Author) != 20 {
			return bad("definition author", d.Author)
		}
	}
	for _, b := range g.Bindings {
		if len(b.Provider) != 20 {
			return bad("binding provider", b.Provider)
		}
		if len(b.Owner) != 20 {
			return bad("binding owner", b.Owner)
		}
	}
	for _, rc := range g.RequestContexts {
		if len(rc.Consumer) != 20 {
			return bad("context consumer", rc.Consumer)
		}
		for _, p := range rc.Providers {
			if len(p) != 20 {
				return bad("context provider", p)
			}
		}
	}
	for o, a := range g.WithdrawAddresses {
		if len(a) != 20 {
			return bad("withdraw address", a)
		}
		if ob := bechBytes(o); len(ob) != 20 {
			return bad("withdraw owner", ob)
		}
	}
	return "", false
}

func protect(f func()) (panicked string) {
	defer func() {
		if e := recover(); e != nil {
			panicked = fmt.Sprint(e)
		}
	}()
	f()
	return ""
}

// roundTrip runs JSON write/read, import into a pristine application and re-export for the
// genesis g exported from ctx (a branch). label names the stage in failure details. Returns
// the snapshot of the imported store (nil if the import did not happen).
// rtResult: what the round trip established. json: written and read back identically (or the
// read-back failed for the known reason K4); same: imported, re-exported identically, records
// 0x01-0x08 identical, nothing else created; imp: snapshot of the imported store.
type rtResult struct {
	imp  *Snap
	json bool
	same bool
}

func (r *Runner) roundTrip(label string, ctx sdk.Context, g *types.GenesisState, mustValidate bool) (res rtResult) {
	m := r.mon
	w := r.w
	cdc := w.app.AppCodec()
	short, k4 := shortAddress(g)
	if k4 {
		m.evals["C19.states-with-short-address"]++
	} else {
		m.evals["C19.states-all-20-byte"]++
	}

	verr := types.ValidateGenesis(*g)
	if verr != nil {
		if mustValidate {
			m.fail("C19", "%s: exported genesis does not validate: %v", label, verr)
		}
		m.evals["C19."+label+".not-importable-by-design"]++
	}

	// JSON through the application codec
	var bz []byte
	if p := protect(func() { bz = cdc.MustMarshalJSON(g) }); p != "" {
		m.fail("C19", "%s: genesis cannot be written as JSON: %s", label, p)
		return res
	}
	var back types.GenesisState
	jsonOK := false
	var jerr error
	if p := protect(func() { jerr = cdc.UnmarshalJSON(bz, &back) }); p != "" {
		jerr = fmt.Errorf("panic: %s", p)
	}
	switch {
	case jerr != nil && k4:
		m.fail("C19", "K4: %s: exported JSON cannot be read back (%s): %v", label, short, jerr)
	case jerr != nil:
		m.fail("C19", "%s: exported JSON cannot be read back: %v", label, jerr)
	default:
		jsonOK = true
		var bz2 []byte
		if p := protect(func() { bz2 = cdc.MustMarshalJSON(&back) }); p != "" || !bytes.Equal(bz, bz2) {
			m.fail("C19", "%s: genesis differs after the JSON round trip %s", label, p)
			jsonOK = false
		}
	}
	if jsonOK {
		m.evals["C19.json-roundtrips"]++
	}
	res.json = jsonOK || (k4 && jerr != nil) // the K4 read-back failure is the known finding
	if verr != nil {
		return res
	}

	// import into a pristine application: the genesis as read back from JSON when that worked
	// (the real pipeline), the in-memory one otherwise (K4 states)
	src := g
	if jsonOK {
		src = &back
	}
	nviol := len(m.viol)
	iw := w.importWorld()
	ictx, _ := iw.base.CacheContext()
	if n := len(iw.rawRange(ictx, 0x00, 0xff)); n != 0 {
		m.fail("C19", "%s: harness error, import target not empty (%d keys)", label, n)
		return res
	}
	if p := protect(func() { service.InitGenesis(ictx, iw.k, *src) }); p != "" {
		m.fail("C19", "%s: InitGenesis of the exported genesis panics: %s", label, p)
		return res
	}
	m.evals["C19.imports"]++
	var g2 *types.GenesisState
	var bz3 []byte
	if p := protect(func() { g2 = service.ExportGenesis(ictx, iw.k); bz3 = iw.app.AppCodec().MustMarshalJSON(g2) }); p != "" {
		m.fail("C19", "%s: export after import panics: %s", label, p)
		return res
	}
	if !bytes.Equal(bz, bz3) {
		m.fail("C19", "%s: genesis exported after import differs: %s", label, genesisDiff(g, g2))
	}
	// secondary indexes and price terms rebuilt: raw records 0x01..0x08 identical
	orig := w.rawRange(ctx, 0x01, 0x09)
	imp := iw.rawRange(ictx, 0x01, 0x09)
	if d := diffRaw(orig, imp); d != "[]" {
		m.fail("C19", "%s: records 0x01-0x08 differ after import: %s", label, d)
	}
	if rest := iw.rawRange(ictx, 0x09, 0xff); len(rest) != 0 {
		m.fail("C19", "%s: import created %d records outside 0x01-0x08 (first %x)", label, len(rest), rest[0].K)
	}
	if rest := iw.rawRange(ictx, 0x00, 0x01); len(rest) != 0 {
		m.fail("C19", "%s: import created %d records below 0x01", label, len(rest))
	}
	res.imp = iw.scan(ictx)
	res.same = len(m.viol) == nviol
	return res
}

func sameProto(a, b proto.Message) bool {
	x, err1 := proto.Marshal(a)
	y, err2 := proto.Marshal(b)
	return err1 == nil && err2 == nil && bytes.Equal(x, y)
}

// genesisDiff names the first part of two genesis states that differs.
func genesisDiff(a, b *types.GenesisState) string {
	if !a.Params.Equal(b.Params) {
		return "params"
	}
	if len(a.Definitions) != len(b.Definitions) {
		return fmt.Sprintf("definitions %d vs %d", len(a.Definitions), len(b.Definitions))
	}
	if len(a.Bindings) != len(b.Bindings) {
		return fmt.Sprintf("bindings %d vs %d", len(a.Bindings), len(b.Bindings))
	}
	for i := range a.Bindings {
		if !sameProto(&a.Bindings[i], &b.Bindings[i]) {
			return fmt.Sprintf("binding %d (%s)", i, a.Bindings[i].ServiceName)
		}
	}
	if len(a.WithdrawAddresses) != len(b.WithdrawAddresses) {
		return fmt.Sprintf("withdraw addresses %d vs %d", len(a.WithdrawAddresses), len(b.WithdrawAddresses))
	}
	for k, v := range a.WithdrawAddresses {
		if !bytes.Equal(v, b.WithdrawAddresses[k]) {
			return "withdraw address of " + k
		}
	}
	if len(a.RequestContexts) != len(b.RequestContexts) {
		return fmt.Sprintf("contexts %d vs %d", len(a.RequestContexts), len(b.RequestContexts))
	}
	for k, v := range a.RequestContexts {
		o, ok := b.RequestContexts[k]
		if !ok || !sameProto(v, o) {
			return "context " + k
		}
	}
	return "definitions or encoding"
}

// genLinesOfGenesis renders an exported genesis with the atom conventions of lines().
func (r *Runner) genLinesOfGenesis(prefix string, g *types.GenesisState, add func(string, ...interface{})) {
	a := r.a
	for _, d := range g.Definitions {
		add(prefix+"def %d %d", a.atomOfSvc(d.Name), contentAtom(d.Description))
	}
	for _, b := range g.Bindings {
		add(prefix+"b %d %d %s %d %d %d %d %s", a.atomOfSvc(b.ServiceName), a.atomOfAddr(b.Provider), amountOf(b.Deposit).String(),
			b2i(b.Available), timeAtom(b.DisabledTime), a.atomOfAddr(b.Owner), b.QoS, rawPricingLine(b.Pricing))
	}
	for o, wd := range g.WithdrawAddresses {
		add(prefix+"wd %d %d", a.atomOfAddr(bechBytes(o)), a.atomOfAddr(wd))
	}
	for id, rc := range g.RequestContexts {
		add(prefix+"%s", r.ctxRecordLine(hexToBytes(id), *rc))
	}
}

// ctxRecordLine is the "c ..." line of group ctx for one context record.
func (r *Runner) ctxRecordLine(id []byte, rc types.RequestContext) string {
	a := r.a
	var provs []int64
	for _, p := range rc.Providers {
		provs = append(provs, a.atomOfAddr(p))
	}
	mod := int64(0)
	if rc.ModuleName == cbModule {
		mod = cbModAtom
	} else if rc.ModuleName != "" {
		mod = -5
	}
	return fmt.Sprintf("c %s %d %s %d %d %s %d %d %d %d %d %d %d %d %d %d %d %d %d", ctxLine(id), a.atomOfSvc(rc.ServiceName), listLine(provs),
		a.atomOfAddr(rc.Consumer), inputAtom(rc.Input), amountOf(rc.ServiceFeeCap).String(), rc.Timeout, b2i(rc.SuperMode), b2i(rc.Repeated),
		rc.RepeatedFrequency, rc.RepeatedTotal, rc.BatchCounter, rc.BatchRequestCount, rc.BatchResponseCount, rc.BatchResponseThreshold,
		b2i(rc.BatchState == types.BATCHCOMPLETED), int(rc.State), rc.ResponseThreshold, mod)
}

// exportStep evaluates monitor C19 and writes observation group `gen`.
func (r *Runner) exportStep() {
	m := r.mon
	w := r.w
	a := r.a
	s := r.snap
	m.evals["C19"]++
	m.evals["C19.notexported.requests"] += len(s.Reqs)
	m.evals["C19.notexported.active-markers"] += len(s.ActID) + len(s.ActBind)
	m.evals["C19.notexported.responses"] += len(s.Resps)
	m.evals["C19.notexported.queue-entries"] += len(s.ExpQ) + len(s.NewQ) + len(s.ExpH) + len(s.NewH)
	m.evals["C19.notexported.volumes"] += len(s.Vols)
	m.evals["C19.notexported.earnings"] += len(s.Earned) + len(s.OwnerEarned)

	var lines []string
	add := func(format string, args ...interface{}) { lines = append(lines, fmt.Sprintf(format, args...)) }

	// ---- (i) plain export
	pctx, _ := r.ctx.CacheContext()
	var g1 *types.GenesisState
	if p := protect(func() { g1 = service.ExportGenesis(pctx, w.k) }); p != "" {
		m.fail("C19", "plain: ExportGenesis panics: %s", p)
		add("gpanic")
	} else {
		settled := true
		for _, rc := range g1.RequestContexts {
			if rc.State != types.PAUSED || rc.BatchState != types.BATCHCOMPLETED {
				settled = false
			}
		}
		// every stored record of the five exported families is in the genesis
		if len(g1.Definitions) != len(s.Defs) || len(g1.Bindings) != len(s.Binds) || len(g1.WithdrawAddresses) != len(s.Wd) ||
			len(g1.RequestContexts) != len(s.Ctxs) {
			m.fail("C19", "plain: exported %d/%d/%d/%d definitions/bindings/withdraw addresses/contexts, store has %d/%d/%d/%d",
				len(g1.Definitions), len(g1.Bindings), len(g1.WithdrawAddresses), len(g1.RequestContexts), len(s.Defs), len(s.Binds), len(s.Wd), len(s.Ctxs))
		}
		if !g1.Params.Equal(r.cfg.params()) {
			m.fail("C19", "plain: exported parameters differ from those in force")
		}
		if settled {
			m.evals["C19.plain-settled"]++
		}
		rt := r.roundTrip("plain", pctx, g1, settled)
		r.genLinesOfGenesis("g", g1, add)
		add("gvalid %d", b2i(types.ValidateGenesis(*g1) == nil))
		add("gjson %d", b2i(rt.json))
		if types.ValidateGenesis(*g1) == nil {
			add("gsame %d", b2i(rt.same)) // a plain export is importable only when it validates
		}
	}

	// ---- (ii) zero-height preparation
	zctx, _ := r.ctx.CacheContext()
	expect := map[string]*big.Int{}
	owe := func(addr []byte, amt *big.Int) {
		if expect[string(addr)] == nil {
			expect[string(addr)] = new(big.Int)
		}
		expect[string(addr)].Add(expect[string(addr)], amt)
	}
	pending, earned := new(big.Int), new(big.Int)
	for _, rid := range s.ActID {
		q, ok := s.Reqs[rid]
		rc, ok2 := s.Ctxs[ridCtx(rid)]
		if !ok || !ok2 {
			continue // reported by C11 / C16
		}
		owe(rc.Consumer, amountOf(q.ServiceFee))
		pending.Add(pending, amountOf(q.ServiceFee))
	}
	for p, e := range s.Earned {
		owe([]byte(p), e)
		earned.Add(earned, e)
	}
	watch := map[string]bool{}
	for _, at := range a.addrAtomsSorted() {
		watch[string(a.addr(at))] = true
	}
	for ad := range expect {
		watch[ad] = true
	}
	esc, dep, fc := w.moduleAddr(types.RequestAccName), w.moduleAddr(types.DepositAccName), w.moduleAddr("fee_collector")
	pre := map[string]sdk.Int{}
	for ad := range watch {
		pre[ad] = w.balance(zctx, sdk.AccAddress(ad))
	}
	preDep, preFc, preSup := w.balance(zctx, dep), w.balance(zctx, fc), w.supply(zctx)
	if len(s.ActID) > 0 {
		m.evals["C19.prep-with-pending-requests"]++
	}
	if len(s.Earned) > 0 {
		m.evals["C19.prep-with-earnings"]++
	}

	if p := protect(func() { service.PrepForZeroHeightGenesis(zctx, w.k) }); p != "" {
		m.fail("C19", "zero-height: preparation panics: %s", p)
		add("zpanic")
	} else {
		var ads []string
		for ad := range watch {
			ads = append(ads, ad)
		}
		sort.Strings(ads)
		for _, ad := range ads {
			want := new(big.Int).Set(pre[ad].BigInt())
			if e := expect[ad]; e != nil {
				want.Add(want, e)
			}
			got := w.balance(zctx, sdk.AccAddress(ad)).BigInt()
			if got.Cmp(want) != 0 {
				m.fail("C19", "zero-height: account %d holds %s after the preparation, expected %s (before %s, owed %v)",
					a.atomOfAddr([]byte(ad)), got, want, pre[ad], expect[ad])
			}
		}
		if e := w.balance(zctx, esc); !e.IsZero() {
			m.fail("C19", "zero-height: escrow holds %s after the preparation (pending %s, earned %s)", e, pending, earned)
		}
		if x := w.balance(zctx, dep); !x.Equal(preDep) {
			m.fail("C19", "zero-height: deposit account changed %s -> %s", preDep, x)
		}
		if x := w.balance(zctx, fc); !x.Equal(preFc) {
			m.fail("C19", "zero-height: fee collector changed %s -> %s", preFc, x)
		}
		if x := w.supply(zctx); !x.Equal(preSup) {
			m.fail("C19", "zero-height: supply changed %s -> %s", preSup, x)
		}
		zs := w.scan(zctx)
		if len(zs.Ctxs) != len(s.Ctxs) {
			m.fail("C19", "zero-height: %d contexts before, %d after the preparation", len(s.Ctxs), len(zs.Ctxs))
		}
		cdc := w.app.AppCodec()
		for id, old := range s.Ctxs {
			rc, ok := zs.Ctxs[id]
			if !ok {
				m.fail("C19", "zero-height: context %s lost by the preparation", ctxLine([]byte(id)))
				continue
			}
			if rc.State != types.PAUSED || rc.BatchState != types.BATCHCOMPLETED || rc.BatchRequestCount != 0 || rc.BatchResponseCount != 0 {
				m.fail("C19", "zero-height: context %s left state=%v batch=%v counts=%d/%d", ctxLine([]byte(id)), rc.State, rc.BatchState,
					rc.BatchRequestCount, rc.BatchResponseCount)
			}
			old.State, old.BatchState, old.BatchRequestCount, old.BatchResponseCount = types.PAUSED, types.BATCHCOMPLETED, 0, 0
			if !bytes.Equal(cdc.MustMarshalBinaryBare(&old), cdc.MustMarshalBinaryBare(&rc)) {
				m.fail("C19", "zero-height: context %s changed beyond state/batch/counts", ctxLine([]byte(id)))
			}
		}
		// balances and contexts after the preparation
		for _, at := range a.addrAtomsSorted() {
			add("bal %d %s", at, w.balance(zctx, a.addr(at)).String())
		}
		add("bal -1 %s", w.balance(zctx, esc).String())
		add("bal -2 %s", w.balance(zctx, dep).String())
		for id, rc := range zs.Ctxs {
			add("z%s", r.ctxRecordLine([]byte(id), rc))
		}

		var g3 *types.GenesisState
		if p := protect(func() { g3 = service.ExportGenesis(zctx, w.k) }); p != "" {
			m.fail("C19", "zero-height: ExportGenesis panics: %s", p)
			add("zvalid -1")
		} else {
			if len(g3.Definitions) != len(s.Defs) || len(g3.Bindings) != len(s.Binds) || len(g3.WithdrawAddresses) != len(s.Wd) ||
				len(g3.RequestContexts) != len(s.Ctxs) {
				m.fail("C19", "zero-height: exported %d/%d/%d/%d definitions/bindings/withdraw addresses/contexts, store has %d/%d/%d/%d",
					len(g3.Definitions), len(g3.Bindings), len(g3.WithdrawAddresses), len(g3.RequestContexts), len(s.Defs), len(s.Binds), len(s.Wd), len(s.Ctxs))
			}
			rt := r.roundTrip("zero-height", zctx, g3, true)
			is := rt.imp
			add("zvalid %d", b2i(types.ValidateGenesis(*g3) == nil))
			add("zjson %d", b2i(rt.json))
			add("zsame %d", b2i(rt.same))
			// the genesis exported after the preparation: only its contexts differ from the plain one
			for id, rc := range g3.RequestContexts {
				add("zg%s", r.ctxRecordLine(hexToBytes(id), *rc))
			}
			if is != nil {
				// indexes and price terms as rebuilt by the import (compared with the model's init_genesis)
				for _, e := range is.OwnerBinds {
					add("iob %d %d %d", a.atomOfAddr([]byte(e[0])), a.atomOfSvc(e[1]), a.atomOfAddr([]byte(e[2])))
				}
				for p, o := range is.Owners {
					add("iown %d %d", a.atomOfAddr([]byte(p)), a.atomOfAddr([]byte(o)))
				}
				for _, e := range is.OwnerProvs {
					add("iop %d %d", a.atomOfAddr([]byte(e[0])), a.atomOfAddr([]byte(e[1])))
				}
				for k, p := range is.Pricings {
					var sb strings.Builder
					fmt.Fprintf(&sb, "ipr %d %d %s", a.atomOfSvc(k.Svc), a.atomOfAddr([]byte(k.Prov)), amountOf(p.Price).String())
					promoLine(&sb, p.PromotionsByTime, p.PromotionsByVolume)
					add("%s", sb.String())
				}
				add("imported 1")
			} else {
				add("imported 0")
			}
		}
	}

	sort.Strings(lines)
	fmt.Fprintf(r.out, "G %d gen %d\n", r.step, len(lines))
	for _, l := range lines {
		fmt.Fprintf(r.out, "L %s\n", l)
	}
}
