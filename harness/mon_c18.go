package main

import (
	"bytes"
	"encoding/hex"
	"encoding/json"

	abci "github.com/tendermint/tendermint/abci/types"

	"github.com/irismod/service/types"
)

// batchEv is one new_batch_request event of an EndBlock: the context and the compact requests in issue order.
type batchEv struct {
	Ctx  []byte
	Reqs []types.CompactRequest
}

func parseNewBatch(evs []abci.Event) []batchEv {
	var out []batchEv
	for _, e := range evs {
		if e.Type != types.EventTypeNewBatchRequest {
			continue
		}
		var b batchEv
		for _, at := range e.Attributes {
			switch string(at.Key) {
			case types.AttributeKeyRequestContextID:
				b.Ctx, _ = hex.DecodeString(string(at.Value))
			case types.AttributeKeyRequests:
				// providers that are not 20 bytes cannot be read back by sdk.AccAddress's JSON decoder
				var raw []struct {
					Batch    uint64 `json:"request_context_batch_counter"`
					Provider string `json:"provider"`
					Height   int64  `json:"request_height"`
				}
				_ = json.Unmarshal(at.Value, &raw)
				for _, x := range raw {
					b.Reqs = append(b.Reqs, types.CompactRequest{RequestContextBatchCounter: x.Batch, Provider: bechBytes(x.Provider), RequestHeight: x.Height})
				}
			}
		}
		out = append(out, b)
	}
	return out
}

// c18 (implementation only): every stored request id takes apart into exactly the fields of its
// record (context, batch, height) and rebuilds to itself; the i-th request of each issue event of
// this block is stored under the id whose index is i (C18: "the index is the position in the issue event").
func (m *Monitors) c18(s *Snap) {
	for rid, q := range s.Reqs {
		m.evals["C18"]++
		id := []byte(rid)
		c, batch, h, idx, err := types.SplitRequestID(id)
		if err != nil {
			m.fail("C18", "stored request id %x does not split: %v", id, err)
			continue
		}
		if !bytes.Equal(c, q.RequestContextId) || batch != q.RequestContextBatchCounter || h != q.RequestHeight {
			m.fail("C18", "request id %x decodes to (ctx %x, batch %d, height %d) but its record says (ctx %x, batch %d, height %d)",
				id, c, batch, h, []byte(q.RequestContextId), q.RequestContextBatchCounter, q.RequestHeight)
		}
		if !bytes.Equal(types.GenerateRequestID(c, batch, h, idx), id) {
			m.fail("C18", "request id %x does not rebuild from its parts", id)
		}
		if tx, i, err := types.SplitRequestContextID(c); err != nil || !bytes.Equal(types.GenerateRequestContextID(tx, i), c) {
			m.fail("C18", "context id %x does not round-trip", []byte(c))
		}
	}
	for _, b := range m.r.lastBatch {
		for i, cr := range b.Reqs {
			m.evals["C18.event"]++
			id := types.GenerateRequestID(b.Ctx, cr.RequestContextBatchCounter, cr.RequestHeight, int16(i))
			q, ok := s.Reqs[string(id)]
			if !ok {
				m.fail("C18", "entry %d of the issue event of context %x (provider %x) is not stored under the id with index %d", i, b.Ctx, []byte(cr.Provider), i)
				continue
			}
			if !bytes.Equal(q.Provider, cr.Provider) {
				m.fail("C18", "entry %d of the issue event of context %x is provider %x but the request with index %d is addressed to %x",
					i, b.Ctx, []byte(cr.Provider), i, []byte(q.Provider))
			}
		}
	}
}
