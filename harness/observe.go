package main

import (
	"bytes"
	"encoding/binary"
	"encoding/json"
	"fmt"
	"math/big"
	"sort"
	"strings"

	gogotypes "github.com/gogo/protobuf/types"

	sdk "github.com/cosmos/cosmos-sdk/types"
	"github.com/cosmos/cosmos-sdk/types/bech32"

	"github.com/irismod/service/types"
)

type bindKey struct {
	Svc  string
	Prov string // raw bytes
}

type actBind struct {
	Svc  string
	Prov string
	Exp  int64
	Rid  string
}

type qEntry struct {
	H  int64
	ID string
}

// Snap is the module store decoded record by record from a raw scan.
type Snap struct {
	Defs        map[string]types.ServiceDefinition
	Binds       map[bindKey]types.ServiceBinding
	Pricings    map[bindKey]types.Pricing
	OwnerBinds  [][3]string // owner, svc, provider
	Owners      map[string]string
	OwnerProvs  [][2]string
	Wd          map[string]string
	Ctxs        map[string]types.RequestContext
	ExpQ, NewQ  []qEntry
	ExpH, NewH  map[string]int64
	Reqs        map[string]types.CompactRequest
	ActBind     []actBind
	ActID       []string
	Resps       map[string]types.Response
	Vols        map[[3]string]uint64 // consumer, svc, provider (raw bytes)
	Earned      map[string]*big.Int
	OwnerEarned map[string]*big.Int
	Malformed   []string // keys the decoder could not take apart
	NKeys       int
}

func bechBytes(s string) []byte {
	_, bz, err := bech32.DecodeAndConvert(s)
	if err != nil {
		return []byte("?bech:" + s)
	}
	return bz
}

func splitBinding(rest []byte) (string, []byte, bool) {
	i := bytes.IndexByte(rest, 0)
	if i < 0 {
		return "", nil, false
	}
	return string(rest[:i]), bechBytes(string(rest[i+1:])), true
}

func (w *World) scan(ctx sdk.Context) *Snap {
	s := &Snap{
		Defs: map[string]types.ServiceDefinition{}, Binds: map[bindKey]types.ServiceBinding{},
		Pricings: map[bindKey]types.Pricing{}, Owners: map[string]string{}, Wd: map[string]string{},
		Ctxs: map[string]types.RequestContext{}, ExpH: map[string]int64{}, NewH: map[string]int64{},
		Reqs: map[string]types.CompactRequest{}, Resps: map[string]types.Response{},
		Vols: map[[3]string]uint64{}, Earned: map[string]*big.Int{}, OwnerEarned: map[string]*big.Int{},
	}
	cdc := w.app.AppCodec()
	store := ctx.KVStore(w.app.GetKey(types.StoreKey))
	it := store.Iterator(nil, nil)
	defer it.Close()
	for ; it.Valid(); it.Next() {
		k, v := it.Key(), it.Value()
		s.NKeys++
		rest := k[1:]
		bad := func() { s.Malformed = append(s.Malformed, fmt.Sprintf("%x", k)) }
		switch k[0] {
		case 0x01:
			var d types.ServiceDefinition
			cdc.MustUnmarshalBinaryBare(v, &d)
			s.Defs[string(rest)] = d
		case 0x02:
			var b types.ServiceBinding
			cdc.MustUnmarshalBinaryBare(v, &b)
			svc, prov, ok := splitBinding(rest)
			if !ok || svc != b.ServiceName || !bytes.Equal(prov, b.Provider) {
				bad()
			}
			s.Binds[bindKey{b.ServiceName, string(b.Provider)}] = b
		case 0x03:
			if len(rest) < 21 {
				bad()
				continue
			}
			owner := rest[:20]
			i := bytes.IndexByte(rest[20:], 0)
			if i < 0 {
				bad()
				continue
			}
			s.OwnerBinds = append(s.OwnerBinds, [3]string{string(owner), string(rest[20 : 20+i]), string(rest[20+i+1:])})
		case 0x04:
			var o gogotypes.BytesValue
			cdc.MustUnmarshalBinaryBare(v, &o)
			s.Owners[string(rest)] = string(o.Value)
		case 0x05:
			if len(rest) < 21 {
				bad()
				continue
			}
			s.OwnerProvs = append(s.OwnerProvs, [2]string{string(rest[:20]), string(rest[20:])})
		case 0x06:
			var p types.Pricing
			cdc.MustUnmarshalBinaryBare(v, &p)
			svc, prov, ok := splitBinding(rest)
			if !ok {
				bad()
				continue
			}
			s.Pricings[bindKey{svc, string(prov)}] = p
		case 0x07:
			s.Wd[string(rest)] = string(v)
		case 0x08:
			var rc types.RequestContext
			cdc.MustUnmarshalBinaryBare(v, &rc)
			s.Ctxs[string(rest)] = rc
		case 0x09, 0x10:
			if len(rest) != 8+40 {
				bad()
				continue
			}
			var id gogotypes.BytesValue
			cdc.MustUnmarshalBinaryBare(v, &id)
			if !bytes.Equal(id.Value, rest[8:]) {
				bad()
			}
			e := qEntry{int64(binary.BigEndian.Uint64(rest[:8])), string(rest[8:])}
			if k[0] == 0x09 {
				s.ExpQ = append(s.ExpQ, e)
			} else {
				s.NewQ = append(s.NewQ, e)
			}
		case 0x11, 0x12:
			var h gogotypes.Int64Value
			cdc.MustUnmarshalBinaryBare(v, &h)
			if k[0] == 0x11 {
				s.ExpH[string(rest)] = h.Value
			} else {
				s.NewH[string(rest)] = h.Value
			}
		case 0x13:
			var r types.CompactRequest
			cdc.MustUnmarshalBinaryBare(v, &r)
			s.Reqs[string(rest)] = r
		case 0x14:
			if len(rest) < 58+8+1 {
				bad()
				continue
			}
			rid := rest[len(rest)-58:]
			exp := int64(binary.BigEndian.Uint64(rest[len(rest)-66 : len(rest)-58]))
			head := rest[:len(rest)-67]
			svc, prov, ok := splitBinding(head)
			var id gogotypes.BytesValue
			cdc.MustUnmarshalBinaryBare(v, &id)
			if !ok || !bytes.Equal(id.Value, rid) || rest[len(rest)-67] != 0 {
				bad()
			}
			s.ActBind = append(s.ActBind, actBind{svc, string(prov), exp, string(rid)})
		case 0x15:
			var id gogotypes.BytesValue
			cdc.MustUnmarshalBinaryBare(v, &id)
			if !bytes.Equal(id.Value, rest) {
				bad()
			}
			s.ActID = append(s.ActID, string(rest))
		case 0x16:
			var r types.Response
			cdc.MustUnmarshalBinaryBare(v, &r)
			s.Resps[string(rest)] = r
		case 0x17:
			parts := bytes.Split(rest, []byte{0})
			if len(parts) != 4 || len(parts[3]) != 0 {
				bad()
				continue
			}
			var n gogotypes.UInt64Value
			cdc.MustUnmarshalBinaryBare(v, &n)
			s.Vols[[3]string{string(bechBytes(string(parts[0]))), string(parts[1]), string(bechBytes(string(parts[2])))}] = n.Value
		case 0x18:
			var c sdk.Coin
			cdc.MustUnmarshalBinaryBare(v, &c)
			if !bytes.HasSuffix(rest, []byte(c.Denom)) || c.Denom != denom {
				bad()
				continue
			}
			s.Earned[string(rest[:len(rest)-len(c.Denom)])] = c.Amount.BigInt()
		case 0x19:
			var c sdk.Coin
			cdc.MustUnmarshalBinaryBare(v, &c)
			if c.Denom != denom {
				bad()
			}
			s.OwnerEarned[string(rest)] = c.Amount.BigInt()
		default:
			bad()
		}
	}
	return s
}

func amountOf(c sdk.Coins) *big.Int { return c.AmountOf(denom).BigInt() }

func splitCtx(id []byte) (uint64, int64) {
	if len(id) != 40 {
		return 0, -777
	}
	for _, b := range id[8:32] {
		if b != 0 {
			return 0, -778
		}
	}
	return binary.BigEndian.Uint64(id[:8]), int64(binary.BigEndian.Uint64(id[32:]))
}

func ridLine(rid []byte) string {
	if len(rid) != 58 {
		return fmt.Sprintf("badrid-%x", rid)
	}
	tx, idx := splitCtx(rid[:40])
	return fmt.Sprintf("%d %d %d %d %d", tx, idx, binary.BigEndian.Uint64(rid[40:48]), int64(binary.BigEndian.Uint64(rid[48:56])),
		int16(binary.BigEndian.Uint16(rid[56:])))
}

func ctxLine(id []byte) string {
	tx, idx := splitCtx(id)
	return fmt.Sprintf("%d %d", tx, idx)
}

func timeAtom(t interface {
	IsZero() bool
	UnixNano() int64
}) int64 {
	if t.IsZero() {
		return -1
	}
	return t.UnixNano()
}

// atoms of texts the harness itself produced
func contentAtom(desc string) int64 {
	var n int64
	if _, err := fmt.Sscanf(desc, "content-%d", &n); err != nil {
		return -5
	}
	return n
}

func inputAtom(s string) int64 {
	var v struct {
		Body struct {
			I int64 `json:"i"`
		} `json:"body"`
	}
	if json.Unmarshal([]byte(s), &v) != nil {
		return -5
	}
	return v.Body.I
}

func outputAtom(s string) int64 {
	if s == "" {
		return 0
	}
	var v struct {
		Body struct {
			O int64 `json:"o"`
		} `json:"body"`
	}
	if json.Unmarshal([]byte(s), &v) != nil {
		return -5
	}
	return v.Body.O
}

func resultCode(s string) int64 {
	r, err := types.ParseResult(s)
	if err != nil {
		return -5
	}
	return int64(r.Code)
}

func promoLine(sb *strings.Builder, pt []types.PromotionByTime, pv []types.PromotionByVolume) {
	fmt.Fprintf(sb, " %d", len(pt))
	for _, t := range pt {
		fmt.Fprintf(sb, " %d %d %s", t.StartTime.UnixNano(), t.EndTime.UnixNano(), t.Discount.BigInt().String())
	}
	fmt.Fprintf(sb, " %d", len(pv))
	for _, v := range pv {
		fmt.Fprintf(sb, " %d %s", v.Volume, v.Discount.BigInt().String())
	}
}

// rawPricingLine parses the published pricing text independently of the keeper.
func rawPricingLine(text string) string {
	var raw types.RawPricing
	if err := json.Unmarshal([]byte(text), &raw); err != nil {
		return "unparsed"
	}
	dc, err := sdk.ParseDecCoin(raw.Price)
	if err != nil {
		// the decimal syntax requires a fraction; integers go through the plain coin syntax
		c, err := sdk.ParseCoin(raw.Price)
		if err != nil {
			return "unparsed"
		}
		dc = sdk.NewDecCoinFromCoin(c)
	}
	var sb strings.Builder
	sb.WriteString(dc.Amount.BigInt().String())
	promoLine(&sb, raw.PromotionsByTime, raw.PromotionsByVolume)
	return sb.String()
}

// lines renders every observation group of the snapshot (plus balances) in the
// canonical syntax shared with the model driver.
func (r *Runner) lines(s *Snap) map[string][]string {
	a := r.a
	g := map[string][]string{}
	add := func(group, format string, args ...interface{}) {
		g[group] = append(g[group], fmt.Sprintf(format, args...))
	}
	// bank
	for _, at := range a.addrAtomsSorted() {
		add("bank", "bal %d %s", at, r.w.balance(r.ctx, a.addr(at)).String())
	}
	add("bank", "bal -1 %s", r.w.balance(r.ctx, r.w.moduleAddr(types.RequestAccName)).String())
	add("bank", "bal -2 %s", r.w.balance(r.ctx, r.w.moduleAddr(types.DepositAccName)).String())
	add("bank", "bal -3 %s", r.w.balance(r.ctx, r.w.moduleAddr("fee_collector")).Sub(r.feeColl0).String())
	add("bank", "supply %s", r.w.supply(r.ctx).Sub(r.supply0).String())
	// oblig
	for _, rid := range s.ActID {
		fee := "-1"
		if q, ok := s.Reqs[rid]; ok {
			fee = amountOf(q.ServiceFee).String()
		}
		add("oblig", "act %s %s", ridLine([]byte(rid)), fee)
	}
	for p, amt := range s.Earned {
		add("oblig", "earned %d %s", a.atomOfAddr([]byte(p)), amt.String())
	}
	for o, amt := range s.OwnerEarned {
		add("oblig", "oearned %d %s", a.atomOfAddr([]byte(o)), amt.String())
	}
	// bind
	for k, b := range s.Binds {
		add("bind", "b %d %d %s %d %d %d %d %s", a.atomOfSvc(k.Svc), a.atomOfAddr([]byte(k.Prov)), amountOf(b.Deposit).String(),
			b2i(b.Available), timeAtom(b.DisabledTime), a.atomOfAddr(b.Owner), b.QoS, rawPricingLine(b.Pricing))
	}
	for k, p := range s.Pricings {
		var sb strings.Builder
		promoLine(&sb, p.PromotionsByTime, p.PromotionsByVolume)
		add("bind", "pr %d %d %s%s", a.atomOfSvc(k.Svc), a.atomOfAddr([]byte(k.Prov)), amountOf(p.Price).String(), sb.String())
	}
	// index
	for name, d := range s.Defs {
		add("index", "def %d %d", a.atomOfSvc(name), contentAtom(d.Description))
	}
	for _, e := range s.OwnerBinds {
		add("index", "ob %d %d %d", a.atomOfAddr([]byte(e[0])), a.atomOfSvc(e[1]), a.atomOfAddr([]byte(e[2])))
	}
	for p, o := range s.Owners {
		add("index", "own %d %d", a.atomOfAddr([]byte(p)), a.atomOfAddr([]byte(o)))
	}
	for _, e := range s.OwnerProvs {
		add("index", "op %d %d", a.atomOfAddr([]byte(e[0])), a.atomOfAddr([]byte(e[1])))
	}
	for o, w := range s.Wd {
		add("index", "wd %d %d", a.atomOfAddr([]byte(o)), a.atomOfAddr([]byte(w)))
	}
	// ctx
	for id, rc := range s.Ctxs {
		var provs []int64
		for _, p := range rc.Providers {
			provs = append(provs, a.atomOfAddr(p))
		}
		mod := int64(0)
		if rc.ModuleName == cbModule {
			mod = cbModAtom
		} else if rc.ModuleName != "" {
			mod = -5
		}
		add("ctx", "c %s %d %s %d %d %s %d %d %d %d %d %d %d %d %d %d %d %d %d", ctxLine([]byte(id)), a.atomOfSvc(rc.ServiceName), listLine(provs),
			a.atomOfAddr(rc.Consumer), inputAtom(rc.Input), amountOf(rc.ServiceFeeCap).String(), rc.Timeout, b2i(rc.SuperMode), b2i(rc.Repeated),
			rc.RepeatedFrequency, rc.RepeatedTotal, rc.BatchCounter, rc.BatchRequestCount, rc.BatchResponseCount, rc.BatchResponseThreshold,
			b2i(rc.BatchState == types.BATCHCOMPLETED), int(rc.State), rc.ResponseThreshold, mod)
	}
	// queue
	for _, e := range s.ExpQ {
		add("queue", "eq %d %s", e.H, ctxLine([]byte(e.ID)))
	}
	for id, h := range s.ExpH {
		add("queue", "eh %s %d", ctxLine([]byte(id)), h)
	}
	for _, e := range s.NewQ {
		add("queue", "nq %d %s", e.H, ctxLine([]byte(e.ID)))
	}
	for id, h := range s.NewH {
		add("queue", "nh %s %d", ctxLine([]byte(id)), h)
	}
	// req
	for rid, q := range s.Reqs {
		add("req", "rq %s %d %s %d %d %s %d", ridLine([]byte(rid)), a.atomOfAddr(q.Provider), amountOf(q.ServiceFee).String(), q.RequestHeight,
			q.ExpirationHeight, ctxLine(q.RequestContextId), q.RequestContextBatchCounter)
	}
	for _, e := range s.ActBind {
		add("req", "ab %d %d %d %s", a.atomOfSvc(e.Svc), a.atomOfAddr([]byte(e.Prov)), e.Exp, ridLine([]byte(e.Rid)))
	}
	for _, rid := range s.ActID {
		add("req", "ai %s", ridLine([]byte(rid)))
	}
	for rid, rs := range s.Resps {
		add("req", "rs %s %d %d %d %d %s %d", ridLine([]byte(rid)), a.atomOfAddr(rs.Provider), a.atomOfAddr(rs.Consumer), resultCode(rs.Result),
			outputAtom(rs.Output), ctxLine(rs.RequestContextId), rs.RequestContextBatchCounter)
	}
	// vol
	for k, n := range s.Vols {
		add("vol", "v %d %d %d %d", a.atomOfAddr([]byte(k[0])), a.atomOfSvc(k[1]), a.atomOfAddr([]byte(k[2])), n)
	}
	for _, m := range s.Malformed {
		add("index", "malformed %s", m)
	}
	for _, l := range g {
		sort.Strings(l)
	}
	return g
}
