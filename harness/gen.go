package main

import (
	"math/rand"
	"sort"
	"time"

	sdk "github.com/cosmos/cosmos-sdk/types"
	authtypes "github.com/cosmos/cosmos-sdk/x/auth/types"

	"github.com/irismod/service/types"
)

var cfgs = []Cfg{
	{MaxTimeout: 3, Multiple: 200, MinDeposit: 6000, Tax: "0.1", Slash: "0.001", Arb: 5 * time.Second, Compl: 5 * time.Second},
	{MaxTimeout: 2, Multiple: 1, MinDeposit: 0, Tax: "0", Slash: "0", Arb: 5 * time.Second, Compl: 10 * time.Second},
	{MaxTimeout: 10, Multiple: 1, MinDeposit: 50, Tax: "0.999999", Slash: "1", Arb: 10 * time.Second, Compl: 5 * time.Second},
	{MaxTimeout: 3, Multiple: 200, MinDeposit: 50, Tax: "0.1", Slash: "0.5", Arb: 5 * time.Second, Compl: 5 * time.Second},
	{MaxTimeout: 4, Multiple: 1, MinDeposit: 6000, Tax: "0.05", Slash: "0.001", Arb: 1 * time.Second, Compl: 4 * time.Second},
	{MaxTimeout: 3, Multiple: 2, MinDeposit: 0, Tax: "0.5", Slash: "0.5", Arb: 5 * time.Second, Compl: 5 * time.Second},
	{MaxTimeout: 5, Multiple: 200, MinDeposit: 6000, Tax: "0.333333333333333333", Slash: "0.1", Arb: 15 * time.Second, Compl: 5 * time.Second},
	{MaxTimeout: 3, Multiple: 10, MinDeposit: 50, Tax: "0", Slash: "1", Arb: 5 * time.Second, Compl: 5 * time.Second},
	{MaxTimeout: 2, Multiple: 1, MinDeposit: 1, Tax: "0.1", Slash: "0.999999999999999999", Arb: 5 * time.Second, Compl: 5 * time.Second},
	{MaxTimeout: 6, Multiple: 3, MinDeposit: 100, Tax: "0.25", Slash: "0.25", Arb: 10 * time.Second, Compl: 10 * time.Second},
}

var (
	svcAtoms      = []int64{1, 2, 3, 4}
	ownerAtoms    = []int64{101, 102, 103}
	consumerAtoms = []int64{111, 112, 113}
	providerAtoms = []int64{121, 122, 123, 124, 125, 126, 127, 101, 102, 128}
	wdAtoms       = []int64{131, 132}
	blockedAtoms  = []int64{9001, 9002, 9003, 9004}
	strangerAtom  = int64(141)
)

func pad20(s string) []byte {
	b := []byte(s)
	for len(b) < 20 {
		b = append(b, '.')
	}
	return b[:20]
}

// standardAtoms: the pools of section 4.2 (signers are 20 bytes; providers have adversarial shapes).
func standardAtoms() *Atoms {
	a := newAtoms()
	a.addSvc(1, "a")
	a.addSvc(2, "ab")
	a.addSvc(3, "ab-1")
	a.addSvc(4, "b")
	a.addSvc(5, modSvc)
	a.addAddr(101, pad20("owner-one"))
	a.addAddr(102, pad20("owner-two"))
	a.addAddr(103, pad20("owner-three"))
	a.addAddr(111, pad20("consumer-one"))
	a.addAddr(112, pad20("consumer-two"))
	a.addAddr(113, pad20("consumer-three"))
	p := pad20("prov-base-address")
	a.addAddr(121, p)
	a.addAddr(122, p[:19])
	a.addAddr(123, append(append([]byte{}, p...), 's'))
	a.addAddr(124, append(append([]byte{}, p...), []byte("stake")...))
	a.addAddr(125, []byte("tiny!"))
	a.addAddr(126, pad20("provider-six"))
	a.addAddr(127, pad20("zz-provider-seven"))
	zb := pad20("prov-zero-byte")
	zb[4], zb[9] = 0, 0 // 20 bytes with 0x00 inside: addresses, unlike service names, may contain the key separator
	a.addAddr(128, zb)
	a.addAddr(131, pad20("withdraw-one"))
	a.addAddr(132, pad20("withdraw-two"))
	a.addAddr(141, pad20("stranger"))
	a.addAddr(modProvAtom, modProvBytes) // provider address of the module registered for modSvc (world.go)
	// module accounts the bank keeper blocks as receivers (model: is_blocked, atoms 9001..9004)
	a.addAddr(9001, authtypes.NewModuleAddress(types.RequestAccName))
	a.addAddr(9002, authtypes.NewModuleAddress(types.DepositAccName))
	a.addAddr(9003, authtypes.NewModuleAddress(authtypes.FeeCollectorName))
	a.addAddr(9004, authtypes.NewModuleAddress("gov"))
	return a
}

type Gen struct {
	rng    *rand.Rand
	r      *Runner
	tempo  float64
	txUsed map[uint64]bool
	outCtr int64
	inCtr  int64
	defCtr int64
	counts map[string]map[string]int // kind -> result -> n
	lastTx  uint64                    // transaction hash and message index of the last generated call
	lastIdx int64
	k3     float64                   // probability that a call targets the module-registered service (known finding K3)
	// C19: every generated history exports once near its end (and with ~3 % anywhere);
	// about half of the histories use only 20-byte provider addresses so that the full
	// JSON round trip is exercised (the others re-confirm K4)
	provPool []int64
	nIssued  int
	exportAt int
	// governance parameter changes (op kind setparams): decided from a SEPARATE stream so that the
	// histories without a change (about two thirds) are exactly the fixed-parameter histories they
	// were before the op kind existed
	prng      *rand.Rand
	paramHist bool
}

// planParams decides whether this history contains parameter changes (about one history in three).
func (g *Gen) planParams(histSeed int64) {
	g.prng = rand.New(rand.NewSource(histSeed ^ 0x5e7a9a4a))
	g.paramHist = g.prng.Intn(3) == 0
}

var (
	legalTaxes   = []string{"0", "0.1", "0.05", "0.5", "0.999999999999999999", "0.333333333333333333", "0.000000000000000001"}
	legalSlashes = []string{"0", "0.001", "0.5", "1", "0.999999999999999999", "0.25", "0.000000000000000001"}
	legalDurs    = []time.Duration{time.Second, 4 * time.Second, 5 * time.Second, 10 * time.Second, 15 * time.Second, 1, 300 * time.Millisecond}
)

// setParams proposes a new parameter set, starting from the one in force.
//   - maximum request timeout: unchanged, smaller (down to 1) or larger. Lowering it is legal and leaves
//     stored bindings (QoS) and contexts (timeout) above the new maximum: the module grandfathers them.
//   - minimum deposit multiple and minimum deposit: UNCHANGED OR SMALLER, never larger. The module does not
//     revisit stored bindings when its parameters change, so after a raise an available binding made at
//     the old minimum holds less than the new one: C14 read "under the parameters in force" is then false
//     on the unchanged code BY DESIGN (Coq: C14_tighten_min_deposit_refuted). Properties quantify over a
//     legal parameter set; the generator stays inside the changes the statement survives (`relaxes`).
//   - tax, slash fraction: any legal value; arbitration and complaint limits: any positive duration.
//   - about one proposal in seven is ILLEGAL in exactly one field and must be refused without a trace.
func (g *Gen) setParams() *Op {
	rng := g.prng
	c := g.r.cfg
	switch rng.Intn(3) {
	case 1:
		if c.MaxTimeout > 1 {
			c.MaxTimeout = 1 + rng.Int63n(c.MaxTimeout-1)
		}
	case 2:
		c.MaxTimeout += 1 + rng.Int63n(4)
		if rng.Intn(8) == 0 {
			c.MaxTimeout = 100 + rng.Int63n(100)
		}
	}
	if rng.Intn(2) == 0 && c.Multiple > 1 {
		c.Multiple = 1 + rng.Int63n(c.Multiple)
	}
	if rng.Intn(2) == 0 && c.MinDeposit > 0 {
		c.MinDeposit = rng.Int63n(c.MinDeposit + 1)
	}
	if rng.Intn(2) == 0 {
		c.Tax = legalTaxes[rng.Intn(len(legalTaxes))]
	}
	if rng.Intn(2) == 0 {
		c.Slash = legalSlashes[rng.Intn(len(legalSlashes))]
	}
	if rng.Intn(3) == 0 {
		c.Arb = legalDurs[rng.Intn(len(legalDurs))]
	}
	if rng.Intn(3) == 0 {
		c.Compl = legalDurs[rng.Intn(len(legalDurs))]
	}
	if rng.Intn(7) == 0 {
		switch rng.Intn(9) {
		case 0:
			c.Tax = "1"
		case 1:
			c.Slash = "1.000000000000000001"
		case 2:
			c.Multiple = 0
		case 3:
			c.MaxTimeout = 0
		case 4:
			c.Arb = 0
		case 5:
			c.Compl = -time.Second
		case 6:
			c.MinDeposit = -1
		case 7:
			c.Tax = "-0.1"
		default:
			c.MaxTimeout = -3
		}
	}
	return &Op{Kind: "setparams", P: &c}
}

var providerAtoms20 = []int64{121, 126, 127, 101, 128}

// planExport decides, from the history's rng, the provider pool and the final export step.
func (g *Gen) planExport(nops int) {
	g.provPool = providerAtoms
	if g.rng.Intn(2) == 0 {
		g.provPool = providerAtoms20
	}
	g.exportAt = nops - 1 - g.rng.Intn(4)
	if g.exportAt < 0 {
		g.exportAt = 0
	}
}

func (g *Gen) provs() []int64 {
	if g.provPool == nil {
		return providerAtoms
	}
	return g.provPool
}

func pick(rng *rand.Rand, l []int64) int64 { return l[rng.Intn(len(l))] }

func (g *Gen) chance(p float64) bool { return g.rng.Float64() < p }

func (g *Gen) freshTx() uint64 {
	for {
		tx := uint64(g.rng.Int63n(1 << 40))
		if !g.txUsed[tx] && tx != 0 {
			g.txUsed[tx] = true
			return tx
		}
	}
}

var prices = []string{"0", "0.5", "1", "2", "10", "1000", "0.999999999999999999", "3.7", "5", "7", "15", "33"}
var discounts = []string{"0.5", "0.1", "0.9", "0.000000000000000001", "0.999999999999999999", "0.3", "0.25"}

func (g *Gen) pricing() PricingArg {
	rng := g.rng
	p := PricingArg{Kind: "P", Price: prices[rng.Intn(len(prices))], Denom: denom}
	now := g.r.now.Unix()
	nT := rng.Intn(4)
	t := now - 10 + int64(rng.Intn(15))
	if g.chance(0.6) {
		// on the grid of the likely coming block times, so that starts and ends of windows are hit exactly
		t = now - 10 + 5*int64(rng.Intn(5))
	}
	for i := 0; i < nT; i++ {
		l := int64(5 * (1 + rng.Intn(3)))
		p.T = append(p.T, PT{Start: t, End: t + l, Disc: discounts[rng.Intn(len(discounts))]})
		t += l
		if g.chance(0.5) {
			t += int64(5 * rng.Intn(3))
		}
	}
	nV := rng.Intn(4)
	v := uint64(1 + rng.Intn(2))
	for i := 0; i < nV; i++ {
		p.V = append(p.V, PV{Vol: v, Disc: discounts[rng.Intn(len(discounts))]})
		v += uint64(rng.Intn(3))
	}
	switch {
	case g.chance(0.04) && len(p.T) >= 2: // overlapping windows
		p.T[1].Start = p.T[0].End - 1
	case g.chance(0.03) && len(p.T) >= 1: // empty window
		p.T[0].End = p.T[0].Start
	case g.chance(0.04) && len(p.V) >= 2: // descending volumes
		p.V[1].Vol = p.V[0].Vol - 1
		if p.V[0].Vol == 1 {
			p.V[0].Vol = 2
			p.V[1].Vol = 1
		}
	case g.chance(0.03): // unknown token: parses as text, GetToken fails
		p.Kind = "N"
		p.Denom = "atom"
	case g.chance(0.02): // 19 decimals: the schema accepts, the decimal parser refuses
		p.Kind = "N"
		p.Price = "1.0000000000000000001"
		p.Text = `{"price":"1.0000000000000000001stake"}`
	}
	return p
}

func (g *Gen) minDepositFor(p PricingArg) int64 {
	price := int64(0)
	if p.Kind == "P" {
		x := decToScaled(p.Price)
		x.Quo(x, prec)
		price = x.Int64()
	}
	md := price * g.r.cfg.Multiple
	if md < g.r.cfg.MinDeposit {
		md = g.r.cfg.MinDeposit
	}
	return md
}

func (g *Gen) depositAround(md int64) CoinsArg {
	switch g.rng.Intn(12) {
	case 0:
		return CoinsArg{Kind: "E"}
	case 1:
		return CoinsArg{Kind: "X", Raw: "5atom"}
	case 2:
		return CoinsArg{Kind: "X", Raw: "5atom,7stake"}
	case 3, 4:
		if md > 1 {
			return CoinsArg{Kind: "B", Amt: md - 1}
		}
		return CoinsArg{Kind: "B", Amt: 1}
	case 5, 6, 7:
		if md < 1 {
			md = 1
		}
		return CoinsArg{Kind: "B", Amt: md}
	case 8:
		return CoinsArg{Kind: "B", Amt: md + 1}
	default:
		return CoinsArg{Kind: "B", Amt: md*3 + int64(g.rng.Intn(5000)) + 1}
	}
}

func (g *Gen) snapBindings() []bindKey {
	var ks []bindKey
	for k := range g.r.snap.Binds {
		ks = append(ks, k)
	}
	sort.Slice(ks, func(i, j int) bool {
		if ks[i].Svc != ks[j].Svc {
			return ks[i].Svc < ks[j].Svc
		}
		return ks[i].Prov < ks[j].Prov
	})
	return ks
}

func (g *Gen) snapCtxs() []string {
	var ks []string
	for k := range g.r.snap.Ctxs {
		ks = append(ks, k)
	}
	sort.Strings(ks)
	return ks
}

// bindingTarget picks an existing binding (want: 0 any, 1 prefer available, 2 prefer unavailable,
// 3 prefer unavailable with a deposit whose refund period has passed).
func (g *Gen) bindingTarget(want int) (svc, prov, owner int64, ok bool) {
	ks := g.snapBindings()
	if len(ks) == 0 || g.chance(0.05) {
		return pick(g.rng, svcAtoms), pick(g.rng, g.provs()), pick(g.rng, ownerAtoms), false
	}
	if want != 0 && g.chance(0.8) {
		var sel []bindKey
		for _, k := range ks {
			b := g.r.snap.Binds[k]
			switch want {
			case 1:
				if b.Available {
					sel = append(sel, k)
				}
			case 2:
				if !b.Available {
					sel = append(sel, k)
				}
			case 3:
				if !b.Available && !b.Deposit.IsZero() && (g.chance(0.3) || !g.r.now.Before(b.DisabledTime.Add(g.r.cfg.Arb+g.r.cfg.Compl))) {
					sel = append(sel, k)
				}
			}
		}
		if len(sel) > 0 {
			ks = sel
		}
	}
	k := ks[g.rng.Intn(len(ks))]
	b := g.r.snap.Binds[k]
	owner = g.r.a.atomOfAddr(b.Owner)
	if g.chance(0.12) {
		owner = pick(g.rng, append(append([]int64{}, ownerAtoms...), strangerAtom))
	}
	return g.r.a.atomOfSvc(k.Svc), g.r.a.atomOfAddr([]byte(k.Prov)), owner, true
}

// next produces the next op from the current implementation state.
func (g *Gen) next0() *Op {
	rng := g.rng
	r := g.r
	s := r.snap
	a := r.a
	g.nIssued++
	if g.provPool != nil {
		// exports are more likely where there is something to hand back
		p := 0.02
		if len(s.ActID) > 0 {
			p += 0.04
		}
		if len(s.Earned) > 0 {
			p += 0.03
		}
		if g.nIssued-1 == g.exportAt || g.chance(p) {
			return &Op{Kind: "export"}
		}
	}
	// -k3 > 0 only (known finding K3 inside the correspondence, DESIGN 12.10): the module service gets its
	// definition early, so that calls aimed at it reach the module-service branch of the handler
	if g.k3 > 0 {
		if _, ok := s.Defs[modSvc]; !ok && g.chance(0.2) {
			g.defCtr++
			return &Op{Kind: "define", Svc: 5, Content: g.defCtr, Owner: pick(rng, ownerAtoms)}
		}
	}
	// governance parameter change: about one op in twenty of a history that has them (one in sixty overall)
	if g.paramHist && g.prng.Intn(20) == 0 {
		return g.setParams()
	}
	if g.chance(g.tempo) {
		dts := []int64{0, int64(5 * time.Second), int64(5 * time.Second), int64(r.cfg.Arb + r.cfg.Compl), int64(time.Second),
			int64(5*time.Second + 300*time.Millisecond), int64(4*time.Second + 700*time.Millisecond), int64(600 * time.Millisecond)}
		return &Op{Kind: "endblock", Dt: dts[rng.Intn(len(dts))]}
	}
	// query steps (C17): ~4 % of the ops overall, more likely while requests are pending
	// or answered, because that is when the request / response listings are not empty
	pq := 0.025
	if len(s.ActID) > 0 || len(s.Resps) > 0 {
		pq = 0.08
	}
	if len(s.Resps) >= 2 || len(s.ActID) >= 3 {
		pq = 0.2
	}
	if g.chance(pq) {
		return &Op{Kind: "query"}
	}
	if len(s.ActID) > 0 && g.chance(0.3) {
		return g.respond()
	}
	// a module that owns a context keeps driving it (keeper API ops)
	hasMod := false
	for _, rc := range s.Ctxs {
		hasMod = hasMod || rc.ModuleName != ""
	}
	if hasMod && g.chance(0.07) {
		return g.ctxOp(true)
	}
	x := rng.Intn(100)
	if x >= 64 && x < 82 && len(s.ActID) == 0 && g.chance(0.8) {
		// nothing is pending: make progress towards a batch instead of a hopeless response
		if len(s.Ctxs) > 0 && g.chance(0.5) {
			return &Op{Kind: "endblock", Dt: int64(5 * time.Second)}
		}
		x = 45
	}
	// ops that need an object that does not exist yet: mostly create one instead
	if len(s.Binds) == 0 && x >= 20 && x < 97 && g.chance(0.85) {
		x = 6 // bind
	} else if len(s.Ctxs) == 0 && x >= 82 && x < 92 && g.chance(0.8) {
		x = 45 // call
	}
	switch {
	case x < 6 || len(s.Defs) == 0:
		g.defCtr++
		o := &Op{Kind: "define", Svc: pick(rng, svcAtoms), Content: g.defCtr, Owner: pick(rng, ownerAtoms)}
		if g.chance(0.05) {
			o.Svc = 5
		}
		return o
	case x < 20:
		o := &Op{Kind: "bind", Svc: pick(rng, svcAtoms), Prov: pick(rng, g.provs()), Owner: pick(rng, ownerAtoms), QoS: uint64(1 + rng.Intn(int(r.cfg.MaxTimeout)))}
		if g.chance(0.45) {
			o.QoS = 1 // fast providers are eligible for every timeout: more multi-provider batches
		}
		if len(s.Defs) > 0 && g.chance(0.9) {
			var names []string
			for n := range s.Defs {
				names = append(names, n)
			}
			sort.Strings(names)
			o.Svc = a.atomOfSvc(names[rng.Intn(len(names))])
			// half of the time add a provider to a service that already has bindings
			if g.chance(0.5) {
				var bound []string
				for _, k := range g.snapBindings() {
					bound = append(bound, k.Svc)
				}
				if len(bound) > 0 {
					o.Svc = a.atomOfSvc(bound[rng.Intn(len(bound))])
				}
			}
		}
		if g.k3 > 0 && g.chance(0.05) {
			// the module's provider address as an ordinary provider of another service: it gets an owner
			o.Prov = modProvAtom
		}
		if ow, ok := s.Owners[string(a.addr(o.Prov))]; ok && g.chance(0.85) {
			o.Owner = a.atomOfAddr([]byte(ow))
		}
		// an account that is both an owner and a provider: let it (try to) bind itself, also when
		// somebody else owns it already
		if (o.Prov == 101 || o.Prov == 102) && g.chance(0.4) {
			o.Owner = o.Prov
		}
		if g.chance(0.04) {
			o.QoS = uint64(r.cfg.MaxTimeout + 1)
		}
		if g.chance(0.02) {
			o.QoS = 0
		}
		o.Pr = g.pricing()
		o.Dep = g.depositAround(g.minDepositFor(o.Pr))
		return o
	case x < 28:
		svc, prov, owner, _ := g.bindingTarget(0)
		o := &Op{Kind: "update", Svc: svc, Prov: prov, Owner: owner, Pr: PricingArg{Kind: "-"}, Dep: CoinsArg{Kind: "E"}}
		if g.chance(0.5) {
			o.Pr = g.pricing()
		}
		if g.chance(0.4) {
			o.Dep = g.depositAround(int64(rng.Intn(300)))
		}
		if b, ok := s.Binds[bindKey{a.svcName[svc], string(a.addr(prov))}]; ok && o.Pr.Kind == "P" && g.chance(0.5) {
			// price change together with a top-up around the shortfall of the NEW minimum
			// (exactly it, one less, half of it, just above half: a top-up counted twice shows there)
			short := g.minDepositFor(o.Pr) - amountOf(b.Deposit).Int64()
			if short > 1 {
				cands := []int64{short, short - 1, short / 2, short/2 + 1, (short + 1) / 2, short + 1}
				o.Dep = CoinsArg{Kind: "B", Amt: cands[rng.Intn(len(cands))]}
				if o.Dep.Amt < 1 {
					o.Dep.Amt = 1
				}
			}
		}
		if g.chance(0.3) {
			o.QoS = uint64(1 + rng.Intn(int(r.cfg.MaxTimeout)+1))
		}
		return o
	case x < 33:
		svc, prov, owner, _ := g.bindingTarget(1)
		return &Op{Kind: "disable", Svc: svc, Prov: prov, Owner: owner}
	case x < 38:
		svc, prov, owner, ok := g.bindingTarget(2)
		o := &Op{Kind: "enable", Svc: svc, Prov: prov, Owner: owner, Dep: CoinsArg{Kind: "E"}}
		if ok && g.chance(0.6) {
			b := s.Binds[bindKey{a.svcName[svc], string(a.addr(prov))}]
			price, okp := priceOfText(b.Pricing)
			if okp {
				need := r.mon.minDeposit(price).Int64() - amountOf(b.Deposit).Int64()
				if need > 0 {
					o.Dep = g.depositAround(need)
				}
			}
		} else if g.chance(0.3) {
			o.Dep = g.depositAround(int64(rng.Intn(100)))
		}
		return o
	case x < 42:
		svc, prov, owner, _ := g.bindingTarget(3)
		return &Op{Kind: "refunddep", Svc: svc, Prov: prov, Owner: owner}
	case x < 45:
		o := &Op{Kind: "setwd", Owner: pick(rng, ownerAtoms), Addr: pick(rng, wdAtoms)}
		if g.chance(0.2) {
			o.Addr = o.Owner
		} else if g.chance(0.15) {
			o.Addr = pick(rng, blockedAtoms) // a module account: must be rejected (repair D11)
		}
		return o
	case x < 60:
		return g.call(false)
	case x < 64:
		return g.call(true)
	case x < 82:
		return g.respond()
	case x < 92:
		return g.ctxOp(false)
	case x < 97:
		o := &Op{Kind: "withdraw", Owner: pick(rng, ownerAtoms)}
		if g.chance(0.5) {
			var ps []string
			for p := range s.Earned {
				ps = append(ps, p)
			}
			sort.Strings(ps)
			if len(ps) > 0 && g.chance(0.8) {
				p := ps[rng.Intn(len(ps))]
				o.Prov = a.atomOfAddr([]byte(p))
				if ow, ok := s.Owners[p]; ok && g.chance(0.85) {
					o.Owner = a.atomOfAddr([]byte(ow))
				}
			} else {
				o.Prov = pick(rng, g.provs())
			}
		} else if len(s.OwnerEarned) > 0 && g.chance(0.8) {
			var os []string
			for ow := range s.OwnerEarned {
				os = append(os, ow)
			}
			sort.Strings(os)
			o.Owner = a.atomOfAddr([]byte(os[rng.Intn(len(os))]))
		}
		return o
	default:
		all := append(append(append([]int64{}, ownerAtoms...), consumerAtoms...), wdAtoms...)
		return &Op{Kind: "transfer", From: pick(rng, all), To: pick(rng, all), Amt: int64(1 + rng.Intn(3000))}
	}
}

func (g *Gen) call(module bool) *Op {
	rng := g.rng
	r := g.r
	s := r.snap
	a := r.a
	g.inCtr++
	o := &Op{Kind: "call", Tx: g.freshTx(), Idx: int64(rng.Intn(3)), Svc: pick(rng, svcAtoms), Cons: pick(rng, consumerAtoms), Input: g.inCtr, InputOK: !g.chance(0.03)}
	if g.lastTx != 0 && g.lastIdx < 6 && g.chance(0.2) {
		// a further MsgCallService of the SAME transaction: same hash, next message index
		o.Tx, o.Idx = g.lastTx, g.lastIdx+1
	}
	g.lastTx, g.lastIdx = o.Tx, o.Idx
	if module {
		o.Kind = "modcall"
		o.Mod = cbModAtom
		if g.chance(0.05) {
			o.Mod = 7002
		}
	}
	if !module && g.chance(g.k3) {
		// known finding K3: the module-service call path (off by default)
		o.Svc = 5
	}
	// services that have bindings
	bySvc := map[string][]int64{}
	availBySvc := map[string][]int64{}
	for k, b := range s.Binds {
		bySvc[k.Svc] = append(bySvc[k.Svc], a.atomOfAddr([]byte(k.Prov)))
		if b.Available {
			availBySvc[k.Svc] = append(availBySvc[k.Svc], a.atomOfAddr([]byte(k.Prov)))
		}
	}
	sortNames := func(m map[string][]int64) []string {
		var names []string
		for n, l := range m {
			names = append(names, n)
			sort.Slice(l, func(i, j int) bool { return l[i] < l[j] })
		}
		sort.Strings(names)
		return names
	}
	names := sortNames(bySvc)
	availNames := sortNames(availBySvc)
	promising := len(availNames) > 0 && o.Svc != 5 && g.chance(0.7)
	var pool []int64
	switch {
	case promising:
		n := availNames[rng.Intn(len(availNames))]
		// prefer services with several available bindings: multi-provider batches are what the
		// EndBlocker's grouping, the threshold and co-provider checks are about
		if g.chance(0.6) {
			for _, cand := range availNames {
				if len(availBySvc[cand]) > len(availBySvc[n]) {
					n = cand
				}
			}
		}
		o.Svc = a.atomOfSvc(n)
		pool = availBySvc[n]
	case len(names) > 0 && o.Svc != 5 && g.chance(0.9):
		n := names[rng.Intn(len(names))]
		o.Svc = a.atomOfSvc(n)
		pool = bySvc[n]
	case len(s.Defs) > 0 && o.Svc != 5 && g.chance(0.8):
		var defs []string
		for n := range s.Defs {
			if n != modSvc {
				defs = append(defs, n)
			}
		}
		sort.Strings(defs)
		if len(defs) > 0 {
			o.Svc = a.atomOfSvc(defs[rng.Intn(len(defs))])
		}
	}
	n := 1 + rng.Intn(3)
	if len(pool) >= 2 && g.chance(0.5) {
		n = 2 + rng.Intn(3)
	}
	seen := map[int64]bool{}
	for i := 0; i < n; i++ {
		var p int64
		if len(pool) > 0 && g.chance(0.85) {
			p = pool[rng.Intn(len(pool))]
		} else {
			p = pick(rng, g.provs())
		}
		if seen[p] && !g.chance(0.03) {
			continue
		}
		seen[p] = true
		o.Provs = append(o.Provs, p)
	}
	if g.chance(0.01) {
		o.Provs = nil
	}
	caps := []int64{1, 2, 10, 1000, 5000, 5000, 1000}
	o.Dep = CoinsArg{Kind: "B", Amt: caps[rng.Intn(len(caps))]}
	o.Timeout = int64(1 + rng.Intn(int(r.cfg.MaxTimeout)))
	if o.Timeout > 3 && g.chance(0.7) {
		o.Timeout = int64(1 + rng.Intn(3))
	}
	if promising {
		// terms under which the chosen providers are (mostly) eligible: timeout >= their response time,
		// cap around their price, a consumer who can (just, or just not) pay
		maxQoS, maxPrice, total := uint64(1), int64(1), int64(0)
		svc := a.svcName[o.Svc]
		for _, p := range o.Provs {
			b, ok := s.Binds[bindKey{svc, string(a.addr(p))}]
			if !ok || !b.Available {
				continue
			}
			if b.QoS > maxQoS {
				maxQoS = b.QoS
			}
			if base, ok := priceOfText(b.Pricing); ok && base.IsInt64() {
				x := base.Int64()
				if x < 1 {
					x = 1
				}
				if x > maxPrice {
					maxPrice = x
				}
				total += x
			}
		}
		if int64(maxQoS) <= r.cfg.MaxTimeout && g.chance(0.85) {
			o.Timeout = int64(maxQoS)
			if o.Timeout < r.cfg.MaxTimeout && g.chance(0.3) {
				o.Timeout++
			}
		}
		switch x := rng.Intn(10); {
		case x < 3:
			o.Dep.Amt = maxPrice
		case x < 4 && maxPrice > 1:
			o.Dep.Amt = maxPrice - 1
		case x < 5:
			o.Dep.Amt = maxPrice + 1
		default:
			o.Dep.Amt = 5000
		}
		if g.chance(0.75) {
			// prefer a consumer who can pay at least one batch
			var able []int64
			for _, c := range consumerAtoms {
				if r.w.balance(r.ctx, a.addr(c)).GTE(sdk.NewInt(total)) {
					able = append(able, c)
				}
			}
			if len(able) > 0 {
				o.Cons = able[rng.Intn(len(able))]
			}
		}
	}
	if g.chance(0.03) {
		o.Dep = CoinsArg{Kind: "E"}
	} else if g.chance(0.03) {
		o.Dep = CoinsArg{Kind: "X", Raw: "9atom"}
	}
	if g.chance(0.03) {
		o.Timeout = r.cfg.MaxTimeout + 1
	}
	if g.chance(0.01) {
		o.Timeout = 0
	}
	o.Super = g.chance(0.1)
	o.Rep = g.chance(0.55)
	if o.Rep || g.chance(0.1) {
		switch rng.Intn(5) {
		case 0:
			o.Freq = 0
		case 1, 2:
			o.Freq = uint64(o.Timeout)
		case 3:
			o.Freq = uint64(o.Timeout + 1 + int64(rng.Intn(3)))
		default:
			if o.Timeout > 1 && g.chance(0.5) {
				o.Freq = uint64(o.Timeout - 1)
			} else {
				o.Freq = uint64(o.Timeout)
			}
		}
		totals := []int64{1, 2, 3, -1, -1, 2}
		o.Total = totals[rng.Intn(len(totals))]
		if g.chance(0.02) {
			o.Total = 0
		}
		if g.chance(0.02) {
			o.Total = -2
		}
	}
	if module {
		o.Thr = int64(1 + rng.Intn(len(o.Provs)+1))
		if g.chance(0.05) {
			o.Thr = 0
		}
	}
	return o
}

func (g *Gen) respond() *Op {
	rng := g.rng
	r := g.r
	s := r.snap
	a := r.a
	g.outCtr++
	o := &Op{Kind: "respond", Code: 200, Out: g.outCtr, OutValid: true}
	var rid string
	act := append([]string{}, s.ActID...)
	sort.Strings(act)
	var all []string
	for k := range s.Reqs {
		all = append(all, k)
	}
	sort.Strings(all)
	switch {
	case len(act) > 0 && g.chance(0.88):
		rid = act[rng.Intn(len(act))]
		if g.chance(0.15) {
			// a pending request of a context that is no longer running (paused, killed)
			var odd []string
			for _, x := range act {
				if rc, ok := s.Ctxs[ridCtx(x)]; ok && (rc.State != types.RUNNING || rc.SuperMode) {
					odd = append(odd, x)
				}
			}
			if len(odd) > 0 {
				rid = odd[rng.Intn(len(odd))]
			}
		}
	case len(all) > 0 && g.chance(0.7):
		rid = all[rng.Intn(len(all))]
	default:
		// unknown or long expired id
		rid = string(reqID(g.freshTx(), 0, 1, r.height, 0))
		if len(g.r.hist.Ops) > 0 {
			for i := len(g.r.hist.Ops) - 1; i >= 0; i-- {
				if p := g.r.hist.Ops[i]; p.Kind == "respond" {
					rid = string(reqID(p.Tx, p.Idx, p.Batch, p.RHeight, p.RIndex))
					break
				}
			}
		}
	}
	b := []byte(rid)
	o.Tx, o.Idx = splitCtx(b[:40])
	o.Batch = ridBatch(rid)
	o.RHeight = int64(beU64(b[48:56]))
	o.RIndex = int64(int16(uint16(b[56])<<8 | uint16(b[57])))
	o.Who = pick(rng, g.provs())
	if q, ok := s.Reqs[rid]; ok && g.chance(0.92) {
		o.Who = a.atomOfAddr(q.Provider)
	}
	switch x := rng.Intn(100); {
	case x < 55:
	case x < 76:
		o.OutValid = false
	case x < 86:
		o.Code, o.Out = 400, 0
	case x < 93:
		o.Code, o.Out = 500, 0
	case x < 95:
		o.Code, o.Out = 200, 0 // stateless-invalid
	case x < 98:
		o.Code = 400 // stateless-invalid: output with an error code
	default:
		o.Code = 300 // not in the result schema
	}
	return o
}

func beU64(b []byte) uint64 {
	var x uint64
	for _, c := range b {
		x = x<<8 | uint64(c)
	}
	return x
}

func (g *Gen) ctxOp(forceModule bool) *Op {
	rng := g.rng
	r := g.r
	s := r.snap
	a := r.a
	ids := g.snapCtxs()
	o := &Op{Who: pick(rng, consumerAtoms)}
	var rc types.RequestContext
	have := false
	// contexts owned by a module are driven by that module through the keeper API (modupd, modpause,
	// modstart, modkill): a good part of the context ops while such contexts exist (about a quarter of all context ops). The keeper API is
	// never aimed at a context WITHOUT a module (no module would; wf_op excludes it).
	var modIDs []string
	for _, id := range ids {
		if s.Ctxs[id].ModuleName != "" {
			modIDs = append(modIDs, id)
		}
	}
	viaModule := len(modIDs) > 0 && (forceModule || g.chance(0.5))
	switch {
	case viaModule && g.chance(0.96):
		id := modIDs[rng.Intn(len(modIDs))]
		o.Tx, o.Idx = splitCtx([]byte(id))
		rc, have = s.Ctxs[id], true
		if g.chance(0.9) {
			o.Who = a.atomOfAddr(rc.Consumer)
		}
	case viaModule:
		o.Tx, o.Idx = g.freshTx(), 0 // no such context
	case len(ids) > 0 && g.chance(0.93):
		id := ids[rng.Intn(len(ids))]
		o.Tx, o.Idx = splitCtx([]byte(id))
		rc, have = s.Ctxs[id], true
		if g.chance(0.88) {
			o.Who = a.atomOfAddr(rc.Consumer)
		}
	default:
		o.Tx, o.Idx = g.freshTx(), 0
	}
	// weights (pause, start, kill, update) by the state of the target
	w := [4]int{3, 2, 1, 4}
	if have {
		switch {
		case rc.State == types.PAUSED:
			w = [4]int{1, 6, 1, 3}
		case rc.State == types.COMPLETED:
			w = [4]int{2, 3, 1, 4} // all of these must leave a completed context alone
		case rc.Repeated && rc.RepeatedTotal > 0 && int64(rc.BatchCounter) >= rc.RepeatedTotal:
			w = [4]int{6, 1, 2, 2} // last batch in flight: pause now, start after it expired
		case rc.Repeated && rc.BatchState == types.BATCHRUNNING:
			w = [4]int{3, 1, 3, 4} // batch in flight: kill / pause race with its answers and its expiry
		case rc.Repeated:
			w = [4]int{3, 1, 1, 4}
		case !rc.Repeated && rc.RepeatedTotal != 0:
			w = [4]int{5, 1, 5, 1} // a one-shot context that was given a total by an update is still one-shot
		default:
			w = [4]int{1, 1, 1, 5} // one-shot: pause / kill are refused; updates may give it a frequency and a total
		}
	}
	x := rng.Intn(w[0] + w[1] + w[2] + w[3])
	switch {
	case x < w[0]:
		o.Kind = "pause"
	case x < w[0]+w[1]:
		o.Kind = "start"
	case x < w[0]+w[1]+w[2]:
		o.Kind = "kill"
	default:
		o.Kind = "updctx"
		o.Dep = CoinsArg{Kind: "E"}
		if g.chance(0.3) {
			caps := []int64{1, 2, 10, 1000}
			o.Dep = CoinsArg{Kind: "B", Amt: caps[rng.Intn(len(caps))]}
		}
		if g.chance(0.3) {
			n := 1 + rng.Intn(3)
			seen := map[int64]bool{}
			var pool []int64
			if have {
				for _, k := range g.snapBindings() {
					if k.Svc == rc.ServiceName {
						pool = append(pool, a.atomOfAddr([]byte(k.Prov)))
					}
				}
			}
			for i := 0; i < n; i++ {
				p := pick(rng, g.provs())
				if len(pool) > 0 && g.chance(0.7) {
					p = pool[rng.Intn(len(pool))]
				}
				if !seen[p] {
					seen[p] = true
					o.Provs = append(o.Provs, p)
				}
			}
		}
		if g.chance(0.35) {
			o.Timeout = int64(1 + rng.Intn(int(r.cfg.MaxTimeout)+1))
		}
		if have && g.chance(0.65) {
			// mostly acceptable: a frequency not below the resulting timeout, a total not below the counter
			tout := rc.Timeout
			if o.Timeout > 0 {
				tout = o.Timeout
			}
			if o.Timeout > 0 || g.chance(0.4) || rc.RepeatedFrequency < uint64(tout) {
				o.Freq = uint64(tout) + uint64(rng.Intn(3))
			}
			if g.chance(0.4) {
				o.Total = int64(rc.BatchCounter) + int64(rng.Intn(3))
				if g.chance(0.25) {
					o.Total = -1
				}
			}
		} else {
			if g.chance(0.5) {
				o.Freq = uint64(1 + rng.Intn(6))
			}
			if g.chance(0.4) {
				totals := []int64{1, 2, 3, 5, -1}
				o.Total = totals[rng.Intn(len(totals))]
			}
		}
	}
	if viaModule {
		o.Kind = map[string]string{"pause": "modpause", "start": "modstart", "kill": "modkill", "updctx": "modupd"}[o.Kind]
		if o.Kind == "modupd" {
			// thresholds 0 (keep) .. 4: below, at and above the number of providers (given or kept)
			o.Thr = int64(rng.Intn(5))
			n := len(o.Provs)
			if n == 0 && have {
				n = len(rc.Providers)
			}
			if n > 0 && g.chance(0.5) {
				o.Thr = int64(1 + rng.Intn(n)) // acceptable, and mostly a change
			}
			if g.chance(0.3) {
				o.Thr = 0
			}
		}
	}
	return o
}

// funding for a generated history: owners rich, consumers of varied wealth.
func (g *Gen) funding() [][2]int64 {
	f := [][2]int64{}
	for _, o := range ownerAtoms {
		f = append(f, [2]int64{o, 50000000})
	}
	wealth := []int64{1000000, 3000, 25, 5, 0, 100}
	for _, c := range consumerAtoms {
		f = append(f, [2]int64{c, wealth[g.rng.Intn(len(wealth))]})
	}
	return f
}


// next draws the next op and, now and then, lets a party that has NO authority sign it although it is
// closely related to the rightful one: the binding's provider instead of its owner, the owner's
// withdrawal address instead of the owner.
func (g *Gen) next() *Op {
	o := g.next0()
	s := g.r.snap
	a := g.r.a
	switch o.Kind {
	case "update", "disable", "enable", "refunddep":
		if o.Prov != o.Owner && g.chance(0.06) {
			o.Owner = o.Prov
		}
	case "withdraw":
		if o.Prov != 0 && g.chance(0.1) {
			if ow, ok := s.Owners[string(a.addr(o.Prov))]; ok {
				if w, ok := s.Wd[ow]; ok && w != ow {
					o.Owner = a.atomOfAddr([]byte(w))
				}
			}
		}
	}
	return o
}
