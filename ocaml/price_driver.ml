(* The model side of the pure price stream.  Reads the lines
     PP <func> <args> = <result>
   written by harness/pure_price.go on stdin, evaluates <func> <args> with the
   functions extracted from coq/Model/Pricing.v and coq/Base/Dec.v, and prints
   the line with the model's result.  The result text of the input is ignored. *)
module BZ = Z
open Model

(* ---- numbers: decimal text <-> Coq Z through zarith (as in driver.ml) ---- *)
let rec pos_of_zt (n : BZ.t) : positive =
  if BZ.equal n BZ.one then XH
  else if BZ.is_even n then XO (pos_of_zt (BZ.shift_right n 1))
  else XI (pos_of_zt (BZ.shift_right n 1))

let z_of_zt (n : BZ.t) : z =
  if BZ.sign n = 0 then Z0
  else if BZ.sign n > 0 then Zpos (pos_of_zt n)
  else Zneg (pos_of_zt (BZ.neg n))

let rec zt_of_pos (p : positive) : BZ.t =
  match p with
  | XH -> BZ.one
  | XO q -> BZ.shift_left (zt_of_pos q) 1
  | XI q -> BZ.succ (BZ.shift_left (zt_of_pos q) 1)

let zt_of_z (n : z) : BZ.t =
  match n with Z0 -> BZ.zero | Zpos p -> zt_of_pos p | Zneg p -> BZ.neg (zt_of_pos p)

let zs (s : string) : z = z_of_zt (BZ.of_string s)
let sz (n : z) : string = BZ.to_string (zt_of_z n)

type toks = { mutable l : string list }
let next t = match t.l with x :: r -> t.l <- r; x | [] -> failwith "short line"
let nz t = zs (next t)

(* <price> <nT> (<start> <end> <disc>)* <nV> (<vol> <disc>)* *)
let npricing t : pricing =
  let price = nz t in
  let nt = int_of_string (next t) in
  let ts = List.init nt (fun _ -> let s = nz t in let e = nz t in let d = nz t in
                                   { pt_start = s; pt_end = e; pt_disc = d }) in
  let nv = int_of_string (next t) in
  let vs = List.init nv (fun _ -> let v = nz t in let d = nz t in { pv_vol = v; pv_disc = d }) in
  { pr_price = price; pr_time = ts; pr_vol = vs }

let eval (f : string) (t : toks) : string =
  match f with
  | "disc_time" -> let p = npricing t in let tm = nz t in sz (disc_time p.pr_time tm)
  | "disc_vol" -> let p = npricing t in let v = nz t in sz (disc_vol p.pr_vol v)
  | "validate" -> let p = npricing t in if validate_pricing p then "1" else "0"
  | "get_price" | "k_get_price" ->
      let p = npricing t in let tm = nz t in let v = nz t in sz (get_price p tm v)
  | "exch_price" | "k_exch_price" ->
      let p = npricing t in let tm = nz t in let v = nz t in sz (exchanged_price p tm v)
  | "mul_trunc" -> let n = nz t in let r = nz t in sz (mul_trunc n r)
  | "dmul" -> let a = nz t in let b = nz t in sz (dmul a b)
  | "dtrunc" -> let a = nz t in sz (dtrunc a)
  | "min_deposit" ->
      let price = nz t in let mult = nz t in let md = nz t in
      let cfg = { p_max_timeout = Z0; p_multiple = mult; p_min_deposit = md; p_tax = Z0;
                  p_slash = Z0; p_arb = Z0; p_compl = Z0; p_modsvc = Z0; p_cbmod = Z0 } in
      (match min_deposit cfg { pr_price = price; pr_time = []; pr_vol = [] } with
       | Ok m -> sz m
       | Err -> "error"
       | Panic -> "panic")
  | "parse" ->
      let raw = nz t in
      sz (parse_pricing { raw_price = raw; raw_time = []; raw_vol = [] }).pr_price
  | k -> failwith ("unknown function " ^ k)

let () =
  (try
     while true do
       let line = input_line stdin in
       match String.split_on_char ' ' line with
       | "PP" :: f :: rest ->
           (* the arguments are everything before "=" *)
           let rec split acc = function
             | "=" :: _ -> List.rev acc
             | x :: r -> split (x :: acc) r
             | [] -> failwith ("no '=' in: " ^ line) in
           let args = split [] rest in
           let t = { l = args } in
           let r = eval f t in
           if t.l <> [] then failwith ("trailing arguments in: " ^ line);
           print_string (String.concat " " ("PP" :: f :: args));
           print_string " = ";
           print_endline r
       | _ -> ()
     done
   with End_of_file -> ())
