(* Replays the ops of an implementation trace on the extracted model and prints
   the same observation groups in the same syntax. `O n setparams <max_timeout> <multiple> <min_deposit>
   <tax 1e18> <slash 1e18> <arb ns> <compl ns>` is a governance parameter change; the `params` query and
   the genesis export answer from the parameters in force. `M <provider atom> <result code> <output atom>
   <output valid>` is the module registered for the module service (its provider address and the fixed
   answer of its request function): a `call` whose service is the module service (`p_modsvc`) runs the
   module-service branch of the handler, `XCallMod` of Model/ModSvc.v (known finding K3, inside the model).
   Reads the trace on stdin, writes the model trace on stdout. Only H/P/A/M/F/Q/O/E lines are read. *)
module BZ = Z
open Model

(* ---- numbers: decimal text <-> Coq Z through zarith ---- *)
let rec pos_of_zt (n : BZ.t) : positive =
  if BZ.equal n BZ.one then XH
  else if BZ.is_even n then XO (pos_of_zt (BZ.shift_right n 1))
  else XI (pos_of_zt (BZ.shift_right n 1))

let z_of_zt (n : BZ.t) : z =
  if BZ.sign n = 0 then Z0
  else if BZ.sign n > 0 then Zpos (pos_of_zt n)
  else Zneg (pos_of_zt (BZ.neg n))

let rec zt_of_pos (p : positive) : BZ.t =
  match p with
  | XH -> BZ.one
  | XO q -> BZ.shift_left (zt_of_pos q) 1
  | XI q -> BZ.succ (BZ.shift_left (zt_of_pos q) 1)

let zt_of_z (n : z) : BZ.t =
  match n with Z0 -> BZ.zero | Zpos p -> zt_of_pos p | Zneg p -> BZ.neg (zt_of_pos p)

let zs (s : string) : z = z_of_zt (BZ.of_string s)
let sz (n : z) : string = BZ.to_string (zt_of_z n)
let zi (i : int) : z = z_of_zt (BZ.of_int i)

(* ---- token stream over one line ---- *)
type toks = { mutable l : string list }
let next t = match t.l with x :: r -> t.l <- r; x | [] -> failwith "short line"
let nz t = zs (next t)
let nb t = (next t) = "1"
let nlist t = let n = int_of_string (next t) in List.init n (fun _ -> nz t)

let ncoins t =
  match next t with
  | "E" -> CEmpty
  | "B" -> CBase (nz t)
  | _ -> COther

let npricing_body t =
  let raw = nz t in
  let nt = int_of_string (next t) in
  let ts = List.init nt (fun _ -> let s = nz t in let e = nz t in let d = nz t in
                                   { pt_start = s; pt_end = e; pt_disc = d }) in
  let nv = int_of_string (next t) in
  let vs = List.init nv (fun _ -> let v = nz t in let d = nz t in { pv_vol = v; pv_disc = d }) in
  { raw_price = raw; raw_time = ts; raw_vol = vs }

(* bind: N | P ... ; update: - | N | P ... *)
let npricing_bind t =
  match next t with
  | "P" -> Some (npricing_body t)
  | _ -> None

let npricing_upd t =
  match next t with
  | "-" -> None
  | "P" -> Some (Some (npricing_body t))
  | _ -> Some None

let parse_op (t : toks) : op option =
  match next t with
  | "define" -> let svc = nz t in let c = nz t in let ok = nb t in Some (ODefine (svc, c, ok))
  | "bind" ->
      let svc = nz t in let prov = nz t in let dep = ncoins t in let pr = npricing_bind t in
      let qos = nz t in let owner = nz t in let ok = nb t in
      Some (OBind (svc, prov, dep, pr, qos, owner, ok))
  | "update" ->
      let svc = nz t in let prov = nz t in let dep = ncoins t in let pr = npricing_upd t in
      let qos = nz t in let owner = nz t in let ok = nb t in
      Some (OUpdate (svc, prov, dep, pr, qos, owner, ok))
  | "disable" -> let svc = nz t in let prov = nz t in let o = nz t in let ok = nb t in
      Some (ODisable (svc, prov, o, ok))
  | "enable" -> let svc = nz t in let prov = nz t in let dep = ncoins t in let o = nz t in
      let ok = nb t in Some (OEnable (svc, prov, dep, o, ok))
  | "refunddep" -> let svc = nz t in let prov = nz t in let o = nz t in let ok = nb t in
      Some (ORefundDep (svc, prov, o, ok))
  | "setwd" -> let o = nz t in let a = nz t in let ok = nb t in Some (OSetWd (o, a, ok))
  | "call" ->
      let tx = nz t in let idx = nz t in let svc = nz t in let provs = nlist t in
      let cons = nz t in let input = nz t in let cap = ncoins t in let timeout = nz t in
      let sup = nb t in let rep = nb t in let freq = nz t in let total = nz t in
      let iok = nb t in let ok = nb t in
      Some (OCall ((tx, idx), svc, provs, cons, input, cap, timeout, sup, rep, freq, total, iok, ok))
  | "modcall" ->
      let tx = nz t in let idx = nz t in let svc = nz t in let provs = nlist t in
      let cons = nz t in let input = nz t in let cap = ncoins t in let timeout = nz t in
      let sup = nb t in let rep = nb t in let freq = nz t in let total = nz t in
      let thr = nz t in let md = nz t in let iok = nb t in
      Some (OModCall ((tx, idx), svc, provs, cons, input, cap, timeout, sup, rep, freq, total, thr, md, iok))
  | "respond" ->
      let tx = nz t in let idx = nz t in let b = nz t in let h = nz t in let i = nz t in
      let who = nz t in let code = nz t in let out = nz t in let ov = nb t in let ok = nb t in
      Some (ORespond (((((tx, idx), b), h), i), who, code, out, ov, ok))
  | "pause" -> let tx = nz t in let idx = nz t in let w = nz t in let ok = nb t in
      Some (OPause ((tx, idx), w, ok))
  | "start" -> let tx = nz t in let idx = nz t in let w = nz t in let ok = nb t in
      Some (OStart ((tx, idx), w, ok))
  | "kill" -> let tx = nz t in let idx = nz t in let w = nz t in let ok = nb t in
      Some (OKill ((tx, idx), w, ok))
  | "updctx" ->
      let tx = nz t in let idx = nz t in let w = nz t in let provs = nlist t in
      let cap = ncoins t in let timeout = nz t in let freq = nz t in let total = nz t in
      let ok = nb t in
      Some (OUpdateCtx ((tx, idx), w, provs, cap, timeout, freq, total, ok))
  | "withdraw" -> let o = nz t in let p = nz t in let ok = nb t in Some (OWithdraw (o, p, ok))
  | "transfer" -> let f = nz t in let to_ = nz t in let a = nz t in Some (OTransfer (f, to_, a))
  | "endblock" -> let dt = nz t in Some (OEndBlock dt)
  (* keeper API driven by the owning module: no ValidateBasic flag *)
  | "modupd" ->
      let tx = nz t in let idx = nz t in let w = nz t in let provs = nlist t in let thr = nz t in
      let cap = ncoins t in let timeout = nz t in let freq = nz t in let total = nz t in
      Some (OModUpdate ((tx, idx), w, provs, thr, cap, timeout, freq, total))
  | "modpause" -> let tx = nz t in let idx = nz t in let w = nz t in Some (OModPause ((tx, idx), w))
  | "modstart" -> let tx = nz t in let idx = nz t in let w = nz t in Some (OModStart ((tx, idx), w))
  | "modkill" -> let tx = nz t in let idx = nz t in let w = nz t in Some (OModKill ((tx, idx), w))
  | "query" | "export" -> None
  | k -> failwith ("unknown op " ^ k)

(* ---- printing ---- *)
(* (see below: query answers, property C17) *)
let b2i b = if b then "1" else "0"
let ctx_s ((tx, idx) : ctxId) = sz tx ^ " " ^ sz idx
let rid_s (((((c, b), h), i)) : reqId) = ctx_s c ^ " " ^ sz b ^ " " ^ sz h ^ " " ^ sz i
let list_s l = String.concat " " (string_of_int (List.length l) :: List.map sz l)

let promos_s (ts : promoT list) (vs : promoV list) =
  let b = Buffer.create 64 in
  Buffer.add_string b (" " ^ string_of_int (List.length ts));
  List.iter (fun p -> Buffer.add_string b (" " ^ sz p.pt_start ^ " " ^ sz p.pt_end ^ " " ^ sz p.pt_disc)) ts;
  Buffer.add_string b (" " ^ string_of_int (List.length vs));
  List.iter (fun p -> Buffer.add_string b (" " ^ sz p.pv_vol ^ " " ^ sz p.pv_disc)) vs;
  Buffer.contents b

let state_i = function Running -> "0" | Paused -> "1" | Completed -> "2"

let groups_order = ["bank"; "oblig"; "bind"; "index"; "ctx"; "queue"; "req"; "vol"; "cb"; "slash"]

let lines (atoms : z list) (s : state) (oldlog : int) : (string, string list) Hashtbl.t =
  let g : (string, string list) Hashtbl.t = Hashtbl.create 16 in
  let add grp l = Hashtbl.replace g grp (l :: (try Hashtbl.find g grp with Not_found -> [])) in
  List.iter (fun a -> if not (is_blocked a) then add "bank" ("bal " ^ sz a ^ " " ^ sz (bal s (User a)))) atoms;
  add "bank" ("bal -1 " ^ sz (bal s Escrow));
  add "bank" ("bal -2 " ^ sz (bal s Deposit));
  add "bank" ("bal -3 " ^ sz (bal s FeeColl));
  add "bank" ("supply " ^ sz s.supply);
  List.iter (fun (r, q) -> if q.r_active then add "oblig" ("act " ^ rid_s r ^ " " ^ sz q.r_fee)) s.reqs;
  List.iter (fun (p, e) -> add "oblig" ("earned " ^ sz p ^ " " ^ sz e)) s.earned;
  List.iter (fun (o, e) -> add "oblig" ("oearned " ^ sz o ^ " " ^ sz e)) s.own_earned;
  List.iter (fun ((svc, prov), b) ->
    add "bind" (Printf.sprintf "b %s %s %s %s %s %s %s %s%s" (sz svc) (sz prov) (sz b.b_deposit) (b2i b.b_avail)
      (sz b.b_dtime) (sz b.b_owner) (sz b.b_qos) (sz b.b_raw.raw_price) (promos_s b.b_raw.raw_time b.b_raw.raw_vol))) s.binds;
  List.iter (fun ((svc, prov), p) ->
    add "bind" (Printf.sprintf "pr %s %s %s%s" (sz svc) (sz prov) (sz p.pr_price) (promos_s p.pr_time p.pr_vol))) s.pricing0;
  List.iter (fun (svc, c) -> add "index" ("def " ^ sz svc ^ " " ^ sz c)) s.defs;
  List.iter (fun ((o, svc), p) -> add "index" ("ob " ^ sz o ^ " " ^ sz svc ^ " " ^ sz p)) s.own_bind;
  List.iter (fun (p, o) -> add "index" ("own " ^ sz p ^ " " ^ sz o)) s.owner_of;
  List.iter (fun (o, p) -> add "index" ("op " ^ sz o ^ " " ^ sz p)) s.own_prov;
  List.iter (fun (o, a) -> add "index" ("wd " ^ sz o ^ " " ^ sz a)) s.wdaddr;
  List.iter (fun (c, rc) ->
    add "ctx" (String.concat " " ["c"; ctx_s c; sz rc.c_svc; list_s rc.c_provs; sz rc.c_cons; sz rc.c_input; sz rc.c_cap;
      sz rc.c_timeout; b2i rc.c_super; b2i rc.c_rep; sz rc.c_freq; sz rc.c_total; sz rc.c_counter; sz rc.c_breq;
      sz rc.c_bresp; sz rc.c_bthr; b2i rc.c_bdone; state_i rc.c_state; sz rc.c_thr; sz rc.c_mod])) s.ctxs;
  List.iter (fun (h, c) -> add "queue" ("eq " ^ sz h ^ " " ^ ctx_s c)) s.expq;
  List.iter (fun (c, h) -> add "queue" ("eh " ^ ctx_s c ^ " " ^ sz h)) s.expq_h;
  List.iter (fun (h, c) -> add "queue" ("nq " ^ sz h ^ " " ^ ctx_s c)) s.newq;
  List.iter (fun (c, h) -> add "queue" ("nh " ^ ctx_s c ^ " " ^ sz h)) s.newq_h;
  List.iter (fun (r, q) ->
    let c = rid_ctx r in
    add "req" (String.concat " " ["rq"; rid_s r; sz q.r_prov; sz q.r_fee; sz (rid_height r); sz q.r_exp; ctx_s c; sz (rid_batch r)]);
    if q.r_active then begin
      let svc = (match get (eqDec_pair eqDec_Z eqDec_Z) c s.ctxs with Some rc -> sz rc.c_svc | None -> "?") in
      add "req" (String.concat " " ["ab"; svc; sz q.r_prov; sz q.r_exp; rid_s r]);
      add "req" ("ai " ^ rid_s r)
    end) s.reqs;
  List.iter (fun (r, x) ->
    add "req" (String.concat " " ["rs"; rid_s r; sz x.rs_prov; sz x.rs_cons; sz x.rs_code; sz x.rs_out; ctx_s (rid_ctx r); sz (rid_batch r)])) s.resps;
  List.iter (fun (((c, svc), p), n) -> add "vol" (String.concat " " ["v"; sz c; sz svc; sz p; sz n])) s.vols;
  Hashtbl.iter (fun k v -> Hashtbl.replace g k (List.sort compare v)) g;
  (* ordered groups: events of this step, oldest first *)
  let nlog = List.length s.log in
  let rec take n l = if n <= 0 then [] else match l with x :: r -> x :: take (n - 1) r | [] -> [] in
  let evs = List.rev (take (nlog - oldlog) s.log) in
  let cb = List.filter_map (function
    | EvCbResp (c, _, outs, err) -> Some ("cbr " ^ ctx_s c ^ " " ^ list_s outs ^ " " ^ b2i err)
    | EvCbState c -> Some ("cbs " ^ ctx_s c)
    | _ -> None) evs in
  let sl = List.filter_map (function
    | EvSlash (r, _, amt) -> Some ("sl " ^ rid_s r ^ " " ^ sz amt)
    | _ -> None) evs in
  Hashtbl.replace g "cb" cb;
  Hashtbl.replace g "slash" sl;
  g

(* ---- property C17: the `query` group ----
   `Q <step> <kind> <args>` lines (syntax: harness/queries.go) precede the `O <step> query`
   line; for each of them the gRPC and the legacy query function of Model/Queries.v is
   evaluated on the current state and printed as `g|l <kind> <args> = <answer>`. *)
let bind_fields (b : binding) =
  String.concat " " [sz b.b_deposit; b2i b.b_avail; sz b.b_dtime; sz b.b_owner; sz b.b_qos;
                     sz b.b_raw.raw_price ^ promos_s b.b_raw.raw_time b.b_raw.raw_vol]

let ctx_fields (rc : ctx) =
  String.concat " " [sz rc.c_svc; list_s rc.c_provs; sz rc.c_cons; sz rc.c_input; sz rc.c_cap;
    sz rc.c_timeout; b2i rc.c_super; b2i rc.c_rep; sz rc.c_freq; sz rc.c_total; sz rc.c_counter; sz rc.c_breq;
    sz rc.c_bresp; sz rc.c_bthr; b2i rc.c_bdone; state_i rc.c_state; sz rc.c_thr; sz rc.c_mod]

let req_fields (f : fullReq) =
  if f = zero_request then "zero" else
  String.concat " " [rid_s f.fr_id; sz f.fr_svc; sz f.fr_prov; sz f.fr_cons; sz f.fr_input; sz f.fr_fee;
    b2i f.fr_super; sz f.fr_height; sz f.fr_exp; ctx_s f.fr_ctx; sz f.fr_batch]

let resp_fields ((r, x) : reqId * resp) =
  String.concat " " [sz x.rs_prov; sz x.rs_cons; sz x.rs_code; sz x.rs_out; ctx_s (rid_ctx r); sz (rid_batch r)]

let ans_s (f : 'a -> string) (a : 'a ans) =
  match a with AOk x -> "ok " ^ f x | ANotFound -> "nf" | AErr -> "err"

let items_s sorted items =
  let items = if sorted then List.sort compare items else items in
  String.concat " | " (string_of_int (List.length items) :: items)

let query_lines (cfg : params) (s : state) (addr_ok : z -> bool) (kind : string) (t : toks) : string * string =
  let binds_s l = items_s true (List.map (fun ((svc, prov), b) -> sz svc ^ " " ^ sz prov ^ " " ^ bind_fields b) l) in
  let reqs_s l = items_s false (List.map req_fields l) in
  match kind with
  | "def" -> let svc = nz t in
      ans_s sz (q_definition s svc), ans_s sz (lq_definition s svc)
  | "bind" -> let svc = nz t in let p = nz t in
      ans_s bind_fields (q_binding s svc p), ans_s bind_fields (lq_binding (addr_ok p) s svc p)
  | "binds" -> let svc = nz t in let o = nz t in
      ans_s binds_s (q_bindings s svc o), ans_s binds_s (lq_bindings (o = Z0 || addr_ok o) s svc o)
  | "wd" -> let o = nz t in
      ans_s sz (q_withdraw_address s o), ans_s sz (lq_withdraw_address (addr_ok o) s o)
  | "ctx" -> let tx = nz t in let idx = nz t in
      ans_s ctx_fields (q_request_context s (tx, idx)), ans_s ctx_fields (lq_request_context s (tx, idx))
  | "req" -> let tx = nz t in let idx = nz t in let b = nz t in let h = nz t in let i = nz t in
      let r = ((((tx, idx), b), h), i) in
      ans_s req_fields (q_request s r), ans_s req_fields (lq_request s r)
  | "reqs" -> let svc = nz t in let p = nz t in
      ans_s reqs_s (q_requests s svc p), ans_s reqs_s (lq_requests (addr_ok p) s svc p)
  | "reqsctx" -> let tx = nz t in let idx = nz t in let b = nz t in
      ans_s reqs_s (q_requests_by_ctx s (tx, idx) b), ans_s reqs_s (lq_requests_by_ctx s (tx, idx) b)
  | "resp" -> let tx = nz t in let idx = nz t in let b = nz t in let h = nz t in let i = nz t in
      let r = ((((tx, idx), b), h), i) in
      ans_s (fun x -> resp_fields (r, x)) (q_response s r), ans_s (fun x -> resp_fields (r, x)) (lq_response s r)
  | "resps" -> let tx = nz t in let idx = nz t in let b = nz t in
      let f l = items_s false (List.map resp_fields l) in
      ans_s f (q_responses s (tx, idx) b), ans_s f (lq_responses s (tx, idx) b)
  | "fees" -> let p = nz t in
      let f l = String.concat " " (string_of_int (List.length l) :: List.map sz l) in
      ans_s f (q_earned_fees s p), ans_s f (lq_earned_fees (addr_ok p) s p)
  | "schema" -> let n = nz t in ans_s sz (q_schema n), ans_s sz (lq_schema n)
  | "params" ->
      let f (p : params) = String.concat " " [sz p.p_max_timeout; sz p.p_multiple; sz p.p_min_deposit; sz p.p_tax;
                                              sz p.p_slash; sz p.p_arb; sz p.p_compl] in
      ans_s f (q_params cfg), ans_s f (lq_params cfg)
  | k -> failwith ("unknown query kind " ^ k)
(* ---- group gen (property C19): printed on export steps only ---- *)
let ctx_line (c : ctxId) (rc : ctx) =
  String.concat " " ["c"; ctx_s c; sz rc.c_svc; list_s rc.c_provs; sz rc.c_cons; sz rc.c_input; sz rc.c_cap;
    sz rc.c_timeout; b2i rc.c_super; b2i rc.c_rep; sz rc.c_freq; sz rc.c_total; sz rc.c_counter; sz rc.c_breq;
    sz rc.c_bresp; sz rc.c_bthr; b2i rc.c_bdone; state_i rc.c_state; sz rc.c_thr; sz rc.c_mod]

let gen_lines (atoms : z list) (cfg : params) (s : state) : string list =
  let out = ref [] in
  let add l = out := l :: !out in
  let g1 = export_genesis cfg s in
  List.iter (fun (svc, c) -> add ("gdef " ^ sz svc ^ " " ^ sz c)) g1.g_defs;
  List.iter (fun ((svc, prov), b) ->
    add (Printf.sprintf "gb %s %s %s %s %s %s %s %s%s" (sz svc) (sz prov) (sz b.b_deposit) (b2i b.b_avail)
      (sz b.b_dtime) (sz b.b_owner) (sz b.b_qos) (sz b.b_raw.raw_price) (promos_s b.b_raw.raw_time b.b_raw.raw_vol))) g1.g_binds;
  List.iter (fun (o, a) -> add ("gwd " ^ sz o ^ " " ^ sz a)) g1.g_wd;
  List.iter (fun (c, rc) -> add ("g" ^ ctx_line c rc)) g1.g_ctxs;
  add ("gvalid " ^ b2i (validate_genesis g1));
  (* the JSON codec is outside the model: the property demands 1; the re-export after import
     is identical by C19_roundtrip, here recomputed *)
  add "gjson 1";
  if validate_genesis g1 then
    add ("gsame " ^ b2i (export_genesis cfg (import_genesis s.height s.time g1) = g1));
  (match zero_height_export cfg s with
   | None -> add "zpanic"
   | Some (s', g3) ->
     List.iter (fun a -> if not (is_blocked a) then add ("bal " ^ sz a ^ " " ^ sz (bal s' (User a)))) atoms;
     add ("bal -1 " ^ sz (bal s' Escrow));
     add ("bal -2 " ^ sz (bal s' Deposit));
     List.iter (fun (c, rc) -> add ("z" ^ ctx_line c rc)) s'.ctxs;
     add ("zvalid " ^ b2i (validate_genesis g3));
     add "zjson 1";
     add ("zsame " ^ b2i (export_genesis cfg (import_genesis s'.height s'.time g3) = g3));
     List.iter (fun (c, rc) -> add ("zg" ^ ctx_line c rc)) g3.g_ctxs;
     (match init_genesis s'.height s'.time g3 with
      | Ok si ->
        List.iter (fun ((o, svc), p) -> add ("iob " ^ sz o ^ " " ^ sz svc ^ " " ^ sz p)) si.own_bind;
        List.iter (fun (p, o) -> add ("iown " ^ sz p ^ " " ^ sz o)) si.owner_of;
        List.iter (fun (o, p) -> add ("iop " ^ sz o ^ " " ^ sz p)) si.own_prov;
        List.iter (fun ((svc, prov), p) ->
          add (Printf.sprintf "ipr %s %s %s%s" (sz svc) (sz prov) (sz p.pr_price) (promos_s p.pr_time p.pr_vol))) si.pricing0;
        add "imported 1"
      | _ -> add "imported 0"));
  List.sort compare !out

let () =
  let cfg = ref None and st = ref None and atoms = ref [] and funding = ref [] in
  let addr_len : (string, int) Hashtbl.t = Hashtbl.create 32 in
  let pending_q : string list ref = ref [] in
  let h0 = ref Z0 and t0 = ref Z0 in
  (* the registered module service: provider atom, result code, output atom, output valid *)
  let modsvc = ref (Z0, Z0, Z0, true) in
  let prev : (string, string) Hashtbl.t = Hashtbl.create 16 in
  let observe step oldlog =
    match !st with
    | None -> ()
    | Some s ->
      let g = lines (List.rev !atoms) s oldlog in
      List.iter (fun name ->
        let l = try Hashtbl.find g name with Not_found -> [] in
        let joined = String.concat "\n" l in
        let same = (try Hashtbl.find prev name = joined with Not_found -> false) in
        if not same then begin
          Hashtbl.replace prev name joined;
          Printf.printf "G %d %s %d\n" step name (List.length l);
          List.iter (fun x -> print_string "L "; print_string x; print_char '\n') l
        end) groups_order in
  let start () =
    match !st with
    | Some _ -> ()
    | None ->
      st := Some (init !h0 !t0 (List.rev !funding));
      observe (-1) 0 in
  (try
    while true do
      let line = input_line stdin in
      if String.length line > 1 then begin
        let t = { l = String.split_on_char ' ' line } in
        match next t with
        | "H" ->
            print_string line; print_char '\n';
            cfg := None; st := None; atoms := []; funding := []; Hashtbl.reset prev;
            Hashtbl.reset addr_len; pending_q := []; modsvc := (Z0, Z0, Z0, true)
        | "P" ->
            let mt = nz t in let mu = nz t in let md = nz t in let tax = nz t in let sl = nz t in
            let arb = nz t in let co = nz t in let ms = nz t in let cm = nz t in
            h0 := nz t; t0 := nz t;
            cfg := Some { p_max_timeout = mt; p_multiple = mu; p_min_deposit = md; p_tax = tax; p_slash = sl;
                          p_arb = arb; p_compl = co; p_modsvc = ms; p_cbmod = cm }
        | "A" ->
            let a = next t in
            let hex = (match t.l with h :: _ -> h | [] -> "") in
            Hashtbl.replace addr_len a (String.length hex / 2);
            atoms := zs a :: !atoms
        | "M" ->
            let p = nz t in let code = nz t in let out = nz t in let ov = nb t in
            modsvc := (p, code, out, ov)
        | "Q" -> start (); pending_q := line :: !pending_q
        | "F" -> let a = nz t in let amt = nz t in funding := (a, amt) :: !funding
        | "O" ->
            start ();
            let step_no = int_of_string (next t) in
            let kind = (match t.l with k :: _ -> k | [] -> "") in
            (* every op runs through the extracted machine `xstep` (Model/ModSvc.v): XP p = `pstep`
               (Model/ParamStep.v: PO o = `step` under the parameters in force; PSet c = governance parameter
               change); XCallMod = a `call` whose service is the module-registered one *)
            let pop = (match kind with
              | "setparams" ->
                  ignore (next t);
                  let mt = nz t in let mu = nz t in let md = nz t in let tax = nz t in let sl = nz t in
                  let arb = nz t in let co = nz t in
                  (* the two harness constants are kept by pstep (keep_consts); the values given here are ignored *)
                  Some (PSet { p_max_timeout = mt; p_multiple = mu; p_min_deposit = md; p_tax = tax; p_slash = sl;
                               p_arb = arb; p_compl = co; p_modsvc = Z0; p_cbmod = Z0 })
              | _ -> (match parse_op t with Some o -> Some (PO o) | None -> None)) in
            (match pop, !cfg, !st with
             | Some o, Some c, Some s ->
                 let oldlog = List.length s.log in
                 let xo = (match o with
                   | PO (OCall (id, svc, provs, cons, input, cap, timeout, sup, rep, freq, total, iok, ok))
                     when svc = c.p_modsvc ->
                       let (mp, code, mout, ov) = !modsvc in
                       XCallMod (id, svc, provs, cons, input, cap, timeout, sup, rep, freq, total, iok, ok,
                                 mp, code, mout, ov)
                   | _ -> XP o) in
                 let ((c', s'), out) = xstep (c, s) xo in
                 cfg := Some c';
                 st := Some s';
                 Printf.printf "R %d %s\n" step_no (match out with ROk -> "ok" | RErr -> "err" | RPanic -> "panic");
                 observe step_no oldlog
             | None, c, Some s ->
                 Printf.printf "R %d ok\n" step_no;
                 observe step_no (List.length s.log);
                 (match kind, c with
                  | "export", Some c ->
                      let l = gen_lines (List.rev !atoms) c s in
                      Printf.printf "G %d gen %d\n" step_no (List.length l);
                      List.iter (fun x -> print_string "L "; print_string x; print_char '\n') l
                  | _, Some c ->
                      let qs = List.rev !pending_q in
                      pending_q := [];
                      if qs <> [] then begin
                        let addr_ok a = (try Hashtbl.find addr_len (sz a) = 20 with Not_found -> false) in
                        Printf.printf "G %d query %d\n" step_no (2 * List.length qs);
                        List.iter (fun ql ->
                          match String.split_on_char ' ' ql with
                          | _ :: _ :: kind :: args ->
                              let head = String.concat " " (kind :: args) in
                              let (g, l) = query_lines c s addr_ok kind { l = args } in
                              Printf.printf "L g %s = %s\nL l %s = %s\n" head g head l
                          | _ -> failwith "bad Q line") qs
                      end
                  | _ -> ())
             | _ -> failwith "op before header")
        | "E" -> start (); print_string line; print_char '\n'
        | _ -> ()
      end
    done
  with End_of_file -> ())
