(* Pure-keys stream, model side.
   Reads the file written by `harness -mode purekeys` on stdin, and for every line
     K <function> <args...> = <whatever the implementation answered>
   evaluates the SAME call on the definitions extracted from coq/gen/KeysGen.v and
   coq/Model/Ids.v (module Keys) and prints  K <function> <args...> = <its own answer>.
   Everything after " = " in the input is dropped before evaluation: the answer printed
   is computed, never echoed.  B lines (real bech32 text of every address used) are
   echoed and instantiate [bech]; an address without a B line is a hard error.
   `diff` of input and output decides agreement. *)
module BZ = Z
open Keys

(* ---- numbers: decimal text <-> Coq N / Z through zarith ---- *)
let rec pos_of_zt (x : BZ.t) : positive =
  if BZ.equal x BZ.one then XH
  else if BZ.is_even x then XO (pos_of_zt (BZ.shift_right x 1))
  else XI (pos_of_zt (BZ.shift_right x 1))

let n_of_zt (x : BZ.t) : n =
  if BZ.sign x < 0 then failwith "negative N" else if BZ.sign x = 0 then N0 else Npos (pos_of_zt x)

let z_of_zt (x : BZ.t) : z =
  if BZ.sign x = 0 then Z0
  else if BZ.sign x > 0 then Zpos (pos_of_zt x)
  else Zneg (pos_of_zt (BZ.neg x))

let rec zt_of_pos (p : positive) : BZ.t =
  match p with
  | XH -> BZ.one
  | XO q -> BZ.shift_left (zt_of_pos q) 1
  | XI q -> BZ.succ (BZ.shift_left (zt_of_pos q) 1)

let zt_of_n (x : n) : BZ.t = match x with N0 -> BZ.zero | Npos p -> zt_of_pos p
let zt_of_z (x : z) : BZ.t =
  match x with Z0 -> BZ.zero | Zpos p -> zt_of_pos p | Zneg p -> BZ.neg (zt_of_pos p)

(* ---- byte strings: hex text ("-" = empty) <-> list of Coq N ---- *)
let byte_tbl : n array = Array.init 256 (fun i -> n_of_zt (BZ.of_int i))

let hexval c =
  match c with
  | '0' .. '9' -> Char.code c - 48
  | 'a' .. 'f' -> Char.code c - 87
  | _ -> failwith "bad hex digit"

let bytes_of_hex (s : string) : bytes =
  if s = "-" then []
  else begin
    let l = String.length s in
    if l mod 2 <> 0 then failwith "odd hex";
    List.init (l / 2) (fun i -> byte_tbl.((hexval s.[2 * i] * 16) + hexval s.[(2 * i) + 1]))
  end

let hex_of_bytes (b : bytes) : string =
  if b = [] then "-"
  else begin
    let buf = Buffer.create 64 in
    List.iter
      (fun x ->
        let v = BZ.to_int (zt_of_n x) in
        if v < 0 || v > 255 then failwith "model produced a byte out of range";
        Buffer.add_string buf (Printf.sprintf "%02x" v))
      b;
    Buffer.contents buf
  end

(* ---- bech, from the B lines ---- *)
let bech_tbl : (string, bytes) Hashtbl.t = Hashtbl.create 4096

let bech (a : bytes) : bytes =
  match Hashtbl.find_opt bech_tbl (hex_of_bytes a) with
  | Some t -> t
  | None -> failwith ("no B line for address " ^ hex_of_bytes a)

(* ---- argument readers ---- *)
let by = bytes_of_hex
let ri64 s = z_of_zt (BZ.of_string s)
let ru64 s = n_of_zt (BZ.of_string s)
let sn (x : n) = BZ.to_string (zt_of_n x)
let sz (x : z) = BZ.to_string (zt_of_z x)
let h = hex_of_bytes

let eval (fn : string) (a : string list) : string =
  match fn, a with
  | "GetServiceDefinitionKey", [ s ] -> h (getServiceDefinitionKey (by s))
  | "GetServiceBindingKey", [ s; p ] -> h (getServiceBindingKey bech (by s) (by p))
  | "GetOwnerServiceBindingKey", [ o; s; p ] -> h (getOwnerServiceBindingKey (by o) (by s) (by p))
  | "GetOwnerKey", [ p ] -> h (getOwnerKey (by p))
  | "GetOwnerProviderKey", [ o; p ] -> h (getOwnerProviderKey (by o) (by p))
  | "GetPricingKey", [ s; p ] -> h (getPricingKey bech (by s) (by p))
  | "GetWithdrawAddrKey", [ p ] -> h (getWithdrawAddrKey (by p))
  | "GetBindingsSubspace", [ s ] -> h (getBindingsSubspace (by s))
  | "GetOwnerBindingsSubspace", [ o; s ] -> h (getOwnerBindingsSubspace (by o) (by s))
  | "GetOwnerProvidersSubspace", [ o ] -> h (getOwnerProvidersSubspace (by o))
  | "GetRequestContextKey", [ c ] -> h (getRequestContextKey (by c))
  | "GetExpiredRequestBatchKey", [ c; ht ] -> h (getExpiredRequestBatchKey (by c) (ri64 ht))
  | "GetNewRequestBatchKey", [ c; ht ] -> h (getNewRequestBatchKey (by c) (ri64 ht))
  | "GetExpiredRequestBatchSubspace", [ ht ] -> h (getExpiredRequestBatchSubspace (ri64 ht))
  | "GetNewRequestBatchSubspace", [ ht ] -> h (getNewRequestBatchSubspace (ri64 ht))
  | "GetExpiredRequestBatchHeightKey", [ c ] -> h (getExpiredRequestBatchHeightKey (by c))
  | "GetNewRequestBatchHeightKey", [ c ] -> h (getNewRequestBatchHeightKey (by c))
  | "GetRequestKey", [ r ] -> h (getRequestKey (by r))
  | "GetRequestSubspaceByReqCtx", [ c; b ] -> h (getRequestSubspaceByReqCtx (by c) (ru64 b))
  | "GetActiveRequestKey", [ s; p; ht; r ] -> h (getActiveRequestKey bech (by s) (by p) (ri64 ht) (by r))
  | "GetActiveRequestSubspace", [ s; p ] -> h (getActiveRequestSubspace bech (by s) (by p))
  | "GetActiveRequestKeyByID", [ r ] -> h (getActiveRequestKeyByID (by r))
  | "GetActiveRequestSubspaceByReqCtx", [ c; b ] -> h (getActiveRequestSubspaceByReqCtx (by c) (ru64 b))
  | "GetRequestVolumeKey", [ c; s; p ] -> h (getRequestVolumeKey bech (by c) (by s) (by p))
  | "GetResponseKey", [ r ] -> h (getResponseKey (by r))
  | "GetResponseSubspaceByReqCtx", [ c; b ] -> h (getResponseSubspaceByReqCtx (by c) (ru64 b))
  | "GetEarnedFeesKey", [ p; d ] -> h (getEarnedFeesKey (by p) (by d))
  | "GetEarnedFeesSubspace", [ p ] -> h (getEarnedFeesSubspace (by p))
  | "GetOwnerEarnedFeesKey", [ o; d ] -> h (getOwnerEarnedFeesKey (by o) (by d))
  | "GetOwnerEarnedFeesSubspace", [ o ] -> h (getOwnerEarnedFeesSubspace (by o))
  | "GenerateRequestContextID", [ tx; i ] -> h (gen_ctx_id (by tx) (ri64 i))
  | "SplitRequestContextID", [ id ] -> (
      match split_ctx_id (by id) with
      | None -> "ERR"
      | Some (tx, i) -> h tx ^ " " ^ sz i)
  | "GenerateRequestID", [ c; b; ht; i ] -> h (gen_request_id (by c) (ru64 b) (ri64 ht) (ri64 i))
  | "SplitRequestID", [ id ] -> (
      match split_request_id (by id) with
      | None -> "ERR"
      | Some (((c, b), ht), i) -> h c ^ " " ^ sn b ^ " " ^ sz ht ^ " " ^ sz i)
  | _ -> failwith ("unknown function or wrong number of arguments: " ^ fn)

let () =
  let cases = ref 0 in
  (try
     while true do
       let line = input_line stdin in
       match String.split_on_char ' ' line with
       | [ "B"; a; t ] ->
           Hashtbl.replace bech_tbl (hex_of_bytes (by a)) (by t);
           print_string line;
           print_newline ()
       | "K" :: fn :: rest ->
           (* keep only the arguments: cut at the "=" token *)
           let rec args acc = function
             | "=" :: _ -> List.rev acc
             | x :: r -> args (x :: acc) r
             | [] -> failwith "K line without ="
           in
           let a = args [] rest in
           incr cases;
           print_string (String.concat " " ("K" :: fn :: a) ^ " = " ^ eval fn a);
           print_newline ()
       | _ -> failwith ("unrecognised line: " ^ line)
     done
   with End_of_file -> ());
  prerr_endline (Printf.sprintf "keys_driver: %d cases" !cases)
