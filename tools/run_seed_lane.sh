#!/bin/bash
# Runs seeded changes through tools/try_seed.sh in a private copy of /verif (so that the
# evidence and cache of /verif are not touched).
#   tools/run_seed_lane.sh <lane copy of /verif> <seed dir>=<tag> ...
# e.g. tools/run_seed_lane.sh /tmp/vlane1 /tmp/mut3-C01/seeds/1=C01-7 /verif/seeded/C02-3=C02-3
# Results: /verif/build/seedres/<tag>.json, replays under /verif/build/seedres/replays-<tag>/.
L=$1; shift
cd $L || exit 2
mkdir -p /verif/build/seedres
for st in "$@"; do
  d=${st%=*}; tag=${st#*=}
  [ -f /verif/build/seedres/$tag.json ] && continue
  echo "== $tag $(date +%T)"
  tools/try_seed.sh $d /verif/build/seedres/$tag.json
  mkdir -p /verif/build/seedres/replays-$tag; cp replays/* /verif/build/seedres/replays-$tag/ 2>/dev/null; rm -rf replays
done
echo LANEDONE
