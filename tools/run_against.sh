#!/bin/bash
# Runs the correspondence check (harness + model + compare) with the harness built
# against another checkout of the service module (a scratch worktree with a repair or
# a mutation). Never touches /repo or this tree's harness: works on a copy.
# usage: tools/run_against.sh <repo-dir> <tag> [n-histories] [seed] [explore|corpus]
set -e
cd "$(dirname "$0")/.."
ROOT=$(pwd)
REPO=$1; TAG=$2; N=${3:-500}; SEED=${4:-7}; MODE=${5:-explore}
export GOFLAGS=-mod=mod GOPROXY=off GOSUMDB=off GOTOOLCHAIN=local
W=/tmp/hq-$TAG
rm -rf "$W"; mkdir -p "$W"
cp harness/*.go harness/go.mod "$W"/
sed -i "s#github.com/irismod/service => /repo#github.com/irismod/service => $REPO#" "$W/go.mod"
cp "$REPO/go.sum" "$W/go.sum"
(cd "$W" && go build -o harness . )
"$W/harness" -mode "$MODE" -seed "$SEED" -n "$N" -out "$W/impl.trace" -summary "$W/sum.json"
"$ROOT/build/model" < "$W/impl.trace" > "$W/model.trace"
python3 "$ROOT/tools/compare.py" "$W/impl.trace" "$W/model.trace" > "$W/compare.txt" || true
python3 - "$W" <<'PY'
import json, sys, collections
w = sys.argv[1]
s = json.load(open(w + "/sum.json"))
c = collections.Counter()
first = {}
for v in (s["violations"] or []):
    if v["prop"] != "C17":
        c["(other) " + v["prop"]] += 1
        continue
    k = " ".join(v["detail"].split()[:3])
    c[k] += 1
    first.setdefault(k, v)
print("C17 evals:", {k: v for k, v in sorted(s["monitor_evals"].items()) if k.startswith("C17")})
print("monitor C17 failures:", sum(n for k, n in c.items() if not k.startswith("(other)")), " other monitors:", sum(n for k, n in c.items() if k.startswith("(other)")))
for k, n in c.most_common(12):
    f = first.get(k)
    print("  %6d  %s%s" % (n, k, ("   e.g. hist %d step %d: %s" % (f["hist"], f["step"], f["detail"][:160])) if f else ""))
lines = open(w + "/compare.txt").read().splitlines()
print(lines[0][:400])
g = collections.Counter()
ex = {}
for l in lines[1:-1]:
    m = json.loads(l)
    g[m["group"]] += 1
    ex.setdefault(m["group"], m)
print(lines[-1], dict(g))
for k, m in ex.items():
    print("  first %s mismatch: hist %d step %d op %s\n    impl  %s\n    model %s" % (k, m["hist"], m["step"], str(m["op"])[:60], str(m["impl"][:3])[:300], str(m["model"][:3])[:300]))
PY
