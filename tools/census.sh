#!/bin/bash
# C20 census tie: lists every potential runtime-panic / wrap-around site of the current
# source (Go AST walk, no line numbers) and compares the list with the committed
# baseline the model's Panic branches were written from.
# usage: tools/census.sh [REPO]        (default /repo)
# exit 0: identical, or only relocated / renamed; exit 2: soft differences (see tools/census_cmp.py);
# exit 1: new site classes of a dangerous kind (`CENSUS-DIFF` lines).
# After reviewing a difference, refresh the baseline (new records get class `unreviewed`):
#   translator/census/census -repo /repo -out translator/census/baseline.json -annot translator/census/baseline.json
set -e
cd "$(dirname "$0")/.."
export GOFLAGS=-mod=mod GOPROXY=off GOSUMDB=off GOTOOLCHAIN=local
REPO=${1:-/repo}
(cd translator && go build -o census/census ./census)
mkdir -p build
./translator/census/census -repo "$REPO" -out build/census_current.json > build/census_current.log || { cat build/census_current.log; exit 1; }
tail -1 build/census_current.log
exec python3 tools/census_cmp.py translator/census/baseline.json build/census_current.json
