#!/bin/bash
# C20 census tie: lists every potential runtime-panic / wrap-around site of the current
# source (Go AST walk, no line numbers) and compares the list with the committed
# baseline the model's Panic branches were written from.
# usage: tools/census.sh [REPO]        (default /repo)
# prints `CENSUS OK sites=<n> by-kind=<...> by-class=<...>` and exits 0, or
# `CENSUS-DIFF + <record>` / `CENSUS-DIFF - <record>` lines and exits 1.
# After reviewing a difference, refresh the baseline (new records get class `unreviewed`):
#   translator/census/census -repo /repo -out translator/census/baseline.json -annot translator/census/baseline.json
set -e
cd "$(dirname "$0")/.."
export GOFLAGS=-mod=mod GOPROXY=off GOSUMDB=off GOTOOLCHAIN=local
REPO=${1:-/repo}
(cd translator && go build -o census/census ./census)
exec ./translator/census/census -repo "$REPO" -check translator/census/baseline.json
