import sys
tag, root = sys.argv[1], sys.argv[2]
def rep(path, old, new, count=1):
    p = root + '/' + path
    s = open(p).read()
    assert s.count(old) >= 1, (tag, path, 'pattern not found')
    s = s.replace(old, new, count)
    open(p, 'w').write(s)
M = {
 # bindings of the wrong owner: by-owner listing scans the index of ALL owners
 'm1': lambda: rep('keeper/binding.go', 'iterator := sdk.KVStorePrefixIterator(store, types.GetOwnerBindingsSubspace(owner, serviceName))',
                   'iterator := sdk.KVStorePrefixIterator(store, types.OwnerServiceBindingKey)'),
 # gRPC Bindings drops the last element of the listing
 'm2': lambda: rep('keeper/grpc_query.go', '\treturn &types.QueryBindingsResponse{ServiceBindings: bindings}, nil',
                   '\tif len(bindings) > 0 {\n\t\tbindings = bindings[:len(bindings)-1]\n\t}\n\treturn &types.QueryBindingsResponse{ServiceBindings: bindings}, nil'),
 # gRPC Response: zero Response for an absent id instead of the error
 'm3': lambda: rep('keeper/grpc_query.go', '''	response, found := k.GetResponse(ctx, req.RequestId)
	if !found {
		return nil, sdkerrors.Wrap(types.ErrUnknownResponse, req.RequestId.String())
	}
''', '''	response, _ := k.GetResponse(ctx, req.RequestId)
'''),
 # GetRequest forgets the context join (service name, consumer, input, super mode left empty)
 'm4': lambda: rep('keeper/invocation.go', '''		requestContext.ServiceName,
		compactRequest.Provider,
		requestContext.Consumer,
		requestContext.Input,
		compactRequest.ServiceFee,
		requestContext.SuperMode,''', '''		"",
		compactRequest.Provider,
		nil,
		"",
		compactRequest.ServiceFee,
		false && requestContext.SuperMode,'''),
 # active requests of a binding: the scan prefix forgets the provider
 'm5': lambda: rep('types/keys.go', 'return append(append(ActiveRequestKey, getStringsKey([]string{serviceName, provider.String()})...), EmptyByte...)',
                   'return append(append(ActiveRequestKey, []byte(serviceName)...), EmptyByte...)'),
 # legacy Bindings ignores the owner
 'm6': lambda: rep('keeper/querier.go', '''	if params.Owner.Empty() {
		iterator := k.ServiceBindingsIterator(ctx, params.ServiceName)''', '''	if true {
		iterator := k.ServiceBindingsIterator(ctx, params.ServiceName)'''),
 # gRPC Responses returns the batch in reverse order
 'm7': lambda: rep('keeper/grpc_query.go', '\treturn &types.QueryResponsesResponse{Responses: responses}, nil',
                   '\tfor i, j := 0, len(responses)-1; i < j; i, j = i+1, j-1 {\n\t\tresponses[i], responses[j] = responses[j], responses[i]\n\t}\n\treturn &types.QueryResponsesResponse{Responses: responses}, nil'),
 # earned fees read by raw prefix again (revert of the read half of D6)
 'm8': lambda: rep('keeper/fees.go', '''		if !bytes.Equal(iterator.Key(), types.GetEarnedFeesKey(provider, balance.Denom)) {
			continue
		}

		fees = fees.Add(balance)''', '''		fees = fees.Add(balance)'''),
 # WithdrawAddress ignores the stored address
 'm9': lambda: rep('keeper/grpc_query.go', 'withdrawAddr := k.GetWithdrawAddress(ctx, req.Owner)', 'withdrawAddr := req.Owner\n\t_ = ctx'),
 # RequestsByReqCtx (both interfaces): prefix without the batch counter
 'm10': lambda: rep('keeper/invocation.go', 'return sdk.KVStorePrefixIterator(store, types.GetRequestSubspaceByReqCtx(requestContextID, batchCounter))',
                    'return sdk.KVStorePrefixIterator(store, types.GetRequestKey(requestContextID))'),
 # bindings of a service: scan prefix without the 0x00 separator ("a" also lists "ab", "ab-1")
 'm11': lambda: rep('types/keys.go', 'return append(append(ServiceBindingKey, []byte(serviceName)...), EmptyByte...)',
                    'return append(ServiceBindingKey, []byte(serviceName)...)'),
 # legacy context query returns the context with the batch counter of the previous batch
 'm12': lambda: rep('keeper/querier.go', '''	bz, err := codec.MarshalJSONIndent(legacyQuerierCdc, requestContext)''',
                    '''	requestContext.BatchResponseCount = 0
	bz, err := codec.MarshalJSONIndent(legacyQuerierCdc, requestContext)'''),
}
M[tag]()
