#!/bin/bash
# Mutation check of the C17 machinery. For <tag> in m1..m12: scratch worktree of /repo
# (+ build/D10.patch while D10 is not yet committed there), one mutation of the query
# code, harness COPY built against it, n histories (or the corpus), summary of which of
# monitor C17 / group `query` fires. The worktree is removed afterwards; /repo is never
# committed to.   usage: tools/c17_mutations/run.sh <tag> [n] [explore|corpus]
tag=$1; n=${2:-150}; mode=${3:-explore}
here=$(cd "$(dirname "$0")/../.." && pwd)
d=/tmp/repo-q-$tag
git -C /repo worktree remove --force $d >/dev/null 2>&1
git -C /repo worktree add $d HEAD >/dev/null 2>&1 || exit 1
(cd $d && { grep -q "ErrUnknownRequestContext, req.RequestContextId" keeper/grpc_query.go || git apply $here/build/D10.patch; } \
  && python3 $here/tools/c17_mutations/mutate.py $tag $d && git diff --stat | tail -1) || { git -C /repo worktree remove --force $d; exit 1; }
$here/tools/run_against.sh $d $tag $n 7 $mode 2>&1 | grep -v "^C17 evals\|^{\"histories" | cut -c1-330
git -C /repo worktree remove --force $d
