#!/bin/bash
# The pure price stream: runs the real pricing code (harness -mode pureprice) and
# the extracted model (build/price_model) on the same boundary enumeration plus
# seeded random cases, and compares the two line by line.
# usage: tools/pure_price.sh [-nobuild] [seed] [n_random]
# exit 0 iff the two streams are identical (and non-empty).
set -e
cd "$(dirname "$0")/.."
nobuild=0
if [ "$1" = "-nobuild" ]; then nobuild=1; shift; fi
seed=${1:-1}
n=${2:-2000}
export GOFLAGS=-mod=mod GOPROXY=off GOSUMDB=off GOTOOLCHAIN=local
mkdir -p build
if [ $nobuild = 0 ]; then
  if [ ! -f coq/Model/Step.vo ]; then tools/build.sh coq >/dev/null; fi
  tools/build.sh model >/dev/null
  tools/build.sh harness >/dev/null
fi
impl=build/pure_price.impl
model=build/pure_price.model
./harness/harness -mode pureprice -seed "$seed" -n "$n" -out "$impl" >/dev/null
./build/price_model < "$impl" > "$model"
cases=$(grep -c '^PP ' "$impl" || true)
mcases=$(grep -c '^PP ' "$model" || true)
echo "pure price stream: seed=$seed random=$n cases=$cases model_lines=$mcases"
cut -d' ' -f2 "$impl" | sort | uniq -c | awk '{printf "  %-14s %d\n", $2, $1}'
if [ "$cases" -eq 0 ]; then echo "PURE PRICE: EMPTY STREAM"; exit 1; fi
if cmp -s "$impl" "$model"; then
  echo "PURE PRICE: model and code agree on all $cases cases"
  exit 0
fi
ndiff=$(diff "$impl" "$model" | grep -c '^<' || true)
echo "PURE PRICE: DISAGREEMENT on $ndiff lines; first differences (< code, > model):"
diff "$impl" "$model" | head -20
exit 1
