#!/bin/bash
# usage: tools/mutrun.sh <repo-dir> [seed] [n]
# Builds a COPY of the harness (under /tmp/h-mut-<basename>) against the given repository tree
# and runs the corpus plus n generated histories; prints which monitors fired (K-tagged ones apart).
set -e
ROOT=$(cd "$(dirname "$0")/.." && pwd)
REPO=$1; SEED=${2:-5}; N=${3:-300}
export GOFLAGS=-mod=mod GOPROXY=off GOSUMDB=off GOTOOLCHAIN=local
H=/tmp/h-mut-$(basename "$REPO")
rm -rf "$H"; mkdir -p "$H"
cp "$ROOT"/harness/*.go "$ROOT"/harness/go.mod "$H"/
sed -i "s#github.com/irismod/service => /repo#github.com/irismod/service => $REPO#" "$H/go.mod"
cp "$REPO/go.sum" "$H/"
(cd "$H" && go build -o harness . )
"$H/harness" -mode corpus -out "$H/corpus.trace" -summary "$H/corpus.json" >/dev/null || true
"$H/harness" -mode explore -seed "$SEED" -n "$N" -out "$H/explore.trace" -summary "$H/explore.json" >/dev/null || true
python3 - "$H" <<'PY'
import json,sys,collections
H=sys.argv[1]
for name in ("corpus","explore"):
    d=json.load(open(f"{H}/{name}.json"))
    v=d.get("violations") or []
    real=[x for x in v if not (len(x["detail"])>3 and x["detail"][0]=="K" and x["detail"][2]==":")]
    props=collections.Counter(x["prop"] for x in real)
    hist=collections.defaultdict(set)
    for x in real: hist[x["prop"]].add((x["hist"],x["name"]))
    print(f"{name}: histories={d['histories']} violations={len(real)} (+{len(v)-len(real)} K-tagged)")
    for p in sorted(props):
        ex=next(x for x in real if x["prop"]==p)
        names=sorted({n for _,n in hist[p] if n!="gen"})
        print(f"   {p}: {props[p]} in {len(hist[p])} histories {names if names else ''}  e.g. h{ex['hist']} step {ex['step']}: {ex['detail'][:150]}")
PY
