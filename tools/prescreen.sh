#!/bin/bash
# Quick look at a seeded change WITHOUT the Coq stage: applies <seed dir>/patch.diff to a scratch worktree of
# /repo, builds the harness against it (in THIS copy of /verif: run it in a lane copy, it overwrites harness/harness),
# runs the corpus and one exploration, the extracted model and the comparer, and prints which properties' monitors
# fire (known-finding tags removed) and which correspondence groups differ. Not a verdict: ./check is.
#   tools/prescreen.sh <seed dir> <tag>
set -u
cd "$(dirname "$0")/.."
export GOFLAGS=-mod=mod GOPROXY=off GOSUMDB=off GOTOOLCHAIN=local
SEED=$(realpath "$1"); TAG=$2
W=/tmp/prescreen-$$
git -C /repo worktree add -q --detach $W HEAD || exit 2
trap 'git -C /repo worktree remove --force $W >/dev/null 2>&1; rm -rf $W /tmp/ps-$$' EXIT
(cd $W && git apply "$SEED/patch.diff") || { echo "$TAG patch-does-not-apply"; exit 0; }
VERIF_REPO=$W tools/build.sh harness >/dev/null 2>&1 || { echo "$TAG harness-build-failed"; exit 0; }
T=/tmp/ps-$$; mkdir -p $T/h
for part in corpus explore; do
  if [ $part = corpus ]; then A="-mode corpus -firstid 900000"; else A="-mode explore -seed 1 -n 320 -minops 20 -maxops 90 -firstid 1000"; fi
  timeout 900 ./harness/harness $A -out $T/$part.trace -summary $T/$part.json -histdir $T/h > $T/$part.log 2>&1
  ./build/model < $T/$part.trace > $T/$part.model 2>/dev/null
  python3 tools/compare.py $T/$part.trace $T/$part.model > $T/$part.cmp 2>/dev/null
done
python3 - $T $TAG <<'PY'
import json,re,sys,collections
T,tag=sys.argv[1:]
props=collections.Counter(); groups=collections.Counter()
for part in ("corpus","explore"):
    try: s=json.load(open("%s/%s.json"%(T,part)))
    except Exception as e: print(tag, part, "no summary", e); continue
    for v in s.get("violations") or []:
        if not re.match(r"K\d:", v["detail"]): props[v["prop"]]+=1
    for l in open("%s/%s.cmp"%(T,part)):
        l=l.strip()
        if l.startswith('{"hist"'):
            m=json.loads(l)
            if not re.search(r"-K\d+-", m.get("name") or ""): groups[m["group"]]+=1
print(tag, "monitors:", dict(props), "mismatch-groups:", dict(groups))
PY
