#!/bin/bash
# Runs every claimed check against a behaviour-preserving change WITHOUT touching /repo:
#   tools/try_refactor.sh <dir with patch.diff, meta.json> <out.json>
# expected: the patch applies, builds, the repository's suite passes, and every check prints OK.
set -u
cd "$(dirname "$0")/.."
export GOFLAGS=-mod=mod GOPROXY=off GOSUMDB=off GOTOOLCHAIN=local
SRC=$(realpath "$1"); OUT=$2
PROPS=$(python3 -c "import json;print(' '.join(c['property_id'] for c in json.load(open('MANIFEST.json'))['checks']))")
W=/tmp/rftry-$$
git -C /repo worktree add -q --detach $W HEAD || exit 2
trap 'git -C /repo worktree remove --force $W >/dev/null 2>&1; rm -rf $W' EXIT
(cd $W && git apply "$SRC/patch.diff"); A=$?
(cd $W && go build ./... > $W/build.log 2>&1); B=$?
(cd $W && go test -vet=off -count=1 ./... > $W/suite.log 2>&1); S=$?
RES="{"
for p in $PROPS; do
  line=$(VERIF_REPO=$W ./check $p 2>&1 | grep -E "^(VIOLATION|OK)" | tr '\n' ';' | sed 's/"/\\"/g')
  RES="$RES\"$p\": \"$line\","
done
RES="${RES%,}}"
python3 - "$OUT" "$A" "$B" "$S" "$RES" <<'PY'
import sys, json
out, a, b, s, res = sys.argv[1:]
r = {"patch_applies": a == "0", "builds": b == "0", "suite_passes": s == "0", "checks": json.loads(res)}
r["alarms"] = sorted(p for p, l in r["checks"].items() if "VIOLATION" in l)
json.dump(r, open(out, "w"), indent=1)
print(json.dumps({k: r[k] for k in ("patch_applies", "builds", "suite_passes", "alarms")}))
PY
mkdir -p "${OUT%.json}-replays"; cp replays/* "${OUT%.json}-replays/" 2>/dev/null; rm -rf replays
