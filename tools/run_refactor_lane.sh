#!/bin/bash
# Runs behaviour-preserving rewrites through tools/try_refactor.sh in a private copy of /verif.
#   tools/run_refactor_lane.sh <lane copy of /verif> <out dir> <dir with patch.diff>=<tag> ...
L=$1; OUT=$2; shift 2
cd $L || exit 2
mkdir -p $OUT
for st in "$@"; do
  d=${st%=*}; tag=${st#*=}
  [ -f $OUT/$tag.json ] && continue
  echo "== $tag $(date +%T)"
  tools/try_refactor.sh $d $OUT/$tag.json
done
echo LANEDONE
