#!/bin/bash
# Demonstrates what the C20 census (tools/census.sh) sees, on scratch copies of /repo
# under build/demo (never edits /repo). Exits 0 iff every case behaves as stated.
#  a  add an unchecked `deposit[0]` in validateDeposit        -> CENSUS-DIFF + index
#  b  remove the `len(deposit) != 1` guard (no site removed)   -> CENSUS-DIFF - lenguard only
#  c  add `panic(err)` on an EndBlocker path                  -> CENSUS-DIFF + panic
#  d  reformat, comment, rename locals outside site exprs     -> CENSUS OK
#  e  move two functions to a new file of the same package    -> CENSUS OK (+ CENSUS-NOTE moved)
set -e
cd "$(dirname "$0")/.."
export GOFLAGS=-mod=mod GOPROXY=off GOSUMDB=off GOTOOLCHAIN=local
(cd translator && go build -o census/census ./census)
rm -rf build/demo && mkdir -p build/demo
for d in a b c d e; do rsync -a --exclude .git /repo/ build/demo/$d/; done
python3 - <<'PY'
base = 'build/demo/'
def edit(path, old, new, count=1):
    s = open(path).read()
    assert old in s, (path, old)
    open(path, 'w').write(s.replace(old, new, count))
edit(base+'a/keeper/binding.go', "\tbaseDenom := k.BaseDenom(ctx)\n\n\tif len(deposit) != 1 {",
     "\tbaseDenom := k.BaseDenom(ctx)\n\t_ = deposit[0].Amount\n\n\tif len(deposit) != 1 {")
edit(base+'b/keeper/binding.go',
     "\tif len(deposit) != 1 {\n\t\treturn sdkerrors.Wrapf(types.ErrInvalidDeposit, \"deposit only accepts %s\", baseDenom)\n\t}\n\n\ttoken, err :=",
     "\ttoken, err :=")
edit(base+'c/abci.go', "\t\t\t_ = k.Slash(ctx, requestID)\n",
     "\t\t\tif err := k.Slash(ctx, requestID); err != nil {\n\t\t\t\tpanic(err)\n\t\t\t}\n")
edit(base+'d/abci.go', "stateJSON", "js", 99)
edit(base+'d/abci.go', "requestsJSON", "rj", 99)
edit(base+'d/abci.go', "\t\tstr := strings.Split(provider, \".\")\n\t\tif len(str) != 2 {\n\t\t\tcontinue\n\t\t}",
     "\t\t// split <service>.<provider>\n\t\tstr := strings.Split(\n\t\t\tprovider,\n\t\t\t\".\",\n\t\t)\n\n\n\t\tif len(str) != 2 { continue }")
edit(base+'d/abci.go', "sdk.NewAttribute(types.AttributeKeyServiceName, str[0]),",
     "sdk.NewAttribute(\n\t\t\t\t\ttypes.AttributeKeyServiceName,\n\t\t\t\t\tstr[ 0 ],\n\t\t\t\t),")
p = base+'e/keeper/binding.go'
s = open(p).read()
i = s.rindex("\n//", 0, s.index("func (k Keeper) getMinDeposit(")) + 1
open(p, 'w').write(s[:i])
hdr = s[:s.index(")\n", s.index("import (")) + 2]
open(base+'e/keeper/deposit.go', 'w').write(hdr + "\n" + s[i:])
PY
fail=0
expect() { # case, exit code, grep pattern that must match, grep pattern that must not
  set +e; out=$(./translator/census/census -repo build/demo/$1 -check translator/census/baseline.json); rc=$?; set -e
  echo "== demo $1 (exit $rc)"; echo "$out" | cut -c1-220
  [ $rc -eq $2 ] || { echo "UNEXPECTED exit code"; fail=1; }
  echo "$out" | grep -q "$3" || { echo "MISSING: $3"; fail=1; }
  if [ -n "$4" ] && echo "$out" | grep -q "$4"; then echo "UNEXPECTED: $4"; fail=1; fi
}
expect a 1 'CENSUS-DIFF + .*"func":"(Keeper).validateDeposit","kind":"index","expr":"deposit\[0\]"' 'CENSUS-DIFF - '
expect b 1 'CENSUS-DIFF - .*"kind":"lenguard","expr":"len(deposit)!=1"' 'CENSUS-DIFF + '
expect c 1 'CENSUS-DIFF + .*"func":"EndBlocker","kind":"panic","expr":"panic(err)"' 'CENSUS-DIFF - '
expect d 0 '^CENSUS OK' 'CENSUS-'
expect e 0 '^CENSUS OK' 'CENSUS-DIFF'
[ $fail -eq 0 ] && echo "CENSUS DEMO OK" || { echo "CENSUS DEMO FAILED"; exit 1; }
