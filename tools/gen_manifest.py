#!/usr/bin/env python3
"""Writes /verif/MANIFEST.json. A property is claimed iff coq/Properties/<id>.v exists;
the others are listed under not_applicable with the reason given in PENDING."""
import json, os, sys
ROOT = os.path.dirname(os.path.dirname(os.path.abspath(__file__)))

# id -> (technique, level text, level note, design ref)
T = {
 "C01": ("Coq inductive invariant over all histories of the model (escrow = pending fees + earnings) + differential correspondence of the extracted model with the real handler/EndBlocker on groups bank, oblig; also proved for histories with governance parameter changes (ReachP, C01_escrow_backed_param_changes)",
         "Proof (Coq): C01_escrow_backed is an invariant of every reachable state of the Gallina state machine, for all op sequences, amounts and legal parameter sets, also between the per-context handlers inside EndBlock. The model is tied to /repo by running the extracted model and the real code on the same generated histories and comparing balances, active-request fees and earned-fee records after every step; an implementation-only monitor recomputes the equality from raw store scans to find concrete failing histories.",
         "Trusted: Coq kernel, extraction (ExtrOcamlBasic), harness + comparer, host guarantees of DESIGN 3.5; K3 (module-service call path) is a recorded known finding; the path is inside the model as the operation XCallMod on top of step/pstep (DESIGN 12.10): compared with the code on W10, W10b..W10h and a shard of generated histories, excluded from the theorems over Reach/ReachP by the predicate k3_free, refuted on the model by C01_K3_escrow_refuted.", "7 C01"),
}

DEFAULT_NOTE = "Trusted: Coq 8.16.1 kernel, extraction (ExtrOcamlBasic only), OCaml driver, Go harness + comparer, translator for the key layer; host guarantees and exclusions of DESIGN.md 3.5; glue of DESIGN.md 3.6 is modelled, not verified."

GENERIC = {
 "C02": "Coq trace theorems over the ledger-event log of every reachable state (Reach_T: each request id issued at most once; exactly one of earn+tax / refund / nothing per request, to the issuing consumer or the addressed provider, amounts tax = floor(fee*rate)) + per-handler debit-equals-issued-fees + correspondence on bank, oblig, req + settlement monitor",
 "C03": "Coq invariant for all reachable states (deposit account = sum of binding deposits, all balances >= 0, supply = sum of balances; no stored withdrawal address is a module account, which is what keeps withdrawn earnings out of the custody account) + per-step theorems (refund iff unavailable, non-zero and waiting period over; deposits only grow by owner-paid amounts; slash burns exactly the amount) + correspondence on bank, bind",
 "C04": "Coq trace theorems (slash at most once per request, only with a time-out of a paid request or a malformed answer, every such failure slashes) + per-call slash specification (amount = floor(deposit*fraction), deposit/account/supply reduced, auto-disable iff below minimum) + correspondence on bind, bank, slash + slash-event monitor",
 "C05": "Coq per-handler authority theorems (success implies the rightful signer; module-created contexts cannot be driven by messages), wrong signer => state unchanged, only the signer is debited (bounded), EndBlock debits only consumers of due running contexts + correspondence on res, bank + wrong-signer stream",
 "C06": "Coq exact case analysis of the new-batch handler (not running / total reached / skipped / paused for funds / issued to exactly the eligible providers in order, fee = filter price <= cap, consumer debited the sum) incl. the whole-EndBlock version + correspondence on req, ctx, bank + independent recomputation monitor; histories include governance parameter changes (op setparams; corpus witness W18: QoS above the timeout after the maximum request timeout was lowered)",
 "C07": "Coq theorems on the pricing functions (window and tier selection, fee formula and bounds, exact-floor characterisation, consumer charge = stored fee) + pure price stream against the real sdk.Dec / keeper code + correspondence on req, vol, bank + recomputation-from-published-text monitor",
 "C08": "Coq theorems: a valid response of the provider to an active request is always accepted, everything else rejected without effect, once only, records survive every message and every EndBlock before the expiry height and are gone after it + correspondence on res, req + history-based acceptance monitor",
 "C09": "Coq step relation on context records (the only message-induced changes are pause/start/kill/update/respond with their exact effect; static fields never change; completed is final) and record-shape invariant for reachable states + correspondence on ctx, res + transition monitor",
 "C10": "Coq invariants (one-shot <= 1 batch, counter <= total, no overlapping batches), cadence lemmas L1-L4 and trace theorem C10_cadence (consecutive batch starts of an undisturbed context are exactly `frequency` apart) + correspondence on ctx, queue + cadence monitor",
 "C11": "Coq scheduling invariant for reachable states (queue entries <=> pointers, never both queues, entries only for existing contexts and never in the past, a running context always has a pending event; every stored request has its expiry queued) + correspondence on queue, req, ctx",
 "C12": "Coq invariants on batch counts (recorded counts = stored records while the expiry is pending), completion exactly at the last response or at expiry, trace theorem callback-once-per-batch with the exact outputs and error flag, state callback exactly on pause-for-funds + correspondence on ctx, req, cb",
 "C13": "Coq invariant (owner earnings = sum of its providers' earnings, every earning has an owner) and withdraw specifications (exact payout, destination, records zeroed, nothing else touched) + correspondence on oblig, bank, index + key-scan exactness from the regenerated key layer",
 "C14": "Coq invariant (available => deposit >= max(min deposit, price*multiple) for the price parsed from the published text) + rejection lemmas for bind/update/enable + slash auto-disable + correspondence on bind, res + pure price stream; under parameter changes inside a history the invariant is proved for every change that does not raise the minimum (ReachP_Inv, Inv_relax), raising it is refuted by a concrete reachable state (C14_tighten_min_deposit_refuted), and generated histories contain such changes (op setparams)",
 "C15": "Coq invariants on definitions/bindings/indexes (binding <=> index entries <=> parsed pricing; owner write-once; definitions immutable) + step stability theorems + correspondence on index, bind, res",
 "C16": "Coq invariant (every request/response/marker belongs to the current batch of an existing context with a pending expiry; a context without pending expiry has no records) + cleanup and finished-context-removed theorems + correspondence on req, ctx",
 "C17": "Coq refinement of every query code path (gRPC and legacy) to a comprehension over the state, hypotheses discharged for reachable states + differential check of all queries on sampled existing/non-existing arguments against raw store scans and the extracted model",
 "C18": "Coq theorems over the key layer regenerated from types/keys.go on every run (injectivity per family, family disjointness, exactness of every prefix scan, refutations where a scan is not exact) and over the ID functions (length, round trip, injectivity) + pure key stream (50k cases) against the real functions, carrying the key monitor (implementation-only search for two calls with equal key bytes / a subspace matching a foreign record, on the domains of the theorems, with crafted boundary-shift, bech32-extension and prefix-related arguments: the failing input of a key-layer change is a replayable pair of calls)",
 "C19": "Coq theorems (hypotheses discharged from the invariant for every reachable state; the chain restarted from the imported zero-height genesis satisfies the invariant again, exactly when no one-shot context was in flight, and keeps it) on the modelled export / zero-height preparation / import (every pending fee to its consumer, every earning to its provider, escrow emptied, contexts reset, export validates, export-import-export round trip, indexes rebuilt) + differential check of the real export-validate-JSON-import pipeline into a second app",
 "C20": "Coq theorem that no message handler and no call inside EndBlock reaches a Panic branch or a dropped error from a reachable state (under the recorded exclusions X-K1 and X-K6, each with a refutation witness and an input-only form; supply never increases; every amount the module adds or compares is below 2^255 when the genesis supply is) + panic-site census of the source against a reviewed baseline + double replay in fresh app instances comparing store digests after every step",
}

PENDING = "theorem file coq/Properties/%s.v is not in the tree yet (in progress this session); no check is registered until it is"

def main():
    props = [json.loads(l) for l in open(os.path.join(ROOT, "properties.jsonl"))]
    checks, na = [], []
    for p in props:
        pid = p["id"]
        if not os.path.exists(os.path.join(ROOT, "coq", "Properties", pid + ".v")):
            na.append({"property_id": pid, "reason": PENDING % pid})
            continue
        if pid in T:
            tech, text, note, ref = T[pid]
        else:
            tech, text, note, ref = GENERIC[pid], "Proof (Coq) about the Gallina model: " + GENERIC[pid] + ". The theorems quantify over all histories/inputs of the model; the model is tied to the code by the correspondence check (and the regenerated key layer), which together with implementation-only monitors searches for a concrete failing history when an obligation breaks.", DEFAULT_NOTE, "7 " + pid
        checks.append({
            "property_id": pid,
            "quick_cmd": "./check %s --tier quick" % pid,
            "thorough_cmd": "./check %s --tier thorough" % pid,
            "evidence_file": "/verif/evidence/%s.json" % pid,
            "replay_cmd_template": "./check %s --replay {path}" % pid,
            "engine": "coq+correspondence",
            "level_claimed": {"category": "proof", "text": text, "design_ref": "DESIGN.md section " + ref},
            "level_note": note,
            "technique": tech,
        })
    m = {
        "version": 1,
        "setup_cmd": "tools/build.sh all",
        "hooks": {
            "guard": "verif",
            "enable": "n/a: no source hooks; the harness is an external Go module (/verif/harness) with `replace github.com/irismod/service => /repo`, rebuilt from the working tree on every run",
            "baseline_off_cmd": "cd /repo && go test -vet=off -count=1 ./...",
            "source_commits": [],
            "add_only": True,
        },
        "engines": [{"name": "coq+correspondence", "path": "/verif/check",
                     "serves_properties": [c["property_id"] for c in checks],
                     "kind_free_text": "Coq 8.16.1 development (coq/), key layer regenerated by translator/, extracted model (ocaml/) replayed against the real module by harness/, per-property verdict by ./check"}],
        "checks": checks,
        "not_applicable": na,
        "notes": "All checks share one pipeline run per (tree, seed, tier), cached under /verif/.cache keyed by a content hash of /repo's working tree and the framework sources. Known findings: /verif/KNOWN_FINDINGS.txt.",
    }
    json.dump(m, open(os.path.join(ROOT, "MANIFEST.json"), "w"), indent=1)
    print("claimed:", [c["property_id"] for c in checks], "pending:", len(na))

if __name__ == "__main__":
    main()
