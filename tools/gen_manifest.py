#!/usr/bin/env python3
"""Writes /verif/MANIFEST.json. A property is claimed iff coq/Properties/<id>.v exists;
the others are listed under not_applicable with the reason given in PENDING."""
import json, os, sys
ROOT = os.path.dirname(os.path.dirname(os.path.abspath(__file__)))

# id -> (technique, level text, level note, design ref)
T = {
 "C01": ("Coq inductive invariant over all histories of the model (escrow = pending fees + earnings) + differential correspondence of the extracted model with the real handler/EndBlocker on groups bank, oblig",
         "Proof (Coq): C01_escrow_backed is an invariant of every reachable state of the Gallina state machine, for all op sequences, amounts and legal parameter sets, also between the per-context handlers inside EndBlock. The model is tied to /repo by running the extracted model and the real code on the same generated histories and comparing balances, active-request fees and earned-fee records after every step; an implementation-only monitor recomputes the equality from raw store scans to find concrete failing histories.",
         "Trusted: Coq kernel, extraction (ExtrOcamlBasic), harness + comparer, host guarantees of DESIGN 3.5; K3 (module-service call path) is outside the model and a recorded known finding.", "7 C01"),
}

DEFAULT_NOTE = "Trusted: Coq 8.16.1 kernel, extraction (ExtrOcamlBasic only), OCaml driver, Go harness + comparer, translator for the key layer; host guarantees and exclusions of DESIGN.md 3.5; glue of DESIGN.md 3.6 is modelled, not verified."

GENERIC = {
 "C02": "trace theorems over the model's ledger-event log (each request settled at most once, to the right party) + correspondence on bank, oblig, req + settlement monitor",
 "C03": "Coq invariant (deposit account = sum of binding deposits) and per-step deposit-change / refund-iff specifications + correspondence on bank, bind",
 "C04": "Coq per-step slash specification (amount = floor(deposit*fraction), burn, auto-disable) and trace characterisation of slash events + correspondence on bind, bank, slash",
 "C05": "Coq per-handler authority theorems (success implies rightful signer; only the signer is debited) + correspondence on res, bank + wrong-signer stream",
 "C06": "Coq functional specification of the new-batch handler (eligible set, cap, threshold, pause) + correspondence on req, ctx, bank + independent recomputation monitor",
 "C07": "Coq theorems on the pricing functions (discount selection, fee formula, bounds, consumer charge = stored fee) + pure price stream against the real sdk.Dec code + correspondence on req, vol, bank",
 "C08": "Coq invariants on request life time (answerable until the EndBlock of the expiry height, once, by the provider) + correspondence on res, req",
 "C09": "Coq step relation on context records (allowed transitions, static fields, completed is final) + correspondence on ctx, res",
 "C10": "Coq invariants (one-shot <= 1 batch, counter <= total, no overlapping batches) and cadence lemmas + correspondence on ctx, queue",
 "C11": "Coq scheduling invariant (queue entries and pointers agree, running contexts always have exactly one pending event) + correspondence on queue, req, ctx",
 "C12": "Coq invariants on batch counts/completion and trace theorem on callbacks + correspondence on ctx, req, cb",
 "C13": "Coq invariant (owner earnings = sum of its providers' earnings) and withdraw specifications + correspondence on oblig, bank, index + key-scan exactness from the regenerated key layer",
 "C14": "Coq invariant (available => deposit >= minimum for the stored price) + rejection lemmas + correspondence on bind, res + pure price stream",
 "C15": "Coq invariants on definitions/bindings/indexes (unique, stable, consistently indexed) + correspondence on index, bind, res",
 "C16": "Coq invariant (no orphan request/response/marker records; finished contexts removed) + correspondence on req, ctx",
 "C17": "Coq refinement of every query code path to a comprehension over the state + differential check of all gRPC and legacy queries against raw store scans and the model",
 "C18": "Coq theorems over the key layer regenerated from types/keys.go on every run (injectivity, family disjointness, scan exactness) and over the ID functions + pure key stream against the real functions",
 "C19": "Coq theorems on the modelled export / zero-height preparation / import (refunds exact, escrow emptied, round trip) + differential check of the real export-validate-JSON-import pipeline",
 "C20": "Coq theorem that no handler or EndBlock reaches a Panic branch from a reachable state + panic-site census of the source + double replay in separate app instances comparing store digests",
}

PENDING = "theorem file coq/Properties/%s.v is not in the tree yet (in progress this session); no check is registered until it is"

def main():
    props = [json.loads(l) for l in open(os.path.join(ROOT, "properties.jsonl"))]
    checks, na = [], []
    for p in props:
        pid = p["id"]
        if not os.path.exists(os.path.join(ROOT, "coq", "Properties", pid + ".v")):
            na.append({"property_id": pid, "reason": PENDING % pid})
            continue
        if pid in T:
            tech, text, note, ref = T[pid]
        else:
            tech, text, note, ref = GENERIC[pid], "Proof (Coq) about the Gallina model: " + GENERIC[pid] + ". The theorems quantify over all histories/inputs of the model; the model is tied to the code by the correspondence check (and the regenerated key layer), which together with implementation-only monitors searches for a concrete failing history when an obligation breaks.", DEFAULT_NOTE, "7 " + pid
        checks.append({
            "property_id": pid,
            "quick_cmd": "./check %s --tier quick" % pid,
            "thorough_cmd": "./check %s --tier thorough" % pid,
            "evidence_file": "/verif/evidence/%s.json" % pid,
            "replay_cmd_template": "./check %s --replay {path}" % pid,
            "engine": "coq+correspondence",
            "level_claimed": {"category": "proof", "text": text, "design_ref": "DESIGN.md section " + ref},
            "level_note": note,
            "technique": tech,
        })
    m = {
        "version": 1,
        "setup_cmd": "tools/build.sh all",
        "hooks": {
            "guard": "verif",
            "enable": "n/a: no source hooks; the harness is an external Go module (/verif/harness) with `replace github.com/irismod/service => /repo`, rebuilt from the working tree on every run",
            "baseline_off_cmd": "cd /repo && go test -vet=off -count=1 ./...",
            "source_commits": [],
            "add_only": True,
        },
        "engines": [{"name": "coq+correspondence", "path": "/verif/check",
                     "serves_properties": [c["property_id"] for c in checks],
                     "kind_free_text": "Coq 8.16.1 development (coq/), key layer regenerated by translator/, extracted model (ocaml/) replayed against the real module by harness/, per-property verdict by ./check"}],
        "checks": checks,
        "not_applicable": na,
        "notes": "All checks share one pipeline run per (tree, seed, tier), cached under /verif/.cache keyed by a content hash of /repo's working tree and the framework sources. Known findings: /verif/KNOWN_FINDINGS.txt.",
    }
    json.dump(m, open(os.path.join(ROOT, "MANIFEST.json"), "w"), indent=1)
    print("claimed:", [c["property_id"] for c in checks], "pending:", len(na))

if __name__ == "__main__":
    main()
