#!/usr/bin/env python3
"""Relocation- and renaming-insensitive comparison of a census of the source with the reviewed baseline.
usage: census_cmp.py <baseline.json> <current.json>
Exit 0 and `CENSUS OK …` if the records are identical, or if they differ only in WHERE the sites are or in
how local variables are named: every site is abstracted to (package, kind, expression with local identifiers
replaced by `_`). Exit 1 (broken obligation) if an abstract class of kind panic / assert / coinsub / div occurs
MORE often than in the baseline. Exit 2 (soft difference: recorded, triggers the extended panic
search, not an alarm by itself) if only classes of the other kinds were added or length-guard classes got fewer —
that is what helper extraction, named constants and merged duplicate checks do. `CENSUS-DIFF` lines say which."""
import sys, json, re, collections

KEEP = {"len", "cap", "nil", "true", "false", "int", "int16", "int32", "int64", "uint", "uint16", "uint32", "uint64",
        "string", "byte", "make", "append", "panic", "new", "float64", "map", "range", "func", "struct", "interface"}
TOK = re.compile(r"[A-Za-z_][A-Za-z0-9_]*|\s+|.", re.S)


PKGS = {"k", "sdk", "types", "sdkerrors", "gogotypes", "binary", "json", "bytes", "strings", "time", "fmt", "tmbytes",
        "hex", "math", "big", "sort", "errors"}


def abstract(expr):
    """local identifiers -> `_`; kept: selected names (after '.'), called names (before '('), exported names,
    builtins / basic types, package qualifiers and the keeper receiver `k`"""
    toks = [t for t in TOK.findall(expr) if not t.isspace()]
    out = []
    for i, t in enumerate(toks):
        if not re.match(r"[A-Za-z_]", t):
            out.append(t)
            continue
        nxt = toks[i + 1] if i + 1 < len(toks) else ""
        prv = toks[i - 1] if i > 0 else ""
        if prv == "." or nxt == "(" or t in KEEP or t[0].isupper() or (nxt == "." and t in PKGS):
            out.append(t)
        else:
            out.append("_")
    return "".join(out)


def load(path):
    j = json.load(open(path))
    recs = []
    for key in ("sites", "guards"):
        for r in j.get(key) or []:
            recs.append(r)
    return recs


def main():
    base, cur = load(sys.argv[1]), load(sys.argv[2])
    ident = lambda r: (r["pkg"], r["func"], r["kind"], r["expr"], r.get("occurrence", 1))
    if collections.Counter(map(ident, base)) == collections.Counter(map(ident, cur)):
        print("CENSUS OK identical records=%d" % len(cur))
        return 0
    ab = lambda r: (r["pkg"], r["kind"], abstract(r["expr"]))
    cb, cc = collections.Counter(map(ab, base)), collections.Counter(map(ab, cur))
    # kinds whose new occurrences are a broken obligation by themselves: they are what the model's Panic branches and
    # the determinism argument were written from, and behaviour-preserving rewrites practically never add one
    HARD = {"panic", "assert", "coinsub", "coinsub?", "div", "div?"}
    hard, soft = [], []
    for k in sorted(set(cb) | set(cc)):
        pkg, kind, e = k
        if kind == "lenguard":
            if cc[k] < cb[k]:
                soft.append("CENSUS-DIFF(soft) - guard class %s x%d (baseline x%d)" % (json.dumps(k), cc[k], cb[k]))
        elif cc[k] > cb[k]:
            (hard if kind in HARD else soft).append("CENSUS-DIFF%s + site class %s x%d (baseline x%d)" % (
                "" if kind in HARD else "(soft)", json.dumps(k), cc[k], cb[k]))
    moved = sum((collections.Counter(map(ident, cur)) - collections.Counter(map(ident, base))).values())
    for l in hard + soft:
        print(l)
    if hard:
        print("CENSUS DIFFERS new site classes of kind panic/assert/coinsub/div: %d (soft differences: %d; moved or renamed records: %d)" % (len(hard), len(soft), moved))
        return 1
    if soft:
        print("CENSUS SOFT-DIFF %d classes (index/slice/mapiter/must/conv/bigarith/sdkpanic/nilcall sites added or length guards merged); moved or renamed records: %d -> extended panic search" % (len(soft), moved))
        return 2
    print("CENSUS OK relocated/renamed records=%d of %d; no new site class, no guard class lost" % (moved, len(cur)))
    return 0


if __name__ == "__main__":
    sys.exit(main())
