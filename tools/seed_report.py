#!/usr/bin/env python3
"""Collects confirmed seeded changes into /verif/seeded/<prop>-<n>/ and prints the catches table.
usage: seed_report.py   (reads build/seedres/<prop>-<n>.json and, while they exist, the seeding worktrees
/tmp/mut-<prop> (n 1-3), /tmp/mut2-<prop> (n 4-6), /tmp/mut3-<prop> (n 7-9), /tmp/mut4-<prop> (n 10-11); afterwards seeded/<prop>-<n>/ itself)"""
import json, os, glob, shutil, re
ROOT = os.path.dirname(os.path.dirname(os.path.abspath(__file__)))
rows = []
for rp in sorted(glob.glob(os.path.join(ROOT, "build", "seedres", "C*-*.json")), key=lambda x: (os.path.basename(x)[:3], int(os.path.basename(x)[4:-5]))):
    tag = os.path.basename(rp)[:-5]
    prop, n = tag.split("-")
    k = int(n)
    src = ("/tmp/mut-%s/seeds/%d" % (prop, k) if k <= 3 else
           "/tmp/mut2-%s/seeds/%d" % (prop, k - 3) if k <= 6 else
           "/tmp/mut3-%s/seeds/%d" % (prop, k - 6) if k <= 9 else
           "/tmp/mut4-%s/seeds/%d" % (prop, k - 9))
    r = json.load(open(rp))
    confirmed = all(r.get(k) for k in ("demo_passes_pristine", "patch_applies", "builds", "suite_passes", "demo_fails_with_change"))
    dst = os.path.join(ROOT, "seeded", tag)
    meta = {}
    if os.path.isdir(src):
        try:
            meta = json.load(open(src + "/meta.json"))
        except (OSError, ValueError):
            meta = {}
        if confirmed:
            os.makedirs(dst, exist_ok=True)
            shutil.copy(src + "/patch.diff", dst + "/patch.diff")
            shutil.copy(src + "/demo_test.go", dst + "/demo_test.go")
    elif os.path.exists(dst + "/meta.json"):
        meta = json.load(open(dst + "/meta.json"))
    if confirmed and os.path.isdir(dst):
        m = {
            "property": prop, "summary": meta.get("summary", ""), "needs": meta.get("needs", ""),
            "files": meta.get("files", []), "author": "independent sub-agent given only the property text and a scratch worktree",
            "confirmed_by_lead": {
                "how": "tools/try_seed.sh: scratch worktree of /repo HEAD; demo (copied to seeddemo/) passes pristine; git apply patch.diff; go build ./...; go test -vet=off -count=1 on the repository packages passes; demo fails",
                **{k: r[k] for k in ("demo_passes_pristine", "patch_applies", "builds", "suite_passes", "demo_fails_with_change")}},
            "checks_run": "VERIF_REPO=<scratch> ./check <id> for every claimed property (quick tier, seed 1)",
            "caught_by_own_property": prop in r.get("caught_by", []),
            "caught_with_concrete_replay": r.get("caught_with_replay", []),
            "reported_no_failing_input_found": sorted(set(r.get("caught_by", [])) - set(r.get("caught_with_replay", []))),
            "verdict_lines": {p: l for p, l in r.get("checks", {}).items() if "VIOLATION" in l},
        }
        json.dump(m, open(dst + "/meta.json", "w"), indent=1)
    rows.append((tag, confirmed, prop in r.get("caught_by", []), prop in r.get("caught_with_replay", []),
                 r.get("caught_with_replay", []), (meta.get("summary") or "")[:110]))
print("| seed | confirmed | own check alarms | with concrete replay | properties with concrete replay | change |")
print("|---|---|---|---|---|---|")
for tag, c, a, w, wr, s in rows:
    print("| %s | %s | %s | %s | %s | %s |" % (tag, "yes" if c else "NO", "yes" if a else "NO", "yes" if w else "no", " ".join(wr), s.replace("|", "/")))
print("\n%d seeds, %d confirmed, %d alarmed by own property's check, %d with a concrete replay for the own property" % (
    len(rows), sum(r[1] for r in rows), sum(r[2] for r in rows), sum(r[3] for r in rows)))
