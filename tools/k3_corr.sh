#!/bin/bash
# Correspondence on generated histories that contain module-service calls (known finding K3 inside the model,
# DESIGN.md 12.10): explore with -k3 P, replay on the extracted model (xstep), compare every group on every step.
# usage: tools/k3_corr.sh [seed=1] [histories=320] [k3 probability=0.3] [shards=8]
# Prints one line per shard, the monitor violations by (property, tag) and `K3-CORR mismatches=<n>`; exit 1 if n > 0.
set -e
cd "$(dirname "$0")/.."
export GOFLAGS=-mod=mod GOPROXY=off GOSUMDB=off GOTOOLCHAIN=local
seed=${1:-1}; n=${2:-320}; p=${3:-0.3}; shards=${4:-8}
out=build/k3corr; rm -rf $out; mkdir -p $out
per=$(( (n + shards - 1) / shards ))
for i in $(seq 0 $((shards - 1))); do
  ( ./harness/harness -mode explore -k3 $p -seed $((seed * 977 + i)) -n $per -minops 30 -maxops 80 -firstid $((i * per)) \
      -out $out/impl_$i.trace -summary $out/sum_$i.json > $out/run_$i.log 2>&1 \
    && ./build/model < $out/impl_$i.trace > $out/model_$i.trace 2> $out/model_$i.err \
    && python3 tools/compare.py $out/impl_$i.trace $out/model_$i.trace > $out/cmp_$i.txt ) &
done
wait
python3 - $out $shards <<'PY'
import sys, json, collections
out, shards = sys.argv[1], int(sys.argv[2])
mism, hist, steps, k3calls, k3ok = 0, 0, 0, 0, 0
viol = collections.Counter()
first = []
for i in range(shards):
    try:
        lines = open("%s/cmp_%d.txt" % (out, i)).read().splitlines()
    except OSError:
        print("shard %d failed: %s" % (i, open("%s/run_%d.log" % (out, i)).read()[-300:])); mism += 1; continue
    st = json.loads(lines[0]); hist += st["histories"]; steps += st["steps"]
    ms = [json.loads(l) for l in lines[1:-1]]
    mism += len(ms); first += ms[:3]
    sj = json.load(open("%s/sum_%d.json" % (out, i)))
    for v in sj.get("violations") or []:
        viol[(v["prop"], v["detail"][:3] if v["detail"][:1] == "K" else "-")] += 1
    for l in open("%s/impl_%d.trace" % (out, i)):
        if l.startswith("O ") and " call " in l:
            f = l.split()
            if f[2] == "call" and f[5] == "5":
                k3calls += 1; k3 = f[1]
        elif l.startswith("R ") and 'k3' in dir() and k3 is not None:
            if l.split()[1] == k3 and l.split()[2] == "ok": k3ok += 1
            k3 = None
    print("shard %d: %s" % (i, lines[-1]))
print("histories=%d steps=%d module-service calls=%d accepted=%d" % (hist, steps, k3calls, k3ok))
for k, n in sorted(viol.items()): print("monitor %s %s %d" % (k[0], k[1], n))
for m in first[:6]: print("MISMATCH", json.dumps(m)[:900])
print("K3-CORR mismatches=%d" % mism)
sys.exit(1 if mism else 0)
PY
