#!/usr/bin/env python3
"""Joins an implementation trace and a model trace on (history, step, group)."""
import sys, json
from collections import defaultdict

GROUPS = ["res", "bank", "oblig", "bind", "index", "ctx", "queue", "req", "vol", "cb", "slash", "query", "gen"]
# groups that exist only on the steps where they are written (not carried forward)
STEP_ONLY = {"query", "gen"}

def parse(path):
    """yield (hist_id, name, header_lines, ops{step:line}, res{step:res}, groups{step:{group:[lines]}}, viol[(step,prop,detail)])"""
    hist = None
    cur = None
    with open(path) as f:
        for line in f:
            line = line.rstrip("\n")
            if not line:
                continue
            tag, _, rest = line.partition(" ")
            if tag == "H":
                parts = rest.split(" ")
                hist = {"id": int(parts[0]), "seed": parts[1], "cfg": parts[2], "name": " ".join(parts[3:]),
                        "ops": {}, "res": {}, "groups": defaultdict(dict), "viol": [], "head": [line]}
                cur = None
            elif hist is None:
                continue
            elif tag in ("P", "A", "F"):
                hist["head"].append(line)
            elif tag == "O":
                step, _, op = rest.partition(" ")
                hist["ops"][int(step)] = op
            elif tag == "R":
                step, _, r = rest.partition(" ")
                hist["res"][int(step)] = r
            elif tag == "G":
                step, group, n = rest.split(" ")
                cur = []
                hist["groups"][int(step)][group] = cur
            elif tag == "L":
                cur.append(rest)
            elif tag == "V":
                step, prop, detail = (rest.split(" ", 2) + ["", ""])[:3]
                hist["viol"].append((int(step), prop, detail))
            elif tag == "E":
                yield hist
                hist = None

def compare(impl_path, model_path, max_report=50):
    """returns (stats, mismatches). A mismatch: dict(hist, name, step, group, impl, model, op)."""
    mism = []
    stats = {"histories": 0, "steps": 0, "group_comparisons": defaultdict(int)}
    mi = parse(model_path)
    for h in parse(impl_path):
        m = next(mi, None)
        if m is None or m["id"] != h["id"]:
            mism.append({"hist": h["id"], "name": h["name"], "step": -2, "group": "trace", "impl": [], "model": [],
                         "op": "model trace ends early or out of step"})
            break
        stats["histories"] += 1
        steps = sorted(h["ops"].keys())
        stats["steps"] += len(steps)
        ci, cm = {}, {}
        bad = set()
        for step in [-1] + steps:
            ci.update(h["groups"].get(step, {}))
            cm.update(m["groups"].get(step, {}))
            if step >= 0:
                stats["group_comparisons"]["res"] += 1
                if h["res"].get(step) != m["res"].get(step) and "res" not in bad:
                    bad.add("res")
                    mism.append({"hist": h["id"], "name": h["name"], "step": step, "group": "res",
                                 "impl": [h["res"].get(step)], "model": [m["res"].get(step)], "op": h["ops"].get(step)})
            for g in GROUPS[1:]:
                if g in bad:
                    continue
                if g in STEP_ONLY:
                    gi, gm = h["groups"].get(step, {}), m["groups"].get(step, {})
                    if g not in gi and g not in gm:
                        continue
                    stats["group_comparisons"][g] += 1
                    stats["group_comparisons"][g + ".lines"] = stats["group_comparisons"].get(g + ".lines", 0) + len(gi.get(g, []))
                    a, b = gi.get(g, ["<group missing>"]), gm.get(g, ["<group missing>"])
                else:
                    stats["group_comparisons"][g] += 1
                    a, b = ci.get(g, []), cm.get(g, [])
                if a != b:
                    bad.add(g)
                    sa, sb = set(a), set(b)
                    mism.append({"hist": h["id"], "name": h["name"], "step": step, "group": g,
                                 "impl": [x for x in a if x not in sb][:8], "model": [x for x in b if x not in sa][:8],
                                 "op": h["ops"].get(step)})
    stats["group_comparisons"] = dict(stats["group_comparisons"])
    return stats, mism

if __name__ == "__main__":
    stats, mism = compare(sys.argv[1], sys.argv[2])
    print(json.dumps(stats))
    for x in mism[:2000]:
        print(json.dumps(x))
    print("mismatches:", len(mism))
