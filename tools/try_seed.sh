#!/bin/bash
# Confirms a seeded change and runs the checks against it WITHOUT touching /repo:
#   tools/try_seed.sh <dir with patch.diff, demo_test.go, meta.json> <out.json> [props...]
# 1. scratch worktree of /repo HEAD; demo passes on the pristine tree
# 2. patch applies, builds, the repository's suite passes, the demo fails
# 3. VERIF_REPO=<scratch> ./check <prop> for every claimed property; records the verdict lines
# The scratch worktree is removed at the end.
set -u
cd "$(dirname "$0")/.."
export GOFLAGS=-mod=mod GOPROXY=off GOSUMDB=off GOTOOLCHAIN=local
SEED=$(realpath "$1"); OUT=$2; shift 2
PROPS="$@"
[ -z "$PROPS" ] && PROPS=$(python3 -c "import json;print(' '.join(c['property_id'] for c in json.load(open('MANIFEST.json'))['checks']))")
W=/tmp/seedtry-$$
git -C /repo worktree add -q --detach $W HEAD || exit 2
trap 'git -C /repo worktree remove --force $W >/dev/null 2>&1; rm -rf $W' EXIT
mkdir -p $W/seeddemo
sed 's/^package .*/package seeddemo/' "$SEED/demo_test.go" > $W/seeddemo/demo_test.go
demo() { (cd $W && go test -vet=off -count=1 ./seeddemo/ > $W/demo.log 2>&1); echo $?; }
D0=$(demo)
(cd $W && git apply "$SEED/patch.diff") ; A=$?
(cd $W && go build ./... > $W/build.log 2>&1); B=$?
(cd $W && go test -vet=off -count=1 $(go list ./... | grep -v /seeddemo) > $W/suite.log 2>&1); S=$?
D1=$(demo)
rm -rf $W/seeddemo
declare -A V
RES="{"
for p in $PROPS; do
  line=$(VERIF_REPO=$W ./check $p 2>&1 | grep -E "^(VIOLATION|OK|KNOWN)" | tr '\n' ';' | sed 's/"/\\"/g')
  RES="$RES\"$p\": \"$line\","
done
RES="${RES%,}}"
python3 - "$OUT" "$D0" "$A" "$B" "$S" "$D1" "$RES" <<'EOF'
import sys, json
out, d0, a, b, s, d1, res = sys.argv[1:]
r = {"demo_passes_pristine": d0 == "0", "patch_applies": a == "0", "builds": b == "0", "suite_passes": s == "0",
     "demo_fails_with_change": d1 != "0", "checks": json.loads(res)}
r["caught_by"] = sorted(p for p, l in r["checks"].items() if "VIOLATION" in l)
r["caught_with_replay"] = sorted(p for p, l in r["checks"].items() if "VIOLATION" in l and "no-failing-input-found" not in l)
json.dump(r, open(out, "w"), indent=1)
print(json.dumps({k: r[k] for k in ("demo_passes_pristine", "patch_applies", "builds", "suite_passes", "demo_fails_with_change", "caught_by", "caught_with_replay")}))
EOF
