#!/bin/bash
# Builds everything from files on disk, offline: Coq development (full .vo), extraction,
# OCaml model driver, Go harness (against /repo's working tree), translator.
# usage: tools/build.sh [coq|model|harness|translator|all]   (default all)
set -e
cd "$(dirname "$0")/.."
ROOT=$(pwd)
export GOFLAGS=-mod=mod GOPROXY=off GOSUMDB=off GOTOOLCHAIN=local CARGO_NET_OFFLINE=true
# the tree under verification: /repo, or a scratch worktree when VERIF_REPO is set (used to try seeded changes
# without touching /repo while other runs depend on it)
REPO=${VERIF_REPO:-/repo}
what=${1:-all}
mkdir -p build

build_translator() {
  if [ -f translator/main.go ]; then
    (cd translator && go build -o translator . )
    # on failure (source outside the translator's fragment) the committed coq/gen/KeysGen.v stays in place; the
    # check then falls back to validating that model against the real key functions (pure key stream)
    if ./translator/translator -in $REPO/types/keys.go -out build/KeysGen.v.new; then
      if ! cmp -s build/KeysGen.v.new coq/gen/KeysGen.v; then mkdir -p coq/gen; cp build/KeysGen.v.new coq/gen/KeysGen.v; fi
    else
      echo "TRANSLATOR FAILED: keeping the committed coq/gen/KeysGen.v"
      git checkout -- coq/gen/KeysGen.v 2>/dev/null || true
      TRANSLATOR_FAILED=1
    fi
  fi
  if [ -f translator/census/main.go ]; then
    (cd translator && go build -o census/census ./census )   # C20 census tie, run by tools/census.sh
  fi
}

build_coq() {
  (cd coq && { echo "-Q . SVC"; find Base Model gen Proofs Properties -name '*.v' 2>/dev/null | LC_ALL=C sort; } > _CoqProject && coq_makefile -f _CoqProject -o Makefile >/dev/null && timeout 3000 make -j16 2>&1) > build/coq.log || { tail -40 build/coq.log; echo "COQ BUILD FAILED"; return 1; }
}

build_model() {
  (cd coq/Extract && coqc -Q .. SVC Extract.v > ../../build/extract.log 2>&1) || { cat build/extract.log; return 1; }
  cp coq/Extract/*.ml coq/Extract/*.mli ocaml/*.ml build/
  (cd build && ocamlfind ocamlopt -package zarith -linkpkg -O3 -w -a model.mli model.ml driver.ml -o model 2>&1 | grep -v "^$" || true)
  test -x build/model
  (cd build && ocamlfind ocamlopt -package zarith -linkpkg -O3 -w -a model.mli model.ml price_driver.ml -o price_model 2>&1 | grep -v "^$" || true)
  test -x build/price_model
}

build_harness() {
  if [ "$REPO" = "/repo" ]; then
    (cd harness && cp /repo/go.sum . && go build -o harness . )
  else
    rm -rf build/harness_alt && mkdir -p build/harness_alt && cp harness/*.go harness/go.mod build/harness_alt/
    sed -i "s#=> /repo\$#=> $REPO#; s#=> /repo #=> $REPO #" build/harness_alt/go.mod
    grep -q "=> $REPO" build/harness_alt/go.mod || { echo "could not retarget harness go.mod"; return 1; }
    (cd build/harness_alt && cp $REPO/go.sum . && go build -o ../../harness/harness . )
  fi
}

case $what in
  translator) build_translator; [ -z "${TRANSLATOR_FAILED:-}" ] ;;
  coq) build_translator; build_coq ;;
  model) build_model ;;
  harness) build_harness ;;
  all) build_translator; build_coq; build_model; build_harness ;;
esac
echo "build $what ok"
