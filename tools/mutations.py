import subprocess,sys,os
R='/tmp/repo-mut-M'  # scratch worktree: git -C /repo worktree add /tmp/repo-mut-M HEAD (remove it afterwards)
MUTS=[
 ("M01-slash-super-timeouts","abci.go",
  "\t\tif !request.SuperMode {\n\t\t\t_ = k.Slash(ctx, requestID)\n","\t\t_ = k.Slash(ctx, requestID)\n\t\tif !request.SuperMode {\n"),
 ("M02-skip-volume-increment","keeper/invocation.go",
  "\tk.IncreaseRequestVolume(ctx, request.Consumer, request.ServiceName, provider)\n","\t// mutated\n"),
 ("M03-expiry-refund-to-provider","abci.go",
  "_ = k.RefundServiceFee(ctx, request.Consumer, request.ServiceFee)","_ = k.RefundServiceFee(ctx, request.Provider, request.ServiceFee)"),
 ("M04-respond-no-active-check","keeper/invocation.go",
  "\tif !k.IsRequestActive(ctx, requestID) {","\tif false && !k.IsRequestActive(ctx, requestID) {"),
 ("M05-qos-strict","keeper/invocation.go",
  "if binding.QoS <= uint64(timeout) {","if binding.QoS < uint64(timeout) {"),
 ("M06-tax-rounds-up","keeper/fees.go",
  "taxAmount := sdk.NewDecFromInt(coin.Amount).Mul(taxRate).TruncateInt()","taxAmount := sdk.NewDecFromInt(coin.Amount).Mul(taxRate).Ceil().TruncateInt()"),
 ("M07-batch-expiry-one-late","abci.go",
  "k.AddRequestBatchExpiration(ctx, requestContextID, ctx.BlockHeight()+requestContext.Timeout)","k.AddRequestBatchExpiration(ctx, requestContextID, ctx.BlockHeight()+requestContext.Timeout+1)"),
 ("M08-next-batch-one-late","abci.go",
  "ctx.BlockHeight()-requestContext.Timeout+int64(requestContext.RepeatedFrequency))","ctx.BlockHeight()-requestContext.Timeout+int64(requestContext.RepeatedFrequency)+1)"),
 ("M09-slash-never-disables","keeper/invocation.go",
  "\tbinding.Deposit = deposit\n\tif binding.Available {","\tbinding.Deposit = deposit\n\tif false && binding.Available {"),
 ("M10-price-strictly-below-cap","keeper/invocation.go",
  "if price.IsAllLTE(serviceFeeCap) {","if price.IsAllLT(serviceFeeCap) {"),
 ("M11-malformed-output-not-slashed","keeper/invocation.go",
  "\t\tif err = k.Slash(ctx, requestID); err != nil {\n\t\t\tpanic(err)\n\t\t}\n","\t\t// mutated: no slash\n"),
 ("M12-malformed-output-still-earns","keeper/invocation.go",
  "if len(output) > 0 && types.ValidateResponseOutput(output) != nil {","if false && len(output) > 0 && types.ValidateResponseOutput(output) != nil {"),
 ("M13-kill-one-shot-allowed","keeper/invocation.go",
  "\tif !requestContext.Repeated {\n\t\treturn types.ErrRequestContextNonRepeated\n\t}\n\n\trequestContext.State = types.COMPLETED","\trequestContext.State = types.COMPLETED"),
 ("M14-update-completed-allowed","keeper/invocation.go",
  "\tif requestContext.State == types.COMPLETED {\n\t\treturn types.ErrRequestContextCompleted\n\t}\n","\t// mutated\n"),
 ("M15-threshold-strict","abci.go",
  "len(providers) >= int(requestContext.ResponseThreshold)","len(providers) > int(requestContext.ResponseThreshold)"),
 ("M16-time-window-end-inclusive","types/binding.go",
  "if !time.Before(p.StartTime) && time.Before(p.EndTime) {","if !time.Before(p.StartTime) && !time.After(p.EndTime) {"),
 ("M17-volume-tier-strict","types/binding.go",
  "\t\tif volume < p.Volume {","\t\tif volume <= p.Volume {"),
 ("M18-module-context-pausable-by-consumer","handler.go",
  "func handleMsgPauseRequestContext(ctx sdk.Context, k keeper.Keeper, msg *types.MsgPauseRequestContext) (*sdk.Result, error) {\n\tif err := k.CheckAuthority(ctx, msg.Consumer, msg.RequestContextId, true); err != nil {",
  "func handleMsgPauseRequestContext(ctx sdk.Context, k keeper.Keeper, msg *types.MsgPauseRequestContext) (*sdk.Result, error) {\n\tif err := k.CheckAuthority(ctx, msg.Consumer, msg.RequestContextId, false); err != nil {"),
 ("M19-withdraw-provider-no-owner-check","keeper/fees.go",
  "\t\tif !owner.Equals(providerOwner) {","\t\tif false && !owner.Equals(providerOwner) {"),
 ("M20-respond-any-provider","keeper/invocation.go",
  "\tif !provider.Equals(request.Provider) {","\tif false && !provider.Equals(request.Provider) {"),
 ("M21-slash-on-original-fraction-floor-plus-one","keeper/invocation.go",
  "slashedAmt := sdk.NewDecFromInt(depositAmt).Mul(slashFraction).TruncateInt()","slashedAmt := sdk.NewDecFromInt(depositAmt).Mul(slashFraction).Ceil().TruncateInt()"),
 ("M22-start-always-requeues","keeper/invocation.go",
  "\tif !k.HasRequestBatchExpiration(ctx, requestContextID) && !k.HasNewRequestBatch(ctx, requestContextID) {","\tif !k.HasNewRequestBatch(ctx, requestContextID) {"),
 ("M23-skip-does-not-count","keeper/invocation.go",
  "func (k Keeper) SkipCurrentRequestBatch(ctx sdk.Context, requestContextID tmbytes.HexBytes, requestContext types.RequestContext) {\n\trequestContext.BatchCounter++","func (k Keeper) SkipCurrentRequestBatch(ctx sdk.Context, requestContextID tmbytes.HexBytes, requestContext types.RequestContext) {\n\t"),
 ("M24-super-mode-charged","abci.go",
  "\t\t\t\tif !requestContext.SuperMode {\n\t\t\t\t\tif err := k.DeductServiceFees","\t\t\t\tif true {\n\t\t\t\t\tif err := k.DeductServiceFees"),
 ("M25-disabled-time-not-set-on-slash","keeper/invocation.go",
  "\t\t\tbinding.Available = false\n\t\t\tbinding.DisabledTime = ctx.BlockHeader().Time\n\t\t}\n\t}\n\n\tk.SetServiceBinding(ctx, binding)\n\n\tctx.EventManager()","\t\t\tbinding.Available = false\n\t\t}\n\t}\n\n\tk.SetServiceBinding(ctx, binding)\n\n\tctx.EventManager()"),
 ("M26-expiry-refund-for-answered-too","abci.go",
  "\t\tif requestContext.BatchState != types.BATCHCOMPLETED {\n\t\t\tk.IterateActiveRequests(","\t\tif requestContext.BatchState != types.BATCHCOMPLETED && requestContext.State != types.PAUSED {\n\t\t\tk.IterateActiveRequests("),

 ("M28-provider-earns-full-fee","keeper/fees.go",
  "\tearnedFee, hasNeg := fee.SafeSub(taxCoins)","\tearnedFee, hasNeg := fee.SafeSub(sdk.Coins{})"),
 ("M30-malformed-refund-to-provider","keeper/invocation.go",
  "if err := k.RefundServiceFee(ctx, request.Consumer, request.ServiceFee); err != nil {","if err := k.RefundServiceFee(ctx, request.Provider, request.ServiceFee); err != nil {"),
 ("M33-first-batch-next-block","keeper/invocation.go",
  "\tif requestContext.State == types.RUNNING {\n\t\tk.AddNewRequestBatch(ctx, requestContextID, ctx.BlockHeight())\n\t}\n\n\treturn requestContextID, nil","\tif requestContext.State == types.RUNNING {\n\t\tk.AddNewRequestBatch(ctx, requestContextID, ctx.BlockHeight()+1)\n\t}\n\n\treturn requestContextID, nil"),
 ("M35-one-batch-too-many","abci.go",
  "int64(requestContext.BatchCounter) < requestContext.RepeatedTotal) {","int64(requestContext.BatchCounter) <= requestContext.RepeatedTotal) {"),
 ("M39-no-response-to-nonrunning-context","keeper/invocation.go",
  "\tif !k.IsRequestActive(ctx, requestID) {","\tif rc, _ := k.GetRequestContext(ctx, request.RequestContextId); rc.State != types.RUNNING || !k.IsRequestActive(ctx, requestID) {"),
 ("M41-new-batches-before-expiries","abci.go",
  "\tk.IterateExpiredRequestBatch(ctx, ctx.BlockHeight(), expiredRequestBatchHandler)\n\n\t// handle the new request batch queue\n\tk.IterateNewRequestBatch(ctx, ctx.BlockHeight(), newRequestBatchHandler)","\tk.IterateNewRequestBatch(ctx, ctx.BlockHeight(), newRequestBatchHandler)\n\tk.IterateExpiredRequestBatch(ctx, ctx.BlockHeight(), expiredRequestBatchHandler)"),
 ("M42-time-window-start-exclusive","types/binding.go",
  "if !time.Before(p.StartTime) && time.Before(p.EndTime) {","if time.After(p.StartTime) && time.Before(p.EndTime) {"),
 ("M46-malformed-super-not-slashed","keeper/invocation.go",
  "\t\tif err = k.Slash(ctx, requestID); err != nil {\n\t\t\tpanic(err)\n\t\t}\n","\t\tif !request.SuperMode {\n\t\t\tif err = k.Slash(ctx, requestID); err != nil {\n\t\t\t\tpanic(err)\n\t\t\t}\n\t\t}\n"),
 ("M47-tax-rounded-half-even","keeper/fees.go",
  "taxAmount := sdk.NewDecFromInt(coin.Amount).Mul(taxRate).TruncateInt()","taxAmount := sdk.NewDecFromInt(coin.Amount).Mul(taxRate).RoundInt()"),
 ("M48-slash-disable-uses-param-minimum-only","keeper/invocation.go",
  "\t\tminDeposit := k.getMinDeposit(ctx, k.GetPricing(ctx, binding.ServiceName, binding.Provider))\n\t\tif !binding.Deposit.IsAllGTE(minDeposit) {\n\t\t\tbinding.Available = false","\t\tminDeposit := k.MinDeposit(ctx)\n\t\tif !binding.Deposit.IsAllGTE(minDeposit) {\n\t\t\tbinding.Available = false"),
 ("M49-kill-pending-batch-not-refunded","abci.go",
  "\t\tif requestContext.BatchState != types.BATCHCOMPLETED {\n\t\t\tk.IterateActiveRequests(","\t\tif requestContext.BatchState != types.BATCHCOMPLETED && requestContext.State != types.COMPLETED {\n\t\t\tk.IterateActiveRequests("),
 ("M50-paused-context-keeps-getting-batches","abci.go",
  "\t\tif requestContext.State == types.RUNNING {\n\t\t\tproviders, totalPrices, rawDenom, err := k.FilterServiceProviders(","\t\tif requestContext.State != types.COMPLETED {\n\t\t\tproviders, totalPrices, rawDenom, err := k.FilterServiceProviders("),
]
which=sys.argv[1:] 
for name,f,old,new in MUTS:
    if which and not any(name.startswith(w) for w in which): continue
    subprocess.run(["git","-C",R,"checkout","-q","."],check=True)
    p=os.path.join(R,f); s=open(p).read()
    if s.count(old)!=1:
        print("=== %s: PATTERN COUNT %d, skipped"%(name,s.count(old))); continue
    open(p,"w").write(s.replace(old,new))
    b=subprocess.run("cd %s && GOFLAGS=-mod=mod GOPROXY=off GOSUMDB=off GOTOOLCHAIN=local go build ./... 2>&1 | tail -3"%R,shell=True,capture_output=True,text=True)
    print("=== %s"%name, b.stdout.strip())
    sys.stdout.flush()
    r=subprocess.run(["/tmp/wk-monitors/tools/mutrun.sh",R],capture_output=True,text=True)
    print("\n".join(l for l in (r.stdout+r.stderr).splitlines() if not l.startswith("WARNING")))
    sys.stdout.flush()
subprocess.run(["git","-C",R,"checkout","-q","."],check=True)
