#!/bin/bash
# Pure stream for the key layer: the real key / ID functions of /repo against the
# definitions generated from keys.go (and Model/Ids.v), extracted to OCaml.
# usage: tools/pure_keys.sh [seed] [n-random-per-function]
# exit 0 iff the two outputs are identical; prints the number of cases, and the first
# differences otherwise. Builds everything it needs from the files on disk.
# The harness run also carries the key monitor (harness/mon_keys.go: collision and scan-exactness
# search on the real functions alone); its summary is build/purekeys.keymon.json and the line
# "KEYMON ..." below. It runs first, so that it has run whatever becomes of the model side.
set -e
cd "$(dirname "$0")/.."
export GOFLAGS=-mod=mod GOPROXY=off GOSUMDB=off GOTOOLCHAIN=local
seed=${1:-1}
n=${2:-300}
mkdir -p build
rm -f build/purekeys.keymon.json build/purekeys.impl

# 0. the harness against /repo's working tree: the stream of the real functions + the key monitor
tools/build.sh harness >/dev/null || { echo "PUREKEYS FAIL: harness build"; exit 1; }
./harness/harness -mode purekeys -seed "$seed" -n "$n" -out build/purekeys.impl -summary build/purekeys.keymon.json > build/purekeys.harness.log \
  || { tail -5 build/purekeys.harness.log; echo "PUREKEYS FAIL: harness run"; exit 1; }
python3 - <<'PY' || true
import json
k = (json.load(open("build/purekeys.keymon.json")).get("keymon") or {})
print("KEYMON findings=%d key_calls=%d subspace_calls=%d collision_comparisons=%d scan_comparisons=%d completeness=%d per_kind=%s" % (
    k.get("n_findings", -1), k.get("key_calls", 0), k.get("subspace_calls", 0), k.get("collision_comparisons", 0),
    k.get("scan_comparisons", 0), k.get("scan_completeness_checks", 0), json.dumps(k.get("findings_per_kind") or {}, sort_keys=True)))
for f in (k.get("findings") or [])[:3]:
    print("KEYMON %s [%s] %s" % (f["kind"], f["theorem"], f["detail"][:400]))
PY

# 1. regenerate KeysGen.v from the source (translation failure = broken obligation K-translate)
tools/build.sh translator >/dev/null || echo "PUREKEYS NOTE: translator failed (K-translate); comparing the real functions with the committed generated model" 

# 2. compile what the extraction needs (cheap: three small files) and extract
(cd coq && for f in Base/Bytes.v gen/KeysGen.v Model/Ids.v; do
   if [ ! -f "${f}o" ] || [ "$f" -nt "${f}o" ] || [ Base/Bytes.vo -nt "${f}o" ]; then
     timeout 600 coqc -Q . SVC "$f" || exit 1
   fi
 done) > build/purekeys.coq.log 2>&1 || { cat build/purekeys.coq.log; echo "PUREKEYS FAIL: coqc"; exit 1; }
(cd coq/Extract && timeout 600 coqc -Q .. SVC ExtractKeys.v) > build/purekeys.extract.log 2>&1 \
  || { cat build/purekeys.extract.log; echo "PUREKEYS FAIL: extraction"; exit 1; }
cp coq/Extract/keys.ml coq/Extract/keys.mli ocaml/keys_driver.ml build/
(cd build && ocamlfind ocamlopt -package zarith -linkpkg -O3 -w -a keys.mli keys.ml keys_driver.ml -o keys_driver 2>&1 \
   | grep -v "^$" | grep -v "options -O3 is only relevant" || true)
test -x build/keys_driver || { echo "PUREKEYS FAIL: ocaml build"; exit 1; }

# 3. the model side on the same cases, compare
./build/keys_driver < build/purekeys.impl > build/purekeys.model 2> build/purekeys.driver.log \
  || { cat build/purekeys.driver.log; echo "PUREKEYS FAIL: model driver aborted"; exit 1; }
cases=$(grep -c '^K ' build/purekeys.impl || true)
mcases=$(grep -c '^K ' build/purekeys.model || true)
if cmp -s build/purekeys.impl build/purekeys.model && [ "$cases" = "$mcases" ] && [ "$cases" -gt 0 ]; then
  echo "PUREKEYS OK cases=$cases bech=$(grep -c '^B ' build/purekeys.impl) seed=$seed"
  exit 0
fi
echo "PUREKEYS FAIL cases=$cases model_cases=$mcases differing=$(diff build/purekeys.impl build/purekeys.model | grep -c '^<' || true)"
echo "first differences (< implementation, > generated model):"
diff build/purekeys.impl build/purekeys.model | head -20
exit 1
