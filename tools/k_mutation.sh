#!/bin/bash
# Sensitivity check of the key layer (K): mutate a SCRATCH copy of /repo/types/keys.go
# (never /repo itself), run the translator on it, compile the K layer against the result
# and report what breaks. Also replays the pure stream of the REAL implementation against
# the mutated generated model (shows that the stream sees a translator/code divergence).
# usage: tools/k_mutation.sh            (needs a prior `tools/build.sh translator` and
#                                        `tools/pure_keys.sh` for build/purekeys.impl)
# Expected: every "m*" mutant is caught (translator rejects, or a named theorem fails);
#           the "same*" mutants (harmless re-nesting, a local variable) generate an
#           identical KeysGen.v. Exit 0 iff that is what happens.
cd "$(dirname "$0")/.."
ROOT=$(pwd)
fail=0

run() { # name expect(caught|same) python-statements-on-s
  local name=$1 expect=$2 d=$ROOT/build/mut/$1
  rm -rf "$d"; mkdir -p "$d"/coq/{gen,Base,Model,Proofs,Properties,Extract}
  python3 - <<PY || { echo "[$name] mutation script failed"; fail=1; return; }
s=open('/repo/types/keys.go').read()
o=s
$3
assert s!=o, "mutation did not change the source"
open('$d/keys_mut.go','w').write(s)
PY
  if ! ./translator/translator -in "$d/keys_mut.go" -out "$d/coq/gen/KeysGen.v" 2> "$d/translate.err"; then
    echo "[$name] caught: TRANSLATOR REJECTS: $(head -1 "$d/translate.err" | cut -c1-220)"
    [ "$expect" = caught ] || fail=1
    return
  fi
  if cmp -s "$d/coq/gen/KeysGen.v" coq/gen/KeysGen.v; then
    echo "[$name] generated KeysGen.v identical to the unmutated one"
    [ "$expect" = same ] || fail=1
    return
  fi
  [ "$expect" = same ] && { echo "[$name] expected an identical KeysGen.v"; fail=1; }
  cp coq/Base/Bytes.v "$d/coq/Base/"; cp coq/Model/Ids.v "$d/coq/Model/"
  cp coq/Proofs/IdsProofs.v coq/Proofs/KProofs.v "$d/coq/Proofs/"
  cp coq/Properties/C18.v "$d/coq/Properties/"; cp coq/Extract/ExtractKeys.v "$d/coq/Extract/"
  local ok=1 f line thm
  for f in Base/Bytes.v gen/KeysGen.v Model/Ids.v Proofs/IdsProofs.v Proofs/KProofs.v Properties/C18.v; do
    if ! (cd "$d/coq" && timeout 600 coqc -Q . SVC $f) > "$d/coq.log" 2>&1; then
      line=$(grep -o 'line [0-9]*' "$d/coq.log" | head -1 | cut -d' ' -f2)
      thm=$(head -n "$line" "$d/coq/$f" | grep -E '^(Theorem|Lemma|Corollary|Example)' | tail -1 | awk '{print $2}')
      echo "[$name] caught: COQ FAILS in $f line $line, inside $thm"; ok=0; break
    fi
  done
  [ $ok = 1 ] && { echo "[$name] NOT CAUGHT: all Coq files compile"; fail=1; }
  if [ -f "$d/coq/gen/KeysGen.vo" ] && [ -f build/purekeys.impl ]; then
    (cd "$d/coq/Extract" && timeout 600 coqc -Q .. SVC ExtractKeys.v >/dev/null 2>&1) || { echo "[$name] pure stream: extraction fails (interface changed)"; return; }
    cp "$d"/coq/Extract/keys.ml "$d"/coq/Extract/keys.mli ocaml/keys_driver.ml "$d/"
    (cd "$d" && ocamlfind ocamlopt -package zarith -linkpkg -w -a keys.mli keys.ml keys_driver.ml -o keys_driver >/dev/null 2>&1)
    if [ -x "$d/keys_driver" ]; then
      "$d/keys_driver" < build/purekeys.impl > "$d/purekeys.model" 2>/dev/null
      echo "[$name] pure stream (real code vs mutated model): $(diff build/purekeys.impl "$d/purekeys.model" | grep -c '^<') differing cases"
    else
      echo "[$name] pure stream: driver does not build (interface changed)"
    fi
  fi
}

OSB='return append(append(append(append(OwnerServiceBindingKey, owner.Bytes()...), []byte(serviceName)...), EmptyByte...), provider.Bytes()...)'
run m01_no_separator_owner_binding caught "s=s.replace('$OSB','return append(append(append(OwnerServiceBindingKey, owner.Bytes()...), []byte(serviceName)...), provider.Bytes()...)')"
run m02_no_separator_bindings_subspace caught "s=s.replace('return append(append(ServiceBindingKey, []byte(serviceName)...), EmptyByte...)','return append(ServiceBindingKey, []byte(serviceName)...)')"
run m03_binding_key_without_getStringsKey caught "s=s.replace('return append(ServiceBindingKey, getStringsKey([]string{serviceName, provider.String()})...)','return append(append(ServiceBindingKey, []byte(serviceName)...), []byte(provider.String())...)')"
run m04_getStringsKey_changed caught "s=s.replace('return result[0 : len(result)-1]','return result')"
run m05_binding_key_no_separator caught "s=s.replace('return append(ServiceBindingKey, getStringsKey([]string{serviceName, provider.String()})...)','return append(append(ServiceBindingKey, getStringsKey([]string{serviceName})...), getStringsKey([]string{provider.String()})...)')"
run m06_two_prefixes_same_byte caught "s=s.replace('OwnerKey                     = []byte{0x04}','OwnerKey                     = []byte{0x05}')"
run m07_earned_key_fields_swapped caught "s=s.replace('return append(append(EarnedFeesKey, provider.Bytes()...), []byte(denom)...)','return append(append(EarnedFeesKey, []byte(denom)...), provider.Bytes()...)')"
run m08_active_request_second_separator_removed caught "s=s.replace('append(append(append(getStringsKey([]string{serviceName, provider.String()}), EmptyByte...), sdk.Uint64ToBigEndian(uint64(expirationHeight))...), requestID...)','append(append(getStringsKey([]string{serviceName, provider.String()}), sdk.Uint64ToBigEndian(uint64(expirationHeight))...), requestID...)')"
run m09_unsupported_call caught "s=s.replace('return append(OwnerKey, provider.Bytes()...)','return bytes.Join([][]byte{OwnerKey, provider.Bytes()}, nil)')"
run m10_if_statement caught "s=s.replace('\treturn append(WithdrawAddrKey, provider.Bytes()...)','\tif len(provider) == 0 {\n\t\treturn WithdrawAddrKey\n\t}\n\treturn append(WithdrawAddrKey, provider.Bytes()...)')"
run m11_new_function caught "s=s+'\nfunc GetFooKey(a sdk.AccAddress) []byte {\n\treturn append(OwnerKey, a.Bytes()...)\n}\n'"
run m12_owner_earned_key_with_denom caught "s=s.replace('func GetOwnerEarnedFeesKey(owner sdk.AccAddress, denom string) []byte {\n\treturn append(OwnerEarnedFeesKey, owner.Bytes()...)','func GetOwnerEarnedFeesKey(owner sdk.AccAddress, denom string) []byte {\n\treturn append(append(OwnerEarnedFeesKey, owner.Bytes()...), []byte(denom)...)')"
run m13_two_byte_prefix caught "s=s.replace('PricingKey                   = []byte{0x06}','PricingKey                   = []byte{0x06, 0x01}')"
run m14_scan_prefix_of_other_family caught "s=s.replace('return append(ExpiredRequestBatchKey, sdk.Uint64ToBigEndian(uint64(batchExpirationHeight))...)','return append(NewRequestBatchKey, sdk.Uint64ToBigEndian(uint64(batchExpirationHeight))...)')"
run m15_separator_not_zero caught "s=s.replace('EmptyByte = []byte{0x00}','EmptyByte = []byte{0x2f}')"
run same1_renested_append same "s=s.replace('$OSB','return append(OwnerServiceBindingKey, append(owner.Bytes(), append(append([]byte(serviceName), EmptyByte...), provider.Bytes()...)...)...)')"
run same2_local_variable same "s=s.replace('\treturn append(append(OwnerProviderKey, owner.Bytes()...), provider.Bytes()...)','\trest := append(owner.Bytes(), provider.Bytes()...)\n\treturn append(OwnerProviderKey, rest...)')"

if [ $fail = 0 ]; then echo "K-MUTATION OK"; else echo "K-MUTATION UNEXPECTED RESULT"; fi
exit $fail
