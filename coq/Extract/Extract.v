(* Extraction of the executable model for the correspondence check.
   ExtrOcamlBasic only: bool, option, list, prod, unit, sumbool map to OCaml's own;
   Z, N, positive, nat stay Coq inductives. No Extract Constant. *)
Require Extraction.
Require Import ExtrOcamlBasic.
From Coq Require Import ZArith List.
From SVC Require Import Base.AMap Base.Res Base.Dec Model.Types Model.Pricing
  Model.Handlers Model.EndBlock Model.Step Model.ParamStep Model.ModSvc Model.Queries Model.Genesis.
Extraction Language OCaml.
Set Extraction KeepSingleton.
Extraction "model.ml" step pstep xstep valid_params init run export_genesis prep_zero_height validate_genesis
  import_genesis init_genesis zero_height_export get_price exchanged_price min_deposit disc_time disc_vol
  parse_pricing validate_pricing mul_trunc bal Z.add Z.mul Z.div Z.modulo Z.of_nat Z.to_nat Z.opp
  Z.eqb Z.ltb Z.leb Pos.add Pos.mul
  q_definition q_binding q_bindings q_withdraw_address q_request_context q_request q_requests
  q_requests_by_ctx q_response q_responses q_earned_fees q_schema q_params
  lq_definition lq_binding lq_bindings lq_withdraw_address lq_request_context lq_request lq_requests
  lq_requests_by_ctx lq_response lq_responses lq_earned_fees lq_schema lq_params zero_request.
