(* Extraction of the GENERATED key definitions (gen/KeysGen.v) and the identifier models
   (Model/Ids.v) for the pure-keys stream (tools/pure_keys.sh, ocaml/keys_driver.ml).
   ExtrOcamlBasic only: bool, option, list, prod map to OCaml's own; N, Z, positive, nat stay
   Coq inductives. No Extract Constant. The Section variable [bech] becomes the first
   argument of the functions that use it. *)
Require Extraction.
Require Import ExtrOcamlBasic.
From Coq Require Import NArith ZArith List.
From SVC Require Import Base.Bytes gen.KeysGen Model.Ids.
Extraction Language OCaml.
Extraction "keys.ml"
  GetServiceDefinitionKey GetServiceBindingKey GetOwnerServiceBindingKey GetOwnerKey
  GetOwnerProviderKey GetPricingKey GetWithdrawAddrKey GetBindingsSubspace
  GetOwnerBindingsSubspace GetOwnerProvidersSubspace GetRequestContextKey
  GetExpiredRequestBatchKey GetNewRequestBatchKey GetExpiredRequestBatchSubspace
  GetNewRequestBatchSubspace GetExpiredRequestBatchHeightKey GetNewRequestBatchHeightKey
  GetRequestKey GetRequestSubspaceByReqCtx GetActiveRequestKey GetActiveRequestSubspace
  GetActiveRequestKeyByID GetActiveRequestSubspaceByReqCtx GetRequestVolumeKey
  GetResponseKey GetResponseSubspaceByReqCtx GetEarnedFeesKey GetEarnedFeesSubspace
  GetOwnerEarnedFeesKey GetOwnerEarnedFeesSubspace
  gen_ctx_id split_ctx_id gen_request_id split_request_id.
