(* Governance parameter changes inside a history.

   `step` (Model/Step.v) runs one operation under a fixed parameter set.  A chain
   changes its parameters through a governance proposal, which ends in
   `keeper.SetParams` after `Params.Validate()` (types/params.go).  `pstep` adds
   that operation on top of `step`, which is used unchanged: the state of the
   parameter machine is the pair (parameters in force, state).

   `p_modsvc` and `p_cbmod` are not chain parameters but constants of the
   harness (the atom of the module-registered service and of the callback
   module); a parameter change keeps them. *)
From Coq Require Import List ZArith Bool.
From SVC Require Import Base.AMap Base.Res Base.Dec Model.Types Model.Step.
Import ListNotations.
Open Scope Z_scope.

Inductive POp : Type :=
| PO (o : Op)
| PSet (c : Params).

(* Params.Validate, for the fields the model carries:
   validateMaxRequestTimeout      v > 0
   validateMinDepositMultiple     v > 0
   validateMinDeposit             Coins.IsValid: empty, or one strictly positive coin of the
                                  base denomination; as one integer: 0 (empty) or positive
   validateSlashFraction          0 <= v <= 1
   validateServiceFeeTax          0 <= v < 1
   validateComplaintRetrospect    v > 0
   validateArbitrationTimeLimit   v > 0
   (BaseDenom and TxSizeLimit are not modelled: the harness keeps them fixed and legal.) *)
Definition valid_params (c : Params) : bool :=
  (0 <? p_max_timeout c)
  && (0 <? p_multiple c)
  && (0 <=? p_min_deposit c)
  && (0 <=? p_slash c) && (p_slash c <=? ONE)
  && (0 <=? p_tax c) && (p_tax c <? ONE)
  && (0 <? p_compl c)
  && (0 <? p_arb c).

(* the new chain parameters, with the two harness constants of the old set *)
Definition keep_consts (old c : Params) : Params :=
  mkParams (p_max_timeout c) (p_multiple c) (p_min_deposit c) (p_tax c) (p_slash c)
           (p_arb c) (p_compl c) (p_modsvc old) (p_cbmod old).

Definition pstep (cs : Params * State) (o : POp) : (Params * State) * Outcome :=
  let (cfg, s) := cs in
  match o with
  | PO o' => let (s', r) := step cfg s o' in ((cfg, s'), r)
  | PSet c => if valid_params c then ((keep_consts cfg c, s), ROk) else ((cfg, s), RErr)
  end.

Definition prun (cs : Params * State) (ops : list POp) : Params * State :=
  fold_left (fun st o => fst (pstep st o)) ops cs.
