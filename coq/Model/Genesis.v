(* genesis.go / types/genesis.go: export, zero-height preparation, validation and
   import of the module state (property C19).

   What is and is not in a genesis. ExportGenesis writes the parameters and four
   record families: definitions (0x01), bindings (0x02), withdrawal addresses
   (0x07) and request contexts (0x08). The three ownership indexes (0x03 0x04
   0x05) and the price terms (0x06) are rebuilt from the bindings by
   SetServiceBindingForGenesis. Requests, both active-request indexes, responses,
   both queues with their pointers, volumes and earnings are NOT exported.

   Orders. The code iterates store ranges; the model keeps insertion-ordered
   association lists. The exported lists are the model's lists as they are (the
   correspondence check compares them as sets of canonical lines). The refunds of
   the preparation are made in store order of the request ids, as the code does;
   C19_prep_refunds shows the resulting balances are sums that do not depend on it.

   The record families live under disjoint key prefixes, so the import writes
   each of them independently of the others; import_genesis is written
   family by family for that reason. *)
From Coq Require Import List ZArith Bool.
From SVC Require Import Base.AMap Base.Res Base.Dec Model.Types Model.Pricing Model.Handlers.
Import ListNotations.
Open Scope Z_scope.

Record Genesis : Type := mkGenesis {
  g_params : Params;
  g_defs : list (Z * Z);                (* service, content *)
  g_binds : list (BKey * Binding);
  g_wd : list (Z * Z);                  (* owner, withdrawal address *)
  g_ctxs : list (CtxId * Ctx)
}.

(* ExportGenesis *)
Definition export_genesis (cfg : Params) (s : State) : Genesis :=
  mkGenesis cfg (defs s) (binds s) (wdaddr s) (ctxs s).

(* ------------------------------------------------------------------ *)
(* PrepForZeroHeightGenesis *)

(* AllActiveRequestsIterator: the active markers (0x15) in key order *)
Definition active_reqs (s : State) : list (ReqId * Req) :=
  isort (fun a b => rid_leb (fst a) (fst b)) (filter (fun kv => r_active (snd kv)) (reqs s)).

(* keeper.GetRequest takes the consumer from the request's context; for a request
   whose context is missing it returns the zero Request (no consumer, no fee) and
   the error is dropped: nothing moves *)
Definition refund_item (s : State) (kv : ReqId * Req) : list (Z * Z) :=
  match get (rid_ctx (fst kv)) (ctxs s) with
  | Some rc => [(c_cons rc, r_fee (snd kv))]
  | None => []
  end.

(* RefundServiceFees: (consumer, fee) per pending request *)
Definition refund_list (s : State) : list (Z * Z) := flat_map (refund_item s) (active_reqs s).

(* RefundEarnedFees: (provider, amount) per earnings record (0x18) *)
Definition earned_list (s : State) : list (Z * Z) := earned s.

(* SendCoinsFromModuleToAccount out of the request escrow, one after the other;
   None = the first failing send (the code then panics) *)
Fixpoint pay_all (l : list (Z * Z)) (s : State) : option State :=
  match l with
  | [] => Some s
  | (a, amt) :: t =>
      match transfer Escrow (User a) amt s with
      | Some s1 => pay_all t s1
      | None => None
      end
  end.

(* ResetRequestContextsStateAndBatch *)
Definition reset_ctx (rc : Ctx) : Ctx :=
  setc_bresp (setc_breq (setc_bdone (setc_state rc Paused) true) 0) 0.

Definition reset_contexts (s : State) : State :=
  set_ctxs s (map (fun kv => (fst kv, reset_ctx (snd kv))) (ctxs s)).

Definition prep_zero_height (s : State) : option State :=
  match pay_all (refund_list s ++ earned_list s) s with
  | Some s1 => Some (reset_contexts s1)
  | None => None
  end.

(* ------------------------------------------------------------------ *)
(* ValidateGenesis, numeric / structural part (bech32 and hex key syntax, service
   names, schemas and the JSON texts are outside the model) *)

Definition params_valid (p : Params) : bool :=
  (0 <? p_max_timeout p) && (0 <? p_multiple p) && (0 <=? p_min_deposit p)
  && (0 <=? p_slash p) && (p_slash p <=? ONE)
  && (0 <=? p_tax p) && (p_tax p <? ONE)
  && (0 <? p_compl p) && (0 <? p_arb p).

(* ServiceBinding.Validate: provider and owner present, deposit a valid coin list
   without negative amounts, qos > 0, pricing text schema-valid *)
Definition binding_valid (kb : BKey * Binding) : bool :=
  let b := snd kb in
  negb (snd (fst kb) =? 0) && negb (b_owner b =? 0) && (0 <=? b_deposit b) && (0 <? b_qos b)
  && schema_pricing (parse_pricing (b_raw b)).

(* RequestContext.Validate: 1..10 distinct providers, a consumer, a valid cap *)
Definition ctx_struct_valid (rc : Ctx) : bool :=
  (1 <=? len (c_provs rc)) && (len (c_provs rc) <=? 10) && nodupb (c_provs rc)
  && negb (c_cons rc =? 0) && (0 <=? c_cap rc).

(* the two extra tests of ValidateGenesis: paused, no batch in flight *)
Definition ctx_settled (rc : Ctx) : bool := cstate_eqb (c_state rc) Paused && c_bdone rc.

Definition validate_genesis (g : Genesis) : bool :=
  params_valid (g_params g)
  && forallb binding_valid (g_binds g)
  && forallb (fun kc => ctx_struct_valid (snd kc) && ctx_settled (snd kc)) (g_ctxs g).

(* ------------------------------------------------------------------ *)
(* InitGenesis into an empty store *)

Definition import_genesis (h t : Z) (g : Genesis) : State :=
  let bs := g_binds g in
  mkState h t
    (* SetServiceDefinition *)
    (fold_left (fun m d => set (fst d) (snd d) m) (g_defs g) [])
    (* SetServiceBindingForGenesis: SetServiceBinding *)
    (fold_left (fun m kb => set (fst kb) (snd kb) m) bs [])
    (* ... ParsePricing + SetPricing *)
    (fold_left (fun m kb => set (fst kb) (parse_pricing (b_raw (snd kb))) m) bs [])
    (* ... SetOwner (unconditional: the last binding of a provider wins) *)
    (fold_left (fun m kb => set (snd (fst kb)) (b_owner (snd kb)) m) bs [])
    (* ... SetOwnerProvider *)
    (fold_left (fun l kb => ladd (b_owner (snd kb), snd (fst kb)) l) bs [])
    (* ... SetOwnerServiceBinding *)
    (fold_left (fun l kb => ladd (b_owner (snd kb), fst (fst kb), snd (fst kb)) l) bs [])
    (* SetWithdrawAddress *)
    (fold_left (fun m w => set (fst w) (snd w) m) (g_wd g) [])
    (* SetRequestContext *)
    (fold_left (fun m c => set (fst c) (snd c) m) (g_ctxs g) [])
    [] [] [] [] [] [] [] [] [] [] 0 [].

(* InitGenesis panics on a genesis that does not validate *)
Definition init_genesis (h t : Z) (g : Genesis) : Res State :=
  if validate_genesis g then Ok (import_genesis h t g) else Panic.

(* the whole zero-height pipeline as the driver runs it: prepare, export, import *)
Definition zero_height_export (cfg : Params) (s : State) : option (State * Genesis) :=
  match prep_zero_height s with
  | Some s' => Some (s', export_genesis cfg s')
  | None => None
  end.
