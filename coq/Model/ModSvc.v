(* The module-service call path (known finding K3) as the code executes it.

   `h_call` (Model/Handlers.v) rejects a `MsgCallService` whose service is the one a
   module registered with `RegisterModuleService` (`p_modsvc cfg`): exclusion X-K3.
   This file adds that branch of `handleMsgCallService` ON TOP of the existing model;
   nothing in Base/ or Model/ is changed and `step` / `pstep` are used as they are.

   handler.go, `found` branch of handleMsgCallService:
     CreateRequestContext(svc, [moduleService.Provider], consumer, input, cap,
                          timeout 1, super false, repeated false, freq 0, total 0,
                          RUNNING, threshold 0, module "")
     RequestModuleService(moduleService, id, consumer, input)
   keeper/module_service.go RequestModuleService:
     ctx          := GetRequestContext(id)
     _, total, _  := FilterServiceProviders(ctx.ServiceName, ctx.Providers, ctx.Timeout,
                                            ctx.ServiceFeeCap, ctx.Consumer)
                     -- over the BINDINGS of the context's providers; the module provider
                        has none (MsgBindService refuses a module service), so nothing is
                        eligible and the total is the empty coin list.  No emptiness and no
                        threshold test follows (unlike the new-batch handler of abci.go).
     DeductServiceFees(consumer, total)        -- a transfer of 0
     ids := InitiateRequests(id, [moduleService.Provider])
                     -- buildRequest: GetServiceBinding fails, GetPrice runs on the ZERO
                        binding: GetPricing("", nil) is the empty pricing, price 0 is raised
                        to 1: the stored fee is 1.  No expiry entry is added (in abci.go the
                        caller does that).
     result, output := moduleService.ReuquestService(input)    -- the module's fixed answer
     AddResponse(ids[0], moduleService.Provider, result, output)
                     -- the ordinary response path: AddEarnedFee (tax to the fee collector,
                        provider record += fee - tax, owner record of GetOwner(provider)),
                        response stored, markers deleted, volume + 1, response count + 1,
                        batch completed.
   The new-batch entry written by CreateRequestContext stays: the next EndBlock gives the
   one-shot context a second (skipped) batch, and CleanBatch, which only ever removes the
   records of the CURRENT counter, never removes the records of batch 1.

   The module provider and the module's answer are not part of `Params`; they are carried
   by the operation (`XCallMod`). *)
From Coq Require Import List ZArith Bool.
From SVC Require Import Base.AMap Base.Res Base.Dec Model.Types Model.Pricing
  Model.Handlers Model.EndBlock Model.Step Model.ParamStep.
Import ListNotations.
Open Scope Z_scope.
Open Scope res_scope.

(* the address atom 0 stands for the empty address (harness: Atoms.atomOfAddr) *)
Definition NO_OWNER : Z := 0.

(* keeper.AddEarnedFee as written, for ANY provider.
   With an owner this is `add_earned_fee` (Model/Handlers.v, lemma add_earned_fee_any_owner in
   Proofs/K3.v).  Without one, GetOwner returns the nil address: GetOwnerEarnedFees(nil) scans
   the bare prefix 0x19, i.e. adds up the records of ALL owners (and the nil record itself),
   and SetOwnerEarnedFees(nil, that sum + earned) writes the record whose key is the bare
   prefix.  (`add_earned_fee` has Panic in this place, proved unreachable under Inv.) *)
Definition add_earned_fee_any (cfg : Params) (s : State) (r : ReqId) (prov fee : Z) : Res State :=
  let tax := mul_trunc fee (p_tax cfg) in
  s1 <- of_opt (transfer Escrow FeeColl tax s) ;;
  check (tax <=? fee) ;;
  let e := fee - tax in
  let s2 := set_earned s1 (add_to prov e (earned s1)) in
  let s3 :=
    match get prov (owner_of s2) with
    | Some o => set_own_earned s2 (add_to o e (own_earned s2))
    | None =>
        let n := msum (fun _ v => v) (own_earned s2) + e in
        if n =? 0 then s2 else set_own_earned s2 (set NO_OWNER n (own_earned s2))
    end in
  Ok (emit (EvEarn r prov e) (emit (EvTax r tax) s3)).

(* keeper.AddResponse with AddEarnedFee as above (h_respond without the ValidateBasic flag) *)
Definition add_response_any (cfg : Params) (s : State) (r : ReqId) (who code out : Z)
    (out_valid : bool) : Res State :=
  q <- of_opt (get r (reqs s)) ;;
  rc0 <- of_opt (get (rid_ctx r) (ctxs s)) ;;
  check (who =? r_prov q) ;;
  check r_active q ;;
  s1 <- (if negb (out =? 0) && negb out_valid
         then match slash cfg s r with
              | Ok sa => match refund_fee sa r (c_cons rc0) (r_fee q) with
                         | Some sb => Ok sb
                         | None => Panic
                         end
              | _ => Panic
              end
         else add_earned_fee_any cfg s r who (r_fee q)) ;;
  let s2 := set_resps s1 (set r (mkResp who (c_cons rc0) code out) (resps s1)) in
  let s3 := deactivate s2 r in
  let vk := (c_cons rc0, c_svc rc0, who) in
  let s4 := set_vols s3 (set vk (get0 vk (vols s3) + 1) (vols s3)) in
  let s5 := emit (EvRespond r) s4 in
  let c := rid_ctx r in
  match get c (ctxs s5) with
  | None => Panic
  | Some rc =>
      let rc1 := setc_bresp rc (c_bresp rc + 1) in
      if c_bresp rc1 =? c_breq rc1
      then let '(s6, rc2) := complete_batch s5 c rc1 in Ok (put_ctx s6 c rc2)
      else Ok (put_ctx s5 c rc1)
  end.

(* keeper.RequestModuleService for the context c just created *)
Definition request_module_service (cfg : Params) (s : State) (c : CtxId) (cons mprov code out : Z)
    (out_valid : bool) : Res State :=
  rc <- of_opt (get c (ctxs s)) ;;
  let el := filter_providers s rc (c_provs rc) in
  s1 <- of_opt (transfer (User cons) Escrow (sum_prices el) s) ;;
  let s2 := emit (EvDebit c cons (sum_prices el)) s1 in
  let s3 := initiate_requests s2 c [mprov] in
  let r : ReqId := (c, c_counter rc + 1, height s, 0) in
  add_response_any cfg s3 r mprov code out out_valid.

(* handleMsgCallService, module-service branch.  `provs timeout super rep freq total` are the
   fields of the MESSAGE: ValidateBasic judges them, the handler then ignores them. *)
Definition h_call_modsvc (cfg : Params) (s : State) (c : CtxId) (svc : Z) (provs : list Z)
    (cons input : Z) (cap : Coins) (timeout : Z) (super rep : bool) (freq total : Z)
    (input_ok ok : bool) (mprov code out : Z) (out_valid : bool) : Res State :=
  check ok ;;
  check valid_request provs timeout rep freq total ;;
  check (svc =? p_modsvc cfg) ;;
  s1 <- create_context cfg s c svc [mprov] cons input cap 1 false false 0 0 0 0 input_ok ;;
  request_module_service cfg s1 c cons mprov code out out_valid.

(* ------------------------------------------------------------------ *)
(* the machine: the parameter machine plus the module-service call *)

Inductive XOp : Type :=
| XP (p : POp)
| XCallMod (c : CtxId) (svc : Z) (provs : list Z) (consumer input : Z) (cap : Coins) (timeout : Z)
           (super rep : bool) (freq total : Z) (input_ok ok : bool)
           (mprov code out : Z) (out_valid : bool).

Definition xstep (cs : Params * State) (o : XOp) : (Params * State) * Outcome :=
  match o with
  | XP p => pstep cs p
  | XCallMod c svc provs cn input cap timeout super rep freq total input_ok ok mprov code out ov =>
      let (cfg, s) := cs in
      match h_call_modsvc cfg s c svc provs cn input cap timeout super rep freq total
              input_ok ok mprov code out ov with
      | Ok s' => ((cfg, s'), ROk)
      | Err => ((cfg, s), RErr)
      | Panic => ((cfg, s), RPanic)
      end
  end.

Definition xrun (cs : Params * State) (ops : list XOp) : Params * State :=
  fold_left (fun st o => fst (xstep st o)) ops cs.

(* X-K3 as a predicate on histories: no module-service call *)
Definition is_callmod (o : XOp) : bool := match o with XCallMod _ _ _ _ _ _ _ _ _ _ _ _ _ _ _ _ _ => true | _ => false end.
Definition k3_free (ops : list XOp) : bool := forallb (fun o => negb (is_callmod o)) ops.
Definition pop_of (o : XOp) : option POp := match o with XP p => Some p | _ => None end.
