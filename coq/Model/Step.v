(* The state machine: operations, one atomic step per message (baseapp's
   cache-wrap: a failed message leaves no trace), and EndBlock. *)
From Coq Require Import List ZArith Bool.
From SVC Require Import Base.AMap Base.Res Base.Dec Model.Types Model.Pricing
  Model.Handlers Model.EndBlock.
Import ListNotations.
Open Scope Z_scope.

Inductive Op : Type :=
| ODefine (svc content : Z) (ok : bool)
| OBind (svc prov : Z) (dep : Coins) (pr : option RawPricing) (qos owner : Z) (ok : bool)
| OUpdate (svc prov : Z) (dep : Coins) (pr : option (option RawPricing)) (qos owner : Z) (ok : bool)
| ODisable (svc prov owner : Z) (ok : bool)
| OEnable (svc prov : Z) (dep : Coins) (owner : Z) (ok : bool)
| ORefundDep (svc prov owner : Z) (ok : bool)
| OSetWd (owner addr : Z) (ok : bool)
| OCall (c : CtxId) (svc : Z) (provs : list Z) (consumer input : Z) (cap : Coins) (timeout : Z)
        (super rep : bool) (freq total : Z) (input_ok ok : bool)
| OModCall (c : CtxId) (svc : Z) (provs : list Z) (consumer input : Z) (cap : Coins) (timeout : Z)
        (super rep : bool) (freq total thr md : Z) (input_ok : bool)
| ORespond (r : ReqId) (who code out : Z) (out_valid ok : bool)
| OPause (c : CtxId) (who : Z) (ok : bool)
| OStart (c : CtxId) (who : Z) (ok : bool)
| OKill (c : CtxId) (who : Z) (ok : bool)
| OUpdateCtx (c : CtxId) (who : Z) (provs : list Z) (cap : Coins) (timeout freq total : Z) (ok : bool)
| OWithdraw (owner prov : Z) (ok : bool)
| OTransfer (from to amt : Z)
| OEndBlock (dt : Z)
(* the keeper API driven by the module that owns the context (no message, no signer) *)
| OModUpdate (c : CtxId) (who : Z) (provs : list Z) (thr : Z) (cap : Coins) (timeout freq total : Z)
| OModPause (c : CtxId) (who : Z)
| OModStart (c : CtxId) (who : Z)
| OModKill (c : CtxId) (who : Z).

Inductive Outcome : Type := ROk | RErr | RPanic.

Definition handle (cfg : Params) (s : State) (o : Op) : Res State :=
  match o with
  | ODefine svc content ok => h_define s svc content ok
  | OBind svc prov dep pr qos owner ok => h_bind cfg s svc prov dep pr qos owner ok
  | OUpdate svc prov dep pr qos owner ok => h_update cfg s svc prov dep pr qos owner ok
  | ODisable svc prov owner ok => h_disable s svc prov owner ok
  | OEnable svc prov dep owner ok => h_enable cfg s svc prov dep owner ok
  | ORefundDep svc prov owner ok => h_refund_deposit cfg s svc prov owner ok
  | OSetWd owner addr ok => h_set_withdraw s owner addr ok
  | OCall c svc provs consumer input cap timeout super rep freq total input_ok ok =>
      h_call cfg s c svc provs consumer input cap timeout super rep freq total input_ok ok
  | OModCall c svc provs consumer input cap timeout super rep freq total thr md input_ok =>
      create_context cfg s c svc provs consumer input cap timeout super rep freq total thr md input_ok
  | ORespond r who code out out_valid ok => h_respond cfg s r who code out out_valid ok
  | OPause c who ok => h_pause s c who ok
  | OStart c who ok => h_start s c who ok
  | OKill c who ok => h_kill s c who ok
  | OUpdateCtx c who provs cap timeout freq total ok =>
      h_update_ctx cfg s c who provs cap timeout freq total ok
  | OWithdraw owner prov ok => h_withdraw s owner prov ok
  | OTransfer from to amt => h_transfer s from to amt
  | OEndBlock dt => Ok (end_block cfg s dt)
  | OModUpdate c who provs thr cap timeout freq total =>
      h_mod_update cfg s c who provs thr cap timeout freq total
  | OModPause c who => h_mod_pause s c who
  | OModStart c who => h_mod_start s c who
  | OModKill c who => h_mod_kill s c who
  end.

Definition step (cfg : Params) (s : State) (o : Op) : State * Outcome :=
  match handle cfg s o with
  | Ok s' => (s', ROk)
  | Err => (s, RErr)
  | Panic => (s, RPanic)
  end.

Definition init (h0 t0 : Z) (funding : list (Z * Z)) : State :=
  let bank0 := fold_left (fun m af => set (User (fst af)) (get0 (User (fst af)) m + snd af) m)
                 funding [] in
  mkState h0 t0 [] [] [] [] [] [] [] [] [] [] [] [] [] [] [] [] [] bank0
    (fold_right (fun af a => snd af + a) 0 funding) [].

Definition run (cfg : Params) (s : State) (ops : list Op) : State :=
  fold_left (fun st o => fst (step cfg st o)) ops s.
