(* The message handlers of irismod/service as total functions State -> Res State.
   One definition per keeper entry point; see DESIGN.md section 3.7 for the
   contract and the Go function each one mirrors. *)
From Coq Require Import List ZArith Bool.
From SVC Require Import Base.AMap Base.Res Base.Dec Model.Types Model.Pricing.
Import ListNotations.
Open Scope Z_scope.
Open Scope res_scope.

(* ------------------------------------------------------------------ *)
(* small helpers *)

Definition get0 {K} `{EqDec K} (k : K) (m : amap K Z) : Z :=
  match get k m with Some v => v | None => 0 end.

Definition bal (s : State) (a : Acct) : Z := get0 a (bank s).

Definition emit (e : Event) (s : State) : State := set_log s (e :: log s).

(* bank: SendCoins between two accounts; None = insufficient funds *)
Definition transfer (from to : Acct) (amt : Z) (s : State) : option State :=
  if (amt <? 0) || (bal s from <? amt) then None
  else
    let b1 := set from (bal s from - amt) (bank s) in
    Some (set_bank s (set to (get0 to b1 + amt) b1)).

(* bank: BurnCoins from the deposit module account *)
Definition burn_deposit (amt : Z) (s : State) : option State :=
  if (amt <? 0) || (bal s Deposit <? amt) then None
  else Some (set_supply (set_bank s (set Deposit (bal s Deposit - amt) (bank s))) (supply s - amt)).

Definition of_opt {A} (o : option A) : Res A :=
  match o with Some a => Ok a | None => Err end.

Definition TIME0 : Z := -1.     (* time.Time{} *)

Definition zero_pricing : Pricing := mkPricing 0 [] [].

Definition zero_ctx : Ctx :=
  mkCtx 0 [] 0 0 0 0 false false 0 0 0 0 0 0 false Running 0 0.

Definition len {A} (l : list A) : Z := Z.of_nat (length l).

Fixpoint nodupb (l : list Z) : bool :=
  match l with [] => true | a :: t => negb (mem a t) && nodupb t end.

(* coin-list arguments of messages *)
Inductive Coins : Type := CEmpty | CBase (amt : Z) | COther.

(* keeper.validateDeposit / validateServiceFeeCap: exactly one coin of the base denom *)
Definition one_base_coin (c : Coins) : Res Z :=
  match c with CBase a => if 0 <? a then Ok a else Err | _ => Err end.

Definition coins_empty (c : Coins) : bool := match c with CEmpty => true | _ => false end.

Definition pricing_of (s : State) (k : BKey) : Pricing :=
  match get k (pricing s) with Some p => p | None => zero_pricing end.

Definition vol_of (s : State) (cons svc prov : Z) : Z := get0 (cons, svc, prov) (vols s).

(* int64 arithmetic where the code converts user-supplied uint64 values *)
Definition TWO63 : Z := 9223372036854775808.
Definition TWO64 : Z := 18446744073709551616.
Definition wrap_i64 (x : Z) : Z := ((x + TWO63) mod TWO64) - TWO63.

(* ------------------------------------------------------------------ *)
(* definitions *)

Definition h_define (s : State) (svc content : Z) (ok : bool) : Res State :=
  check ok ;;
  match get svc (defs s) with
  | Some _ => Err
  | None => Ok (set_defs s (set svc content (defs s)))
  end.

(* ------------------------------------------------------------------ *)
(* bindings *)

Definition put_binding (s : State) (k : BKey) (b : Binding) : State :=
  set_binds s (set k b (binds s)).

Definition pay_deposit (s : State) (k : BKey) (owner amt : Z) : Res State :=
  s1 <- of_opt (transfer (User owner) Deposit amt s) ;;
  Ok (emit (EvDepositIn k owner amt) s1).

Definition h_bind (cfg : Params) (s : State) (svc prov : Z) (dep : Coins)
    (pr : option RawPricing) (qos owner : Z) (ok : bool) : Res State :=
  check ok ;;
  check negb (svc =? p_modsvc cfg) ;;
  check has svc (defs s) ;;
  check negb (has (svc, prov) (binds s)) ;;
  check (match get prov (owner_of s) with Some o => o =? owner | None => true end) ;;
  amt <- one_base_coin dep ;;
  check (qos <=? p_max_timeout cfg) ;;
  raw <- of_opt pr ;;
  let p := parse_pricing raw in
  check validate_pricing p ;;
  check schema_pricing p ;;
  md <- min_deposit cfg p ;;
  check (md <=? amt) ;;
  s1 <- pay_deposit s (svc, prov) owner amt ;;
  let b := mkBinding amt raw qos true TIME0 owner in
  let s2 := put_binding s1 (svc, prov) b in
  let s3 := set_own_bind s2 (ladd (owner, svc, prov) (own_bind s2)) in
  let s4 := set_pricing s3 (set (svc, prov) p (pricing s3)) in
  match get prov (owner_of s4) with
  | Some _ => Ok s4
  | None =>
      let s5 := set_owner_of s4 (set prov owner (owner_of s4)) in
      Ok (set_own_prov s5 (ladd (owner, prov) (own_prov s5)))
  end.

(* validateDeposit, then binding.Deposit.Add(deposit...): sdk.Int.Add panics ("Int overflow")
   when the sum does not fit 255 bits (known finding K6) *)
Definition add_deposit_amt (cur : Z) (dep : Coins) : Res Z :=
  a <- one_base_coin dep ;;
  if cur + a <? INT_LIMIT then Ok a else Panic.

Definition h_update (cfg : Params) (s : State) (svc prov : Z) (dep : Coins)
    (pr : option (option RawPricing)) (qos owner : Z) (ok : bool) : Res State :=
  check ok ;;
  b <- of_opt (get (svc, prov) (binds s)) ;;
  check (b_owner b =? owner) ;;
  check ((qos =? 0) || (qos <=? p_max_timeout cfg)) ;;
  let b1 := if qos =? 0 then b else setb_qos b qos in
  amt <- (if coins_empty dep then Ok 0 else add_deposit_amt (b_deposit b1) dep) ;;
  let b2 := setb_deposit b1 (b_deposit b1 + amt) in
  newp <- (match pr with
           | None => Ok None
           | Some None => Err
           | Some (Some raw) =>
               let p := parse_pricing raw in
               check validate_pricing p ;;
               check schema_pricing p ;;
               Ok (Some (raw, p))
           end) ;;
  let updated := negb (qos =? 0) || negb (coins_empty dep)
                 || (match pr with Some _ => true | None => false end) in
  let p_eff := match newp with Some (_, p) => p | None => pricing_of s (svc, prov) end in
  _ <- (if b_avail b && updated
        then md <- min_deposit cfg p_eff ;; check (md <=? b_deposit b2) ;; Ok tt
        else Ok tt) ;;
  s1 <- (if coins_empty dep then Ok s else pay_deposit s (svc, prov) owner amt) ;;
  if updated then
    match newp with
    | Some (raw, p) =>
        let s2 := put_binding s1 (svc, prov) (setb_raw b2 raw) in
        Ok (set_pricing s2 (set (svc, prov) p (pricing s2)))
    | None => Ok (put_binding s1 (svc, prov) b2)
    end
  else Ok s1.

Definition h_disable (s : State) (svc prov owner : Z) (ok : bool) : Res State :=
  check ok ;;
  b <- of_opt (get (svc, prov) (binds s)) ;;
  check (b_owner b =? owner) ;;
  check b_avail b ;;
  Ok (put_binding s (svc, prov) (setb_dtime (setb_avail b false) (time s))).

Definition h_enable (cfg : Params) (s : State) (svc prov : Z) (dep : Coins)
    (owner : Z) (ok : bool) : Res State :=
  check ok ;;
  b <- of_opt (get (svc, prov) (binds s)) ;;
  check (b_owner b =? owner) ;;
  check negb (b_avail b) ;;
  amt <- (if coins_empty dep then Ok 0 else add_deposit_amt (b_deposit b) dep) ;;
  let b1 := setb_deposit b (b_deposit b + amt) in
  md <- min_deposit cfg (pricing_of s (svc, prov)) ;;
  check (md <=? b_deposit b1) ;;
  s1 <- (if coins_empty dep then Ok s else pay_deposit s (svc, prov) owner amt) ;;
  Ok (put_binding s1 (svc, prov) (setb_dtime (setb_avail b1 true) TIME0)).

Definition h_refund_deposit (cfg : Params) (s : State) (svc prov owner : Z) (ok : bool)
    : Res State :=
  check ok ;;
  b <- of_opt (get (svc, prov) (binds s)) ;;
  check (b_owner b =? owner) ;;
  check negb (b_avail b) ;;
  check negb (b_deposit b =? 0) ;;
  check (b_dtime b + p_arb cfg + p_compl cfg <=? time s) ;;
  s1 <- of_opt (transfer Deposit (User (b_owner b)) (b_deposit b) s) ;;
  Ok (emit (EvDepositOut (svc, prov) (b_owner b) (b_deposit b))
        (put_binding s1 (svc, prov) (setb_deposit b 0))).

(* Address atoms 9001..9004 stand for module accounts the bank keeper blocks as receivers
   (service request account, service deposit account, fee collector, one foreign module account):
   bankKeeper.BlockedAddr. acct_of resolves an arbitrary address to the account it denotes. *)
Definition ESCROW_ADDR : Z := 9001.
Definition DEPOSIT_ADDR : Z := 9002.
Definition FEECOLL_ADDR : Z := 9003.
Definition is_blocked (a : Z) : bool := (9001 <=? a) && (a <=? 9004).
Definition acct_of (a : Z) : Acct :=
  if a =? ESCROW_ADDR then Escrow
  else if a =? DEPOSIT_ADDR then Deposit
  else if a =? FEECOLL_ADDR then FeeColl
  else User a.

Definition h_set_withdraw (s : State) (owner addr : Z) (ok : bool) : Res State :=
  check ok ;;
  check negb (is_blocked addr) ;;
  Ok (set_wdaddr s (set owner addr (wdaddr s))).

(* ------------------------------------------------------------------ *)
(* queues *)

Definition add_newq (s : State) (c : CtxId) (h : Z) : State :=
  set_newq_h (set_newq s (ladd (h, c) (newq s))) (set c h (newq_h s)).
Definition del_newq (s : State) (c : CtxId) (h : Z) : State :=
  set_newq_h (set_newq s (lrem (h, c) (newq s))) (del c (newq_h s)).
Definition add_expq (s : State) (c : CtxId) (h : Z) : State :=
  set_expq_h (set_expq s (ladd (h, c) (expq s))) (set c h (expq_h s)).
Definition del_expq (s : State) (c : CtxId) (h : Z) : State :=
  set_expq_h (set_expq s (lrem (h, c) (expq s))) (del c (expq_h s)).

Definition put_ctx (s : State) (c : CtxId) (rc : Ctx) : State :=
  set_ctxs s (set c rc (ctxs s)).
Definition del_ctx (s : State) (c : CtxId) : State :=
  emit (EvCtxRemoved c) (set_ctxs s (del c (ctxs s))).

(* ------------------------------------------------------------------ *)
(* request contexts *)

(* types.ValidateRequest, numeric part *)
Definition valid_request (provs : list Z) (timeout : Z) (rep : bool) (freq total : Z) : bool :=
  (1 <=? len provs) && (len provs <=? 10) && nodupb provs && (0 <? timeout)
  && (if rep
      then ((freq =? 0) || (timeout <=? freq)) && ((total =? -1) || (1 <=? total))
      else true).

(* keeper.CreateRequestContext; md = 0 for a context created by MsgCallService *)
Definition create_context (cfg : Params) (s : State) (c : CtxId) (svc : Z) (provs : list Z)
    (cons input : Z) (cap : Coins) (timeout : Z) (super rep : bool) (freq total thr md : Z)
    (input_ok : bool) : Res State :=
  check ((md =? 0)
         || ((md =? p_cbmod cfg) && valid_request provs timeout rep freq total
             && (1 <=? thr) && (thr <=? len provs))) ;;
  check has svc (defs s) ;;
  check input_ok ;;
  capv <- one_base_coin cap ;;
  check (timeout <=? p_max_timeout cfg) ;;
  let freq' := if rep then (if freq =? 0 then timeout else freq) else 0 in
  let total' := if rep then total else 0 in
  let rc := mkCtx svc provs cons input capv timeout super rep freq' total'
                  0 0 0 thr true Running thr md in
  Ok (add_newq (emit (EvCtxCreated c) (put_ctx s c rc)) c (height s)).

Definition h_call (cfg : Params) (s : State) (c : CtxId) (svc : Z) (provs : list Z)
    (cons input : Z) (cap : Coins) (timeout : Z) (super rep : bool) (freq total : Z)
    (input_ok ok : bool) : Res State :=
  check ok ;;
  check valid_request provs timeout rep freq total ;;
  (* a service reserved by a module takes the RequestModuleService path, which is
     outside the model (known finding K3; excluded by wf_op) *)
  check negb (svc =? p_modsvc cfg) ;;
  create_context cfg s c svc provs cons input cap timeout super rep freq total 0 0 input_ok.

(* handler.go: CheckAuthority(..., true) *)
Definition authorized (s : State) (c : CtxId) (who : Z) : Res Ctx :=
  rc <- of_opt (get c (ctxs s)) ;;
  check (c_cons rc =? who) ;;
  check (c_mod rc =? 0) ;;
  Ok rc.

Definition is_state (rc : Ctx) (st : CState) : bool := cstate_eqb (c_state rc) st.

Definition h_pause (s : State) (c : CtxId) (who : Z) (ok : bool) : Res State :=
  check ok ;;
  rc <- authorized s c who ;;
  check c_rep rc ;;
  check is_state rc Running ;;
  Ok (put_ctx s c (setc_state rc Paused)).

Definition h_start (s : State) (c : CtxId) (who : Z) (ok : bool) : Res State :=
  check ok ;;
  rc <- authorized s c who ;;
  check is_state rc Paused ;;
  let s1 := put_ctx s c (setc_state rc Running) in
  if negb (has c (expq_h s1)) && negb (has c (newq_h s1))
  then Ok (add_newq s1 c (height s1))
  else Ok s1.

Definition h_kill (s : State) (c : CtxId) (who : Z) (ok : bool) : Res State :=
  check ok ;;
  rc <- authorized s c who ;;
  check c_rep rc ;;
  Ok (put_ctx s c (setc_state rc Completed)).

(* types.ValidateRequestContextUpdating, numeric part *)
Definition valid_update (provs : list Z) (timeout freq total : Z) : bool :=
  (len provs <=? 10) && nodupb provs && (0 <=? timeout)
  && ((timeout =? 0) || (freq =? 0) || (timeout <=? freq)) && (-1 <=? total).

(* keeper.UpdateRequestContext from the service-fee cap on: shared by the message and by the
   call of the owning module *)
Definition update_ctx_tail (cfg : Params) (s : State) (c : CtxId) (rc : Ctx) (provs : list Z)
    (cap : Coins) (timeout freq total : Z) : Res State :=
  rc1 <- (if coins_empty cap then Ok rc
          else capv <- one_base_coin cap ;; Ok (setc_cap rc capv)) ;;
  check (timeout <=? p_max_timeout cfg) ;;
  let t := if timeout =? 0 then c_timeout rc1 else timeout in
  let f := if freq =? 0 then c_freq rc1 else freq in
  check negb (f <? t) ;;
  check negb ((1 <=? total) && (total <? c_counter rc1)) ;;
  let rc2 := match provs with [] => rc1 | _ => setc_provs rc1 provs end in
  let rc3 := if 0 <? t then setc_timeout rc2 t else rc2 in
  let rc4 := if 0 <? f then setc_freq rc3 f else rc3 in
  let rc5 := if total =? 0 then rc4 else setc_total rc4 total in
  Ok (put_ctx s c rc5).

Definition h_update_ctx (cfg : Params) (s : State) (c : CtxId) (who : Z) (provs : list Z)
    (cap : Coins) (timeout freq total : Z) (ok : bool) : Res State :=
  check ok ;;
  check valid_update provs timeout freq total ;;
  rc <- authorized s c who ;;
  check negb (is_state rc Completed) ;;
  update_ctx_tail cfg s c rc provs cap timeout freq total.

(* ------------------------------------------------------------------ *)
(* the keeper API as called by the module that owns a context
   (keeper.{Update,Pause,Start,Kill}RequestContext with CheckAuthority(..., false)).
   There is no message, hence no ValidateBasic flag.  The keeper checks the consumer
   only when the context carries a module name; calls aimed at a context without one
   are not issued by any module (excluded by wf_op), so the check is modelled
   unconditionally. *)
Definition authorized_mod (s : State) (c : CtxId) (who : Z) : Res Ctx :=
  rc <- of_opt (get c (ctxs s)) ;;
  check (c_cons rc =? who) ;;
  Ok rc.

(* the response threshold requested by the module: 0 = keep; bounded by the number of
   providers after the update; BatchResponseThreshold (c_bthr) is NOT touched here *)
Definition thr_update (rc : Ctx) (provs : list Z) (thr : Z) : Res Ctx :=
  let thr' := if thr =? 0 then c_thr rc else thr in
  let provs' := match provs with [] => c_provs rc | _ => provs end in
  check (thr' <=? len provs') ;;
  Ok (if 0 <? thr' then setc_thr rc thr' else rc).

Definition h_mod_update (cfg : Params) (s : State) (c : CtxId) (who : Z) (provs : list Z)
    (thr : Z) (cap : Coins) (timeout freq total : Z) : Res State :=
  rc <- authorized_mod s c who ;;
  check negb (is_state rc Completed) ;;
  rc0 <- (if c_mod rc =? 0 then Ok rc
          else check valid_update provs timeout freq total ;; thr_update rc provs thr) ;;
  update_ctx_tail cfg s c rc0 provs cap timeout freq total.

Definition h_mod_pause (s : State) (c : CtxId) (who : Z) : Res State :=
  rc <- authorized_mod s c who ;;
  check c_rep rc ;;
  check is_state rc Running ;;
  Ok (put_ctx s c (setc_state rc Paused)).

Definition h_mod_start (s : State) (c : CtxId) (who : Z) : Res State :=
  rc <- authorized_mod s c who ;;
  check is_state rc Paused ;;
  let s1 := put_ctx s c (setc_state rc Running) in
  if negb (has c (expq_h s1)) && negb (has c (newq_h s1))
  then Ok (add_newq s1 c (height s1))
  else Ok s1.

Definition h_mod_kill (s : State) (c : CtxId) (who : Z) : Res State :=
  rc <- authorized_mod s c who ;;
  check c_rep rc ;;
  Ok (put_ctx s c (setc_state rc Completed)).

(* ------------------------------------------------------------------ *)
(* requests, responses, fees *)

(* order of store keys: context ids and request ids compare field by field *)
Definition ctxid_leb (a b : CtxId) : bool :=
  (fst a <? fst b) || ((fst a =? fst b) && (snd a <=? snd b)).

Definition rid_leb (a b : ReqId) : bool :=
  let ca := rid_ctx a in let cb := rid_ctx b in
  if negb (eqb ca cb) then ctxid_leb ca cb
  else if negb (rid_batch a =? rid_batch b) then rid_batch a <? rid_batch b
  else if negb (rid_height a =? rid_height b) then rid_height a <? rid_height b
  else rid_index a <=? rid_index b.

Section Sort.
  Context {A : Type} (leb : A -> A -> bool).
  Fixpoint insert (a : A) (l : list A) : list A :=
    match l with
    | [] => [a]
    | b :: t => if leb a b then a :: l else b :: insert a t
    end.
  Fixpoint isort (l : list A) : list A :=
    match l with [] => [] | a :: t => insert a (isort t) end.
End Sort.

Definition in_batch (c : CtxId) (counter : Z) (r : ReqId) : bool :=
  eqb (rid_ctx r) c && (rid_batch r =? counter).

(* request ids of a batch, in store order *)
Definition batch_rids (s : State) (c : CtxId) (counter : Z) : list ReqId :=
  isort rid_leb (filter (in_batch c counter) (keys (reqs s))).

Definition active_rids (s : State) (c : CtxId) (counter : Z) : list ReqId :=
  isort rid_leb
    (map fst (filter (fun kv => in_batch c counter (fst kv) && r_active (snd kv)) (reqs s))).

(* GetResponseOutputs: the non-empty outputs of a batch's responses in store order *)
Definition batch_outputs (s : State) (c : CtxId) (counter : Z) : list Z :=
  let rids := isort rid_leb (filter (in_batch c counter) (keys (resps s))) in
  filter (fun o => negb (o =? 0))
    (map (fun r => match get r (resps s) with Some x => rs_out x | None => 0 end) rids).

(* keeper.Callback: reads the context from the store *)
Definition callback (s : State) (c : CtxId) : State :=
  match get c (ctxs s) with
  | None => s
  | Some rc =>
      let outs := batch_outputs s c (c_counter rc) in
      emit (EvCbResp c (c_counter rc) outs (len outs <? c_bthr rc)) s
  end.

(* keeper.CompleteBatch on a context value; returns the updated value *)
Definition complete_batch (s : State) (c : CtxId) (rc : Ctx) : State * Ctx :=
  let s1 := if c_mod rc =? 0 then s else callback s c in
  (emit (EvBatchDone c (c_counter rc)) s1, setc_bdone rc true).

Definition deactivate (s : State) (r : ReqId) : State :=
  match get r (reqs s) with
  | Some q => set_reqs s (set r (setr_active q false) (reqs s))
  | None => s
  end.

(* keeper.Slash *)
Definition slash (cfg : Params) (s : State) (r : ReqId) : Res State :=
  q <- of_opt (get r (reqs s)) ;;
  rc <- of_opt (get (rid_ctx r) (ctxs s)) ;;
  let k := (c_svc rc, r_prov q) in
  b <- of_opt (get k (binds s)) ;;
  let amt := mul_trunc (b_deposit b) (p_slash cfg) in
  check (amt <=? b_deposit b) ;;
  s1 <- of_opt (burn_deposit amt s) ;;
  let b1 := setb_deposit b (b_deposit b - amt) in
  b2 <- (if b_avail b1
         then md <- min_deposit cfg (pricing_of s1 k) ;;
              Ok (if b_deposit b1 <? md
                  then setb_dtime (setb_avail b1 false) (time s1) else b1)
         else Ok b1) ;;
  Ok (emit (EvSlash r k amt) (put_binding s1 k b2)).

Definition refund_fee (s : State) (r : ReqId) (cons fee : Z) : option State :=
  match transfer Escrow (User cons) fee s with
  | Some s1 => Some (emit (EvRefund r cons fee) s1)
  | None => None
  end.

Definition add_to {K} `{EqDec K} (k : K) (e : Z) (m : amap K Z) : amap K Z :=
  let n := get0 k m + e in
  if n =? 0 then m else set k n m.

(* keeper.AddEarnedFee *)
Definition add_earned_fee (cfg : Params) (s : State) (r : ReqId) (prov fee : Z) : Res State :=
  let tax := mul_trunc fee (p_tax cfg) in
  s1 <- of_opt (transfer Escrow FeeColl tax s) ;;
  check (tax <=? fee) ;;
  let e := fee - tax in
  let s2 := set_earned s1 (add_to prov e (earned s1)) in
  match get prov (owner_of s2) with
  | None => Panic   (* scan of the bare owner prefix; unreachable, see Proofs *)
  | Some o =>
      Ok (emit (EvEarn r prov e) (emit (EvTax r tax)
            (set_own_earned s2 (add_to o e (own_earned s2)))))
  end.

(* keeper.AddResponse; out = 0 means no output *)
Definition h_respond (cfg : Params) (s : State) (r : ReqId) (who code out : Z)
    (out_valid ok : bool) : Res State :=
  check ok ;;
  q <- of_opt (get r (reqs s)) ;;
  rc0 <- of_opt (get (rid_ctx r) (ctxs s)) ;;
  check (who =? r_prov q) ;;
  check r_active q ;;
  s1 <- (if negb (out =? 0) && negb out_valid
         then match slash cfg s r with
              | Ok sa => match refund_fee sa r (c_cons rc0) (r_fee q) with
                         | Some sb => Ok sb
                         | None => Panic
                         end
              | _ => Panic
              end
         else add_earned_fee cfg s r who (r_fee q)) ;;
  let s2 := set_resps s1 (set r (mkResp who (c_cons rc0) code out) (resps s1)) in
  let s3 := deactivate s2 r in
  let vk := (c_cons rc0, c_svc rc0, who) in
  let s4 := set_vols s3 (set vk (get0 vk (vols s3) + 1) (vols s3)) in
  let s5 := emit (EvRespond r) s4 in
  let c := rid_ctx r in
  match get c (ctxs s5) with
  | None => Panic
  | Some rc =>
      let rc1 := setc_bresp rc (c_bresp rc + 1) in
      if c_bresp rc1 =? c_breq rc1
      then let '(s6, rc2) := complete_batch s5 c rc1 in Ok (put_ctx s6 c rc2)
      else Ok (put_ctx s5 c rc1)
  end.

(* keeper.WithdrawEarnedFees; prov = 0 means "all providers of the owner" *)
Definition h_withdraw (s : State) (owner prov : Z) (ok : bool) : Res State :=
  check ok ;;
  check ((prov =? 0)
         || match get prov (owner_of s) with Some o => o =? owner | None => false end) ;;
  let oe := get0 owner (own_earned s) in
  let dest := match get owner (wdaddr s) with Some a => a | None => owner end in
  let dacct := match get owner (wdaddr s) with Some a => acct_of a | None => User owner end in
  if prov =? 0 then
    let provs := map snd (filter (fun op => fst op =? owner) (own_prov s)) in
    let s1 := set_earned s (fold_left (fun m p => del p m) provs (earned s)) in
    let s2 := set_own_earned s1 (del owner (own_earned s1)) in
    s3 <- of_opt (transfer Escrow dacct oe s2) ;;
    Ok (emit (EvWithdraw owner dest oe) s3)
  else
    let e := get0 prov (earned s) in
    let s1 := set_earned s (del prov (earned s)) in
    s2 <- (if e =? oe then Ok (set_own_earned s1 (del owner (own_earned s1)))
           else if oe - e <? 0 then Panic
           else Ok (set_own_earned s1 (set owner (oe - e) (own_earned s1)))) ;;
    s3 <- of_opt (transfer Escrow dacct e s2) ;;
    Ok (emit (EvWithdraw owner dest e) s3).

Definition h_transfer (s : State) (from to amt : Z) : Res State :=
  check (0 <? amt) ;;
  of_opt (transfer (User from) (User to) amt s).
