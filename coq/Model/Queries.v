(* The queries of irismod/service (property C17), one function per query and
   per interface, written after the CODE PATH of keeper/grpc_query.go and
   keeper/querier.go (which index is scanned, which record is then looked up,
   what happens when a lookup fails) - not after the specification. The
   specification and the proofs that the two agree are in Proofs/QueryProofs.v.

   State layout reminders: the two active-request marker indexes of the code
   (0x14 by binding, 0x15 by id) are the boolean r_active of a request record;
   request height, context id and batch counter of a request are read off its id.

   The single-record queries RequestContext / Request / Response are modelled
   with the `found` flag honoured (absent id => not-found answer). *)
From Coq Require Import List ZArith Bool.
From SVC Require Import Base.AMap Base.Res Base.Dec Model.Types Model.Pricing Model.Handlers.
Import ListNotations.
Open Scope Z_scope.

(* answer of a query: a value, the query's not-found error, any other error *)
Inductive Ans (A : Type) : Type :=
| AOk (a : A)
| ANotFound
| AErr.
Arguments AOk {A} a.
Arguments ANotFound {A}.
Arguments AErr {A}.

Definition of_lookup {A} (o : option A) : Ans A :=
  match o with Some a => AOk a | None => ANotFound end.

(* types.Request: a compact request record joined with its context *)
Record FullReq : Type := mkFullReq {
  fr_id : ReqId;
  fr_svc : Z;
  fr_prov : Z;
  fr_cons : Z;
  fr_input : Z;
  fr_fee : Z;
  fr_super : bool;
  fr_height : Z;
  fr_exp : Z;
  fr_ctx : CtxId;
  fr_batch : Z
}.

Definition join_request (r : ReqId) (q : Req) (rc : Ctx) : FullReq :=
  mkFullReq r (c_svc rc) (r_prov q) (c_cons rc) (c_input rc) (r_fee q) (c_super rc)
            (rid_height r) (r_exp q) (rid_ctx r) (rid_batch r).

Definition zero_request : FullReq :=
  mkFullReq ((0, 0), 0, 0, 0) 0 0 0 0 0 false 0 0 (0, 0) 0.

(* ------------------------------------------------------------------ *)
(* keeper level *)

(* keeper.GetRequest: compact record, then its context; not found if either is missing *)
Definition get_request (s : State) (r : ReqId) : option FullReq :=
  match get r (reqs s) with
  | None => None
  | Some q =>
      match get (rid_ctx r) (ctxs s) with
      | None => None
      | Some rc => Some (join_request r q rc)
      end
  end.

(* `request, _ := k.GetRequest(...)` inside the listings *)
Definition request_or_zero (s : State) (r : ReqId) : FullReq :=
  match get_request s r with Some x => x | None => zero_request end.

(* ServiceBindingsIterator: scan of the binding records of one service *)
Definition bindings_of_service (s : State) (svc : Z) : list (BKey * Binding) :=
  filter (fun kb => fst (fst kb) =? svc) (binds s).

(* GetOwnerServiceBindings: scan of the owner->binding index entries of (owner, service),
   each looked up in the binding records; entries without a record are skipped *)
Definition bindings_of_owner (s : State) (owner svc : Z) : list (BKey * Binding) :=
  flat_map (fun e : Z * Z * Z =>
              let o := fst (fst e) in let sv := snd (fst e) in let p := snd e in
              if (o =? owner) && (sv =? svc) then
                match get (sv, p) (binds s) with
                | Some b => [((sv, p), b)]
                | None => []
                end
              else [])
           (own_bind s).

(* GetWithdrawAddress: the owner itself unless an address was set *)
Definition withdraw_address (s : State) (owner : Z) : Z :=
  match get owner (wdaddr s) with Some a => a | None => owner end.

(* store order of the active-request markers of one binding: expiration height, request id *)
Definition act_leb (a b : ReqId * Req) : bool :=
  if negb (r_exp (snd a) =? r_exp (snd b)) then r_exp (snd a) <? r_exp (snd b)
  else rid_leb (fst a) (fst b).

Definition svc_is (s : State) (r : ReqId) (svc : Z) : bool :=
  match get (rid_ctx r) (ctxs s) with Some rc => c_svc rc =? svc | None => false end.

Definition is_active_of (s : State) (svc prov : Z) (kv : ReqId * Req) : bool :=
  r_active (snd kv) && (r_prov (snd kv) =? prov) && svc_is s (fst kv) svc.

(* ActiveRequestsIterator(service, provider) *)
Definition active_requests_of_binding (s : State) (svc prov : Z) : list (ReqId * Req) :=
  isort act_leb (filter (is_active_of s svc prov) (reqs s)).

Definition resp_leb (a b : ReqId * Resp) : bool := rid_leb (fst a) (fst b).

(* ResponsesIteratorByReqCtx *)
Definition responses_of_batch (s : State) (c : CtxId) (batch : Z) : list (ReqId * Resp) :=
  isort resp_leb (filter (fun kv => in_batch c batch (fst kv)) (resps s)).

(* GetEarnedFees: the coins recorded for exactly this provider (none or one, base denom) *)
Definition earned_fees (s : State) (prov : Z) : list Z :=
  match get prov (earned s) with Some v => [v] | None => [] end.

(* ------------------------------------------------------------------ *)
(* gRPC interface (keeper/grpc_query.go) *)

Definition q_definition (s : State) (svc : Z) : Ans Z :=
  of_lookup (get svc (defs s)).

Definition q_binding (s : State) (svc prov : Z) : Ans Binding :=
  of_lookup (get (svc, prov) (binds s)).

(* owner = 0: no owner given *)
Definition q_bindings (s : State) (svc owner : Z) : Ans (list (BKey * Binding)) :=
  AOk (if owner =? 0 then bindings_of_service s svc else bindings_of_owner s owner svc).

Definition q_withdraw_address (s : State) (owner : Z) : Ans Z :=
  AOk (withdraw_address s owner).

Definition q_request_context (s : State) (c : CtxId) : Ans Ctx :=
  of_lookup (get c (ctxs s)).

Definition q_request (s : State) (r : ReqId) : Ans FullReq :=
  of_lookup (get_request s r).

Definition q_requests (s : State) (svc prov : Z) : Ans (list FullReq) :=
  AOk (map (fun kv => request_or_zero s (fst kv)) (active_requests_of_binding s svc prov)).

Definition q_requests_by_ctx (s : State) (c : CtxId) (batch : Z) : Ans (list FullReq) :=
  AOk (map (request_or_zero s) (batch_rids s c batch)).

Definition q_response (s : State) (r : ReqId) : Ans Resp :=
  of_lookup (get r (resps s)).

Definition q_responses (s : State) (c : CtxId) (batch : Z) : Ans (list (ReqId * Resp)) :=
  AOk (responses_of_batch s c batch).

Definition q_earned_fees (s : State) (prov : Z) : Ans (list Z) :=
  AOk (earned_fees s prov).

(* schema names: 1 = "pricing", 2 = "result" *)
Definition q_schema (name : Z) : Ans Z :=
  if name =? 1 then AOk 1 else if name =? 2 then AOk 2 else ANotFound.

Definition q_params (cfg : Params) : Ans Params := AOk cfg.

(* ------------------------------------------------------------------ *)
(* legacy interface (keeper/querier.go). The parameters arrive as amino JSON;
   json_ok = the address argument can be read back from that encoding (it has 20
   bytes), otherwise the querier fails before touching the store. *)

Definition lq_definition (s : State) (svc : Z) : Ans Z :=
  match get svc (defs s) with Some d => AOk d | None => ANotFound end.

Definition lq_binding (json_ok : bool) (s : State) (svc prov : Z) : Ans Binding :=
  if json_ok then
    match get (svc, prov) (binds s) with Some b => AOk b | None => ANotFound end
  else AErr.

Definition lq_bindings (json_ok : bool) (s : State) (svc owner : Z) : Ans (list (BKey * Binding)) :=
  if json_ok then
    if owner =? 0 then AOk (bindings_of_service s svc) else AOk (bindings_of_owner s owner svc)
  else AErr.

Definition lq_withdraw_address (json_ok : bool) (s : State) (owner : Z) : Ans Z :=
  if json_ok then AOk (withdraw_address s owner) else AErr.

Definition lq_request_context (s : State) (c : CtxId) : Ans Ctx :=
  match get c (ctxs s) with Some rc => AOk rc | None => ANotFound end.

Definition lq_request (s : State) (r : ReqId) : Ans FullReq :=
  match get_request s r with Some x => AOk x | None => ANotFound end.

Definition lq_requests (json_ok : bool) (s : State) (svc prov : Z) : Ans (list FullReq) :=
  if json_ok then
    AOk (map (fun kv => request_or_zero s (fst kv)) (active_requests_of_binding s svc prov))
  else AErr.

Definition lq_requests_by_ctx (s : State) (c : CtxId) (batch : Z) : Ans (list FullReq) :=
  AOk (map (request_or_zero s) (batch_rids s c batch)).

Definition lq_response (s : State) (r : ReqId) : Ans Resp :=
  match get r (resps s) with Some x => AOk x | None => ANotFound end.

Definition lq_responses (s : State) (c : CtxId) (batch : Z) : Ans (list (ReqId * Resp)) :=
  AOk (responses_of_batch s c batch).

Definition lq_earned_fees (json_ok : bool) (s : State) (prov : Z) : Ans (list Z) :=
  if json_ok then AOk (earned_fees s prov) else AErr.

Definition lq_schema (name : Z) : Ans Z :=
  if name =? 1 then AOk 1 else if name =? 2 then AOk 2 else ANotFound.

Definition lq_params (cfg : Params) : Ans Params := AOk cfg.

(* ------------------------------------------------------------------ *)
(* Index-consistency predicates the query theorems are stated under. Each is a
   conjunct (or a consequence) of the global invariant; they are kept separate
   and minimal so that they can be discharged from it later. *)

(* the owner->binding index (0x03) lists exactly the bindings, under their owner *)
Definition idx_own_bind_ok (s : State) : Prop :=
  forall o svc p, In (o, svc, p) (own_bind s) <->
                  exists b, get (svc, p) (binds s) = Some b /\ b_owner b = o.

(* every request record has its context (no orphan requests, C16) *)
Definition reqs_have_ctx (s : State) : Prop :=
  forall r q, get r (reqs s) = Some q -> exists rc, get (rid_ctx r) (ctxs s) = Some rc.
