(* abci.go EndBlocker: the expiry phase, then the new-batch phase. *)
From Coq Require Import List ZArith Bool.
From SVC Require Import Base.AMap Base.Res Base.Dec Model.Types Model.Pricing Model.Handlers.
Import ListNotations.
Open Scope Z_scope.
Open Scope res_scope.

Definition ctx_or_zero (s : State) (c : CtxId) : Ctx :=
  match get c (ctxs s) with Some rc => rc | None => zero_ctx end.

(* expiredRequestHandler: slash and refund unless super mode (both errors are
   dropped by the code), then delete the active markers *)
Definition expire_req (cfg : Params) (s : State) (r : ReqId) : State :=
  match get r (reqs s), get (rid_ctx r) (ctxs s) with
  | Some q, Some rc =>
      let s1 :=
        if c_super rc then s
        else
          let sa := match slash cfg s r with Ok x => x | _ => s end in
          match refund_fee sa r (c_cons rc) (r_fee q) with Some x => x | None => sa end in
      emit (EvExpire r) (deactivate s1 r)
  | _, _ => s
  end.

(* CleanBatch *)
Definition clean_batch (s : State) (c : CtxId) (counter : Z) : State :=
  let rids := batch_rids s c counter in
  let s1 := set_reqs s (fold_left (fun m r => del r m) rids (reqs s)) in
  set_resps s1 (fold_left (fun m r => del r m) rids (resps s1)).

Definition to_i64 (x : Z) : Z := if x <? TWO63 then x else x - TWO64.

(* expiredRequestBatchHandler for the context c as loaded by the iterator *)
Definition expire_one (cfg : Params) (s : State) (c : CtxId) : State :=
  let rc := ctx_or_zero s c in
  let H := height s in
  let '(s1, rc1) :=
    if c_bdone rc then (s, rc)
    else
      let s' := fold_left (expire_req cfg) (active_rids s c (c_counter rc)) s in
      complete_batch s' c rc in
  let s2 := put_ctx (del_expq s1 c H) c rc1 in
  let s3 :=
    match c_state rc1 with
    | Completed => del_ctx s2 c
    | Running =>
        if c_rep rc1 && ((c_total rc1 <? 0) || (c_counter rc1 <? c_total rc1))
        then add_newq s2 c (wrap_i64 (H - c_timeout rc1 + to_i64 (c_freq rc1)))
        else del_ctx s2 c
    | Paused => s2
    end in
  clean_batch s3 c (c_counter rc1).

(* FilterServiceProviders: eligible providers with the price charged for each *)
Definition eligible (s : State) (rc : Ctx) (prov : Z) : option Z :=
  match get (c_svc rc, prov) (binds s) with
  | Some b =>
      if b_avail b && (b_qos b <=? c_timeout rc) then
        let price := exchanged_price (pricing_of s (c_svc rc, prov)) (time s)
                       (vol_of s (c_cons rc) (c_svc rc) prov) in
        if price <=? c_cap rc then Some price else None
      else None
  | None => None
  end.

Fixpoint filter_providers (s : State) (rc : Ctx) (provs : list Z) : list (Z * Z) :=
  match provs with
  | [] => []
  | p :: t =>
      match eligible s rc p with
      | Some price => (p, price) :: filter_providers s rc t
      | None => filter_providers s rc t
      end
  end.

Definition sum_prices (l : list (Z * Z)) : Z := fold_right (fun x a => snd x + a) 0 l.

(* buildRequest + SetCompactRequest + AddActiveRequest for the i-th provider *)
Definition issue_one (s : State) (c : CtxId) (rc : Ctx) (counter : Z) (i : Z) (prov : Z) : State :=
  let fee :=
    if c_super rc then 0
    else get_price (pricing_of s (c_svc rc, prov)) (time s)
           (vol_of s (c_cons rc) (c_svc rc) prov) in
  let r : ReqId := (c, counter, height s, i) in
  emit (EvIssue r prov (c_cons rc) fee)
    (set_reqs s (set r (mkReq prov fee (height s + c_timeout rc) true) (reqs s))).

Fixpoint issue_all (s : State) (c : CtxId) (rc : Ctx) (counter : Z) (i : Z) (provs : list Z)
    : State :=
  match provs with
  | [] => s
  | p :: t => issue_all (issue_one s c rc counter i p) c rc counter (i + 1) t
  end.

(* keeper.InitiateRequests: re-reads the context from the store *)
Definition initiate_requests (s : State) (c : CtxId) (provs : list Z) : State :=
  let rc := ctx_or_zero s c in
  let counter := c_counter rc + 1 in
  let s1 := issue_all s c rc counter 0 provs in
  let rc1 := setc_bthr (setc_breq (setc_bresp (setc_bdone
               (setc_counter rc counter) false) 0) (len provs)) (c_thr rc) in
  emit (EvBatchStart c counter (height s) (len provs)) (put_ctx s1 c rc1).

(* keeper.SkipCurrentRequestBatch: works on the context value it is given *)
Definition skip_batch (s : State) (c : CtxId) (rc : Ctx) : State :=
  let counter := c_counter rc + 1 in
  let rc1 := setc_bthr (setc_breq (setc_bresp (setc_bdone
               (setc_counter rc counter) false) 0) 0) (c_thr rc) in
  add_expq (emit (EvBatchStart c counter (height s) 0) (put_ctx s c rc1))
    c (height s + c_timeout rc).

(* keeper.OnRequestContextPaused *)
Definition on_paused (s : State) (c : CtxId) (rc : Ctx) : State :=
  let s1 := put_ctx s c (setc_state (setc_bdone rc true) Paused) in
  if c_mod rc =? 0 then s1 else emit (EvCbState c) s1.

(* newRequestBatchHandler for the context c as loaded by the iterator *)
Definition new_one (cfg : Params) (s : State) (c : CtxId) : State :=
  let rc := ctx_or_zero s c in
  let H := height s in
  if is_state rc Running && c_rep rc && (0 <? c_total rc) && (c_total rc <=? c_counter rc)
  then del_newq (del_ctx s c) c H
  else
    let s1 :=
      if is_state rc Running then
        let el := filter_providers s rc (c_provs rc) in
        if (0 <? len el) && (c_thr rc <=? len el) then
          let paid :=
            if c_super rc then Some s
            else match transfer (User (c_cons rc)) Escrow (sum_prices el) s with
                 | Some x => Some (emit (EvDebit c (c_cons rc) (sum_prices el)) x)
                 | None => None
                 end in
          match paid with
          | Some sp =>
              add_expq (initiate_requests sp c (map fst el)) c (H + c_timeout rc)
          | None => on_paused s c rc
          end
        else skip_batch s c rc
      else s in
    del_newq s1 c H.

Definition due (q : list (Z * CtxId)) (h : Z) : list CtxId :=
  isort ctxid_leb (map snd (filter (fun e => fst e =? h) q)).

Definition end_blocker (cfg : Params) (s : State) : State :=
  let s1 := fold_left (expire_one cfg) (due (expq s) (height s)) s in
  fold_left (new_one cfg) (due (newq s1) (height s1)) s1.

Definition end_block (cfg : Params) (s : State) (dt : Z) : State :=
  let s1 := end_blocker cfg s in
  set_time (set_height s1 (height s1 + 1)) (time s1 + dt).
