(* Pure pricing functions: discount selection, price, minimum deposit.
   Mirrors types/binding.go (GetDiscountByTime, GetDiscountByVolume,
   ValidatePricing), keeper/invocation.go GetPrice, keeper/oracle_price.go
   GetExchangedPrice (base-denom branch), keeper/binding.go ParsePricing
   (token scale 0) and getMinDeposit. *)
From Coq Require Import List ZArith Bool.
From SVC Require Import Base.AMap Base.Res Base.Dec Model.Types.
Import ListNotations.
Open Scope Z_scope.

Definition parse_pricing (r : RawPricing) : Pricing :=
  mkPricing (dtrunc (raw_price r)) (raw_time r) (raw_vol r).

Definition disc_ok (d : Z) : bool := (0 <? d) && (d <? ONE).

(* ValidatePricing: end > start, start >= previous end; volumes not descending *)
Fixpoint valid_time (prev_end : option Z) (l : list PromoT) : bool :=
  match l with
  | [] => true
  | p :: t =>
      (pt_start p <? pt_end p)
      && (match prev_end with Some e => e <=? pt_start p | None => true end)
      && valid_time (Some (pt_end p)) t
  end.

Fixpoint valid_vol (prev : option Z) (l : list PromoV) : bool :=
  match l with
  | [] => true
  | p :: t =>
      (match prev with Some v => v <=? pv_vol p | None => true end)
      && valid_vol (Some (pv_vol p)) t
  end.

Definition validate_pricing (p : Pricing) : bool :=
  valid_time None (pr_time p) && valid_vol None (pr_vol p).

(* the part of the pricing JSON schema that the theorems rely on:
   every discount strictly between 0 and 1, volumes at least 1 *)
Definition schema_pricing (p : Pricing) : bool :=
  forallb (fun x => disc_ok (pt_disc x)) (pr_time p)
  && forallb (fun x => disc_ok (pv_disc x) && (1 <=? pv_vol x)) (pr_vol p)
  && (0 <=? pr_price p).

Fixpoint disc_time (l : list PromoT) (t : Z) : Z :=
  match l with
  | [] => ONE
  | p :: tl => if (pt_start p <=? t) && (t <? pt_end p) then pt_disc p else disc_time tl t
  end.

Fixpoint disc_vol_aux (prev : Z) (l : list PromoV) (v : Z) : Z :=
  match l with
  | [] => prev
  | p :: tl => if v <? pv_vol p then prev else disc_vol_aux (pv_disc p) tl v
  end.

Definition disc_vol (l : list PromoV) (v : Z) : Z := disc_vol_aux ONE l v.

Definition price_dec (p : Pricing) (t vol : Z) : Z :=
  dmul (dmul (dec_of_int (pr_price p)) (disc_time (pr_time p) t)) (disc_vol (pr_vol p) vol).

(* keeper.GetPrice: the fee stored on a request *)
Definition get_price (p : Pricing) (t vol : Z) : Z :=
  let price := price_dec p t vol in
  let price := if price <? ONE then ONE else price in
  dtrunc price.

(* keeper.GetExchangedPrice, raw denom = base denom: what the consumer is charged *)
Definition exchanged_price (p : Pricing) (t vol : Z) : Z :=
  let price := price_dec p t vol in
  let real := price in
  let real := if real <? ONE then ONE else real in
  dtrunc real.

Definition INT_LIMIT : Z := 2 ^ 255.

(* getMinDeposit: max(price * multiple, MinDeposit); sdk.Int.Mul panics above 255 bits *)
Definition min_deposit (cfg : Params) (p : Pricing) : Res Z :=
  let m := pr_price p * p_multiple cfg in
  if INT_LIMIT <=? m then Panic else Ok (Z.max m (p_min_deposit cfg)).
