(* Hand-written models of the four identifier functions of types/invocation.go.
   Casts are explicit: uint64(int64) is [u64] (mod 2^64), uint16(int16) is
   [u16] (mod 2^16), int64(uint64) is [i64], int16(uint16) is [i16]
   (Base/Bytes.v).  Tied to the real functions by the pure-keys stream
   (tools/pure_keys.sh), not by proof.

     GenerateRequestContextID(txHash []byte, msgIndex int64)
        = txHash ++ BigEndian64(uint64(msgIndex))                (no length check)
     SplitRequestContextID(id)
        = error unless len(id) = 40; (id[0:32], int64(BigEndian64(id[32:40])))
     GenerateRequestID(ctxID, batchCounter uint64, height int64, index int16)
        = ctxID ++ BE64(batchCounter) ++ BE64(uint64(height)) ++ BE16(uint16(index))
     SplitRequestID(id)
        = error unless len(id) = 58;
          (id[0:40], BE64(id[40:48]), int64(BE64(id[48:56])), int16(BE16(id[56:]))) *)
From Coq Require Import List NArith ZArith.
From SVC Require Import Base.Bytes.
Import ListNotations.

Definition TxHashLen : nat := 32.
Definition ContextIDLen : nat := 40.
Definition RequestIDLen : nat := 58.

Definition slice (lo hi : nat) (l : bytes) : bytes := firstn (hi - lo) (skipn lo l).

Definition gen_ctx_id (txHash : bytes) (msgIndex : Z) : bytes :=
  txHash ++ be64 (u64 msgIndex).

Definition split_ctx_id (id : bytes) : option (bytes * Z) :=
  if Nat.eqb (length id) ContextIDLen
  then Some (slice 0 32 id, i64 (de (slice 32 40 id)))
  else None.

Definition gen_request_id (ctxID : bytes) (batchCounter : N) (height : Z) (index : Z) : bytes :=
  ctxID ++ be64 batchCounter ++ be64 (u64 height) ++ be16 (u16 index).

Definition split_request_id (id : bytes) : option (bytes * N * Z * Z) :=
  if Nat.eqb (length id) RequestIDLen
  then Some (slice 0 40 id, de (slice 40 48 id), i64 (de (slice 48 56 id)), i16 (de (slice 56 58 id)))
  else None.
