(* C10: the liveness half of the cadence, the first batch composed from the accepted call to the
   next EndBlock, and the total / one-shot / no-overlap bounds read off the log. *)
From Coq Require Import List ZArith Bool Lia Permutation.
From SVC Require Import Base.AMap Base.Res Base.Dec Model.Types Model.Pricing
  Model.Handlers Model.EndBlock Model.Step Proofs.Inv Proofs.Lemmas Proofs.ReqLemmas
  Proofs.CtxOps Proofs.InvSched Proofs.InvCtx Proofs.InvAll Proofs.StepSpecs_ctx
  Proofs.TraceBase Proofs.C10Proofs Proofs.TraceBatch Proofs.ReachRun Proofs.TraceCadence
  Proofs.GapOrigin Proofs.GapC09 Proofs.GapC09b Proofs.GapC06 Proofs.BatchEx.
Import ListNotations.
Open Scope Z_scope.

(* ------------------------------------------------------------------ *)
(* 1. liveness of the cadence *)

Lemma quiet_last cfg c t f ops : forall s,
  quiet_at c t f s -> quiet_run cfg c t f s ops -> quiet_at c t f (run cfg s ops).
Proof.
  induction ops as [|o r IH]; intros s Hq Hqr; [exact Hq|].
  destruct Hqr as (Hq1 & Hqr). unfold run. cbn [fold_left]. now apply IH.
Qed.

Lemma In_blog e s : In e (blog s) -> In e (log s).
Proof. unfold blog. intros H. apply filter_In in H. tauto. Qed.

(* C10_cadence_live: anchor as in C10_cadence (batch `counter` in flight, expiry pending at E), the
   context repeated.  If it stays Running with the same timeout and frequency at every operation
   boundary of the run and the chain has passed height E - t + f, then batch counter + 1 HAS been
   started, at exactly that height.  (If the consumer runs out of funds, the total is reached, or
   the context is paused / killed / re-timed, [quiet_run] is false: liveness is exactly "stays
   running with unchanged timeout and frequency".) *)
Theorem cadence_live cfg s c rc E ops :
  wf_cfg cfg -> Reach cfg s ->
  get c (ctxs s) = Some rc -> get c (expq_h s) = Some E -> c_rep rc = true ->
  wf_run cfg s ops ->
  quiet_at c (c_timeout rc) (c_freq rc) s ->
  quiet_run cfg c (c_timeout rc) (c_freq rc) s ops ->
  E - c_timeout rc + c_freq rc < height (run cfg s ops) ->
  exists k, In (EvBatchStart c (c_counter rc + 1) (E - c_timeout rc + c_freq rc) k)
                (log (run cfg s ops)).
Proof.
  intros Hcfg Hr Grc Ge Hrep Hw Hq Hqr Hpast.
  set (m := c_counter rc + 1). set (t := c_timeout rc). set (f := c_freq rc).
  assert (Htf : t <= f).
  { destruct (inv_ctx _ _ (Reach_Inv cfg s Hcfg Hr) c rc Grc) as (_ & _ & _ & A & _). now apply A. }
  assert (HM : M c m E t f s).
  { right; right. destruct (C12_callback_once cfg s Hcfg Hr c) as (_ & _ & B).
    destruct (B rc Grc) as (_ & _ & B3 & _). split.
    - unfold nstart. rewrite <- (count_blog c) by apply about_start. rewrite B3.
      replace (m <=? c_counter rc) with false by (symmetry; apply Z.leb_gt; unfold m; lia).
      now rewrite andb_false_r.
    - exists rc. destruct Hq as (rcq & Gq & Hqq). assert (rcq = rc) by congruence. subst rcq.
      repeat split; try apply Hqq; auto. }
  destruct (M_run cfg Hcfg c m E t f ops s Hr HM Hq Hw Hqr) as (Hr' & HM').
  pose proof (quiet_last cfg c t f ops s Hq Hqr) as Hq'.
  set (s' := run cfg s ops) in *.
  pose proof (Reach_Inv cfg s' Hcfg Hr') as HI'.
  destruct (inv_sched _ _ HI') as (_ & _ & _ & _ & S5 & S6 & _).
  destruct HM' as [(k0 & Hk0)|[(_ & HD)|(_ & rc' & G' & _ & _ & Hent)]].
  - exists k0. now apply In_blog.
  - exfalso. apply HD. destruct Hq' as (rcq & Gq & Hs & _). eauto.
  - exfalso. destruct Hent as [He|(_ & Hn)].
    + pose proof (S5 _ _ He). lia.
    + pose proof (S6 _ _ Hn). lia.
Qed.

(* consecutive starts, existence AND exact height: batch n started by the EndBlock of height H;
   while the (repeated) context stays Running with the same timeout and frequency, once the chain
   has passed H + f batch n + 1 has been started, and every start of batch n + 1 in the log is at
   exactly H + f *)
Theorem cadence_live_consecutive cfg s0 c rc0 dt ops :
  wf_cfg cfg -> Reach cfg s0 -> height s0 < HEIGHT_BOUND -> 0 <= dt ->
  In (height s0, c) (newq s0) -> get c (ctxs s0) = Some rc0 ->
  c_state rc0 = Running -> d5 rc0 = false -> c_rep rc0 = true ->
  let s1 := end_block cfg s0 dt in
  has c (expq_h s1) = true ->
  wf_run cfg s1 ops ->
  quiet_at c (c_timeout rc0) (c_freq rc0) s1 ->
  quiet_run cfg c (c_timeout rc0) (c_freq rc0) s1 ops ->
  height s0 + c_freq rc0 < height (run cfg s1 ops) ->
  (exists k, In (EvBatchStart c (c_counter rc0 + 2) (height s0 + c_freq rc0) k)
                (log (run cfg s1 ops)))
  /\ (forall H' k', In (EvBatchStart c (c_counter rc0 + 2) H' k') (log (run cfg s1 ops)) ->
        H' = height s0 + c_freq rc0).
Proof.
  intros Hcfg Hr Hb Hdt Hdue Grc Hrun Hd Hrep s1 He Hw Hq Hqr Hpast.
  split.
  2:{ intros H' k' Hin.
      exact (C10_cadence_consecutive cfg s0 c rc0 dt ops H' k' Hcfg Hr Hb Hdt Hdue Grc Hrun Hd
               He Hw Hq Hqr Hin). }
  pose proof (Reach_Inv cfg s0 Hcfg Hr) as HI.
  destruct (C10_first_batch cfg s0 c rc0 dt Hcfg HI Hb Hdue Grc Hrun Hd) as (_ & _ & Hcase).
  fold s1 in Hcase.
  destruct Hcase as [(n & G1 & E1)|(_ & E1)]; [|unfold has in He; rewrite E1 in He; discriminate].
  assert (Hr1 : Reach cfg s1).
  { change s1 with (fst (step cfg s0 (OEndBlock dt))). apply Reach_step; [exact Hr|]. cbn. auto. }
  assert (Hrep' : c_rep (bump rc0 n) = true) by exact Hrep.
  assert (Hpast' : height s0 + c_timeout rc0 - c_timeout (bump rc0 n) + c_freq (bump rc0 n)
                   < height (run cfg s1 ops)) by (cbn; lia).
  pose proof (cadence_live cfg s1 c (bump rc0 n) (height s0 + c_timeout rc0) ops Hcfg Hr1 G1 E1
              Hrep' Hw Hq Hqr Hpast') as HH. destruct HH as (k & Hk).
  exists k. cbn in Hk.
  replace (c_counter rc0 + 2) with (c_counter rc0 + 1 + 1) by lia.
  replace (height s0 + c_freq rc0) with (height s0 + c_timeout rc0 - c_timeout rc0 + c_freq rc0) by lia.
  exact Hk.
Qed.

(* ------------------------------------------------------------------ *)
(* 2. the first batch, from the accepted call to the next EndBlock *)

Definition no_end_block (m : Op) : Prop := forall d, m <> OEndBlock d.

Section FirstBatch.
  Variable cfg : Params.
  Hypothesis Hcfg : wf_cfg cfg.
  Variable c : CtxId.
  Variable H : Z.

  (* between the call and the EndBlock: still there, no batch yet, still queued for this block *)
  Definition J (s : State) : Prop :=
    exists rc, get c (ctxs s) = Some rc /\ c_counter rc = 0 /\ get c (newq_h s) = Some H
      /\ height s = H.

  Lemma J_step s o : Inv cfg s -> wf_op s o -> no_end_block o -> J s -> J (fst (step cfg s o)).
  Proof.
    intros HI Ho Hne (rc & G & Hc & Hn & Hh). unfold step.
    destruct (handle cfg s o) as [s'| |] eqn:E; cbn [fst]; try (exists rc; repeat split; assumption).
    destruct (msg_keeps_ctx cfg s o s' c rc E Hne G) as (rc' & G').
    exists rc'. split; [exact G'|].
    split; [rewrite (C10_counter_msg cfg s o s' c rc rc' Hcfg HI Ho Hne E G G'); exact Hc|].
    destruct (C10_L4_msg_queues cfg s o s' Hcfg HI Ho Hne E) as (Eh & _ & _ & Hq).
    split; [|congruence].
    destruct (Hq c) as [(En & _)|(_ & En & _)]; congruence.
  Qed.

  Lemma J_run msgs : forall s,
    Reach cfg s -> wf_run cfg s msgs -> Forall no_end_block msgs -> J s -> J (run cfg s msgs).
  Proof.
    induction msgs as [|o r IH]; intros s HR Hw Hf HJ; [exact HJ|].
    destruct Hw as (Ho & Hw). inversion Hf as [|? ? Hne Hf']; subst.
    unfold run. cbn [fold_left]. apply IH; try assumption.
    - now apply Reach_step.
    - apply J_step; try assumption. now apply Reach_Inv.
  Qed.

  (* through the EndBlock of height H: either still no batch, or batch 1 in flight with its start
     event (height H, as many requests as the record says) in the log *)
  Definition FB (s : State) : Prop :=
    height s = H ->
    match get c (ctxs s) with
    | None => True
    | Some rc =>
        c_counter rc = 0
        \/ (c_counter rc = 1 /\ get c (expq_h s) = Some (H + c_timeout rc)
            /\ In (EvBatchStart c 1 H (c_breq rc)) (log s))
    end.

  Lemma FB_expire_one s c0 :
    Inv cfg s -> FB s -> In (height s, c0) (expq s) -> height s < HEIGHT_BOUND ->
    FB (expire_one cfg s c0).
  Proof.
    intros HI HF Hdue Hb Hh.
    pose proof (height_expire_one cfg s c0 Hcfg HI Hdue Hb) as Eh. rewrite Eh in Hh.
    specialize (HF Hh).
    destruct (expire_one_spec cfg s c0 Hcfg HI Hdue Hb)
      as (rc0 & rc1 & Erc0 & Ee0 & _ & Hrc1 & Ht & _ & _ & _ & Hcase).
    destruct (eqb_spec c c0) as [<-|Hne].
    - rewrite Erc0 in HF.
      destruct HF as [H0|(_ & He & _)].
      + assert (E1 : c_counter rc1 = 0) by (destruct Hrc1 as [->|[_ ->]]; exact H0).
        destruct Hcase as [(Ex & _)|[(Ex & _)|(Ex & _)]]; rewrite Ex; auto.
      + exfalso. destruct (inv_ctx _ _ HI c rc0 Erc0) as (A & _). rewrite Ee0 in He.
        injection He as He. lia.
    - rewrite (t_ctxs _ _ _ Ht) by assumption. destruct (get c (ctxs s)) as [rc|]; [|exact I].
      destruct HF as [H0|(H1 & He & Hin)]; [now left|right].
      rewrite (t_expq_h _ _ _ Ht) by assumption. split; [exact H1|]. split; [exact He|].
      apply (t_log _ _ _ Ht), Hin.
  Qed.

  Lemma FB_new_one s c0 :
    Inv cfg s -> FB s -> In (height s, c0) (newq s) -> height s < HEIGHT_BOUND ->
    FB (new_one cfg s c0).
  Proof.
    intros HI HF Hdue Hb Hh.
    pose proof (height_new_one cfg s c0 Hcfg HI Hdue Hb) as Eh. rewrite Eh in Hh.
    specialize (HF Hh).
    destruct (new_one_spec cfg s c0 HI Hdue) as (rc0 & Erc0 & _ & Ee0 & Ht & _ & _ & _ & Hcase).
    destruct (eqb_spec c c0) as [<-|Hne].
    - rewrite Erc0 in HF.
      destruct HF as [H0|(_ & He & _)]; [|congruence].
      destruct (new_one_blog cfg s c rc0 Erc0)
        as [(Hd & _)|[(_ & _ & n & Eb & Ex)|[(_ & _ & _ & Ex)|(_ & _ & Ex)]]].
      + rewrite (d5_counter0 rc0 H0) in Hd. discriminate.
      + rewrite Ex. right. cbn [c_counter c_breq c_timeout bump setc_bthr setc_breq setc_bresp setc_bdone setc_counter].
        split; [lia|]. split.
        * destruct Hcase as [(_ & Ec & _)|[(_ & _ & Ee & _)|[(_ & _ & _ & Ec)|(_ & _ & Ec)]]];
            try (rewrite Ec in Ex; try discriminate; injection Ex as Ex;
                 apply (f_equal c_counter) in Ex; cbn in Ex; lia).
          now rewrite Ee, Hh.
        * apply In_blog. rewrite Eb, H0, Hh. now left.
      + rewrite Ex. left. exact H0.
      + rewrite Ex. left. exact H0.
    - rewrite (t_ctxs _ _ _ Ht) by assumption. destruct (get c (ctxs s)) as [rc|]; [|exact I].
      destruct HF as [H0|(H1 & He & Hin)]; [now left|right].
      rewrite (t_expq_h _ _ _ Ht) by assumption. split; [exact H1|]. split; [exact He|].
      apply (t_log _ _ _ Ht), Hin.
  Qed.
End FirstBatch.

(* C10_first_batch_trace: an accepted call (message or module) for the context c in block H,
   followed by any messages of the same block, then the EndBlock of block H.  At the EndBlock the
   context still exists with batch counter 0.  If it is still Running, batch 1 is started in THIS
   EndBlock -- issued or skipped (n = 0), start event at height H in the log, expiry queued at
   H + timeout -- unless the consumer cannot pay, in which case (never in super mode) it is Paused
   with no batch.  If it is no longer Running (paused or killed by the consumer within the block)
   no batch is started by this EndBlock. *)
Theorem first_batch_trace cfg s0 o s1 c msgs dt :
  wf_cfg cfg -> Reach cfg s0 -> wf_op s0 o -> creates o c -> handle cfg s0 o = Ok s1 ->
  wf_run cfg s1 msgs -> Forall no_end_block msgs ->
  0 <= dt -> height s0 < HEIGHT_BOUND ->
  let s2 := run cfg s1 msgs in
  let s3 := end_block cfg s2 dt in
  exists rc2, get c (ctxs s2) = Some rc2 /\ c_counter rc2 = 0
    /\ height s2 = height s0 /\ height s3 = height s0 + 1
    /\ (c_state rc2 = Running ->
          (exists n, get c (ctxs s3) = Some (bump rc2 n)
             /\ get c (expq_h s3) = Some (height s0 + c_timeout rc2)
             /\ In (EvBatchStart c 1 (height s0) n) (log s3))
          \/ (get c (ctxs s3) = Some (paused_ctx rc2) /\ get c (expq_h s3) = None
              /\ c_super rc2 = false))
    /\ (c_state rc2 <> Running ->
          match get c (ctxs s3) with
          | None => c_state rc2 = Completed
          | Some rc3 => c_counter rc3 = 0 /\ c_state rc3 = c_state rc2
          end).
Proof.
  intros Hcfg HR0 Ho Hcr E01 Hw Hf Hdt Hb. cbv zeta.
  assert (HR1 : Reach cfg s1).
  { assert (E : s1 = fst (step cfg s0 o)) by (unfold step; now rewrite E01). rewrite E. now apply Reach_step. }
  assert (HJ1 : J c (height s0) s1).
  { assert (Hshape : (exists svc provs cons input cap timeout super rep freq total iok ok,
                o = OCall c svc provs cons input cap timeout super rep freq total iok ok)
             \/ (exists svc provs cons input cap timeout super rep freq total thr md iok,
                o = OModCall c svc provs cons input cap timeout super rep freq total thr md iok)).
    { destruct o; cbn [creates] in Hcr; try contradiction; subst; [left|right]; repeat eexists. }
    destruct (C10_created_queued cfg s0 o s1 c E01 Hshape) as (rc & G & Hc & _ & _ & Hn & Hh & _).
    exists rc. auto. }
  pose proof (J_run cfg Hcfg c (height s0) msgs s1 HR1 Hw Hf HJ1) as (rc2 & G2 & Hc2 & Hn2 & Hh2).
  set (s2 := run cfg s1 msgs) in *.
  pose proof (reach_run cfg s1 msgs HR1 Hw) as HR2.
  pose proof (Reach_Inv cfg s2 Hcfg HR2) as HI2.
  assert (Hb2 : height s2 < HEIGHT_BOUND) by lia.
  destruct (end_block_height_time cfg s2 dt Hcfg HI2 Hb2) as (Eh3 & _).
  exists rc2. split; [exact G2|]. split; [exact Hc2|]. split; [exact Hh2|]. split; [lia|].
  pose proof (transition_end_block cfg s2 dt c rc2 Hcfg HI2 Hb2 G2) as Htr.
  split.
  - intros Hrun.
    assert (Hdue : In (height s2, c) (newq s2)).
    { destruct (inv_sched _ _ HI2) as (_ & S2 & _). apply S2. now rewrite Hh2. }
    destruct (C10_first_batch cfg s2 c rc2 dt Hcfg HI2 Hb2 Hdue G2 Hrun (d5_counter0 rc2 Hc2))
      as (_ & _ & Hcase).
    destruct Hcase as [(n & G3 & E3)|(G3 & E3)].
    + left. exists n. split; [exact G3|]. split; [now rewrite <- Hh2|].
      (* the start event, through both phases of the EndBlock *)
      assert (HF2 : FB c (height s0) s2) by (intros _; rewrite G2; now left).
      destruct (end_blocker_P cfg (FB c (height s0)) Hcfg
                  (FB_expire_one cfg Hcfg c (height s0)) (FB_new_one cfg Hcfg c (height s0))
                  s2 HI2 HF2 Hb2) as (_ & HF3 & Eh & _).
      specialize (HF3 ltac:(lia)).
      unfold end_block in G3. sproj. rewrite G3 in HF3. cbn in HF3.
      destruct HF3 as [H0|(_ & _ & Hin)]; [lia|]. unfold end_block. sproj. exact Hin.
    + right. split; [exact G3|]. split; [exact E3|].
      rewrite G3 in Htr. destruct Htr as (_ & _ & [Hst|(_ & _ & Hsup & _)]); [|exact Hsup].
      cbn in Hst. congruence.
  - intros Hnr. destruct (get c (ctxs (end_block cfg s2 dt))) as [rc3|].
    + destruct Htr as (_ & Hcnt & Hst). split.
      * destruct Hcnt as [E|(_ & Hr & _)]; [congruence|contradiction].
      * destruct Hst as [E|(Hr & _)]; [exact E|contradiction].
    + destruct Htr as [Hc|(Hr & _)]; [exact Hc|contradiction].
Qed.

(* the expiry phase leaves the new-batch pointer of a context that is not due for expiry alone *)
Lemma fold_expire_newq_h cfg l s c :
  wf_cfg cfg -> Inv cfg s -> height s < HEIGHT_BOUND -> NoDup l ->
  (forall a, In a l -> In (height s, a) (expq s)) -> ~ In c l ->
  get c (newq_h (fold_left (expire_one cfg) l s)) = get c (newq_h s).
Proof.
  intros Hcfg. revert s. induction l as [|a l IH]; intros s Hi Hb Hn Hl Hni; cbn [fold_left]; [reflexivity|].
  inversion Hn as [|? ? Hna Hn']; subst.
  assert (Hda : In (height s, a) (expq s)) by (apply Hl; now left).
  pose proof (Inv_expire_one cfg s a Hcfg Hi Hda Hb) as Hi1.
  pose proof (height_expire_one cfg s a Hcfg Hi Hda Hb) as Eh.
  pose proof (expq_after_expire_one cfg s a Hcfg Hi Hda Hb) as Eq.
  destruct (expire_one_spec cfg s a Hcfg Hi Hda Hb) as (rc0 & rc1 & _ & _ & _ & _ & Ht & _).
  rewrite IH; try assumption.
  - apply (t_newq_h _ _ _ Ht). intros ->. apply Hni. now left.
  - now rewrite Eh.
  - intros c0 Hc0. rewrite Eh. apply Eq. split; [apply Hl; now right|]. intros ->. contradiction.
  - intros Hin. apply Hni. now right.
Qed.

(* the first batch, DECIDED: same situation as first_batch_trace; the context is still due, with
   the same record, after the expiry phase of that EndBlock, and if its consumer has no other
   context due in this block the outcome is the one computed by [new_outcome] on the post-expiry
   state (C06_end_block_outcome): in particular Paused-for-funds exactly when
   [new_outcome sx rc2 = OPausedFunds], i.e. not super mode and balance < total price *)
Theorem first_batch_decided cfg s0 o s1 c msgs dt :
  wf_cfg cfg -> Reach cfg s0 -> wf_op s0 o -> creates o c -> handle cfg s0 o = Ok s1 ->
  wf_run cfg s1 msgs -> Forall no_end_block msgs ->
  0 <= dt -> height s0 < HEIGHT_BOUND ->
  let s2 := run cfg s1 msgs in
  let sx := fold_left (expire_one cfg) (due (expq s2) (height s2)) s2 in
  let s3 := end_block cfg s2 dt in
  exists rc2, get c (ctxs s2) = Some rc2 /\ c_counter rc2 = 0 /\ height s2 = height s0
    /\ get c (ctxs sx) = Some rc2 /\ In (height s2, c) (newq sx)
    /\ ((forall c' rc', In (height s2, c') (newq sx) -> c' <> c -> get c' (ctxs sx) = Some rc' ->
                        c_cons rc' <> c_cons rc2) ->
        let E := filter_providers sx rc2 (c_provs rc2) in
        let charge := if c_super rc2 then 0 else sum_prices E in
        let kept := (forall r, rid_ctx r = c -> get r (reqs s3) = get r (reqs sx))
                    /\ bal s3 (User (c_cons rc2)) = bal sx (User (c_cons rc2)) in
        match new_outcome sx rc2 with
        | ONotRunning => get c (ctxs s3) = Some rc2 /\ kept
        | ORemoved => get c (ctxs s3) = None /\ kept
        | OSkipped => get c (ctxs s3) = Some (bump rc2 0) /\ kept
        | OPausedFunds => get c (ctxs s3) = Some (paused_ctx rc2) /\ kept
        | OIssued =>
            get c (ctxs s3) = Some (bump rc2 (len E))
            /\ (forall k p price, nth_error E k = Some (p, price) ->
                  get (c, 1, height s0, Z.of_nat k) (reqs s3)
                  = Some (mkReq p (if c_super rc2 then 0 else price) (height s0 + c_timeout rc2) true))
            /\ bal s3 (User (c_cons rc2)) = bal sx (User (c_cons rc2)) - charge
            /\ 0 <= charge <= bal sx (User (c_cons rc2))
        end).
Proof.
  intros Hcfg HR0 Ho Hcr E01 Hw Hf Hdt Hb. cbv zeta.
  assert (HR1 : Reach cfg s1).
  { assert (E : s1 = fst (step cfg s0 o)) by (unfold step; now rewrite E01). rewrite E. now apply Reach_step. }
  assert (HJ1 : J c (height s0) s1).
  { assert (Hshape : (exists svc provs cons input cap timeout super rep freq total iok ok,
                o = OCall c svc provs cons input cap timeout super rep freq total iok ok)
             \/ (exists svc provs cons input cap timeout super rep freq total thr md iok,
                o = OModCall c svc provs cons input cap timeout super rep freq total thr md iok)).
    { destruct o; cbn [creates] in Hcr; try contradiction; subst; [left|right]; repeat eexists. }
    destruct (C10_created_queued cfg s0 o s1 c E01 Hshape) as (rc & G & Hc & _ & _ & Hn & Hh & _).
    exists rc. auto. }
  pose proof (J_run cfg Hcfg c (height s0) msgs s1 HR1 Hw Hf HJ1) as (rc2 & G2 & Hc2 & Hn2 & Hh2).
  set (s2 := run cfg s1 msgs) in *.
  pose proof (reach_run cfg s1 msgs HR1 Hw) as HR2.
  pose proof (Reach_Inv cfg s2 Hcfg HR2) as HI2.
  assert (Hb2 : height s2 < HEIGHT_BOUND) by lia.
  exists rc2. split; [exact G2|]. split; [exact Hc2|]. split; [exact Hh2|].
  assert (Hdue : In (height s2, c) (newq s2)).
  { destruct (inv_sched _ _ HI2) as (_ & S2 & _). apply S2. now rewrite Hh2. }
  destruct (due_new cfg s2 c HI2 Hdue) as (_ & _ & _ & Ee).
  set (l1 := due (expq s2) (height s2)).
  assert (Hn1 : NoDup l1) by (apply NoDup_due; apply (inv_wf _ _ HI2)).
  assert (Hl1 : forall a, In a l1 -> In (height s2, a) (expq s2)) by (intros a; apply In_due).
  assert (Hni : ~ In c l1).
  { intros Hin. destruct (due_exp cfg s2 c HI2 (Hl1 _ Hin)) as (_ & _ & Ex & _). congruence. }
  destruct (fold_expire_phase cfg l1 s2 Hcfg HI2 Hb2 Hn1 Hl1) as (Ix & Hx & _).
  destruct (fold_expire_ctx cfg l1 s2 c Hcfg HI2 Hb2 Hn1 Hl1) as (P1 & _).
  pose proof (fold_expire_newq_h cfg l1 s2 c Hcfg HI2 Hb2 Hn1 Hl1 Hni) as Enq.
  set (sx := fold_left (expire_one cfg) l1 s2) in *.
  assert (Gx : get c (ctxs sx) = Some rc2) by (rewrite (P1 Hni); exact G2).
  assert (Hduex : In (height s2, c) (newq sx)).
  { destruct (inv_sched _ _ Ix) as (_ & S2 & _). apply S2. rewrite Enq, Hn2. now rewrite Hh2. }
  split; [exact Gx|]. split; [exact Hduex|].
  intros Hoth.
  pose proof (end_block_outcome cfg s2 dt c rc2 Hcfg HI2 Hb2) as H. cbv zeta in H.
  fold l1 in H. fold sx in H. specialize (H Hduex Gx Hoth).
  rewrite Hc2, Hh2 in H. exact H.
Qed.

(* ------------------------------------------------------------------ *)
(* 3. the bounds, read off the log of a reachable state in which the context still exists *)

Theorem starts_bounded cfg s c rc n H k :
  wf_cfg cfg -> Reach cfg s -> get c (ctxs s) = Some rc ->
  In (EvBatchStart c n H k) (log s) ->
  1 <= n <= c_counter rc
  /\ (c_rep rc = true -> 0 < c_total rc -> n <= c_total rc)
  /\ (c_rep rc = false -> n = 1)
  /\ (n < c_counter rc -> In (EvBatchDone c n) (log s)).
Proof.
  intros Hcfg HR G Hin.
  destruct (C12_callback_once cfg s Hcfg HR c) as (_ & _ & B).
  destruct (B rc G) as (_ & _ & B3 & B4 & _).
  assert (Hc1 : 1 <= count (is_start c n) (log s)) by (apply start_count_In; eauto).
  rewrite B3 in Hc1.
  destruct ((1 <=? n) && (n <=? c_counter rc)) eqn:Hn; [|lia]. b2p.
  destruct (inv_ctx _ _ (Reach_Inv cfg s Hcfg HR) c rc G) as (_ & _ & _ & _ & A5 & A6 & _).
  split; [lia|]. split; [intros Hr Ht; specialize (A5 Hr Ht); lia|].
  split; [intros Hr; destruct (A6 Hr) as [(E & _)|(E & _)]; lia|].
  intros Hlt. specialize (B4 n ltac:(lia)).
  assert (Hd : 1 <= count (is_done c n) (log s)) by lia.
  apply count_pos_In in Hd. destruct Hd as (e & He & Hp).
  destruct e; cbn [is_done] in Hp; try discriminate. b2p.
  match goal with Hx : eqb _ _ = true |- _ => apply eqb_true in Hx; subst end.
  exact He.
Qed.

(* ------------------------------------------------------------------ *)
(* the hypotheses are satisfiable: the repeated module context c2 of Proofs/BatchEx.v (timeout 5,
   frequency 10), anchor s_b (batch 1 in flight, expiry pending at 6), run of TraceCadence.ExC to
   height 12 > 6 - 5 + 10 *)
Module ExL.
  Import BEx ExC.

  Example cadence_live_applies :
    exists k, In (EvBatchStart c2 2 11 k) (log (run cfg0 s_b ops_tail)).
  Proof.
    destruct C10_cadence_ex as (rc & G & Ge & Ht & Hf & Hc & HR & Hw & Hq & Hqr & _).
    assert (Hrep : c_rep rc = true).
    { assert (G' : get c2 (ctxs s_b) = Some rc) by exact G. vm_compute in G'. injection G' as <-. reflexivity. }
    assert (Hpast : 6 - c_timeout rc + c_freq rc < height (run cfg0 s_b ops_tail)).
    { rewrite Ht, Hf, run_tail. vm_compute. reflexivity. }
    destruct (cadence_live cfg0 s_b c2 rc 6 ops_tail wf_cfg0 HR G Ge Hrep Hw Hq Hqr Hpast) as (k & Hk).
    exists k. rewrite Hc, Ht, Hf in Hk. exact Hk.
  Qed.

  (* first batch: the module call creating c1 at height 1, one more call in the same block, the
     EndBlock of height 1 *)
  Definition s_pre : State := run cfg0 s_init ops_setup.
  Definition o_call : Op := OModCall c1 5 [10; 11; 12] 2 0 (CBase 50) 5 false false 0 0 2 77 true.
  Definition msgs1 : list Op := [OModCall c2 5 [10; 11] 3 0 (CBase 50) 5 false true 10 3 1 77 true].

  Example first_batch_hyps :
    Reach cfg0 s_pre /\ wf_op s_pre o_call /\ creates o_call c1
    /\ (exists s1, handle cfg0 s_pre o_call = Ok s1 /\ wf_run cfg0 s1 msgs1
          /\ end_block cfg0 (run cfg0 s1 msgs1) 1 = s_b)
    /\ Forall no_end_block msgs1 /\ height s_pre < HEIGHT_BOUND.
  Proof.
    split; [apply reach_init_run; [lia|lia|exact wf_fund|comp]|].
    split; [comp|]. split; [reflexivity|].
    split; [eexists; split; [vm_compute; reflexivity|split; [comp|vm_compute; reflexivity]]|].
    split; [repeat constructor; discriminate|vm_compute; reflexivity].
  Qed.
End ExL.
