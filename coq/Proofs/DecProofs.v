(* Arithmetic facts about the sdk.Dec model of Base/Dec.v.

   chop_round is round-half-even of d / 10^18; it is exact on multiples of
   10^18, so  NewDecFromInt(n).Mul(r)  is the exact product n*r, and
   NewDecFromInt(n).Mul(r).TruncateInt()  (slash amount, tax) is the exact
   floor of n*r/10^18 for non-negative n, r. *)
From Coq Require Import ZArith Lia ZifyBool Bool.
From SVC Require Import Base.Dec.
Open Scope Z_scope.

Ltac Zify.zify_post_hook ::= Z.div_mod_to_equations.

Arguments PREC : simpl never.
Arguments HALF : simpl never.
Arguments ONE : simpl never.

Lemma PREC_val : PREC = 10 ^ 18.
Proof. reflexivity. Qed.

Lemma HALF_val : 2 * HALF = PREC.
Proof. reflexivity. Qed.

Lemma ONE_val : ONE = PREC.
Proof. reflexivity. Qed.

Lemma PREC_pos : 0 < PREC.
Proof. reflexivity. Qed.

(* ------------------------------------------------------------------ *)
(* chop_round_nn: relational characterisation *)

(* c is d/10^18 rounded to nearest, ties to even *)
Definition round_spec (d c : Z) : Prop :=
  let q := d / PREC in
  let r := d mod PREC in
  (c = q \/ c = q + 1)
  /\ (2 * r < PREC -> c = q)
  /\ (PREC < 2 * r -> c = q + 1)
  /\ (2 * r = PREC -> Z.even c = true).

Lemma chop_round_nn_spec : forall d, round_spec d (chop_round_nn d).
Proof.
  intros d. unfold round_spec, chop_round_nn.
  pose proof (Z.mod_pos_bound d PREC PREC_pos) as Hr.
  set (q := d / PREC). set (r := d mod PREC) in *.
  pose proof HALF_val as HH.
  destruct (r =? 0) eqn:E0.
  { apply Z.eqb_eq in E0. repeat split; try lia. }
  destruct (r <? HALF) eqn:E1.
  { apply Z.ltb_lt in E1. repeat split; try lia. }
  destruct (HALF <? r) eqn:E2.
  { apply Z.ltb_lt in E2. repeat split; try lia. }
  apply Z.ltb_ge in E1. apply Z.ltb_ge in E2.
  destruct (Z.even q) eqn:E3.
  - repeat split; try lia. intros _. exact E3.
  - repeat split; try lia. intros _.
    rewrite Z.even_add, E3. reflexivity.
Qed.

Lemma chop_round_nn_mult : forall k, chop_round_nn (k * PREC) = k.
Proof.
  intros k. unfold chop_round_nn.
  rewrite Z.mod_mul by (unfold PREC; lia).
  rewrite Z.div_mul by (unfold PREC; lia).
  reflexivity.
Qed.

(* within half a unit in the last place *)
Lemma chop_round_nn_half_ulp : forall d,
  2 * Z.abs (chop_round_nn d * PREC - d) <= PREC.
Proof.
  intros d. destruct (chop_round_nn_spec d) as (H1 & H2 & H3 & _).
  pose proof (Z.mod_pos_bound d PREC PREC_pos) as Hr.
  pose proof (Z.div_mod d PREC ltac:(unfold PREC; lia)) as Hd.
  set (q := d / PREC) in *. set (r := d mod PREC) in *.
  set (c := chop_round_nn d) in *.
  destruct H1 as [-> | ->]; nia.
Qed.

Lemma chop_round_nn_bounds : forall d,
  d / PREC <= chop_round_nn d <= d / PREC + 1.
Proof.
  intros d. destruct (chop_round_nn_spec d) as ([H | H] & _); lia.
Qed.

Lemma chop_round_nn_nonneg : forall d, 0 <= d -> 0 <= chop_round_nn d.
Proof.
  intros d Hd. pose proof (chop_round_nn_bounds d).
  pose proof (Z.div_pos d PREC Hd PREC_pos). lia.
Qed.

Lemma chop_round_nn_mono : forall d1 d2, d1 <= d2 -> chop_round_nn d1 <= chop_round_nn d2.
Proof.
  intros d1 d2 Hle.
  destruct (Z.eq_dec d1 d2) as [-> | Hne]; [lia |].
  destruct (chop_round_nn_spec d1) as (A1 & A2 & A3 & _).
  destruct (chop_round_nn_spec d2) as (B1 & B2 & B3 & _).
  pose proof (Z.mod_pos_bound d1 PREC PREC_pos) as Hr1.
  pose proof (Z.mod_pos_bound d2 PREC PREC_pos) as Hr2.
  pose proof (Z.div_mod d1 PREC ltac:(unfold PREC; lia)) as Hd1.
  pose proof (Z.div_mod d2 PREC ltac:(unfold PREC; lia)) as Hd2.
  set (q1 := d1 / PREC) in *. set (r1 := d1 mod PREC) in *.
  set (q2 := d2 / PREC) in *. set (r2 := d2 mod PREC) in *.
  set (c1 := chop_round_nn d1) in *. set (c2 := chop_round_nn d2) in *.
  pose proof PREC_pos.
  assert (q1 <= q2) by nia.
  destruct (Z.eq_dec q1 q2) as [Hq | Hq].
  - assert (r1 < r2) by nia.
    destruct A1 as [-> | ->]; destruct B1 as [-> | ->]; try lia.
  - destruct A1 as [-> | ->]; destruct B1 as [-> | ->]; lia.
Qed.

(* ------------------------------------------------------------------ *)
(* chop_round on all of Z *)

Lemma chop_round_nonneg_eq : forall d, 0 <= d -> chop_round d = chop_round_nn d.
Proof.
  intros d Hd. unfold chop_round.
  destruct (d <? 0) eqn:E; [apply Z.ltb_lt in E; lia | reflexivity].
Qed.

Lemma chop_round_neg_eq : forall d, d < 0 -> chop_round d = - chop_round_nn (- d).
Proof.
  intros d Hd. unfold chop_round.
  destruct (d <? 0) eqn:E; [reflexivity | apply Z.ltb_ge in E; lia].
Qed.

Lemma chop_round_opp : forall d, chop_round (- d) = - chop_round d.
Proof.
  intros d. destruct (Z.lt_trichotomy d 0) as [H | [-> | H]].
  - rewrite (chop_round_neg_eq d H), chop_round_nonneg_eq by lia. lia.
  - reflexivity.
  - rewrite (chop_round_neg_eq (- d)) by lia.
    rewrite Z.opp_involutive, (chop_round_nonneg_eq d) by lia. reflexivity.
Qed.

(* exact on multiples of 10^18 *)
Theorem chop_round_mult : forall k, chop_round (k * PREC) = k.
Proof.
  intros k. pose proof PREC_pos.
  destruct (Z_lt_le_dec k 0) as [Hk | Hk].
  - rewrite chop_round_neg_eq by nia.
    replace (- (k * PREC)) with ((- k) * PREC) by ring.
    rewrite chop_round_nn_mult. lia.
  - rewrite chop_round_nonneg_eq by nia. apply chop_round_nn_mult.
Qed.

(* within 1/2 ulp *)
Theorem chop_round_half_ulp : forall d, 2 * Z.abs (chop_round d * PREC - d) <= PREC.
Proof.
  intros d. destruct (Z_lt_le_dec d 0) as [Hd | Hd].
  - rewrite chop_round_neg_eq by lia.
    pose proof (chop_round_nn_half_ulp (- d)). lia.
  - rewrite chop_round_nonneg_eq by lia. apply chop_round_nn_half_ulp.
Qed.

Theorem chop_round_mono : forall d1 d2, d1 <= d2 -> chop_round d1 <= chop_round d2.
Proof.
  intros d1 d2 Hle.
  destruct (Z_lt_le_dec d1 0) as [H1 | H1]; destruct (Z_lt_le_dec d2 0) as [H2 | H2].
  - rewrite !chop_round_neg_eq by lia.
    pose proof (chop_round_nn_mono (- d2) (- d1)). lia.
  - rewrite chop_round_neg_eq, chop_round_nonneg_eq by lia.
    pose proof (chop_round_nn_nonneg (- d1)). pose proof (chop_round_nn_nonneg d2). lia.
  - lia.
  - rewrite !chop_round_nonneg_eq by lia. apply chop_round_nn_mono; lia.
Qed.

Lemma chop_round_nonneg : forall d, 0 <= d -> 0 <= chop_round d.
Proof.
  intros d Hd. rewrite chop_round_nonneg_eq by lia. apply chop_round_nn_nonneg; lia.
Qed.

Lemma chop_round_0 : chop_round 0 = 0.
Proof. reflexivity. Qed.

(* floor <= round <= floor + 1 for non-negative arguments *)
Lemma chop_round_floor_bounds : forall d, 0 <= d ->
  d / PREC <= chop_round d <= d / PREC + 1.
Proof.
  intros d Hd. rewrite chop_round_nonneg_eq by lia. apply chop_round_nn_bounds.
Qed.

(* ------------------------------------------------------------------ *)
(* dmul, dtrunc, mul_trunc *)

Lemma dtrunc_nonneg_eq : forall a, 0 <= a -> dtrunc a = a / PREC.
Proof.
  intros a Ha. unfold dtrunc. apply Z.quot_div_nonneg; [lia | exact PREC_pos].
Qed.

Lemma dtrunc_mult : forall n, dtrunc (n * PREC) = n.
Proof.
  intros n. unfold dtrunc. apply Z.quot_mul. unfold PREC; lia.
Qed.

Lemma dtrunc_ONE : dtrunc ONE = 1.
Proof. reflexivity. Qed.

Lemma dtrunc_mono_nonneg : forall a b, 0 <= a <= b -> dtrunc a <= dtrunc b.
Proof.
  intros a b H. rewrite !dtrunc_nonneg_eq by lia.
  apply Z.div_le_mono; [exact PREC_pos | lia].
Qed.

Lemma dtrunc_nonneg : forall a, 0 <= a -> 0 <= dtrunc a.
Proof.
  intros a Ha. rewrite dtrunc_nonneg_eq by lia. apply Z.div_pos; [lia | exact PREC_pos].
Qed.

Lemma dtrunc_nonpos : forall a, a <= 0 -> dtrunc a <= 0.
Proof.
  intros a Ha. unfold dtrunc.
  pose proof (Z.quot_opp_l a PREC ltac:(unfold PREC; lia)) as Ho.
  pose proof (Z.quot_pos (- a) PREC ltac:(lia) PREC_pos). lia.
Qed.

(* NewDecFromInt(n).Mul(r) is the exact product *)
Theorem dmul_int_exact : forall n r, dmul (n * PREC) r = n * r.
Proof.
  intros n r. unfold dmul.
  replace (n * PREC * r) with ((n * r) * PREC) by ring.
  apply chop_round_mult.
Qed.

Corollary dmul_dec_of_int : forall n r, dmul (dec_of_int n) r = n * r.
Proof. intros. apply dmul_int_exact. Qed.

Theorem mul_trunc_quot : forall n r, mul_trunc n r = Z.quot (n * r) PREC.
Proof.
  intros n r. unfold mul_trunc. rewrite dmul_dec_of_int. reflexivity.
Qed.

(* slash amount and tax are exact floors *)
Theorem mul_trunc_floor : forall n r, 0 <= n -> 0 <= r -> mul_trunc n r = (n * r) / PREC.
Proof.
  intros n r Hn Hr. rewrite mul_trunc_quot.
  apply Z.quot_div_nonneg; [nia | exact PREC_pos].
Qed.

(* the floor, said without division *)
Corollary mul_trunc_floor_spec : forall n r, 0 <= n -> 0 <= r ->
  mul_trunc n r * PREC <= n * r < (mul_trunc n r + 1) * PREC.
Proof.
  intros n r Hn Hr. rewrite mul_trunc_floor by assumption.
  pose proof (Z.div_mod (n * r) PREC ltac:(unfold PREC; lia)).
  pose proof (Z.mod_pos_bound (n * r) PREC PREC_pos). lia.
Qed.

Theorem mul_trunc_bounds : forall n r, 0 <= n -> 0 <= r <= ONE -> 0 <= mul_trunc n r <= n.
Proof.
  intros n r Hn Hr. rewrite mul_trunc_floor by lia.
  rewrite ONE_val in Hr. pose proof PREC_pos.
  split.
  - apply Z.div_pos; nia.
  - apply Z.div_le_upper_bound; nia.
Qed.

Theorem mul_trunc_0_r : forall n, mul_trunc n 0 = 0.
Proof.
  intros n. rewrite mul_trunc_quot, Z.mul_0_r. reflexivity.
Qed.

Theorem mul_trunc_ONE : forall n, mul_trunc n ONE = n.
Proof.
  intros n. rewrite mul_trunc_quot, ONE_val. apply Z.quot_mul. unfold PREC; lia.
Qed.

Theorem mul_trunc_lt : forall n r, 0 < n -> 0 <= r < ONE -> mul_trunc n r < n.
Proof.
  intros n r Hn Hr. rewrite mul_trunc_floor by lia.
  rewrite ONE_val in Hr. pose proof PREC_pos.
  apply Z.div_lt_upper_bound; nia.
Qed.

Theorem mul_trunc_mono_r : forall n r1 r2, 0 <= n -> 0 <= r1 <= r2 ->
  mul_trunc n r1 <= mul_trunc n r2.
Proof.
  intros n r1 r2 Hn Hr. rewrite !mul_trunc_floor by lia.
  apply Z.div_le_mono; [exact PREC_pos | nia].
Qed.

Theorem mul_trunc_mono_l : forall n1 n2 r, 0 <= n1 <= n2 -> 0 <= r ->
  mul_trunc n1 r <= mul_trunc n2 r.
Proof.
  intros n1 n2 r Hn Hr. rewrite !mul_trunc_floor by lia.
  apply Z.div_le_mono; [exact PREC_pos | nia].
Qed.

(* the remainder n - mul_trunc n r (new deposit, earned fee) stays in [0, n] *)
Corollary mul_trunc_remainder : forall n r, 0 <= n -> 0 <= r <= ONE ->
  0 <= n - mul_trunc n r <= n.
Proof. intros n r Hn Hr. pose proof (mul_trunc_bounds n r Hn Hr). lia. Qed.

(* ------------------------------------------------------------------ *)
(* dmul on decimals *)

Lemma dmul_ONE_r : forall a, dmul a ONE = a.
Proof. intros a. unfold dmul. rewrite ONE_val. apply chop_round_mult. Qed.

Lemma dmul_0_r : forall a, dmul a 0 = 0.
Proof. intros a. unfold dmul. rewrite Z.mul_0_r. reflexivity. Qed.

Lemma dmul_0_l : forall a, dmul 0 a = 0.
Proof. intros a. reflexivity. Qed.

Theorem dmul_mono_r : forall a d1 d2, 0 <= a -> d1 <= d2 -> dmul a d1 <= dmul a d2.
Proof. intros a d1 d2 Ha Hd. unfold dmul. apply chop_round_mono. nia. Qed.

Theorem dmul_mono_l : forall a1 a2 d, 0 <= d -> a1 <= a2 -> dmul a1 d <= dmul a2 d.
Proof. intros a1 a2 d Hd Ha. unfold dmul. apply chop_round_mono. nia. Qed.

Theorem dmul_nonneg : forall a d, 0 <= a -> 0 <= d -> 0 <= dmul a d.
Proof. intros a d Ha Hd. unfold dmul. apply chop_round_nonneg. nia. Qed.

(* a discount in [0,1] never increases a non-negative amount *)
Theorem dmul_discount_bounds : forall a d, 0 <= a -> 0 <= d <= ONE -> 0 <= dmul a d <= a.
Proof.
  intros a d Ha Hd. split.
  - apply dmul_nonneg; lia.
  - rewrite <- (dmul_ONE_r a) at 2. apply dmul_mono_r; lia.
Qed.

(* rounding error of one multiplication, non-negative operands *)
Theorem dmul_floor_bounds : forall a d, 0 <= a -> 0 <= d ->
  (a * d) / PREC <= dmul a d <= (a * d) / PREC + 1.
Proof. intros a d Ha Hd. unfold dmul. apply chop_round_floor_bounds. nia. Qed.

(* ------------------------------------------------------------------ *)
(* two roundings: dtrunc (chop_round X) against the exact floor X / 10^36.
   X is a product scaled by 10^36 (an integer times two 18-digit rates). *)

Definition PREC2 : Z := PREC * PREC.

Lemma PREC2_val : PREC2 = 10 ^ 36.
Proof. reflexivity. Qed.

Lemma round_then_trunc_bounds : forall X, 0 <= X ->
  X / PREC2 <= dtrunc (chop_round X) <= X / PREC2 + 1.
Proof.
  intros X HX.
  pose proof (chop_round_floor_bounds X HX) as Hb.
  pose proof (chop_round_nonneg X HX) as Hn.
  rewrite dtrunc_nonneg_eq by assumption.
  set (c := chop_round X) in *.
  unfold PREC2, PREC in *. lia.
Qed.

(* the fee is the exact floor unless the exact product lies within 5*10^-19
   below an integer, and exactly then it is one more *)
Lemma round_then_trunc_exact : forall X, 0 <= X ->
  X mod PREC2 < PREC2 - HALF -> dtrunc (chop_round X) = X / PREC2.
Proof.
  intros X HX Hm.
  rewrite chop_round_nonneg_eq by lia.
  destruct (chop_round_nn_spec X) as (H1 & H2 & H3 & H4).
  pose proof (chop_round_nn_nonneg X HX) as Hn.
  rewrite dtrunc_nonneg_eq by assumption.
  set (c := chop_round_nn X) in *. clearbody c.
  unfold PREC2, HALF, PREC in *. lia.
Qed.

Lemma round_then_trunc_up : forall X, 0 <= X ->
  PREC2 - HALF <= X mod PREC2 -> dtrunc (chop_round X) = X / PREC2 + 1.
Proof.
  intros X HX Hm.
  rewrite chop_round_nonneg_eq by lia.
  destruct (chop_round_nn_spec X) as (H1 & H2 & H3 & H4).
  pose proof (chop_round_nn_nonneg X HX) as Hn.
  rewrite dtrunc_nonneg_eq by assumption.
  set (c := chop_round_nn X) in *.
  (* the tie case: quotient ends in ...999 (odd), so half-even rounds up *)
  assert (Hc : c = X / PREC + 1).
  { destruct (Z.eq_dec (2 * (X mod PREC)) PREC) as [He | He].
    - specialize (H4 He). destruct H1 as [H1 | H1]; [| exact H1].
      exfalso. rewrite H1 in H4.
      assert (Hodd : X / PREC = 1 + 2 * ((X / PREC) / 2)).
      { clear H4 H1 H2 H3. unfold PREC2, HALF, PREC in *. lia. }
      rewrite Hodd in H4. rewrite Z.even_add_mul_2 in H4. discriminate H4.
    - apply H3. clear H4 H1 H2. unfold PREC2, HALF, PREC in *. lia. }
  clearbody c. subst c. clear H1 H2 H3 H4.
  unfold PREC2, HALF, PREC in *. lia.
Qed.

(* ------------------------------------------------------------------ *)
(* concrete instances (tested before proving) *)

Example ex_banker_down : chop_round (2 * PREC + HALF) = 2.   (* 2.5 -> 2 *)
Proof. vm_compute. reflexivity. Qed.
Example ex_banker_up : chop_round (3 * PREC + HALF) = 4.     (* 3.5 -> 4 *)
Proof. vm_compute. reflexivity. Qed.
Example ex_banker_neg : chop_round (- (3 * PREC + HALF)) = -4.
Proof. vm_compute. reflexivity. Qed.
Example ex_mul_trunc_slash : mul_trunc 1001 1000000000000000 = 1.  (* 1001 * 0.001 = 1.001 *)
Proof. vm_compute. reflexivity. Qed.
Example ex_mul_trunc_tax : mul_trunc 19 50000000000000000 = 0.     (* 19 * 0.05 = 0.95 *)
Proof. vm_compute. reflexivity. Qed.
Example ex_mul_trunc_lt : mul_trunc 1 999999999999999999 = 0.
Proof. vm_compute. reflexivity. Qed.
(* mul_trunc truncates toward zero, so for negative products it is NOT the floor *)
Example mul_trunc_floor_neg_refuted : mul_trunc (-1) 1 = 0 /\ (-1 * 1) / PREC = -1.
Proof. vm_compute. split; reflexivity. Qed.
(* two roundings can exceed the exact floor:
   6 * 0.333333333333333334 * 0.999999999999999998
   = 1.999999999999999999999999999999999992; the second Mul rounds to 2.0 *)
Example ex_round_then_trunc_up_instance :
  let X := 6 * 333333333333333334 * 999999999999999998 in
  0 <= X /\ PREC2 - HALF <= X mod PREC2 /\ X / PREC2 = 1 /\ dtrunc (chop_round X) = 2.
Proof. vm_compute. repeat split; discriminate. Qed.
Example ex_round_then_trunc_exact_instance :
  let X := 1000 * 500000000000000000 * 999999999999999999 in
  0 <= X /\ X mod PREC2 < PREC2 - HALF /\ X / PREC2 = 499 /\ dtrunc (chop_round X) = 499.
Proof. vm_compute. repeat split; discriminate. Qed.

(* instances of the hypotheses of the theorems above *)
Example ex_mul_trunc_floor_hyp :      (* slash 0.1% of 123456789 *)
  0 <= 123456789 /\ 0 <= 1000000000000000
  /\ mul_trunc 123456789 1000000000000000 = 123456 /\ (123456789 * 1000000000000000) / PREC = 123456.
Proof. vm_compute. repeat split; discriminate. Qed.
Example ex_mul_trunc_bounds_hyp :
  0 <= 1001 /\ 0 <= 999999999999999999 <= ONE /\ mul_trunc 1001 999999999999999999 = 1000.
Proof. vm_compute. repeat split; discriminate. Qed.
Example ex_mul_trunc_lt_hyp :
  0 < 1 /\ 0 <= 999999999999999999 < ONE /\ mul_trunc 1 999999999999999999 < 1.
Proof. vm_compute. repeat split; discriminate. Qed.
Example ex_dmul_discount_bounds_hyp :  (* 0.000000000000000003 * 0.5 rounds half-even to ...02 *)
  0 <= 3 /\ 0 <= HALF <= ONE /\ dmul 3 HALF = 2 /\ dmul 5 HALF = 2 /\ dmul 7 HALF = 4.
Proof. vm_compute. repeat split; discriminate. Qed.
(* without 0 <= a the discount bound fails (rounding is symmetric around 0) *)
Example dmul_discount_bounds_neg_refuted : ~ (0 <= dmul (-3) HALF <= -3) /\ dmul (-3) HALF = -2.
Proof. vm_compute. split; [intros [H _]; apply H; reflexivity | reflexivity]. Qed.
