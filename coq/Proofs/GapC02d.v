(* Gap closing for C02, trace-level converse of the debit: in every reachable state every request
   issued with a positive fee (i.e. outside super mode) lies in a batch that was paid for: the
   log contains a debit of its context, charged to the consumer named in the issue event, of at
   least its fee.  (C02_debit_matches_issue is the other direction: every debit is followed by
   the issue events of one batch whose fees sum to it.) *)
From Coq Require Import List ZArith Bool Lia.
From SVC Require Import Base.AMap Base.Res Base.Dec Model.Types Model.Pricing
  Model.Handlers Model.EndBlock Model.Step Proofs.Inv Proofs.Lemmas Proofs.ReqLemmas
  Proofs.PricingProofs Proofs.CtxOps Proofs.InvEscrow Proofs.InvAll Proofs.ReachRun
  Proofs.TraceLemmas Proofs.TraceSettle Proofs.GapC02 Proofs.GapC04.
Import ListNotations.
Open Scope Z_scope.

Definition DI (l : list Event) : Prop :=
  forall r p cons f, In (EvIssue r p cons f) l -> 0 < f ->
    exists amt, In (EvDebit (rid_ctx r) cons amt) l /\ f <= amt.

Lemma DI_noissue l l' : DI l -> ext noissue l l' -> DI l'.
Proof.
  intros H (d & -> & Hd) r p cons f Hin Hf. apply in_app_or in Hin. destruct Hin as [Hin|Hin].
  - rewrite Forall_forall in Hd. destruct (Hd _ Hin).
  - destruct (H r p cons f Hin Hf) as (amt & Ha & Hle). exists amt. split; [apply in_or_app; now right|exact Hle].
Qed.

Lemma DI_app d l : DI l ->
  (forall r p cons f, In (EvIssue r p cons f) d -> 0 < f ->
     exists amt, In (EvDebit (rid_ctx r) cons amt) d /\ f <= amt) -> DI (d ++ l).
Proof.
  intros H Hd r p cons f Hin Hf. apply in_app_or in Hin. destruct Hin as [Hin|Hin].
  - destruct (Hd r p cons f Hin Hf) as (amt & Ha & Hle). exists amt. split; [apply in_or_app; now left|exact Hle].
  - destruct (H r p cons f Hin Hf) as (amt & Ha & Hle). exists amt. split; [apply in_or_app; now right|exact Hle].
Qed.

Lemma sum_ge_member (g : Z -> Z) (l : list Z) p :
  (forall x, 0 <= g x) -> In p l -> g p <= fold_right (fun x a => g x + a) 0 l.
Proof.
  intros Hg. induction l as [|a l IH]; intros Hin; [destruct Hin|]. cbn [fold_right].
  assert (0 <= fold_right (fun x a => g x + a) 0 l).
  { clear - Hg. induction l as [|b l IH']; cbn [fold_right]; [lia|]. specialize (Hg b). lia. }
  destruct Hin as [->|Hin]; [lia|]. specialize (IH Hin). specialize (Hg a). lia.
Qed.

Lemma DI_new_one cfg s c :
  Inv cfg s -> In (height s, c) (newq s) -> DI (log s) -> DI (log (new_one cfg s c)).
Proof.
  intros HI Hdue HD. destruct (due_new_ctx _ _ _ HI Hdue) as (rc & Grc & _ & _).
  pose proof (new_one_log cfg s c rc Grc) as H. cbv zeta in H.
  set (el := filter_providers s rc (c_provs rc)) in *.
  destruct H as [(Hext & _)|(_ & sp & Hsp & El & _)].
  { eapply DI_noissue; [exact HD|]. eapply ext_weaken; [|exact Hext].
    intros e (_ & He). destruct e; cbn in *; try exact I. discriminate. }
  rewrite El. set (n := c_counter rc + 1) in *. set (provs := map fst el) in *.
  destruct Hsp as [(Es & ->)|(Es & x & Et & Esp)].
  - (* super mode: every fee is 0 *)
    change (EvBatchStart c n (height s) (len provs) :: issue_evs s c rc n 0 provs ++ log s)
      with ((EvBatchStart c n (height s) (len provs) :: issue_evs s c rc n 0 provs) ++ log s).
    apply DI_app; [exact HD|]. intros r p cons f [E|Hin] Hf; [discriminate E|].
    apply In_issue_evs in Hin. destruct Hin as (j & p' & E & _). injection E as _ _ _ ->.
    unfold fee_of in Hf. rewrite Es in Hf. lia.
  - pose proof (transfer_frame _ _ _ _ _ Et) as Hfr.
    assert (Els : log sp = EvDebit c (c_cons rc) (sum_prices el) :: log s)
      by (rewrite Esp; sproj; rewrite Hfr; reflexivity).
    assert (Et1 : time sp = time s) by (rewrite Esp; sproj; rewrite Hfr; reflexivity).
    assert (Ep : pricing sp = pricing s) by (rewrite Esp; sproj; rewrite Hfr; reflexivity).
    assert (Ev : vols sp = vols s) by (rewrite Esp; sproj; rewrite Hfr; reflexivity).
    rewrite Els.
    assert (Eq : EvBatchStart c n (height s) (len provs)
              :: issue_evs sp c rc n 0 provs ++ EvDebit c (c_cons rc) (sum_prices el) :: log s
            = (EvBatchStart c n (height s) (len provs)
              :: issue_evs sp c rc n 0 provs ++ [EvDebit c (c_cons rc) (sum_prices el)]) ++ log s)
      by (cbn [app]; rewrite <- app_assoc; reflexivity).
    rewrite Eq.
    apply DI_app; [exact HD|]. intros r p cons f [E|Hin] Hf; [discriminate E|].
    apply in_app_or in Hin. destruct Hin as [Hin|[E|[]]]; [|discriminate E].
    apply In_issue_evs in Hin. destruct Hin as (j & p' & E & _ & Hp'). injection E as -> -> -> ->.
    cbn [rid_ctx fst]. exists (sum_prices el). split; [right; apply in_or_app; right; now left|].
    rewrite (fee_of_stable s sp) by assumption.
    assert (Hsum : fold_right (fun q a => fee_of s rc q + a) 0 provs = sum_prices el).
    { unfold provs, el. now rewrite fee_sum_prices, Es. }
    rewrite <- Hsum. apply (sum_ge_member (fee_of s rc)); [|exact Hp'].
    intros q. unfold fee_of. rewrite Es.
    pose proof (C07_fee_ge_1 (pricing_of s (c_svc rc, q)) (time s) (vol_of s (c_cons rc) (c_svc rc) q)). lia.
Qed.

Lemma NI_expire_one cfg s c : NI s (expire_one cfg s c).
Proof.
  unfold expire_one. set (rc := ctx_or_zero s c).
  assert (Hp : NI s (fst (if c_bdone rc then (s, rc)
             else complete_batch (fold_left (expire_req cfg) (active_rids s c (c_counter rc)) s) c rc))).
  { destruct (c_bdone rc); cbn [fst]; [apply NI_refl|].
    eapply NI_trans; [apply NI_fold_expire|apply Q_NI, Q_complete_batch]. }
  destruct (if c_bdone rc then (s, rc) else _) as [s1 rc1]. cbn [fst] in Hp.
  eapply NI_trans; [exact Hp|]. eapply NI_trans; [|apply Q_NI, Q_clean_batch].
  apply Q_NI. destruct (c_state rc1); [destruct (c_rep rc1 && _)| |]; ext_auto.
Qed.

Lemma NI_msg cfg s o s' : handle cfg s o = Ok s' -> (forall dt, o <> OEndBlock dt) -> NI s s'.
Proof.
  intros H Hne. destruct o;
    try (apply Q_NI; eapply other_msg_quiet; [exact H|exact Hne|discriminate]).
  cbn [handle] in H. apply respond_effect in H.
  destruct H as (q & rc & dq & _ & _ & _ & _ & _ & Hdq & H).
  assert (Hq : Forall noissue dq) by (eapply Forall_impl; [apply quiet_noissue|exact Hdq]).
  destruct (negb (out =? 0) && negb out_valid).
  - destruct H as (sa & b & _ & _ & El & _). exists (dq ++ [EvRespond r; EvRefund r (c_cons rc) (r_fee q);
        EvSlash r (c_svc rc, r_prov q) (mul_trunc (b_deposit b) (p_slash cfg))]).
    split; [rewrite El, app_assoc; reflexivity|]. apply Forall_app. split; [exact Hq|repeat constructor].
  - destruct H as (El & _). eexists (dq ++ [_; _; _]).
    split; [rewrite El, app_assoc; reflexivity|]. apply Forall_app. split; [exact Hq|repeat constructor].
Qed.

Theorem Reach_DI cfg s : wf_cfg cfg -> Reach cfg s -> DI (log s).
Proof.
  intros Hcfg H. induction H as [h0 t0 f H1 H2 H3|s o H IH Ho].
  - intros r p cons f0 [].
  - pose proof (Reach_Inv cfg s Hcfg H) as Hi.
    unfold step. destruct (handle cfg s o) as [s'| |] eqn:E; cbn [fst]; try assumption.
    destruct o; try (eapply DI_noissue; [exact IH|]; eapply (NI_msg cfg s _ s'); [exact E|discriminate]).
    cbn [handle] in E. injection E as <-. cbn [wf_op] in Ho. destruct Ho as (_ & Hb).
    unfold end_block, end_blocker.
    set (l1 := due (expq s) (height s)).
    assert (Hn1 : NoDup l1) by (apply NoDup_due; apply (inv_wf _ _ Hi)).
    assert (Hl1 : forall c, In c l1 -> In (height s, c) (expq s)) by (intros c; apply In_due).
    destruct (fold_expire_phase cfg l1 s Hcfg Hi Hb Hn1 Hl1) as (I1 & H1 & _).
    assert (D1 : DI (log (fold_left (expire_one cfg) l1 s))).
    { apply (fold_expire_phase_P (fun x => DI (log x))); try assumption.
      intros s0 c _ _ _ HD. eapply DI_noissue; [exact HD|apply NI_expire_one]. }
    set (s1 := fold_left (expire_one cfg) l1 s) in *.
    set (l2 := due (newq s1) (height s1)).
    assert (Hn2 : NoDup l2) by (apply NoDup_due; apply (inv_wf _ _ I1)).
    assert (Hl2 : forall c, In c l2 -> In (height s1, c) (newq s1)) by (intros c; apply In_due).
    assert (Hb1 : height s1 < HEIGHT_BOUND) by now rewrite H1.
    assert (D2 : DI (log (fold_left (new_one cfg) l2 s1))).
    { apply (fold_new_phase_P (fun x => DI (log x))); try assumption.
      intros s0 c Hi0 Hd0 _ HD. now apply DI_new_one. }
    exact D2.
Qed.

Theorem issue_has_debit cfg s r p cons f :
  wf_cfg cfg -> Reach cfg s -> In (EvIssue r p cons f) (log s) -> 0 < f ->
  exists amt, In (EvDebit (rid_ctx r) cons amt) (log s) /\ f <= amt.
Proof. intros Hcfg HR. exact (Reach_DI cfg s Hcfg HR r p cons f). Qed.

Example tx_issue_debit :
  In (EvIssue tx_r3 11 20 100) (log tx_s) /\ In (EvDebit (rid_ctx tx_r3) 20 200) (log tx_s).
Proof. vm_compute. auto 30. Qed.
