(* Per-step specifications of property C13 (earned fees, withdraw address) and of
   property C15 (definitions and bindings are stable), for every operation. *)
From Coq Require Import List ZArith Bool Lia Permutation.
From SVC Require Import Base.AMap Base.Res Base.Dec Model.Types Model.Pricing
  Model.Handlers Model.EndBlock Model.Step Proofs.Inv Proofs.Lemmas Proofs.InvWf Proofs.PFrame
  Proofs.InvIndex Proofs.InvEarn Proofs.ReachRun Proofs.DecProofs.
Import ListNotations.
Open Scope Z_scope.

(* ------------------------------------------------------------------ *)
(* a concrete history used by the examples: one service, three providers (two owned by
   42, one by 43), owner 42 withdraws to 44; one batch of three requests, all answered *)

Definition ex_cfg : Params := mkParams 100 1000 1000 (ONE / 20) (ONE / 1000) 10 10 77 99.
Definition ex_raw : RawPricing := mkRaw (100 * ONE) [] [].
Definition ex_c : CtxId := (1001, 0).
Definition ex_ops : list Op :=
  [ ODefine 1 5 true;
    OBind 1 7 (CBase 200000) (Some ex_raw) 10 42 true;
    OBind 1 8 (CBase 200000) (Some ex_raw) 10 42 true;
    OBind 1 9 (CBase 200000) (Some ex_raw) 10 43 true;
    OSetWd 42 44 true;
    OCall ex_c 1 [7; 8; 9] 50 0 (CBase 1000) 20 false false 0 0 true true;
    OEndBlock 5;
    ORespond (ex_c, 1, 1, 0) 7 0 0 true true;
    ORespond (ex_c, 1, 1, 1) 8 0 0 true true;
    ORespond (ex_c, 1, 1, 2) 9 0 0 true true ].
Definition ex_funding : list (Z * Z) := [(42, 1000000); (43, 1000000); (50, 10000)].
Definition ex_s0 : State := init 1 0 ex_funding.
Definition ex_s : State := run ex_cfg ex_s0 ex_ops.

Example ex_cfg_wf : wf_cfg ex_cfg.
Proof. unfold wf_cfg. repeat match goal with |- _ /\ _ => split end; zc. Qed.

Example ex_all_ok :
  map (fun n => snd (step ex_cfg (run ex_cfg ex_s0 (firstn n ex_ops)) (nth n ex_ops (OEndBlock 0))))
      (seq 0 10) = repeat ROk 10.
Proof. vm_compute. reflexivity. Qed.

Example ex_reach : Reach ex_cfg ex_s.
Proof.
  apply reach_init_run; [lia|lia|unfold ex_funding; wf_funding_tac|].
  unfold ex_ops. wf_run_tac.
Qed.

Example ex_records :
  earned ex_s = [(7, 95); (8, 95); (9, 95)] /\ own_earned ex_s = [(42, 190); (43, 95)]
  /\ bal ex_s Escrow = 285 /\ bal ex_s FeeColl = 15 /\ get 42 (wdaddr ex_s) = Some 44.
Proof. vm_compute. repeat split. Qed.

(* ------------------------------------------------------------------ *)
(* C13: withdrawing the earned fees of one provider *)

Theorem C13_withdraw_provider cfg s owner prov s' :
  Inv cfg s -> prov <> 0 -> h_withdraw s owner prov true = Ok s' ->
  let e := get0 prov (earned s) in
  let dest := match get owner (wdaddr s) with Some a => a | None => owner end in
  get prov (owner_of s) = Some owner
  /\ 0 <= e <= bal s Escrow
  /\ (forall a, bal s' a = bal s a - (if eqb a Escrow then e else 0)
                                    + (if eqb a (User dest) then e else 0))
  /\ supply s' = supply s
  /\ get0 prov (earned s') = 0
  /\ (forall p, p <> prov -> get p (earned s') = get p (earned s))
  /\ get0 owner (own_earned s') = get0 owner (own_earned s) - e
  /\ (forall o, o <> owner -> get o (own_earned s') = get o (own_earned s))
  /\ log s' = EvWithdraw owner dest e :: log s
  /\ sframe s s'.
Proof.
  intros HI Hp H e dest.
  pose proof (inv_wf _ _ HI) as Hwf. pose proof (inv_index _ _ HI) as PI.
  pose proof (inv_earn _ _ HI) as P. pose proof (sframe_withdraw _ _ _ _ _ H) as Hsf.
  destruct (withdraw_inv _ _ _ _ _ _ (inv_wd _ _ HI) PI P H) as (_ & Ho & s3 & Et & ->).
  assert (E0 : (prov =? 0) = false) by (now apply Z.eqb_neq). specialize (Ho E0).
  unfold withdraw_amount, withdraw_books, withdraw_dest in *. rewrite E0 in Et |- *.
  fold e dest in Et |- *. cbv zeta in Et. fold e in Et.
  assert (Hwe : wf (earned s)) by apply Hwf. assert (Hwo : wf (own_earned s)) by apply Hwf.
  pose proof (cf_transfer _ _ _ _ _ Et) as [_ _ _ _ _ _ _ F8 F9].
  pose proof (transfer_frame _ _ _ _ _ Et) as Hfr.
  pose proof (transfer_some _ _ _ _ _ Et) as (He0 & Hele & _).
  sproj.
  split; [exact Ho|]. split; [exact (conj He0 Hele)|]. split.
  { intros a. exact (transfer_bal _ _ _ _ _ a Et). }
  split; [rewrite Hfr; reflexivity|].
  split; [rewrite F8, get0_del, eqb_refl by exact Hwe; reflexivity|].
  split; [intros p Hn; rewrite F8; now apply get_del_neq|].
  split.
  { rewrite F9. destruct (e =? get0 owner (own_earned s)) eqn:Eq; b2p.
    - rewrite get0_del, eqb_refl by exact Hwo. lia.
    - rewrite get0_set, eqb_refl. reflexivity. }
  split.
  { intros o Hn. rewrite F9. destruct (e =? get0 owner (own_earned s)).
    - now apply get_del_neq.
    - now apply get_set_neq. }
  split; [rewrite Hfr; reflexivity|rewrite E0 in Hsf; exact Hsf].
Qed.

Example C13_withdraw_provider_ex :
  Reach ex_cfg ex_s /\ wf_cfg ex_cfg /\ 7 <> 0
  /\ exists s', h_withdraw ex_s 42 7 true = Ok s'
       /\ bal s' (User 44) = bal ex_s (User 44) + 95 /\ bal s' Escrow = 190
       /\ earned s' = [(8, 95); (9, 95)] /\ own_earned s' = [(42, 95); (43, 95)].
Proof.
  split; [exact ex_reach|]. split; [exact ex_cfg_wf|]. split; [discriminate|].
  eexists. split; [vm_compute; reflexivity|]. vm_compute. repeat split.
Qed.

(* C13: withdrawing everything an owner has earned *)
Theorem C13_withdraw_owner cfg s owner s' :
  Inv cfg s -> h_withdraw s owner 0 true = Ok s' ->
  let oe := get0 owner (own_earned s) in
  let dest := match get owner (wdaddr s) with Some a => a | None => owner end in
  oe = msum (owned_by s owner) (earned s)
  /\ 0 <= oe <= bal s Escrow
  /\ (forall a, bal s' a = bal s a - (if eqb a Escrow then oe else 0)
                                    + (if eqb a (User dest) then oe else 0))
  /\ supply s' = supply s
  /\ get0 owner (own_earned s') = 0
  /\ (forall o, o <> owner -> get o (own_earned s') = get o (own_earned s))
  /\ (forall p, get p (owner_of s) = Some owner -> get0 p (earned s') = 0)
  /\ (forall p, get p (owner_of s) <> Some owner -> get p (earned s') = get p (earned s))
  /\ log s' = EvWithdraw owner dest oe :: log s
  /\ sframe s s'.
Proof.
  intros HI H oe dest.
  pose proof (inv_wf _ _ HI) as Hwf. pose proof (inv_index _ _ HI) as PI.
  pose proof (inv_earn _ _ HI) as P. pose proof (sframe_withdraw _ _ _ _ _ H) as Hsf.
  destruct (withdraw_inv _ _ _ _ _ _ (inv_wd _ _ HI) PI P H) as (_ & _ & s3 & Et & ->).
  unfold withdraw_amount, withdraw_books, withdraw_dest in *.
  change (0 =? 0) with true in Et |- *. cbv iota in Et |- *. fold oe dest in Et |- *.
  assert (Hwe : wf (earned s)) by apply Hwf. assert (Hwo : wf (own_earned s)) by apply Hwf.
  pose proof (cf_transfer _ _ _ _ _ Et) as [_ _ _ _ _ _ _ F8 F9].
  pose proof (transfer_frame _ _ _ _ _ Et) as Hfr.
  pose proof (transfer_some _ _ _ _ _ Et) as (He0 & Hele & _).
  pose proof (withdraw_provs_spec _ _ owner PI) as Hpr.
  sproj.
  split; [apply P|]. split; [exact (conj He0 Hele)|]. split.
  { intros a. exact (transfer_bal _ _ _ _ _ a Et). }
  split; [rewrite Hfr; reflexivity|].
  split; [rewrite F9, get0_del, eqb_refl by exact Hwo; reflexivity|].
  split; [intros o Hn; rewrite F9; now apply get_del_neq|].
  split.
  { intros p Hpo. unfold get0. rewrite F8, get_fold_del by exact Hwe.
    apply Hpr, mem_In in Hpo. now rewrite Hpo. }
  split.
  { intros p Hpo. rewrite F8, get_fold_del by exact Hwe.
    destruct (mem p (owner_provs s owner)) eqn:Em; [|reflexivity].
    apply mem_In, Hpr in Em. contradiction. }
  split; [rewrite Hfr; reflexivity|exact Hsf].
Qed.

Example C13_withdraw_owner_ex :
  Reach ex_cfg ex_s /\ wf_cfg ex_cfg
  /\ exists s', h_withdraw ex_s 42 0 true = Ok s'
       /\ bal s' (User 44) = bal ex_s (User 44) + 190 /\ bal s' Escrow = 95
       /\ earned s' = [(9, 95)] /\ own_earned s' = [(43, 95)].
Proof.
  split; [exact ex_reach|]. split; [exact ex_cfg_wf|].
  eexists. split; [vm_compute; reflexivity|]. vm_compute. repeat split.
Qed.

(* C13: the withdraw address of an owner changes only by that owner's own successful
   MsgSetWithdrawAddress; this holds for every operation, EndBlock included *)
Theorem C13_wdaddr_frame cfg s o a :
  get a (wdaddr (fst (step cfg s o))) <> get a (wdaddr s) ->
  exists addr, o = OSetWd a addr true
    /\ handle cfg s o = Ok (set_wdaddr s (set a addr (wdaddr s))).
Proof.
  unfold step. destruct (handle cfg s o) as [s'| |] eqn:H; cbn [fst]; try congruence.
  intros Hne. destruct (is_setwd o) eqn:Hw.
  - destruct o; try discriminate. cbn [handle] in H.
    pose proof (setwd_inv _ _ _ _ _ H) as (-> & ->). sproj.
    destruct (Z.eq_dec a owner) as [->|Hn]; [eauto|].
    rewrite get_set_neq in Hne by exact Hn. congruence.
  - rewrite (wdaddr_msg _ _ _ _ H Hw) in Hne. congruence.
Qed.

Theorem C13_wdaddr_set cfg s owner addr s' :
  handle cfg s (OSetWd owner addr true) = Ok s' -> get owner (wdaddr s') = Some addr.
Proof.
  cbn [handle]. intros H. apply setwd_inv in H. destruct H as (_ & ->). sproj. apply get_set_eq.
Qed.

Example C13_wdaddr_frame_ex :
  let s := run ex_cfg ex_s0 (firstn 4 ex_ops) in
  get 42 (wdaddr (fst (step ex_cfg s (OSetWd 42 44 true)))) <> get 42 (wdaddr s).
Proof. vm_compute. discriminate. Qed.

(* ------------------------------------------------------------------ *)
(* C15 *)

(* a definition, once made, is never changed or removed by any operation *)
Theorem C15_def_stable cfg s o svc c :
  get svc (defs s) = Some c -> get svc (defs (fst (step cfg s o))) = Some c.
Proof.
  intros Hd. unfold step. destruct (handle cfg s o) as [s'| |] eqn:H; cbn [fst]; try exact Hd.
  destruct (static_op o) eqn:Hst.
  { pose proof (sframe_msg _ _ _ _ H Hst) as [F _ _ _ _ _ _]. now rewrite F. }
  destruct o; try discriminate; cbn [handle] in H.
  - apply define_inv in H. destruct H as (_ & Hn & ->). sproj.
    rewrite get_set_neq; [exact Hd|]. intros ->. congruence.
  - apply bind_inv in H. destruct H as (amt & raw & H).
    assert (E : defs s' = defs s) by tauto. now rewrite E.
  - apply update_inv in H. destruct H as (b & b' & H).
    assert (E : defs s' = defs s) by tauto. now rewrite E.
  - apply enable_inv in H. destruct H as (b & amt & md & H).
    assert (E : defs s' = defs s) by tauto. now rewrite E.
  - apply setwd_inv in H. destruct H as (_ & ->). exact Hd.
Qed.

Example C15_def_stable_ex : get 1 (defs (run ex_cfg ex_s0 (firstn 1 ex_ops))) = Some 5
  /\ get 1 (defs ex_s) = Some 5.
Proof. vm_compute. split; reflexivity. Qed.

(* defining an existing service name again is rejected (and changes nothing) *)
Theorem C15_redefine_rejected cfg s svc content ok :
  has svc (defs s) = true ->
  handle cfg s (ODefine svc content ok) = Err
  /\ step cfg s (ODefine svc content ok) = (s, RErr).
Proof.
  intros Hh. assert (E : handle cfg s (ODefine svc content ok) = Err).
  { cbn [handle]. unfold h_define, has in *. destruct ok; cbn [guard]; [|reflexivity].
    destruct (get svc (defs s)); [reflexivity|discriminate]. }
  split; [exact E|]. unfold step. now rewrite E.
Qed.

Example C15_redefine_rejected_ex :
  has 1 (defs ex_s) = true /\ step ex_cfg ex_s (ODefine 1 6 true) = (ex_s, RErr).
Proof. split; [vm_compute; reflexivity|]. apply C15_redefine_rejected. vm_compute. reflexivity. Qed.

(* a binding, once present, stays present under the same key with the same owner *)
Theorem C15_binding_identity cfg s o k b :
  get k (binds s) = Some b ->
  exists b', get k (binds (fst (step cfg s o))) = Some b' /\ b_owner b' = b_owner b.
Proof.
  intros Hb. unfold step. destruct (handle cfg s o) as [s'| |] eqn:H; cbn [fst]; eauto.
  destruct (static_op o) eqn:Hst.
  { pose proof (sframe_msg _ _ _ _ H Hst) as [_ _ _ _ _ _ F].
    destruct (bsim_get _ _ _ _ F Hb) as (b' & E & _ & Ho & _). eauto. }
  destruct o; try discriminate; cbn [handle] in H.
  - apply define_inv in H. destruct H as (_ & _ & ->). eauto.
  - apply bind_inv in H. destruct H as (amt & raw & _ & _ & Hn & _ & _ & _ & _ & _ & E & _).
    exists b. split; [|reflexivity]. rewrite E, get_set_neq; [exact Hb|].
    intros ->. unfold BKey in *. congruence.
  - apply update_inv in H. destruct H as (b0 & b' & Hb0 & _ & Ho & _ & [E|E] & _).
    + exists b. now rewrite E.
    + rewrite E. destruct (eqb_spec k (svc, prov)) as [->|Hn].
      * exists b'. split; [apply get_set_eq|]. unfold BKey in *. congruence.
      * exists b. split; [|reflexivity]. now rewrite get_set_neq.
  - apply enable_inv in H. destruct H as (b0 & amt & md & Hb0 & _ & _ & _ & _ & E & _).
    rewrite E. destruct (eqb_spec k (svc, prov)) as [->|Hn].
    + eexists. split; [apply get_set_eq|]. cbn [b_owner setb_dtime setb_avail setb_deposit].
      unfold BKey in *. congruence.
    + exists b. split; [|reflexivity]. now rewrite get_set_neq.
  - apply setwd_inv in H. destruct H as (_ & ->). eauto.
Qed.

(* the owner of a provider is written once *)
Theorem C15_owner_write_once cfg s o p ow :
  get p (owner_of s) = Some ow -> get p (owner_of (fst (step cfg s o))) = Some ow.
Proof.
  intros Hp. unfold step. destruct (handle cfg s o) as [s'| |] eqn:H; cbn [fst]; try exact Hp.
  destruct (is_bind o) eqn:Hb.
  - destruct o; try discriminate. cbn [handle] in H.
    apply bind_inv in H. destruct H as (amt & raw & H).
    assert (E : owner_of s' = match get prov (owner_of s) with
                               | Some _ => owner_of s | None => set prov owner (owner_of s) end) by tauto.
    rewrite E. destruct (get prov (owner_of s)) eqn:E1; [exact Hp|].
    rewrite get_set_neq; [exact Hp|]. intros ->. congruence.
  - destruct (owner_of_msg _ _ _ _ H Hb) as [E _]. now rewrite E.
Qed.

(* the published pricing text of a binding changes only by its owner's successful
   MsgUpdateServiceBinding that carries a pricing *)
Theorem C15_binding_text_stable cfg s o k b b' :
  get k (binds s) = Some b -> get k (binds (fst (step cfg s o))) = Some b' ->
  b_raw b' <> b_raw b ->
  exists dep qos, o = OUpdate (fst k) (snd k) dep (Some (Some (b_raw b'))) qos (b_owner b) true.
Proof.
  intros Hb. unfold step. destruct (handle cfg s o) as [s'| |] eqn:H; cbn [fst];
    try (intros Hb' Hne; unfold BKey in *; congruence).
  intros Hb' Hne.
  destruct (static_op o) eqn:Hst.
  { pose proof (sframe_msg _ _ _ _ H Hst) as [_ _ _ _ _ _ F].
    destruct (bsim_get _ _ _ _ F Hb) as (b1 & E & Hr & _). unfold BKey in *. congruence. }
  destruct o; try discriminate; cbn [handle] in H.
  - apply define_inv in H. destruct H as (_ & _ & ->). sproj. unfold BKey in *. congruence.
  - apply bind_inv in H. destruct H as (amt & raw & _ & _ & Hn & _ & _ & _ & _ & _ & E & _).
    rewrite E, get_set_neq in Hb'; [unfold BKey in *; congruence|].
    intros ->. unfold BKey in *. congruence.
  - pose proof H as H0. unfold h_update in H0. apply guard_ok in H0. destruct H0 as [Hok _].
    apply update_inv in H. destruct H as (b0 & b1 & Hb0 & Hown & Ho & _ & Hbs & Hpr & _).
    destruct (eqb_spec k (svc, prov)) as [->|Hn].
    + assert (b0 = b) by (unfold BKey in *; congruence). subst b0.
      destruct Hpr as [[Hr _]|(Epr & E & _)].
      * destruct Hbs as [E|E]; rewrite E in Hb'.
        -- unfold BKey in *. congruence.
        -- rewrite get_set_eq in Hb'. congruence.
      * rewrite E, get_set_eq in Hb'. injection Hb' as <-.
        subst pr ok owner. cbn [fst snd]. eauto.
    + destruct Hbs as [E|E]; rewrite E in Hb'; [|rewrite get_set_neq in Hb' by exact Hn];
        unfold BKey in *; congruence.
  - apply enable_inv in H. destruct H as (b0 & amt & md & Hb0 & _ & _ & _ & _ & E & _).
    rewrite E in Hb'. destruct (eqb_spec k (svc, prov)) as [->|Hn].
    + rewrite get_set_eq in Hb'. injection Hb' as <-.
      cbn [b_raw setb_dtime setb_avail setb_deposit] in Hne. unfold BKey in *. congruence.
    + rewrite get_set_neq in Hb' by exact Hn. unfold BKey in *. congruence.
  - apply setwd_inv in H. destruct H as (_ & ->). sproj. unfold BKey in *. congruence.
Qed.

Example C15_binding_identity_ex :
  (exists b, get (1, 7) (binds (run ex_cfg ex_s0 (firstn 2 ex_ops))) = Some b /\ b_owner b = 42)
  /\ (exists b, get (1, 7) (binds ex_s) = Some b /\ b_owner b = 42)
  /\ get 7 (owner_of ex_s) = Some 42.
Proof. vm_compute. repeat split; eexists; split; reflexivity. Qed.

(* ------------------------------------------------------------------ *)
(* C13: how a fee is earned (keeper.AddEarnedFee inside a valid response) *)

Lemma get0_add_to_any {K} `{EqDec K} (k k' : K) e (m : amap K Z) : posm m -> 0 <= e ->
  get0 k' (add_to k e m) = get0 k' m + (if eqb k' k then e else 0).
Proof.
  intros Hp He. rewrite get0_add_to by assumption.
  destruct (eqb_spec k' k) as [->|]; lia.
Qed.

Theorem C13_add_earned cfg s r prov fee s1 :
  wf_cfg cfg -> Inv cfg s -> 0 <= fee -> add_earned_fee cfg s r prov fee = Ok s1 ->
  let tax := mul_trunc fee (p_tax cfg) in
  0 <= tax <= fee
  /\ exists o, get prov (owner_of s) = Some o
     /\ (forall p, get0 p (earned s1) = get0 p (earned s) + (if eqb p prov then fee - tax else 0))
     /\ (forall o', get0 o' (own_earned s1)
                    = get0 o' (own_earned s) + (if eqb o' o then fee - tax else 0))
     /\ (forall a, bal s1 a = bal s a - (if eqb a Escrow then tax else 0)
                                       + (if eqb a FeeColl then tax else 0))
     /\ owner_of s1 = owner_of s.
Proof.
  intros Hcfg HI Hfee H tax.
  pose proof (inv_wf _ _ HI) as Hwf. pose proof (inv_earn _ _ HI) as (E1 & E2 & E3).
  assert (Hp1 : posm (earned s)) by (intros p v Hin; now apply E1 in Hin).
  assert (Htax : 0 <= tax <= fee).
  { apply mul_trunc_bounds; [exact Hfee|]. destruct Hcfg as (_ & _ & _ & Ht & _). lia. }
  split; [exact Htax|].
  unfold add_earned_fee in H. fold tax in H. inv_ok H. rename a into sa.
  pose proof (cf_transfer _ _ _ _ _ Ha) as [_ _ _ F4 _ _ _ F8 F9].
  pose proof (fun a => transfer_bal _ _ _ _ _ a Ha) as Hbal.
  sproj. rewrite F4 in H.
  destruct (get prov (owner_of s)) as [o|] eqn:Eo; inv_ok H. subst s1. sproj.
  exists o. split; [reflexivity|]. rewrite F4, F8, F9.
  split; [intros p; apply get0_add_to_any; [exact Hp1|lia]|].
  split; [intros o'; apply get0_add_to_any; [exact E2|lia]|].
  split; [exact Hbal|reflexivity].
Qed.

(* the Panic branch of AddEarnedFee (provider without owner) is unreachable for the
   provider of a stored request, and the tax never exceeds the fee *)
Theorem C13_add_earned_no_panic cfg s r q :
  wf_cfg cfg -> Inv cfg s -> get r (reqs s) = Some q ->
  add_earned_fee cfg s r (r_prov q) (r_fee q) <> Panic
  /\ (bal s Escrow >= mul_trunc (r_fee q) (p_tax cfg) ->
      exists s1, add_earned_fee cfg s r (r_prov q) (r_fee q) = Ok s1).
Proof.
  intros Hcfg HI Hq.
  destruct (inv_req _ _ HI) as (R1 & _). destruct (R1 _ _ (get_In _ _ _ Hq)) as (rc & Hx).
  assert (Hfee : 0 <= r_fee q) by tauto.
  assert (Hown : has (r_prov q) (owner_of s) = true) by tauto.
  assert (Htax : 0 <= mul_trunc (r_fee q) (p_tax cfg) <= r_fee q).
  { apply mul_trunc_bounds; [exact Hfee|]. destruct Hcfg as (_ & _ & _ & Ht & _). lia. }
  unfold add_earned_fee.
  destruct (transfer Escrow FeeColl (mul_trunc (r_fee q) (p_tax cfg)) s) as [sa|] eqn:Et.
  - pose proof (cf_transfer _ _ _ _ _ Et) as [_ _ _ F4 _ _ _ _ _].
    cbn [of_opt bind]. replace (mul_trunc (r_fee q) (p_tax cfg) <=? r_fee q) with true
      by (symmetry; apply Z.leb_le; lia).
    cbn [guard]. sproj. rewrite F4. unfold has in Hown.
    destruct (get (r_prov q) (owner_of s)); [|discriminate].
    split; [discriminate|eauto].
  - cbn [of_opt bind]. split; [discriminate|].
    intros Hb. exfalso. unfold transfer in Et.
    destruct ((mul_trunc (r_fee q) (p_tax cfg) <? 0)
              || (bal s Escrow <? mul_trunc (r_fee q) (p_tax cfg))) eqn:E; [|discriminate].
    apply orb_true_iff in E. destruct E as [E|E]; b2p; lia.
Qed.

(* a response: either the fee is earned (valid output) and the records grow by fee - tax,
   or the provider is slashed and the earned-fee records do not change *)
Theorem C13_respond cfg s r who code out out_valid ok s' :
  wf_cfg cfg -> Inv cfg s -> h_respond cfg s r who code out out_valid ok = Ok s' ->
  exists q, get r (reqs s) = Some q /\ who = r_prov q /\ r_active q = true
  /\ owner_of s' = owner_of s
  /\ ((negb (out =? 0) && negb out_valid = true /\ eframe s s')
      \/ (negb (out =? 0) && negb out_valid = false
          /\ let e := r_fee q - mul_trunc (r_fee q) (p_tax cfg) in
             0 <= e
             /\ exists o, get who (owner_of s) = Some o
                /\ (forall p, get0 p (earned s') = get0 p (earned s) + (if eqb p who then e else 0))
                /\ (forall o', get0 o' (own_earned s')
                               = get0 o' (own_earned s) + (if eqb o' o then e else 0)))).
Proof.
  intros Hcfg HI H. pose proof (sframe_respond _ _ _ _ _ _ _ _ _ H) as [_ Foo _ _ _ _ _].
  apply respond_inv in H.
  destruct H as (q & rc0 & s1 & rc & _ & Hq & Hrc0 & -> & Hact & Hset & Hrc & ->).
  exists q. split; [exact Hq|]. split; [reflexivity|]. split; [exact Hact|]. split; [exact Foo|].
  assert (Hff : fframe s1 (resp_finish (resp_mid s1 r (r_prov q) rc0 code out) (rid_ctx r) rc)).
  { eapply fframe_trans; [apply ff_resp_mid|apply ff_resp_finish]. }
  destruct Hff as [_ [G1 G2]].
  destruct Hset as [[Hb (sa & Es & Er)]|[Hb Ea]]; [left|right]; (split; [exact Hb|]).
  - assert (Hf1 : fframe s s1).
    { eapply fframe_trans; [eapply ff_slash; eauto|eapply ff_refund_fee; eauto]. }
    destruct Hf1 as [_ [K1 K2]]. constructor; congruence.
  - destruct (inv_req _ _ HI) as (R1 & _). destruct (R1 _ _ (get_In _ _ _ Hq)) as (rc1 & Hx).
    assert (Hfee : 0 <= r_fee q) by tauto.
    destruct (C13_add_earned _ _ _ _ _ _ Hcfg HI Hfee Ea) as (Htax & o & Ho & A1 & A2 & _ & _).
    cbv zeta. split; [lia|]. exists o. split; [exact Ho|]. rewrite G1, G2. split; assumption.
Qed.

Example C13_respond_ex :
  let s := run ex_cfg ex_s0 (firstn 7 ex_ops) in
  exists s', h_respond ex_cfg s (ex_c, 1, 1, 0) 7 0 0 true true = Ok s'
    /\ get0 7 (earned s') = 95 /\ get0 42 (own_earned s') = 95 /\ bal s' FeeColl = 5.
Proof. eexists. split; [vm_compute; reflexivity|]. vm_compute. repeat split. Qed.

(* ------------------------------------------------------------------ *)
(* C15: EndBlock (expiry: slashing; new batches) never creates or removes a binding and
   changes at most its deposit, availability (only towards "unavailable") and disabled
   time; definitions, owners, both owner indexes, stored pricing and withdraw addresses
   are untouched.  The same holds for each per-context handler. *)

Theorem C15_endblock_bindings cfg s dt :
  let s' := end_block cfg s dt in
  (forall k, has k (binds s') = has k (binds s))
  /\ (forall k b, get k (binds s) = Some b ->
        exists b', get k (binds s') = Some b'
          /\ b_raw b' = b_raw b /\ b_owner b' = b_owner b /\ b_qos b' = b_qos b
          /\ (b_avail b' = true -> b_avail b = true))
  /\ defs s' = defs s /\ owner_of s' = owner_of s /\ own_bind s' = own_bind s
  /\ own_prov s' = own_prov s /\ pricing s' = pricing s /\ wdaddr s' = wdaddr s
  /\ earned s' = earned s /\ own_earned s' = own_earned s.
Proof.
  cbv zeta. destruct (ff_end_block cfg s dt) as [[F1 F2 F3 F4 F5 F6 Fb] [G1 G2]].
  split; [intros k; now apply bsim_has|].
  split.
  { intros k b Hb. destruct (bsim_get _ _ _ _ Fb Hb) as (b' & E & Hr & Ho & Hav & Hq). eauto 10. }
  repeat split; assumption.
Qed.

Theorem C15_expire_one_bindings cfg s c : fframe s (expire_one cfg s c).
Proof. apply ff_expire_one. Qed.

Theorem C15_new_one_bindings cfg s c : fframe s (new_one cfg s c).
Proof. apply ff_new_one. Qed.

Example C15_endblock_bindings_ex :
  let s := run ex_cfg ex_s0 (firstn 6 ex_ops) in
  binds (end_block ex_cfg s 5) = binds s /\ length (reqs (end_block ex_cfg s 5)) = 3%nat.
Proof. vm_compute. split; reflexivity. Qed.
