(* C08 over histories: a request is answerable from its issue until its expiry block ends,
   rejected ever after, accepted at most once.  Induction over [run] from the step theorems of
   Proofs/StepSpecs_window.v. *)
From Coq Require Import List ZArith Bool Lia.
From SVC Require Import Base.AMap Base.Res Base.Dec Model.Types Model.Pricing
  Model.Handlers Model.EndBlock Model.Step Proofs.Inv Proofs.Lemmas Proofs.InvCtx Proofs.InvAll
  Proofs.ReachRun Proofs.CtxOps Proofs.TraceLemmas Proofs.TraceSettle Proofs.StepSpecs_window
  Proofs.StepSpecs_batch_block Proofs.GapOrigin Proofs.BatchEx.
Import ListNotations.
Open Scope Z_scope.

(* an accepted response is logged *)
Lemma respond_logged cfg s r who code out ov ok s' :
  handle cfg s (ORespond r who code out ov ok) = Ok s' -> In (EvRespond r) (log s').
Proof.
  cbn [handle]. intros H. apply respond_inv in H.
  destruct H as (q & rc0 & s1 & rc & _ & _ & _ & _ & _ & _ & _ & ->).
  apply (Q_incl _ _ (Q_resp_finish _ _ _)). rewrite log_resp_mid. now left.
Qed.

(* the window of the request r with provider p, fee f, expiry height e, seen from the state s;
   a = the request was still pending at the anchor state *)
Definition win (r : ReqId) (p f e : Z) (a : bool) (s : State) : Prop :=
  (height s <= e
   /\ exists q, get r (reqs s) = Some q /\ r_prov q = p /\ r_fee q = f /\ r_exp q = e
        /\ (r_active q = true -> a = true)
        /\ (a = true -> r_active q = false -> In (EvRespond r) (log s)))
  \/ (e < height s /\ get r (reqs s) = None /\ get r (resps s) = None).

Lemma resps_none_of_reqs cfg s r : Inv cfg s -> get r (reqs s) = None -> get r (resps s) = None.
Proof.
  intros HI G. destruct (get r (resps s)) as [x|] eqn:Gx; [|reflexivity].
  destruct (inv_req _ _ HI) as (_ & R2 & _).
  destruct (R2 _ _ (get_In _ _ _ Gx)) as (q & Gq & _). congruence.
Qed.

Lemma win_step cfg s o r p f e a :
  wf_cfg cfg -> Inv cfg s -> wf_op s o -> rid_height r < e ->
  win r p f e a s -> win r p f e a (fst (step cfg s o)).
Proof.
  intros Hcfg HI Ho Hre Hw.
  pose proof (Inv_step cfg s o Hcfg HI Ho) as HI'.
  pose proof (log_step_incl cfg s o (inv_wd _ _ HI)) as Hlog.
  revert HI' Hlog. unfold step. destruct (handle cfg s o) as [s'| |] eqn:E; cbn [fst]; intros HI' Hlog;
    try exact Hw.
  assert (Hmsg : (forall dt, o <> OEndBlock dt) -> win r p f e a s').
  { intros Hne. destruct (msg_height_time cfg s o s' Hne E) as (Eh & _).
    destruct Hw as [(Hle & q & G & A1 & A2 & A3 & A4 & A5)|(Hlt & G & Gx)].
    - left. split; [lia|].
      destruct (C08_msg_keeps_requests cfg s o s' r q E Hne G) as (q' & G' & B1 & B2 & B3 & B4 & B5).
      exists q'. repeat split; try congruence.
      + intros Ha. apply A4. now apply B4.
      + intros Ha Hf. destruct (r_active q) eqn:Eq.
        * destruct (B5 eq_refl Hf) as (code & out & ov & ->).
          eapply respond_logged; eauto.
        * apply Hlog. now apply A5.
    - right. split; [lia|].
      pose proof (C08_msg_no_new_requests cfg s o s' r E Hne G) as G'.
      split; [exact G'|]. eapply resps_none_of_reqs; eauto. }
  destruct o; try (apply Hmsg; discriminate).
  cbn [handle] in E. injection E as <-. cbn [wf_op] in Ho. destruct Ho as (Hdt & Hb).
  destruct (end_block_height_time cfg s dt Hcfg HI Hb) as (Eh & _).
  destruct Hw as [(Hle & q & G & A1 & A2 & A3 & A4 & A5)|(Hlt & G & Gx)].
  - destruct (Z.eq_dec (r_exp q) (height s)) as [Ee|Hn].
    + right. split; [lia|]. exact (C08_end_block_expires cfg s dt r q Hcfg HI Hb G Ee).
    + left. split; [lia|].
      destruct (C08_end_block_keeps cfg s dt r q Hcfg HI Hb G ltac:(lia)) as (Hk & _).
      exists q. repeat split; try assumption. intros Ha Hf. apply Hlog. now apply A5.
  - right. split; [lia|].
    assert (G' : get r (reqs (end_block cfg s dt)) = None).
    { destruct (get r (reqs (end_block cfg s dt))) as [q'|] eqn:G'; [|reflexivity]. exfalso.
      destruct (C06_end_block cfg s dt r q' Hcfg HI Hb G G') as (rc & k & p' & price & _ & _ & _ & Er & _).
      rewrite Er in Hre. cbn [rid_height fst snd] in Hre. lia. }
    split; [exact G'|]. eapply resps_none_of_reqs; eauto.
Qed.

Lemma win_run cfg s ops r p f e a :
  wf_cfg cfg -> Reach cfg s -> wf_run cfg s ops -> rid_height r < e ->
  win r p f e a s -> win r p f e a (run cfg s ops).
Proof.
  intros Hcfg. revert s. induction ops as [|o t IH]; intros s HR Hw Hre Hwin; [exact Hwin|].
  destruct Hw as (Ho & Ht). unfold run. cbn [fold_left]. fold (run cfg (fst (step cfg s o)) t).
  apply IH; [now apply Reach_step|exact Ht|exact Hre|].
  apply win_step; try assumption. now apply Reach_Inv.
Qed.

Lemma win_anchor cfg s r q :
  Inv cfg s -> get r (reqs s) = Some q ->
  rid_height r < r_exp q /\ win r (r_prov q) (r_fee q) (r_exp q) (r_active q) s.
Proof.
  intros HI G. destruct (C08_window_inv cfg s r q HI G) as (Hle & Hlt & _).
  split; [exact Hlt|]. left. split; [exact Hle|]. exists q. repeat split; auto. intros Ha Hf. congruence.
Qed.

(* C08_window: from any reachable state in which r is stored, along any history:
   (A) as long as the chain has not passed the expiry height the record is there, with the same
       provider, fee and expiry height; it is pending only if it was; and if it stopped being
       pending, an accepted response to r is in the log;
   (B) once the chain has passed the expiry height, the request and its response are gone and
       every response to r -- by anybody, with any content -- is rejected, changing nothing *)
Theorem C08_window cfg s ops r q :
  wf_cfg cfg -> Reach cfg s -> wf_run cfg s ops -> get r (reqs s) = Some q ->
  let s' := run cfg s ops in
  (height s' <= r_exp q ->
     exists q', get r (reqs s') = Some q' /\ r_prov q' = r_prov q /\ r_fee q' = r_fee q
       /\ r_exp q' = r_exp q /\ (r_active q' = true -> r_active q = true)
       /\ (r_active q = true -> r_active q' = false -> In (EvRespond r) (log s')))
  /\ (r_exp q < height s' ->
        get r (reqs s') = None /\ get r (resps s') = None
        /\ forall who code out ov ok,
             handle cfg s' (ORespond r who code out ov ok) = Err
             /\ step cfg s' (ORespond r who code out ov ok) = (s', RErr)).
Proof.
  intros Hcfg HR Hw G. cbv zeta.
  destruct (win_anchor cfg s r q (Reach_Inv cfg s Hcfg HR) G) as (Hre & Hwin).
  pose proof (win_run cfg s ops r _ _ _ _ Hcfg HR Hw Hre Hwin) as H.
  split.
  - intros Hle. destruct H as [(_ & q' & G' & A)|(Hlt & _)]; [|lia]. exists q'. tauto.
  - intros Hlt. destruct H as [(Hle & _)|(_ & G' & Gx)]; [lia|].
    split; [exact G'|]. split; [exact Gx|]. intros who code out ov ok.
    apply C08_reject. right. now left.
Qed.

(* while the request is pending and the chain has not passed its expiry height, the designated
   provider's response is accepted -- whatever happened to the context in between *)
Theorem C08_answerable_in_window cfg s ops r q q' code out ov :
  wf_cfg cfg -> Reach cfg s -> wf_run cfg s ops -> get r (reqs s) = Some q ->
  get r (reqs (run cfg s ops)) = Some q' -> r_active q' = true ->
  height (run cfg s ops) <= r_exp q /\ r_prov q' = r_prov q
  /\ exists s2, handle cfg (run cfg s ops) (ORespond r (r_prov q) code out ov true) = Ok s2.
Proof.
  intros Hcfg HR Hw G G' Ha.
  pose proof (reach_run cfg s ops HR Hw) as HR'.
  pose proof (Reach_Inv cfg _ Hcfg HR') as HI'.
  destruct (C08_window cfg s ops r q Hcfg HR Hw G) as (HA & HB). cbv zeta in HA, HB.
  assert (Hle : height (run cfg s ops) <= r_exp q).
  { destruct (Z_le_gt_dec (height (run cfg s ops)) (r_exp q)) as [H|H]; [exact H|].
    destruct (HB ltac:(lia)) as (Hn & _). congruence. }
  destruct (HA Hle) as (q2 & G2 & A1 & _). assert (q2 = q') by congruence. subst q2.
  split; [exact Hle|]. split; [exact A1|]. rewrite <- A1.
  exact (C08_accept cfg _ r q' code out ov Hcfg HI' G' Ha).
Qed.

(* never answered and not yet expired = still pending: the record cannot lose its pending bit
   without an accepted response being logged *)
Theorem C08_pending_until_answered cfg s ops r q :
  wf_cfg cfg -> Reach cfg s -> wf_run cfg s ops -> get r (reqs s) = Some q -> r_active q = true ->
  height (run cfg s ops) <= r_exp q -> ~ In (EvRespond r) (log (run cfg s ops)) ->
  exists q', get r (reqs (run cfg s ops)) = Some q' /\ r_active q' = true /\ r_prov q' = r_prov q.
Proof.
  intros Hcfg HR Hw G Ha Hle Hno.
  destruct (C08_window cfg s ops r q Hcfg HR Hw G) as (HA & _). cbv zeta in HA.
  destruct (HA Hle) as (q' & G' & A1 & _ & _ & _ & A5). exists q'. split; [exact G'|].
  split; [|exact A1]. destruct (r_active q') eqn:E; [reflexivity|]. exfalso. apply Hno. now apply A5.
Qed.

(* ------------------------------------------------------------------ *)
(* at most one accepted response, over histories *)

Theorem C08_once_trace cfg s r :
  wf_cfg cfg -> Reach cfg s ->
  (count (is_respond r) (log s) <= 1)%nat
  /\ (forall q, get r (reqs s) = Some q -> r_active q = true -> ~ In (EvRespond r) (log s)).
Proof.
  intros Hcfg HR. split.
  - destruct (settle_once cfg s r Hcfg HR) as (_ & H2 & _ & H4). lia.
  - intros q G Ha Hin.
    pose proof (active_unsettled cfg s r q Hcfg HR G Ha) as Hc.
    assert (Hp : (0 < count (is_respond r) (log s))%nat).
    { eapply In_count_pos; [exact Hin|]. cbn [is_respond]. apply eqb_refl. }
    unfold counts in Hc. injection Hc; intros; lia.
Qed.

(* after an accepted response to r, every later response to r is rejected, in every later state *)
Theorem C08_once_run cfg s1 r who code out ov ok s2 ops :
  wf_cfg cfg -> Reach cfg s1 -> handle cfg s1 (ORespond r who code out ov ok) = Ok s2 ->
  wf_run cfg s2 ops ->
  forall who' code' out' ov' ok',
    handle cfg (run cfg s2 ops) (ORespond r who' code' out' ov' ok') = Err
    /\ step cfg (run cfg s2 ops) (ORespond r who' code' out' ov' ok') = (run cfg s2 ops, RErr).
Proof.
  intros Hcfg HR1 H Hw who' code' out' ov' ok'.
  assert (HR2 : Reach cfg s2).
  { assert (E : s2 = fst (step cfg s1 (ORespond r who code out ov ok))) by (unfold step; now rewrite H).
    rewrite E. apply Reach_step; [exact HR1|exact I]. }
  destruct (C08_once cfg s1 r who code out ov ok s2 H) as ((q & G1 & Ha & _ & _ & G2 & _) & _).
  destruct (C08_window cfg s2 ops r _ Hcfg HR2 Hw G2) as (HA & HB). cbv zeta in HA, HB.
  destruct (Z_le_gt_dec (height (run cfg s2 ops)) (r_exp (setr_active q false))) as [Hle|Hgt].
  - destruct (HA Hle) as (q' & G' & _ & _ & _ & A4 & _).
    apply C08_reject. right. right. exists q'. split; [exact G'|]. right.
    destruct (r_active q') eqn:E; [|reflexivity]. specialize (A4 eq_refl). discriminate.
  - destruct (HB ltac:(lia)) as (_ & _ & Hrej). apply Hrej.
Qed.

(* ------------------------------------------------------------------ *)
(* anchored at the issuing EndBlock *)

Theorem C08_window_from_issue cfg s dt r q :
  wf_cfg cfg -> Reach cfg s -> 0 <= dt -> height s < HEIGHT_BOUND ->
  get r (reqs s) = None -> get r (reqs (end_block cfg s dt)) = Some q ->
  let s1 := end_block cfg s dt in
  Reach cfg s1 /\ r_active q = true /\ rid_height r = height s /\ height s1 = rid_height r + 1
  /\ (exists rc, get (rid_ctx r)
                   (ctxs (fold_left (expire_one cfg) (due (expq s) (height s)) s)) = Some rc
        /\ r_exp q = height s + c_timeout rc /\ 1 <= c_timeout rc <= p_max_timeout cfg)
  /\ height s1 <= r_exp q
  /\ forall ops, wf_run cfg s1 ops ->
       let s' := run cfg s1 ops in
       (height s' <= r_exp q ->
          exists q', get r (reqs s') = Some q' /\ r_prov q' = r_prov q /\ r_fee q' = r_fee q
            /\ r_exp q' = r_exp q
            /\ (r_active q' = false -> In (EvRespond r) (log s'))
            /\ (r_active q' = true -> forall code out ov,
                  exists s2, handle cfg s' (ORespond r (r_prov q) code out ov true) = Ok s2))
       /\ (r_exp q < height s' ->
             get r (reqs s') = None /\ get r (resps s') = None
             /\ forall who code out ov ok,
                  handle cfg s' (ORespond r who code out ov ok) = Err
                  /\ step cfg s' (ORespond r who code out ov ok) = (s', RErr)).
Proof.
  intros Hcfg HR Hdt Hb G0 G1. cbv zeta.
  pose proof (Reach_Inv cfg s Hcfg HR) as HI.
  assert (HR1 : Reach cfg (end_block cfg s dt)).
  { assert (E : end_block cfg s dt = fst (step cfg s (OEndBlock dt))) by reflexivity.
    rewrite E. apply Reach_step; [exact HR|]. cbn [wf_op]. split; assumption. }
  pose proof (Reach_Inv cfg _ Hcfg HR1) as HI1.
  destruct (C06_end_block cfg s dt r q Hcfg HI Hb G0 G1)
    as (rc & k & p & price & Hdue & Grc & _ & Er & Eq & _).
  destruct (end_block_height_time cfg s dt Hcfg HI Hb) as (Eh & _).
  assert (Hact : r_active q = true) by (rewrite Eq; reflexivity).
  assert (Hexp : r_exp q = height s + c_timeout rc) by (rewrite Eq; reflexivity).
  assert (Hrh : rid_height r = height s) by (rewrite Er; reflexivity).
  assert (Hto : 1 <= c_timeout rc <= p_max_timeout cfg).
  { set (l1 := due (expq s) (height s)) in *.
    assert (Hn1 : NoDup l1) by (apply NoDup_due; apply (inv_wf _ _ HI)).
    assert (Hl1 : forall c, In c l1 -> In (height s, c) (expq s)) by (intros c; apply In_due).
    destruct (fold_expire_phase cfg l1 s Hcfg HI Hb Hn1 Hl1) as (I1 & _).
    destruct (inv_ctx _ _ I1 _ _ Grc) as (A1 & _). exact A1. }
  split; [exact HR1|]. split; [exact Hact|]. split; [exact Hrh|]. split; [lia|].
  split; [exists rc; auto|]. split; [lia|].
  intros ops Hw.
  destruct (C08_window cfg _ ops r q Hcfg HR1 Hw G1) as (HA & HB). cbv zeta in HA, HB.
  split; [|exact HB].
  intros Hle. destruct (HA Hle) as (q' & G' & A1 & A2 & A3 & _ & A5).
  exists q'. split; [exact G'|]. split; [exact A1|]. split; [exact A2|]. split; [exact A3|].
  split; [intros Hf; now apply A5|].
  intros Ha code out ov. rewrite <- A1.
  apply (C08_accept cfg _ r q' code out ov Hcfg); [|exact G'|exact Ha].
  apply Reach_Inv; [exact Hcfg|]. now apply reach_run.
Qed.

(* under Reach: a pending request is inside its window and its provider's response is accepted *)
Theorem C08_accept_reach cfg s r q code out ov :
  wf_cfg cfg -> Reach cfg s -> get r (reqs s) = Some q -> r_active q = true ->
  rid_height r < height s <= r_exp q
  /\ exists s', handle cfg s (ORespond r (r_prov q) code out ov true) = Ok s'.
Proof.
  intros Hcfg HR G Ha. pose proof (Reach_Inv cfg s Hcfg HR) as HI.
  destruct (C08_window_inv cfg s r q HI G) as (Hle & _).
  destruct (request_origin cfg s r q Hcfg HR G) as (s0 & dt & q0 & R0 & _ & Hb & G0 & G1 & _ & Hlt).
  destruct (C06_end_block cfg s0 dt r q0 Hcfg (Reach_Inv cfg s0 Hcfg R0) Hb G0 G1)
    as (rc & k & p & price & _ & _ & _ & Er & _).
  assert (Hrh : rid_height r = height s0) by (rewrite Er; reflexivity).
  split; [lia|]. exact (C08_accept cfg s r q code out ov Hcfg HI G Ha).
Qed.

(* ------------------------------------------------------------------ *)
(* the hypotheses are satisfiable: the third request of context c1 in the history BEx
   (issued at height 1, timeout 5, expiry height 6, provider 12, never answered) *)
Module ExW.
  Import BEx.
  Definition r3 : ReqId := (c1, 1, 1, 2).

  Example window_hyps :
    wf_cfg cfg0 /\ Reach cfg0 s_b /\ height s_b = 2
    /\ get r3 (reqs s_b) = Some (mkReq 12 1 6 true)
    /\ wf_run cfg0 s_b (nblocks 4) /\ height (run cfg0 s_b (nblocks 4)) = 6
    /\ wf_run cfg0 s_b (nblocks 5) /\ height (run cfg0 s_b (nblocks 5)) = 7.
  Proof.
    split; [exact wf_cfg0|]. split; [exact reach_b|]. split; [vm_compute; reflexivity|].
    split; [vm_compute; reflexivity|]. split; [comp|]. split; [vm_compute; reflexivity|].
    split; [comp|vm_compute; reflexivity].
  Qed.

  (* by the theorem: still answerable in block 6, rejected from block 7 on *)
  Example window_applies :
    (exists s2, handle cfg0 (run cfg0 s_b (nblocks 4)) (ORespond r3 12 200 1 true true) = Ok s2)
    /\ handle cfg0 (run cfg0 s_b (nblocks 5)) (ORespond r3 12 200 1 true true) = Err
    /\ handle cfg0 (run cfg0 s_b (nblocks 5 ++ nblocks 7)) (ORespond r3 12 200 1 true true) = Err.
  Proof.
    destruct window_hyps as (Hc & HR & _ & G & W4 & H4 & W5 & H5).
    split; [|split].
    - assert (G4 : get r3 (reqs (run cfg0 s_b (nblocks 4))) = Some (mkReq 12 1 6 true))
        by (vm_compute; reflexivity).
      destruct (C08_answerable_in_window cfg0 s_b (nblocks 4) r3 _ _ 200 1 true Hc HR W4 G G4 eq_refl)
        as (_ & _ & H). exact H.
    - destruct (C08_window cfg0 s_b (nblocks 5) r3 _ Hc HR W5 G) as (_ & HB). cbv zeta in HB.
      destruct (HB ltac:(rewrite H5; vm_compute; reflexivity)) as (_ & _ & Hrej). apply Hrej.
    - assert (W12 : wf_run cfg0 s_b (nblocks 5 ++ nblocks 7)) by comp.
      destruct (C08_window cfg0 s_b (nblocks 5 ++ nblocks 7) r3 _ Hc HR W12 G) as (_ & HB). cbv zeta in HB.
      assert (H12 : height (run cfg0 s_b (nblocks 5 ++ nblocks 7)) = 14) by (vm_compute; reflexivity).
      destruct (HB ltac:(rewrite H12; vm_compute; reflexivity)) as (_ & _ & Hrej). apply Hrej.
  Qed.
End ExW.
