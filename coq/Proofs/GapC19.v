(* C19 gaps: the named hypotheses of the genesis theorems over reachable states.

   1. The money half (escrow_backed, active_has_ctx, fees_nonneg, state_wf_exported,
      single_owner) follows from Inv, hence holds in every reachable state.
   2. The record-validity half (bindings_ok, contexts_ok) does NOT follow from reachability as
      the model defines it: qos > 0 and the non-empty provider / owner / consumer addresses are
      ValidateBasic checks, i.e. live in the opaque `ok` flag of the operations, and wf_op does
      not tie the flag to the arguments.  [args_valid] is the missing domain condition; under
      it validity is an invariant ([ReachV]), without it there are refuting reachable states.
   3. params_ok is Params.Validate (types/params.go:104-131: complaint retrospect and
      arbitration limit strictly positive); wf_cfg is weaker (0 <= ...).
   4. The rebuilt indexes of an imported genesis equal those of the exporting state. *)
From Coq Require Import List ZArith Bool Lia Permutation.
From SVC Require Import Base.AMap Base.Res Base.Dec Model.Types Model.Pricing Model.Handlers
  Model.EndBlock Model.Step Model.Genesis Proofs.Inv Proofs.Lemmas Proofs.CtxOps Proofs.PFrame
  Proofs.InvAll Proofs.ReachRun Proofs.GenesisProofs Proofs.GapDBase.
Import ListNotations.
Open Scope Z_scope.

(* ------------------------------------------------------------------ *)
(* 1. the money hypotheses *)

Lemma Inv_escrow_backed cfg s : Inv cfg s -> escrow_backed s.
Proof. intros HI. exact (inv_escrow _ _ HI). Qed.

Lemma Inv_active_has_ctx cfg s : Inv cfg s -> active_has_ctx s.
Proof.
  intros HI r q Hin _. destruct (inv_req _ _ HI) as (R1 & _).
  destruct (R1 _ _ Hin) as (rc & G & _). eauto.
Qed.

Lemma Inv_fees_nonneg cfg s : Inv cfg s -> fees_nonneg s.
Proof.
  intros HI. split.
  - intros r q Hin _. destruct (inv_req _ _ HI) as (R1 & _).
    destruct (R1 _ _ Hin) as (rc & _ & _ & _ & Hf & _). exact Hf.
  - intros p e Hin. destruct (inv_earn _ _ HI) as (E1 & _). destruct (E1 _ _ Hin). lia.
Qed.

Lemma Inv_state_wf_exported cfg s : Inv cfg s -> state_wf_exported s.
Proof. intros HI. pose proof (inv_wf _ _ HI) as W. unfold I_wf in W. unfold state_wf_exported. tauto. Qed.

Lemma Inv_single_owner cfg cfg' s : Inv cfg s -> single_owner (export_genesis cfg' s).
Proof.
  intros HI k1 b1 k2 b2 H1 H2 Hk. cbn [export_genesis g_binds] in H1, H2.
  destruct (inv_index _ _ HI) as (I1 & _).
  destruct (I1 _ _ H1) as (_ & G1 & _). destruct (I1 _ _ H2) as (_ & G2 & _).
  rewrite Hk in G1. congruence.
Qed.

Theorem C19_inv_hyps cfg s : Inv cfg s ->
  escrow_backed s /\ active_has_ctx s /\ fees_nonneg s /\ state_wf_exported s
  /\ single_owner (export_genesis cfg s).
Proof.
  intros HI. split; [eapply Inv_escrow_backed; eauto|]. split; [eapply Inv_active_has_ctx; eauto|].
  split; [eapply Inv_fees_nonneg; eauto|]. split; [eapply Inv_state_wf_exported; eauto|].
  eapply Inv_single_owner; eauto.
Qed.

Theorem C19_reach_hyps cfg s : wf_cfg cfg -> Reach cfg s ->
  escrow_backed s /\ active_has_ctx s /\ fees_nonneg s /\ state_wf_exported s
  /\ single_owner (export_genesis cfg s).
Proof. intros Hcfg Hr. apply C19_inv_hyps. now apply Reach_Inv. Qed.

(* the zero-height preparation of any reachable state succeeds, empties the escrow, pays every
   consumer its pending fees and every provider its earnings, touches nothing else, and leaves
   every context paused with no batch in flight *)
Theorem C19_reach_prep cfg s : wf_cfg cfg -> Reach cfg s ->
  exists s', prep_zero_height s = Some s' /\ bal s' Escrow = 0
    /\ (forall a, bal s' (User a) = bal s (User a) + pending_of s a + earned_of s a)
    /\ bal s' Deposit = bal s Deposit /\ bal s' FeeColl = bal s FeeColl /\ supply s' = supply s
    /\ (forall c rc', In (c, rc') (ctxs s') ->
          c_state rc' = Paused /\ c_bdone rc' = true /\ c_breq rc' = 0 /\ c_bresp rc' = 0)
    /\ state_wf_exported s'.
Proof.
  intros Hcfg Hr. destruct (C19_reach_hyps cfg s Hcfg Hr) as (Hb & Hc & Hf & Hw & _).
  destruct (C19_prep_succeeds s Hb Hc Hf) as (s' & E). exists s'.
  split; [exact E|]. split; [exact (C19_prep_escrow_empty s s' Hb Hc E)|].
  destruct (C19_prep_refunds s s' E) as (A1 & A2 & A3 & A4).
  destruct (C19_prep_contexts s s' E) as (_ & _ & A5).
  split; [exact A1|]. split; [exact A2|]. split; [exact A3|]. split; [exact A4|].
  split; [exact A5|]. exact (prep_wf s s' Hw E).
Qed.

(* export / import round trip and rebuilt indexes for every reachable state (no preparation) *)
Theorem C19_reach_roundtrip cfg h t s : wf_cfg cfg -> Reach cfg s ->
  export_genesis cfg (import_genesis h t (export_genesis cfg s)) = export_genesis cfg s
  /\ index_consistent (import_genesis h t (export_genesis cfg s)).
Proof.
  intros Hcfg Hr. destruct (C19_reach_hyps cfg s Hcfg Hr) as (_ & _ & _ & Hw & Hso).
  split; [now apply C19_roundtrip|]. apply C19_import_indexes; [now apply export_wf|exact Hso].
Qed.

(* ------------------------------------------------------------------ *)
(* 3. parameters *)

Lemma params_ok_of_wf cfg : wf_cfg cfg -> 0 < p_arb cfg -> 0 < p_compl cfg -> params_ok cfg.
Proof.
  intros (H1 & H2 & H3 & H4 & H5 & H6 & H7 & H8) Ha Hc. unfold params_ok, params_valid.
  repeat (apply andb_true_intro; split);
    first [apply Z.ltb_lt; lia | apply Z.leb_le; lia].
Qed.

Lemma params_ok_bounds cfg : params_ok cfg -> 0 < p_arb cfg /\ 0 < p_compl cfg.
Proof. unfold params_ok, params_valid. intros H. b2p. auto. Qed.

(* wf_cfg alone does not give Params.Validate: a zero arbitration limit is well-formed *)
Theorem C19_params_ok_needs_positive_refuted :
  exists cfg, wf_cfg cfg /\ params_valid cfg = false.
Proof.
  exists (mkParams 3 1 50 0 0 0 0 5 7001). split; [|reflexivity].
  unfold wf_cfg, HEIGHT_BOUND, ONE. cbn. repeat split; try lia; discriminate.
Qed.

(* ------------------------------------------------------------------ *)
(* 2. record validity: the domain condition and the invariant *)

(* what ValidateBasic (the `ok` flag) guarantees about the arguments the model does store:
   MsgBindService: qos > 0, provider and owner present (types/msgs.go:170-196, 854-888);
   MsgUpdateServiceBinding: qos is a uint64; MsgCallService: consumer present (msgs.go:985);
   the keeper API CreateRequestContext has no such check: the caller's obligation *)
Definition args_valid (o : Op) : Prop :=
  match o with
  | OBind _ prov _ _ qos owner ok => ok = true -> 0 < qos /\ prov <> 0 /\ owner <> 0
  | OUpdate _ _ _ _ qos _ ok => ok = true -> 0 <= qos
  | OCall _ _ _ cs _ _ _ _ _ _ _ _ ok => ok = true -> cs <> 0
  | OModCall _ _ _ cs _ _ _ _ _ _ _ _ _ _ => cs <> 0
  | _ => True
  end.

Definition bind_args_ok (s : State) : Prop :=
  forall k b, get k (binds s) = Some b -> snd k <> 0 /\ b_owner b <> 0 /\ 0 < b_qos b.

Definition ctx_args_ok (s : State) : Prop :=
  forall c rc, get c (ctxs s) = Some rc ->
    1 <= len (c_provs rc) <= 10 /\ nodupb (c_provs rc) = true /\ c_cons rc <> 0.

Definition records_valid (s : State) : Prop := bind_args_ok s /\ ctx_args_ok s.

(* every binding of s' is a binding of s with the same owner and qos *)
Definition bpres (s s' : State) : Prop :=
  forall k b', get k (binds s') = Some b' ->
    exists b, get k (binds s) = Some b /\ b_owner b' = b_owner b /\ b_qos b' = b_qos b.

(* every context of s' is a context of s with the same providers and consumer *)
Definition cpres (s s' : State) : Prop :=
  forall c rc', get c (ctxs s') = Some rc' ->
    exists rc, get c (ctxs s) = Some rc /\ c_provs rc' = c_provs rc /\ c_cons rc' = c_cons rc.

Lemma bpres_ok s s' : bpres s s' -> bind_args_ok s -> bind_args_ok s'.
Proof.
  intros Hp Hok k b' G. destruct (Hp _ _ G) as (b & Gb & Eo & Eq).
  destruct (Hok _ _ Gb) as (A1 & A2 & A3). rewrite Eo, Eq. auto.
Qed.

Lemma cpres_ok s s' : cpres s s' -> ctx_args_ok s -> ctx_args_ok s'.
Proof.
  intros Hp Hok c rc' G. destruct (Hp _ _ G) as (rc & Grc & Ep & Ec).
  destruct (Hok _ _ Grc) as (A1 & A2 & A3). rewrite Ep, Ec. auto.
Qed.

Lemma cpres_refl s : cpres s s.
Proof. intros c rc G. eauto. Qed.

Lemma cpres_trans a b c : cpres a b -> cpres b c -> cpres a c.
Proof.
  intros H1 H2 x rc3 G3. destruct (H2 _ _ G3) as (rc2 & G2 & E1 & E2).
  destruct (H1 _ _ G2) as (rc1 & G1 & F1 & F2). exists rc1. split; [exact G1|]. split; congruence.
Qed.

Lemma sframe_bpres s s' : sframe s s' -> bpres s s'.
Proof.
  intros [_ _ _ _ _ _ Hb] k b' G. destruct (bsim_get_rev _ _ _ _ Hb G) as (b & Gb & _ & Eo & _ & Eq).
  eauto.
Qed.

Lemma cpres_ctxs_eq s s' : ctxs s' = ctxs s -> cpres s s'.
Proof. intros E c rc G. rewrite E in G. eauto. Qed.

Lemma cpres_put s sm c rc rc' : SEq s sm -> get c (ctxs s) = Some rc ->
  c_provs rc' = c_provs rc -> c_cons rc' = c_cons rc -> cpres s (put_ctx sm c rc').
Proof.
  intros Hsm Grc Ep Ec x rcx G. sproj. rewrite get_set, (se_ctxs _ _ Hsm) in G.
  destruct (eqb_spec x c) as [->|Hn]; [injection G as <-|]; eauto.
Qed.

Lemma cpres_expire_one cfg s c :
  wf_cfg cfg -> Inv cfg s -> In (height s, c) (expq s) -> height s < HEIGHT_BOUND ->
  cpres s (expire_one cfg s c).
Proof.
  intros Hcfg HI Hdue Hb x rcx G.
  destruct (expire_one_spec cfg s c Hcfg HI Hdue Hb)
    as (rc & rc1 & Erc & _ & _ & Hrc1 & Ht & _ & _ & _ & Hcase).
  destruct (eqb_spec x c) as [->|Hn].
  - assert (rcx = rc1) by (destruct Hcase as [(Ex & _)|[(Ex & _)|(Ex & _)]]; congruence). subst rcx.
    exists rc. split; [exact Erc|]. destruct Hrc1 as [->|[_ ->]]; auto.
  - rewrite (t_ctxs _ _ _ Ht) in G by assumption. eauto.
Qed.

Lemma cpres_new_one cfg s c :
  Inv cfg s -> In (height s, c) (newq s) -> cpres s (new_one cfg s c).
Proof.
  intros HI Hdue x rcx G.
  destruct (new_one_spec cfg s c HI Hdue) as (rc & Erc & _ & _ & Ht & _ & _ & _ & Hcase).
  destruct (eqb_spec x c) as [->|Hn].
  - exists rc. split; [exact Erc|].
    destruct Hcase as [(_ & Ex & _)|[(_ & _ & _ & n & Ex)|[(_ & _ & _ & Ex)|(_ & _ & Ex)]]];
      rewrite Ex in G; try discriminate; injection G as <-; auto.
  - rewrite (t_ctxs _ _ _ Ht) in G by assumption. eauto.
Qed.

Lemma cpres_end_block cfg s dt :
  wf_cfg cfg -> Inv cfg s -> height s < HEIGHT_BOUND -> cpres s (end_block cfg s dt).
Proof.
  intros Hcfg HI Hb.
  apply (end_block_rel cfg cpres Hcfg cpres_refl cpres_trans); try assumption.
  - intros; now apply cpres_expire_one.
  - intros; now apply cpres_new_one.
  - intros s0 h t. now apply cpres_ctxs_eq.
Qed.

(* a successful update of a binding: who may differ and how *)
Lemma update_binds cfg s svc prov dep pr qos owner ok s' :
  h_update cfg s svc prov dep pr qos owner ok = Ok s' ->
  ok = true /\ exists b, get (svc, prov) (binds s) = Some b
    /\ (binds s' = binds s
        \/ exists b', binds s' = set (svc, prov) b' (binds s) /\ b_owner b' = b_owner b
             /\ b_qos b' = (if qos =? 0 then b_qos b else qos)).
Proof.
  unfold h_update. intros H. inv_ok H. split; [exact Hc|].
  rename a into b, a0 into amt, a1 into newp, a3 into s1. exists b. split; [exact Ha|].
  assert (Hcf : cframe s s1).
  { destruct (coins_empty dep); inv_ok Ha3; [subst; apply cframe_refl|]. eapply cf_pay_deposit; eauto. }
  destruct Hcf as [_ F2 _ _ _ _ _ _ _].
  set (b1 := if qos =? 0 then b else setb_qos b qos) in *.
  assert (Hb1 : b_owner b1 = b_owner b /\ b_qos b1 = (if qos =? 0 then b_qos b else qos))
    by (subst b1; destruct (qos =? 0); auto).
  destruct Hb1 as (Ho1 & Hq1).
  destruct (negb (qos =? 0) || negb (coins_empty dep) || match pr with Some _ => true | None => false end).
  - destruct newp as [[raw p]|]; inv_ok H; subst s'; sproj; rewrite F2; right.
    + eexists. split; [reflexivity|]. cbn [b_owner b_qos setb_raw setb_deposit]. auto.
    + eexists. split; [reflexivity|]. cbn [b_owner b_qos setb_deposit]. auto.
  - inv_ok H. subst s'. left. exact F2.
Qed.

Lemma bind_args_ok_msg cfg s o s' :
  wf_cfg cfg -> Inv cfg s -> wf_op s o -> args_valid o -> (forall dt, o <> OEndBlock dt) ->
  handle cfg s o = Ok s' -> bind_args_ok s -> bind_args_ok s'.
Proof.
  intros Hcfg HI Hwf Hav Hne H Hok.
  destruct (static_op o) eqn:Hst.
  { eapply bpres_ok; [|exact Hok]. apply sframe_bpres. eapply sframe_msg; eauto. }
  destruct o; try discriminate; cbn [handle] in H; cbn [args_valid] in Hav.
  - apply define_inv in H. destruct H as (_ & _ & ->). exact Hok.
  - pose proof H as H0. unfold h_bind in H0. inv_ok H0. clear H0.
    destruct (Hav Hc) as (Q1 & Q2 & Q3).
    apply bind_inv in H. destruct H as (amt & raw & _ & _ & _ & _ & _ & _ & _ & _ & Eb & _).
    intros k b G. rewrite Eb, get_set in G. destruct (eqb_spec k (svc, prov)) as [->|Hn]; [|eauto].
    injection G as <-. cbn [snd b_owner b_qos]. auto.
  - apply update_binds in H. destruct H as (Hk & b & Gb & [E|(b' & E & Eo & Eq)]).
    + intros k x G. rewrite E in G. eauto.
    + intros k x G. rewrite E, get_set in G. destruct (eqb_spec k (svc, prov)) as [->|Hn]; [|eauto].
      injection G as <-. destruct (Hok _ _ Gb) as (A1 & A2 & A3). rewrite Eo, Eq.
      split; [exact A1|]. split; [exact A2|].
      specialize (Hav Hk). destruct (Z.eqb_spec qos 0); lia.
  - apply enable_inv in H. destruct H as (b & amt & md & Gb & _ & _ & _ & _ & E & _).
    intros k x G. rewrite E, get_set in G. destruct (eqb_spec k (svc, prov)) as [->|Hn]; [|eauto].
    injection G as <-. destruct (Hok _ _ Gb) as (A1 & A2 & A3). cbn. auto.
  - apply setwd_inv in H. destruct H as (_ & ->). exact Hok.
Qed.

Lemma valid_request_provs provs timeout rep freq total :
  valid_request provs timeout rep freq total = true ->
  1 <= len provs <= 10 /\ nodupb provs = true.
Proof. unfold valid_request. intros H. b2p. auto. Qed.

Lemma created_ctx_ok s c rc : wf (ctxs s) ->
  1 <= len (c_provs rc) <= 10 /\ nodupb (c_provs rc) = true /\ c_cons rc <> 0 ->
  ctx_args_ok s -> ctx_args_ok (created s c rc).
Proof.
  intros _ Hrc Hok x rcx G. unfold created in G. sproj. rewrite get_set in G.
  destruct (eqb_spec x c) as [->|Hn]; [injection G as <-; exact Hrc|eauto].
Qed.

Lemma upd_ctx_provs rc provs capo timeout freq total :
  c_provs (upd_ctx rc provs capo timeout freq total)
  = match provs with [] => c_provs rc | _ => provs end.
Proof.
  unfold upd_ctx. destruct capo, provs, (total =? 0);
    repeat match goal with |- context [if ?b then _ else _] => destruct b end; reflexivity.
Qed.

Lemma valid_update_provs provs timeout freq total :
  valid_update provs timeout freq total = true -> len provs <= 10 /\ nodupb provs = true.
Proof. unfold valid_update. intros H. b2p. auto. Qed.

Lemma upd_ctx_ok rc provs capo timeout freq total :
  len provs <= 10 -> nodupb provs = true ->
  1 <= len (c_provs rc) <= 10 /\ nodupb (c_provs rc) = true /\ c_cons rc <> 0 ->
  let rc' := upd_ctx rc provs capo timeout freq total in
  1 <= len (c_provs rc') <= 10 /\ nodupb (c_provs rc') = true /\ c_cons rc' <> 0.
Proof.
  intros Hl Hn (A1 & A2 & A3) rc'. subst rc'. rewrite upd_ctx_provs.
  destruct (upd_ctx_fixed rc provs capo timeout freq total) as (_ & Ec & _). rewrite Ec.
  destruct provs as [|p t]; [auto|]. split; [|auto]. split; [|exact Hl].
  unfold len. cbn [length]. lia.
Qed.

Lemma ctx_args_ok_put s sm c rc' : SEq s sm ->
  1 <= len (c_provs rc') <= 10 /\ nodupb (c_provs rc') = true /\ c_cons rc' <> 0 ->
  ctx_args_ok s -> ctx_args_ok (put_ctx sm c rc').
Proof.
  intros Hsm Hrc Hok x rcx G. sproj. rewrite get_set, (se_ctxs _ _ Hsm) in G.
  destruct (eqb_spec x c) as [->|Hn]; [injection G as <-; exact Hrc|eauto].
Qed.

Lemma ctx_args_ok_msg cfg s o s' :
  wf_cfg cfg -> Inv cfg s -> wf_op s o -> args_valid o -> (forall dt, o <> OEndBlock dt) ->
  handle cfg s o = Ok s' -> ctx_args_ok s -> ctx_args_ok s'.
Proof.
  intros Hcfg HI Hwf Hav Hne H Hok.
  destruct (ctx_op o) eqn:Hk.
  2:{ eapply cpres_ok; [|exact Hok]. apply cpres_ctxs_eq. exact (se_ctxs _ _ (msg_SEq _ _ _ _ H Hk)). }
  assert (Wc : wf (ctxs s)) by apply (inv_wf _ _ HI).
  destruct o; cbn [ctx_op] in Hk; try discriminate; cbn [handle] in H; cbn [wf_op] in Hwf;
    cbn [args_valid] in Hav.
  - (* call *)
    unfold h_call in H. inv_ok H. apply valid_request_provs in Hc0.
    apply create_context_spec in H. destruct H as (capv & _ & _ & _ & ->).
    apply created_ctx_ok; [exact Wc| |exact Hok]. cbn [new_ctx c_provs c_cons]. split; [tauto|]. split; [tauto|auto].
  - (* module call *)
    apply create_context_spec in H. destruct H as (capv & _ & _ & [Hm|(_ & Hv)] & ->); [tauto|].
    apply valid_request_provs in Hv.
    apply created_ctx_ok; [exact Wc| |exact Hok]. cbn [new_ctx c_provs c_cons]. split; [tauto|]. split; [tauto|auto].
  - (* respond *)
    apply respond_spec in H. destruct H as (q & rc & sm & rc' & _ & Grc & Hsm & -> & Hrc').
    eapply cpres_ok; [|exact Hok]. eapply cpres_put; eauto; destruct Hrc' as [->| ->]; reflexivity.
  - apply h_pause_spec in H. destruct H as (rc & Grc & _ & _ & _ & _ & ->).
    eapply cpres_ok; [|exact Hok]. eapply cpres_put; eauto using SEq_refl.
  - apply h_start_spec in H. destruct H as (rc & Grc & _ & _ & _ & ->).
    eapply cpres_ok; [|exact Hok]. intros x rcx G. unfold started in G.
    assert (G' : get x (set c (setc_state rc Running) (ctxs s)) = Some rcx).
    { destruct (negb (has c (expq_h s)) && negb (has c (newq_h s))); sproj; exact G. }
    rewrite get_set in G'. destruct (eqb_spec x c) as [->|Hn]; [injection G' as <-|]; eauto.
  - apply h_kill_spec in H. destruct H as (rc & Grc & _ & _ & _ & ->).
    eapply cpres_ok; [|exact Hok]. eapply cpres_put; eauto using SEq_refl.
  - (* update *)
    pose proof H as H0. unfold h_update_ctx in H0. inv_ok H0. clear H0 Ha.
    apply valid_update_provs in Hc0. destruct Hc0 as (Hl & Hn).
    apply h_update_ctx_spec in H. destruct H as (rc & capo & Grc & _ & _ & _ & _ & _ & _ & _ & _ & ->).
    apply (ctx_args_ok_put s s); [apply SEq_refl| |exact Hok].
    apply upd_ctx_ok; eauto.
  - exfalso. eapply Hne. reflexivity.
  - (* module update *)
    destruct Hwf as (_ & Hown). pose proof H as H0.
    apply h_mod_update_spec in H; [|exact Hown].
    destruct H as (rc & capo & Grc & _ & Hm & _ & _ & _ & _ & _ & _ & _ & ->).
    unfold h_mod_update in H0. inv_ok H0. apply authorized_mod_spec in Ha. destruct Ha as (Ga & _).
    assert (a = rc) by congruence. subst a.
    destruct (c_mod rc =? 0) eqn:Em; [b2p; contradiction|]. inv_ok Ha0.
    apply valid_update_provs in Hc0. destruct Hc0 as (Hl & Hn).
    apply (ctx_args_ok_put s s); [apply SEq_refl| |exact Hok].
    apply upd_ctx_ok; auto.
    destruct (with_thr_fixed rc (if thr =? 0 then c_thr rc else thr)) as (_ & Ep & Ec & _).
    rewrite Ep, Ec. eauto.
  - apply h_mod_pause_spec in H. destruct H as (rc & Grc & _ & _ & _ & ->).
    eapply cpres_ok; [|exact Hok]. eapply cpres_put; eauto using SEq_refl.
  - apply h_mod_start_spec in H. destruct H as (rc & Grc & _ & _ & ->).
    eapply cpres_ok; [|exact Hok]. intros x rcx G. unfold started in G.
    assert (G' : get x (set c (setc_state rc Running) (ctxs s)) = Some rcx).
    { destruct (negb (has c (expq_h s)) && negb (has c (newq_h s))); sproj; exact G. }
    rewrite get_set in G'. destruct (eqb_spec x c) as [->|Hn]; [injection G' as <-|]; eauto.
  - apply h_mod_kill_spec in H. destruct H as (rc & Grc & _ & _ & ->).
    eapply cpres_ok; [|exact Hok]. eapply cpres_put; eauto using SEq_refl.
Qed.

Theorem records_valid_step cfg s o :
  wf_cfg cfg -> Inv cfg s -> wf_op s o -> args_valid o ->
  records_valid s -> records_valid (fst (step cfg s o)).
Proof.
  intros Hcfg HI Hwf Hav [Hb Hc]. unfold step.
  destruct (handle cfg s o) as [s'| |] eqn:E; cbn [fst]; try (split; assumption).
  assert (Hd : (forall dt, o <> OEndBlock dt) \/ exists dt, o = OEndBlock dt).
  { destruct o; try (left; discriminate). right. eauto. }
  destruct Hd as [Hne|(dt & ->)].
  - split; [eapply bind_args_ok_msg; eauto|eapply ctx_args_ok_msg; eauto].
  - cbn [handle] in E. injection E as <-. cbn [wf_op] in Hwf. destruct Hwf as (_ & Hh). split.
    + eapply bpres_ok; [|exact Hb]. apply sframe_bpres. apply (ff_end_block cfg s dt).
    + eapply cpres_ok; [|exact Hc]. now apply cpres_end_block.
Qed.

(* reachability with stateless validation tied to the arguments *)
Inductive ReachV (cfg : Params) : State -> Prop :=
| ReachV_init h0 t0 f : 1 <= h0 -> 0 <= t0 -> wf_funding f -> ReachV cfg (init h0 t0 f)
| ReachV_step s o : ReachV cfg s -> wf_op s o -> args_valid o -> ReachV cfg (fst (step cfg s o)).

Lemma ReachV_Reach cfg s : ReachV cfg s -> Reach cfg s.
Proof. induction 1; [now apply Reach_init|now apply Reach_step]. Qed.

Lemma records_valid_init h0 t0 f : records_valid (init h0 t0 f).
Proof. split; intros k b G; discriminate G. Qed.

Theorem ReachV_records_valid cfg s : wf_cfg cfg -> ReachV cfg s -> records_valid s.
Proof.
  intros Hcfg H. induction H as [h0 t0 f H1 H2 H3|s o H IH Ho Ha].
  - apply records_valid_init.
  - apply records_valid_step; auto. apply Reach_Inv; [exact Hcfg|now apply ReachV_Reach].
Qed.

Lemma records_valid_ok cfg s : Inv cfg s -> records_valid s -> bindings_ok s /\ contexts_ok s.
Proof.
  intros HI [Hb Hc]. pose proof (inv_wf _ _ HI) as W.
  assert (Wb : wf (binds s)) by apply W. assert (Wc : wf (ctxs s)) by apply W. split.
  - intros [k b] Hin. destruct (Hb _ _ (In_get _ _ _ Wb Hin)) as (A1 & A2 & A3).
    destruct (inv_deposit _ _ HI) as (_ & D2). destruct (inv_index _ _ HI) as (I1 & _).
    destruct (I1 _ _ Hin) as (_ & _ & _ & _ & _ & Hs & _). pose proof (D2 _ _ Hin) as Hd.
    unfold binding_valid. cbn [fst snd]. rewrite Hs.
    apply Z.eqb_neq in A1, A2. rewrite A1, A2. cbn [negb andb].
    apply andb_true_intro. split; [|reflexivity].
    apply andb_true_intro. split; [now apply Z.leb_le|now apply Z.ltb_lt].
  - intros c rc Hin. destruct (Hc _ _ (In_get _ _ _ Wc Hin)) as ((A1 & A2) & A3 & A4).
    destruct (inv_ctx _ _ HI c rc (In_get _ _ _ Wc Hin)) as (_ & _ & _ & _ & _ & _ & _ & Hcap & _).
    unfold ctx_struct_valid. rewrite A3. apply Z.eqb_neq in A4. rewrite A4. cbn [negb].
    repeat (apply andb_true_intro; split); try reflexivity; apply Z.leb_le; lia.
Qed.

Theorem C19_reachV_records_ok cfg s : wf_cfg cfg -> ReachV cfg s -> bindings_ok s /\ contexts_ok s.
Proof.
  intros Hcfg Hr. apply (records_valid_ok cfg).
  - apply Reach_Inv; [exact Hcfg|now apply ReachV_Reach].
  - now apply (ReachV_records_valid cfg).
Qed.

(* "the genesis exported after the preparation always passes validation" over the reachable
   states of the validated domain, and the whole zero-height pipeline *)
Theorem C19_reach_export_valid cfg s s' :
  wf_cfg cfg -> params_ok cfg -> ReachV cfg s ->
  prep_zero_height s = Some s' -> validate_genesis (export_genesis cfg s') = true.
Proof.
  intros Hcfg Hp Hr E. destruct (C19_reachV_records_ok cfg s Hcfg Hr) as (Hb & Hc).
  exact (C19_export_valid cfg s s' Hp Hb Hc E).
Qed.

Theorem C19_reach_zero_height_roundtrip cfg h t s :
  wf_cfg cfg -> params_ok cfg -> ReachV cfg s ->
  exists s' si, prep_zero_height s = Some s' /\ bal s' Escrow = 0
    /\ init_genesis h t (export_genesis cfg s') = Ok si
    /\ export_genesis cfg si = export_genesis cfg s' /\ index_consistent si.
Proof.
  intros Hcfg Hp Hr. pose proof (ReachV_Reach _ _ Hr) as Hr0.
  destruct (C19_reach_prep cfg s Hcfg Hr0) as (s' & E & He & _ & _ & _ & _ & _ & Hw').
  destruct (C19_reach_hyps cfg s Hcfg Hr0) as (_ & _ & _ & Hw & Hso).
  destruct (C19_reachV_records_ok cfg s Hcfg Hr) as (Hb & Hc).
  destruct (C19_zero_height_roundtrip cfg h t s s' Hp Hb Hc Hw E) as (si & Ei & Ex).
  exists s', si. split; [exact E|]. split; [exact He|]. split; [exact Ei|]. split; [exact Ex|].
  unfold init_genesis in Ei. destruct (validate_genesis (export_genesis cfg s')); [|discriminate].
  injection Ei as <-. apply C19_import_indexes; [now apply export_wf|].
  destruct (prep_frame s s' E) as (_ & Hbi & _).
  intros k1 b1 k2 b2 H1 H2. cbn [export_genesis g_binds] in H1, H2. rewrite Hbi in H1, H2.
  exact (Hso k1 b1 k2 b2 H1 H2).
Qed.
