(* Shared infrastructure for the scheduling / context-record invariants
   (I_sched, I_ctx, I_time) and the step theorems of C09/C10/C11:
   - int64 identities in range;
   - SEq: "same scheduler view" (height, time, contexts, both queues and their
     pointers equal; the log only grows) with a lemma for every primitive;
   - Touch c: an operation that changes at most the context c;
   - qpair: queue list <-> pointer map;
   - exact specifications of every context-changing message handler and of the
     two per-context EndBlock handlers (expire_one, new_one). *)
From Coq Require Import List ZArith Bool Lia Permutation.
From SVC Require Import Base.AMap Base.Res Base.Dec Model.Types Model.Pricing
  Model.Handlers Model.EndBlock Model.Step Proofs.Inv Proofs.Lemmas.
Import ListNotations.
Open Scope Z_scope.

(* ------------------------------------------------------------------ *)
(* int64: no wrap-around in range *)

Lemma wrap_i64_id x : - TWO63 <= x < TWO63 -> wrap_i64 x = x.
Proof. intros Hx. unfold wrap_i64. rewrite Z.mod_small; unfold TWO63, TWO64 in *; lia. Qed.

Lemma to_i64_id f : 0 <= f < TWO63 -> to_i64 f = f.
Proof.
  intros Hf. unfold to_i64. destruct (f <? TWO63) eqn:E; [reflexivity|].
  apply Z.ltb_ge in E. lia.
Qed.

Lemma HEIGHT_BOUND_lt : 2 * HEIGHT_BOUND = TWO63.
Proof. reflexivity. Qed.

(* the height of the next batch of a repeated context, without wrap *)
Lemma next_batch_height H t f :
  1 <= H < HEIGHT_BOUND -> 1 <= t -> t <= f -> f < HEIGHT_BOUND ->
  wrap_i64 (H - t + to_i64 f) = H - t + f.
Proof.
  intros HH Ht Htf Hf. pose proof HEIGHT_BOUND_lt as E.
  rewrite to_i64_id by lia. apply wrap_i64_id. lia.
Qed.

(* ------------------------------------------------------------------ *)
(* has *)

Lemma has_set {K V} `{EqDec K} (k k' : K) (v : V) (m : amap K V) :
  has k' (set k v m) = eqb k' k || has k' m.
Proof. unfold has. rewrite get_set. destruct (eqb k' k); reflexivity. Qed.

Lemma has_del {K V} `{EqDec K} (k k' : K) (m : amap K V) : wf m ->
  has k' (del k m) = negb (eqb k' k) && has k' m.
Proof. intros Hw. unfold has. rewrite get_del by assumption. destruct (eqb k' k); reflexivity. Qed.

Lemma has_true {K V} `{EqDec K} (k : K) (m : amap K V) :
  has k m = true <-> exists v, get k m = Some v.
Proof. unfold has. destruct (get k m); split; intros; eauto; try discriminate. destruct H0; discriminate. Qed.

Lemma has_false {K V} `{EqDec K} (k : K) (m : amap K V) :
  has k m = false <-> get k m = None.
Proof. unfold has. destruct (get k m); split; intros; congruence. Qed.

Lemma has_of_get {K V} `{EqDec K} (k : K) (m : amap K V) v : get k m = Some v -> has k m = true.
Proof. intros E. unfold has. now rewrite E. Qed.

(* ------------------------------------------------------------------ *)
(* SEq: same scheduler view *)

Record SEq (s s' : State) : Prop := mkSEq {
  se_height : height s' = height s;
  se_time : time s' = time s;
  se_ctxs : ctxs s' = ctxs s;
  se_expq : expq s' = expq s;
  se_expq_h : expq_h s' = expq_h s;
  se_newq : newq s' = newq s;
  se_newq_h : newq_h s' = newq_h s;
  se_log : incl (log s) (log s')
}.

Ltac incl_auto :=
  first [ apply incl_refl | apply incl_tl; incl_auto | assumption
        | (let e := fresh "e" in let He := fresh "He" in
           intros e He; cbn [In]; auto 6) ].

Ltac seq_auto := constructor; sproj; try reflexivity; try incl_auto.

Lemma SEq_refl s : SEq s s.
Proof. seq_auto. Qed.

Lemma SEq_trans s1 s2 s3 : SEq s1 s2 -> SEq s2 s3 -> SEq s1 s3.
Proof.
  intros [] []. constructor; try congruence. eapply incl_tran; eassumption.
Qed.

(* rewrites the view of the later state into the view of the earlier one *)
Ltac seq_rw H :=
  let Eh := fresh "Eh" in let Et := fresh "Et" in let Ec := fresh "Ec" in
  let Eq1 := fresh "Eq" in let Eqh := fresh "Eqh" in let En := fresh "En" in
  let Enh := fresh "Enh" in let El := fresh "El" in
  destruct H as [Eh Et Ec Eq1 Eqh En Enh El];
  rewrite ?Eh, ?Et, ?Ec, ?Eq1, ?Eqh, ?En, ?Enh in *.

Ltac seq_step := eapply SEq_trans; [eassumption|seq_auto].

Lemma SEq_emit e s : SEq s (emit e s).
Proof. seq_auto. Qed.

Lemma SEq_transfer a b amt s s1 : transfer a b amt s = Some s1 -> SEq s s1.
Proof. intros E. rewrite (transfer_frame _ _ _ _ _ E). seq_auto. Qed.

Lemma SEq_burn amt s s1 : burn_deposit amt s = Some s1 -> SEq s s1.
Proof. intros E. apply burn_some in E. destruct E as (_ & _ & ->). seq_auto. Qed.

Lemma SEq_pay_deposit s k o amt s1 : pay_deposit s k o amt = Ok s1 -> SEq s s1.
Proof.
  intros E. apply pay_deposit_inv in E. destruct E as (s0 & Et & ->).
  apply SEq_transfer in Et. seq_step.
Qed.

Lemma SEq_deactivate s r : SEq s (deactivate s r).
Proof. unfold deactivate. destruct (get r (reqs s)); seq_auto. Qed.

Lemma SEq_slash cfg s r s1 : slash cfg s r = Ok s1 -> SEq s s1.
Proof.
  unfold slash. intros H. inv_ok H.
  assert (Hb : SEq s a2) by (eapply SEq_burn; eauto).
  destruct (b_avail (setb_deposit a1 (b_deposit a1 - mul_trunc (b_deposit a1) (p_slash cfg))));
    inv_ok H; subst; seq_step.
Qed.

Lemma SEq_refund_fee s r cons fee s1 : refund_fee s r cons fee = Some s1 -> SEq s s1.
Proof.
  unfold refund_fee. destruct (transfer Escrow (User cons) fee s) eqn:E; [|discriminate].
  intros H. injection H as <-. apply SEq_transfer in E. seq_step.
Qed.

Lemma SEq_add_earned cfg s r prov fee s1 : add_earned_fee cfg s r prov fee = Ok s1 -> SEq s s1.
Proof.
  unfold add_earned_fee. intros H. inv_ok H.
  assert (Hb : SEq s a) by (eapply SEq_transfer; eauto).
  sproj. destruct (get prov (owner_of a)); inv_ok H. subst. seq_step.
Qed.

Lemma SEq_callback s c : SEq s (callback s c).
Proof. unfold callback. destruct (get c (ctxs s)); seq_auto. Qed.

Lemma SEq_complete_batch s c rc : SEq s (fst (complete_batch s c rc)).
Proof.
  unfold complete_batch. cbn [fst]. destruct (c_mod rc =? 0); [seq_auto|].
  pose proof (SEq_callback s c). seq_step.
Qed.

Lemma snd_complete_batch s c rc : snd (complete_batch s c rc) = setc_bdone rc true.
Proof. reflexivity. Qed.

Lemma SEq_expire_req cfg s r : SEq s (expire_req cfg s r).
Proof.
  unfold expire_req.
  destruct (get r (reqs s)) as [q|]; [|apply SEq_refl].
  destruct (get (rid_ctx r) (ctxs s)) as [rc|]; [|apply SEq_refl].
  eapply SEq_trans; [|apply SEq_emit].
  eapply SEq_trans; [|apply SEq_deactivate].
  destruct (c_super rc); [apply SEq_refl|].
  assert (Hsa : SEq s (match slash cfg s r with Ok x => x | _ => s end)).
  { destruct (slash cfg s r) eqn:Es; try apply SEq_refl. eapply SEq_slash; eauto. }
  destruct (refund_fee _ r (c_cons rc) (r_fee q)) eqn:Er; [|assumption].
  eapply SEq_trans; [exact Hsa|]. eapply SEq_refund_fee; eauto.
Qed.

Lemma SEq_fold {A} (f : State -> A -> State) (l : list A) s :
  (forall s a, SEq s (f s a)) -> SEq s (fold_left f l s).
Proof.
  intros Hf. revert s. induction l as [|a l IH]; cbn [fold_left]; intros s; [apply SEq_refl|].
  eapply SEq_trans; [apply Hf|apply IH].
Qed.

Lemma SEq_clean_batch s c n : SEq s (clean_batch s c n).
Proof. unfold clean_batch. seq_auto. Qed.

Lemma SEq_issue_all s c rc n i provs : SEq s (issue_all s c rc n i provs).
Proof.
  revert s i. induction provs as [|p t IH]; cbn [issue_all]; intros s i; [apply SEq_refl|].
  eapply SEq_trans; [|apply IH]. unfold issue_one. seq_auto.
Qed.

(* operations that never touch a context or a queue *)
Definition ctx_op (o : Op) : bool :=
  match o with
  | OCall _ _ _ _ _ _ _ _ _ _ _ _ _ | OModCall _ _ _ _ _ _ _ _ _ _ _ _ _ _
  | ORespond _ _ _ _ _ _ | OPause _ _ _ | OStart _ _ _ | OKill _ _ _
  | OUpdateCtx _ _ _ _ _ _ _ _ | OEndBlock _ => true
  | _ => false
  end.

Lemma msg_SEq cfg s o s' : handle cfg s o = Ok s' -> ctx_op o = false -> SEq s s'.
Proof.
  intros H Hk. destruct o; cbn [ctx_op] in Hk; try discriminate; cbn [handle] in H.
  - (* define *) unfold h_define in H. inv_ok H. destruct (get svc (defs s)); inv_ok H. subst. seq_auto.
  - (* bind *) unfold h_bind in H. inv_ok H. sproj.
    assert (Hw2 : SEq s a2) by (eapply SEq_pay_deposit; eauto).
    destruct (get prov (owner_of a2)); inv_ok H; subst; seq_step.
  - (* update *) unfold h_update in H. inv_ok H.
    assert (Hw3 : SEq s a3).
    { destruct (coins_empty dep); inv_ok Ha3; [subst; apply SEq_refl|]. eapply SEq_pay_deposit; eauto. }
    destruct (negb (qos =? 0) || negb (coins_empty dep) || match pr with Some _ => true | None => false end);
      [|inv_ok H; now subst].
    destruct a1 as [[raw p]|]; inv_ok H; subst; seq_step.
  - (* disable *) unfold h_disable in H. inv_ok H. subst. seq_auto.
  - (* enable *) unfold h_enable in H. inv_ok H. subst.
    assert (Hw3 : SEq s a2).
    { destruct (coins_empty dep); inv_ok Ha2; [subst; apply SEq_refl|]. eapply SEq_pay_deposit; eauto. }
    seq_step.
  - (* refund deposit *) unfold h_refund_deposit in H. inv_ok H. subst.
    assert (Hw3 : SEq s a0) by (eapply SEq_transfer; eauto). seq_step.
  - (* set withdraw *) unfold h_set_withdraw in H. inv_ok H. subst. seq_auto.
  - (* withdraw *) unfold h_withdraw in H. inv_ok H.
    destruct (prov =? 0).
    + inv_ok H. subst. apply SEq_transfer in Ha. eapply SEq_trans; [|apply SEq_emit].
      eapply SEq_trans; [|exact Ha]. seq_auto.
    + inv_ok H. subst. apply SEq_transfer in Ha0. eapply SEq_trans; [|apply SEq_emit].
      eapply SEq_trans; [|exact Ha0].
      destruct (get0 prov (earned s) =? get0 owner (own_earned s)); [|destruct (_ <? 0)]; inv_ok Ha; subst; seq_auto.
  - (* transfer *) unfold h_transfer in H. inv_ok H. eapply SEq_transfer; eauto.
Qed.

(* ------------------------------------------------------------------ *)
(* Touch c: at most the context c (record and queue pointers) changes *)

Record Touch (c : CtxId) (s s' : State) : Prop := mkTouch {
  t_height : height s' = height s;
  t_time : time s' = time s;
  t_ctxs : forall c', c' <> c -> get c' (ctxs s') = get c' (ctxs s);
  t_expq_h : forall c', c' <> c -> get c' (expq_h s') = get c' (expq_h s);
  t_newq_h : forall c', c' <> c -> get c' (newq_h s') = get c' (newq_h s);
  t_log : incl (log s) (log s')
}.

Ltac touch_auto :=
  constructor; sproj; intros; rewrite ?get_set_neq, ?get_del_neq by assumption;
  try reflexivity; try incl_auto.

Lemma Touch_refl c s : Touch c s s.
Proof. touch_auto. Qed.

Lemma Touch_trans c s1 s2 s3 : Touch c s1 s2 -> Touch c s2 s3 -> Touch c s1 s3.
Proof.
  intros [h1 t1 a1 b1 c1 l1] [h2 t2 a2 b2 c2 l2]. constructor; try congruence.
  - intros c' Hn. rewrite a2, a1; auto.
  - intros c' Hn. rewrite b2, b1; auto.
  - intros c' Hn. rewrite c2, c1; auto.
  - eapply incl_tran; eassumption.
Qed.

Lemma SEq_Touch c s s' : SEq s s' -> Touch c s s'.
Proof. intros []. constructor; intros; congruence || assumption. Qed.

Lemma Touch_put_ctx c s rc : Touch c s (put_ctx s c rc).
Proof. touch_auto. Qed.
Lemma Touch_del_ctx c s : Touch c s (del_ctx s c).
Proof. touch_auto. Qed.
Lemma Touch_add_newq c s h : Touch c s (add_newq s c h).
Proof. touch_auto. Qed.
Lemma Touch_del_newq c s h : Touch c s (del_newq s c h).
Proof. touch_auto. Qed.
Lemma Touch_add_expq c s h : Touch c s (add_expq s c h).
Proof. touch_auto. Qed.
Lemma Touch_del_expq c s h : Touch c s (del_expq s c h).
Proof. touch_auto. Qed.

(* ------------------------------------------------------------------ *)
(* queue list <-> pointer map *)

Definition qpair (q : list (Z * CtxId)) (qh : amap CtxId Z) : Prop :=
  forall h c, In (h, c) q <-> get c qh = Some h.

Lemma qpair_add q qh c h : qpair q qh -> get c qh = None -> qpair (ladd (h, c) q) (set c h qh).
Proof.
  intros Hq Hn h' c'. rewrite In_ladd, get_set.
  destruct (eqb_spec c' c) as [->|Hne].
  - split.
    + intros [E|Hin]; [congruence|]. apply Hq in Hin. congruence.
    + intros E. left. congruence.
  - rewrite <- (Hq h' c'). split; [intros [E|Hin]; [congruence|assumption]|auto].
Qed.

Lemma qpair_del q qh c h : wf qh -> qpair q qh -> In (h, c) q -> qpair (lrem (h, c) q) (del c qh).
Proof.
  intros Hw Hq Hin h' c'. rewrite In_lrem, get_del by assumption.
  destruct (eqb_spec c' c) as [->|Hne].
  - split; [|discriminate]. intros [Hd Hin']. exfalso. apply Hd.
    apply Hq in Hin. apply Hq in Hin'. congruence.
  - rewrite <- (Hq h' c'). split; [tauto|]. intros Hin'. split; [congruence|assumption].
Qed.

Lemma qpair_unique q qh c h h' : qpair q qh -> In (h, c) q -> In (h', c) q -> h' = h.
Proof. intros Hq H1 H2. apply Hq in H1. apply Hq in H2. congruence. Qed.
