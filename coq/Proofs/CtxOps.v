(* Shared infrastructure for the scheduling / context-record invariants
   (I_sched, I_ctx, I_time) and the step theorems of C09/C10/C11:
   - int64 identities in range;
   - SEq: "same scheduler view" (height, time, contexts, both queues and their
     pointers equal; the log only grows) with a lemma for every primitive;
   - Touch c: an operation that changes at most the context c;
   - qpair: queue list <-> pointer map;
   - exact specifications of every context-changing message handler and of the
     two per-context EndBlock handlers (expire_one, new_one). *)
From Coq Require Import List ZArith Bool Lia Permutation.
From SVC Require Import Base.AMap Base.Res Base.Dec Model.Types Model.Pricing
  Model.Handlers Model.EndBlock Model.Step Proofs.Inv Proofs.Lemmas.
Import ListNotations.
Open Scope Z_scope.

(* ------------------------------------------------------------------ *)
(* int64: no wrap-around in range *)

Lemma wrap_i64_id x : - TWO63 <= x < TWO63 -> wrap_i64 x = x.
Proof. intros Hx. unfold wrap_i64. rewrite Z.mod_small; unfold TWO63, TWO64 in *; lia. Qed.

Lemma to_i64_id f : 0 <= f < TWO63 -> to_i64 f = f.
Proof.
  intros Hf. unfold to_i64. destruct (f <? TWO63) eqn:E; [reflexivity|].
  apply Z.ltb_ge in E. lia.
Qed.

Lemma HEIGHT_BOUND_lt : 2 * HEIGHT_BOUND = TWO63.
Proof. reflexivity. Qed.

(* the height of the next batch of a repeated context, without wrap *)
Lemma next_batch_height H t f :
  1 <= H < HEIGHT_BOUND -> 1 <= t -> t <= f -> f < HEIGHT_BOUND ->
  wrap_i64 (H - t + to_i64 f) = H - t + f.
Proof.
  intros HH Ht Htf Hf. pose proof HEIGHT_BOUND_lt as E.
  rewrite to_i64_id by lia. apply wrap_i64_id. lia.
Qed.

(* ------------------------------------------------------------------ *)
(* has *)

Lemma has_set {K V} `{EqDec K} (k k' : K) (v : V) (m : amap K V) :
  has k' (set k v m) = eqb k' k || has k' m.
Proof. unfold has. rewrite get_set. destruct (eqb k' k); reflexivity. Qed.

Lemma has_del {K V} `{EqDec K} (k k' : K) (m : amap K V) : wf m ->
  has k' (del k m) = negb (eqb k' k) && has k' m.
Proof. intros Hw. unfold has. rewrite get_del by assumption. destruct (eqb k' k); reflexivity. Qed.

Lemma has_true {K V} `{EqDec K} (k : K) (m : amap K V) :
  has k m = true <-> exists v, get k m = Some v.
Proof. unfold has. destruct (get k m); split; intros; eauto; try discriminate. destruct H0; discriminate. Qed.

Lemma has_false {K V} `{EqDec K} (k : K) (m : amap K V) :
  has k m = false <-> get k m = None.
Proof. unfold has. destruct (get k m); split; intros; congruence. Qed.

Lemma has_of_get {K V} `{EqDec K} (k : K) (m : amap K V) v : get k m = Some v -> has k m = true.
Proof. intros E. unfold has. now rewrite E. Qed.

(* ------------------------------------------------------------------ *)
(* SEq: same scheduler view *)

Record SEq (s s' : State) : Prop := mkSEq {
  se_height : height s' = height s;
  se_time : time s' = time s;
  se_ctxs : ctxs s' = ctxs s;
  se_expq : expq s' = expq s;
  se_expq_h : expq_h s' = expq_h s;
  se_newq : newq s' = newq s;
  se_newq_h : newq_h s' = newq_h s;
  se_log : incl (log s) (log s')
}.

Ltac incl_auto :=
  first [ apply incl_refl | apply incl_tl; incl_auto | assumption
        | (let e := fresh "e" in let He := fresh "He" in
           intros e He; cbn [In]; auto 6) ].

Ltac seq_auto := constructor; sproj; try reflexivity; try incl_auto.

Lemma SEq_refl s : SEq s s.
Proof. seq_auto. Qed.

Lemma SEq_trans s1 s2 s3 : SEq s1 s2 -> SEq s2 s3 -> SEq s1 s3.
Proof.
  intros [] []. constructor; try congruence. eapply incl_tran; eassumption.
Qed.

(* rewrites the view of the later state into the view of the earlier one *)
Ltac seq_rw H :=
  let Eh := fresh "Eh" in let Et := fresh "Et" in let Ec := fresh "Ec" in
  let Eq1 := fresh "Eq" in let Eqh := fresh "Eqh" in let En := fresh "En" in
  let Enh := fresh "Enh" in let El := fresh "El" in
  destruct H as [Eh Et Ec Eq1 Eqh En Enh El];
  rewrite ?Eh, ?Et, ?Ec, ?Eq1, ?Eqh, ?En, ?Enh in *.

Ltac seq_step := eapply SEq_trans; [eassumption|seq_auto].

Lemma SEq_emit e s : SEq s (emit e s).
Proof. seq_auto. Qed.

Lemma SEq_transfer a b amt s s1 : transfer a b amt s = Some s1 -> SEq s s1.
Proof. intros E. rewrite (transfer_frame _ _ _ _ _ E). seq_auto. Qed.

Lemma SEq_burn amt s s1 : burn_deposit amt s = Some s1 -> SEq s s1.
Proof. intros E. apply burn_some in E. destruct E as (_ & _ & ->). seq_auto. Qed.

Lemma SEq_pay_deposit s k o amt s1 : pay_deposit s k o amt = Ok s1 -> SEq s s1.
Proof.
  intros E. apply pay_deposit_inv in E. destruct E as (s0 & Et & ->).
  apply SEq_transfer in Et. seq_step.
Qed.

Lemma SEq_deactivate s r : SEq s (deactivate s r).
Proof. unfold deactivate. destruct (get r (reqs s)); seq_auto. Qed.

Lemma SEq_slash cfg s r s1 : slash cfg s r = Ok s1 -> SEq s s1.
Proof.
  unfold slash. intros H. inv_ok H.
  assert (Hb : SEq s a2) by (eapply SEq_burn; eauto).
  destruct (b_avail (setb_deposit a1 (b_deposit a1 - mul_trunc (b_deposit a1) (p_slash cfg))));
    inv_ok H; subst; seq_step.
Qed.

Lemma SEq_refund_fee s r cons fee s1 : refund_fee s r cons fee = Some s1 -> SEq s s1.
Proof.
  unfold refund_fee. destruct (transfer Escrow (User cons) fee s) eqn:E; [|discriminate].
  intros H. injection H as <-. apply SEq_transfer in E. seq_step.
Qed.

Lemma SEq_add_earned cfg s r prov fee s1 : add_earned_fee cfg s r prov fee = Ok s1 -> SEq s s1.
Proof.
  unfold add_earned_fee. intros H. inv_ok H.
  assert (Hb : SEq s a) by (eapply SEq_transfer; eauto).
  sproj. destruct (get prov (owner_of a)); inv_ok H. subst. seq_step.
Qed.

Lemma SEq_callback s c : SEq s (callback s c).
Proof. unfold callback. destruct (get c (ctxs s)); seq_auto. Qed.

Lemma SEq_complete_batch s c rc : SEq s (fst (complete_batch s c rc)).
Proof.
  unfold complete_batch. cbn [fst]. destruct (c_mod rc =? 0); [seq_auto|].
  pose proof (SEq_callback s c). seq_step.
Qed.

Lemma snd_complete_batch s c rc : snd (complete_batch s c rc) = setc_bdone rc true.
Proof. reflexivity. Qed.

Lemma SEq_expire_req cfg s r : SEq s (expire_req cfg s r).
Proof.
  unfold expire_req.
  destruct (get r (reqs s)) as [q|]; [|apply SEq_refl].
  destruct (get (rid_ctx r) (ctxs s)) as [rc|]; [|apply SEq_refl].
  eapply SEq_trans; [|apply SEq_emit].
  eapply SEq_trans; [|apply SEq_deactivate].
  destruct (c_super rc); [apply SEq_refl|].
  assert (Hsa : SEq s (match slash cfg s r with Ok x => x | _ => s end)).
  { destruct (slash cfg s r) eqn:Es; try apply SEq_refl. eapply SEq_slash; eauto. }
  destruct (refund_fee _ r (c_cons rc) (r_fee q)) eqn:Er; [|assumption].
  eapply SEq_trans; [exact Hsa|]. eapply SEq_refund_fee; eauto.
Qed.

Lemma SEq_fold {A} (f : State -> A -> State) (l : list A) s :
  (forall s a, SEq s (f s a)) -> SEq s (fold_left f l s).
Proof.
  intros Hf. revert s. induction l as [|a l IH]; cbn [fold_left]; intros s; [apply SEq_refl|].
  eapply SEq_trans; [apply Hf|apply IH].
Qed.

Lemma SEq_clean_batch s c n : SEq s (clean_batch s c n).
Proof. unfold clean_batch. seq_auto. Qed.

Lemma SEq_issue_all s c rc n i provs : SEq s (issue_all s c rc n i provs).
Proof.
  revert s i. induction provs as [|p t IH]; cbn [issue_all]; intros s i; [apply SEq_refl|].
  eapply SEq_trans; [|apply IH]. unfold issue_one. seq_auto.
Qed.

(* operations that never touch a context or a queue *)
Definition ctx_op (o : Op) : bool :=
  match o with
  | OCall _ _ _ _ _ _ _ _ _ _ _ _ _ | OModCall _ _ _ _ _ _ _ _ _ _ _ _ _ _
  | ORespond _ _ _ _ _ _ | OPause _ _ _ | OStart _ _ _ | OKill _ _ _
  | OUpdateCtx _ _ _ _ _ _ _ _ | OEndBlock _
  | OModUpdate _ _ _ _ _ _ _ _ | OModPause _ _ | OModStart _ _ | OModKill _ _ => true
  | _ => false
  end.

Lemma msg_SEq cfg s o s' : handle cfg s o = Ok s' -> ctx_op o = false -> SEq s s'.
Proof.
  intros H Hk. destruct o; cbn [ctx_op] in Hk; try discriminate; cbn [handle] in H.
  - (* define *) unfold h_define in H. inv_ok H. destruct (get svc (defs s)); inv_ok H. subst. seq_auto.
  - (* bind *) unfold h_bind in H. inv_ok H. sproj.
    assert (Hw2 : SEq s a2) by (eapply SEq_pay_deposit; eauto).
    destruct (get prov (owner_of a2)); inv_ok H; subst; seq_step.
  - (* update *) unfold h_update in H. inv_ok H.
    assert (Hw3 : SEq s a3).
    { destruct (coins_empty dep); inv_ok Ha3; [subst; apply SEq_refl|]. eapply SEq_pay_deposit; eauto. }
    destruct (negb (qos =? 0) || negb (coins_empty dep) || match pr with Some _ => true | None => false end);
      [|inv_ok H; now subst].
    destruct a1 as [[raw p]|]; inv_ok H; subst; seq_step.
  - (* disable *) unfold h_disable in H. inv_ok H. subst. seq_auto.
  - (* enable *) unfold h_enable in H. inv_ok H. subst.
    assert (Hw3 : SEq s a2).
    { destruct (coins_empty dep); inv_ok Ha2; [subst; apply SEq_refl|]. eapply SEq_pay_deposit; eauto. }
    seq_step.
  - (* refund deposit *) unfold h_refund_deposit in H. inv_ok H. subst.
    assert (Hw3 : SEq s a0) by (eapply SEq_transfer; eauto). seq_step.
  - (* set withdraw *) unfold h_set_withdraw in H. inv_ok H. subst. seq_auto.
  - (* withdraw *) unfold h_withdraw in H. inv_ok H.
    destruct (prov =? 0).
    + inv_ok H. subst. apply SEq_transfer in Ha. eapply SEq_trans; [|apply SEq_emit].
      eapply SEq_trans; [|exact Ha]. seq_auto.
    + inv_ok H. subst. apply SEq_transfer in Ha0. eapply SEq_trans; [|apply SEq_emit].
      eapply SEq_trans; [|exact Ha0].
      destruct (get0 prov (earned s) =? get0 owner (own_earned s)); [|destruct (_ <? 0)]; inv_ok Ha; subst; seq_auto.
  - (* transfer *) unfold h_transfer in H. inv_ok H. eapply SEq_transfer; eauto.
Qed.

(* ------------------------------------------------------------------ *)
(* Touch c: at most the context c (record and queue pointers) changes *)

Record Touch (c : CtxId) (s s' : State) : Prop := mkTouch {
  t_height : height s' = height s;
  t_time : time s' = time s;
  t_ctxs : forall c', c' <> c -> get c' (ctxs s') = get c' (ctxs s);
  t_expq_h : forall c', c' <> c -> get c' (expq_h s') = get c' (expq_h s);
  t_newq_h : forall c', c' <> c -> get c' (newq_h s') = get c' (newq_h s);
  t_log : incl (log s) (log s')
}.

Ltac touch_auto :=
  constructor; sproj; intros;
  repeat first [rewrite get_set_neq by assumption | rewrite get_del_neq by assumption];
  try reflexivity; try incl_auto.

Lemma Touch_refl c s : Touch c s s.
Proof. touch_auto. Qed.

Lemma Touch_trans c s1 s2 s3 : Touch c s1 s2 -> Touch c s2 s3 -> Touch c s1 s3.
Proof.
  intros [h1 t1 a1 b1 c1 l1] [h2 t2 a2 b2 c2 l2]. constructor; try congruence.
  - intros c' Hn. rewrite a2, a1; auto.
  - intros c' Hn. rewrite b2, b1; auto.
  - intros c' Hn. rewrite c2, c1; auto.
  - eapply incl_tran; eassumption.
Qed.

Lemma SEq_Touch c s s' : SEq s s' -> Touch c s s'.
Proof. intros []. constructor; intros; congruence || assumption. Qed.

Lemma Touch_put_ctx c s rc : Touch c s (put_ctx s c rc).
Proof. touch_auto. Qed.
Lemma Touch_del_ctx c s : Touch c s (del_ctx s c).
Proof. touch_auto. Qed.
Lemma Touch_add_newq c s h : Touch c s (add_newq s c h).
Proof. touch_auto. Qed.
Lemma Touch_del_newq c s h : Touch c s (del_newq s c h).
Proof. touch_auto. Qed.
Lemma Touch_add_expq c s h : Touch c s (add_expq s c h).
Proof. touch_auto. Qed.
Lemma Touch_del_expq c s h : Touch c s (del_expq s c h).
Proof. touch_auto. Qed.

(* ------------------------------------------------------------------ *)
(* queue list <-> pointer map *)

Definition qpair (q : list (Z * CtxId)) (qh : amap CtxId Z) : Prop :=
  forall h c, In (h, c) q <-> get c qh = Some h.

Lemma qpair_add q qh c h : qpair q qh -> get c qh = None -> qpair (ladd (h, c) q) (set c h qh).
Proof.
  intros Hq Hn h' c'. rewrite In_ladd, get_set.
  destruct (eqb_spec c' c) as [->|Hne].
  - split.
    + intros [E|Hin]; [congruence|]. apply Hq in Hin. congruence.
    + intros E. left. congruence.
  - rewrite <- (Hq h' c'). split; [intros [E|Hin]; [congruence|assumption]|auto].
Qed.

Lemma qpair_del q qh c h : wf qh -> qpair q qh -> In (h, c) q -> qpair (lrem (h, c) q) (del c qh).
Proof.
  intros Hw Hq Hin h' c'. rewrite In_lrem, get_del by assumption.
  destruct (eqb_spec c' c) as [->|Hne].
  - split; [|discriminate]. intros [Hd Hin']. exfalso. apply Hd.
    apply Hq in Hin. apply Hq in Hin'. congruence.
  - rewrite <- (Hq h' c'). split; [tauto|]. intros Hin'. split; [congruence|assumption].
Qed.

Lemma qpair_unique q qh c h h' : qpair q qh -> In (h, c) q -> In (h', c) q -> h' = h.
Proof. intros Hq H1 H2. apply Hq in H1. apply Hq in H2. congruence. Qed.

(* ------------------------------------------------------------------ *)
(* I_sched, pointwise *)

Definition loc_ok (H : Z) (x : option Ctx) (e n : option Z) : Prop :=
  (e <> None -> n <> None -> False)
  /\ (e <> None \/ n <> None -> x <> None)
  /\ (forall h, e = Some h -> H <= h)
  /\ (forall h, n = Some h -> H <= h)
  /\ (forall rc, x = Some rc -> c_state rc = Running -> e <> None \/ n <> None).

Lemma has_ne {K V} `{EqDec K} (k : K) (m : amap K V) : has k m = true <-> get k m <> None.
Proof. unfold has. destruct (get k m); split; intros; congruence. Qed.

Lemma I_sched_loc s c : I_sched s ->
  loc_ok (height s) (get c (ctxs s)) (get c (expq_h s)) (get c (newq_h s)).
Proof.
  intros (H1 & H2 & H3 & H4 & H5 & H6 & H7). unfold loc_ok. rewrite <- !has_ne.
  split; [apply H3|]. split; [apply H4|]. split; [apply H5|]. split; [apply H6|].
  intros rc E R. rewrite <- !has_ne. eapply H7; eauto.
Qed.

Lemma Touch_has c s s' c' : Touch c s s' -> c' <> c ->
  has c' (ctxs s') = has c' (ctxs s) /\ has c' (expq_h s') = has c' (expq_h s)
  /\ has c' (newq_h s') = has c' (newq_h s).
Proof. intros [] Hn. unfold has. rewrite t_ctxs0, t_expq_h0, t_newq_h0; auto. Qed.

Lemma I_sched_local c s s' :
  I_sched s -> Touch c s s' ->
  qpair (expq s') (expq_h s') -> qpair (newq s') (newq_h s') ->
  loc_ok (height s) (get c (ctxs s')) (get c (expq_h s')) (get c (newq_h s')) ->
  I_sched s'.
Proof.
  intros (H1 & H2 & H3 & H4 & H5 & H6 & H7) Ht Q1 Q2 (L1 & L2 & L3 & L4 & L5).
  rewrite <- !has_ne in *.
  pose proof (t_height _ _ _ Ht) as Eh.
  unfold I_sched. rewrite Eh.
  split; [exact Q1|]. split; [exact Q2|].
  split; [|split; [|split; [|split]]].
  - intros c'. destruct (eqb_spec c' c) as [->|Hn]; [assumption|].
    destruct (Touch_has _ _ _ _ Ht Hn) as (_ & -> & ->). apply H3.
  - intros c'. destruct (eqb_spec c' c) as [->|Hn]; [assumption|].
    destruct (Touch_has _ _ _ _ Ht Hn) as (-> & -> & ->). apply H4.
  - intros c'. destruct (eqb_spec c' c) as [->|Hn]; [assumption|].
    rewrite (t_expq_h _ _ _ Ht) by assumption. apply H5.
  - intros c'. destruct (eqb_spec c' c) as [->|Hn]; [assumption|].
    rewrite (t_newq_h _ _ _ Ht) by assumption. apply H6.
  - intros c'. destruct (eqb_spec c' c) as [->|Hn].
    + intros rc E R. rewrite !has_ne. eauto.
    + destruct (Touch_has _ _ _ _ Ht Hn) as (_ & -> & ->).
      rewrite (t_ctxs _ _ _ Ht) by assumption. apply H7.
Qed.

Lemma I_sched_SEq s s' : SEq s s' -> I_sched s -> I_sched s'.
Proof. intros [] H. unfold I_sched in *. now rewrite se_height0, se_ctxs0, se_expq0, se_expq_h0, se_newq0, se_newq_h0. Qed.

(* ------------------------------------------------------------------ *)
(* I_ctx, pointwise *)

Definition ctx_ok (cfg : Params) (rc : Ctx) (e : bool) : Prop :=
  1 <= c_timeout rc <= p_max_timeout cfg
  /\ 0 <= c_counter rc
  /\ 0 <= c_freq rc < HEIGHT_BOUND
  /\ (c_rep rc = true -> c_timeout rc <= c_freq rc)
  /\ (c_rep rc = true -> 0 < c_total rc -> c_counter rc <= c_total rc)
  /\ (c_rep rc = false ->
        (c_counter rc = 0 /\ e = false)
        \/ (c_counter rc = 1 /\ c_state rc = Running /\ e = true))
  /\ (c_mod rc = 0 \/ c_mod rc = p_cbmod cfg)
  /\ 0 < c_cap rc.

Lemma I_ctx_get cfg s c rc : I_ctx cfg s -> get c (ctxs s) = Some rc ->
  ctx_ok cfg rc (has c (expq_h s)) /\ In (EvCtxCreated c) (log s).
Proof. intros Hi E. specialize (Hi c rc E). unfold ctx_ok. tauto. Qed.

Lemma I_ctx_local cfg c s s' :
  I_ctx cfg s -> Touch c s s' ->
  (forall rc, get c (ctxs s') = Some rc ->
     ctx_ok cfg rc (has c (expq_h s')) /\ In (EvCtxCreated c) (log s')) ->
  I_ctx cfg s'.
Proof.
  intros Hi Ht Hl c' rc' E. destruct (eqb_spec c' c) as [->|Hn].
  - specialize (Hl rc' E). unfold ctx_ok in Hl. tauto.
  - rewrite (t_ctxs _ _ _ Ht) in E by assumption.
    destruct (Touch_has _ _ _ _ Ht Hn) as (_ & -> & _).
    specialize (Hi c' rc' E). pose proof (t_log _ _ _ Ht (EvCtxCreated c')) as Hl'. tauto.
Qed.

Lemma I_ctx_SEq cfg s s' : SEq s s' -> I_ctx cfg s -> I_ctx cfg s'.
Proof.
  intros Hs Hi. apply (I_ctx_local cfg (0, 0) s s' Hi (SEq_Touch _ _ _ Hs)).
  destruct Hs. rewrite se_ctxs0, se_expq_h0. intros rc E.
  destruct (I_ctx_get _ _ _ _ Hi E). auto.
Qed.

(* ------------------------------------------------------------------ *)
(* consequences of the invariant for a fresh id and for a due entry *)

Lemma fresh_none cfg s c : Inv cfg s -> ctx_fresh s c ->
  get c (ctxs s) = None /\ get c (expq_h s) = None /\ get c (newq_h s) = None.
Proof.
  intros HI Hf.
  assert (E : get c (ctxs s) = None).
  { destruct (get c (ctxs s)) as [rc|] eqn:E; [|reflexivity].
    exfalso. apply Hf. apply (I_ctx_get _ _ _ _ (inv_ctx _ _ HI) E). }
  destruct (I_sched_loc s c (inv_sched _ _ HI)) as (_ & L2 & _).
  rewrite E in L2. split; [exact E|].
  split.
  - destruct (get c (expq_h s)); [|reflexivity]. exfalso. apply L2; [left; discriminate|reflexivity].
  - destruct (get c (newq_h s)); [|reflexivity]. exfalso. apply L2; [right; discriminate|reflexivity].
Qed.

Lemma Inv_qpairs cfg s : Inv cfg s -> qpair (expq s) (expq_h s) /\ qpair (newq s) (newq_h s).
Proof. intros HI. destruct (inv_sched _ _ HI) as (H1 & H2 & _). split; assumption. Qed.

Lemma due_exp cfg s c : Inv cfg s -> In (height s, c) (expq s) ->
  exists rc, get c (ctxs s) = Some rc /\ get c (expq_h s) = Some (height s)
    /\ get c (newq_h s) = None.
Proof.
  intros HI Hin. destruct (Inv_qpairs _ _ HI) as (Q1 & _). apply Q1 in Hin.
  destruct (I_sched_loc s c (inv_sched _ _ HI)) as (L1 & L2 & _). rewrite Hin in *.
  destruct (get c (ctxs s)) as [rc|]; [|exfalso; apply L2; [left; discriminate|reflexivity]].
  exists rc. repeat split.
  destruct (get c (newq_h s)); [|reflexivity]. exfalso. apply L1; discriminate.
Qed.

Lemma due_new cfg s c : Inv cfg s -> In (height s, c) (newq s) ->
  exists rc, get c (ctxs s) = Some rc /\ get c (newq_h s) = Some (height s)
    /\ get c (expq_h s) = None.
Proof.
  intros HI Hin. destruct (Inv_qpairs _ _ HI) as (_ & Q2). apply Q2 in Hin.
  destruct (I_sched_loc s c (inv_sched _ _ HI)) as (L1 & L2 & _). rewrite Hin in *.
  destruct (get c (ctxs s)) as [rc|]; [|exfalso; apply L2; [right; discriminate|reflexivity]].
  exists rc. repeat split.
  destruct (get c (expq_h s)); [|reflexivity]. exfalso. apply L1; discriminate.
Qed.

Lemma Inv_wf_sched cfg s : Inv cfg s -> wf (ctxs s) /\ wf (expq_h s) /\ wf (newq_h s).
Proof. intros HI. pose proof (inv_wf _ _ HI) as Hw. unfold I_wf in Hw. tauto. Qed.

(* ------------------------------------------------------------------ *)
(* specifications of the context-changing message handlers *)

Lemma is_state_true rc st : is_state rc st = true <-> c_state rc = st.
Proof. unfold is_state. destruct (c_state rc), st; cbn; split; congruence. Qed.

Lemma is_state_false rc st : is_state rc st = false <-> c_state rc <> st.
Proof. unfold is_state. destruct (c_state rc), st; cbn; split; congruence. Qed.

Definition new_ctx (svc : Z) (provs : list Z) (cons input capv timeout : Z) (super rep : bool)
    (freq total thr md : Z) : Ctx :=
  mkCtx svc provs cons input capv timeout super rep
    (if rep then (if freq =? 0 then timeout else freq) else 0) (if rep then total else 0)
    0 0 0 thr true Running thr md.

Definition created (s : State) (c : CtxId) (rc : Ctx) : State :=
  add_newq (emit (EvCtxCreated c) (put_ctx s c rc)) c (height s).

Lemma create_context_spec cfg s c svc provs cons input cap timeout super rep freq total thr md iok s' :
  create_context cfg s c svc provs cons input cap timeout super rep freq total thr md iok = Ok s' ->
  exists capv, 0 < capv /\ timeout <= p_max_timeout cfg
    /\ (md = 0 \/ (md = p_cbmod cfg /\ valid_request provs timeout rep freq total = true))
    /\ s' = created s c (new_ctx svc provs cons input capv timeout super rep freq total thr md).
Proof.
  unfold create_context. intros H. inv_ok H. subst. exists a.
  split; [eapply one_base_coin_pos; eauto|]. split; [b2p; assumption|].
  split; [|reflexivity].
  apply orb_prop in Hc. destruct Hc as [Hc|Hc]; [left; now apply Z.eqb_eq|right].
  b2p. auto.
Qed.

Lemma authorized_spec s c who rc : authorized s c who = Ok rc ->
  get c (ctxs s) = Some rc /\ c_cons rc = who /\ c_mod rc = 0.
Proof. unfold authorized. intros H. inv_ok H. subst. b2p. auto. Qed.

Lemma h_pause_spec s c who ok s' : h_pause s c who ok = Ok s' ->
  exists rc, get c (ctxs s) = Some rc /\ c_cons rc = who /\ c_mod rc = 0
    /\ c_rep rc = true /\ c_state rc = Running /\ s' = put_ctx s c (setc_state rc Paused).
Proof.
  unfold h_pause. intros H. inv_ok H. apply authorized_spec in Ha. destruct Ha as (E & Ew & Em).
  apply is_state_true in Hc1. subst s'. exists a. auto 8.
Qed.

Definition started (s : State) (c : CtxId) (rc : Ctx) : State :=
  let s1 := put_ctx s c (setc_state rc Running) in
  if negb (has c (expq_h s)) && negb (has c (newq_h s)) then add_newq s1 c (height s) else s1.

Lemma h_start_spec s c who ok s' : h_start s c who ok = Ok s' ->
  exists rc, get c (ctxs s) = Some rc /\ c_cons rc = who /\ c_mod rc = 0
    /\ c_state rc = Paused /\ s' = started s c rc.
Proof.
  unfold h_start. intros H. inv_ok H. apply authorized_spec in Ha. destruct Ha as (E & Ew & Em).
  apply is_state_true in Hc0. exists a. repeat split; try assumption.
  unfold started. sproj.
  destruct (negb (has c (expq_h s)) && negb (has c (newq_h s))); inv_ok H; now subst.
Qed.

Lemma h_kill_spec s c who ok s' : h_kill s c who ok = Ok s' ->
  exists rc, get c (ctxs s) = Some rc /\ c_cons rc = who /\ c_mod rc = 0
    /\ c_rep rc = true /\ s' = put_ctx s c (setc_state rc Completed).
Proof.
  unfold h_kill. intros H. inv_ok H. apply authorized_spec in Ha. destruct Ha as (E & Ew & Em).
  subst s'. exists a. auto 8.
Qed.

(* the record written by UpdateRequestContext *)
Definition upd_ctx (rc : Ctx) (provs : list Z) (capo : option Z) (timeout freq total : Z) : Ctx :=
  let rc1 := match capo with Some capv => setc_cap rc capv | None => rc end in
  let t := if timeout =? 0 then c_timeout rc1 else timeout in
  let f := if freq =? 0 then c_freq rc1 else freq in
  let rc2 := match provs with [] => rc1 | _ => setc_provs rc1 provs end in
  let rc3 := if 0 <? t then setc_timeout rc2 t else rc2 in
  let rc4 := if 0 <? f then setc_freq rc3 f else rc3 in
  if total =? 0 then rc4 else setc_total rc4 total.

Lemma h_update_ctx_spec cfg s c who provs cap timeout freq total ok s' :
  h_update_ctx cfg s c who provs cap timeout freq total ok = Ok s' ->
  exists rc capo, get c (ctxs s) = Some rc /\ c_cons rc = who /\ c_mod rc = 0
    /\ c_state rc <> Completed
    /\ (capo = None \/ exists capv, capo = Some capv /\ 0 < capv)
    /\ 0 <= timeout <= p_max_timeout cfg /\ -1 <= total
    /\ (if timeout =? 0 then c_timeout rc else timeout) <= (if freq =? 0 then c_freq rc else freq)
    /\ ~ (1 <= total < c_counter rc)
    /\ s' = put_ctx s c (upd_ctx rc provs capo timeout freq total).
Proof.
  unfold h_update_ctx, update_ctx_tail. intros H. inv_ok H. apply authorized_spec in Ha. destruct Ha as (E & Ew & Em).
  rename a into rc, a0 into rc1.
  apply negb_true_iff, is_state_false in Hc1.
  unfold valid_update in Hc0.
  assert (Hcap : exists capo, (capo = None \/ exists capv, capo = Some capv /\ 0 < capv)
             /\ rc1 = match capo with Some capv => setc_cap rc capv | None => rc end).
  { destruct (coins_empty cap); inv_ok Ha0.
    - exists None. split; [now left|now subst].
    - exists (Some a). split; [right; exists a; split; [reflexivity|eapply one_base_coin_pos; eauto]|now subst]. }
  destruct Hcap as (capo & Hcapo & Erc1).
  assert (Et : c_timeout rc1 = c_timeout rc) by (subst rc1; destruct capo; reflexivity).
  assert (Ef : c_freq rc1 = c_freq rc) by (subst rc1; destruct capo; reflexivity).
  assert (En : c_counter rc1 = c_counter rc) by (subst rc1; destruct capo; reflexivity).
  exists rc, capo. b2p.
  split; [assumption|]. split; [assumption|]. split; [assumption|]. split; [assumption|].
  split; [assumption|]. split; [lia|]. split; [lia|].
  split; [rewrite <- Et, <- Ef; lia|].
  split.
  { rewrite <- En. intros [Hx Hy].
    match goal with Hz : (_ && _) = false |- _ => apply andb_false_iff in Hz; destruct Hz; b2p; lia end. }
  subst s'. unfold upd_ctx. rewrite <- Erc1. reflexivity.
Qed.

Lemma upd_ctx_fixed rc provs capo timeout freq total :
  let rc' := upd_ctx rc provs capo timeout freq total in
  c_svc rc' = c_svc rc /\ c_cons rc' = c_cons rc /\ c_input rc' = c_input rc
  /\ c_super rc' = c_super rc /\ c_rep rc' = c_rep rc /\ c_counter rc' = c_counter rc
  /\ c_breq rc' = c_breq rc /\ c_bresp rc' = c_bresp rc /\ c_bthr rc' = c_bthr rc
  /\ c_bdone rc' = c_bdone rc /\ c_state rc' = c_state rc /\ c_thr rc' = c_thr rc
  /\ c_mod rc' = c_mod rc.
Proof.
  unfold upd_ctx. destruct capo, provs, (total =? 0);
  repeat match goal with |- context [if ?b then _ else _] => destruct b end; cbn; auto 20.
Qed.

Lemma upd_ctx_terms rc provs capo timeout freq total :
  let rc' := upd_ctx rc provs capo timeout freq total in
  let t := if timeout =? 0 then c_timeout rc else timeout in
  let f := if freq =? 0 then c_freq rc else freq in
  c_timeout rc' = (if 0 <? t then t else c_timeout rc)
  /\ c_freq rc' = (if 0 <? f then f else c_freq rc)
  /\ c_total rc' = (if total =? 0 then c_total rc else total)
  /\ c_cap rc' = (match capo with Some v => v | None => c_cap rc end).
Proof.
  unfold upd_ctx. destruct capo, provs; cbn [setc_cap c_timeout c_freq]; destruct (total =? 0);
  repeat match goal with |- context [if ?b then _ else _] => destruct b end; cbn; auto.
Qed.

(* ------------------------------------------------------------------ *)
(* the keeper API as driven by the module that owns the context *)

Lemma authorized_mod_spec s c who rc : authorized_mod s c who = Ok rc ->
  get c (ctxs s) = Some rc /\ c_cons rc = who.
Proof. unfold authorized_mod. intros H. inv_ok H. subst. b2p. auto. Qed.

Lemma h_mod_pause_spec s c who s' : h_mod_pause s c who = Ok s' ->
  exists rc, get c (ctxs s) = Some rc /\ c_cons rc = who
    /\ c_rep rc = true /\ c_state rc = Running /\ s' = put_ctx s c (setc_state rc Paused).
Proof.
  unfold h_mod_pause. intros H. inv_ok H. apply authorized_mod_spec in Ha. destruct Ha as (E & Ew).
  apply is_state_true in Hc0. subst s'. exists a. auto 8.
Qed.

Lemma h_mod_start_spec s c who s' : h_mod_start s c who = Ok s' ->
  exists rc, get c (ctxs s) = Some rc /\ c_cons rc = who
    /\ c_state rc = Paused /\ s' = started s c rc.
Proof.
  unfold h_mod_start. intros H. inv_ok H. apply authorized_mod_spec in Ha. destruct Ha as (E & Ew).
  apply is_state_true in Hc. exists a. repeat split; try assumption.
  unfold started. sproj.
  destruct (negb (has c (expq_h s)) && negb (has c (newq_h s))); inv_ok H; now subst.
Qed.

Lemma h_mod_kill_spec s c who s' : h_mod_kill s c who = Ok s' ->
  exists rc, get c (ctxs s) = Some rc /\ c_cons rc = who
    /\ c_rep rc = true /\ s' = put_ctx s c (setc_state rc Completed).
Proof.
  unfold h_mod_kill. intros H. inv_ok H. apply authorized_mod_spec in Ha. destruct Ha as (E & Ew).
  subst s'. exists a. auto 8.
Qed.

(* the response threshold written by the module's update: positive values replace it *)
Definition with_thr (rc : Ctx) (t : Z) : Ctx := if 0 <? t then setc_thr rc t else rc.

Lemma with_thr_fixed rc t :
  let rc' := with_thr rc t in
  c_svc rc' = c_svc rc /\ c_provs rc' = c_provs rc /\ c_cons rc' = c_cons rc /\ c_input rc' = c_input rc
  /\ c_cap rc' = c_cap rc /\ c_timeout rc' = c_timeout rc
  /\ c_super rc' = c_super rc /\ c_rep rc' = c_rep rc /\ c_freq rc' = c_freq rc /\ c_total rc' = c_total rc
  /\ c_counter rc' = c_counter rc
  /\ c_breq rc' = c_breq rc /\ c_bresp rc' = c_bresp rc /\ c_bthr rc' = c_bthr rc
  /\ c_bdone rc' = c_bdone rc /\ c_state rc' = c_state rc /\ c_mod rc' = c_mod rc.
Proof. unfold with_thr. destruct (0 <? t); cbn; auto 20. Qed.

Lemma with_thr_thr rc t : c_thr (with_thr rc t) = if 0 <? t then t else c_thr rc.
Proof. unfold with_thr. destruct (0 <? t); reflexivity. Qed.

Lemma update_ctx_tail_spec cfg s c rc provs cap timeout freq total s' :
  update_ctx_tail cfg s c rc provs cap timeout freq total = Ok s' ->
  exists capo, (capo = None \/ exists capv, capo = Some capv /\ 0 < capv)
    /\ timeout <= p_max_timeout cfg
    /\ (if timeout =? 0 then c_timeout rc else timeout) <= (if freq =? 0 then c_freq rc else freq)
    /\ ~ (1 <= total < c_counter rc)
    /\ s' = put_ctx s c (upd_ctx rc provs capo timeout freq total).
Proof.
  unfold update_ctx_tail. intros H. inv_ok H. rename a into rc1.
  assert (Hcap : exists capo, (capo = None \/ exists capv, capo = Some capv /\ 0 < capv)
             /\ rc1 = match capo with Some capv => setc_cap rc capv | None => rc end).
  { destruct (coins_empty cap); inv_ok Ha.
    - exists None. split; [now left|now subst].
    - exists (Some a). split; [right; exists a; split; [reflexivity|eapply one_base_coin_pos; eauto]|now subst]. }
  destruct Hcap as (capo & Hcapo & Erc1).
  assert (Et : c_timeout rc1 = c_timeout rc) by (subst rc1; destruct capo; reflexivity).
  assert (Ef : c_freq rc1 = c_freq rc) by (subst rc1; destruct capo; reflexivity).
  assert (En : c_counter rc1 = c_counter rc) by (subst rc1; destruct capo; reflexivity).
  exists capo. b2p.
  split; [assumption|]. split; [lia|].
  split; [rewrite <- Et, <- Ef; lia|].
  split.
  { rewrite <- En. intros [Hx Hy].
    match goal with Hz : (_ && _) = false |- _ => apply andb_false_iff in Hz; destruct Hz; b2p; lia end. }
  subst s'. unfold upd_ctx. rewrite <- Erc1. reflexivity.
Qed.

(* without any assumption on the caller: the record written is an update of the stored one,
   possibly with another threshold *)
Lemma h_mod_update_gen cfg s c who provs thr cap timeout freq total s' :
  h_mod_update cfg s c who provs thr cap timeout freq total = Ok s' ->
  exists rc t capo, get c (ctxs s) = Some rc /\ c_cons rc = who /\ c_state rc <> Completed
    /\ s' = put_ctx s c (upd_ctx (with_thr rc t) provs capo timeout freq total).
Proof.
  unfold h_mod_update. intros H. inv_ok H. apply authorized_mod_spec in Ha. destruct Ha as (E & Ew).
  rename a into rc, a0 into rc0.
  apply negb_true_iff, is_state_false in Hc.
  apply update_ctx_tail_spec in H. destruct H as (capo & _ & _ & _ & _ & ->).
  assert (Ht : exists t, rc0 = with_thr rc t).
  { destruct (c_mod rc =? 0).
    - inv_ok Ha0. exists 0. now subst.
    - inv_ok Ha0. unfold thr_update in Ha0. inv_ok Ha0. eexists. unfold with_thr. now subst. }
  destruct Ht as (t & ->). exists rc, t, capo. auto.
Qed.

(* called by the owning module (wf_op): everything UpdateRequestContext checks and writes *)
Lemma h_mod_update_spec cfg s c who provs thr cap timeout freq total s' :
  h_mod_update cfg s c who provs thr cap timeout freq total = Ok s' ->
  (forall rc, get c (ctxs s) = Some rc -> c_mod rc <> 0) ->
  exists rc capo, get c (ctxs s) = Some rc /\ c_cons rc = who /\ c_mod rc <> 0
    /\ c_state rc <> Completed
    /\ (capo = None \/ exists capv, capo = Some capv /\ 0 < capv)
    /\ 0 <= timeout <= p_max_timeout cfg /\ -1 <= total
    /\ (if timeout =? 0 then c_timeout rc else timeout) <= (if freq =? 0 then c_freq rc else freq)
    /\ ~ (1 <= total < c_counter rc)
    /\ (if thr =? 0 then c_thr rc else thr)
        <= len (match provs with [] => c_provs rc | _ => provs end)
    /\ s' = put_ctx s c (upd_ctx (with_thr rc (if thr =? 0 then c_thr rc else thr))
                           provs capo timeout freq total).
Proof.
  unfold h_mod_update. intros H Hown. inv_ok H. apply authorized_mod_spec in Ha. destruct Ha as (E & Ew).
  rename a into rc, a0 into rc0.
  apply negb_true_iff, is_state_false in Hc.
  specialize (Hown rc E). destruct (c_mod rc =? 0) eqn:Em; [b2p; contradiction|].
  inv_ok Ha0. unfold thr_update in Ha0. inv_ok Ha0.
  assert (Erc0 : rc0 = with_thr rc (if thr =? 0 then c_thr rc else thr)) by (unfold with_thr; now subst).
  clear Ha0. subst rc0.
  apply update_ctx_tail_spec in H. destruct H as (capo & Hcapo & Hmax & Htf & Htot & ->).
  destruct (with_thr_fixed rc (if thr =? 0 then c_thr rc else thr))
    as (_ & _ & _ & _ & _ & Et & _ & _ & Ef & _ & En & _).
  rewrite Et, Ef, En in *.
  unfold valid_update in Hc0. exists rc, capo. b2p.
  split; [assumption|]. split; [assumption|]. split; [assumption|]. split; [assumption|].
  split; [assumption|]. split; [lia|]. split; [lia|].
  split; [assumption|]. split; [assumption|]. split; [assumption|reflexivity].
Qed.

(* the fields an update by the owning module leaves alone, and the terms it writes *)
Lemma upd_thr_fixed rc t provs capo timeout freq total :
  let rc' := upd_ctx (with_thr rc t) provs capo timeout freq total in
  c_svc rc' = c_svc rc /\ c_cons rc' = c_cons rc /\ c_input rc' = c_input rc
  /\ c_super rc' = c_super rc /\ c_rep rc' = c_rep rc /\ c_counter rc' = c_counter rc
  /\ c_breq rc' = c_breq rc /\ c_bresp rc' = c_bresp rc /\ c_bthr rc' = c_bthr rc
  /\ c_bdone rc' = c_bdone rc /\ c_state rc' = c_state rc
  /\ c_thr rc' = (if 0 <? t then t else c_thr rc)
  /\ c_mod rc' = c_mod rc.
Proof.
  intros rc'. subst rc'.
  pose proof (upd_ctx_fixed (with_thr rc t) provs capo timeout freq total) as H. cbv zeta in H.
  destruct H as (H1 & H2 & H3 & H4 & H5 & H6 & H7 & H8 & H9 & H10 & H11 & H12 & H13).
  destruct (with_thr_fixed rc t) as (F1 & F2 & F3 & F4 & F5 & F6 & F7 & F8 & F9 & F10 & F11 & F12 & F13 & F14 & F15 & F16 & F17).
  rewrite H1, H2, H3, H4, H5, H6, H7, H8, H9, H10, H11, H12, H13, with_thr_thr.
  rewrite F1, F3, F4, F7, F8, F11, F12, F13, F14, F15, F16, F17. auto 20.
Qed.

Lemma upd_thr_terms rc t0 provs capo timeout freq total :
  let rc' := upd_ctx (with_thr rc t0) provs capo timeout freq total in
  let t := if timeout =? 0 then c_timeout rc else timeout in
  let f := if freq =? 0 then c_freq rc else freq in
  c_timeout rc' = (if 0 <? t then t else c_timeout rc)
  /\ c_freq rc' = (if 0 <? f then f else c_freq rc)
  /\ c_total rc' = (if total =? 0 then c_total rc else total)
  /\ c_cap rc' = (match capo with Some v => v | None => c_cap rc end).
Proof.
  intros rc' t f. subst rc' t f.
  pose proof (upd_ctx_terms (with_thr rc t0) provs capo timeout freq total) as H. cbv zeta in H.
  destruct (with_thr_fixed rc t0) as (F1 & F2 & F3 & F4 & F5 & F6 & F7 & F8 & F9 & F10 & _).
  rewrite F5, F6, F9, F10 in H. exact H.
Qed.

(* the four keeper-API ops; the shape of what any of them writes (for frame proofs) *)
Definition mod_op (o : Op) : bool :=
  match o with
  | OModUpdate _ _ _ _ _ _ _ _ | OModPause _ _ | OModStart _ _ | OModKill _ _ => true
  | _ => false
  end.

Lemma mod_op_shape cfg s o s' : mod_op o = true -> handle cfg s o = Ok s' ->
  exists c rc', s' = put_ctx s c rc' \/ s' = add_newq (put_ctx s c rc') c (height s).
Proof.
  intros Hm H. destruct o; try discriminate; cbn [handle] in H.
  - apply h_mod_update_gen in H. destruct H as (rc & t & capo & _ & _ & _ & ->). eauto.
  - apply h_mod_pause_spec in H. destruct H as (rc & _ & _ & _ & _ & ->). eauto.
  - apply h_mod_start_spec in H. destruct H as (rc & _ & _ & _ & ->). unfold started.
    destruct (negb (has c (expq_h s)) && negb (has c (newq_h s))); eauto.
  - apply h_mod_kill_spec in H. destruct H as (rc & _ & _ & _ & ->). eauto.
Qed.

Definition put_shape (s s' : State) : Prop :=
  exists c rc', s' = put_ctx s c rc' \/ s' = add_newq (put_ctx s c rc') c (height s).

Lemma h_mod_update_shape cfg s c who provs thr cap timeout freq total s' :
  h_mod_update cfg s c who provs thr cap timeout freq total = Ok s' -> put_shape s s'.
Proof. apply (mod_op_shape cfg s (OModUpdate c who provs thr cap timeout freq total) s' eq_refl). Qed.
Lemma h_mod_pause_shape s c who s' : h_mod_pause s c who = Ok s' -> put_shape s s'.
Proof. apply (mod_op_shape (mkParams 0 0 0 0 0 0 0 0 0) s (OModPause c who) s' eq_refl). Qed.
Lemma h_mod_start_shape s c who s' : h_mod_start s c who = Ok s' -> put_shape s s'.
Proof. apply (mod_op_shape (mkParams 0 0 0 0 0 0 0 0 0) s (OModStart c who) s' eq_refl). Qed.
Lemma h_mod_kill_shape s c who s' : h_mod_kill s c who = Ok s' -> put_shape s s'.
Proof. apply (mod_op_shape (mkParams 0 0 0 0 0 0 0 0 0) s (OModKill c who) s' eq_refl). Qed.

(* H : h_mod_* ... = Ok s'  (after cbn [handle]); leaves two goals with s' replaced *)
Ltac mod_shape H :=
  let c' := fresh "c'" in let rc' := fresh "rc'" in
  first
  [ apply h_mod_update_shape in H | apply h_mod_pause_shape in H
  | apply h_mod_start_shape in H | apply h_mod_kill_shape in H ];
  destruct H as (c' & rc' & [H | H]); subst.

Lemma respond_spec cfg s r who code out ov ok s' :
  h_respond cfg s r who code out ov ok = Ok s' ->
  exists q rc sm rc', get r (reqs s) = Some q /\ get (rid_ctx r) (ctxs s) = Some rc
    /\ SEq s sm /\ s' = put_ctx sm (rid_ctx r) rc'
    /\ (rc' = setc_bresp rc (c_bresp rc + 1)
        \/ rc' = setc_bdone (setc_bresp rc (c_bresp rc + 1)) true).
Proof.
  intros H. apply respond_inv in H.
  destruct H as (q & rc0 & s1 & rc & _ & Hq & Hrc0 & _ & _ & Hset & Hrc & ->).
  assert (Hs1 : SEq s s1).
  { destruct Hset as [[_ (sa & Es & Er)]|[_ Ea]].
    - eapply SEq_trans; [eapply SEq_slash; eauto|eapply SEq_refund_fee; eauto].
    - eapply SEq_add_earned; eauto. }
  assert (Hmid : SEq s (resp_mid s1 r who rc0 code out)).
  { unfold resp_mid. eapply SEq_trans; [exact Hs1|].
    eapply SEq_trans; [|apply SEq_emit].
    assert (Hd : SEq s1 (deactivate (set_resps s1 (set r (mkResp who (c_cons rc0) code out) (resps s1))) r)).
    { eapply SEq_trans; [|apply SEq_deactivate]. seq_auto. }
    seq_step. }
  rewrite (se_ctxs _ _ Hmid) in Hrc. assert (rc = rc0) by congruence. subst rc0.
  exists q, rc. unfold resp_finish.
  destruct (c_bresp (setc_bresp rc (c_bresp rc + 1)) =? c_breq (setc_bresp rc (c_bresp rc + 1))).
  - eexists _, _. split; [exact Hq|]. split; [exact Hrc0|].
    split; [|split; [reflexivity|right; reflexivity]].
    eapply SEq_trans; [exact Hmid|apply SEq_complete_batch].
  - eexists _, _. split; [exact Hq|]. split; [exact Hrc0|].
    split; [exact Hmid|]. split; [reflexivity|left; reflexivity].
Qed.

(* ------------------------------------------------------------------ *)
(* expire_one *)

Definition more (rc : Ctx) : bool :=
  c_rep rc && ((c_total rc <? 0) || (c_counter rc <? c_total rc)).

Definition expire_tail (s1 : State) (c : CtxId) (H : Z) (rc1 : Ctx) : State :=
  let s2 := put_ctx (del_expq s1 c H) c rc1 in
  match c_state rc1 with
  | Completed => del_ctx s2 c
  | Running =>
      if more rc1 then add_newq s2 c (wrap_i64 (H - c_timeout rc1 + to_i64 (c_freq rc1)))
      else del_ctx s2 c
  | Paused => s2
  end.

Lemma expire_one_unfold cfg s c :
  exists s1 rc1, SEq s s1
    /\ (rc1 = ctx_or_zero s c
        \/ (c_bdone (ctx_or_zero s c) = false /\ rc1 = setc_bdone (ctx_or_zero s c) true))
    /\ expire_one cfg s c = clean_batch (expire_tail s1 c (height s) rc1) c (c_counter rc1).
Proof.
  unfold expire_one. set (rc := ctx_or_zero s c).
  destruct (c_bdone rc) eqn:Eb.
  - exists s, rc. split; [apply SEq_refl|]. split; [now left|reflexivity].
  - exists (fst (complete_batch (fold_left (expire_req cfg) (active_rids s c (c_counter rc)) s) c rc)),
           (setc_bdone rc true).
    split; [|split; [right; split; reflexivity|reflexivity]].
    eapply SEq_trans; [|apply SEq_complete_batch]. apply SEq_fold. intros; apply SEq_expire_req.
Qed.

Lemma expire_tail_view s1 c H rc1 :
  wf (ctxs s1) -> wf (expq_h s1) -> qpair (expq s1) (expq_h s1) -> qpair (newq s1) (newq_h s1) ->
  In (H, c) (expq s1) -> get c (newq_h s1) = None ->
  let T := expire_tail s1 c H rc1 in
  Touch c s1 T /\ qpair (expq T) (expq_h T) /\ qpair (newq T) (newq_h T)
  /\ get c (expq_h T) = None
  /\ (   (get c (ctxs T) = None /\ get c (newq_h T) = None
          /\ (c_state rc1 = Completed \/ (c_state rc1 = Running /\ more rc1 = false)))
      \/ (get c (ctxs T) = Some rc1
          /\ get c (newq_h T) = Some (wrap_i64 (H - c_timeout rc1 + to_i64 (c_freq rc1)))
          /\ c_state rc1 = Running /\ more rc1 = true)
      \/ (get c (ctxs T) = Some rc1 /\ get c (newq_h T) = None /\ c_state rc1 = Paused)).
Proof.
  intros Wc We Q1 Q2 Hin Hn T. subst T. unfold expire_tail.
  assert (Q1' : qpair (lrem (H, c) (expq s1)) (del c (expq_h s1))) by (apply qpair_del; assumption).
  assert (Ed : get c (del c (expq_h s1)) = None) by (apply get_del_eq; assumption).
  assert (Edc : get c (del c (set c rc1 (ctxs s1))) = None) by (apply get_del_eq, wf_set; assumption).
  destruct (c_state rc1) eqn:Es; [destruct (more rc1) eqn:Em| |].
  - split; [touch_auto|]. sproj. split; [exact Q1'|]. split; [apply qpair_add; assumption|].
    split; [exact Ed|]. right; left. rewrite !get_set_eq. auto.
  - split; [touch_auto|]. sproj. split; [exact Q1'|]. split; [exact Q2|].
    split; [exact Ed|]. left. auto.
  - split; [touch_auto|]. sproj. split; [exact Q1'|]. split; [exact Q2|].
    split; [exact Ed|]. right; right. rewrite get_set_eq. auto.
  - split; [touch_auto|]. sproj. split; [exact Q1'|]. split; [exact Q2|].
    split; [exact Ed|]. left. auto.
Qed.

Lemma expire_one_spec cfg s c :
  wf_cfg cfg -> Inv cfg s -> In (height s, c) (expq s) -> height s < HEIGHT_BOUND ->
  let s' := expire_one cfg s c in
  exists rc rc1,
    get c (ctxs s) = Some rc /\ get c (expq_h s) = Some (height s) /\ get c (newq_h s) = None
    /\ (rc1 = rc \/ (c_bdone rc = false /\ rc1 = setc_bdone rc true))
    /\ Touch c s s'
    /\ qpair (expq s') (expq_h s') /\ qpair (newq s') (newq_h s')
    /\ get c (expq_h s') = None
    /\ (   (get c (ctxs s') = None /\ get c (newq_h s') = None
            /\ (c_state rc = Completed \/ (c_state rc = Running /\ more rc = false)))
        \/ (get c (ctxs s') = Some rc1
            /\ get c (newq_h s') = Some (height s - c_timeout rc + c_freq rc)
            /\ c_state rc = Running /\ more rc = true)
        \/ (get c (ctxs s') = Some rc1 /\ get c (newq_h s') = None /\ c_state rc = Paused)).
Proof.
  intros Hcfg HI Hdue Hb s'. subst s'.
  destruct (due_exp _ _ _ HI Hdue) as (rc & Erc & Ee & En).
  destruct (Inv_wf_sched _ _ HI) as (Wc & We & Wn).
  destruct (Inv_qpairs _ _ HI) as (Q1 & Q2).
  destruct (I_ctx_get _ _ _ _ (inv_ctx _ _ HI) Erc) as (Hok & _).
  pose proof (inv_time _ _ HI) as [Hh _].
  destruct (expire_one_unfold cfg s c) as (s1 & rc1 & Hs1 & Hrc1 & ->).
  assert (Ez : ctx_or_zero s c = rc) by (unfold ctx_or_zero; now rewrite Erc).
  rewrite Ez in Hrc1.
  assert (Hsame : c_state rc1 = c_state rc /\ more rc1 = more rc /\ c_timeout rc1 = c_timeout rc
                  /\ c_freq rc1 = c_freq rc /\ c_rep rc1 = c_rep rc).
  { destruct Hrc1 as [->|[_ ->]]; repeat split; reflexivity. }
  destruct Hsame as (Est & Emo & Eti & Efr & Ere).
  exists rc, rc1. split; [exact Erc|]. split; [exact Ee|]. split; [exact En|]. split; [exact Hrc1|].
  pose proof (SEq_clean_batch (expire_tail s1 c (height s) rc1) c (c_counter rc1)) as Hcl.
  pose proof (SEq_Touch c _ _ Hs1) as Ht1.
  pose proof Hs1 as Hs1'.
  destruct Hs1' as [Eh1 Et1 Ec1 Eq1 Eqh1 En1 Enh1 El1].
  destruct (expire_tail_view s1 c (height s) rc1) as (HtT & Q1T & Q2T & EeT & Hcase);
    try (rewrite ?Ec1, ?Eq1, ?Eqh1, ?En1, ?Enh1; assumption).
  set (T := expire_tail s1 c (height s) rc1) in *.
  split; [eapply Touch_trans; [exact Ht1|]; eapply Touch_trans; [exact HtT|apply SEq_Touch, Hcl]|].
  destruct Hcl as [EhT EtT EcT EqT EqhT EnT EnhT ElT].
  rewrite EcT, EqT, EqhT, EnT, EnhT. rewrite <- Est, <- Emo.
  split; [exact Q1T|]. split; [exact Q2T|]. split; [exact EeT|].
  destruct Hcase as [Hc|[Hc|Hc]]; [left; exact Hc| |right; right; exact Hc].
  right; left. destruct Hc as (A & B & C & D). split; [exact A|]. split; [|auto].
  rewrite B, Eti, Efr. f_equal.
  unfold ctx_ok in Hok. rewrite Emo in D. unfold more in D.
  apply andb_prop in D. destruct D as [Dr _].
  apply next_batch_height; try lia. apply Hok; exact Dr.
Qed.

(* ------------------------------------------------------------------ *)
(* new_one *)

Definition d5 (rc : Ctx) : bool :=
  is_state rc Running && c_rep rc && (0 <? c_total rc) && (c_total rc <=? c_counter rc).

Definition bump (rc : Ctx) (n : Z) : Ctx :=
  setc_bthr (setc_breq (setc_bresp (setc_bdone
    (setc_counter rc (c_counter rc + 1)) false) 0) n) (c_thr rc).

Definition paused_ctx (rc : Ctx) : Ctx := setc_state (setc_bdone rc true) Paused.

Lemma new_one_unfold cfg s c rc : get c (ctxs s) = Some rc ->
  (d5 rc = true /\ new_one cfg s c = del_newq (del_ctx s c) c (height s))
  \/ (d5 rc = false /\ c_state rc = Running /\ exists sm n, SEq s sm
      /\ new_one cfg s c =
         del_newq (add_expq (emit (EvBatchStart c (c_counter rc + 1) (height s) n)
                               (put_ctx sm c (bump rc n))) c (height s + c_timeout rc)) c (height s))
  \/ (d5 rc = false /\ c_state rc = Running /\ exists sm, SEq s sm
      /\ new_one cfg s c = del_newq (put_ctx sm c (paused_ctx rc)) c (height s))
  \/ (c_state rc <> Running /\ new_one cfg s c = del_newq s c (height s)).
Proof.
  intros Erc. unfold new_one.
  assert (Ez : ctx_or_zero s c = rc) by (unfold ctx_or_zero; now rewrite Erc). rewrite Ez.
  change (is_state rc Running && c_rep rc && (0 <? c_total rc) && (c_total rc <=? c_counter rc))
    with (d5 rc).
  destruct (d5 rc) eqn:Hd; [left; auto|right].
  destruct (is_state rc Running) eqn:Hr.
  2:{ right; right. apply is_state_false in Hr. auto. }
  apply is_state_true in Hr.
  set (el := filter_providers s rc (c_provs rc)).
  destruct ((0 <? len el) && (c_thr rc <=? len el)).
  - destruct (c_super rc).
    + left. split; [reflexivity|]. split; [exact Hr|].
      unfold initiate_requests. rewrite Ez.
      exists (issue_all s c rc (c_counter rc + 1) 0 (map fst el)), (len (map fst el)).
      split; [apply SEq_issue_all|reflexivity].
    + destruct (transfer (User (c_cons rc)) Escrow (sum_prices el) s) as [x|] eqn:Et.
      * left. split; [reflexivity|]. split; [exact Hr|].
        pose proof (SEq_transfer _ _ _ _ _ Et) as Hx.
        set (sp := emit (EvDebit c (c_cons rc) (sum_prices el)) x).
        assert (Hsp : SEq s sp) by (subst sp; seq_step).
        assert (Ez' : ctx_or_zero sp c = rc) by (unfold ctx_or_zero; now rewrite (se_ctxs _ _ Hsp), Erc).
        unfold initiate_requests. rewrite Ez', (se_height _ _ Hsp).
        exists (issue_all sp c rc (c_counter rc + 1) 0 (map fst el)), (len (map fst el)).
        split; [eapply SEq_trans; [exact Hsp|apply SEq_issue_all]|reflexivity].
      * right; left. split; [reflexivity|]. split; [exact Hr|].
        unfold on_paused. destruct (c_mod rc =? 0).
        -- exists s. split; [apply SEq_refl|reflexivity].
        -- exists (emit (EvCbState c) s). split; [apply SEq_emit|reflexivity].
  - left. split; [reflexivity|]. split; [exact Hr|].
    exists s, 0. split; [apply SEq_refl|reflexivity].
Qed.

Lemma new_one_spec cfg s c :
  Inv cfg s -> In (height s, c) (newq s) ->
  let s' := new_one cfg s c in
  exists rc, get c (ctxs s) = Some rc /\ get c (newq_h s) = Some (height s)
    /\ get c (expq_h s) = None
    /\ Touch c s s' /\ qpair (expq s') (expq_h s') /\ qpair (newq s') (newq_h s')
    /\ get c (newq_h s') = None
    /\ (   (d5 rc = true /\ get c (ctxs s') = None /\ get c (expq_h s') = None)
        \/ (d5 rc = false /\ c_state rc = Running
            /\ get c (expq_h s') = Some (height s + c_timeout rc)
            /\ exists n, get c (ctxs s') = Some (bump rc n))
        \/ (d5 rc = false /\ c_state rc = Running /\ get c (expq_h s') = None
            /\ get c (ctxs s') = Some (paused_ctx rc))
        \/ (c_state rc <> Running /\ get c (expq_h s') = None /\ get c (ctxs s') = Some rc)).
Proof.
  intros HI Hdue s'. subst s'.
  destruct (due_new _ _ _ HI Hdue) as (rc & Erc & En & Ee).
  destruct (Inv_wf_sched _ _ HI) as (Wc & We & Wn).
  destruct (Inv_qpairs _ _ HI) as (Q1 & Q2).
  assert (Q2' : qpair (lrem (height s, c) (newq s)) (del c (newq_h s))) by (apply qpair_del; assumption).
  assert (Ed : get c (del c (newq_h s)) = None) by (apply get_del_eq; assumption).
  exists rc. split; [exact Erc|]. split; [exact En|]. split; [exact Ee|].
  destruct (new_one_unfold cfg s c rc Erc)
    as [(Hd & ->)|[(Hd & Hr & sm & n & Hsm & ->)|[(Hd & Hr & sm & Hsm & ->)|(Hr & ->)]]].
  - split; [touch_auto|]. sproj. split; [exact Q1|]. split; [exact Q2'|]. split; [exact Ed|].
    left. split; [exact Hd|]. split; [apply get_del_eq; assumption|exact Ee].
  - split; [eapply Touch_trans; [apply SEq_Touch, Hsm|touch_auto]|].
    sproj. destruct Hsm as [Eh1 Et1 Ec1 Eq1 Eqh1 En1 Enh1 El1]. rewrite Ec1, Eq1, Eqh1, En1, Enh1.
    split; [apply qpair_add; assumption|]. split; [exact Q2'|]. split; [exact Ed|].
    right; left. split; [exact Hd|]. split; [exact Hr|]. split; [apply get_set_eq|].
    exists n. apply get_set_eq.
  - split; [eapply Touch_trans; [apply SEq_Touch, Hsm|touch_auto]|].
    sproj. destruct Hsm as [Eh1 Et1 Ec1 Eq1 Eqh1 En1 Enh1 El1]. rewrite Ec1, Eq1, Eqh1, En1, Enh1.
    split; [exact Q1|]. split; [exact Q2'|]. split; [exact Ed|].
    right; right; left. split; [exact Hd|]. split; [exact Hr|]. split; [exact Ee|apply get_set_eq].
  - split; [touch_auto|]. sproj. split; [exact Q1|]. split; [exact Q2'|]. split; [exact Ed|].
    right; right; right. auto.
Qed.
