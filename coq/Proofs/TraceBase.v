(* Support for the properties proved on top of `Reach_Inv` (C10, C12, C16):
   - an induction principle over reachable states that hands the full invariant
     `Inv` of the pre-state to every case and splits EndBlock into its per-context
     handlers (`Reach_ind_inv`): an extra invariant P (possibly over the log) is
     proved by giving one lemma per message / expire_one / new_one / tick;
   - sums over maps that agree pointwise (`msum_pointwise`);
   - counting events in the log. *)
From Coq Require Import List ZArith Bool Lia Permutation.
From SVC Require Import Base.AMap Base.Res Base.Dec Model.Types Model.Pricing
  Model.Handlers Model.EndBlock Model.Step Proofs.Inv Proofs.Lemmas Proofs.CtxOps
  Proofs.InvSched Proofs.InvAll.
Import ListNotations.
Open Scope Z_scope.

(* ------------------------------------------------------------------ *)
(* sums *)

Lemma msum_pointwise {K V} `{EqDec K} (f : K -> V -> Z) (m m' : amap K V) :
  wf m -> wf m' -> (forall k, fget f k m = fget f k m') -> msum f m = msum f m'.
Proof.
  revert m'. induction m as [|[k0 v0] t IH]; intros m' Hw Hw' Hp.
  - cbn [msum]. symmetry. apply msum_zero. intros k v Hin.
    apply In_get in Hin; [|assumption]. specialize (Hp k). unfold fget in Hp.
    rewrite Hin in Hp. cbn [get] in Hp. congruence.
  - cbn [msum]. unfold wf, keys in Hw. cbn [map fst] in Hw.
    inversion Hw as [|? ? Hni Hw0]; subst.
    assert (E0 : msum f m' = msum f (del k0 m') + fget f k0 m') by (rewrite msum_del; lia).
    rewrite E0. rewrite <- (Hp k0). unfold fget. cbn [get]. rewrite eqb_refl.
    rewrite (IH (del k0 m')); [lia|exact Hw0|now apply wf_del|].
    intros k. unfold fget. rewrite get_del by assumption.
    destruct (eqb_spec k k0) as [->|Hn].
    + assert (G : get k0 t = None) by (apply get_None_notin; exact Hni). now rewrite G.
    + specialize (Hp k). unfold fget in Hp. cbn [get] in Hp.
      destruct (eqb_spec k k0); [contradiction|]. exact Hp.
Qed.

(* a summand that only looks at the key *)
Lemma msum_set_keyonly {K V} `{EqDec K} (g : K -> Z) (k : K) (v : V) (m : amap K V) :
  msum (fun k _ => g k) (set k v m) = msum (fun k _ => g k) m + (if has k m then 0 else g k).
Proof.
  rewrite msum_set. unfold fget, has. destruct (get k m); lia.
Qed.

(* ------------------------------------------------------------------ *)
(* counting *)

Definition count {A} (f : A -> bool) (l : list A) : Z := len (filter f l).

Lemma count_nil {A} (f : A -> bool) : count f [] = 0.
Proof. reflexivity. Qed.

Lemma count_cons {A} (f : A -> bool) a l : count f (a :: l) = (if f a then 1 else 0) + count f l.
Proof.
  unfold count, len. cbn [filter]. destruct (f a); [|lia].
  cbn [length]. lia.
Qed.

Lemma count_app {A} (f : A -> bool) l1 l2 : count f (l1 ++ l2) = count f l1 + count f l2.
Proof. unfold count, len. rewrite filter_app, app_length. lia. Qed.

Lemma count_nonneg {A} (f : A -> bool) l : 0 <= count f l.
Proof. unfold count, len. lia. Qed.

Lemma count_pos_In {A} (f : A -> bool) l : 1 <= count f l <-> exists a, In a l /\ f a = true.
Proof.
  induction l as [|a l IH]; [rewrite count_nil; split; [lia|intros (a & [] & _)]|].
  rewrite count_cons. destruct (f a) eqn:E.
  - split; [|pose proof (count_nonneg f l); lia]. intros _. exists a. split; [now left|exact E].
  - rewrite Z.add_0_l, IH. split.
    + intros (b & Hb & Fb). exists b. split; [now right|exact Fb].
    + intros (b & [->|Hb] & Fb); [congruence|]. eauto.
Qed.

Lemma count_zero_notIn {A} (f : A -> bool) l : count f l = 0 <-> forall a, In a l -> f a = false.
Proof.
  split.
  - intros Hz a Hin. destruct (f a) eqn:E; [|reflexivity].
    assert (1 <= count f l) by (apply count_pos_In; eauto). lia.
  - intros Hn. pose proof (count_nonneg f l).
    destruct (Z.eq_dec (count f l) 0) as [|Hne]; [assumption|].
    assert (Hp : 1 <= count f l) by lia. apply count_pos_In in Hp.
    destruct Hp as (a & Hin & Fa). rewrite (Hn a Hin) in Fa. discriminate.
Qed.

Lemma count_perm {A} (f : A -> bool) l l' : Permutation l l' -> count f l = count f l'.
Proof.
  intros Hp. induction Hp; rewrite ?count_cons in *; lia.
Qed.

(* the number of keys of a map that satisfy p, as a sum *)
Lemma count_keys_msum {K V} (p : K -> bool) (m : list (K * V)) :
  count p (map fst m) = fold_right (fun kv a => (if p (fst kv) then 1 else 0) + a) 0 m.
Proof.
  induction m as [|[k v] t IH]; [reflexivity|].
  cbn [map fst fold_right]. rewrite count_cons, IH. reflexivity.
Qed.

(* ------------------------------------------------------------------ *)
(* induction over reachable states with the invariant at hand *)

Definition tick (s : State) (dt : Z) : State :=
  set_time (set_height s (height s + 1)) (time s + dt).

Section FoldInd.
  Variable cfg : Params.
  Variable P : State -> Prop.
  Hypothesis Hcfg : wf_cfg cfg.
  Hypothesis P_expire_one : forall s c, Inv cfg s -> P s -> In (height s, c) (expq s) ->
    height s < HEIGHT_BOUND -> P (expire_one cfg s c).
  Hypothesis P_new_one : forall s c, Inv cfg s -> P s -> In (height s, c) (newq s) ->
    height s < HEIGHT_BOUND -> P (new_one cfg s c).

  Lemma fold_expire_P l s :
    Inv cfg s -> P s -> height s < HEIGHT_BOUND -> NoDup l ->
    (forall c, In c l -> In (height s, c) (expq s)) ->
    P (fold_left (expire_one cfg) l s).
  Proof.
    revert s. induction l as [|a l IH]; intros s Hi Hp Hb Hn Hl; cbn [fold_left]; [exact Hp|].
    inversion Hn as [|? ? Hna Hn']; subst.
    assert (Hda : In (height s, a) (expq s)) by (apply Hl; now left).
    pose proof (Inv_expire_one cfg s a Hcfg Hi Hda Hb) as Hi1.
    pose proof (height_expire_one cfg s a Hcfg Hi Hda Hb) as Eh.
    pose proof (expq_after_expire_one cfg s a Hcfg Hi Hda Hb) as Eq.
    apply IH; try assumption.
    - now apply P_expire_one.
    - now rewrite Eh.
    - intros c Hc. rewrite Eh. apply Eq. split; [apply Hl; now right|]. intros ->. contradiction.
  Qed.

  Lemma fold_new_P l s :
    Inv cfg s -> P s -> height s < HEIGHT_BOUND -> NoDup l ->
    (forall c, In c l -> In (height s, c) (newq s)) ->
    P (fold_left (new_one cfg) l s).
  Proof.
    revert s. induction l as [|a l IH]; intros s Hi Hp Hb Hn Hl; cbn [fold_left]; [exact Hp|].
    inversion Hn as [|? ? Hna Hn']; subst.
    assert (Hda : In (height s, a) (newq s)) by (apply Hl; now left).
    pose proof (Inv_new_one cfg s a Hcfg Hi Hda Hb) as Hi1.
    pose proof (height_new_one cfg s a Hcfg Hi Hda Hb) as Eh.
    pose proof (newq_after_new_one cfg s a Hcfg Hi Hda Hb) as Eq.
    apply IH; try assumption.
    - now apply P_new_one.
    - now rewrite Eh.
    - intros c Hc. rewrite Eh. apply Eq. split; [apply Hl; now right|]. intros ->. contradiction.
  Qed.

  (* the state after both phases of EndBlock, before the clock moves *)
  Lemma end_blocker_P s :
    Inv cfg s -> P s -> height s < HEIGHT_BOUND ->
    let s2 := end_blocker cfg s in
    Inv cfg s2 /\ P s2 /\ height s2 = height s
    /\ (forall c h, get c (expq_h s2) = Some h -> height s2 < h)
    /\ (forall c h, get c (newq_h s2) = Some h -> height s2 < h).
  Proof.
    intros Hi Hp Hb. unfold end_blocker.
    set (l1 := due (expq s) (height s)).
    assert (Hn1 : NoDup l1) by (apply NoDup_due; apply (inv_wf _ _ Hi)).
    assert (Hl1 : forall c, In c l1 -> In (height s, c) (expq s)) by (intros c; apply In_due).
    destruct (fold_expire_phase cfg l1 s Hcfg Hi Hb Hn1 Hl1) as (I1 & H1 & T1 & Q1).
    pose proof (fold_expire_P l1 s Hi Hp Hb Hn1 Hl1) as P1.
    set (s1 := fold_left (expire_one cfg) l1 s) in *.
    set (l2 := due (newq s1) (height s1)).
    assert (Hn2 : NoDup l2) by (apply NoDup_due; apply (inv_wf _ _ I1)).
    assert (Hl2 : forall c, In c l2 -> In (height s1, c) (newq s1)) by (intros c; apply In_due).
    assert (Hb1 : height s1 < HEIGHT_BOUND) by now rewrite H1.
    destruct (fold_new_phase cfg l2 s1 Hcfg I1 Hb1 Hn2 Hl2) as (I2 & H2 & T2 & Q2 & E2).
    pose proof (fold_new_P l2 s1 I1 P1 Hb1 Hn2 Hl2) as P2.
    set (s2 := fold_left (new_one cfg) l2 s1) in *.
    cbv zeta.
    destruct (inv_sched _ _ I2) as (S1 & S2 & _ & _ & S5 & S6 & _).
    split; [exact I2|]. split; [exact P2|]. split; [congruence|]. split.
    - intros c h G. pose proof (S5 _ _ G) as Hle. apply S1 in G.
      destruct (Z.eq_dec h (height s2)) as [->|]; [|lia]. exfalso.
      apply E2 in G. destruct G as [G|G]; [|lia].
      apply Q1 in G. destruct G as [G Hni]. apply Hni. apply In_due. rewrite H2, H1 in G. exact G.
    - intros c h G. pose proof (S6 _ _ G) as Hle. apply S2 in G.
      destruct (Z.eq_dec h (height s2)) as [->|]; [|lia]. exfalso.
      apply Q2 in G. destruct G as [G Hni]. apply Hni. apply In_due. rewrite H2 in G. exact G.
  Qed.

End FoldInd.

Section ReachInd.
  Variable cfg : Params.
  Variable P : State -> Prop.
  Hypothesis Hcfg : wf_cfg cfg.
  Hypothesis P_init : forall h0 t0 f, 1 <= h0 -> 0 <= t0 -> wf_funding f -> P (init h0 t0 f).
  Hypothesis P_msg : forall s o s', Inv cfg s -> P s -> wf_op s o -> (forall dt, o <> OEndBlock dt) ->
    handle cfg s o = Ok s' -> P s'.
  Hypothesis P_expire_one : forall s c, Inv cfg s -> P s -> In (height s, c) (expq s) ->
    height s < HEIGHT_BOUND -> P (expire_one cfg s c).
  Hypothesis P_new_one : forall s c, Inv cfg s -> P s -> In (height s, c) (newq s) ->
    height s < HEIGHT_BOUND -> P (new_one cfg s c).
  Hypothesis P_tick : forall s dt, Inv cfg s -> P s -> 0 <= dt ->
    (forall c h, get c (expq_h s) = Some h -> height s < h) ->
    (forall c h, get c (newq_h s) = Some h -> height s < h) ->
    P (tick s dt).

  Lemma end_block_P s dt :
    Inv cfg s -> P s -> 0 <= dt -> height s < HEIGHT_BOUND -> P (end_block cfg s dt).
  Proof.
    intros Hi Hp Hdt Hb.
    destruct (end_blocker_P cfg P Hcfg P_expire_one P_new_one s Hi Hp Hb) as (I2 & P2 & _ & He & Hn).
    unfold end_block. now apply P_tick.
  Qed.

  Theorem Reach_ind_inv s : Reach cfg s -> P s.
  Proof.
    intros H. induction H as [h0 t0 f H1 H2 H3|s o H IH Ho]; [now apply P_init|].
    pose proof (Reach_Inv cfg s Hcfg H) as Hi.
    unfold step. destruct (handle cfg s o) as [s'| |] eqn:E; cbn [fst]; try assumption.
    destruct o; try (eapply P_msg; [exact Hi|exact IH|exact Ho|discriminate|exact E]).
    cbn [handle] in E. injection E as <-. cbn [wf_op] in Ho. destruct Ho. now apply end_block_P.
  Qed.
End ReachInd.
