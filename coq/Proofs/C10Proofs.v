(* C10  Repeated invocations keep their cadence and respect their total.
   Invariant-level corollaries for reachable states, the step-local cadence lemmas
   L1..L4 of DESIGN 7/C10, what EndBlock does to a due entry (L3, C10_first_batch),
   and the one-period corollary C10_cadence_step. *)
From Coq Require Import List ZArith Bool Lia Permutation.
From SVC Require Import Base.AMap Base.Res Base.Dec Model.Types Model.Pricing
  Model.Handlers Model.EndBlock Model.Step Proofs.Inv Proofs.Lemmas Proofs.ReqLemmas
  Proofs.CtxOps Proofs.InvSched Proofs.InvCtx Proofs.InvEscrow Proofs.InvReq Proofs.InvAll
  Proofs.StepSpecs_ctx Proofs.TraceBase Proofs.C16Proofs Proofs.ReachRun Proofs.BatchEx.
Import ListNotations.
Open Scope Z_scope.

(* ------------------------------------------------------------------ *)
(* invariant-level facts for reachable states *)

Theorem C10_oneshot_le_1 cfg s c rc :
  wf_cfg cfg -> Reach cfg s -> get c (ctxs s) = Some rc -> c_rep rc = false ->
  (c_counter rc = 0 /\ has c (expq_h s) = false)
  \/ (c_counter rc = 1 /\ c_state rc = Running /\ has c (expq_h s) = true).
Proof. intros Hcfg Hr. eapply C10_oneshot, Reach_Inv; eauto. Qed.

Theorem C10_total_bound_reach cfg s c rc :
  wf_cfg cfg -> Reach cfg s -> get c (ctxs s) = Some rc ->
  c_rep rc = true -> 0 < c_total rc -> 0 <= c_counter rc <= c_total rc.
Proof. intros Hcfg Hr. eapply C10_total_bound, Reach_Inv; eauto. Qed.

(* a pending expiry means that at least one batch was started *)
Definition I_started (s : State) : Prop :=
  forall c rc, get c (ctxs s) = Some rc -> has c (expq_h s) = true -> 1 <= c_counter rc.

Lemma I_started_msg cfg s o s' :
  wf_cfg cfg -> Inv cfg s -> I_started s -> wf_op s o -> (forall dt, o <> OEndBlock dt) ->
  handle cfg s o = Ok s' -> I_started s'.
Proof.
  intros Hcfg HI Hs Hwf Hne H c rc' G' He'.
  assert (Eq : expq_h s' = expq_h s).
  { destruct (ctx_op o) eqn:Hk; [|apply (se_expq_h _ _ (msg_SEq _ _ _ _ H Hk))].
    destruct o; cbn [ctx_op] in Hk; try discriminate; cbn [handle] in H.
    - unfold h_call in H. inv_ok H. apply create_context_spec in H.
      destruct H as (capv & _ & _ & _ & ->). reflexivity.
    - apply create_context_spec in H. destruct H as (capv & _ & _ & _ & ->). reflexivity.
    - apply respond_spec in H. destruct H as (q & rc & sm & rcx & _ & _ & Hsm & -> & _).
      sproj. apply (se_expq_h _ _ Hsm).
    - apply h_pause_spec in H. destruct H as (rc & _ & _ & _ & _ & _ & ->). reflexivity.
    - apply h_start_spec in H. destruct H as (rc & _ & _ & _ & _ & ->). unfold started.
      destruct (negb _ && negb _); reflexivity.
    - apply h_kill_spec in H. destruct H as (rc & _ & _ & _ & _ & ->). reflexivity.
    - apply h_update_ctx_spec in H. destruct H as (rc & capo & _ & _ & _ & _ & _ & _ & _ & _ & _ & ->).
      reflexivity.
    - exfalso. eapply Hne. reflexivity.
    - mod_shape H; reflexivity.
    - mod_shape H; reflexivity.
    - mod_shape H; reflexivity.
    - mod_shape H; reflexivity. }
  rewrite Eq in He'.
  destruct (get c (ctxs s)) as [rc|] eqn:G.
  - rewrite (C10_counter_msg _ _ _ _ _ _ _ Hcfg HI Hwf Hne H G G'). eapply Hs; eauto.
  - exfalso. destruct (inv_sched _ _ HI) as (_ & _ & _ & S4 & _).
    assert (Hh : has c (ctxs s) = true) by (apply S4; now left). unfold has in Hh. now rewrite G in Hh.
Qed.

Lemma I_started_expire_one cfg s c :
  wf_cfg cfg -> Inv cfg s -> I_started s -> In (height s, c) (expq s) -> height s < HEIGHT_BOUND ->
  I_started (expire_one cfg s c).
Proof.
  intros Hcfg HI Hs Hdue Hb c' rc' G' He'.
  destruct (expire_one_spec cfg s c Hcfg HI Hdue Hb)
    as (rc & rc1 & _ & _ & _ & _ & Ht & _ & _ & Ee' & _).
  assert (Hn : c' <> c) by (intros ->; unfold has in He'; rewrite Ee' in He'; discriminate).
  rewrite (t_ctxs _ _ _ Ht) in G' by assumption.
  unfold has in He'. rewrite (t_expq_h _ _ _ Ht) in He' by assumption. eapply Hs; eauto.
Qed.

Lemma I_started_new_one cfg s c :
  wf_cfg cfg -> Inv cfg s -> I_started s -> In (height s, c) (newq s) -> height s < HEIGHT_BOUND ->
  I_started (new_one cfg s c).
Proof.
  intros Hcfg HI Hs Hdue Hb c' rc' G' He'.
  destruct (new_one_spec cfg s c HI Hdue) as (rc & Erc & _ & Ee & Ht & _ & _ & _ & Hcase).
  destruct (eqb_spec c' c) as [->|Hn].
  - destruct (I_ctx_get _ _ _ _ (inv_ctx _ _ HI) Erc) as ((_ & Hc0 & _) & _).
    unfold has in He'.
    destruct Hcase as [(_ & Ex & _)|[(_ & _ & _ & n & Ex)|[(_ & _ & Ee' & _)|(_ & Ee' & _)]]].
    + congruence.
    + rewrite Ex in G'. injection G' as <-. cbn. lia.
    + rewrite Ee' in He'. discriminate.
    + rewrite Ee' in He'. discriminate.
  - rewrite (t_ctxs _ _ _ Ht) in G' by assumption.
    unfold has in He'. rewrite (t_expq_h _ _ _ Ht) in He' by assumption. eapply Hs; eauto.
Qed.

Theorem Reach_I_started cfg s : wf_cfg cfg -> Reach cfg s -> I_started s.
Proof.
  intros Hcfg. apply (Reach_ind_inv cfg I_started Hcfg).
  - intros h0 t0 f _ _ _ c rc G. discriminate.
  - intros. eapply I_started_msg; eauto.
  - intros. now apply I_started_expire_one.
  - intros. now apply I_started_new_one.
  - intros s0 dt _ H _ _ _. exact H.
Qed.

(* a running context that never started a batch is waiting in the new-batch queue (not in
   the past), and has no record of any kind *)
Theorem C10_first_batch_inv cfg s c rc :
  wf_cfg cfg -> Reach cfg s -> get c (ctxs s) = Some rc -> c_counter rc = 0 ->
  get c (expq_h s) = None
  /\ (c_state rc = Running ->
        exists h, get c (newq_h s) = Some h /\ In (h, c) (newq s) /\ height s <= h).
Proof.
  intros Hcfg Hr G Hc. pose proof (Reach_Inv cfg s Hcfg Hr) as HI.
  pose proof (Reach_I_started cfg s Hcfg Hr c rc G) as Hs.
  assert (He : get c (expq_h s) = None).
  { destruct (get c (expq_h s)) eqn:E; [|reflexivity].
    assert (1 <= c_counter rc) by (apply Hs; unfold has; now rewrite E). lia. }
  split; [exact He|]. intros Hrun.
  destruct (inv_sched _ _ HI) as (_ & S2 & _ & _ & _ & S6 & S7).
  destruct (S7 _ _ G Hrun) as [Hx|Hx]; [unfold has in Hx; rewrite He in Hx; discriminate|].
  unfold has in Hx. destruct (get c (newq_h s)) as [h|] eqn:En; [|discriminate].
  exists h. split; [reflexivity|]. split; [now apply S2|]. eapply S6; eauto.
Qed.

(* ------------------------------------------------------------------ *)
(* creation queues the first batch at the current height *)

Theorem C10_created_queued cfg s o s' c :
  handle cfg s o = Ok s' ->
  (exists svc provs cons input cap timeout super rep freq total iok ok,
     o = OCall c svc provs cons input cap timeout super rep freq total iok ok)
  \/ (exists svc provs cons input cap timeout super rep freq total thr md iok,
     o = OModCall c svc provs cons input cap timeout super rep freq total thr md iok) ->
  exists rc, get c (ctxs s') = Some rc /\ c_counter rc = 0 /\ c_state rc = Running
    /\ c_bdone rc = true /\ get c (newq_h s') = Some (height s) /\ height s' = height s
    /\ In (EvCtxCreated c) (log s').
Proof.
  intros H Ho.
  assert (E : exists rc, s' = created s c rc /\ c_counter rc = 0 /\ c_state rc = Running /\ c_bdone rc = true).
  { destruct Ho as [(svc & provs & cons & input & cap & timeout & super & rep & freq & total & iok & ok & ->)
                   |(svc & provs & cons & input & cap & timeout & super & rep & freq & total & thr & md & iok & ->)];
      cbn [handle] in H.
    - unfold h_call in H. inv_ok H. apply create_context_spec in H.
      destruct H as (capv & _ & _ & _ & ->). eexists. split; [reflexivity|]. repeat split.
    - apply create_context_spec in H.
      destruct H as (capv & _ & _ & _ & ->). eexists. split; [reflexivity|]. repeat split. }
  destruct E as (rc & -> & E1 & E2 & E3). exists rc. unfold created. sproj.
  rewrite !get_set_eq. repeat split; try assumption. now left.
Qed.

(* ------------------------------------------------------------------ *)
(* L1: a batch started at H has its expiry entry at H + timeout *)

Theorem C10_L1_start_expiry cfg s c rc rc' :
  wf_cfg cfg -> Inv cfg s -> In (height s, c) (newq s) -> height s < HEIGHT_BOUND ->
  get c (ctxs s) = Some rc -> get c (ctxs (new_one cfg s c)) = Some rc' ->
  c_counter rc' <> c_counter rc ->
  let s' := new_one cfg s c in
  c_counter rc' = c_counter rc + 1
  /\ get c (expq_h s') = Some (height s + c_timeout rc)
  /\ In (height s + c_timeout rc, c) (expq s')
  /\ get c (newq_h s') = None
  /\ c_timeout rc' = c_timeout rc /\ c_freq rc' = c_freq rc /\ c_state rc' = Running
  /\ exists n, In (EvBatchStart c (c_counter rc + 1) (height s) n) (log s').
Proof.
  intros Hcfg HI Hdue Hb Erc Erc' Hd s'. subst s'.
  destruct (new_one_spec cfg s c HI Hdue) as (rc0 & Erc0 & En & Ee & Ht & Q1 & Q2 & En' & Hcase).
  assert (rc0 = rc) by congruence. subst rc0.
  destruct Hcase as [(_ & Ex & _)|[(Hd5 & Hr & Ee' & n & Ex)|[(_ & _ & _ & Ex)|(_ & _ & Ex)]]];
    rewrite Ex in Erc'; try discriminate; injection Erc' as <-; try (exfalso; apply Hd; reflexivity).
  split; [reflexivity|]. split; [exact Ee'|]. split; [now apply Q1|]. split; [exact En'|].
  split; [reflexivity|]. split; [reflexivity|]. split; [exact Hr|].
  destruct (new_one_unfold cfg s c rc Erc)
    as [(Hx & _)|[(_ & _ & sm & n' & Hsm & ->)|[(_ & _ & sm & Hsm & E)|(Hx & _)]]]; try congruence.
  - exists n'. sproj. now left.
  - exfalso. rewrite E in Ex. sproj. rewrite get_set_eq in Ex.
    assert (X : c_counter (paused_ctx rc) = c_counter (bump rc n)) by congruence.
    cbn in X. lia.
Qed.

(* ------------------------------------------------------------------ *)
(* L2: the expiry of a running repeated context below its total queues the next batch at
   H' - timeout + frequency (no wrap-around below HEIGHT_BOUND), never in the past *)

Theorem C10_L2_expiry_next cfg s c rc :
  wf_cfg cfg -> Inv cfg s -> In (height s, c) (expq s) -> height s < HEIGHT_BOUND ->
  get c (ctxs s) = Some rc -> c_state rc = Running -> c_rep rc = true ->
  (c_total rc < 0 \/ c_counter rc < c_total rc) ->
  let s' := expire_one cfg s c in
  let h := height s - c_timeout rc + c_freq rc in
  get c (newq_h s') = Some h /\ In (h, c) (newq s') /\ get c (expq_h s') = None /\ height s <= h
  /\ exists rc', get c (ctxs s') = Some rc' /\ c_counter rc' = c_counter rc
       /\ c_timeout rc' = c_timeout rc /\ c_freq rc' = c_freq rc /\ c_state rc' = Running.
Proof.
  intros Hcfg HI Hdue Hb Erc Hr Hrep Htot s' h. subst s' h.
  destruct (expire_one_spec cfg s c Hcfg HI Hdue Hb)
    as (rc0 & rc1 & Erc0 & Ee & En & Hrc1 & Ht & Q1 & Q2 & Ee' & Hcase).
  assert (rc0 = rc) by congruence. subst rc0.
  assert (Hm : more rc = true).
  { unfold more. rewrite Hrep. cbn [andb]. apply orb_true_intro.
    destruct Htot; [left; now apply Z.ltb_lt|right; now apply Z.ltb_lt]. }
  destruct (I_ctx_get _ _ _ _ (inv_ctx _ _ HI) Erc) as (Hok & _). unfold ctx_ok in Hok.
  destruct Hcase as [(_ & _ & [Hx|[_ Hx]])|[(Ex & En' & _)|(_ & _ & Hx)]]; try congruence.
  split; [exact En'|]. split; [now apply Q2|]. split; [exact Ee'|].
  split; [assert (c_timeout rc <= c_freq rc) by (apply Hok; exact Hrep); lia|].
  exists rc1. split; [exact Ex|]. destruct Hrc1 as [->|[_ ->]]; repeat split; assumption.
Qed.

(* ------------------------------------------------------------------ *)
(* L4: messages never move a queue entry; the only entries they add are new-batch entries
   at the current height, for a context just created or restarted with nothing pending *)

Definition queues_at_now (o : Op) (c : CtxId) : Prop :=
  match o with
  | OCall c' _ _ _ _ _ _ _ _ _ _ _ _ | OModCall c' _ _ _ _ _ _ _ _ _ _ _ _ _ | OStart c' _ _
  | OModStart c' _ => c' = c
  | _ => False
  end.

Theorem C10_L4_msg_queues cfg s o s' :
  wf_cfg cfg -> Inv cfg s -> wf_op s o -> (forall dt, o <> OEndBlock dt) ->
  handle cfg s o = Ok s' ->
  height s' = height s /\ expq s' = expq s /\ expq_h s' = expq_h s
  /\ forall c,
       (get c (newq_h s') = get c (newq_h s)
        /\ forall h, In (h, c) (newq s') <-> In (h, c) (newq s))
       \/ (queues_at_now o c /\ get c (newq_h s) = None /\ get c (expq_h s) = None
           /\ get c (newq_h s') = Some (height s)
           /\ forall h, In (h, c) (newq s') <-> h = height s).
Proof.
  intros Hcfg HI Hwf Hne H.
  pose proof (Inv_msg _ _ _ _ Hcfg HI Hwf Hne H) as HI'.
  destruct (Inv_qpairs _ _ HI) as (_ & Q2). destruct (Inv_qpairs _ _ HI') as (_ & Q2').
  assert (Hsame : newq_h s' = newq_h s -> forall c,
            get c (newq_h s') = get c (newq_h s) /\ forall h, In (h, c) (newq s') <-> In (h, c) (newq s)).
  { intros E c. split; [now rewrite E|]. intros h. rewrite (Q2' h c), (Q2 h c), E. tauto. }
  assert (Hadd : forall c0, queues_at_now o c0 -> get c0 (newq_h s) = None -> get c0 (expq_h s) = None ->
            newq_h s' = set c0 (height s) (newq_h s) -> forall c,
            (get c (newq_h s') = get c (newq_h s) /\ forall h, In (h, c) (newq s') <-> In (h, c) (newq s))
            \/ (queues_at_now o c /\ get c (newq_h s) = None /\ get c (expq_h s) = None
                /\ get c (newq_h s') = Some (height s) /\ forall h, In (h, c) (newq s') <-> h = height s)).
  { intros c0 Hq Hn0 He0 E c. destruct (eqb_spec c c0) as [->|Hn].
    - right. split; [exact Hq|]. split; [exact Hn0|]. split; [exact He0|].
      rewrite E, get_set_eq. split; [reflexivity|]. intros h. rewrite (Q2' h c0), E, get_set_eq.
      split; congruence.
    - left. rewrite E, get_set_neq by assumption. split; [reflexivity|].
      intros h. rewrite (Q2' h c), (Q2 h c), E, get_set_neq by assumption. tauto. }
  destruct (ctx_op o) eqn:Hk.
  2:{ pose proof (msg_SEq _ _ _ _ H Hk) as Hs. destruct Hs.
      split; [assumption|]. split; [assumption|]. split; [assumption|]. intros c. left. now apply Hsame. }
  destruct o; cbn [ctx_op] in Hk; try discriminate; cbn [handle] in H; cbn [wf_op] in Hwf.
  - unfold h_call in H. inv_ok H. apply create_context_spec in H.
    destruct H as (capv & _ & _ & _ & ->). destruct Hwf as (Hf & _).
    destruct (fresh_none _ _ _ HI Hf) as (_ & Ee & En).
    split; [reflexivity|]. split; [reflexivity|]. split; [reflexivity|].
    apply (Hadd c); try assumption; reflexivity.
  - apply create_context_spec in H.
    destruct H as (capv & _ & _ & _ & ->). destruct Hwf as (Hf & _).
    destruct (fresh_none _ _ _ HI Hf) as (_ & Ee & En).
    split; [reflexivity|]. split; [reflexivity|]. split; [reflexivity|].
    apply (Hadd c); try assumption; reflexivity.
  - apply respond_spec in H. destruct H as (q & rc & sm & rcx & _ & _ & Hsm & -> & _).
    destruct Hsm. sproj. split; [assumption|]. split; [assumption|]. split; [assumption|].
    intros c. left. now apply Hsame.
  - apply h_pause_spec in H. destruct H as (rc & _ & _ & _ & _ & _ & ->).
    split; [reflexivity|]. split; [reflexivity|]. split; [reflexivity|]. intros c0. left. now apply Hsame.
  - apply h_start_spec in H. destruct H as (rc & _ & _ & _ & _ & ->). unfold started in *.
    destruct (negb (has c (expq_h s)) && negb (has c (newq_h s))) eqn:Eb.
    + apply andb_prop in Eb. destruct Eb as [Eb1 Eb2].
      apply negb_true_iff, has_false in Eb1. apply negb_true_iff, has_false in Eb2.
      split; [reflexivity|]. split; [reflexivity|]. split; [reflexivity|].
      apply (Hadd c); try assumption; reflexivity.
    + split; [reflexivity|]. split; [reflexivity|]. split; [reflexivity|]. intros c0. left. now apply Hsame.
  - apply h_kill_spec in H. destruct H as (rc & _ & _ & _ & _ & ->).
    split; [reflexivity|]. split; [reflexivity|]. split; [reflexivity|]. intros c0. left. now apply Hsame.
  - apply h_update_ctx_spec in H. destruct H as (rc & capo & _ & _ & _ & _ & _ & _ & _ & _ & _ & ->).
    split; [reflexivity|]. split; [reflexivity|]. split; [reflexivity|]. intros c0. left. now apply Hsame.
  - exfalso. eapply Hne. reflexivity.
  - apply h_mod_update_gen in H. destruct H as (rc & t & capo & _ & _ & _ & ->).
    split; [reflexivity|]. split; [reflexivity|]. split; [reflexivity|]. intros c0. left. now apply Hsame.
  - apply h_mod_pause_spec in H. destruct H as (rc & _ & _ & _ & _ & ->).
    split; [reflexivity|]. split; [reflexivity|]. split; [reflexivity|]. intros c0. left. now apply Hsame.
  - apply h_mod_start_spec in H. destruct H as (rc & _ & _ & _ & ->). unfold started in *.
    destruct (negb (has c (expq_h s)) && negb (has c (newq_h s))) eqn:Eb.
    + apply andb_prop in Eb. destruct Eb as [Eb1 Eb2].
      apply negb_true_iff, has_false in Eb1. apply negb_true_iff, has_false in Eb2.
      split; [reflexivity|]. split; [reflexivity|]. split; [reflexivity|].
      apply (Hadd c); try assumption; reflexivity.
    + split; [reflexivity|]. split; [reflexivity|]. split; [reflexivity|]. intros c0. left. now apply Hsame.
  - apply h_mod_kill_spec in H. destruct H as (rc & _ & _ & _ & ->).
    split; [reflexivity|]. split; [reflexivity|]. split; [reflexivity|]. intros c0. left. now apply Hsame.
Qed.

(* ------------------------------------------------------------------ *)
(* L3: what EndBlock does with an entry that is due *)

Definition view (c : CtxId) (s : State) : option Ctx * option Z * option Z :=
  (get c (ctxs s), get c (expq_h s), get c (newq_h s)).

Lemma view_Touch c c' s s' : Touch c' s s' -> c <> c' -> view c s' = view c s.
Proof.
  intros Ht Hn. unfold view.
  now rewrite (t_ctxs _ _ _ Ht), (t_expq_h _ _ _ Ht), (t_newq_h _ _ _ Ht) by assumption.
Qed.

Section Folds.
  Variable cfg : Params.
  Hypothesis Hcfg : wf_cfg cfg.

  Lemma fold_expire_other c l s :
    Inv cfg s -> height s < HEIGHT_BOUND -> NoDup l ->
    (forall a, In a l -> In (height s, a) (expq s)) -> ~ In c l ->
    view c (fold_left (expire_one cfg) l s) = view c s.
  Proof.
    revert s. induction l as [|a l IH]; intros s Hi Hb Hn Hl Hc; cbn [fold_left]; [reflexivity|].
    inversion Hn as [|? ? Hna Hn']; subst.
    assert (Hda : In (height s, a) (expq s)) by (apply Hl; now left).
    pose proof (Inv_expire_one cfg s a Hcfg Hi Hda Hb) as Hi1.
    pose proof (height_expire_one cfg s a Hcfg Hi Hda Hb) as Eh.
    pose proof (expq_after_expire_one cfg s a Hcfg Hi Hda Hb) as Eq.
    destruct (expire_one_spec cfg s a Hcfg Hi Hda Hb) as (_ & _ & _ & _ & _ & _ & Ht & _).
    rewrite IH; try assumption.
    - apply (view_Touch c a); [exact Ht|]. intros ->. apply Hc. now left.
    - now rewrite Eh.
    - intros x Hx. rewrite Eh. apply Eq. split; [apply Hl; now right|]. intros ->. contradiction.
    - intros Hx. apply Hc. now right.
  Qed.

  Lemma fold_new_other c l s :
    Inv cfg s -> height s < HEIGHT_BOUND -> NoDup l ->
    (forall a, In a l -> In (height s, a) (newq s)) -> ~ In c l ->
    view c (fold_left (new_one cfg) l s) = view c s.
  Proof.
    revert s. induction l as [|a l IH]; intros s Hi Hb Hn Hl Hc; cbn [fold_left]; [reflexivity|].
    inversion Hn as [|? ? Hna Hn']; subst.
    assert (Hda : In (height s, a) (newq s)) by (apply Hl; now left).
    pose proof (Inv_new_one cfg s a Hcfg Hi Hda Hb) as Hi1.
    pose proof (height_new_one cfg s a Hcfg Hi Hda Hb) as Eh.
    pose proof (newq_after_new_one cfg s a Hcfg Hi Hda Hb) as Eq.
    destruct (new_one_spec cfg s a Hi Hda) as (_ & _ & _ & _ & Ht & _).
    rewrite IH; try assumption.
    - apply (view_Touch c a); [exact Ht|]. intros ->. apply Hc. now left.
    - now rewrite Eh.
    - intros x Hx. rewrite Eh. apply Eq. split; [apply Hl; now right|]. intros ->. contradiction.
    - intros Hx. apply Hc. now right.
  Qed.

  (* the handler of c runs from a state that satisfies the invariant and in which c looks
     as at the start of the phase; later handlers of the phase do not touch c *)
  Lemma fold_expire_split c l s :
    Inv cfg s -> height s < HEIGHT_BOUND -> NoDup l ->
    (forall a, In a l -> In (height s, a) (expq s)) -> In c l ->
    exists sm, Inv cfg sm /\ height sm = height s /\ view c sm = view c s
      /\ In (height sm, c) (expq sm) /\ incl (log s) (log sm)
      /\ view c (fold_left (expire_one cfg) l s) = view c (expire_one cfg sm c).
  Proof.
    revert s. induction l as [|a l IH]; intros s Hi Hb Hn Hl Hc; [destruct Hc|]. cbn [fold_left].
    inversion Hn as [|? ? Hna Hn']; subst.
    assert (Hda : In (height s, a) (expq s)) by (apply Hl; now left).
    pose proof (Inv_expire_one cfg s a Hcfg Hi Hda Hb) as Hi1.
    pose proof (height_expire_one cfg s a Hcfg Hi Hda Hb) as Eh.
    pose proof (expq_after_expire_one cfg s a Hcfg Hi Hda Hb) as Eq.
    destruct (expire_one_spec cfg s a Hcfg Hi Hda Hb) as (_ & _ & _ & _ & _ & _ & Ht & _).
    assert (Hl1 : forall x, In x l -> In (height (expire_one cfg s a), x) (expq (expire_one cfg s a))).
    { intros x Hx. rewrite Eh. apply Eq. split; [apply Hl; now right|]. intros ->. contradiction. }
    destruct (eqb_spec a c) as [->|Hne].
    - exists s. split; [exact Hi|]. split; [reflexivity|]. split; [reflexivity|]. split; [exact Hda|].
      split; [apply incl_refl|].
      apply fold_expire_other; try assumption. now rewrite Eh.
    - destruct Hc as [E|Hc]; [contradiction|].
      destruct (IH (expire_one cfg s a) Hi1) as (sm & A1 & A2 & A3 & A4 & A5 & A6); try assumption.
      { now rewrite Eh. }
      exists sm. split; [exact A1|]. split; [congruence|]. split.
      { rewrite A3. apply (view_Touch c a); [exact Ht|congruence]. }
      split; [exact A4|]. split; [|exact A6].
      eapply incl_tran; [apply (t_log _ _ _ Ht)|exact A5].
  Qed.

  Lemma fold_new_split c l s :
    Inv cfg s -> height s < HEIGHT_BOUND -> NoDup l ->
    (forall a, In a l -> In (height s, a) (newq s)) -> In c l ->
    exists sm, Inv cfg sm /\ height sm = height s /\ view c sm = view c s
      /\ In (height sm, c) (newq sm) /\ incl (log s) (log sm)
      /\ view c (fold_left (new_one cfg) l s) = view c (new_one cfg sm c).
  Proof.
    revert s. induction l as [|a l IH]; intros s Hi Hb Hn Hl Hc; [destruct Hc|]. cbn [fold_left].
    inversion Hn as [|? ? Hna Hn']; subst.
    assert (Hda : In (height s, a) (newq s)) by (apply Hl; now left).
    pose proof (Inv_new_one cfg s a Hcfg Hi Hda Hb) as Hi1.
    pose proof (height_new_one cfg s a Hcfg Hi Hda Hb) as Eh.
    pose proof (newq_after_new_one cfg s a Hcfg Hi Hda Hb) as Eq.
    destruct (new_one_spec cfg s a Hi Hda) as (_ & _ & _ & _ & Ht & _).
    assert (Hl1 : forall x, In x l -> In (height (new_one cfg s a), x) (newq (new_one cfg s a))).
    { intros x Hx. rewrite Eh. apply Eq. split; [apply Hl; now right|]. intros ->. contradiction. }
    destruct (eqb_spec a c) as [->|Hne].
    - exists s. split; [exact Hi|]. split; [reflexivity|]. split; [reflexivity|]. split; [exact Hda|].
      split; [apply incl_refl|].
      apply fold_new_other; try assumption. now rewrite Eh.
    - destruct Hc as [E|Hc]; [contradiction|].
      destruct (IH (new_one cfg s a) Hi1) as (sm & A1 & A2 & A3 & A4 & A5 & A6); try assumption.
      { now rewrite Eh. }
      exists sm. split; [exact A1|]. split; [congruence|]. split.
      { rewrite A3. apply (view_Touch c a); [exact Ht|congruence]. }
      split; [exact A4|]. split; [|exact A6].
      eapply incl_tran; [apply (t_log _ _ _ Ht)|exact A5].
  Qed.
End Folds.

(* the state between the two phases of EndBlock *)
Definition after_expiry (cfg : Params) (s : State) : State :=
  fold_left (expire_one cfg) (due (expq s) (height s)) s.

Lemma end_blocker_eq cfg s :
  end_blocker cfg s =
  fold_left (new_one cfg) (due (newq (after_expiry cfg s)) (height (after_expiry cfg s))) (after_expiry cfg s).
Proof. reflexivity. Qed.

Lemma after_expiry_facts cfg s :
  wf_cfg cfg -> Inv cfg s -> height s < HEIGHT_BOUND ->
  Inv cfg (after_expiry cfg s) /\ height (after_expiry cfg s) = height s
  /\ (forall h c, In (h, c) (expq (after_expiry cfg s)) <-> (In (h, c) (expq s) /\ h <> height s)).
Proof.
  intros Hcfg Hi Hb. unfold after_expiry.
  set (l1 := due (expq s) (height s)).
  assert (Hn1 : NoDup l1) by (apply NoDup_due; apply (inv_wf _ _ Hi)).
  assert (Hl1 : forall c, In c l1 -> In (height s, c) (expq s)) by (intros c; apply In_due).
  destruct (fold_expire_phase cfg l1 s Hcfg Hi Hb Hn1 Hl1) as (I1 & H1 & T1 & Q1).
  split; [exact I1|]. split; [exact H1|]. intros h c. rewrite Q1. unfold l1. rewrite In_due.
  destruct (Inv_qpairs _ _ Hi) as (Qe & _).
  split; intros [A B]; (split; [exact A|]).
  - intros ->. contradiction.
  - intros Hd. apply B. eapply qpair_unique; eauto.
Qed.

(* L3 (expiry queue): an expiry entry at the current height is consumed by the expiry
   phase of this EndBlock: expire_one runs for it, from a state that satisfies the invariant
   and in which c is as at the start of EndBlock; no expiry entry at a height <= the
   current one survives EndBlock *)
Theorem C10_L3_expiry_consumed cfg s c :
  wf_cfg cfg -> Inv cfg s -> height s < HEIGHT_BOUND -> In (height s, c) (expq s) ->
  exists sm, Inv cfg sm /\ height sm = height s /\ view c sm = view c s
    /\ In (height sm, c) (expq sm) /\ incl (log s) (log sm)
    /\ view c (after_expiry cfg s) = view c (expire_one cfg sm c).
Proof.
  intros Hcfg Hi Hb Hdue. unfold after_expiry.
  apply fold_expire_split; try assumption.
  - apply NoDup_due; apply (inv_wf _ _ Hi).
  - intros a. apply In_due.
  - now apply In_due.
Qed.

(* L3 (new-batch queue): a new-batch entry at the current height is consumed by the
   new-batch phase of this EndBlock *)
Theorem C10_L3_newbatch_consumed cfg s c :
  wf_cfg cfg -> Inv cfg s -> height s < HEIGHT_BOUND -> In (height s, c) (newq s) ->
  exists sm, Inv cfg sm /\ height sm = height s /\ view c sm = view c s
    /\ In (height sm, c) (newq sm) /\ incl (log s) (log sm)
    /\ view c (end_blocker cfg s) = view c (new_one cfg sm c).
Proof.
  intros Hcfg Hi Hb Hdue.
  destruct (after_expiry_facts cfg s Hcfg Hi Hb) as (I1 & H1 & Q1).
  (* c is not due in the expiry phase: it has a new-batch entry *)
  destruct (due_new _ _ _ Hi Hdue) as (rc & Erc & En & Ee).
  destruct (Inv_qpairs _ _ Hi) as (Qe & Qn).
  assert (Hnot : ~ In c (due (expq s) (height s))).
  { intros Hin. apply In_due, Qe in Hin. congruence. }
  assert (Hv1 : view c (after_expiry cfg s) = view c s).
  { unfold after_expiry. apply fold_expire_other; try assumption.
    - apply NoDup_due; apply (inv_wf _ _ Hi).
    - intros a. apply In_due. }
  assert (Hl1 : incl (log s) (log (after_expiry cfg s))).
  { unfold after_expiry. set (l := due (expq s) (height s)).
    assert (Hn1 : NoDup l) by (apply NoDup_due; apply (inv_wf _ _ Hi)).
    assert (Hd1 : forall a, In a l -> In (height s, a) (expq s)) by (intros a; apply In_due).
    clearbody l. clear -Hcfg Hi Hb Hn1 Hd1. revert s Hi Hb Hn1 Hd1.
    induction l as [|a l IH]; intros s Hi Hb Hn Hl; cbn [fold_left]; [apply incl_refl|].
    inversion Hn as [|? ? Hna Hn']; subst.
    assert (Hda : In (height s, a) (expq s)) by (apply Hl; now left).
    pose proof (Inv_expire_one cfg s a Hcfg Hi Hda Hb) as Hi1.
    pose proof (height_expire_one cfg s a Hcfg Hi Hda Hb) as Eh.
    pose proof (expq_after_expire_one cfg s a Hcfg Hi Hda Hb) as Eq.
    destruct (expire_one_spec cfg s a Hcfg Hi Hda Hb) as (_ & _ & _ & _ & _ & _ & Ht & _).
    eapply incl_tran; [apply (t_log _ _ _ Ht)|]. apply IH; try assumption.
    - now rewrite Eh.
    - intros x Hx. rewrite Eh. apply Eq. split; [apply Hl; now right|]. intros ->. contradiction. }
  destruct (Inv_qpairs _ _ I1) as (_ & Qn1).
  assert (Hdue1 : In (height (after_expiry cfg s), c) (newq (after_expiry cfg s))).
  { apply Qn1. rewrite H1. unfold view in Hv1. congruence. }
  rewrite end_blocker_eq.
  destruct (fold_new_split cfg Hcfg c (due (newq (after_expiry cfg s)) (height (after_expiry cfg s)))
              (after_expiry cfg s) I1) as (sm & A1 & A2 & A3 & A4 & A5 & A6).
  - now rewrite H1.
  - apply NoDup_due; apply (inv_wf _ _ I1).
  - intros a. apply In_due.
  - now apply In_due.
  - exists sm. split; [exact A1|]. split; [congruence|]. split; [congruence|]. split; [exact A4|].
    split; [eapply incl_tran; eauto|exact A6].
Qed.

Lemma d5_counter0 rc : c_counter rc = 0 -> d5 rc = false.
Proof.
  intros E. unfold d5. rewrite E. destruct (is_state rc Running), (c_rep rc); cbn [andb]; try reflexivity.
  destruct (0 <? c_total rc) eqn:E1; cbn [andb]; [|reflexivity]. b2p. apply Z.leb_gt. lia.
Qed.

(* the first batch: a running context that has a new-batch entry at the current height (as
   every context has in the block of its creation, C10_created_queued) and whose total is not
   reached gets its batch in this very EndBlock: afterwards its counter is one higher and its
   expiry entry is at height + timeout -- or it was paused for insufficient funds *)
Theorem C10_first_batch cfg s c rc dt :
  wf_cfg cfg -> Inv cfg s -> height s < HEIGHT_BOUND ->
  In (height s, c) (newq s) -> get c (ctxs s) = Some rc -> c_state rc = Running -> d5 rc = false ->
  let s' := end_block cfg s dt in
  height s' = height s + 1 /\ get c (newq_h s') = None
  /\ ((exists n, get c (ctxs s') = Some (bump rc n)
         /\ get c (expq_h s') = Some (height s + c_timeout rc))
      \/ (get c (ctxs s') = Some (paused_ctx rc) /\ get c (expq_h s') = None)).
Proof.
  intros Hcfg Hi Hb Hdue Erc Hr Hd s'. subst s'.
  destruct (C10_L3_newbatch_consumed cfg s c Hcfg Hi Hb Hdue) as (sm & A1 & A2 & A3 & A4 & _ & A6).
  unfold end_block. sproj.
  assert (Eh : height (end_blocker cfg s) = height s).
  { destruct (end_blocker_P cfg (fun _ => True) Hcfg) with (s := s) as (_ & _ & E & _); auto. }
  split; [now rewrite Eh|].
  unfold view in A3, A6. injection A3 as V1 V2 V3. injection A6 as W1 W2 W3.
  rewrite W1, W2, W3.
  destruct (new_one_spec cfg sm c A1 A4) as (rc0 & Erc0 & _ & _ & _ & _ & _ & En' & Hcase).
  assert (rc0 = rc) by congruence. subst rc0.
  split; [exact En'|].
  destruct Hcase as [(Hx & _)|[(_ & _ & Ee' & n & Ex)|[(_ & _ & Ee' & Ex)|(Hx & _)]]]; try congruence.
  - left. exists n. rewrite A2 in Ee'. auto.
  - right. auto.
Qed.

(* ------------------------------------------------------------------ *)
(* one period of the cadence: start at H -> expiry entry at H + t (L1); nobody moves it
   (L4, L3: it is consumed at H + t); if then the context is still running with the same
   timeout t and frequency f and below its total, the next batch is queued at exactly
   H + f (L2), and consumed there (L3) *)
Theorem C10_cadence_step cfg s c rc rc' s2 rc2 :
  wf_cfg cfg ->
  (* batch (counter rc + 1) starts at H = height s *)
  Inv cfg s -> In (height s, c) (newq s) -> height s < HEIGHT_BOUND ->
  get c (ctxs s) = Some rc -> get c (ctxs (new_one cfg s c)) = Some rc' ->
  c_counter rc' <> c_counter rc ->
  (* a later state in which the expiry entry of that batch is due *)
  Inv cfg s2 -> height s2 < HEIGHT_BOUND ->
  In (height s + c_timeout rc, c) (expq s2) -> height s2 = height s + c_timeout rc ->
  get c (ctxs s2) = Some rc2 ->
  c_state rc2 = Running -> c_timeout rc2 = c_timeout rc -> c_rep rc2 = true ->
  (c_total rc2 < 0 \/ c_counter rc2 < c_total rc2) ->
  get c (expq_h (new_one cfg s c)) = Some (height s + c_timeout rc)
  /\ get c (newq_h (expire_one cfg s2 c)) = Some (height s + c_freq rc2)
  /\ In (height s + c_freq rc2, c) (newq (expire_one cfg s2 c)).
Proof.
  intros Hcfg HI Hdue Hb Erc Erc' Hd HI2 Hb2 Hdue2 Eh2 Erc2 Hr2 Et2 Hrep2 Htot2.
  destruct (C10_L1_start_expiry cfg s c rc rc' Hcfg HI Hdue Hb Erc Erc' Hd) as (_ & L1 & _).
  split; [exact L1|].
  rewrite <- Eh2 in Hdue2.
  destruct (C10_L2_expiry_next cfg s2 c rc2 Hcfg HI2 Hdue2 Hb2 Erc2 Hr2 Hrep2 Htot2) as (A & B & _).
  rewrite Eh2, Et2 in A, B.
  replace (height s + c_timeout rc - c_timeout rc + c_freq rc2) with (height s + c_freq rc2) in A, B by lia.
  auto.
Qed.

(* ------------------------------------------------------------------ *)
(* Examples *)

Module Ex10.
  Import BEx.

  Lemma inv_of s : Reach cfg0 s -> Inv cfg0 s.
  Proof. apply Reach_Inv, wf_cfg0. Qed.

  (* creation at height 1 queues the first batch at height 1 *)
  Example C10_created_queued_ex :
    get c1 (newq_h s_c) = Some 1 /\ get c2 (newq_h s_c) = Some 1 /\ height s_c = 1.
  Proof. comp. Qed.

  (* ... and the EndBlock of height 1 starts it: counter 1, expiry entry at 1 + 5 *)
  Example C10_first_batch_ex :
    Reach cfg0 s_c /\ height s_c < HEIGHT_BOUND /\ In (height s_c, c2) (newq s_c)
    /\ exists rc, get c2 (ctxs s_c) = Some rc /\ c_state rc = Running /\ d5 rc = false
         /\ c_counter rc = 0
         /\ get c2 (ctxs (end_block cfg0 s_c 1)) = Some (bump rc 2)
         /\ get c2 (expq_h (end_block cfg0 s_c 1)) = Some 6.
  Proof.
    split; [exact reach_c|]. split; [reflexivity|]. split; [vm_compute; auto|].
    eexists. split; [vm_compute; reflexivity|]. comp.
  Qed.

  (* the other branch: at height 21 the consumer of c2 cannot pay: paused, no expiry entry *)
  Example C10_first_batch_ex_paused :
    Reach cfg0 s_n3 /\ In (height s_n3, c2) (newq s_n3)
    /\ exists rc, get c2 (ctxs s_n3) = Some rc /\ c_state rc = Running /\ d5 rc = false
         /\ get c2 (ctxs (end_block cfg0 s_n3 1)) = Some (paused_ctx rc)
         /\ get c2 (expq_h (end_block cfg0 s_n3 1)) = None.
  Proof.
    split; [exact reach_n3|]. split; [vm_compute; auto|].
    eexists. split; [vm_compute; reflexivity|]. comp.
  Qed.

  (* L1 at height 11: batch 2 of c2 starts, expiry entry at 16 *)
  Example C10_L1_ex :
    Reach cfg0 s_n2 /\ In (height s_n2, c2) (newq s_n2) /\ height s_n2 = 11
    /\ exists rc rc', get c2 (ctxs s_n2) = Some rc /\ get c2 (ctxs (new_one cfg0 s_n2 c2)) = Some rc'
         /\ c_counter rc' <> c_counter rc /\ c_timeout rc = 5
         /\ expq (new_one cfg0 s_n2 c2) = [(16, c2)].
  Proof.
    split; [exact reach_n2|]. split; [vm_compute; auto|]. split; [reflexivity|].
    eexists; eexists. split; [vm_compute; reflexivity|]. split; [vm_compute; reflexivity|]. comp.
  Qed.

  (* L2 at height 6: expiry of batch 1 of c2 (timeout 5, frequency 10): next batch at 11 *)
  Example C10_L2_ex :
    Reach cfg0 s_e /\ In (height s_e, c2) (expq s_e) /\ height s_e = 6
    /\ exists rc, get c2 (ctxs s_e) = Some rc /\ c_state rc = Running /\ c_rep rc = true
         /\ c_counter rc < c_total rc /\ c_timeout rc = 5 /\ c_freq rc = 10
         /\ newq (expire_one cfg0 s_e c2) = [(11, c2)].
  Proof.
    split; [exact reach_e|]. split; [vm_compute; auto|]. split; [reflexivity|].
    eexists. split; [vm_compute; reflexivity|]. comp.
  Qed.

  (* L3: after the EndBlock of height 6 nothing is left at height 6 *)
  Example C10_L3_ex : expq s_x = [] /\ newq s_x = [(11, c2)] /\ height s_x = 7.
  Proof. comp. Qed.

  (* L4: a response moves no entry *)
  Example C10_L4_ex :
    expq s_r1 = expq s_b /\ newq s_r1 = newq s_b /\ expq_h s_r1 = expq_h s_b.
  Proof. comp. Qed.

  (* one period: start at 1, expiry due at 6, next batch queued at 1 + 10 *)
  Example C10_cadence_step_ex :
    exists rc rc' rc2,
      Reach cfg0 s_c /\ In (height s_c, c2) (newq s_c)
      /\ get c2 (ctxs s_c) = Some rc /\ get c2 (ctxs (new_one cfg0 s_c c2)) = Some rc'
      /\ c_counter rc' <> c_counter rc
      /\ Reach cfg0 s_e /\ In (height s_c + c_timeout rc, c2) (expq s_e)
      /\ height s_e = height s_c + c_timeout rc /\ get c2 (ctxs s_e) = Some rc2
      /\ c_state rc2 = Running /\ c_timeout rc2 = c_timeout rc /\ c_rep rc2 = true
      /\ c_counter rc2 < c_total rc2
      /\ get c2 (newq_h (expire_one cfg0 s_e c2)) = Some (1 + 10).
  Proof.
    eexists; eexists; eexists. split; [exact reach_c|]. split; [vm_compute; auto|].
    split; [vm_compute; reflexivity|]. split; [vm_compute; reflexivity|]. split; [vm_compute; discriminate|].
    split; [exact reach_e|]. split; [vm_compute; auto|]. split; [reflexivity|].
    split; [vm_compute; reflexivity|]. comp.
  Qed.

  (* totals: c2 (total 3) has counter 2 at height 21 *)
  Example C10_total_bound_ex :
    exists rc, get c2 (ctxs s_n3) = Some rc /\ c_rep rc = true /\ c_total rc = 3 /\ c_counter rc = 2.
  Proof. eexists. split; [vm_compute; reflexivity|]. comp. Qed.

  Example C10_oneshot_le_1_ex :
    exists rc, get c1 (ctxs s_b) = Some rc /\ c_rep rc = false /\ c_counter rc = 1
      /\ c_state rc = Running /\ has c1 (expq_h s_b) = true.
  Proof. eexists. split; [vm_compute; reflexivity|]. comp. Qed.
End Ex10.
