(* I_earn (C13): every earned-fee record is positive and belongs to a provider with an
   owner; the owner record is the sum of the records of the owner's providers.
   Preserved by every message, by both EndBlock phases and by the clock tick. *)
From Coq Require Import List ZArith Bool Lia Permutation.
From SVC Require Import Base.AMap Base.Res Base.Dec Model.Types Model.Pricing
  Model.Handlers Model.EndBlock Model.Step Proofs.Inv Proofs.Lemmas Proofs.InvWf Proofs.PFrame Proofs.WdLemmas.
Import ListNotations.
Open Scope Z_scope.

(* ------------------------------------------------------------------ *)
(* add_to on maps with positive entries *)

Definition posm {K} (m : amap K Z) : Prop := forall k v, In (k, v) m -> 0 < v.

Lemma posm_get0 {K} `{EqDec K} (k : K) (m : amap K Z) : posm m -> 0 <= get0 k m.
Proof.
  intros Hp. unfold get0. destruct (get k m) eqn:E; [|lia].
  apply get_In in E. apply Hp in E. lia.
Qed.

Lemma posm_get0_pos {K} `{EqDec K} (k : K) (m : amap K Z) v : posm m -> get k m = Some v -> 0 < get0 k m.
Proof. intros Hp E. unfold get0. rewrite E. apply get_In in E. eauto. Qed.

Lemma get0_add_to {K} `{EqDec K} (k k' : K) e (m : amap K Z) : posm m -> 0 <= e ->
  get0 k' (add_to k e m) = if eqb k' k then get0 k m + e else get0 k' m.
Proof.
  intros Hp He. pose proof (posm_get0 k m Hp) as H0.
  unfold add_to. destruct (get0 k m + e =? 0) eqn:E; b2p.
  - destruct (eqb_spec k' k) as [->|]; [lia|reflexivity].
  - apply get0_set.
Qed.

Lemma posm_add_to {K} `{EqDec K} (k : K) e (m : amap K Z) : wf m -> posm m -> 0 <= e ->
  posm (add_to k e m).
Proof.
  intros Hw Hp He. pose proof (posm_get0 k m Hp) as H0.
  unfold add_to. destruct (get0 k m + e =? 0) eqn:E; b2p; [exact Hp|].
  intros k' v Hin. apply In_set_inv in Hin; [|exact Hw].
  destruct Hin as [[-> ->]|[_ Hin]]; [lia|eauto].
Qed.

Lemma In_add_to_inv {K} `{EqDec K} (k k' : K) e v (m : amap K Z) : wf m ->
  In (k', v) (add_to k e m) -> k' = k \/ In (k', v) m.
Proof.
  intros Hw. unfold add_to. destruct (get0 k m + e =? 0); [auto|].
  intros Hin. apply In_set_inv in Hin; [|exact Hw]. tauto.
Qed.

(* effect on a sum of an additive summand *)
Lemma msum_add_to {K} `{EqDec K} (f : K -> Z -> Z) (k : K) e (m : amap K Z) :
  posm m -> 0 <= e -> f k 0 = 0 -> (forall a b, f k (a + b) = f k a + f k b) ->
  msum f (add_to k e m) = msum f m + f k e.
Proof.
  intros Hp He Hf0 Hfa. pose proof (posm_get0 k m Hp) as H0.
  unfold add_to. destruct (get0 k m + e =? 0) eqn:E; b2p.
  - assert (e = 0) by lia. subst e. rewrite Hf0. lia.
  - rewrite msum_set, Hfa. unfold fget, get0. destruct (get k m); [lia|rewrite Hf0; lia].
Qed.

Lemma msum_fold_del {K V} `{EqDec K} (f : K -> V -> Z) (l : list K) (m : amap K V) :
  (forall k v, In k l -> f k v = 0) ->
  msum f (fold_left (fun m r => del r m) l m) = msum f m.
Proof.
  revert m. induction l as [|a l IH]; cbn [fold_left]; intros m Hz; [reflexivity|].
  rewrite IH by (intros; apply Hz; now right).
  rewrite msum_del. unfold fget. destruct (get a m); [rewrite Hz by now left|]; lia.
Qed.

(* ------------------------------------------------------------------ *)
(* the summand of an owner, as a function of the owner map *)

Definition ob (ow : amap Z Z) (o p e : Z) : Z :=
  match get p ow with Some o' => if o' =? o then e else 0 | None => 0 end.

Lemma owned_by_ob s o : owned_by s o = ob (owner_of s) o.
Proof. reflexivity. Qed.

Lemma ob_0 ow o p : ob ow o p 0 = 0.
Proof. unfold ob. destruct (get p ow); [destruct (_ =? _)|]; reflexivity. Qed.

Lemma ob_add ow o p a b : ob ow o p (a + b) = ob ow o p a + ob ow o p b.
Proof. unfold ob. destruct (get p ow); [destruct (_ =? _)|]; lia. Qed.

Lemma ob_nonneg ow o p e : 0 <= e -> 0 <= ob ow o p e.
Proof. unfold ob. destruct (get p ow); [destruct (_ =? _)|]; lia. Qed.

Lemma ob_owner ow o p e o' : get p ow = Some o' -> ob ow o p e = if o' =? o then e else 0.
Proof. unfold ob. now intros ->. Qed.

Lemma fget_ob ow o p (m : amap Z Z) o' : get p ow = Some o' ->
  fget (ob ow o) p m = if o' =? o then get0 p m else 0.
Proof.
  intros E. unfold fget, get0. destruct (get p m); [now apply ob_owner|].
  now destruct (o' =? o).
Qed.

Definition I_earn' (ow earned own_earned : amap Z Z) : Prop :=
  (forall p e, In (p, e) earned -> 0 < e /\ exists o, get p ow = Some o)
  /\ (forall o e, In (o, e) own_earned -> 0 < e)
  /\ (forall o, get0 o own_earned = msum (ob ow o) earned).

Lemma I_earn_eq s : I_earn s <-> I_earn' (owner_of s) (earned s) (own_earned s).
Proof. reflexivity. Qed.

Lemma earn_same s s' :
  owner_of s' = owner_of s -> earned s' = earned s -> own_earned s' = own_earned s ->
  I_earn s -> I_earn s'.
Proof. rewrite !I_earn_eq. intros -> -> ->. auto. Qed.

Lemma earn_cframe s s' : cframe s s' -> I_earn s -> I_earn s'.
Proof. intros []. now apply earn_same. Qed.

Lemma earn_fframe s s' : fframe s s' -> I_earn s -> I_earn s'.
Proof. intros [[] []]. now apply earn_same. Qed.

(* ------------------------------------------------------------------ *)
(* bind: a provider without owner has no record *)

Lemma earn_new_owner ow earned own_earned prov owner :
  get prov ow = None -> I_earn' ow earned own_earned ->
  I_earn' (set prov owner ow) earned own_earned.
Proof.
  intros Hn (E1 & E2 & E3). unfold I_earn'. split; [|split].
  - intros p e Hin. destruct (E1 p e Hin) as (Hpos & o & Ho). split; [exact Hpos|].
    exists o. rewrite get_set_neq; [exact Ho|]. intros ->. congruence.
  - exact E2.
  - intros o. rewrite E3. apply msum_ext. intros p e Hin.
    destruct (E1 p e Hin) as (_ & o' & Ho). unfold ob.
    rewrite get_set_neq; [reflexivity|]. intros ->. congruence.
Qed.

Lemma earn_bind cfg s svc prov dep pr qos owner ok s' :
  I_earn s -> h_bind cfg s svc prov dep pr qos owner ok = Ok s' -> I_earn s'.
Proof.
  intros P H. apply bind_inv in H.
  destruct H as (amt & raw & _ & _ & _ & Hown & _ & _ & _ & _ & _ & _ & _ & _ & Ee & Eoe & Eoo & _).
  rewrite I_earn_eq in *. rewrite Ee, Eoe, Eoo.
  destruct (get prov (owner_of s)) eqn:E; [exact P|]. now apply earn_new_owner.
Qed.

(* ------------------------------------------------------------------ *)
(* AddEarnedFee *)

Lemma earn_add ow earned own_earned prov o e :
  wf earned -> wf own_earned -> get prov ow = Some o -> 0 <= e ->
  I_earn' ow earned own_earned ->
  I_earn' ow (add_to prov e earned) (add_to o e own_earned).
Proof.
  intros Hw1 Hw2 Ho He (E1 & E2 & E3).
  assert (Hp1 : posm earned) by (intros p v Hin; now apply E1 in Hin).
  assert (Hp2 : posm own_earned) by exact E2.
  unfold I_earn'. split; [|split].
  - intros p v Hin. split; [eapply (posm_add_to prov e earned); eauto|].
    apply In_add_to_inv in Hin; [|exact Hw1].
    destruct Hin as [->|Hin]; [eauto|]. now apply E1 in Hin.
  - exact (posm_add_to o e own_earned Hw2 Hp2 He).
  - intros o'. rewrite get0_add_to by assumption.
    rewrite msum_add_to; auto using ob_0, ob_add.
    rewrite (ob_owner _ _ _ _ _ Ho), <- E3.
    change (eqb o' o) with (o' =? o). rewrite (Z.eqb_sym o o').
    destruct (o' =? o) eqn:Eq; b2p; [subst; lia|lia].
Qed.

Lemma earn_add_earned cfg s r prov fee s1 :
  I_wf s -> I_earn s -> 0 <= fee ->
  add_earned_fee cfg s r prov fee = Ok s1 -> I_earn s1.
Proof.
  unfold add_earned_fee. intros Hwf P Hfee H. inv_ok H. rename a into sa.
  pose proof (cf_transfer _ _ _ _ _ Ha) as [F1 F2 F3 F4 F5 F6 F7 F8 F9].
  sproj. rewrite F4 in H.
  destruct (get prov (owner_of s)) as [o|] eqn:Eo; inv_ok H. subst s1.
  rewrite I_earn_eq in *. sproj. rewrite F4, F8, F9. b2p.
  apply earn_add; auto; try apply Hwf. lia.
Qed.

Lemma earn_respond cfg s r who code out out_valid ok s' :
  I_wf s -> I_earn s -> I_req s ->
  h_respond cfg s r who code out out_valid ok = Ok s' -> I_earn s'.
Proof.
  intros Hwf P HR H. apply respond_inv in H.
  destruct H as (q & rc0 & s1 & rc & _ & Hq & Hrc0 & _ & _ & Hset & Hrc & ->).
  assert (H1 : I_earn s1).
  { destruct Hset as [[_ (sa & Es & Er)]|[_ Ea]].
    - eapply earn_fframe; [|exact P].
      eapply fframe_trans; [eapply ff_slash; eauto|eapply ff_refund_fee; eauto].
    - eapply earn_add_earned; eauto.
      destruct HR as (R1 & _). apply get_In in Hq. destruct (R1 _ _ Hq) as (rc1 & Hx). tauto. }
  eapply earn_fframe; [|exact H1].
  eapply fframe_trans; [apply ff_resp_mid|apply ff_resp_finish].
Qed.

(* ------------------------------------------------------------------ *)
(* WithdrawEarnedFees *)

Definition owner_provs (s : State) (owner : Z) : list Z :=
  map snd (filter (fun op => fst op =? owner) (own_prov s)).

Lemma In_owner_provs s owner p : In p (owner_provs s owner) <-> In (owner, p) (own_prov s).
Proof.
  unfold owner_provs. rewrite in_map_iff. split.
  - intros ([o p'] & E & Hin). cbn [snd] in E. subst p'. apply filter_In in Hin.
    destruct Hin as [Hin Ho]. cbn [fst] in Ho. b2p. now subst.
  - intros Hin. exists (owner, p). split; [reflexivity|]. apply filter_In.
    split; [exact Hin|]. cbn [fst]. apply Z.eqb_refl.
Qed.

(* the record of one provider never exceeds its owner's record *)
Lemma earn_record_le ow earned own_earned prov owner :
  I_earn' ow earned own_earned -> get prov ow = Some owner ->
  get0 prov earned <= get0 owner own_earned.
Proof.
  intros (E1 & E2 & E3) Ho. rewrite E3.
  pose proof (msum_ge_fget (ob ow owner) prov earned) as Hle.
  rewrite (fget_ob _ _ _ _ _ Ho), Z.eqb_refl in Hle. apply Hle.
  intros p e Hin. apply ob_nonneg. apply E1 in Hin. lia.
Qed.

Lemma earn_withdraw_one ow earned own_earned prov owner :
  wf earned -> wf own_earned -> get prov ow = Some owner ->
  I_earn' ow earned own_earned ->
  let e := get0 prov earned in let oe := get0 owner own_earned in
  I_earn' ow (del prov earned)
    (if e =? oe then del owner own_earned else set owner (oe - e) own_earned).
Proof.
  intros Hw1 Hw2 Ho P e oe. pose proof (earn_record_le _ _ _ _ _ P Ho) as Hle.
  fold e oe in Hle. destruct P as (E1 & E2 & E3).
  unfold I_earn'. split; [|split].
  - intros p v Hin. apply In_del_inv in Hin; [|exact Hw1]. apply E1. tauto.
  - intros o v Hin. destruct (e =? oe) eqn:Eq; b2p.
    + apply In_del_inv in Hin; [|exact Hw2]. eapply E2. apply Hin.
    + apply In_set_inv in Hin; [|exact Hw2]. destruct Hin as [[_ ->]|[_ Hin]]; [lia|eauto].
  - intros o. rewrite msum_del, (fget_ob _ _ _ _ _ Ho), <- E3. fold e.
    destruct (e =? oe) eqn:Eq; b2p.
    + rewrite get0_del by exact Hw2. change (eqb o owner) with (o =? owner).
      rewrite (Z.eqb_sym owner o). destruct (o =? owner) eqn:Eo; b2p; [subst; fold oe|]; lia.
    + rewrite get0_set. change (eqb o owner) with (o =? owner).
      rewrite (Z.eqb_sym owner o). destruct (o =? owner) eqn:Eo; b2p; [subst; fold oe|]; lia.
Qed.

Lemma earn_withdraw_all ow earned own_earned owner provs :
  wf earned -> wf own_earned ->
  (forall p, In p provs <-> get p ow = Some owner) ->
  I_earn' ow earned own_earned ->
  I_earn' ow (fold_left (fun m p => del p m) provs earned) (del owner own_earned).
Proof.
  intros Hw1 Hw2 Hpr (E1 & E2 & E3).
  assert (Hw1' : wf (fold_left (fun m p => del p m) provs earned)) by now apply fold_del_wf.
  assert (Hold : forall p v, In (p, v) (fold_left (fun m p => del p m) provs earned) ->
                   ~ In p provs /\ In (p, v) earned).
  { intros p v Hin. apply In_get in Hin; [|exact Hw1'].
    rewrite get_fold_del in Hin by exact Hw1.
    destruct (mem p provs) eqn:Em; [discriminate|].
    apply mem_nIn in Em. split; [exact Em|now apply get_In]. }
  unfold I_earn'. split; [|split].
  - intros p v Hin. apply Hold in Hin. apply E1. tauto.
  - intros o v Hin. apply In_del_inv in Hin; [|exact Hw2]. eapply E2. apply Hin.
  - intros o. rewrite get0_del by exact Hw2. change (eqb o owner) with (o =? owner).
    destruct (o =? owner) eqn:Eo; b2p.
    + subst o. symmetry. apply msum_zero. intros p v Hin. apply Hold in Hin.
      destruct Hin as [Hni _]. unfold ob. destruct (get p ow) as [o'|] eqn:Ep; [|reflexivity].
      destruct (o' =? owner) eqn:Eo'; b2p; [|reflexivity].
      subst o'. apply Hpr in Ep. contradiction.
    + rewrite msum_fold_del; [apply E3|].
      intros p v Hin. apply Hpr in Hin. rewrite (ob_owner _ _ _ _ _ Hin).
      destruct (owner =? o) eqn:E; b2p; [congruence|reflexivity].
Qed.

Lemma withdraw_provs_spec cfg s owner : I_index cfg s ->
  forall p, In p (owner_provs s owner) <-> get p (owner_of s) = Some owner.
Proof. intros (_ & _ & P3 & _) p. rewrite In_owner_provs. apply P3. Qed.

Lemma withdraw_check s owner prov :
  (prov =? 0) || match get prov (owner_of s) with Some o => o =? owner | None => false end = true ->
  (prov =? 0) = false -> get prov (owner_of s) = Some owner.
Proof.
  intros Hc E0. rewrite E0 in Hc. cbn [orb] in Hc.
  destruct (get prov (owner_of s)); [|discriminate]. b2p. now subst.
Qed.

(* the state after the bookkeeping part of a withdrawal, before the payout *)
Definition withdraw_books (s : State) (owner prov : Z) : State :=
  if prov =? 0 then
    set_own_earned (set_earned s (fold_left (fun m p => del p m) (owner_provs s owner) (earned s)))
      (del owner (own_earned s))
  else
    let e := get0 prov (earned s) in let oe := get0 owner (own_earned s) in
    set_own_earned (set_earned s (del prov (earned s)))
      (if e =? oe then del owner (own_earned s) else set owner (oe - e) (own_earned s)).

Definition withdraw_amount (s : State) (owner prov : Z) : Z :=
  if prov =? 0 then get0 owner (own_earned s) else get0 prov (earned s).

Definition withdraw_dest (s : State) (owner : Z) : Z :=
  match get owner (wdaddr s) with Some a => a | None => owner end.

Lemma withdraw_inv cfg s owner prov ok s' :
  I_wd s -> I_index cfg s -> I_earn s -> h_withdraw s owner prov ok = Ok s' ->
  ok = true
  /\ ((prov =? 0) = false -> get prov (owner_of s) = Some owner)
  /\ exists s3,
       transfer Escrow (User (withdraw_dest s owner)) (withdraw_amount s owner prov)
         (withdraw_books s owner prov) = Some s3
       /\ s' = emit (EvWithdraw owner (withdraw_dest s owner) (withdraw_amount s owner prov)) s3.
Proof.
  intros Hwd PI P H. unfold h_withdraw in H. rewrite (withdraw_dacct s owner Hwd) in H. inv_ok H.
  pose proof (withdraw_check _ _ _ Hc0) as Ho.
  split; [exact Hc|]. split; [exact Ho|].
  unfold withdraw_books, withdraw_amount. fold (withdraw_dest s owner) in H.
  destruct (prov =? 0) eqn:E0.
  - inv_ok H. fold (owner_provs s owner) in Ha. eauto.
  - inv_ok H. rename a into s2, a0 into s3. exists s3. split; [|now subst].
    specialize (Ho eq_refl).
    rewrite I_earn_eq in P. pose proof (earn_record_le _ _ _ _ _ P Ho) as Hle.
    cbv zeta. sproj.
    destruct (get0 prov (earned s) =? get0 owner (own_earned s)) eqn:Eq.
    + inv_ok Ha. now subst s2.
    + destruct (get0 owner (own_earned s) - get0 prov (earned s) <? 0) eqn:El; b2p; [lia|].
      inv_ok Ha. now subst s2.
Qed.

Lemma earn_withdraw_books cfg s owner prov :
  I_wf s -> I_index cfg s -> I_earn s ->
  ((prov =? 0) = false -> get prov (owner_of s) = Some owner) ->
  I_earn (withdraw_books s owner prov).
Proof.
  intros Hwf PI P Ho. unfold withdraw_books. rewrite I_earn_eq in P.
  destruct (prov =? 0) eqn:E0; rewrite I_earn_eq; sproj.
  - eapply earn_withdraw_all; eauto; try apply Hwf.
    eapply withdraw_provs_spec; eauto.
  - apply earn_withdraw_one; auto; apply Hwf.
Qed.

Lemma earn_withdraw cfg s owner prov ok s' :
  I_wd s -> I_wf s -> I_index cfg s -> I_earn s -> h_withdraw s owner prov ok = Ok s' -> I_earn s'.
Proof.
  intros Hwd Hwf PI P H. pose proof (withdraw_inv _ _ _ _ _ _ Hwd PI P H) as (_ & Ho & s3 & Et & ->).
  eapply earn_cframe; [apply cf_emit|].
  eapply earn_cframe; [eapply cf_transfer; eauto|].
  eapply earn_withdraw_books; eauto.
Qed.

(* the Panic branch of WithdrawEarnedFees (negative owner record) is unreachable *)
Theorem C13_withdraw_no_panic cfg s owner prov ok :
  Inv cfg s -> h_withdraw s owner prov ok <> Panic.
Proof.
  intros HI Hp. pose proof (inv_earn _ _ HI) as P. rewrite I_earn_eq in P.
  unfold h_withdraw in Hp.
  apply guard_panic in Hp. destruct Hp as [_ Hp].
  apply guard_panic in Hp. destruct Hp as [Hc Hp].
  pose proof (withdraw_check _ _ _ Hc) as Ho.
  destruct (prov =? 0) eqn:E0.
  - apply bind_panic in Hp. destruct Hp as [Hp|(a & _ & Hp)]; [|discriminate].
    exact (of_opt_not_panic _ Hp).
  - specialize (Ho eq_refl).
    pose proof (earn_record_le _ _ _ _ _ P Ho) as Hle.
    apply bind_panic in Hp. destruct Hp as [Hp|(a & _ & Hp)].
    + destruct (get0 prov (earned s) =? get0 owner (own_earned s)); [discriminate|].
      destruct (get0 owner (own_earned s) - get0 prov (earned s) <? 0) eqn:El; [|discriminate].
      b2p. lia.
    + apply bind_panic in Hp. destruct Hp as [Hp|(a0 & _ & Hp)]; [|discriminate].
      exact (of_opt_not_panic _ Hp).
Qed.

(* ------------------------------------------------------------------ *)
(* interface *)

Lemma I_earn_init h0 t0 f : 1 <= h0 -> 0 <= t0 -> wf_funding f -> I_earn (init h0 t0 f).
Proof.
  intros _ _ _. unfold I_earn, init. sproj. split; [|split].
  - intros p e [].
  - intros o e [].
  - intros o. reflexivity.
Qed.

Lemma I_earn_msg cfg s o s' :
  wf_cfg cfg -> Inv cfg s -> wf_op s o -> (forall dt, o <> OEndBlock dt) ->
  handle cfg s o = Ok s' -> I_earn s'.
Proof.
  intros _ HI _ Hne H.
  pose proof (inv_wf _ _ HI) as Hwf. pose proof (inv_earn _ _ HI) as P.
  destruct (earn_op o) eqn:He.
  - destruct o; try discriminate; cbn [handle] in H.
    + eapply earn_respond; eauto. apply HI.
    + eapply earn_withdraw; eauto; apply HI.
  - destruct (is_bind o) eqn:Hb.
    + destruct o; try discriminate; cbn [handle] in H. eapply earn_bind; eauto.
    + pose proof (eframe_msg _ _ _ _ H He) as [E1 E2].
      pose proof (owner_of_msg _ _ _ _ H Hb) as [E3 _].
      eapply earn_same; eauto.
Qed.

Lemma I_earn_expire_one cfg s c :
  wf_cfg cfg -> Inv cfg s -> In (height s, c) (expq s) -> height s < HEIGHT_BOUND ->
  I_earn (expire_one cfg s c).
Proof. intros _ HI _ _. eapply earn_fframe; [apply ff_expire_one|apply HI]. Qed.

Lemma I_earn_new_one cfg s c :
  wf_cfg cfg -> Inv cfg s -> In (height s, c) (newq s) -> height s < HEIGHT_BOUND ->
  I_earn (new_one cfg s c).
Proof. intros _ HI _ _. eapply earn_fframe; [apply ff_new_one|apply HI]. Qed.

Lemma I_earn_tick s dt : I_earn s -> 0 <= dt ->
  I_earn (set_time (set_height s (height s + 1)) (time s + dt)).
Proof. intros P _. exact P. Qed.

Lemma I_earn_end_block cfg s dt : I_earn s -> I_earn (end_block cfg s dt).
Proof. intros P. eapply earn_fframe; [apply ff_end_block|exact P]. Qed.
