(* I_escrow (property C01): the escrow account holds exactly the fees of the
   requests still awaiting a response plus the earnings not yet withdrawn. *)
From Coq Require Import List ZArith Bool Lia Permutation.
From SVC Require Import Base.AMap Base.Res Base.Dec Model.Types Model.Pricing
  Model.Handlers Model.EndBlock Model.Step Proofs.Inv Proofs.Lemmas Proofs.ReqLemmas
  Proofs.DecProofs Proofs.PricingProofs.
Import ListNotations.
Open Scope Z_scope.

Lemma escrow_frame s s1 :
  reqs s1 = reqs s -> earned s1 = earned s -> bal s1 Escrow = bal s Escrow ->
  I_escrow s -> I_escrow s1.
Proof. unfold I_escrow. intros -> -> ->. auto. Qed.

Lemma transfer_escrow_other a b amt s s1 :
  transfer a b amt s = Some s1 -> a <> Escrow -> b <> Escrow ->
  reqs s1 = reqs s /\ earned s1 = earned s /\ bal s1 Escrow = bal s Escrow.
Proof.
  intros E Ha Hb. pose proof (transfer_bal _ _ _ _ _ Escrow E) as Hbal.
  pose proof (transfer_frame _ _ _ _ _ E) as Hf.
  destruct (eqb_spec Escrow a); [congruence|]. destruct (eqb_spec Escrow b); [congruence|].
  rewrite Hf at 1 2. sproj. repeat split. lia.
Qed.

Lemma pay_deposit_escrow s k o amt s1 :
  pay_deposit s k o amt = Ok s1 ->
  reqs s1 = reqs s /\ earned s1 = earned s /\ bal s1 Escrow = bal s Escrow.
Proof.
  intros E. apply pay_deposit_inv in E. destruct E as (s0 & Et & ->).
  apply transfer_escrow_other in Et; try discriminate. exact Et.
Qed.

Ltac esc_frame := apply escrow_frame; sproj; try reflexivity; try assumption.

Lemma escrow_msg_simple cfg s o s' :
  handle cfg s o = Ok s' ->
  match o with ORespond _ _ _ _ _ _ | OWithdraw _ _ _ | OEndBlock _ => False | _ => True end ->
  reqs s' = reqs s /\ earned s' = earned s /\ bal s' Escrow = bal s Escrow.
Proof.
  intros H Hk. destruct o; cbn [handle] in H; try contradiction.
  - unfold h_define in H. inv_ok H. destruct (get svc (defs s)); inv_ok H. subst. repeat split.
  - unfold h_bind in H. inv_ok H. sproj.
    apply pay_deposit_escrow in Ha2. destruct Ha2 as (E1 & E2 & E3).
    destruct (get prov (owner_of a2)); inv_ok H; subst; unfold bal in *; sproj; repeat split; assumption.
  - unfold h_update in H. inv_ok H.
    assert (E : reqs a3 = reqs s /\ earned a3 = earned s /\ bal a3 Escrow = bal s Escrow).
    { destruct (coins_empty dep); inv_ok Ha3; [subst; repeat split|]. now apply pay_deposit_escrow in Ha3. }
    destruct E as (E1 & E2 & E3).
    destruct (negb (qos =? 0) || negb (coins_empty dep) || match pr with Some _ => true | None => false end);
      [|inv_ok H; subst; repeat split; assumption].
    destruct a1 as [[raw p]|]; inv_ok H; subst; unfold bal in *; sproj; repeat split; assumption.
  - unfold h_disable in H. inv_ok H. subst. repeat split.
  - unfold h_enable in H. inv_ok H. subst.
    assert (E : reqs a2 = reqs s /\ earned a2 = earned s /\ bal a2 Escrow = bal s Escrow).
    { destruct (coins_empty dep); inv_ok Ha2; [subst; repeat split|]. now apply pay_deposit_escrow in Ha2. }
    destruct E as (E1 & E2 & E3). unfold bal in *; sproj; repeat split; assumption.
  - unfold h_refund_deposit in H. inv_ok H. subst.
    apply transfer_escrow_other in Ha0; try discriminate. destruct Ha0 as (E1 & E2 & E3).
    unfold bal in *; sproj; repeat split; assumption.
  - unfold h_set_withdraw in H. inv_ok H. subst. repeat split.
  - unfold h_call, create_context in H. inv_ok H. subst. repeat split.
  - unfold create_context in H. inv_ok H. subst. repeat split.
  - unfold h_pause, authorized in H. inv_ok H. subst. repeat split.
  - unfold h_start, authorized in H. inv_ok H.
    match type of H with (if ?b then _ else _) = _ => destruct b end; inv_ok H; subst; repeat split.
  - unfold h_kill, authorized in H. inv_ok H. subst. repeat split.
  - unfold h_update_ctx, authorized in H. inv_ok H. subst. repeat split.
  - unfold h_transfer in H. inv_ok H. apply transfer_escrow_other in H; try discriminate. exact H.
Qed.

(* ---- respond ---- *)

Lemma earned_nonneg s : I_earn s -> forall p, 0 <= get0 p (earned s).
Proof.
  intros (He & _) p. unfold get0. destruct (get p (earned s)) eqn:G; [|lia].
  apply get_In in G. apply He in G. lia.
Qed.

Lemma escrow_respond cfg s r who code out out_valid ok s' :
  wf_cfg cfg -> Inv cfg s ->
  h_respond cfg s r who code out out_valid ok = Ok s' -> I_escrow s'.
Proof.
  intros Hcfg Hinv H. apply respond_inv in H.
  destruct H as (q & rc0 & s1 & rc & _ & Hq & Hrc0 & Hwho & Hact & Hset & Hrc & ->).
  pose proof (resp_tail_money s1 r who rc0 code out (rid_ctx r) rc) as T. cbv zeta in T.
  destruct T as (T1 & T2 & _ & T4 & _).
  unfold I_escrow. unfold bal at 1. rewrite T1, T2, T4. fold (bal s1 Escrow).
  pose proof (inv_escrow _ _ Hinv) as He. unfold I_escrow in He.
  assert (Hfee : 0 <= r_fee q).
  { destruct (inv_req _ _ Hinv) as (R1 & _). apply get_In in Hq. destruct (R1 _ _ Hq) as (? & _ & _ & _ & Hf & _). exact Hf. }
  destruct Hset as [[_ (sa & Es & Er)]|[_ Ea]].
  - (* malformed output: slash, refund *)
    pose proof (slash_core _ _ _ _ Es) as (C1 & _ & _ & C4 & _).
    pose proof (refund_core _ _ _ _ _ Er) as (D1 & _ & _ & D4 & _).
    pose proof (slash_bal _ _ _ _ Escrow Es ltac:(discriminate)) as B1.
    pose proof (refund_bal _ _ _ _ _ Escrow Er) as B2. cbn in B2.
    assert (Gq : get r (reqs s1) = Some q) by (rewrite D1, C1; exact Hq).
    rewrite (msum_fee_deactivate _ _ _ Gq), D1, C1, D4, C4.
    unfold fee_active at 2. rewrite Hact. lia.
  - (* accepted: tax and earnings *)
    apply add_earned_shape in Ea. destruct Ea as (o & s0 & Et & Hle & Ho & ->). cbv zeta in *.
    pose proof (transfer_bal _ _ _ _ _ Escrow Et) as B. cbn in B.
    unfold bal at 1. sproj. fold (bal s0 Escrow).
    rewrite deactivate_reqs. sproj. rewrite Hq. rewrite msum_set. unfold fget. rewrite Hq.
    rewrite msum_vid_add_to; [| lia | apply earned_nonneg, (inv_earn _ _ Hinv)].
    unfold fee_active at 2 3. cbn [r_active setr_active]. rewrite Hact. lia.
Qed.

(* ---- withdraw ---- *)

Lemma msum_vid_del {K} `{EqDec K} (k : K) (m : amap K Z) : msum vid (del k m) = msum vid m - get0 k m.
Proof. now rewrite msum_del, fget_vid. Qed.

(* deleting the records of a duplicate-free list of keys removes exactly their sum *)
Fixpoint sum_keys {K} `{EqDec K} (l : list K) (m : amap K Z) : Z :=
  match l with [] => 0 | k :: t => get0 k m + sum_keys t m end.

Lemma msum_fold_del_keys {K} `{EqDec K} (l : list K) (m : amap K Z) :
  wf m -> NoDup l ->
  msum vid (fold_left (fun m r => del r m) l m) = msum vid m - sum_keys l m.
Proof.
  revert m. induction l as [|a l IH]; cbn [fold_left sum_keys]; intros m Hw Hn; [lia|].
  inversion Hn as [|? ? Hni Hn']; subst.
  rewrite IH by (auto using wf_del). rewrite msum_vid_del.
  assert (E : sum_keys l (del a m) = sum_keys l m).
  { clear IH Hn Hn'. induction l as [|b l IHl]; cbn [sum_keys]; [reflexivity|].
    rewrite get0_del by assumption. destruct (eqb_spec b a) as [->|].
    - exfalso. apply Hni. now left.
    - rewrite IHl; [reflexivity|]. intros Hin. apply Hni. now right. }
  rewrite E. lia.
Qed.

Lemma sum_keys_msum {K} `{EqDec K} (l : list K) (m : amap K Z) :
  wf m -> NoDup l ->
  sum_keys l m = msum (fun k v => if mem k l then v else 0) m.
Proof.
  intros Hw. revert l. unfold wf, keys in Hw.
  induction m as [|[k0 v0] t IH]; intros l Hn.
  - cbn [msum]. induction l as [|a l IHl]; cbn [sum_keys]; [reflexivity|].
    inversion Hn; subst. rewrite IHl by assumption. reflexivity.
  - cbn [map fst] in Hw. inversion Hw as [|? ? Hni Hw']; subst.
    cbn [msum].
    assert (E : forall l, NoDup l -> sum_keys l ((k0, v0) :: t) = (if mem k0 l then v0 else 0) + sum_keys l t).
    { clear -Hni. intros l. induction l as [|a l IHl]; intros Hn; cbn [sum_keys mem]; [lia|].
      inversion Hn as [|? ? Hna Hn']; subst. rewrite IHl by assumption.
      assert (G : get0 a ((k0, v0) :: t) = if eqb a k0 then v0 else get0 a t)
        by (unfold get0; cbn [get]; now destruct (eqb a k0)).
      rewrite G.
      destruct (eqb_spec a k0) as [->|Hne].
      - rewrite eqb_refl. assert (M : mem k0 l = false) by now apply mem_nIn. rewrite M.
        assert (G0 : get0 k0 t = 0) by (unfold get0; now rewrite (proj2 (get_None_notin k0 t) Hni)).
        rewrite G0. lia.
      - destruct (eqb_spec k0 a); [congruence|]. lia. }
    rewrite E by assumption. rewrite IH by assumption. reflexivity.
Qed.

Lemma In_owner_provs (l : list (Z * Z)) o p :
  In p (map snd (filter (fun op => fst op =? o) l)) <-> In (o, p) l.
Proof.
  rewrite in_map_iff. split.
  - intros ([a b] & E & Hin). cbn [snd] in E. subst b. apply filter_In in Hin.
    destruct Hin as [Hin Hf]. cbn [fst] in Hf. apply Z.eqb_eq in Hf. now subst a.
  - intros Hin. exists (o, p). split; [reflexivity|]. apply filter_In. split; [assumption|].
    cbn [fst]. apply Z.eqb_refl.
Qed.

Lemma NoDup_owner_provs (l : list (Z * Z)) o :
  NoDup l -> NoDup (map snd (filter (fun op => fst op =? o) l)).
Proof.
  induction l as [|[a b] t IH]; cbn [filter map]; intros Hn; [constructor|].
  inversion Hn as [|? ? Hni Hn']; subst. cbn [fst].
  destruct (Z.eqb_spec a o) as [->|]; [|auto].
  cbn [map snd]. constructor; [|auto].
  rewrite In_owner_provs. exact Hni.
Qed.

Lemma escrow_withdraw cfg s owner prov ok s' :
  Inv cfg s -> h_withdraw s owner prov ok = Ok s' -> I_escrow s'.
Proof.
  intros Hinv H. unfold h_withdraw in H. inv_ok H.
  pose proof (inv_escrow _ _ Hinv) as He. unfold I_escrow in He.
  pose proof (inv_wf _ _ Hinv) as Hwf.
  assert (Hwe : wf (earned s)) by apply Hwf.
  destruct (prov =? 0) eqn:Ep.
  - inv_ok H. subst s'.
    pose proof (transfer_bal _ _ _ _ _ Escrow Ha) as B. cbn in B.
    pose proof (transfer_frame _ _ _ _ _ Ha) as Hf.
    unfold I_escrow. unfold bal at 1. rewrite Hf. sproj. fold (bal a Escrow). rewrite B.
    unfold bal at 1. sproj. fold (bal s Escrow).
    set (provs := map snd (filter (fun op => fst op =? owner) (own_prov s))).
    assert (Hnd : NoDup provs) by (apply NoDup_owner_provs; apply Hwf).
    rewrite (msum_fold_del_keys provs (earned s) Hwe Hnd).
    rewrite (sum_keys_msum provs (earned s) Hwe Hnd).
    destruct (inv_earn _ _ Hinv) as (E1 & _ & E3). rewrite (E3 owner).
    assert (Hext : msum (fun k v => if mem k provs then v else 0) (earned s) = msum (owned_by s owner) (earned s)).
    { apply msum_ext. intros p e Hin. unfold owned_by.
      destruct (inv_index _ _ Hinv) as (_ & _ & I3 & _).
      destruct (mem p provs) eqn:M.
      - apply mem_In in M. unfold provs in M. apply In_owner_provs in M. apply I3 in M. rewrite M.
        now rewrite Z.eqb_refl.
      - apply mem_nIn in M. destruct (get p (owner_of s)) as [o'|] eqn:G; [|reflexivity].
        destruct (Z.eqb_spec o' owner) as [->|]; [|reflexivity].
        exfalso. apply M. unfold provs. apply In_owner_provs. now apply I3. }
    rewrite Hext. lia.
  - inv_ok H. subst s'.
    pose proof (transfer_bal _ _ _ _ _ Escrow Ha0) as B. cbn in B.
    pose proof (transfer_frame _ _ _ _ _ Ha0) as Hf.
    unfold I_escrow. unfold bal at 1. rewrite Hf. sproj. fold (bal a0 Escrow). rewrite B.
    assert (Ea : reqs a = reqs s /\ earned a = del prov (earned s) /\ bank a = bank s).
    { destruct (get0 prov (earned s) =? get0 owner (own_earned s)); [|destruct (_ <? 0)]; inv_ok Ha; subst a; repeat split. }
    destruct Ea as (A1 & A2 & A3). unfold bal. rewrite A1, A2, A3. fold (bal s Escrow).
    rewrite msum_vid_del. lia.
Qed.

Theorem I_escrow_msg cfg s o s' :
  wf_cfg cfg -> Inv cfg s -> wf_op s o -> (forall dt, o <> OEndBlock dt) ->
  handle cfg s o = Ok s' -> I_escrow s'.
Proof.
  intros Hcfg Hinv Hop Hne H.
  destruct o; try (pose proof (escrow_msg_simple _ _ _ _ H I) as (E1 & E2 & E3);
                   exact (escrow_frame _ _ E1 E2 E3 (inv_escrow _ _ Hinv))).
  - cbn [handle] in H. eapply escrow_respond; eauto.
  - cbn [handle] in H. eapply escrow_withdraw; eauto.
  - exfalso. eapply Hne. reflexivity.
Qed.
