(* I_escrow (property C01): the escrow account holds exactly the fees of the
   requests still awaiting a response plus the earnings not yet withdrawn. *)
From Coq Require Import List ZArith Bool Lia Permutation.
From SVC Require Import Base.AMap Base.Res Base.Dec Model.Types Model.Pricing
  Model.Handlers Model.EndBlock Model.Step Proofs.Inv Proofs.Lemmas Proofs.ReqLemmas
  Proofs.DecProofs Proofs.PricingProofs Proofs.CtxOps Proofs.WdLemmas.
Import ListNotations.
Open Scope Z_scope.

Lemma escrow_frame s s1 :
  reqs s1 = reqs s -> earned s1 = earned s -> bal s1 Escrow = bal s Escrow ->
  I_escrow s -> I_escrow s1.
Proof. unfold I_escrow. intros -> -> ->. auto. Qed.

Lemma transfer_escrow_other a b amt s s1 :
  transfer a b amt s = Some s1 -> a <> Escrow -> b <> Escrow ->
  reqs s1 = reqs s /\ earned s1 = earned s /\ bal s1 Escrow = bal s Escrow.
Proof.
  intros E Ha Hb. pose proof (transfer_bal _ _ _ _ _ Escrow E) as Hbal.
  pose proof (transfer_frame _ _ _ _ _ E) as Hf.
  destruct (eqb_spec Escrow a); [congruence|]. destruct (eqb_spec Escrow b); [congruence|].
  rewrite Hf at 1 2. sproj. repeat split. lia.
Qed.

Lemma pay_deposit_escrow s k o amt s1 :
  pay_deposit s k o amt = Ok s1 ->
  reqs s1 = reqs s /\ earned s1 = earned s /\ bal s1 Escrow = bal s Escrow.
Proof.
  intros E. apply pay_deposit_inv in E. destruct E as (s0 & Et & ->).
  apply transfer_escrow_other in Et; try discriminate. exact Et.
Qed.

Ltac esc_frame := apply escrow_frame; sproj; try reflexivity; try assumption.

Lemma escrow_msg_simple cfg s o s' :
  handle cfg s o = Ok s' ->
  match o with ORespond _ _ _ _ _ _ | OWithdraw _ _ _ | OEndBlock _ => False | _ => True end ->
  reqs s' = reqs s /\ earned s' = earned s /\ bal s' Escrow = bal s Escrow.
Proof.
  intros H Hk. destruct o; cbn [handle] in H; try contradiction.
  - unfold h_define in H. inv_ok H. destruct (get svc (defs s)); inv_ok H. subst. repeat split.
  - unfold h_bind in H. inv_ok H. sproj.
    apply pay_deposit_escrow in Ha2. destruct Ha2 as (E1 & E2 & E3).
    destruct (get prov (owner_of a2)); inv_ok H; subst; unfold bal in *; sproj; repeat split; assumption.
  - unfold h_update in H. inv_ok H.
    assert (E : reqs a3 = reqs s /\ earned a3 = earned s /\ bal a3 Escrow = bal s Escrow).
    { destruct (coins_empty dep); inv_ok Ha3; [subst; repeat split|]. now apply pay_deposit_escrow in Ha3. }
    destruct E as (E1 & E2 & E3).
    destruct (negb (qos =? 0) || negb (coins_empty dep) || match pr with Some _ => true | None => false end);
      [|inv_ok H; subst; repeat split; assumption].
    destruct a1 as [[raw p]|]; inv_ok H; subst; unfold bal in *; sproj; repeat split; assumption.
  - unfold h_disable in H. inv_ok H. subst. repeat split.
  - unfold h_enable in H. inv_ok H. subst.
    assert (E : reqs a2 = reqs s /\ earned a2 = earned s /\ bal a2 Escrow = bal s Escrow).
    { destruct (coins_empty dep); inv_ok Ha2; [subst; repeat split|]. now apply pay_deposit_escrow in Ha2. }
    destruct E as (E1 & E2 & E3). unfold bal in *; sproj; repeat split; assumption.
  - unfold h_refund_deposit in H. inv_ok H. subst.
    apply transfer_escrow_other in Ha0; try discriminate. destruct Ha0 as (E1 & E2 & E3).
    unfold bal in *; sproj; repeat split; assumption.
  - unfold h_set_withdraw in H. inv_ok H. subst. repeat split.
  - unfold h_call, create_context in H. inv_ok H. subst. repeat split.
  - unfold create_context in H. inv_ok H. subst. repeat split.
  - unfold h_pause, authorized in H. inv_ok H. subst. repeat split.
  - unfold h_start, authorized in H. inv_ok H.
    match type of H with (if ?b then _ else _) = _ => destruct b end; inv_ok H; subst; repeat split.
  - unfold h_kill, authorized in H. inv_ok H. subst. repeat split.
  - unfold h_update_ctx, update_ctx_tail, authorized in H. inv_ok H. subst. repeat split.
  - unfold h_transfer in H. inv_ok H. apply transfer_escrow_other in H; try discriminate. exact H.
  - mod_shape H; repeat split.
  - mod_shape H; repeat split.
  - mod_shape H; repeat split.
  - mod_shape H; repeat split.
Qed.

(* ---- respond ---- *)

Lemma earned_nonneg s : I_earn s -> forall p, 0 <= get0 p (earned s).
Proof.
  intros (He & _) p. unfold get0. destruct (get p (earned s)) eqn:G; [|lia].
  apply get_In in G. apply He in G. lia.
Qed.

Lemma escrow_respond cfg s r who code out out_valid ok s' :
  wf_cfg cfg -> Inv cfg s ->
  h_respond cfg s r who code out out_valid ok = Ok s' -> I_escrow s'.
Proof.
  intros Hcfg Hinv H. apply respond_inv in H.
  destruct H as (q & rc0 & s1 & rc & _ & Hq & Hrc0 & Hwho & Hact & Hset & Hrc & ->).
  pose proof (resp_tail_money s1 r who rc0 code out (rid_ctx r) rc) as T. cbv zeta in T.
  destruct T as (T1 & T2 & _ & T4 & _).
  unfold I_escrow. unfold bal at 1. rewrite T1, T2, T4. fold (bal s1 Escrow).
  pose proof (inv_escrow _ _ Hinv) as He. unfold I_escrow in He.
  assert (Hfee : 0 <= r_fee q).
  { destruct (inv_req _ _ Hinv) as (R1 & _). apply get_In in Hq. destruct (R1 _ _ Hq) as (? & _ & _ & _ & Hf & _). exact Hf. }
  destruct Hset as [[_ (sa & Es & Er)]|[_ Ea]].
  - (* malformed output: slash, refund *)
    pose proof (slash_core _ _ _ _ Es) as (C1 & _ & _ & C4 & _).
    pose proof (refund_core _ _ _ _ _ Er) as (D1 & _ & _ & D4 & _).
    pose proof (slash_bal _ _ _ _ Escrow Es ltac:(discriminate)) as B1.
    pose proof (refund_bal _ _ _ _ _ Escrow Er) as B2. cbn in B2.
    assert (Gq : get r (reqs s1) = Some q) by (rewrite D1, C1; exact Hq).
    rewrite (msum_fee_deactivate _ _ _ Gq), D1, C1, D4, C4.
    unfold fee_active at 2. rewrite Hact. lia.
  - (* accepted: tax and earnings *)
    apply add_earned_shape in Ea. destruct Ea as (o & s0 & Et & Hle & Ho & ->). cbv zeta in *.
    pose proof (transfer_bal _ _ _ _ _ Escrow Et) as B. cbn in B.
    unfold bal at 1. sproj. fold (bal s0 Escrow).
    rewrite deactivate_reqs. sproj. rewrite Hq. rewrite msum_set. unfold fget. rewrite Hq.
    rewrite msum_vid_add_to; [| lia | apply earned_nonneg, (inv_earn _ _ Hinv)].
    unfold fee_active at 2 3. cbn [r_active setr_active]. rewrite Hact. lia.
Qed.

(* ---- withdraw ---- *)

Lemma msum_vid_del {K} `{EqDec K} (k : K) (m : amap K Z) : msum vid (del k m) = msum vid m - get0 k m.
Proof. now rewrite msum_del, fget_vid. Qed.

(* deleting the records of a duplicate-free list of keys removes exactly their sum *)
Fixpoint sum_keys {K} `{EqDec K} (l : list K) (m : amap K Z) : Z :=
  match l with [] => 0 | k :: t => get0 k m + sum_keys t m end.

Lemma msum_fold_del_keys {K} `{EqDec K} (l : list K) (m : amap K Z) :
  wf m -> NoDup l ->
  msum vid (fold_left (fun m r => del r m) l m) = msum vid m - sum_keys l m.
Proof.
  revert m. induction l as [|a l IH]; cbn [fold_left sum_keys]; intros m Hw Hn; [lia|].
  inversion Hn as [|? ? Hni Hn']; subst.
  rewrite IH by (auto using wf_del). rewrite msum_vid_del.
  assert (E : sum_keys l (del a m) = sum_keys l m).
  { clear IH Hn Hn'. induction l as [|b l IHl]; cbn [sum_keys]; [reflexivity|].
    rewrite get0_del by assumption. destruct (eqb_spec b a) as [->|].
    - exfalso. apply Hni. now left.
    - rewrite IHl; [reflexivity|]. intros Hin. apply Hni. now right. }
  rewrite E. lia.
Qed.

Lemma sum_keys_msum {K} `{EqDec K} (l : list K) (m : amap K Z) :
  wf m -> NoDup l ->
  sum_keys l m = msum (fun k v => if mem k l then v else 0) m.
Proof.
  intros Hw. revert l. unfold wf, keys in Hw.
  induction m as [|[k0 v0] t IH]; intros l Hn.
  - cbn [msum]. induction l as [|a l IHl]; cbn [sum_keys]; [reflexivity|].
    inversion Hn; subst. rewrite IHl by assumption. reflexivity.
  - cbn [map fst] in Hw. inversion Hw as [|? ? Hni Hw']; subst.
    cbn [msum].
    assert (E : forall l, NoDup l -> sum_keys l ((k0, v0) :: t) = (if mem k0 l then v0 else 0) + sum_keys l t).
    { clear -Hni. intros l. induction l as [|a l IHl]; intros Hn; cbn [sum_keys mem]; [lia|].
      inversion Hn as [|? ? Hna Hn']; subst. rewrite IHl by assumption.
      assert (G : get0 a ((k0, v0) :: t) = if eqb a k0 then v0 else get0 a t)
        by (unfold get0; cbn [get]; now destruct (eqb a k0)).
      rewrite G.
      destruct (eqb_spec a k0) as [->|Hne].
      - rewrite eqb_refl. assert (M : mem k0 l = false) by now apply mem_nIn. rewrite M.
        assert (G0 : get0 k0 t = 0) by (unfold get0; now rewrite (proj2 (get_None_notin k0 t) Hni)).
        rewrite G0. lia.
      - destruct (eqb_spec k0 a); [congruence|]. lia. }
    rewrite E by assumption. rewrite IH by assumption. reflexivity.
Qed.

Lemma In_owner_provs (l : list (Z * Z)) o p :
  In p (map snd (filter (fun op => fst op =? o) l)) <-> In (o, p) l.
Proof.
  rewrite in_map_iff. split.
  - intros ([a b] & E & Hin). cbn [snd] in E. subst b. apply filter_In in Hin.
    destruct Hin as [Hin Hf]. cbn [fst] in Hf. apply Z.eqb_eq in Hf. now subst a.
  - intros Hin. exists (o, p). split; [reflexivity|]. apply filter_In. split; [assumption|].
    cbn [fst]. apply Z.eqb_refl.
Qed.

Lemma NoDup_owner_provs (l : list (Z * Z)) o :
  NoDup l -> NoDup (map snd (filter (fun op => fst op =? o) l)).
Proof.
  induction l as [|[a b] t IH]; cbn [filter map]; intros Hn; [constructor|].
  inversion Hn as [|? ? Hni Hn']; subst. cbn [fst].
  destruct (Z.eqb_spec a o) as [->|]; [|auto].
  cbn [map snd]. constructor; [|auto].
  rewrite In_owner_provs. exact Hni.
Qed.

Lemma escrow_withdraw cfg s owner prov ok s' :
  Inv cfg s -> h_withdraw s owner prov ok = Ok s' -> I_escrow s'.
Proof.
  intros Hinv H. unfold h_withdraw in H.
  rewrite (withdraw_dacct s owner (inv_wd _ _ Hinv)) in H. inv_ok H.
  pose proof (inv_escrow _ _ Hinv) as He. unfold I_escrow in He.
  pose proof (inv_wf _ _ Hinv) as Hwf.
  assert (Hwe : wf (earned s)) by apply Hwf.
  destruct (prov =? 0) eqn:Ep.
  - inv_ok H. subst s'.
    pose proof (transfer_bal _ _ _ _ _ Escrow Ha) as B. cbn in B.
    pose proof (transfer_frame _ _ _ _ _ Ha) as Hf.
    unfold I_escrow. unfold bal at 1. rewrite Hf. sproj. fold (bal a Escrow). rewrite B.
    unfold bal at 1. sproj. fold (bal s Escrow).
    set (provs := map snd (filter (fun op => fst op =? owner) (own_prov s))).
    assert (Hnd : NoDup provs) by (apply NoDup_owner_provs; apply Hwf).
    rewrite (msum_fold_del_keys provs (earned s) Hwe Hnd).
    rewrite (sum_keys_msum provs (earned s) Hwe Hnd).
    destruct (inv_earn _ _ Hinv) as (E1 & _ & E3). rewrite (E3 owner).
    assert (Hext : msum (fun k v => if mem k provs then v else 0) (earned s) = msum (owned_by s owner) (earned s)).
    { apply msum_ext. intros p e Hin. unfold owned_by.
      destruct (inv_index _ _ Hinv) as (_ & _ & I3 & _).
      destruct (mem p provs) eqn:M.
      - apply mem_In in M. unfold provs in M. apply In_owner_provs in M. apply I3 in M. rewrite M.
        now rewrite Z.eqb_refl.
      - apply mem_nIn in M. destruct (get p (owner_of s)) as [o'|] eqn:G; [|reflexivity].
        destruct (Z.eqb_spec o' owner) as [->|]; [|reflexivity].
        exfalso. apply M. unfold provs. apply In_owner_provs. now apply I3. }
    rewrite Hext. lia.
  - inv_ok H. subst s'.
    pose proof (transfer_bal _ _ _ _ _ Escrow Ha0) as B. cbn in B.
    pose proof (transfer_frame _ _ _ _ _ Ha0) as Hf.
    unfold I_escrow. unfold bal at 1. rewrite Hf. sproj. fold (bal a0 Escrow). rewrite B.
    assert (Ea : reqs a = reqs s /\ earned a = del prov (earned s) /\ bank a = bank s).
    { destruct (get0 prov (earned s) =? get0 owner (own_earned s)); [|destruct (_ <? 0)]; inv_ok Ha; subst a; repeat split. }
    destruct Ea as (A1 & A2 & A3). unfold bal. rewrite A1, A2, A3. fold (bal s Escrow).
    rewrite msum_vid_del. lia.
Qed.

Theorem I_escrow_msg cfg s o s' :
  wf_cfg cfg -> Inv cfg s -> wf_op s o -> (forall dt, o <> OEndBlock dt) ->
  handle cfg s o = Ok s' -> I_escrow s'.
Proof.
  intros Hcfg Hinv Hop Hne H.
  destruct o; try (pose proof (escrow_msg_simple _ _ _ _ H I) as (E1 & E2 & E3);
                   exact (escrow_frame _ _ E1 E2 E3 (inv_escrow _ _ Hinv))).
  - cbn [handle] in H. eapply escrow_respond; eauto.
  - cbn [handle] in H. eapply escrow_withdraw; eauto.
  - exfalso. eapply Hne. reflexivity.
Qed.

(* ---- EndBlock: expiry ---- *)

(* what the money part of the expiry loop needs of every intermediate state *)
Definition J (s : State) : Prop :=
  wf (bank s) /\ nonneg (bank s) /\ I_escrow s
  /\ (forall r q, In (r, q) (reqs s) -> 0 <= r_fee q)
  /\ (forall p e, In (p, e) (earned s) -> 0 <= e)
  /\ wf (reqs s).

Lemma slash_bank_ok cfg s r s1 :
  slash cfg s r = Ok s1 -> wf (bank s) -> nonneg (bank s) -> wf (bank s1) /\ nonneg (bank s1).
Proof.
  intros H Hw Hn. apply slash_shape in H.
  destruct H as (q & rc & b & amt & b2 & _ & _ & _ & _ & H0 & _ & Hle & _ & _ & _ & _ & ->).
  sproj. split; [now apply wf_set|].
  intros x v Hin. apply In_set_inv in Hin; [|assumption].
  destruct Hin as [[-> ->]|[_ Hin]]; [lia|eauto].
Qed.

Lemma refund_bank_ok s r cons fee s1 :
  refund_fee s r cons fee = Some s1 -> wf (bank s) -> nonneg (bank s) -> wf (bank s1) /\ nonneg (bank s1).
Proof.
  unfold refund_fee. destruct (transfer Escrow (User cons) fee s) as [s0|] eqn:E; [|discriminate].
  intros H Hw Hn. injection H as <-. sproj.
  split; [exact (transfer_wf _ _ _ _ _ E Hw) | exact (transfer_nonneg _ _ _ _ _ E Hw Hn)].
Qed.

Lemma fee_active_le_sum s r q :
  (forall r q, In (r, q) (reqs s) -> 0 <= r_fee q) -> get r (reqs s) = Some q ->
  fee_active r q <= msum fee_active (reqs s).
Proof.
  intros Hf G. assert (E : fee_active r q = fget fee_active r (reqs s)) by (unfold fget; now rewrite G).
  rewrite E. apply msum_ge_fget. intros k v Hin. unfold fee_active. destruct (r_active v); [eauto|lia].
Qed.

Lemma expire_req_J cfg s r q rc :
  J s -> get r (reqs s) = Some q -> r_active q = true -> get (rid_ctx r) (ctxs s) = Some rc ->
  (c_super rc = true -> r_fee q = 0) ->
  J (expire_req cfg s r).
Proof.
  intros (Hw & Hn & He & Hf & Hea & Hwr) G1 Hact G2 Hsup.
  rewrite (expire_req_unfold _ _ _ _ _ G1 G2).
  pose proof (expire_settle_core cfg s r q rc) as C. unfold same_req_core in C.
  destruct C as (C1 & _ & _ & C4 & _).
  set (st := expire_settle cfg s r q rc) in *.
  assert (Hfee : 0 <= r_fee q) by (apply (Hf r), get_In, G1).
  assert (Hst : wf (bank st) /\ nonneg (bank st)
                /\ bal st Escrow = bal s Escrow - (if c_super rc then 0 else r_fee q)).
  { unfold st, expire_settle. destruct (c_super rc) eqn:Es; [repeat split; try assumption; lia|].
    set (sa := match slash cfg s r with Ok x => x | _ => s end).
    assert (Hsa : wf (bank sa) /\ nonneg (bank sa) /\ bal sa Escrow = bal s Escrow).
    { unfold sa. destruct (slash cfg s r) eqn:Esl; try (repeat split; assumption).
      destruct (slash_bank_ok _ _ _ _ Esl Hw Hn). repeat split; try assumption.
      apply (slash_bal _ _ _ _ Escrow Esl). discriminate. }
    destruct Hsa as (Hw1 & Hn1 & Hb1). clearbody sa.
    destruct (refund_fee sa r (c_cons rc) (r_fee q)) as [x|] eqn:Er.
    - destruct (refund_bank_ok _ _ _ _ _ Er Hw1 Hn1). repeat split; try assumption.
      rewrite (refund_bal _ _ _ _ _ Escrow Er). cbn. rewrite Hb1. lia.
    - exfalso. unfold refund_fee in Er.
      destruct (transfer Escrow (User (c_cons rc)) (r_fee q) sa) eqn:Et; [discriminate|].
      unfold transfer in Et.
      destruct ((r_fee q <? 0) || (bal sa Escrow <? r_fee q)) eqn:Eb; [|discriminate].
      apply orb_true_iff in Eb. destruct Eb as [Eb|Eb]; b2p; [lia|].
      unfold I_escrow in He. pose proof (fee_active_le_sum s r q Hf G1) as Hle.
      unfold fee_active at 1 in Hle. rewrite Hact in Hle.
      assert (0 <= msum vid (earned s)) by (apply msum_nonneg; exact Hea). lia. }
  destruct Hst as (Hw2 & Hn2 & Hb2).
  assert (Gst : get r (reqs st) = Some q) by (rewrite C1; exact G1).
  unfold J. rewrite deactivate_other. sproj.
  split; [assumption|]. split; [assumption|]. split.
  - unfold I_escrow, bal. sproj. fold (bal st Escrow).
    rewrite (msum_fee_deactivate _ _ _ Gst), C1, C4. unfold fee_active at 2. rewrite Hact.
    unfold I_escrow in He. destruct (c_super rc); [rewrite Hsup by reflexivity|]; lia.
  - rewrite deactivate_reqs, Gst, C1, C4. split; [|split; [assumption|now apply wf_set]].
    intros r' q' Hin. apply In_set_inv in Hin; [|assumption].
    destruct Hin as [[-> ->]|[_ Hin]]; [exact Hfee | eauto].
Qed.

Lemma fold_expire_J cfg l s :
  NoDup l -> J s ->
  (forall r, In r l -> exists q rc, get r (reqs s) = Some q /\ r_active q = true
      /\ get (rid_ctx r) (ctxs s) = Some rc /\ (c_super rc = true -> r_fee q = 0)) ->
  J (fold_left (expire_req cfg) l s).
Proof.
  revert s. induction l as [|a l IH]; intros s Hn HJ Hl; cbn [fold_left]; [assumption|].
  inversion Hn as [|? ? Hni Hn']; subst.
  destruct (Hl a (or_introl eq_refl)) as (q & rc & G1 & Ha & G2 & Hs).
  apply IH; [assumption|eapply expire_req_J; eauto|].
  intros r Hr. destruct (Hl r (or_intror Hr)) as (q' & rc' & G1' & Ha' & G2' & Hs').
  exists q', rc'. pose proof (expire_req_core cfg s a) as (_ & C2 & _). rewrite C2.
  rewrite expire_req_reqs, G1, G2. rewrite get_set_neq; [auto|]. intros ->. contradiction.
Qed.

Lemma Inv_J cfg s : Inv cfg s -> J s.
Proof.
  intros Hinv. unfold J. destruct (inv_bank _ _ Hinv) as (Hn & _).
  pose proof (inv_wf _ _ Hinv) as Hwf.
  split; [apply Hwf|]. split; [exact Hn|]. split; [apply (inv_escrow _ _ Hinv)|].
  split; [|split; [|apply Hwf]].
  - intros r q Hin. destruct (inv_req _ _ Hinv) as (R1 & _). destruct (R1 _ _ Hin) as (? & _ & _ & _ & Hf & _). exact Hf.
  - intros p e Hin. destruct (inv_earn _ _ Hinv) as (E1 & _). destruct (E1 _ _ Hin). lia.
Qed.

Lemma due_ctx cfg s c :
  Inv cfg s -> In (height s, c) (expq s) ->
  exists rc, get c (ctxs s) = Some rc /\ get c (expq_h s) = Some (height s).
Proof.
  intros Hinv Hdue. destruct (inv_sched _ _ Hinv) as (S1 & _ & _ & S4 & _).
  apply S1 in Hdue. assert (Hh : has c (ctxs s) = true).
  { apply S4. left. unfold has. now rewrite Hdue. }
  unfold has in Hh. destruct (get c (ctxs s)) as [rc|]; [eauto|discriminate].
Qed.

(* after the settlement part of expire_one no request of the context is active *)
Lemma expire_one_settled cfg s c rc :
  Inv cfg s -> get c (ctxs s) = Some rc -> get c (expq_h s) = Some (height s) ->
  let s1 := fst (if c_bdone rc then (s, rc)
                 else complete_batch (fold_left (expire_req cfg) (active_rids s c (c_counter rc)) s) c rc) in
  J s1 /\ earned s1 = earned s /\ ctxs s1 = ctxs s
  /\ (forall r q, get r (reqs s1) = Some q -> rid_ctx r = c -> r_active q = false)
  /\ (forall r, get r (reqs s1) = None <-> get r (reqs s) = None).
Proof.
  intros Hinv Grc Gexp. cbv zeta.
  pose proof (inv_wf _ _ Hinv) as Hwf. assert (Hwr : wf (reqs s)) by apply Hwf.
  destruct (inv_req _ _ Hinv) as (R1 & _ & R3).
  destruct (c_bdone rc) eqn:Ebd; cbn [fst].
  - split; [now apply (Inv_J cfg)|]. split; [reflexivity|]. split; [reflexivity|]. split; [|tauto].
    intros r q G Hc. destruct (R3 _ _ Grc) as (_ & Hsum & _).
    rewrite Ebd, andb_false_r in Hsum.
    assert (Hz : active_in c r q = 0).
    { apply (msum_zero_each (active_in c) (reqs s)); [|exact Hsum|now apply get_In].
      intros k v _. unfold active_in. destruct (_ && _); lia. }
    unfold active_in in Hz. rewrite Hc, eqb_refl in Hz. cbn [andb] in Hz.
    destruct (r_active q); [discriminate|reflexivity].
  - set (l := active_rids s c (c_counter rc)).
    set (sf := fold_left (expire_req cfg) l s).
    pose proof (complete_batch_frame sf c rc) as F. cbv zeta in F.
    destruct F as (F1 & _ & F3 & _ & F5 & _ & F7 & _).
    assert (Hl : forall r, In r l -> exists q rc', get r (reqs s) = Some q /\ r_active q = true
               /\ get (rid_ctx r) (ctxs s) = Some rc' /\ (c_super rc' = true -> r_fee q = 0)).
    { intros r Hr. apply In_active_rids in Hr; [|assumption].
      destruct Hr as (q & G & Hc & _ & Ha). exists q.
      apply get_In in G. destruct (R1 _ _ G) as (rc' & G2 & _ & _ & _ & _ & _ & _ & _ & Hs).
      exists rc'. repeat split; try assumption. now apply In_get. }
    assert (HJ : J sf) by (apply fold_expire_J; [now apply NoDup_active_rids|now apply (Inv_J cfg)|exact Hl]).
    pose proof (fold_expire_core cfg l s) as C. cbv zeta in C. fold sf in C.
    destruct C as (_ & C2 & C3 & _).
    destruct (fold_expire_reqs cfg l s Hwr) as (_ & Hg).
    { intros r Hr. destruct (Hl r Hr) as (q & rc' & _ & _ & G2 & _). eauto. }
    fold sf in Hg.
    split.
    { unfold J in *. unfold I_escrow, bal in *. rewrite F1, F3, F5. exact HJ. }
    split; [congruence|]. split; [congruence|]. split.
    + intros r q G Hc. rewrite F1, Hg in G.
      destruct (mem r l) eqn:M.
      * destruct (get r (reqs s)); cbn [option_map] in G; [|discriminate]. injection G as <-. reflexivity.
      * apply mem_nIn in M. destruct (r_active q) eqn:Ea; [|reflexivity].
        exfalso. apply M. apply In_active_rids; [assumption|]. exists q. repeat split; try assumption.
        apply get_In in G. destruct (R1 _ _ G) as (rc' & G2 & Hb & _). rewrite Hc in G2. congruence.
    + intros r. rewrite F1, Hg. destruct (mem r l); [|tauto].
      destruct (get r (reqs s)); cbn [option_map]; split; congruence.
Qed.

Lemma I_escrow_expire_one cfg s c :
  wf_cfg cfg -> Inv cfg s -> In (height s, c) (expq s) -> height s < HEIGHT_BOUND ->
  I_escrow (expire_one cfg s c).
Proof.
  intros Hcfg Hinv Hdue Hh. destruct (due_ctx _ _ _ Hinv Hdue) as (rc & Grc & Gexp).
  pose proof (expire_one_settled cfg s c rc Hinv Grc Gexp) as HS. cbv zeta in HS.
  unfold expire_one. unfold ctx_or_zero. rewrite Grc.
  destruct (if c_bdone rc then (s, rc) else complete_batch _ c rc) as [s1 rc1] eqn:Epair.
  cbn [fst] in HS. destruct HS as (HJ & He & _ & Hinact & _).
  match goal with |- I_escrow (clean_batch ?x c ?y) =>
    assert (H3 : reqs x = reqs s1 /\ earned x = earned s1 /\ bank x = bank s1) end.
  { destruct (c_state rc1); [destruct (c_rep rc1 && _)| |]; sproj; repeat split. }
  match goal with |- I_escrow (clean_batch ?x c ?y) => set (s3 := x) in *; set (n := y) end.
  destruct H3 as (H31 & H32 & H33).
  destruct (clean_batch_fields s3 c n) as (Cr & _ & Cs). cbv zeta in *.
  unfold I_escrow. rewrite Cs. unfold bal. sproj. rewrite Cr, H31, H32, H33.
  destruct HJ as (_ & _ & HE & _ & _ & Hwr1).
  rewrite msum_fold_del_zero; [exact HE|exact Hwr1|].
  intros r Hr. apply In_batch_rids in Hr. destruct Hr as (_ & Hc & _).
  unfold fget. destruct (get r (reqs s1)) as [q|] eqn:G; [|reflexivity].
  unfold fee_active. now rewrite (Hinact _ _ G Hc).
Qed.

(* ---- EndBlock: new batch ---- *)

Lemma due_new_ctx cfg s c :
  Inv cfg s -> In (height s, c) (newq s) ->
  exists rc, get c (ctxs s) = Some rc /\ get c (newq_h s) = Some (height s)
             /\ get c (expq_h s) = None.
Proof.
  intros Hinv Hdue. destruct (inv_sched _ _ Hinv) as (_ & S2 & S3 & S4 & _).
  apply S2 in Hdue. assert (Hn : has c (newq_h s) = true) by (unfold has; now rewrite Hdue).
  assert (Hh : has c (ctxs s) = true) by (apply S4; now right).
  assert (He : get c (expq_h s) = None).
  { destruct (get c (expq_h s)) eqn:G; [|reflexivity]. exfalso. apply (S3 c); [|assumption].
    unfold has. now rewrite G. }
  unfold has in Hh. destruct (get c (ctxs s)) as [rc|]; [eauto|discriminate].
Qed.

(* a context without a pending expiry has no request records *)
Lemma no_expiry_no_reqs cfg s c r :
  Inv cfg s -> get c (expq_h s) = None -> rid_ctx r = c -> get r (reqs s) = None.
Proof.
  intros Hinv He Hc. destruct (get r (reqs s)) as [q|] eqn:G; [|reflexivity].
  exfalso. apply get_In in G. destruct (inv_req _ _ Hinv) as (R1 & _).
  destruct (R1 _ _ G) as (rc & _ & _ & Gx & _). rewrite Hc in Gx. congruence.
Qed.

Lemma fold_exch_eq_price s rc l :
  fold_right (fun p a =>
      exchanged_price (pricing_of s (c_svc rc, p)) (time s) (vol_of s (c_cons rc) (c_svc rc) p) + a) 0 l
  = fold_right (fun p a =>
      get_price (pricing_of s (c_svc rc, p)) (time s) (vol_of s (c_cons rc) (c_svc rc) p) + a) 0 l.
Proof.
  induction l as [|p t IH]; cbn [fold_right]; [reflexivity|].
  now rewrite IH, C07_charged_is_stored.
Qed.

Lemma I_escrow_new_one cfg s c :
  wf_cfg cfg -> Inv cfg s -> In (height s, c) (newq s) -> height s < HEIGHT_BOUND ->
  I_escrow (new_one cfg s c).
Proof.
  intros Hcfg Hinv Hdue Hh. destruct (due_new_ctx _ _ _ Hinv Hdue) as (rc & Grc & Gnew & Gexp).
  pose proof (inv_escrow _ _ Hinv) as He.
  pose proof (inv_wf _ _ Hinv) as Hwf. assert (Hwr : wf (reqs s)) by apply Hwf.
  unfold new_one, ctx_or_zero. rewrite Grc.
  destruct (is_state rc Running && c_rep rc && (0 <? c_total rc) && (c_total rc <=? c_counter rc)).
  { apply (escrow_frame s); sproj; try reflexivity; assumption. }
  destruct (is_state rc Running); [|apply (escrow_frame s); sproj; try reflexivity; assumption].
  set (el := filter_providers s rc (c_provs rc)).
  destruct ((0 <? len el) && (c_thr rc <=? len el)).
  2:{ apply (escrow_frame s); unfold skip_batch; sproj; try reflexivity; assumption. }
  assert (Hissue : forall sp, reqs sp = reqs s -> earned sp = earned s -> ctxs sp = ctxs s ->
            height sp = height s -> time sp = time s -> pricing sp = pricing s -> vols sp = vols s ->
            bal sp Escrow = bal s Escrow + (if c_super rc then 0 else sum_prices el) ->
            I_escrow (del_newq (add_expq (initiate_requests sp c (map fst el)) c (height s + c_timeout rc)) c (height s))).
  { intros sp P1 P2 P3 P4 P5 P6 P7 P8.
    unfold initiate_requests, ctx_or_zero. rewrite P3, Grc.
    set (n := c_counter rc + 1).
    assert (Hfresh : forall j, 0 <= j -> get (c, n, height sp, j) (reqs sp) = None).
    { intros j _. rewrite P1. eapply no_expiry_no_reqs; eauto. }
    assert (Hwsp : wf (reqs sp)) by (rewrite P1; assumption).
    destruct (issue_all_reqs fee_active sp c rc n 0 (map fst el) Hwsp Hfresh) as (_ & S & _).
    pose proof (issue_all_frame sp c rc n 0 (map fst el)) as F. unfold same_but_reqs in F.
    destruct F as (_ & _ & _ & _ & _ & _ & _ & _ & _ & _ & _ & _ & _ & _ & _ & _ & F17 & _ & F19 & _).
    unfold I_escrow, bal. sproj. rewrite S, F17, F19. fold (bal sp Escrow).
    rewrite P8, P1, P2. rewrite sum_new_fee.
    unfold I_escrow in He. destruct (c_super rc); [lia|].
    assert (E : fold_right (fun p a => get_price (pricing_of sp (c_svc rc, p)) (time sp)
                  (vol_of sp (c_cons rc) (c_svc rc) p) + a) 0 (map fst el) = sum_prices el).
    { unfold el. rewrite filter_providers_sum. rewrite (fold_exch_eq_price s rc).
      unfold pricing_of, vol_of. rewrite P5, P6, P7. reflexivity. }
    rewrite E. lia. }
  destruct (c_super rc) eqn:Esup.
  - apply Hissue; try reflexivity. lia.
  - destruct (transfer (User (c_cons rc)) Escrow (sum_prices el) s) as [x|] eqn:Et.
    + pose proof (transfer_frame _ _ _ _ _ Et) as Hf.
      pose proof (transfer_bal _ _ _ _ _ Escrow Et) as B. cbn in B.
      apply Hissue; sproj; try (rewrite Hf; reflexivity).
      unfold bal in *. sproj. lia.
    + apply (escrow_frame s); unfold on_paused; try assumption;
        destruct (c_mod rc =? 0); sproj; reflexivity.
Qed.

Lemma I_escrow_tick s dt :
  I_escrow s -> I_escrow (set_time (set_height s (height s + 1)) (time s + dt)).
Proof. intros H. exact H. Qed.

Lemma I_escrow_init h0 t0 f : I_escrow (init h0 t0 f).
Proof.
  unfold I_escrow, init, bal. cbn [bank reqs earned msum].
  assert (G : forall l m, get0 Escrow m = 0 ->
     get0 Escrow (fold_left (fun m af => set (User (fst af)) (get0 (User (fst af)) m + snd af) m) l m) = 0).
  { induction l as [|a l IH]; intros m Hm; cbn [fold_left]; [assumption|].
    apply IH. rewrite get0_set. cbn. exact Hm. }
  rewrite G; reflexivity.
Qed.
