(* I_index (C15): definitions and bindings are consistently indexed; preserved by
   every message, by both EndBlock phases and by the clock tick. *)
From Coq Require Import List ZArith Bool Lia Permutation.
From SVC Require Import Base.AMap Base.Res Base.Dec Model.Types Model.Pricing
  Model.Handlers Model.EndBlock Model.Step Proofs.Inv Proofs.Lemmas Proofs.InvWf Proofs.PFrame.
Import ListNotations.
Open Scope Z_scope.

Ltac splits := repeat match goal with |- _ /\ _ => split end.

Lemma has_set_mono {K V} `{EqDec K} (k k' : K) (v : V) m :
  has k m = true -> has k (set k' v m) = true.
Proof. unfold has. rewrite get_set. destruct (eqb k k'); auto. Qed.

Lemma has_get_some {K V} `{EqDec K} (k : K) (m : amap K V) v : get k m = Some v -> has k m = true.
Proof. unfold has. now intros ->. Qed.

(* ------------------------------------------------------------------ *)
(* static operations: the frame suffices *)

Lemma index_sframe cfg s s' : sframe s s' -> wf (binds s') -> I_index cfg s -> I_index cfg s'.
Proof.
  intros [F1 F2 F3 F4 F5 F6 Fb] Hw (P1 & P2 & P3 & P4).
  unfold I_index. rewrite F1, F2, F3, F4, F5. splits.
  - intros k b' Hin. apply In_get in Hin; [|exact Hw].
    destruct (bsim_get_rev _ _ _ _ Fb Hin) as (b & Eb & Hr & Ho & Hav & _).
    apply get_In in Eb. destruct (P1 k b Eb) as (A1 & A2 & A3 & A4 & A5 & A6 & A7).
    rewrite Hr, Ho. splits; auto.
  - intros o svc p Hin. destruct (P2 _ _ _ Hin) as (b & Eb & Hob).
    destruct (bsim_get _ _ _ _ Fb Eb) as (b' & Eb' & _ & Ho & _).
    exists b'. unfold BKey in *. split; congruence.
  - exact P3.
  - intros k Hk. rewrite (bsim_has _ _ k Fb). auto.
Qed.

(* ------------------------------------------------------------------ *)
(* an existing binding is replaced (update, enable) *)

Lemma index_put cfg s s' k b b' :
  I_index cfg s -> wf (binds s) -> get k (binds s) = Some b -> b_owner b' = b_owner b ->
  binds s' = set k b' (binds s) -> defs s' = defs s -> owner_of s' = owner_of s ->
  own_prov s' = own_prov s -> own_bind s' = own_bind s ->
  ((b_raw b' = b_raw b /\ pricing s' = pricing s)
   \/ (pricing s' = set k (parse_pricing (b_raw b')) (pricing s)
       /\ validate_pricing (parse_pricing (b_raw b')) = true
       /\ schema_pricing (parse_pricing (b_raw b')) = true)) ->
  (b_avail b' = true -> pr_price (parse_pricing (b_raw b')) * p_multiple cfg < INT_LIMIT) ->
  I_index cfg s'.
Proof.
  intros (P1 & P2 & P3 & P4) Hw Eb Ho Ebs Ed Eoo Eop Eob Hpr Hlim.
  destruct (P1 k b (get_In _ _ _ Eb)) as (B1 & B2 & B3 & B4 & B5 & B6 & B7).
  unfold I_index. rewrite Ebs, Ed, Eoo, Eop, Eob. splits.
  - intros k0 b0 Hin. apply In_set_inv in Hin; [|exact Hw].
    destruct Hin as [[-> ->]|[Hne Hin]].
    + rewrite Ho. splits; auto.
      * destruct Hpr as [[Hr ->]|[-> _]]; [now rewrite Hr|apply get_set_eq].
      * destruct Hpr as [[Hr _]|(_ & Hv & _)]; [now rewrite Hr|exact Hv].
      * destruct Hpr as [[Hr _]|(_ & _ & Hs)]; [now rewrite Hr|exact Hs].
    + destruct (P1 k0 b0 Hin) as (A1 & A2 & A3 & A4 & A5 & A6 & A7). splits; auto.
      destruct Hpr as [[_ ->]|[-> _]]; [exact A4|]. rewrite get_set_neq; auto.
  - intros o svc p Hin. destruct (P2 _ _ _ Hin) as (b0 & Eb0 & Hob).
    destruct (eqb_spec (svc, p) k) as [<-|Hn].
    + exists b'. split; [apply get_set_eq|]. unfold BKey in *. congruence.
    + exists b0. split; [|exact Hob]. rewrite get_set_neq; auto.
  - exact P3.
  - intros k0 Hk. destruct (eqb_spec k0 k) as [->|Hn].
    + unfold has. now rewrite get_set_eq.
    + unfold has. rewrite get_set_neq by assumption. apply P4.
      destruct Hpr as [[_ E]|[E _]]; rewrite E in Hk; [exact Hk|].
      unfold has in Hk. rewrite get_set_neq in Hk; assumption.
Qed.

Lemma index_same cfg s s' :
  binds s' = binds s -> defs s' = defs s -> owner_of s' = owner_of s ->
  own_prov s' = own_prov s -> own_bind s' = own_bind s -> pricing s' = pricing s ->
  I_index cfg s -> I_index cfg s'.
Proof. unfold I_index. intros -> -> -> -> -> ->. auto. Qed.

(* ------------------------------------------------------------------ *)
(* the five non-static handlers *)

Lemma index_define cfg s svc content ok s' :
  I_index cfg s -> h_define s svc content ok = Ok s' -> I_index cfg s'.
Proof.
  intros (P1 & P2 & P3 & P4) H. apply define_inv in H. destruct H as (_ & _ & ->).
  unfold I_index. sproj. splits; auto.
  intros k b Hin. destruct (P1 k b Hin) as (A1 & A2 & A3 & A4 & A5 & A6 & A7).
  splits; auto. now apply has_set_mono.
Qed.

Lemma index_setwd cfg s owner addr ok s' :
  I_index cfg s -> h_set_withdraw s owner addr ok = Ok s' -> I_index cfg s'.
Proof. intros P H. apply setwd_inv in H. destruct H as (_ & ->). exact P. Qed.

Lemma index_bind cfg s svc prov dep pr qos owner ok s' :
  I_wf s -> I_index cfg s -> h_bind cfg s svc prov dep pr qos owner ok = Ok s' -> I_index cfg s'.
Proof.
  intros Hwf (P1 & P2 & P3 & P4) H. apply bind_inv in H.
  destruct H as (amt & raw & _ & Hdef & Hnb & Hown & Hval & Hsch & Hlim
                 & Ed & Eb & Ep & Eob & _ & _ & _ & Eoo & Eop).
  assert (Hwb : wf (binds s)) by apply Hwf.
  set (b0 := mkBinding amt raw qos true TIME0 owner) in *.
  assert (Hoo_new : get prov (owner_of s') = Some owner).
  { rewrite Eoo. destruct Hown as [E|E]; rewrite E; [apply get_set_eq|exact E]. }
  assert (Hoo_old : forall p o, get p (owner_of s) = Some o -> get p (owner_of s') = Some o).
  { intros p o E. rewrite Eoo. destruct (get prov (owner_of s)) eqn:E1; [exact E|].
    rewrite get_set. destruct (eqb_spec p prov) as [->|]; [congruence|exact E]. }
  unfold I_index. rewrite Ed, Eb, Ep, Eob. splits.
  - intros k b Hin. apply In_set_inv in Hin; [|exact Hwb].
    destruct Hin as [[-> ->]|[Hne Hin]].
    + cbn [fst snd b0 b_owner b_raw b_avail]. splits; auto.
      * apply In_ladd. now left.
      * apply get_set_eq.
    + destruct (P1 k b Hin) as (A1 & A2 & A3 & A4 & A5 & A6 & A7). splits; auto.
      * apply In_ladd. now right.
      * rewrite get_set_neq; auto.
  - intros o svc' p Hin. apply In_ladd in Hin. destruct Hin as [E|Hin].
    + injection E as -> -> ->. exists b0. split; [apply get_set_eq|reflexivity].
    + destruct (P2 _ _ _ Hin) as (b & Eb' & Ho). exists b. split; auto.
      rewrite get_set_neq; auto. intros E; injection E as -> ->; congruence.
  - intros o p. rewrite Eop, Eoo. destruct (get prov (owner_of s)) eqn:E1; [apply P3|].
    rewrite In_ladd, get_set. destruct (eqb_spec p prov) as [->|Hn].
    + split.
      * intros [E|Hin]; [injection E as ->; reflexivity|apply P3 in Hin; congruence].
      * intros E; injection E as ->; now left.
    + rewrite <- P3. split; [intros [E|Hin]; [congruence|exact Hin]|auto].
  - intros k. unfold has. rewrite !get_set. destruct (eqb k (svc, prov)); auto.
    apply P4.
Qed.

Lemma index_update cfg s svc prov dep pr qos owner ok s' :
  I_wf s -> I_index cfg s -> h_update cfg s svc prov dep pr qos owner ok = Ok s' -> I_index cfg s'.
Proof.
  intros Hwf P H. apply update_inv in H.
  destruct H as (b & b' & Eb & _ & Ho & Hav & Hbs & Hpr & Ed & Eoo & Eop & Eob & _ & _ & _).
  assert (Hwb : wf (binds s)) by apply Hwf.
  pose proof P as (P1 & _).
  destruct (P1 _ b (get_In _ _ _ Eb)) as (_ & _ & _ & _ & _ & _ & B7).
  destruct Hpr as [[Hr Ep]|(_ & Ebs & Ep & Hv & Hs & Hlim)].
  - destruct Hbs as [Ebs|Ebs].
    + eapply index_same; eauto.
    + eapply index_put with (b := b) (b' := b'); eauto; try (rewrite Hav, Hr; exact B7).
  - eapply index_put with (b := b) (b' := b'); eauto; try (rewrite Hav; exact Hlim).
Qed.

Lemma index_enable cfg s svc prov dep owner ok s' :
  I_wf s -> I_index cfg s -> h_enable cfg s svc prov dep owner ok = Ok s' -> I_index cfg s'.
Proof.
  intros Hwf P H. apply enable_inv in H.
  destruct H as (b & amt & md & Eb & _ & _ & _ & Hmd & Ebs & Ed & Ep & Eoo & Eop & Eob & _ & _ & _).
  assert (Hwb : wf (binds s)) by apply Hwf.
  pose proof P as (P1 & _).
  destruct (P1 _ b (get_In _ _ _ Eb)) as (_ & _ & _ & B4 & _ & _ & _).
  eapply index_put with (b := b)
    (b' := setb_dtime (setb_avail (setb_deposit b (b_deposit b + amt)) true) TIME0); eauto.
  intros _. cbn [b_raw setb_dtime setb_avail setb_deposit].
  apply min_deposit_ok in Hmd. unfold pricing_of in Hmd. rewrite B4 in Hmd. tauto.
Qed.

(* ------------------------------------------------------------------ *)
(* interface *)

Lemma I_index_init cfg h0 t0 f : 1 <= h0 -> 0 <= t0 -> wf_funding f -> I_index cfg (init h0 t0 f).
Proof.
  intros _ _ _. unfold I_index, init. sproj. splits.
  - intros k b [].
  - intros o svc p [].
  - intros o p. cbn. split; [intros []|discriminate].
  - intros k. cbn. discriminate.
Qed.

Lemma I_index_msg cfg s o s' :
  wf_cfg cfg -> Inv cfg s -> wf_op s o -> (forall dt, o <> OEndBlock dt) ->
  handle cfg s o = Ok s' -> I_index cfg s'.
Proof.
  intros _ HI _ Hne H.
  pose proof (inv_wf _ _ HI) as Hwf. pose proof (inv_index _ _ HI) as P.
  destruct (static_op o) eqn:Hst.
  - eapply index_sframe; [eapply sframe_msg; eauto| |exact P].
    assert (Hwf' : I_wf s') by (eapply wf_msg; eauto). apply Hwf'.
  - destruct o; try discriminate; cbn [handle] in H.
    + eapply index_define; eauto.
    + eapply index_bind; eauto.
    + eapply index_update; eauto.
    + eapply index_enable; eauto.
    + eapply index_setwd; eauto.
Qed.

Lemma I_index_expire_one cfg s c :
  wf_cfg cfg -> Inv cfg s -> In (height s, c) (expq s) -> height s < HEIGHT_BOUND ->
  I_index cfg (expire_one cfg s c).
Proof.
  intros _ HI _ _. eapply index_sframe; [apply ff_expire_one| |apply HI].
  assert (Hwf' : I_wf (expire_one cfg s c)) by (apply wf_expire_one; apply HI). apply Hwf'.
Qed.

Lemma I_index_new_one cfg s c :
  wf_cfg cfg -> Inv cfg s -> In (height s, c) (newq s) -> height s < HEIGHT_BOUND ->
  I_index cfg (new_one cfg s c).
Proof.
  intros _ HI _ _. eapply index_sframe; [apply ff_new_one| |apply HI].
  assert (Hwf' : I_wf (new_one cfg s c)) by (apply wf_new_one; apply HI). apply Hwf'.
Qed.

Lemma I_index_tick cfg s dt : I_index cfg s -> 0 <= dt ->
  I_index cfg (set_time (set_height s (height s + 1)) (time s + dt)).
Proof. intros P _. exact P. Qed.

(* the whole EndBlock, for completeness *)
Lemma I_index_end_block cfg s dt : I_wf s -> I_index cfg s -> I_index cfg (end_block cfg s dt).
Proof.
  intros Hwf P. eapply index_sframe; [apply ff_end_block| |exact P].
  assert (Hwf' : I_wf (end_block cfg s dt)) by (apply wf_end_block; exact Hwf). apply Hwf'.
Qed.
