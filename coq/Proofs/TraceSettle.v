(* Trace theorems, part 2: the instrumented invariant T (Proofs/TraceLemmas.v) holds
   in every reachable state: per message, per expire_one, per new_one, tick, Reach_T.
   The full Inv of the pre-state is assumed everywhere (Reach_Inv provides it).

   Inside the expiry loop the slash of a timed-out request never fails: the binding
   exists (I_req), its deposit is covered by the custody account (BDM) and the price
   of an available binding is below the Int limit (I_index); all three are carried
   through the loop (LI below).  Hence every time-out of a non-super request has
   both its EvSlash and its EvRefund. *)
From Coq Require Import List ZArith Bool Lia Permutation.
From SVC Require Import Base.AMap Base.Res Base.Dec Model.Types Model.Pricing
  Model.Handlers Model.EndBlock Model.Step Proofs.Inv Proofs.Lemmas Proofs.ReqLemmas
  Proofs.DecProofs Proofs.PricingProofs Proofs.CtxOps Proofs.InvWf Proofs.BankLemmas Proofs.InvBank
  Proofs.PFrame Proofs.InvIndex Proofs.InvSched Proofs.InvCtx Proofs.InvEscrow Proofs.InvReq
  Proofs.InvAll Proofs.StepSpecs_ctx Proofs.StepSpecs_deposit Proofs.ReachRun Proofs.TraceLemmas.
Import ListNotations.
Open Scope Z_scope.

(* ------------------------------------------------------------------ *)
(* messages that touch neither contexts nor requests *)

Lemma msg_Q cfg s o s' : handle cfg s o = Ok s' -> ctx_op o = false -> Q s s'.
Proof.
  intros H Hk. destruct o; cbn [ctx_op] in Hk; try discriminate; cbn [handle] in H.
  - unfold h_define in H. inv_ok H. destruct (get svc (defs s)); inv_ok H. subst. ext_auto.
  - unfold h_bind in H. inv_ok H. sproj.
    assert (Hw2 : Q s a2) by (eapply Q_pay_deposit; eauto).
    destruct (get prov (owner_of a2)); inv_ok H; subst; ext_auto.
  - unfold h_update in H. inv_ok H.
    assert (Hw3 : Q s a3).
    { destruct (coins_empty dep); inv_ok Ha3; [subst; apply Q_refl|]. eapply Q_pay_deposit; eauto. }
    destruct (negb (qos =? 0) || negb (coins_empty dep) || match pr with Some _ => true | None => false end);
      [|inv_ok H; now subst].
    destruct a1 as [[raw p]|]; inv_ok H; subst; ext_auto.
  - unfold h_disable in H. inv_ok H. subst. ext_auto.
  - unfold h_enable in H. inv_ok H. subst.
    assert (Hw3 : Q s a2).
    { destruct (coins_empty dep); inv_ok Ha2; [subst; apply Q_refl|]. eapply Q_pay_deposit; eauto. }
    ext_auto.
  - unfold h_refund_deposit in H. inv_ok H. subst.
    assert (Hw3 : Q s a0) by (eapply Q_transfer; eauto). ext_auto.
  - unfold h_set_withdraw in H. inv_ok H. subst. ext_auto.
  - unfold h_withdraw in H. inv_ok H.
    destruct (prov =? 0).
    + inv_ok H. subst. apply Q_transfer in Ha. eapply Q_trans; [|apply Q_emit; reflexivity].
      eapply Q_trans; [|exact Ha]. ext_auto.
    + inv_ok H. subst. apply Q_transfer in Ha0. eapply Q_trans; [|apply Q_emit; reflexivity].
      eapply Q_trans; [|exact Ha0].
      destruct (get0 prov (earned s) =? get0 owner (own_earned s)); [|destruct (_ <? 0)]; inv_ok Ha; subst; ext_auto.
  - unfold h_transfer in H. inv_ok H. eapply Q_transfer; eauto.
Qed.

(* messages that create or rewrite a context record *)
Definition ctx_only (o : Op) : Prop :=
  match o with
  | OCall _ _ _ _ _ _ _ _ _ _ _ _ _ | OModCall _ _ _ _ _ _ _ _ _ _ _ _ _ _
  | OPause _ _ _ | OStart _ _ _ | OKill _ _ _ | OUpdateCtx _ _ _ _ _ _ _ _
  | OModUpdate _ _ _ _ _ _ _ _ | OModPause _ _ | OModStart _ _ | OModKill _ _ => True
  | _ => False
  end.

Lemma ctxmsg_Q cfg s o s' : handle cfg s o = Ok s' -> ctx_only o -> Q s s' /\ reqs s' = reqs s.
Proof.
  intros H Hk. destruct o; cbn [ctx_only] in Hk; try contradiction; cbn [handle] in H.
  - unfold h_call in H. inv_ok H. apply create_context_spec in H.
    destruct H as (capv & _ & _ & _ & ->). unfold created. split; [ext_auto|reflexivity].
  - apply create_context_spec in H.
    destruct H as (capv & _ & _ & _ & ->). unfold created. split; [ext_auto|reflexivity].
  - apply h_pause_spec in H. destruct H as (rc0 & _ & _ & _ & _ & _ & ->). split; [ext_auto|reflexivity].
  - apply h_start_spec in H. destruct H as (rc0 & _ & _ & _ & _ & ->). unfold started.
    destruct (negb (has c (expq_h s)) && negb (has c (newq_h s))); (split; [ext_auto|reflexivity]).
  - apply h_kill_spec in H. destruct H as (rc0 & _ & _ & _ & _ & ->). split; [ext_auto|reflexivity].
  - apply h_update_ctx_spec in H.
    destruct H as (rc0 & capo & _ & _ & _ & _ & _ & _ & _ & _ & _ & ->). split; [ext_auto|reflexivity].
  - mod_shape H; (split; [ext_auto|reflexivity]).
  - mod_shape H; (split; [ext_auto|reflexivity]).
  - mod_shape H; (split; [ext_auto|reflexivity]).
  - mod_shape H; (split; [ext_auto|reflexivity]).
Qed.

(* a context record that appears in a message step was created under a fresh id *)
Lemma msg_new_ctx_fresh cfg s o s' c rc' :
  wf_cfg cfg -> Inv cfg s -> wf_op s o -> (forall dt, o <> OEndBlock dt) ->
  handle cfg s o = Ok s' ->
  get c (ctxs s) = None -> get c (ctxs s') = Some rc' -> ctx_fresh s c.
Proof.
  intros Hcfg HI Hwf Hne H Enone Erc'.
  destruct (ctx_op o) eqn:Hk.
  2:{ rewrite (se_ctxs _ _ (msg_SEq _ _ _ _ H Hk)) in Erc'. congruence. }
  assert (Hcreate : forall c0 rc0, ctx_fresh s c0 -> s' = created s c0 rc0 -> ctx_fresh s c).
  { intros c0 rc0 Hf ->. unfold created in Erc'. sproj. rewrite get_set in Erc'.
    destruct (eqb_spec c c0) as [->|Hn]; [assumption|congruence]. }
  assert (Hput : forall sm c0 rc0 rc1, SEq s sm -> get c0 (ctxs s) = Some rc0 ->
             ctxs s' = set c0 rc1 (ctxs sm) -> False).
  { intros sm c0 rc0 rc1 Hsm G0 E. rewrite E, get_set, (se_ctxs _ _ Hsm) in Erc'.
    destruct (eqb_spec c c0) as [->|Hn]; congruence. }
  destruct o; cbn [ctx_op] in Hk; try discriminate; cbn [handle] in H; cbn [wf_op] in Hwf.
  - unfold h_call in H. inv_ok H. apply create_context_spec in H.
    destruct H as (capv & _ & _ & _ & E). eapply Hcreate; [|exact E]. tauto.
  - apply create_context_spec in H.
    destruct H as (capv & _ & _ & _ & E). eapply Hcreate; [|exact E]. tauto.
  - apply respond_spec in H.
    destruct H as (q & rc0 & sm & rc0' & Eq & Erc0 & Hsm & -> & Hrc').
    exfalso. eapply (Hput sm); eauto. reflexivity.
  - apply h_pause_spec in H. destruct H as (rc0 & Erc0 & _ & _ & _ & _ & ->).
    exfalso. eapply (Hput s); eauto using SEq_refl. reflexivity.
  - apply h_start_spec in H. destruct H as (rc0 & Erc0 & _ & _ & _ & ->).
    exfalso. eapply (Hput s); eauto using SEq_refl. apply ctxs_started.
  - apply h_kill_spec in H. destruct H as (rc0 & Erc0 & _ & _ & _ & ->).
    exfalso. eapply (Hput s); eauto using SEq_refl. reflexivity.
  - apply h_update_ctx_spec in H.
    destruct H as (rc0 & capo & Erc0 & _ & _ & _ & _ & _ & _ & _ & _ & ->).
    exfalso. eapply (Hput s); eauto using SEq_refl. reflexivity.
  - exfalso. eapply Hne. reflexivity.
  - apply h_mod_update_gen in H. destruct H as (rc0 & t & capo & Erc0 & _ & _ & ->).
    exfalso. eapply (Hput s); eauto using SEq_refl. reflexivity.
  - apply h_mod_pause_spec in H. destruct H as (rc0 & Erc0 & _ & _ & _ & ->).
    exfalso. eapply (Hput s); eauto using SEq_refl. reflexivity.
  - apply h_mod_start_spec in H. destruct H as (rc0 & Erc0 & _ & _ & ->).
    exfalso. eapply (Hput s); eauto using SEq_refl. apply ctxs_started.
  - apply h_mod_kill_spec in H. destruct H as (rc0 & Erc0 & _ & _ & ->).
    exfalso. eapply (Hput s); eauto using SEq_refl. reflexivity.
Qed.

Lemma CtxMono_msg cfg s o s' :
  wf_cfg cfg -> Inv cfg s -> wf_op s o -> (forall dt, o <> OEndBlock dt) ->
  handle cfg s o = Ok s' -> CtxMono s s'.
Proof.
  intros Hcfg HI Hwf Hne H c rc' G'.
  destruct (get c (ctxs s)) as [rc|] eqn:G.
  - right. exists rc. split; [reflexivity|].
    pose proof (C10_counter_msg _ _ _ _ _ _ _ Hcfg HI Hwf Hne H G G') as Ec.
    destruct (C09_static_msg _ _ _ _ _ _ _ Hcfg HI Hwf Hne H G G') as (_ & E2 & _ & E4 & _).
    repeat split; try assumption. lia.
  - left. eapply msg_new_ctx_fresh; eauto.
Qed.

(* ------------------------------------------------------------------ *)
(* closing a request: the events of d all mention r *)

Lemma tr_delta r r' d l :
  Forall (fun e => ev_rid e = Some r) d ->
  tr r' (d ++ l) = if eqb r r' then d ++ tr r' l else tr r' l.
Proof.
  intros Hd. induction Hd as [|e d He Hd IH]; cbn [app]; [now destruct (eqb r r')|].
  rewrite tr_cons. unfold about. rewrite He, IH. now destruct (eqb r r').
Qed.

Lemma Sh_close_delta cfg s s' r q cons d :
  Sh cfg s -> get r (reqs s) = Some q ->
  reqs s' = set r (deact q) (reqs s) ->
  (forall r', tr r' (log s') = tr r' (d ++ log s)) ->
  Forall (fun e => ev_rid e = Some r) d ->
  tr r (log s) = [EvIssue r (r_prov q) cons (r_fee q)] ->
  closed cfg r (r_prov q) cons (r_fee q) (d ++ [EvIssue r (r_prov q) cons (r_fee q)]) ->
  Sh cfg s'.
Proof.
  intros Hsh G Er Htr Hd Ei Hc. apply (Sh_close cfg s s' r q cons Hsh G Er).
  - intros r' Hne. rewrite Htr, (tr_delta r r' d _ Hd). destruct (eqb_spec r r'); [congruence|reflexivity].
  - rewrite Htr, (tr_delta r r d _ Hd), eqb_refl, Ei. exact Hc.
Qed.

Lemma NI_delta s sm d : log sm = d ++ log s -> Forall noissue d -> NI s sm.
Proof. intros E Hd. exists d. auto. Qed.

(* ---- respond ---- *)

Lemma Sh_respond cfg s r who code out ov ok s' :
  wf_cfg cfg -> Inv cfg s -> T cfg s ->
  h_respond cfg s r who code out ov ok = Ok s' -> Sh cfg s' /\ NI s s'.
Proof.
  intros Hcfg HI HT H. apply respond_inv in H.
  destruct H as (q & rc0 & s1 & rc & _ & Hq & Hrc0 & Hwho & Hact & Hset & Hrc & ->).
  destruct (T_active cfg s r q rc0 HT Hq Hact Hrc0) as (Etr & _ & _).
  destruct (settle_core _ _ _ _ _ _ _ _ Hset) as ((C1 & _) & _).
  pose proof (resp_tail_req s1 r who rc0 code out (rid_ctx r) rc) as Tl. cbv zeta in Tl.
  destruct Tl as (T1 & _).
  set (sm := resp_mid s1 r who rc0 code out) in *.
  pose proof (Q_resp_finish sm (rid_ctx r) rc) as Qf.
  pose proof (log_resp_mid s1 r who rc0 code out) as Lm. fold sm in Lm.
  assert (Hreqs : reqs (resp_finish sm (rid_ctx r) rc) = set r (deact q) (reqs s)).
  { rewrite T1, deactivate_reqs, C1, Hq. reflexivity. }
  destruct HT as (_ & Hsh).
  destruct Hset as [[_ (sa & Es & Er)]|[_ Ea]].
  - apply slash_shape in Es.
    destruct Es as (q' & rc' & b & amt & b2 & _ & _ & _ & _ & _ & _ & _ & _ & _ & _ & _ & ->).
    apply refund_shape in Er. destruct Er as (_ & _ & Es1).
    assert (El : log sm = [EvRespond r; EvRefund r (c_cons rc0) (r_fee q);
                           EvSlash r (c_svc rc', r_prov q') amt] ++ log s).
    { rewrite Lm, Es1. reflexivity. }
    split.
    + eapply (Sh_close_delta cfg s _ r q (c_cons rc0)); try eassumption.
      * intros r'. now rewrite (Q_tr _ _ r' Qf), El.
      * repeat constructor.
      * right; left. do 2 eexists. reflexivity.
    + eapply NI_trans; [|apply Q_NI, Qf]. eapply NI_delta; [exact El|]. repeat constructor.
  - apply add_earned_shape in Ea. destruct Ea as (o & s0 & Et & _ & _ & Es1). cbv zeta in Es1.
    assert (El : log sm = [EvRespond r; EvEarn r (r_prov q) (r_fee q - mul_trunc (r_fee q) (p_tax cfg));
                           EvTax r (mul_trunc (r_fee q) (p_tax cfg))] ++ log s).
    { rewrite Lm, Es1. reflexivity. }
    split.
    + eapply (Sh_close_delta cfg s _ r q (c_cons rc0)); try eassumption.
      * intros r'. now rewrite (Q_tr _ _ r' Qf), El.
      * repeat constructor.
      * left. reflexivity.
    + eapply NI_trans; [|apply Q_NI, Qf]. eapply NI_delta; [exact El|]. repeat constructor.
Qed.

Theorem T_msg cfg s o s' :
  wf_cfg cfg -> Inv cfg s -> T cfg s -> wf_op s o -> (forall dt, o <> OEndBlock dt) ->
  handle cfg s o = Ok s' -> T cfg s'.
Proof.
  intros Hcfg HI HT Hwf Hne H.
  pose proof (CtxMono_msg _ _ _ _ Hcfg HI Hwf Hne H) as Hm.
  destruct HT as (Hti & Hsh).
  assert (Hquiet : Q s s' -> reqs s' = reqs s -> T cfg s').
  { intros Hq Er. split; [eapply TI_step; eauto using Q_NI|eapply Sh_quiet; eauto]. }
  destruct o;
    try (apply Hquiet; [eapply msg_Q; eauto|
                        exact (proj1 (req_msg_simple _ _ _ _ H I))]);
    try (destruct (ctxmsg_Q _ _ _ _ H I) as (Hq & Er); now apply Hquiet).
  - cbn [handle] in H.
    destruct (Sh_respond _ _ _ _ _ _ _ _ _ Hcfg HI (conj Hti Hsh) H) as (Hsh' & Hni).
    split; [eapply TI_step; eauto|exact Hsh'].
  - exfalso. eapply Hne. reflexivity.
Qed.

(* ------------------------------------------------------------------ *)
(* EndBlock: the expiry loop *)

Lemma log_deactivate s r : log (deactivate s r) = log s.
Proof. unfold deactivate. destruct (get r (reqs s)); reflexivity. Qed.

Lemma NI_slash cfg s r s1 : slash cfg s r = Ok s1 -> NI s s1.
Proof.
  intros H. apply slash_shape in H.
  destruct H as (q & rc & b & amt & b2 & _ & _ & _ & _ & _ & _ & _ & _ & _ & _ & _ & ->). ext_auto.
Qed.

Lemma NI_refund s r cons fee s1 : refund_fee s r cons fee = Some s1 -> NI s s1.
Proof. intros H. apply refund_shape in H. destruct H as (_ & _ & ->). ext_auto. Qed.

Lemma NI_expire_req cfg s r : NI s (expire_req cfg s r).
Proof.
  unfold expire_req.
  destruct (get r (reqs s)) as [q|]; [|apply NI_refl].
  destruct (get (rid_ctx r) (ctxs s)) as [rc|]; [|apply NI_refl].
  eapply NI_trans; [|unfold NI; sproj; apply ext_cons; [exact I|apply ext_refl]].
  eapply NI_trans; [|apply NI_same, log_deactivate].
  destruct (c_super rc); [apply NI_refl|].
  assert (Hsa : NI s (match slash cfg s r with Ok x => x | _ => s end)).
  { destruct (slash cfg s r) eqn:Es; try apply NI_refl. eapply NI_slash; eauto. }
  destruct (refund_fee _ r (c_cons rc) (r_fee q)) eqn:Er; [|assumption].
  eapply NI_trans; [exact Hsa|]. eapply NI_refund; eauto.
Qed.

Lemma refund_ok s r cons fee :
  0 <= fee -> fee <= bal s Escrow -> exists x, refund_fee s r cons fee = Some x.
Proof.
  intros H0 Hle. unfold refund_fee, transfer.
  destruct ((fee <? 0) || (bal s Escrow <? fee)) eqn:E; [|eauto].
  apply orb_true_iff in E. destruct E; b2p; lia.
Qed.

Definition price_ok (cfg : Params) (s : State) : Prop :=
  forall k b, get k (binds s) = Some b -> b_avail b = true ->
    pr_price (pricing_of s k) * p_multiple cfg < INT_LIMIT.

Lemma I_index_price_ok cfg s : I_index cfg s -> price_ok cfg s.
Proof.
  intros (I1 & _) k b G Hav. apply get_In in G.
  destruct (I1 _ _ G) as (_ & _ & _ & Gp & _ & _ & Hlim).
  unfold pricing_of. rewrite Gp. auto.
Qed.

(* what the loop carries *)
Definition LI (cfg : Params) (s : State) : Prop :=
  I_wf s /\ BDM cfg s /\ I_index cfg s /\ J s /\ T cfg s.

Lemma Inv_LI cfg s : Inv cfg s -> T cfg s -> LI cfg s.
Proof.
  intros HI HT. split; [apply HI|]. split; [now apply Inv_BDM|]. split; [apply HI|].
  split; [now apply (Inv_J cfg)|exact HT].
Qed.

(* the slash of a stored request whose binding exists cannot fail *)
Lemma slash_succeeds cfg s r q rc :
  wf_cfg cfg -> BDM cfg s -> I_index cfg s ->
  get r (reqs s) = Some q -> get (rid_ctx r) (ctxs s) = Some rc ->
  has (c_svc rc, r_prov q) (binds s) = true ->
  exists sa, slash cfg s r = Ok sa.
Proof.
  intros Hcfg Hbdm Hidx G Grc Hb.
  apply has_true in Hb. destruct Hb as (b & Gb).
  apply (slash_ok cfg s r q rc b); try assumption.
  - apply Hcfg.
  - eapply BDM_dep_nonneg; eauto.
  - eapply BDM_dep_le_custody; eauto.
  - intros Hav. eapply I_index_price_ok; eauto.
Qed.

Lemma escrow_covers s r q : J s -> get r (reqs s) = Some q -> r_active q = true -> r_fee q <= bal s Escrow.
Proof.
  intros (_ & _ & He & Hf & Hea & _) G Ha. unfold I_escrow in He.
  pose proof (fee_active_le_sum s r q Hf G) as Hle. unfold fee_active at 1 in Hle. rewrite Ha in Hle.
  assert (0 <= msum vid (earned s)) by (apply msum_nonneg; exact Hea). lia.
Qed.

(* the events of one expired request *)
Lemma expire_req_log cfg s r q rc :
  wf_cfg cfg -> BDM cfg s -> I_index cfg s -> J s ->
  get r (reqs s) = Some q -> r_active q = true -> get (rid_ctx r) (ctxs s) = Some rc ->
  has (c_svc rc, r_prov q) (binds s) = true ->
  if c_super rc then log (expire_req cfg s r) = [EvExpire r] ++ log s
  else exists k amt sa,
    slash cfg s r = Ok sa /\ log sa = EvSlash r k amt :: log s /\
    log (expire_req cfg s r) = [EvExpire r; EvRefund r (c_cons rc) (r_fee q); EvSlash r k amt] ++ log s.
Proof.
  intros Hcfg Hbdm Hidx HJ G Ha Grc Hb.
  rewrite (expire_req_unfold _ _ _ _ _ G Grc). unfold expire_settle.
  destruct (c_super rc) eqn:Es.
  - sproj. now rewrite log_deactivate.
  - destruct (slash_succeeds cfg s r q rc Hcfg Hbdm Hidx G Grc Hb) as (sa & Esl). rewrite Esl.
    assert (Hfee : 0 <= r_fee q).
    { destruct HJ as (_ & _ & _ & Hf & _). apply (Hf r), get_In, G. }
    pose proof (escrow_covers s r q HJ G Ha) as Hcov.
    rewrite <- (slash_bal _ _ _ _ Escrow Esl) in Hcov by discriminate.
    destruct (refund_ok sa r (c_cons rc) (r_fee q) Hfee Hcov) as (x & Er). rewrite Er.
    pose proof Esl as Esl0. apply slash_shape in Esl.
    destruct Esl as (q' & rc' & b & amt & b2 & _ & _ & _ & _ & _ & _ & _ & _ & _ & _ & _ & Esa).
    apply refund_shape in Er. destruct Er as (_ & _ & ->).
    exists (c_svc rc', r_prov q'), amt, sa. split; [reflexivity|]. subst sa. split; [reflexivity|].
    sproj. now rewrite log_deactivate.
Qed.

Lemma expire_req_LI cfg s r q rc :
  wf_cfg cfg -> LI cfg s ->
  get r (reqs s) = Some q -> r_active q = true -> get (rid_ctx r) (ctxs s) = Some rc ->
  (c_super rc = true -> r_fee q = 0) -> has (c_svc rc, r_prov q) (binds s) = true ->
  LI cfg (expire_req cfg s r).
Proof.
  intros Hcfg (Hwf & Hbdm & Hidx & HJ & HT) G Ha Grc Hsup Hb.
  split; [now apply wf_expire_req|]. split; [now apply BDM_expire_req|].
  split.
  { eapply index_sframe; [apply ff_expire_req| |exact Hidx].
    pose proof (wf_expire_req cfg s r Hwf) as Hw'. apply Hw'. }
  split; [eapply expire_req_J; eauto|].
  destruct (T_active cfg s r q rc HT G Ha Grc) as (Etr & Hsf & _).
  pose proof (expire_req_core cfg s r) as C. cbv zeta in C. destruct C as (_ & Ec & _).
  split.
  - eapply TI_step; [apply HT|apply NI_expire_req|now apply CtxMono_same].
  - assert (Er : reqs (expire_req cfg s r) = set r (deact q) (reqs s)).
    { rewrite expire_req_reqs, G, Grc. reflexivity. }
    assert (Hfee : 0 <= r_fee q).
    { destruct HJ as (_ & _ & _ & Hf & _). apply (Hf r), get_In, G. }
    pose proof (expire_req_log cfg s r q rc Hcfg Hbdm Hidx HJ G Ha Grc Hb) as Hl.
    destruct HT as (_ & Hsh).
    destruct (c_super rc) eqn:Es.
    + eapply (Sh_close_delta cfg s _ r q (c_cons rc)); try eassumption.
      * intros r'. now rewrite Hl.
      * repeat constructor.
      * right; right; left. split; [auto|reflexivity].
    + destruct Hl as (k & amt & sa & _ & _ & Hl).
      eapply (Sh_close_delta cfg s _ r q (c_cons rc)); try eassumption.
      * intros r'. now rewrite Hl.
      * repeat constructor.
      * right; right; right. split; [|do 2 eexists; reflexivity].
        assert (r_fee q <> 0) by (intros E; apply Hsf in E; congruence). lia.
Qed.

Lemma fold_expire_LI cfg l s :
  wf_cfg cfg -> NoDup l -> LI cfg s ->
  (forall r, In r l -> exists q rc, get r (reqs s) = Some q /\ r_active q = true
      /\ get (rid_ctx r) (ctxs s) = Some rc /\ (c_super rc = true -> r_fee q = 0)
      /\ has (c_svc rc, r_prov q) (binds s) = true) ->
  LI cfg (fold_left (expire_req cfg) l s).
Proof.
  intros Hcfg. revert s. induction l as [|a l IH]; intros s Hn HL Hl; cbn [fold_left]; [assumption|].
  inversion Hn as [|? ? Hni Hn']; subst.
  destruct (Hl a (or_introl eq_refl)) as (q & rc & G1 & Ha & G2 & Hs & Hb).
  apply IH; [assumption|eapply expire_req_LI; eauto|].
  intros r Hr. destruct (Hl r (or_intror Hr)) as (q' & rc' & G1' & Ha' & G2' & Hs' & Hb').
  exists q', rc'. pose proof (expire_req_core cfg s a) as (_ & C2 & _). rewrite C2.
  rewrite expire_req_reqs, G1, G2. rewrite get_set_neq; [|intros ->; contradiction].
  repeat split; auto. now apply has_binds_expire_req.
Qed.

(* ------------------------------------------------------------------ *)
(* EndBlock: expire_one *)

Lemma CtxMono_expire_one cfg s c :
  wf_cfg cfg -> Inv cfg s -> In (height s, c) (expq s) -> height s < HEIGHT_BOUND ->
  CtxMono s (expire_one cfg s c).
Proof.
  intros Hcfg HI Hdue Hb c' rc' G'. right.
  assert (Hex : exists rc, get c' (ctxs s) = Some rc).
  { destruct (expire_one_spec cfg s c Hcfg HI Hdue Hb)
      as (rc0 & rc1 & Erc0 & _ & _ & _ & Ht & _).
    destruct (eqb_spec c' c) as [->|Hn]; [eauto|].
    rewrite (t_ctxs _ _ _ Ht) in G' by assumption. eauto. }
  destruct Hex as (rc & G). exists rc. split; [exact G|].
  pose proof (C10_counter_expire_one _ _ _ _ _ _ Hcfg HI Hdue Hb G G') as Ec.
  destruct (C09_static_expire_one _ _ _ _ _ _ Hcfg HI Hdue Hb G G') as (_ & E2 & _ & E4 & _).
  repeat split; try assumption. lia.
Qed.

Lemma NI_fold_expire cfg l s : NI s (fold_left (expire_req cfg) l s).
Proof.
  revert s. induction l as [|a l IH]; intros s; cbn [fold_left]; [apply NI_refl|].
  eapply NI_trans; [apply NI_expire_req|apply IH].
Qed.

(* the settlement part: every still-active request of the batch is expired *)
Lemma T_expire_settle cfg s c rc :
  wf_cfg cfg -> Inv cfg s -> T cfg s -> get c (ctxs s) = Some rc ->
  let s1 := fst (if c_bdone rc then (s, rc)
                 else complete_batch (fold_left (expire_req cfg) (active_rids s c (c_counter rc)) s) c rc) in
  Sh cfg s1 /\ NI s s1.
Proof.
  intros Hcfg HI HT Grc. cbv zeta.
  destruct (c_bdone rc); cbn [fst]; [split; [apply HT|apply NI_refl]|].
  set (l := active_rids s c (c_counter rc)). set (sf := fold_left (expire_req cfg) l s).
  pose proof (inv_wf _ _ HI) as Hwf. assert (Hwr : wf (reqs s)) by apply Hwf.
  destruct (inv_req _ _ HI) as (R1 & _).
  assert (HL : LI cfg sf).
  { apply fold_expire_LI; [assumption|now apply NoDup_active_rids|now apply Inv_LI|].
    intros r Hr. apply In_active_rids in Hr; [|assumption].
    destruct Hr as (q & G & Hc & _ & Ha). exists q.
    pose proof (get_In _ _ _ G) as Gin.
    destruct (R1 _ _ Gin) as (rc' & G2 & _ & _ & _ & _ & _ & _ & Hb & Hs).
    exists rc'. repeat split; assumption. }
  destruct HL as (_ & _ & _ & _ & (_ & Hsh)).
  pose proof (complete_batch_frame sf c rc) as F. cbv zeta in F. destruct F as (F1 & _).
  pose proof (Q_complete_batch sf c rc) as Hq.
  split; [eapply Sh_quiet; eauto|].
  eapply NI_trans; [|apply Q_NI, Hq].
  apply NI_fold_expire.
Qed.

Theorem T_expire_one cfg s c :
  wf_cfg cfg -> Inv cfg s -> T cfg s -> In (height s, c) (expq s) -> height s < HEIGHT_BOUND ->
  T cfg (expire_one cfg s c).
Proof.
  intros Hcfg HI HT Hdue Hh.
  pose proof (CtxMono_expire_one cfg s c Hcfg HI Hdue Hh) as Hm.
  destruct (due_ctx _ _ _ HI Hdue) as (rc & Grc & Gexp).
  pose proof (expire_one_settled cfg s c rc HI Grc Gexp) as HS. cbv zeta in HS.
  pose proof (T_expire_settle cfg s c rc Hcfg HI HT Grc) as H1. cbv zeta in H1.
  revert Hm. unfold expire_one, ctx_or_zero. rewrite Grc.
  destruct (if c_bdone rc then (s, rc) else complete_batch _ c rc) as [s1 rc1] eqn:Epair.
  cbn [fst] in HS, H1. intros Hm.
  destruct HS as (HJ & _ & _ & Hinact & _). destruct H1 as (Hsh1 & Hni1).
  set (n := c_counter rc1).
  match goal with |- T cfg (clean_batch ?x c n) => set (s3 := x) in * end.
  assert (H3 : reqs s3 = reqs s1 /\ Q s1 s3).
  { unfold s3. destruct (c_state rc1); [destruct (c_rep rc1 && _)| |]; (split; [reflexivity|ext_auto]). }
  destruct H3 as (H31 & H32).
  destruct (clean_batch_fields s3 c n) as (Cr & _). cbv zeta in Cr.
  pose proof (Q_clean_batch s3 c n) as Hqc.
  split.
  - eapply TI_step; [apply HT| |exact Hm].
    eapply NI_trans; [exact Hni1|]. apply Q_NI. eapply Q_trans; eassumption.
  - eapply (Sh_clean cfg s3 _ (batch_rids s3 c n)); [eapply Sh_quiet; eauto| |exact Cr|exact Hqc|].
    + rewrite H31. apply HJ.
    + intros r q Hr G. apply In_batch_rids in Hr. destruct Hr as (_ & Hc & _).
      rewrite H31 in G. eauto.
Qed.

(* ------------------------------------------------------------------ *)
(* EndBlock: new_one *)

Lemma CtxMono_new_one cfg s c :
  wf_cfg cfg -> Inv cfg s -> In (height s, c) (newq s) -> height s < HEIGHT_BOUND ->
  CtxMono s (new_one cfg s c).
Proof.
  intros Hcfg HI Hdue Hb c' rc' G'. right.
  assert (Hex : exists rc, get c' (ctxs s) = Some rc).
  { destruct (new_one_spec cfg s c HI Hdue) as (rc0 & Erc0 & _ & _ & Ht & _).
    destruct (eqb_spec c' c) as [->|Hn]; [eauto|].
    rewrite (t_ctxs _ _ _ Ht) in G' by assumption. eauto. }
  destruct Hex as (rc & G). exists rc. split; [exact G|].
  destruct (C09_static_new_one _ _ _ _ _ _ Hcfg HI Hdue Hb G G') as (_ & E2 & _ & E4 & _).
  destruct (C10_total_bound_new_one _ _ _ _ _ _ Hcfg HI Hdue Hb G G') as [Ec|(_ & Ec & _)];
    repeat split; try assumption; lia.
Qed.

Lemma T_quiet_step cfg s s' : T cfg s -> CtxMono s s' -> Q s s' -> reqs s' = reqs s -> T cfg s'.
Proof.
  intros (Hti & Hsh) Hm Hq Er. split; [eapply TI_step; eauto using Q_NI|eapply Sh_quiet; eauto].
Qed.

Lemma issue_all_Sh cfg s c rc n i provs :
  Sh cfg s -> (forall j, i <= j -> tr (c, n, height s, j) (log s) = []) ->
  Sh cfg (issue_all s c rc n i provs).
Proof.
  revert s i. induction provs as [|p t IH]; intros s i Hsh Hf; cbn [issue_all]; [assumption|].
  apply IH.
  - rewrite issue_one_eq.
    eapply (Sh_issue cfg s _ (c, n, height s, i) (new_req s rc p) (c_cons rc));
      [exact Hsh|apply Hf; lia|reflexivity|reflexivity|reflexivity].
  - intros j Hj. rewrite issue_one_eq. sproj. rewrite tr_cons, about_issue.
    destruct (eqb_spec ((c, n, height s, i) : ReqId) (c, n, height s, j)) as [E|_]; [injection E; lia|].
    apply Hf. lia.
Qed.

Lemma issue_all_In s c rc n i provs r p cons f :
  In (EvIssue r p cons f) (log (issue_all s c rc n i provs)) ->
  In (EvIssue r p cons f) (log s)
  \/ (rid_ctx r = c /\ rid_batch r = n /\ cons = c_cons rc /\ (c_super rc = true <-> f = 0)).
Proof.
  revert s i. induction provs as [|a t IH]; intros s i Hin; cbn [issue_all] in Hin; [now left|].
  apply IH in Hin. destruct Hin as [Hin|Hn]; [|now right].
  rewrite issue_one_eq in Hin. sproj. destruct Hin as [E|Hin]; [|now left].
  right. injection E as <- <- <- <-. cbn [rid_ctx rid_batch fst snd].
  split; [reflexivity|]. split; [reflexivity|]. split; [reflexivity|].
  unfold fee_of. destruct (c_super rc); [tauto|].
  split; [discriminate|]. intros E0.
  pose proof (C07_fee_ge_1 (pricing_of s (c_svc rc, a)) (time s) (vol_of s (c_cons rc) (c_svc rc) a)). lia.
Qed.

(* a new batch of an existing context without pending expiry *)
Lemma T_issue cfg s sp c rc provs X :
  Inv cfg s -> T cfg s -> get c (ctxs s) = Some rc -> get c (expq_h s) = None ->
  Q s sp -> reqs sp = reqs s -> ctxs sp = ctxs s -> height sp = height s ->
  let s' := del_newq (add_expq (initiate_requests sp c provs) c X) c (height s) in
  CtxMono s s' -> T cfg s'.
Proof.
  intros HI HT Grc Gexp Hq Er Ec Eh. cbv zeta.
  unfold initiate_requests, ctx_or_zero. rewrite Ec, Grc.
  set (n := c_counter rc + 1).
  set (s1 := issue_all sp c rc n 0 provs).
  set (rc1 := setc_bthr (setc_breq (setc_bresp (setc_bdone (setc_counter rc n) false) 0) (len provs)) (c_thr rc)).
  intros Hm.
  pose proof (issue_all_frame sp c rc n 0 provs) as F. fold s1 in F. unfold same_but_reqs in F.
  destruct F as (_ & _ & _ & _ & _ & _ & _ & _ & _ & F10 & _).
  match goal with |- T cfg ?x => set (s' := x) in * end.
  assert (Hq1 : Q s1 s') by (unfold s'; ext_auto).
  assert (Er1 : reqs s' = reqs s1) by reflexivity.
  assert (Ec1 : ctxs s' = set c rc1 (ctxs s)) by (unfold s'; sproj; now rewrite F10, Ec).
  assert (Hincl : incl (log s) (log s')).
  { eapply incl_tran; [apply (Q_incl _ _ Hq)|]. eapply incl_tran; [|apply (Q_incl _ _ Hq1)].
    apply (se_log _ _ (SEq_issue_all sp c rc n 0 provs)). }
  destruct HT as (Hti & Hsh). split.
  - apply (TI_step' s s' (fun r p cons f =>
        rid_ctx r = c /\ rid_batch r = n /\ cons = c_cons rc /\ (c_super rc = true <-> f = 0)));
      try assumption.
    + intros r p cons f Hin. apply (NI_issue _ _ _ _ _ _ (Q_NI _ _ Hq1)) in Hin.
      apply issue_all_In in Hin. destruct Hin as [Hin|Hn]; [left|now right].
      eapply NI_issue; [apply Q_NI, Hq|exact Hin].
    + intros r p cons f (Hc & Hb & Hcons & Hsup). split.
      * apply Hincl. rewrite Hc. apply (I_ctx_get _ _ _ _ (inv_ctx _ _ HI) Grc).
      * intros rc' G'. rewrite Ec1, Hc, get_set_eq in G'. injection G' as <-.
        unfold rc1. cbn. repeat split; try tauto; lia.
  - eapply (Sh_quiet cfg s1); [|exact Er1|exact Hq1].
    apply issue_all_Sh; [eapply Sh_quiet; eauto|].
    intros j _. rewrite (Q_tr _ _ _ Hq), Eh.
    apply (T_fresh cfg s _ rc (conj Hti Hsh)); cbn [rid_ctx rid_batch fst snd]; try assumption; [|unfold n; lia].
    eapply no_expiry_no_reqs; eauto.
Qed.

Theorem T_new_one cfg s c :
  wf_cfg cfg -> Inv cfg s -> T cfg s -> In (height s, c) (newq s) -> height s < HEIGHT_BOUND ->
  T cfg (new_one cfg s c).
Proof.
  intros Hcfg HI HT Hdue Hh.
  pose proof (CtxMono_new_one cfg s c Hcfg HI Hdue Hh) as Hm.
  destruct (due_new_ctx _ _ _ HI Hdue) as (rc & Grc & Gnew & Gexp).
  revert Hm. unfold new_one, ctx_or_zero. rewrite Grc.
  destruct (is_state rc Running && c_rep rc && (0 <? c_total rc) && (c_total rc <=? c_counter rc)).
  { intros Hm. apply (T_quiet_step cfg s); [assumption|assumption|ext_auto|reflexivity]. }
  destruct (is_state rc Running).
  2:{ intros Hm. apply (T_quiet_step cfg s); [assumption|assumption|ext_auto|reflexivity]. }
  set (el := filter_providers s rc (c_provs rc)).
  destruct ((0 <? len el) && (c_thr rc <=? len el)).
  2:{ intros Hm. apply (T_quiet_step cfg s); [assumption|assumption|unfold skip_batch; ext_auto|reflexivity]. }
  destruct (c_super rc).
  - intros Hm. apply (T_issue cfg s s c rc (map fst el) _ HI HT Grc Gexp (Q_refl s) eq_refl eq_refl eq_refl Hm).
  - destruct (transfer (User (c_cons rc)) Escrow (sum_prices el) s) as [x|] eqn:Et.
    + intros Hm. pose proof (transfer_frame _ _ _ _ _ Et) as Hf.
      pose proof (Q_transfer _ _ _ _ _ Et) as Hqx.
      refine (T_issue cfg s _ c rc (map fst el) _ HI HT Grc Gexp _ _ _ _ Hm).
      * ext_auto.
      * sproj. now rewrite Hf.
      * sproj. now rewrite Hf.
      * sproj. now rewrite Hf.
    + intros Hm. apply (T_quiet_step cfg s); [assumption|assumption| |].
      * unfold on_paused. destruct (c_mod rc =? 0); ext_auto.
      * unfold on_paused. destruct (c_mod rc =? 0); reflexivity.
Qed.

(* ------------------------------------------------------------------ *)
(* EndBlock phases, steps, reachable states *)

Lemma T_init cfg h0 t0 f : T cfg (init h0 t0 f).
Proof.
  split.
  - intros r p c f' Hin. destruct Hin.
  - intros r. unfold init. cbn [reqs log get tr filter ShR]. now left.
Qed.

Lemma T_tick cfg s h t : T cfg s -> T cfg (set_time (set_height s h) t).
Proof. intros H. exact H. Qed.

Lemma fold_expire_phase_T cfg l s :
  wf_cfg cfg -> Inv cfg s -> T cfg s -> height s < HEIGHT_BOUND -> NoDup l ->
  (forall c, In c l -> In (height s, c) (expq s)) ->
  T cfg (fold_left (expire_one cfg) l s).
Proof.
  intros Hcfg. revert s. induction l as [|a l IH]; intros s Hi HT Hb Hn Hl; cbn [fold_left]; [assumption|].
  inversion Hn as [|? ? Hna Hn']; subst.
  assert (Hda : In (height s, a) (expq s)) by (apply Hl; now left).
  pose proof (Inv_expire_one cfg s a Hcfg Hi Hda Hb) as Hi1.
  pose proof (height_expire_one cfg s a Hcfg Hi Hda Hb) as Eh.
  pose proof (expq_after_expire_one cfg s a Hcfg Hi Hda Hb) as Eq.
  apply IH; try assumption.
  - now apply T_expire_one.
  - now rewrite Eh.
  - intros c Hc. rewrite Eh. apply Eq. split; [apply Hl; now right|]. intros ->. contradiction.
Qed.

Lemma fold_new_phase_T cfg l s :
  wf_cfg cfg -> Inv cfg s -> T cfg s -> height s < HEIGHT_BOUND -> NoDup l ->
  (forall c, In c l -> In (height s, c) (newq s)) ->
  T cfg (fold_left (new_one cfg) l s).
Proof.
  intros Hcfg. revert s. induction l as [|a l IH]; intros s Hi HT Hb Hn Hl; cbn [fold_left]; [assumption|].
  inversion Hn as [|? ? Hna Hn']; subst.
  assert (Hda : In (height s, a) (newq s)) by (apply Hl; now left).
  pose proof (Inv_new_one cfg s a Hcfg Hi Hda Hb) as Hi1.
  pose proof (height_new_one cfg s a Hcfg Hi Hda Hb) as Eh.
  pose proof (newq_after_new_one cfg s a Hcfg Hi Hda Hb) as Eq.
  apply IH; try assumption.
  - now apply T_new_one.
  - now rewrite Eh.
  - intros c Hc. rewrite Eh. apply Eq. split; [apply Hl; now right|]. intros ->. contradiction.
Qed.

Theorem T_end_block cfg s dt :
  wf_cfg cfg -> Inv cfg s -> T cfg s -> height s < HEIGHT_BOUND -> T cfg (end_block cfg s dt).
Proof.
  intros Hcfg Hi HT Hb. unfold end_block, end_blocker.
  set (l1 := due (expq s) (height s)).
  assert (Hn1 : NoDup l1) by (apply NoDup_due; apply (inv_wf _ _ Hi)).
  assert (Hl1 : forall c, In c l1 -> In (height s, c) (expq s)) by (intros c; apply In_due).
  destruct (fold_expire_phase cfg l1 s Hcfg Hi Hb Hn1 Hl1) as (I1 & H1 & _).
  pose proof (fold_expire_phase_T cfg l1 s Hcfg Hi HT Hb Hn1 Hl1) as T1.
  set (s1 := fold_left (expire_one cfg) l1 s) in *.
  set (l2 := due (newq s1) (height s1)).
  assert (Hn2 : NoDup l2) by (apply NoDup_due; apply (inv_wf _ _ I1)).
  assert (Hl2 : forall c, In c l2 -> In (height s1, c) (newq s1)) by (intros c; apply In_due).
  assert (Hb1 : height s1 < HEIGHT_BOUND) by now rewrite H1.
  pose proof (fold_new_phase_T cfg l2 s1 Hcfg I1 T1 Hb1 Hn2 Hl2) as T2.
  apply T_tick. exact T2.
Qed.

Theorem T_step cfg s o :
  wf_cfg cfg -> Inv cfg s -> T cfg s -> wf_op s o -> T cfg (fst (step cfg s o)).
Proof.
  intros Hcfg Hi HT Ho. unfold step. destruct (handle cfg s o) as [s'| |] eqn:E; cbn [fst]; try assumption.
  destruct o; try (eapply T_msg; [exact Hcfg|exact Hi|exact HT|exact Ho|discriminate|exact E]).
  cbn [handle] in E. injection E as <-. cbn [wf_op] in Ho. destruct Ho. now apply T_end_block.
Qed.

Theorem Reach_T cfg s : wf_cfg cfg -> Reach cfg s -> T cfg s.
Proof.
  intros Hcfg H. induction H as [h0 t0 f H1 H2 H3|s o H IH Ho].
  - apply T_init.
  - apply T_step; try assumption. now apply Reach_Inv.
Qed.

(* ================================================================== *)
(* Consequences for reachable states (properties C02 and C04)          *)
(* ================================================================== *)

Lemma tr_In r e l : In e (tr r l) -> In e l.
Proof. intros H. now apply In_tr in H. Qed.

Lemma In_tr_about r e l : In e l -> about r e = true -> In e (tr r l).
Proof. intros. apply In_tr. auto. Qed.

(* the events that mention r: nothing, the issue event alone, or a closed shape *)
Lemma shapes cfg s r : T cfg s ->
  tr r (log s) = []
  \/ exists prov cons fee,
       tr r (log s) = [EvIssue r prov cons fee] \/ closed cfg r prov cons fee (tr r (log s)).
Proof.
  intros (_ & Hsh). specialize (Hsh r). destruct (get r (reqs s)) as [q|]; cbn [ShR] in Hsh.
  - destruct Hsh as (cons & H). right. exists (r_prov q), cons, (r_fee q).
    destruct (r_active q); [now left|now right].
  - destruct Hsh as [E|(prov & cons & fee & H)]; [now left|]. right. exists prov, cons, fee. now right.
Qed.

Ltac shape_cases H E :=
  destruct H as [E|(?prov & ?cons & ?fee & [E|[E|[(?k & ?amt & E)|[(?Hf & E)|(?Hf & ?k & ?amt & E)]]]])].

(* (#issue, #respond, #earn, #tax, #refund, #slash, #expire) for request r *)
Definition counts (r : ReqId) (l : list Event) : nat * nat * nat * nat * nat * nat * nat :=
  (count (is_issue r) l, count (is_respond r) l, count (is_earn r) l, count (is_tax r) l,
   count (is_refund r) l, count (is_slash r) l, count (is_expire r) l).

Lemma counts_tr r l : counts r (tr r l) = counts r l.
Proof.
  unfold counts.
  rewrite (count_tr _ r l (is_issue_about r)), (count_tr _ r l (is_respond_about r)),
    (count_tr _ r l (is_earn_about r)), (count_tr _ r l (is_tax_about r)),
    (count_tr _ r l (is_refund_about r)), (count_tr _ r l (is_slash_about r)),
    (count_tr _ r l (is_expire_about r)). reflexivity.
Qed.

Ltac count_shape :=
  unfold counts, count;
  repeat (cbn [filter is_issue is_respond is_earn is_tax is_refund is_slash is_expire length];
          rewrite ?eqb_refl);
  try reflexivity.

(* the master counting theorem: six possible count vectors *)
Theorem trace_counts cfg s r : T cfg s ->
  (counts r (log s) = (0, 0, 0, 0, 0, 0, 0)
   \/ counts r (log s) = (1, 0, 0, 0, 0, 0, 0)       (* issued, open *)
   \/ counts r (log s) = (1, 1, 1, 1, 0, 0, 0)       (* answered: tax + earnings *)
   \/ counts r (log s) = (1, 1, 0, 0, 1, 1, 0)       (* malformed answer: slash + refund *)
   \/ counts r (log s) = (1, 0, 0, 0, 0, 0, 1)       (* timed out in super mode (fee 0) *)
   \/ counts r (log s) = (1, 0, 0, 0, 1, 1, 1))%nat. (* timed out: slash + refund *)
Proof.
  intros HT. pose proof (shapes cfg s r HT) as H. rewrite <- (counts_tr r (log s)).
  shape_cases H E; rewrite E.
  - left. reflexivity.
  - right; left. count_shape.
  - right; right; left. count_shape.
  - right; right; right; left. count_shape.
  - right; right; right; right; left. count_shape.
  - right; right; right; right; right. count_shape.
Qed.

(* ---- T1: ids are fresh ---- *)

Theorem ids_fresh cfg s : wf_cfg cfg -> Reach cfg s ->
  (forall r, (count (is_issue r) (log s) <= 1)%nat)
  /\ (forall r p cons f, In (EvIssue r p cons f) (log s) ->
        In (EvCtxCreated (rid_ctx r)) (log s)
        /\ forall rc, get (rid_ctx r) (ctxs s) = Some rc -> rid_batch r <= c_counter rc)
  /\ (forall c rc h i, get c (ctxs s) = Some rc ->
        count (is_issue (c, c_counter rc + 1, h, i)) (log s) = 0%nat)
  /\ (forall c r, ctx_fresh s c -> rid_ctx r = c -> count (is_issue r) (log s) = 0%nat).
Proof.
  intros Hcfg HR. pose proof (Reach_T cfg s Hcfg HR) as HT.
  assert (Hpos : forall r, count (is_issue r) (log s) <> 0%nat -> exists p cons f, In (EvIssue r p cons f) (log s)).
  { intros r Hn. destruct (count_pos_In (is_issue r) (log s)) as (e & Hin & He); [lia|].
    destruct e; cbn [is_issue] in He; try discriminate. apply eqb_true in He. subst. eauto. }
  split; [|split; [|split]].
  - intros r. destruct (trace_counts cfg s r HT) as [E|[E|[E|[E|[E|E]]]]];
      unfold counts in E; injection E; intros; lia.
  - intros r p cons f Hin. destruct HT as (Hti & _). destruct (Hti _ _ _ _ Hin) as (Hc & Hrc).
    split; [exact Hc|]. intros rc G. apply (Hrc rc G).
  - intros c rc h i G.
    destruct (Nat.eq_dec (count (is_issue (c, c_counter rc + 1, h, i)) (log s)) 0) as [E|Hn]; [exact E|].
    exfalso. destruct (Hpos _ Hn) as (p & cons & f & Hin).
    destruct HT as (Hti & _). destruct (Hti _ _ _ _ Hin) as (_ & Hrc).
    cbn [rid_ctx rid_batch fst snd] in Hrc. destruct (Hrc rc G) as (Hle & _). lia.
  - intros c r Hf Hc.
    destruct (Nat.eq_dec (count (is_issue r) (log s)) 0) as [E|Hn]; [exact E|].
    exfalso. destruct (Hpos _ Hn) as (p & cons & f & Hin).
    destruct HT as (Hti & _). destruct (Hti _ _ _ _ Hin) as (Hcr & _). rewrite Hc in Hcr. exact (Hf Hcr).
Qed.

(* ---- T2: a stored request has exactly one issue event, with its parties and fee ---- *)

Theorem stored_issued cfg s r q : wf_cfg cfg -> Reach cfg s -> get r (reqs s) = Some q ->
  exists rc, get (rid_ctx r) (ctxs s) = Some rc
    /\ In (EvIssue r (r_prov q) (c_cons rc) (r_fee q)) (log s)
    /\ count (is_issue r) (log s) = 1%nat
    /\ (c_super rc = true <-> r_fee q = 0).
Proof.
  intros Hcfg HR G. pose proof (Reach_T cfg s Hcfg HR) as HT. pose proof (Reach_Inv cfg s Hcfg HR) as HI.
  destruct (inv_req _ _ HI) as (R1 & _). destruct (R1 _ _ (get_In _ _ _ G)) as (rc & Grc & _).
  exists rc. split; [exact Grc|].
  assert (Hin : exists cons, In (EvIssue r (r_prov q) cons (r_fee q)) (tr r (log s))).
  { destruct HT as (_ & Hsh). specialize (Hsh r). rewrite G in Hsh. cbn [ShR] in Hsh.
    destruct Hsh as (cons & H). exists cons. destruct (r_active q).
    - rewrite H. now left.
    - now apply closed_issue in H. }
  destruct Hin as (cons & Hin). apply tr_In in Hin.
  destruct HT as (Hti & Hsh). destruct (Hti _ _ _ _ Hin) as (_ & Hrc). destruct (Hrc _ Grc) as (_ & Ec & Es).
  subst cons. split; [exact Hin|]. split; [|exact Es].
  assert (Hp : (0 < count (is_issue r) (log s))%nat).
  { eapply In_count_pos; [exact Hin|]. cbn [is_issue]. apply eqb_refl. }
  destruct (trace_counts cfg s r (conj Hti Hsh)) as [E|[E|[E|[E|[E|E]]]]];
    unfold counts in E; injection E; intros; lia.
Qed.

(* ---- the full per-request trace (the strongest form; everything else follows) ---- *)

Theorem request_trace cfg s r : wf_cfg cfg -> Reach cfg s ->
  match get r (reqs s) with
  | Some q => exists cons,
      if r_active q then tr r (log s) = [EvIssue r (r_prov q) cons (r_fee q)]
      else closed cfg r (r_prov q) cons (r_fee q) (tr r (log s))
  | None => tr r (log s) = [] \/ exists prov cons fee, closed cfg r prov cons fee (tr r (log s))
  end.
Proof. intros Hcfg HR. destruct (Reach_T cfg s Hcfg HR) as (_ & Hsh). apply (Hsh r). Qed.

(* ---- T3: settled at most once, never both ways ---- *)

Theorem settle_once cfg s r : wf_cfg cfg -> Reach cfg s ->
  (count (is_earn r) (log s) + count (is_refund r) (log s) <= count (is_issue r) (log s))%nat
  /\ (count (is_issue r) (log s) <= 1)%nat
  /\ count (is_tax r) (log s) = count (is_earn r) (log s)
  /\ (count (is_respond r) (log s) + count (is_expire r) (log s) <= count (is_issue r) (log s))%nat.
Proof.
  intros Hcfg HR. pose proof (Reach_T cfg s Hcfg HR) as HT.
  destruct (trace_counts cfg s r HT) as [E|[E|[E|[E|[E|E]]]]];
    unfold counts in E; injection E; intros; lia.
Qed.

Theorem active_unsettled cfg s r q : wf_cfg cfg -> Reach cfg s ->
  get r (reqs s) = Some q -> r_active q = true ->
  counts r (log s) = (1, 0, 0, 0, 0, 0, 0)%nat.
Proof.
  intros Hcfg HR G Ha. destruct (Reach_T cfg s Hcfg HR) as (_ & Hsh).
  destruct (Sh_active cfg s r q Hsh G Ha) as (cons & E).
  rewrite <- counts_tr, E. count_shape.
Qed.

(* an inactive stored request was settled exactly once -- except a time-out in super mode *)
Theorem inactive_settled cfg s r q : wf_cfg cfg -> Reach cfg s ->
  get r (reqs s) = Some q -> r_active q = false ->
  (count (is_earn r) (log s) + count (is_refund r) (log s) = 1
   /\ (count (is_respond r) (log s) + count (is_expire r) (log s) = 1))%nat
  \/ (r_fee q = 0 /\ counts r (log s) = (1, 0, 0, 0, 0, 0, 1)%nat).
Proof.
  intros Hcfg HR G Ha. destruct (Reach_T cfg s Hcfg HR) as (_ & Hsh).
  specialize (Hsh r). rewrite G in Hsh. cbn [ShR] in Hsh. rewrite Ha in Hsh.
  destruct Hsh as (cons & [E|[(k & amt & E)|[(Hf & E)|(Hf & k & amt & E)]]]).
  - left. assert (C : counts r (log s) = (1, 1, 1, 1, 0, 0, 0)%nat) by (rewrite <- counts_tr, E; count_shape).
    unfold counts in C. injection C; intros; lia.
  - left. assert (C : counts r (log s) = (1, 1, 0, 0, 1, 1, 0)%nat) by (rewrite <- counts_tr, E; count_shape).
    unfold counts in C. injection C; intros; lia.
  - right. split; [exact Hf|]. rewrite <- counts_tr, E. count_shape.
  - left. assert (C : counts r (log s) = (1, 0, 0, 0, 1, 1, 1)%nat) by (rewrite <- counts_tr, E; count_shape).
    unfold counts in C. injection C; intros; lia.
Qed.

(* ---- T4: amounts and parties ---- *)

Ltac in_cases Hin :=
  cbn [In] in Hin;
  repeat match type of Hin with _ \/ _ => destruct Hin as [Hin|Hin] end;
  try discriminate Hin; try contradiction.

Theorem settle_party_amount cfg s r : wf_cfg cfg -> Reach cfg s ->
  (forall p a, In (EvEarn r p a) (log s) ->
     exists cons fee, In (EvIssue r p cons fee) (log s)
       /\ In (EvTax r (mul_trunc fee (p_tax cfg))) (log s)
       /\ a + mul_trunc fee (p_tax cfg) = fee)
  /\ (forall t, In (EvTax r t) (log s) ->
     exists p cons fee, In (EvIssue r p cons fee) (log s)
       /\ t = mul_trunc fee (p_tax cfg) /\ In (EvEarn r p (fee - t)) (log s))
  /\ (forall cns a, In (EvRefund r cns a) (log s) -> exists p, In (EvIssue r p cns a) (log s)).
Proof.
  intros Hcfg HR. pose proof (Reach_T cfg s Hcfg HR) as HT.
  pose proof (shapes cfg s r HT) as H.
  split; [|split].
  - intros p a Hin. apply (In_tr_about r) in Hin; [|exact (eqb_refl r)].
    shape_cases H E; rewrite E in Hin; in_cases Hin.
    injection Hin as <- <-. exists cons, fee.
    split; [apply (tr_In r); rewrite E; cbn [In]; auto 6|].
    split; [apply (tr_In r); rewrite E; cbn [In]; auto 6|lia].
  - intros t Hin. apply (In_tr_about r) in Hin; [|exact (eqb_refl r)].
    shape_cases H E; rewrite E in Hin; in_cases Hin.
    injection Hin as <-. exists prov, cons, fee.
    split; [apply (tr_In r); rewrite E; cbn [In]; auto 6|].
    split; [reflexivity|apply (tr_In r); rewrite E; cbn [In]; auto 6].
  - intros cns a Hin. apply (In_tr_about r) in Hin; [|exact (eqb_refl r)].
    shape_cases H E; rewrite E in Hin; in_cases Hin;
      injection Hin as <- <-; exists prov; apply (tr_In r); rewrite E; cbn [In]; auto 6.
Qed.

(* ---- T5 / C04: slashing ---- *)

Theorem slash_at_most_once cfg s r : wf_cfg cfg -> Reach cfg s ->
  (count (is_slash r) (log s) <= 1)%nat /\ count (is_slash r) (log s) = count (is_refund r) (log s).
Proof.
  intros Hcfg HR. pose proof (Reach_T cfg s Hcfg HR) as HT.
  destruct (trace_counts cfg s r HT) as [E|[E|[E|[E|[E|E]]]]];
    unfold counts in E; injection E; intros; lia.
Qed.

(* a slash event has a cause: a time-out of a request with a positive fee (not super
   mode), or an accepted response that was refunded (malformed output) *)
Theorem slash_only_when_failing cfg s r k amt : wf_cfg cfg -> Reach cfg s ->
  In (EvSlash r k amt) (log s) ->
  exists p cons fee, In (EvIssue r p cons fee) (log s) /\ In (EvRefund r cons fee) (log s)
    /\ ((In (EvExpire r) (log s) /\ 0 < fee /\ count (is_respond r) (log s) = 0%nat)
        \/ (In (EvRespond r) (log s) /\ count (is_expire r) (log s) = 0%nat
            /\ count (is_earn r) (log s) = 0%nat)).
Proof.
  intros Hcfg HR Hin. pose proof (Reach_T cfg s Hcfg HR) as HT.
  pose proof (shapes cfg s r HT) as H.
  apply (In_tr_about r) in Hin; [|exact (eqb_refl r)].
  shape_cases H E; rewrite E in Hin; in_cases Hin;
    exists prov, cons, fee;
    (split; [apply (tr_In r); rewrite E; cbn [In]; auto 6|]);
    (split; [apply (tr_In r); rewrite E; cbn [In]; auto 6|]).
  - right. split; [apply (tr_In r); rewrite E; cbn [In]; auto 6|].
    assert (C : counts r (log s) = (1, 1, 0, 0, 1, 1, 0)%nat) by (rewrite <- counts_tr, E; count_shape).
    unfold counts in C. injection C; intros; auto.
  - left. split; [apply (tr_In r); rewrite E; cbn [In]; auto 6|]. split; [exact Hf|].
    assert (C : counts r (log s) = (1, 0, 0, 0, 1, 1, 1)%nat) by (rewrite <- counts_tr, E; count_shape).
    unfold counts in C. injection C; intros; auto.
Qed.

(* conversely: every time-out of a request issued with a positive fee (i.e. not in
   super mode) has its slash and its refund; a time-out with fee 0 has neither *)
Theorem expiry_slashes cfg s r p cons fee : wf_cfg cfg -> Reach cfg s ->
  In (EvExpire r) (log s) -> In (EvIssue r p cons fee) (log s) ->
  (0 < fee -> (exists k amt, In (EvSlash r k amt) (log s)) /\ In (EvRefund r cons fee) (log s)
              /\ counts r (log s) = (1, 0, 0, 0, 1, 1, 1)%nat)
  /\ (fee = 0 -> counts r (log s) = (1, 0, 0, 0, 0, 0, 1)%nat).
Proof.
  intros Hcfg HR Hexp Hiss. pose proof (Reach_T cfg s Hcfg HR) as HT.
  pose proof (shapes cfg s r HT) as H.
  apply (In_tr_about r) in Hexp; [|exact (eqb_refl r)].
  apply (In_tr_about r) in Hiss; [|exact (eqb_refl r)].
  shape_cases H E; rewrite E in Hexp, Hiss; in_cases Hexp; in_cases Hiss;
    injection Hiss as <- <- <-.
  - split; [intros; lia|]. intros _. rewrite <- counts_tr, E. count_shape.
  - split; [|intros; lia]. intros _.
    split; [exists k, amt; apply (tr_In r); rewrite E; cbn [In]; auto 6|].
    split; [apply (tr_In r); rewrite E; cbn [In]; auto 6|].
    rewrite <- counts_tr, E. count_shape.
Qed.

(* ================================================================== *)
(* C02_debit_exact: what one run of the new-batch handler charges      *)
(* ================================================================== *)

Definition issue_fee (e : Event) : Z := match e with EvIssue _ _ _ f => f | _ => 0 end.
(* the sum of the fees of the EvIssue events of a list *)
Definition issue_fees (d : list Event) : Z := fold_right (fun e a => issue_fee e + a) 0 d.

Lemma issue_fees_cons e d : issue_fees (e :: d) = issue_fee e + issue_fees d.
Proof. reflexivity. Qed.

Lemma issue_fees_app d1 d2 : issue_fees (d1 ++ d2) = issue_fees d1 + issue_fees d2.
Proof.
  induction d1 as [|e d IH]; [reflexivity|].
  cbn [app]. rewrite !issue_fees_cons, IH. lia.
Qed.

Lemma plain_list d : Forall plain d ->
  issue_fees d = 0 /\ count is_debit d = 0%nat /\ count is_any_issue d = 0%nat.
Proof.
  induction 1 as [|e d (H1 & H2) Hd (I1 & I2 & I3)]; [repeat split|].
  rewrite !count_cons, H1, H2, I2, I3, issue_fees_cons, I1.
  destruct e; cbn in *; try discriminate; auto.
Qed.

(* the EvIssue events of issue_all, newest first *)
Fixpoint issue_evs (s : State) (c : CtxId) (rc : Ctx) (n i : Z) (provs : list Z) : list Event :=
  match provs with
  | [] => []
  | p :: t => issue_evs s c rc n (i + 1) t ++ [EvIssue (c, n, height s, i) p (c_cons rc) (fee_of s rc p)]
  end.

Lemma fee_of_stable s s1 rc p :
  time s1 = time s -> pricing s1 = pricing s -> vols s1 = vols s -> fee_of s1 rc p = fee_of s rc p.
Proof. intros H2 H3 H4. unfold fee_of, pricing_of, vol_of. now rewrite H2, H3, H4. Qed.

Lemma issue_evs_stable s s1 c rc n i provs :
  height s1 = height s -> time s1 = time s -> pricing s1 = pricing s -> vols s1 = vols s ->
  issue_evs s1 c rc n i provs = issue_evs s c rc n i provs.
Proof.
  intros H1 H2 H3 H4. revert i. induction provs as [|p t IH]; intros i; cbn [issue_evs]; [reflexivity|].
  now rewrite IH, H1, (fee_of_stable s s1) by assumption.
Qed.

Lemma issue_all_log s c rc n i provs :
  log (issue_all s c rc n i provs) = issue_evs s c rc n i provs ++ log s.
Proof.
  revert s i. induction provs as [|p t IH]; intros s i; cbn [issue_all issue_evs]; [reflexivity|].
  rewrite IH. rewrite (issue_evs_stable s (issue_one s c rc n i p)) by reflexivity.
  rewrite <- app_assoc. reflexivity.
Qed.

Lemma issue_evs_fees s c rc n i provs :
  issue_fees (issue_evs s c rc n i provs) = fold_right (fun p a => fee_of s rc p + a) 0 provs.
Proof.
  revert i. induction provs as [|p t IH]; intros i; cbn [issue_evs fold_right]; [reflexivity|].
  rewrite issue_fees_app, IH, issue_fees_cons. cbn [issue_fee issue_fees fold_right]. lia.
Qed.

Lemma issue_evs_counts s c rc n i provs :
  count is_debit (issue_evs s c rc n i provs) = 0%nat
  /\ count is_any_issue (issue_evs s c rc n i provs) = length provs.
Proof.
  revert i. induction provs as [|p t IH]; intros i; cbn [issue_evs length]; [split; reflexivity|].
  destruct (IH (i + 1)) as (I1 & I2). rewrite !count_app, I1, I2. cbn. split; lia.
Qed.

Lemma In_issue_evs s c rc n i provs e : In e (issue_evs s c rc n i provs) ->
  exists j p, e = EvIssue (c, n, height s, j) p (c_cons rc) (fee_of s rc p) /\ i <= j /\ In p provs.
Proof.
  revert i. induction provs as [|p t IH]; intros i Hin; cbn [issue_evs] in Hin; [destruct Hin|].
  apply in_app_or in Hin. destruct Hin as [Hin|[<-|[]]].
  - destruct (IH _ Hin) as (j & p' & E & Hj & Hp). exists j, p'. split; [exact E|]. split; [lia|now right].
  - exists i, p. split; [reflexivity|]. split; [lia|now left].
Qed.

Lemma fee_sum_prices s rc :
  fold_right (fun p a => fee_of s rc p + a) 0 (map fst (filter_providers s rc (c_provs rc)))
  = if c_super rc then 0 else sum_prices (filter_providers s rc (c_provs rc)).
Proof.
  rewrite filter_providers_sum, fold_exch_eq_price.
  induction (map fst (filter_providers s rc (c_provs rc))) as [|p t IH]; cbn [fold_right].
  - now destruct (c_super rc).
  - rewrite IH. unfold fee_of. destruct (c_super rc); lia.
Qed.

(* the log and bank effect of new_one: either nothing is issued or charged, or one batch is
   issued, paid for (unless super mode) by one debit of the sum of the provider prices *)
Lemma new_one_log cfg s c rc : get c (ctxs s) = Some rc ->
  let el := filter_providers s rc (c_provs rc) in
  let n := c_counter rc + 1 in
  (ext plain (log s) (log (new_one cfg s c)) /\ bank (new_one cfg s c) = bank s)
  \/ (0 < len el
      /\ exists sp,
           ((c_super rc = true /\ sp = s)
            \/ (c_super rc = false /\ exists x,
                  transfer (User (c_cons rc)) Escrow (sum_prices el) s = Some x
                  /\ sp = emit (EvDebit c (c_cons rc) (sum_prices el)) x))
           /\ log (new_one cfg s c)
              = EvBatchStart c n (height s) (len (map fst el)) :: issue_evs sp c rc n 0 (map fst el) ++ log sp
           /\ bank (new_one cfg s c) = bank sp).
Proof.
  intros Grc. cbv zeta. unfold new_one, ctx_or_zero. rewrite Grc.
  destruct (is_state rc Running && c_rep rc && (0 <? c_total rc) && (c_total rc <=? c_counter rc)).
  { left. split; [ext_auto|reflexivity]. }
  destruct (is_state rc Running); [|left; split; [ext_auto|reflexivity]].
  set (el := filter_providers s rc (c_provs rc)).
  destruct ((0 <? len el) && (c_thr rc <=? len el)) eqn:Ecnt.
  2:{ left. unfold skip_batch. split; [ext_auto|reflexivity]. }
  apply andb_prop in Ecnt. destruct Ecnt as (Epos & _). apply Z.ltb_lt in Epos.
  assert (Hinit : forall sp, ctxs sp = ctxs s -> height sp = height s ->
     log (del_newq (add_expq (initiate_requests sp c (map fst el)) c (height s + c_timeout rc)) c (height s))
     = EvBatchStart c (c_counter rc + 1) (height s) (len (map fst el))
         :: issue_evs sp c rc (c_counter rc + 1) 0 (map fst el) ++ log sp
     /\ bank (del_newq (add_expq (initiate_requests sp c (map fst el)) c (height s + c_timeout rc)) c (height s))
        = bank sp).
  { intros sp Ec Eh. unfold initiate_requests, ctx_or_zero. rewrite Ec, Grc. sproj.
    rewrite issue_all_log, Eh. split; [reflexivity|].
    pose proof (issue_all_frame sp c rc (c_counter rc + 1) 0 (map fst el)) as F. unfold same_but_reqs in F.
    destruct F as (_ & _ & _ & _ & _ & _ & _ & _ & _ & _ & _ & _ & _ & _ & _ & _ & _ & _ & F19 & _). exact F19. }
  destruct (c_super rc) eqn:Es.
  - right. split; [exact Epos|]. exists s. split; [now left|]. apply Hinit; reflexivity.
  - destruct (transfer (User (c_cons rc)) Escrow (sum_prices el) s) as [x|] eqn:Et.
    + right. split; [exact Epos|]. eexists. split; [right; split; [reflexivity|eauto]|].
      pose proof (transfer_frame _ _ _ _ _ Et) as Hf.
      apply Hinit; sproj; now rewrite Hf.
    + left. unfold on_paused. destruct (c_mod rc =? 0); (split; [ext_auto|reflexivity]).
Qed.

Theorem debit_exact cfg s c : Inv cfg s -> In (height s, c) (newq s) ->
  exists rc d, get c (ctxs s) = Some rc /\ log (new_one cfg s c) = d ++ log s
    (* every request issued belongs to the next batch of c and is charged to its consumer *)
    /\ (forall r p cons f, In (EvIssue r p cons f) d ->
          rid_ctx r = c /\ rid_batch r = c_counter rc + 1 /\ cons = c_cons rc)
    (* a debit is the debit of c's consumer for exactly the fees issued, not in super mode *)
    /\ (forall c' cons amt, In (EvDebit c' cons amt) d ->
          c' = c /\ cons = c_cons rc /\ amt = issue_fees d /\ c_super rc = false
          /\ (0 < count is_any_issue d)%nat)
    /\ (count is_debit d <= 1)%nat
    (* requests issued outside super mode are paid for *)
    /\ (c_super rc = false -> (0 < count is_any_issue d)%nat ->
          In (EvDebit c (c_cons rc) (issue_fees d)) d)
    /\ (c_super rc = true -> issue_fees d = 0 /\ count is_debit d = 0%nat)
    (* the money: the consumer pays the fees issued into escrow, nothing else moves *)
    /\ (forall a, bal (new_one cfg s c) a
          = bal s a - (if eqb a (User (c_cons rc)) then issue_fees d else 0)
                    + (if eqb a Escrow then issue_fees d else 0)).
Proof.
  intros HI Hdue. destruct (due_new_ctx _ _ _ HI Hdue) as (rc & Grc & _ & _).
  exists rc. pose proof (new_one_log cfg s c rc Grc) as H. cbv zeta in H.
  set (el := filter_providers s rc (c_provs rc)) in *.
  destruct H as [((d & El & Hd) & Eb)|(Epos & sp & Hsp & El & Eb)].
  - exists d. destruct (plain_list d Hd) as (P1 & P2 & P3). rewrite Forall_forall in Hd.
    split; [exact Grc|]. split; [exact El|].
    split; [intros r p cons f Hin; destruct (Hd _ Hin) as (_ & Hx); discriminate|].
    split; [intros c' cons amt Hin; destruct (Hd _ Hin) as (Hx & _); discriminate|].
    split; [lia|]. split; [intros _ Hx; lia|]. split; [intros _; split; assumption|].
    intros a. unfold bal. rewrite Eb, P1. destruct (eqb a (User (c_cons rc))), (eqb a Escrow); lia.
  - set (n := c_counter rc + 1) in *. set (provs := map fst el) in *.
    set (ev := issue_evs sp c rc n 0 provs) in *.
    assert (Hlen : (0 < length provs)%nat).
    { unfold provs. rewrite map_length. unfold len in Epos. lia. }
    destruct (issue_evs_counts sp c rc n 0 provs) as (C1 & C2). fold ev in C1, C2.
    assert (Hiss : forall r p cons f, In (EvIssue r p cons f) ev ->
               rid_ctx r = c /\ rid_batch r = n /\ cons = c_cons rc).
    { intros r p cons f Hin. apply In_issue_evs in Hin. destruct Hin as (j & p' & E & _ & _).
      injection E as -> _ -> _. repeat split. }
    assert (Hnd : forall c' cons amt, ~ In (EvDebit c' cons amt) ev).
    { intros c' cons amt Hin. apply In_issue_evs in Hin. destruct Hin as (j & p' & E & _). discriminate. }
    destruct Hsp as [(Es & ->)|(Es & x & Et & ->)].
    + exists (EvBatchStart c n (height s) (len provs) :: ev).
      assert (Hfees : issue_fees (EvBatchStart c n (height s) (len provs) :: ev) = 0).
      { rewrite issue_fees_cons. cbn [issue_fee]. unfold ev, provs, el.
        rewrite issue_evs_fees, fee_sum_prices, Es. reflexivity. }
      split; [exact Grc|]. split; [exact El|].
      split; [intros r p cons f [E|Hin]; [discriminate|eauto]|].
      split; [intros c' cons amt [E|Hin]; [discriminate|exfalso; eapply Hnd; eauto]|].
      rewrite !count_cons, C1. cbn [is_debit is_any_issue].
      split; [lia|]. split; [congruence|]. split; [intros _; split; [exact Hfees|reflexivity]|].
      intros a. unfold bal. rewrite Eb, Hfees. destruct (eqb a (User (c_cons rc))), (eqb a Escrow); lia.
    + sproj. pose proof (transfer_frame _ _ _ _ _ Et) as Hf.
      exists (EvBatchStart c n (height s) (len provs) :: ev ++ [EvDebit c (c_cons rc) (sum_prices el)]).
      assert (Hfees : issue_fees (EvBatchStart c n (height s) (len provs)
                                   :: ev ++ [EvDebit c (c_cons rc) (sum_prices el)]) = sum_prices el).
      { rewrite issue_fees_cons, issue_fees_app, issue_fees_cons. cbn [issue_fee issue_fees fold_right].
        unfold ev, provs. rewrite issue_evs_fees.
        assert (E : forall l, fold_right (fun p a => fee_of (emit (EvDebit c (c_cons rc) (sum_prices el)) x) rc p + a) 0 l
                         = fold_right (fun p a => fee_of s rc p + a) 0 l).
        { induction l as [|p t IH]; cbn [fold_right]; [reflexivity|].
          rewrite IH, (fee_of_stable s) by (sproj; now rewrite Hf). reflexivity. }
        rewrite E. unfold el. rewrite fee_sum_prices, Es. lia. }
      split; [exact Grc|].
      split; [rewrite El; cbn [app]; rewrite <- app_assoc; cbn [app]; now rewrite Hf|].
      split.
      { intros r p cons f [E|Hin]; [discriminate|]. apply in_app_or in Hin.
        destruct Hin as [Hin|[E|[]]]; [eauto|discriminate]. }
      split.
      { intros c' cons amt [E|Hin]; [discriminate|]. apply in_app_or in Hin.
        destruct Hin as [Hin|[E|[]]]; [exfalso; eapply Hnd; eauto|].
        injection E as <- <- <-. rewrite Hfees. repeat split; try assumption.
        rewrite count_cons, count_app, C2. cbn. lia. }
      rewrite !count_cons, !count_app, C1. cbn [is_debit is_any_issue count filter length].
      split; [lia|].
      split; [intros _ _; right; apply in_or_app; right; rewrite Hfees; now left|].
      split; [congruence|].
      intros a. rewrite Hfees. unfold bal at 1. rewrite Eb. sproj. fold (bal x a).
      rewrite (transfer_bal _ _ _ _ _ a Et). lia.
Qed.

(* ================================================================== *)
(* C04, per call                                                       *)
(* ================================================================== *)

(* one call of keeper.Slash: the event, the amount (a fraction of the deposit at that
   moment), and the three places the amount leaves *)
Theorem slash_amount cfg s r s1 : slash cfg s r = Ok s1 ->
  exists q rc b b',
    let k := (c_svc rc, r_prov q) in
    let amt := mul_trunc (b_deposit b) (p_slash cfg) in
    get r (reqs s) = Some q /\ get (rid_ctx r) (ctxs s) = Some rc
    /\ get k (binds s) = Some b /\ get k (binds s1) = Some b'
    /\ log s1 = EvSlash r k amt :: log s
    /\ 0 <= amt <= b_deposit b
    /\ b_deposit b' = b_deposit b - amt
    /\ bal s1 Deposit = bal s Deposit - amt
    /\ supply s1 = supply s - amt
    /\ (forall a, a <> Deposit -> bal s1 a = bal s a).
Proof.
  intros H. destruct (C04_slash_fields cfg s r s1 H) as (q & rc & b & b' & F). cbv zeta in F.
  exists q, rc, b, b'. cbv zeta. tauto.
Qed.

(* one call of the expiry handler on a still-active request, in any state of the expiry
   loop (LI holds at Inv states: Inv_LI, and is kept by the loop: fold_expire_LI):
   super mode: only the expiry; otherwise slash, refund of the whole fee to the
   context's consumer, expiry -- the slash call returned Ok *)
Theorem expire_req_events cfg s r q rc :
  wf_cfg cfg -> LI cfg s ->
  get r (reqs s) = Some q -> r_active q = true -> get (rid_ctx r) (ctxs s) = Some rc ->
  has (c_svc rc, r_prov q) (binds s) = true ->
  if c_super rc then log (expire_req cfg s r) = EvExpire r :: log s
  else exists k amt sa,
    slash cfg s r = Ok sa /\ log sa = EvSlash r k amt :: log s
    /\ log (expire_req cfg s r) = EvExpire r :: EvRefund r (c_cons rc) (r_fee q) :: EvSlash r k amt :: log s.
Proof.
  intros Hcfg (_ & Hbdm & Hidx & HJ & _) G Ha Grc Hb.
  pose proof (expire_req_log cfg s r q rc Hcfg Hbdm Hidx HJ G Ha Grc Hb) as Hl.
  destruct (c_super rc); exact Hl.
Qed.

(* ================================================================== *)
(* Examples on a concrete history                                      *)
(* ================================================================== *)
(* Owner 10 binds providers 11 and 12 to service 1 (price 100, deposit 400 each).
   Consumer 20 opens a repeated context (timeout 10, frequency 10, total 2).
   Block 1 issues batch 1 (two requests, 100 each, debit 200).  Provider 11 answers
   with a valid output (tax 10, earns 90); provider 12 answers with a malformed
   output (slashed 100, fee refunded).  Block 11 issues batch 2 (debit 200); nobody
   answers; block 21 expires both requests (slashed 100 and 75, both refunded) and
   removes the context. *)

Definition tx_cfg : Params :=
  mkParams 100 (* max timeout *) 2 (* multiple *) 150 (* min deposit *)
           (ONE / 10) (* tax 0.1 *) (ONE / 4) (* slash 0.25 *)
           30 20 999 (* module service *) 77 (* callback module *).
Definition tx_raw : RawPricing := mkRaw (100 * ONE) [] [].
Definition tx_c : CtxId := (4242, 0).
Definition tx_r1 : ReqId := (tx_c, 1, 1, 0).
Definition tx_r2 : ReqId := (tx_c, 1, 1, 1).
Definition tx_r3 : ReqId := (tx_c, 2, 11, 0).
Definition tx_r4 : ReqId := (tx_c, 2, 11, 1).
Definition tx_ops : list Op :=
  [ ODefine 1 7 true;
    OBind 1 11 (CBase 400) (Some tx_raw) 5 10 true;
    OBind 1 12 (CBase 400) (Some tx_raw) 5 10 true;
    OCall tx_c 1 [11; 12] 20 0 (CBase 500) 10 false true 10 2 true true;
    OEndBlock 5;
    ORespond tx_r1 11 0 5 true true;
    ORespond tx_r2 12 0 5 false true ]
  ++ repeat (OEndBlock 5) 20.
Definition tx_s0 : State := init 1 1000 [(10, 1000); (20, 1000)].
Definition tx_s : State := run tx_cfg tx_s0 tx_ops.
(* after the first EndBlock: batch 1 issued, nothing answered *)
Definition tx_open : State := run tx_cfg tx_s0 (firstn 5 tx_ops).
(* just before the first EndBlock *)
Definition tx_called : State := run tx_cfg tx_s0 (firstn 4 tx_ops).

Example tx_cfg_wf : wf_cfg tx_cfg.
Proof. unfold wf_cfg. repeat match goal with |- _ /\ _ => split end; zc. Qed.

Example tx_all_ok :
  map (fun n => snd (step tx_cfg (run tx_cfg tx_s0 (firstn n tx_ops)) (nth n tx_ops (OEndBlock 0))))
      (seq 0 27) = repeat ROk 27.
Proof. vm_compute. reflexivity. Qed.

Example tx_reach : Reach tx_cfg tx_s.
Proof.
  apply reach_init_run; [lia|lia|wf_funding_tac|].
  unfold tx_ops. cbn [repeat app]. wf_run_tac.
Qed.

Example tx_open_reach : Reach tx_cfg tx_open.
Proof.
  apply reach_init_run; [lia|lia|wf_funding_tac|].
  unfold tx_ops. cbn [repeat app firstn]. wf_run_tac.
Qed.

Example tx_log :
  log tx_s =
  [ EvCtxRemoved tx_c; EvBatchDone tx_c 2;
    EvExpire tx_r4; EvRefund tx_r4 20 100; EvSlash tx_r4 (1, 12) 75;
    EvExpire tx_r3; EvRefund tx_r3 20 100; EvSlash tx_r3 (1, 11) 100;
    EvBatchStart tx_c 2 11 2; EvIssue tx_r4 12 20 100; EvIssue tx_r3 11 20 100; EvDebit tx_c 20 200;
    EvBatchDone tx_c 1;
    EvRespond tx_r2; EvRefund tx_r2 20 100; EvSlash tx_r2 (1, 12) 100;
    EvRespond tx_r1; EvEarn tx_r1 11 90; EvTax tx_r1 10;
    EvBatchStart tx_c 1 1 2; EvIssue tx_r2 12 20 100; EvIssue tx_r1 11 20 100; EvDebit tx_c 20 200;
    EvCtxCreated tx_c; EvDepositIn (1, 12) 10 400; EvDepositIn (1, 11) 10 400 ].
Proof. vm_compute. reflexivity. Qed.

(* trace_counts / settle_once / slash_at_most_once: the four count vectors *)
Example tx_counts :
  counts tx_r1 (log tx_s) = (1, 1, 1, 1, 0, 0, 0)%nat       (* answered *)
  /\ counts tx_r2 (log tx_s) = (1, 1, 0, 0, 1, 1, 0)%nat    (* malformed answer *)
  /\ counts tx_r3 (log tx_s) = (1, 0, 0, 0, 1, 1, 1)%nat    (* timed out *)
  /\ counts tx_r4 (log tx_s) = (1, 0, 0, 0, 1, 1, 1)%nat
  /\ counts (tx_c, 3, 21, 0) (log tx_s) = (0, 0, 0, 0, 0, 0, 0)%nat.
Proof. vm_compute. repeat split. Qed.

(* request_trace: the per-request traces *)
Example tx_traces :
  tr tx_r1 (log tx_s) = [EvRespond tx_r1; EvEarn tx_r1 11 90; EvTax tx_r1 10; EvIssue tx_r1 11 20 100]
  /\ tr tx_r2 (log tx_s) = [EvRespond tx_r2; EvRefund tx_r2 20 100; EvSlash tx_r2 (1, 12) 100; EvIssue tx_r2 12 20 100]
  /\ tr tx_r3 (log tx_s) = [EvExpire tx_r3; EvRefund tx_r3 20 100; EvSlash tx_r3 (1, 11) 100; EvIssue tx_r3 11 20 100]
  /\ tr tx_r1 (log tx_open) = [EvIssue tx_r1 11 20 100].
Proof. vm_compute. repeat split. Qed.

(* the theorems instantiated on the history (the hypotheses are discharged by computation) *)
Example tx_settle_once := settle_once tx_cfg tx_s tx_r2 tx_cfg_wf tx_reach.
Example tx_party_amount := settle_party_amount tx_cfg tx_s tx_r1 tx_cfg_wf tx_reach.
Example tx_slash_once := slash_at_most_once tx_cfg tx_s tx_r3 tx_cfg_wf tx_reach.
Example tx_ids_fresh := ids_fresh tx_cfg tx_s tx_cfg_wf tx_reach.

(* ids_fresh / stored_issued / active_unsettled on the open batch *)
Example tx_open_facts :
  get tx_r1 (reqs tx_open) = Some (mkReq 11 100 11 true)
  /\ get tx_r2 (reqs tx_open) = Some (mkReq 12 100 11 true)
  /\ counts tx_r1 (log tx_open) = (1, 0, 0, 0, 0, 0, 0)%nat
  /\ counts tx_r2 (log tx_open) = (1, 0, 0, 0, 0, 0, 0)%nat
  /\ In (EvIssue tx_r1 11 20 100) (log tx_open)
  /\ c_cons (ctx_or_zero tx_open tx_c) = 20 /\ c_counter (ctx_or_zero tx_open tx_c) = 1.
Proof. vm_compute. repeat split; auto. Qed.

Example tx_active_unsettled :
  counts tx_r1 (log tx_open) = (1, 0, 0, 0, 0, 0, 0)%nat.
Proof.
  apply (active_unsettled tx_cfg tx_open tx_r1 (mkReq 11 100 11 true) tx_cfg_wf tx_open_reach);
    vm_compute; reflexivity.
Qed.

(* settle_party_amount: fee 100, tax rate 0.1: tax 10, provider 11 earns 90; refunds of 100 to consumer 20 *)
Example tx_amounts :
  mul_trunc 100 (p_tax tx_cfg) = 10
  /\ In (EvEarn tx_r1 11 90) (log tx_s) /\ In (EvTax tx_r1 10) (log tx_s) /\ 90 + 10 = 100
  /\ In (EvRefund tx_r2 20 100) (log tx_s) /\ In (EvIssue tx_r2 12 20 100) (log tx_s).
Proof. vm_compute. repeat split; auto 30. Qed.

(* debit_exact: the first run of the new-batch handler *)
Example tx_debit :
  log (new_one tx_cfg tx_called tx_c)
  = [EvBatchStart tx_c 1 1 2; EvIssue tx_r2 12 20 100; EvIssue tx_r1 11 20 100; EvDebit tx_c 20 200]
      ++ log tx_called
  /\ issue_fees [EvBatchStart tx_c 1 1 2; EvIssue tx_r2 12 20 100; EvIssue tx_r1 11 20 100; EvDebit tx_c 20 200] = 200
  /\ bal tx_called (User 20) = 1000 /\ bal (new_one tx_cfg tx_called tx_c) (User 20) = 800
  /\ bal tx_called Escrow = 0 /\ bal (new_one tx_cfg tx_called tx_c) Escrow = 200.
Proof. vm_compute. repeat split. Qed.

(* slash_only_when_failing / expiry_slashes / slash_amount: deposits 400 -> 300 (r2) -> 225 (r4),
   400 -> 300 (r3); amounts 100 = 400/4, 75 = 300/4, 100 = 400/4 *)
Example tx_slashes :
  filter (fun e => match e with EvSlash _ _ _ => true | _ => false end) (log tx_s)
  = [EvSlash tx_r4 (1, 12) 75; EvSlash tx_r3 (1, 11) 100; EvSlash tx_r2 (1, 12) 100]
  /\ mul_trunc 400 (p_slash tx_cfg) = 100 /\ mul_trunc 300 (p_slash tx_cfg) = 75
  /\ In (EvExpire tx_r3) (log tx_s) /\ In (EvExpire tx_r4) (log tx_s)
  /\ In (EvRespond tx_r2) (log tx_s) /\ In (EvRefund tx_r2 20 100) (log tx_s)
  /\ option_map b_deposit (get (1, 11) (binds tx_s)) = Some 300
  /\ option_map b_deposit (get (1, 12) (binds tx_s)) = Some 225
  /\ bal tx_s Deposit = 525 /\ supply tx_s = 2000 - 275.
Proof. vm_compute. repeat split; auto 30. Qed.

(* slash_amount on the malformed answer: the state in which r2 is slashed *)
Example tx_slash_call :
  exists s1, slash tx_cfg (run tx_cfg tx_s0 (firstn 6 tx_ops)) tx_r2 = Ok s1
    /\ log s1 = EvSlash tx_r2 (1, 12) 100 :: log (run tx_cfg tx_s0 (firstn 6 tx_ops))
    /\ option_map b_deposit (get (1, 12) (binds s1)) = Some 300
    /\ bal s1 Deposit = 700 /\ supply s1 = 1900.
Proof. eexists. split; [vm_compute; reflexivity|]. vm_compute. repeat split. Qed.

(* trace_counts for reachable states *)
Theorem reach_counts cfg s r : wf_cfg cfg -> Reach cfg s ->
  (counts r (log s) = (0, 0, 0, 0, 0, 0, 0)
   \/ counts r (log s) = (1, 0, 0, 0, 0, 0, 0)
   \/ counts r (log s) = (1, 1, 1, 1, 0, 0, 0)
   \/ counts r (log s) = (1, 1, 0, 0, 1, 1, 0)
   \/ counts r (log s) = (1, 0, 0, 0, 0, 0, 1)
   \/ counts r (log s) = (1, 0, 0, 0, 1, 1, 1))%nat.
Proof. intros Hcfg HR. apply (trace_counts cfg), Reach_T; assumption. Qed.

(* the loop invariant of the expiry loop holds where the loop starts *)
Theorem reach_LI cfg s : wf_cfg cfg -> Reach cfg s -> LI cfg s.
Proof. intros Hcfg HR. apply Inv_LI; [now apply Reach_Inv|now apply Reach_T]. Qed.

(* ================================================================== *)
(* C02_debit_matches_issue: every debit of the log is followed (newer) by the   *)
(* issue events of one batch, whose fees sum to it, and the batch-start event   *)
(* ================================================================== *)

Lemma msg_Cm cfg s o s' : handle cfg s o = Ok s' -> ctx_op o = false -> Cm s s'.
Proof.
  intros H Hk. destruct o; cbn [ctx_op] in Hk; try discriminate; cbn [handle] in H.
  - unfold h_define in H. inv_ok H. destruct (get svc (defs s)); inv_ok H. subst. cm_auto.
  - unfold h_bind in H. inv_ok H. sproj.
    assert (Hw2 : Cm s a2) by (eapply Cm_pay_deposit; eauto).
    destruct (get prov (owner_of a2)); inv_ok H; subst; cm_auto.
  - unfold h_update in H. inv_ok H.
    assert (Hw3 : Cm s a3).
    { destruct (coins_empty dep); inv_ok Ha3; [subst; apply Cm_refl|]. eapply Cm_pay_deposit; eauto. }
    destruct (negb (qos =? 0) || negb (coins_empty dep) || match pr with Some _ => true | None => false end);
      [|inv_ok H; now subst].
    destruct a1 as [[raw p]|]; inv_ok H; subst; cm_auto.
  - unfold h_disable in H. inv_ok H. subst. cm_auto.
  - unfold h_enable in H. inv_ok H. subst.
    assert (Hw3 : Cm s a2).
    { destruct (coins_empty dep); inv_ok Ha2; [subst; apply Cm_refl|]. eapply Cm_pay_deposit; eauto. }
    cm_auto.
  - unfold h_refund_deposit in H. inv_ok H. subst.
    assert (Hw3 : Cm s a0) by (eapply Cm_transfer; eauto). cm_auto.
  - unfold h_set_withdraw in H. inv_ok H. subst. cm_auto.
  - unfold h_withdraw in H. inv_ok H.
    destruct (prov =? 0).
    + inv_ok H. subst. apply Cm_transfer in Ha. eapply Cm_trans; [|apply Cm_emit; split; reflexivity].
      eapply Cm_trans; [|exact Ha]. cm_auto.
    + inv_ok H. subst. apply Cm_transfer in Ha0. eapply Cm_trans; [|apply Cm_emit; split; reflexivity].
      eapply Cm_trans; [|exact Ha0].
      destruct (get0 prov (earned s) =? get0 owner (own_earned s)); [|destruct (_ <? 0)]; inv_ok Ha; subst; cm_auto.
  - unfold h_transfer in H. inv_ok H. eapply Cm_transfer; eauto.
Qed.

Lemma ctxmsg_Cm cfg s o s' : handle cfg s o = Ok s' -> ctx_only o -> Cm s s'.
Proof.
  intros H Hk. destruct o; cbn [ctx_only] in Hk; try contradiction; cbn [handle] in H.
  - unfold h_call in H. inv_ok H. apply create_context_spec in H.
    destruct H as (capv & _ & _ & _ & ->). unfold created. cm_auto.
  - apply create_context_spec in H.
    destruct H as (capv & _ & _ & _ & ->). unfold created. cm_auto.
  - apply h_pause_spec in H. destruct H as (rc0 & _ & _ & _ & _ & _ & ->). cm_auto.
  - apply h_start_spec in H. destruct H as (rc0 & _ & _ & _ & _ & ->). unfold started.
    destruct (negb (has c (expq_h s)) && negb (has c (newq_h s))); cm_auto.
  - apply h_kill_spec in H. destruct H as (rc0 & _ & _ & _ & _ & ->). cm_auto.
  - apply h_update_ctx_spec in H.
    destruct H as (rc0 & capo & _ & _ & _ & _ & _ & _ & _ & _ & _ & ->). cm_auto.
  - mod_shape H; cm_auto.
  - mod_shape H; cm_auto.
  - mod_shape H; cm_auto.
  - mod_shape H; cm_auto.
Qed.

Lemma ND_slash cfg s r s1 : slash cfg s r = Ok s1 -> ND s s1.
Proof.
  intros H. apply slash_shape in H.
  destruct H as (q & rc & b & amt & b2 & _ & _ & _ & _ & _ & _ & _ & _ & _ & _ & _ & ->). cm_auto.
Qed.

Lemma ND_refund s r cons fee s1 : refund_fee s r cons fee = Some s1 -> ND s s1.
Proof. intros H. apply refund_shape in H. destruct H as (_ & _ & ->). cm_auto. Qed.

Lemma ND_respond cfg s r who code out ov ok s' :
  h_respond cfg s r who code out ov ok = Ok s' -> ND s s'.
Proof.
  intros H. apply respond_inv in H.
  destruct H as (q & rc0 & s1 & rc & _ & _ & _ & _ & _ & Hset & _ & ->).
  eapply ND_trans; [|apply Cm_ND, Cm_resp_finish].
  assert (H1 : ND s s1).
  { destruct Hset as [[_ (sa & Es & Er)]|[_ Ea]].
    - eapply ND_trans; [eapply ND_slash; eauto|eapply ND_refund; eauto].
    - apply add_earned_shape in Ea. destruct Ea as (o & s0 & Et & _ & _ & ->). cbv zeta.
      pose proof (transfer_frame _ _ _ _ _ Et) as Hf. cm_auto. }
  unfold ND. rewrite log_resp_mid. apply ext_cons; [reflexivity|exact H1].
Qed.

Lemma ND_msg cfg s o s' : (forall dt, o <> OEndBlock dt) -> handle cfg s o = Ok s' -> ND s s'.
Proof.
  intros Hne H.
  destruct o;
    try (apply Cm_ND; eapply msg_Cm; [exact H|reflexivity]);
    try (apply Cm_ND; eapply ctxmsg_Cm; [exact H|exact I]).
  - cbn [handle] in H. eapply ND_respond; eauto.
  - exfalso. eapply Hne. reflexivity.
Qed.

Lemma ND_expire_req cfg s r : ND s (expire_req cfg s r).
Proof.
  unfold expire_req.
  destruct (get r (reqs s)) as [q|]; [|apply ND_refl].
  destruct (get (rid_ctx r) (ctxs s)) as [rc|]; [|apply ND_refl].
  eapply ND_trans; [|unfold ND; sproj; apply ext_cons; [reflexivity|apply ext_refl]].
  eapply ND_trans; [|apply ND_same, log_deactivate].
  destruct (c_super rc); [apply ND_refl|].
  assert (Hsa : ND s (match slash cfg s r with Ok x => x | _ => s end)).
  { destruct (slash cfg s r) eqn:Es; try apply ND_refl. eapply ND_slash; eauto. }
  destruct (refund_fee _ r (c_cons rc) (r_fee q)) eqn:Er; [|assumption].
  eapply ND_trans; [exact Hsa|]. eapply ND_refund; eauto.
Qed.

Lemma ND_expire_one cfg s c : ND s (expire_one cfg s c).
Proof.
  unfold expire_one. set (rc := ctx_or_zero s c).
  assert (Hp : ND s (fst (if c_bdone rc then (s, rc)
             else complete_batch (fold_left (expire_req cfg) (active_rids s c (c_counter rc)) s) c rc))).
  { destruct (c_bdone rc); cbn [fst]; [apply ND_refl|].
    eapply ND_trans; [|apply Cm_ND, Cm_complete_batch].
    generalize (active_rids s c (c_counter rc)). intros l. generalize s. clear.
    induction l as [|a l IH]; intros s; cbn [fold_left]; [apply ND_refl|].
    eapply ND_trans; [apply ND_expire_req|apply IH]. }
  destruct (if c_bdone rc then (s, rc) else _) as [s1 rc1]. cbn [fst] in Hp.
  eapply ND_trans; [exact Hp|]. eapply ND_trans; [|apply Cm_ND, Cm_clean_batch].
  destruct (c_state rc1); [destruct (c_rep rc1 && _)| |]; cm_auto.
Qed.

(* ---- the ordering invariant ---- *)

Definition issue_of (c : CtxId) (n h cons : Z) (e : Event) : Prop :=
  exists i p f, e = EvIssue (c, n, h, i) p cons f.

Definition DebitOK (l : list Event) : Prop :=
  forall l1 l2 c cons amt, l = l1 ++ EvDebit c cons amt :: l2 ->
    exists rest n h evs, l1 = rest ++ EvBatchStart c n h (len evs) :: evs
      /\ Forall (issue_of c n h cons) evs /\ issue_fees evs = amt.

Lemma split_nodebit d l l1 l2 x :
  Forall nodebit d -> is_debit x = true -> d ++ l = l1 ++ x :: l2 ->
  exists l1', l1 = d ++ l1' /\ l = l1' ++ x :: l2.
Proof.
  intros Hd Hx. revert l1. induction Hd as [|e d He Hd IH]; intros l1 E; cbn [app] in *; [eauto|].
  destruct l1 as [|e' l1]; cbn [app] in E.
  - injection E as -> _. unfold nodebit in He. congruence.
  - injection E as <- E. destruct (IH _ E) as (l1' & -> & El). eauto.
Qed.

Lemma DebitOK_ND l l' : DebitOK l -> ext nodebit l l' -> DebitOK l'.
Proof.
  intros H (d & -> & Hd) l1 l2 c cons amt E.
  destruct (split_nodebit d l l1 l2 (EvDebit c cons amt) Hd eq_refl E) as (l1' & -> & El).
  destruct (H _ _ _ _ _ El) as (rest & n & h & evs & -> & Hev & Hf).
  exists (d ++ rest), n, h, evs. split; [now rewrite app_assoc|auto].
Qed.

Lemma DebitOK_new l c n h cons evs :
  DebitOK l -> Forall (issue_of c n h cons) evs ->
  DebitOK (EvBatchStart c n h (len evs) :: evs ++ EvDebit c cons (issue_fees evs) :: l).
Proof.
  intros H Hev l1 l2 c' cons' amt E.
  assert (Hd : Forall nodebit (EvBatchStart c n h (len evs) :: evs)).
  { constructor; [reflexivity|]. eapply Forall_impl; [|exact Hev].
    intros e (i & p & f & ->). reflexivity. }
  change (EvBatchStart c n h (len evs) :: evs ++ EvDebit c cons (issue_fees evs) :: l)
    with ((EvBatchStart c n h (len evs) :: evs) ++ EvDebit c cons (issue_fees evs) :: l) in E.
  destruct (split_nodebit _ _ l1 l2 (EvDebit c' cons' amt) Hd eq_refl E) as (l1' & -> & El).
  destruct l1' as [|e l1']; cbn [app] in El.
  - injection El as <- <- <- _. exists [], n, h, evs. rewrite app_nil_r. auto.
  - injection El as <- El. destruct (H _ _ _ _ _ El) as (rest & n' & h' & evs' & -> & Hev' & Hf').
    exists ((EvBatchStart c n h (len evs) :: evs) ++ EvDebit c cons (issue_fees evs) :: rest), n', h', evs'.
    split; [|auto]. rewrite <- !app_assoc. reflexivity.
Qed.

Definition Dk (s : State) : Prop := DebitOK (log s).

Lemma issue_evs_of s c rc n i provs : Forall (issue_of c n (height s) (c_cons rc)) (issue_evs s c rc n i provs).
Proof.
  apply Forall_forall. intros e Hin. apply In_issue_evs in Hin.
  destruct Hin as (j & p & -> & _). exists j, p, (fee_of s rc p). reflexivity.
Qed.

Lemma issue_evs_length s c rc n i provs : length (issue_evs s c rc n i provs) = length provs.
Proof.
  revert i. induction provs as [|p t IH]; intros i; cbn [issue_evs length]; [reflexivity|].
  rewrite app_length, IH. cbn. lia.
Qed.

Lemma Dk_new_one cfg s c : Inv cfg s -> In (height s, c) (newq s) -> Dk s -> Dk (new_one cfg s c).
Proof.
  intros HI Hdue HD. destruct (due_new_ctx _ _ _ HI Hdue) as (rc & Grc & _ & _).
  pose proof (new_one_log cfg s c rc Grc) as H. cbv zeta in H.
  set (el := filter_providers s rc (c_provs rc)) in *.
  destruct H as [(Hext & _)|(_ & sp & Hsp & El & _)].
  - eapply DebitOK_ND; [exact HD|]. eapply ext_weaken; [apply plain_nodebit|exact Hext].
  - unfold Dk. rewrite El.
    set (n := c_counter rc + 1) in *. set (provs := map fst el) in *.
    assert (Hlen : len provs = len (issue_evs sp c rc n 0 provs)).
    { unfold len. now rewrite issue_evs_length. }
    rewrite Hlen.
    destruct Hsp as [(Es & ->)|(Es & x & Et & Esp)].
    + eapply DebitOK_ND; [exact HD|]. apply ext_cons; [reflexivity|].
      exists (issue_evs s c rc n 0 provs). split; [reflexivity|].
      eapply Forall_impl; [|apply issue_evs_of]. intros e (i & p & f & ->). reflexivity.
    + pose proof (transfer_frame _ _ _ _ _ Et) as Hf.
      assert (Els : log sp = EvDebit c (c_cons rc) (sum_prices el) :: log s)
        by (rewrite Esp; sproj; rewrite Hf; reflexivity).
      assert (Eh : height sp = height s) by (rewrite Esp; sproj; rewrite Hf; reflexivity).
      assert (Et1 : time sp = time s) by (rewrite Esp; sproj; rewrite Hf; reflexivity).
      assert (Ep : pricing sp = pricing s) by (rewrite Esp; sproj; rewrite Hf; reflexivity).
      assert (Ev : vols sp = vols s) by (rewrite Esp; sproj; rewrite Hf; reflexivity).
      assert (Hfees : sum_prices el = issue_fees (issue_evs sp c rc n 0 provs)).
      { unfold provs. rewrite issue_evs_fees.
        assert (E : forall l, fold_right (fun p a => fee_of sp rc p + a) 0 l
                         = fold_right (fun p a => fee_of s rc p + a) 0 l).
        { induction l as [|p t IH]; cbn [fold_right]; [reflexivity|].
          rewrite IH, (fee_of_stable s sp) by assumption. reflexivity. }
        rewrite E. unfold el. now rewrite fee_sum_prices, Es. }
      rewrite Els, Hfees, <- Eh. apply DebitOK_new; [exact HD|apply issue_evs_of].
Qed.

(* generic: a property kept by every message, by both per-context EndBlock handlers (from
   states satisfying Inv) and by the tick holds in every reachable state *)
Lemma fold_expire_phase_P (P : State -> Prop) cfg l s :
  wf_cfg cfg ->
  (forall s c, Inv cfg s -> In (height s, c) (expq s) -> height s < HEIGHT_BOUND -> P s -> P (expire_one cfg s c)) ->
  Inv cfg s -> P s -> height s < HEIGHT_BOUND -> NoDup l ->
  (forall c, In c l -> In (height s, c) (expq s)) ->
  P (fold_left (expire_one cfg) l s).
Proof.
  intros Hcfg HP. revert s. induction l as [|a l IH]; intros s Hi Hp Hb Hn Hl; cbn [fold_left]; [assumption|].
  inversion Hn as [|? ? Hna Hn']; subst.
  assert (Hda : In (height s, a) (expq s)) by (apply Hl; now left).
  pose proof (Inv_expire_one cfg s a Hcfg Hi Hda Hb) as Hi1.
  pose proof (height_expire_one cfg s a Hcfg Hi Hda Hb) as Eh.
  pose proof (expq_after_expire_one cfg s a Hcfg Hi Hda Hb) as Eq.
  apply IH; try assumption.
  - now apply HP.
  - now rewrite Eh.
  - intros c Hc. rewrite Eh. apply Eq. split; [apply Hl; now right|]. intros ->. contradiction.
Qed.

Lemma fold_new_phase_P (P : State -> Prop) cfg l s :
  wf_cfg cfg ->
  (forall s c, Inv cfg s -> In (height s, c) (newq s) -> height s < HEIGHT_BOUND -> P s -> P (new_one cfg s c)) ->
  Inv cfg s -> P s -> height s < HEIGHT_BOUND -> NoDup l ->
  (forall c, In c l -> In (height s, c) (newq s)) ->
  P (fold_left (new_one cfg) l s).
Proof.
  intros Hcfg HP. revert s. induction l as [|a l IH]; intros s Hi Hp Hb Hn Hl; cbn [fold_left]; [assumption|].
  inversion Hn as [|? ? Hna Hn']; subst.
  assert (Hda : In (height s, a) (newq s)) by (apply Hl; now left).
  pose proof (Inv_new_one cfg s a Hcfg Hi Hda Hb) as Hi1.
  pose proof (height_new_one cfg s a Hcfg Hi Hda Hb) as Eh.
  pose proof (newq_after_new_one cfg s a Hcfg Hi Hda Hb) as Eq.
  apply IH; try assumption.
  - now apply HP.
  - now rewrite Eh.
  - intros c Hc. rewrite Eh. apply Eq. split; [apply Hl; now right|]. intros ->. contradiction.
Qed.

Theorem Reach_Dk cfg s : wf_cfg cfg -> Reach cfg s -> Dk s.
Proof.
  intros Hcfg H. induction H as [h0 t0 f H1 H2 H3|s o H IH Ho].
  - intros l1 l2 c cons amt E. unfold init in E. cbn [log] in E. destruct l1; discriminate.
  - pose proof (Reach_Inv cfg s Hcfg H) as Hi.
    unfold step. destruct (handle cfg s o) as [s'| |] eqn:E; cbn [fst]; try assumption.
    destruct o; try (eapply DebitOK_ND; [exact IH|]; eapply (ND_msg cfg s _ s'); [|exact E]; discriminate).
    cbn [handle] in E. injection E as <-. cbn [wf_op] in Ho. destruct Ho as (_ & Hb).
    unfold end_block, end_blocker.
    set (l1 := due (expq s) (height s)).
    assert (Hn1 : NoDup l1) by (apply NoDup_due; apply (inv_wf _ _ Hi)).
    assert (Hl1 : forall c, In c l1 -> In (height s, c) (expq s)) by (intros c; apply In_due).
    destruct (fold_expire_phase cfg l1 s Hcfg Hi Hb Hn1 Hl1) as (I1 & H1 & _).
    assert (D1 : Dk (fold_left (expire_one cfg) l1 s)).
    { apply (fold_expire_phase_P Dk); try assumption.
      intros s0 c _ _ _ HD. eapply DebitOK_ND; [exact HD|apply ND_expire_one]. }
    set (s1 := fold_left (expire_one cfg) l1 s) in *.
    set (l2 := due (newq s1) (height s1)).
    assert (Hn2 : NoDup l2) by (apply NoDup_due; apply (inv_wf _ _ I1)).
    assert (Hl2 : forall c, In c l2 -> In (height s1, c) (newq s1)) by (intros c; apply In_due).
    assert (Hb1 : height s1 < HEIGHT_BOUND) by now rewrite H1.
    assert (D2 : Dk (fold_left (new_one cfg) l2 s1)).
    { apply (fold_new_phase_P Dk); try assumption.
      intros s0 c Hi0 Hd0 _ HD. now apply Dk_new_one. }
    exact D2.
Qed.

(* every debit of the log is immediately followed (newer) by the issue events of one batch
   of its context -- all for the debited consumer, all of the block of the batch start,
   their fees summing to the debit -- and then by that batch's EvBatchStart *)
Theorem debit_matches_issue cfg s l1 l2 c cons amt : wf_cfg cfg -> Reach cfg s ->
  log s = l1 ++ EvDebit c cons amt :: l2 ->
  exists rest n h evs, l1 = rest ++ EvBatchStart c n h (len evs) :: evs
    /\ Forall (issue_of c n h cons) evs /\ issue_fees evs = amt.
Proof. intros Hcfg HR E. exact (Reach_Dk cfg s Hcfg HR l1 l2 c cons amt E). Qed.

Example tx_debit_matches :
  exists l1 l2, log tx_s = l1 ++ EvDebit tx_c 20 200 :: l2
    /\ exists rest, l1 = rest ++ EvBatchStart tx_c 2 11 (len [EvIssue tx_r4 12 20 100; EvIssue tx_r3 11 20 100])
                                  :: [EvIssue tx_r4 12 20 100; EvIssue tx_r3 11 20 100]
    /\ issue_fees [EvIssue tx_r4 12 20 100; EvIssue tx_r3 11 20 100] = 200.
Proof.
  exists (firstn 11 (log tx_s)), (skipn 12 (log tx_s)). split; [vm_compute; reflexivity|].
  exists (firstn 8 (log tx_s)). split; vm_compute; reflexivity.
Qed.
