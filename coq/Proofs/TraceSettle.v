(* Trace theorems, part 2: the instrumented invariant T (Proofs/TraceLemmas.v) holds
   in every reachable state: per message, per expire_one, per new_one, tick, Reach_T.
   The full Inv of the pre-state is assumed everywhere (Reach_Inv provides it).

   Inside the expiry loop the slash of a timed-out request never fails: the binding
   exists (I_req), its deposit is covered by the custody account (BDM) and the price
   of an available binding is below the Int limit (I_index); all three are carried
   through the loop (LI below).  Hence every time-out of a non-super request has
   both its EvSlash and its EvRefund. *)
From Coq Require Import List ZArith Bool Lia Permutation.
From SVC Require Import Base.AMap Base.Res Base.Dec Model.Types Model.Pricing
  Model.Handlers Model.EndBlock Model.Step Proofs.Inv Proofs.Lemmas Proofs.ReqLemmas
  Proofs.DecProofs Proofs.PricingProofs Proofs.CtxOps Proofs.InvWf Proofs.BankLemmas Proofs.InvBank
  Proofs.PFrame Proofs.InvIndex Proofs.InvSched Proofs.InvCtx Proofs.InvEscrow Proofs.InvReq
  Proofs.InvAll Proofs.StepSpecs_ctx Proofs.TraceLemmas.
Import ListNotations.
Open Scope Z_scope.

(* ------------------------------------------------------------------ *)
(* messages that touch neither contexts nor requests *)

Lemma msg_Q cfg s o s' : handle cfg s o = Ok s' -> ctx_op o = false -> Q s s'.
Proof.
  intros H Hk. destruct o; cbn [ctx_op] in Hk; try discriminate; cbn [handle] in H.
  - unfold h_define in H. inv_ok H. destruct (get svc (defs s)); inv_ok H. subst. ext_auto.
  - unfold h_bind in H. inv_ok H. sproj.
    assert (Hw2 : Q s a2) by (eapply Q_pay_deposit; eauto).
    destruct (get prov (owner_of a2)); inv_ok H; subst; ext_auto.
  - unfold h_update in H. inv_ok H.
    assert (Hw3 : Q s a3).
    { destruct (coins_empty dep); inv_ok Ha3; [subst; apply Q_refl|]. eapply Q_pay_deposit; eauto. }
    destruct (negb (qos =? 0) || negb (coins_empty dep) || match pr with Some _ => true | None => false end);
      [|inv_ok H; now subst].
    destruct a1 as [[raw p]|]; inv_ok H; subst; ext_auto.
  - unfold h_disable in H. inv_ok H. subst. ext_auto.
  - unfold h_enable in H. inv_ok H. subst.
    assert (Hw3 : Q s a2).
    { destruct (coins_empty dep); inv_ok Ha2; [subst; apply Q_refl|]. eapply Q_pay_deposit; eauto. }
    ext_auto.
  - unfold h_refund_deposit in H. inv_ok H. subst.
    assert (Hw3 : Q s a0) by (eapply Q_transfer; eauto). ext_auto.
  - unfold h_set_withdraw in H. inv_ok H. subst. ext_auto.
  - unfold h_withdraw in H. inv_ok H.
    destruct (prov =? 0).
    + inv_ok H. subst. apply Q_transfer in Ha. eapply Q_trans; [|apply Q_emit; reflexivity].
      eapply Q_trans; [|exact Ha]. ext_auto.
    + inv_ok H. subst. apply Q_transfer in Ha0. eapply Q_trans; [|apply Q_emit; reflexivity].
      eapply Q_trans; [|exact Ha0].
      destruct (get0 prov (earned s) =? get0 owner (own_earned s)); [|destruct (_ <? 0)]; inv_ok Ha; subst; ext_auto.
  - unfold h_transfer in H. inv_ok H. eapply Q_transfer; eauto.
Qed.

(* messages that create or rewrite a context record *)
Definition ctx_only (o : Op) : Prop :=
  match o with
  | OCall _ _ _ _ _ _ _ _ _ _ _ _ _ | OModCall _ _ _ _ _ _ _ _ _ _ _ _ _ _
  | OPause _ _ _ | OStart _ _ _ | OKill _ _ _ | OUpdateCtx _ _ _ _ _ _ _ _ => True
  | _ => False
  end.

Lemma ctxmsg_Q cfg s o s' : handle cfg s o = Ok s' -> ctx_only o -> Q s s' /\ reqs s' = reqs s.
Proof.
  intros H Hk. destruct o; cbn [ctx_only] in Hk; try contradiction; cbn [handle] in H.
  - unfold h_call in H. inv_ok H. apply create_context_spec in H.
    destruct H as (capv & _ & _ & _ & ->). unfold created. split; [ext_auto|reflexivity].
  - apply create_context_spec in H.
    destruct H as (capv & _ & _ & _ & ->). unfold created. split; [ext_auto|reflexivity].
  - apply h_pause_spec in H. destruct H as (rc0 & _ & _ & _ & _ & _ & ->). split; [ext_auto|reflexivity].
  - apply h_start_spec in H. destruct H as (rc0 & _ & _ & _ & _ & ->). unfold started.
    destruct (negb (has c (expq_h s)) && negb (has c (newq_h s))); (split; [ext_auto|reflexivity]).
  - apply h_kill_spec in H. destruct H as (rc0 & _ & _ & _ & _ & ->). split; [ext_auto|reflexivity].
  - apply h_update_ctx_spec in H.
    destruct H as (rc0 & capo & _ & _ & _ & _ & _ & _ & _ & _ & _ & ->). split; [ext_auto|reflexivity].
Qed.

(* a context record that appears in a message step was created under a fresh id *)
Lemma msg_new_ctx_fresh cfg s o s' c rc' :
  wf_cfg cfg -> Inv cfg s -> wf_op s o -> (forall dt, o <> OEndBlock dt) ->
  handle cfg s o = Ok s' ->
  get c (ctxs s) = None -> get c (ctxs s') = Some rc' -> ctx_fresh s c.
Proof.
  intros Hcfg HI Hwf Hne H Enone Erc'.
  destruct (ctx_op o) eqn:Hk.
  2:{ rewrite (se_ctxs _ _ (msg_SEq _ _ _ _ H Hk)) in Erc'. congruence. }
  assert (Hcreate : forall c0 rc0, ctx_fresh s c0 -> s' = created s c0 rc0 -> ctx_fresh s c).
  { intros c0 rc0 Hf ->. unfold created in Erc'. sproj. rewrite get_set in Erc'.
    destruct (eqb_spec c c0) as [->|Hn]; [assumption|congruence]. }
  assert (Hput : forall sm c0 rc0 rc1, SEq s sm -> get c0 (ctxs s) = Some rc0 ->
             ctxs s' = set c0 rc1 (ctxs sm) -> False).
  { intros sm c0 rc0 rc1 Hsm G0 E. rewrite E, get_set, (se_ctxs _ _ Hsm) in Erc'.
    destruct (eqb_spec c c0) as [->|Hn]; congruence. }
  destruct o; cbn [ctx_op] in Hk; try discriminate; cbn [handle] in H; cbn [wf_op] in Hwf.
  - unfold h_call in H. inv_ok H. apply create_context_spec in H.
    destruct H as (capv & _ & _ & _ & E). eapply Hcreate; [|exact E]. tauto.
  - apply create_context_spec in H.
    destruct H as (capv & _ & _ & _ & E). eapply Hcreate; [|exact E]. tauto.
  - apply respond_spec in H.
    destruct H as (q & rc0 & sm & rc0' & Eq & Erc0 & Hsm & -> & Hrc').
    exfalso. eapply (Hput sm); eauto. reflexivity.
  - apply h_pause_spec in H. destruct H as (rc0 & Erc0 & _ & _ & _ & _ & ->).
    exfalso. eapply (Hput s); eauto using SEq_refl. reflexivity.
  - apply h_start_spec in H. destruct H as (rc0 & Erc0 & _ & _ & _ & ->).
    exfalso. eapply (Hput s); eauto using SEq_refl. apply ctxs_started.
  - apply h_kill_spec in H. destruct H as (rc0 & Erc0 & _ & _ & _ & ->).
    exfalso. eapply (Hput s); eauto using SEq_refl. reflexivity.
  - apply h_update_ctx_spec in H.
    destruct H as (rc0 & capo & Erc0 & _ & _ & _ & _ & _ & _ & _ & _ & ->).
    exfalso. eapply (Hput s); eauto using SEq_refl. reflexivity.
  - exfalso. eapply Hne. reflexivity.
Qed.

Lemma CtxMono_msg cfg s o s' :
  wf_cfg cfg -> Inv cfg s -> wf_op s o -> (forall dt, o <> OEndBlock dt) ->
  handle cfg s o = Ok s' -> CtxMono s s'.
Proof.
  intros Hcfg HI Hwf Hne H c rc' G'.
  destruct (get c (ctxs s)) as [rc|] eqn:G.
  - right. exists rc. split; [reflexivity|].
    pose proof (C10_counter_msg _ _ _ _ _ _ _ Hcfg HI Hwf Hne H G G') as Ec.
    destruct (C09_static_msg _ _ _ _ _ _ _ Hcfg HI Hwf Hne H G G') as (_ & E2 & _ & E4 & _).
    repeat split; try assumption. lia.
  - left. eapply msg_new_ctx_fresh; eauto.
Qed.

(* ------------------------------------------------------------------ *)
(* closing a request: the events of d all mention r *)

Lemma tr_delta r r' d l :
  Forall (fun e => ev_rid e = Some r) d ->
  tr r' (d ++ l) = if eqb r r' then d ++ tr r' l else tr r' l.
Proof.
  intros Hd. induction Hd as [|e d He Hd IH]; cbn [app]; [now destruct (eqb r r')|].
  rewrite tr_cons. unfold about. rewrite He, IH. now destruct (eqb r r').
Qed.

Lemma Sh_close_delta cfg s s' r q cons d :
  Sh cfg s -> get r (reqs s) = Some q ->
  reqs s' = set r (deact q) (reqs s) ->
  (forall r', tr r' (log s') = tr r' (d ++ log s)) ->
  Forall (fun e => ev_rid e = Some r) d ->
  tr r (log s) = [EvIssue r (r_prov q) cons (r_fee q)] ->
  closed cfg r (r_prov q) cons (r_fee q) (d ++ [EvIssue r (r_prov q) cons (r_fee q)]) ->
  Sh cfg s'.
Proof.
  intros Hsh G Er Htr Hd Ei Hc. apply (Sh_close cfg s s' r q cons Hsh G Er).
  - intros r' Hne. rewrite Htr, (tr_delta r r' d _ Hd). destruct (eqb_spec r r'); [congruence|reflexivity].
  - rewrite Htr, (tr_delta r r d _ Hd), eqb_refl, Ei. exact Hc.
Qed.

Lemma NI_delta s sm d : log sm = d ++ log s -> Forall noissue d -> NI s sm.
Proof. intros E Hd. exists d. auto. Qed.

(* ---- respond ---- *)

Lemma Sh_respond cfg s r who code out ov ok s' :
  wf_cfg cfg -> Inv cfg s -> T cfg s ->
  h_respond cfg s r who code out ov ok = Ok s' -> Sh cfg s' /\ NI s s'.
Proof.
  intros Hcfg HI HT H. apply respond_inv in H.
  destruct H as (q & rc0 & s1 & rc & _ & Hq & Hrc0 & Hwho & Hact & Hset & Hrc & ->).
  destruct (T_active cfg s r q rc0 HT Hq Hact Hrc0) as (Etr & _ & _).
  destruct (settle_core _ _ _ _ _ _ _ _ Hset) as ((C1 & _) & _).
  pose proof (resp_tail_req s1 r who rc0 code out (rid_ctx r) rc) as Tl. cbv zeta in Tl.
  destruct Tl as (T1 & _).
  set (sm := resp_mid s1 r who rc0 code out) in *.
  pose proof (Q_resp_finish sm (rid_ctx r) rc) as Qf.
  pose proof (log_resp_mid s1 r who rc0 code out) as Lm. fold sm in Lm.
  assert (Hreqs : reqs (resp_finish sm (rid_ctx r) rc) = set r (deact q) (reqs s)).
  { rewrite T1, deactivate_reqs, C1, Hq. reflexivity. }
  destruct HT as (_ & Hsh).
  destruct Hset as [[_ (sa & Es & Er)]|[_ Ea]].
  - apply slash_shape in Es.
    destruct Es as (q' & rc' & b & amt & b2 & _ & _ & _ & _ & _ & _ & _ & _ & _ & _ & _ & ->).
    apply refund_shape in Er. destruct Er as (_ & _ & Es1).
    assert (El : log sm = [EvRespond r; EvRefund r (c_cons rc0) (r_fee q);
                           EvSlash r (c_svc rc', r_prov q') amt] ++ log s).
    { rewrite Lm, Es1. reflexivity. }
    split.
    + eapply (Sh_close_delta cfg s _ r q (c_cons rc0)); try eassumption.
      * intros r'. now rewrite (Q_tr _ _ r' Qf), El.
      * repeat constructor.
      * right; left. do 2 eexists. reflexivity.
    + eapply NI_trans; [|apply Q_NI, Qf]. eapply NI_delta; [exact El|]. repeat constructor.
  - apply add_earned_shape in Ea. destruct Ea as (o & s0 & Et & _ & _ & Es1). cbv zeta in Es1.
    assert (El : log sm = [EvRespond r; EvEarn r (r_prov q) (r_fee q - mul_trunc (r_fee q) (p_tax cfg));
                           EvTax r (mul_trunc (r_fee q) (p_tax cfg))] ++ log s).
    { rewrite Lm, Es1. reflexivity. }
    split.
    + eapply (Sh_close_delta cfg s _ r q (c_cons rc0)); try eassumption.
      * intros r'. now rewrite (Q_tr _ _ r' Qf), El.
      * repeat constructor.
      * left. reflexivity.
    + eapply NI_trans; [|apply Q_NI, Qf]. eapply NI_delta; [exact El|]. repeat constructor.
Qed.

Theorem T_msg cfg s o s' :
  wf_cfg cfg -> Inv cfg s -> T cfg s -> wf_op s o -> (forall dt, o <> OEndBlock dt) ->
  handle cfg s o = Ok s' -> T cfg s'.
Proof.
  intros Hcfg HI HT Hwf Hne H.
  pose proof (CtxMono_msg _ _ _ _ Hcfg HI Hwf Hne H) as Hm.
  destruct HT as (Hti & Hsh).
  assert (Hquiet : Q s s' -> reqs s' = reqs s -> T cfg s').
  { intros Hq Er. split; [eapply TI_step; eauto using Q_NI|eapply Sh_quiet; eauto]. }
  destruct o;
    try (apply Hquiet; [eapply msg_Q; eauto|
                        exact (proj1 (req_msg_simple _ _ _ _ H I))]);
    try (destruct (ctxmsg_Q _ _ _ _ H I) as (Hq & Er); now apply Hquiet).
  - cbn [handle] in H.
    destruct (Sh_respond _ _ _ _ _ _ _ _ _ Hcfg HI (conj Hti Hsh) H) as (Hsh' & Hni).
    split; [eapply TI_step; eauto|exact Hsh'].
  - exfalso. eapply Hne. reflexivity.
Qed.
