(* Gap closing for C05: EndBlock lowers the balance of an ordinary account only for a batch it
   ISSUES in that block: if the balance of a fell, the events appended by the block contain a
   debit EvDebit c a amt with 0 < amt, immediately followed (newer) by the issue events of one
   batch of context c -- all charged to a, all stamped with the height of this block, their fees
   summing to amt, at least one of them -- and by that batch's EvBatchStart.
   (C05_endblock_debits only says the context was ELIGIBLE in the pre-state.) *)
From Coq Require Import List ZArith Bool Lia.
From SVC Require Import Base.AMap Base.Res Base.Dec Model.Types Model.Pricing
  Model.Handlers Model.EndBlock Model.Step Proofs.Inv Proofs.Lemmas Proofs.ReqLemmas
  Proofs.CtxOps Proofs.InvSched Proofs.InvEscrow Proofs.InvAll Proofs.StepSpecs_auth
  Proofs.StepSpecs_earn
  Proofs.ReachRun Proofs.TraceLemmas Proofs.TraceSettle Proofs.TraceMoney.
Import ListNotations.
Open Scope Z_scope.

(* if a fold lowers a balance, one of its steps does *)
Lemma fold_decrease {A} (f : State -> A -> State) x (l : list A) : forall s,
  bal (fold_left f l s) x < bal s x ->
  exists la c lb, l = la ++ c :: lb
    /\ bal (f (fold_left f la s) c) x < bal (fold_left f la s) x.
Proof.
  induction l as [|c t IH]; intros s H; cbn [fold_left] in H; [lia|].
  destruct (Z_lt_ge_dec (bal (f s c) x) (bal s x)) as [Hlt|Hge].
  - exists [], c, t. split; [reflexivity|exact Hlt].
  - destruct (IH (f s c)) as (la & c' & lb & -> & Hd); [lia|].
    exists (c :: la), c', lb. split; [reflexivity|exact Hd].
Qed.

Lemma fold_expire_no_debit cfg l a : forall s,
  bal s (User a) <= bal (fold_left (expire_one cfg) l s) (User a).
Proof.
  induction l as [|c t IH]; intros s; cbn [fold_left]; [lia|].
  pose proof (C05_expire_one_no_debit cfg s c a). specialize (IH (expire_one cfg s c)). lia.
Qed.

Lemma MV_log s s' : MV s s' -> exists d, log s' = d ++ log s.
Proof. intros (d & E & _). eauto. Qed.

(* one run of the new-batch handler that lowers a balance: the exact events *)
Lemma new_one_debit_shape cfg s c a :
  Inv cfg s -> In (height s, c) (newq s) ->
  bal (new_one cfg s c) (User a) < bal s (User a) ->
  exists rc amt n evs,
    get c (ctxs s) = Some rc /\ c_cons rc = a /\ c_super rc = false
    /\ log (new_one cfg s c) = EvBatchStart c n (height s) (len evs) :: evs ++ EvDebit c a amt :: log s
    /\ Forall (issue_of c n (height s) a) evs /\ issue_fees evs = amt
    /\ 0 < amt /\ 0 < len evs /\ n = c_counter rc + 1.
Proof.
  intros HI Hdue Hlt. destruct (due_new_ctx _ _ _ HI Hdue) as (rc & Grc & _ & _).
  pose proof (new_one_log cfg s c rc Grc) as H. cbv zeta in H.
  set (el := filter_providers s rc (c_provs rc)) in *.
  destruct H as [(_ & Eb)|(Epos & sp & Hsp & El & Eb)].
  { exfalso. unfold bal in Hlt. rewrite Eb in Hlt. lia. }
  destruct Hsp as [(Es & ->)|(Es & x & Et & Esp)].
  { exfalso. unfold bal in Hlt. rewrite Eb in Hlt. lia. }
  pose proof (transfer_frame _ _ _ _ _ Et) as Hf.
  pose proof (transfer_bal _ _ _ _ _ (User a) Et) as Hb.
  pose proof (transfer_some _ _ _ _ _ Et) as (H0 & _ & _).
  assert (Ebk : bal (new_one cfg s c) (User a) = bal x (User a)).
  { unfold bal. rewrite Eb, Esp. reflexivity. }
  rewrite Ebk, Hb in Hlt. cbn [eqb EqDec_Acct acct_eqb] in Hlt.
  destruct (Z.eqb_spec a (c_cons rc)) as [Ea|Hne]; [|lia].
  set (n := c_counter rc + 1) in *. set (provs := map fst el) in *.
  assert (Els : log sp = EvDebit c (c_cons rc) (sum_prices el) :: log s)
    by (rewrite Esp; sproj; rewrite Hf; reflexivity).
  assert (Eh : height sp = height s) by (rewrite Esp; sproj; rewrite Hf; reflexivity).
  assert (Et1 : time sp = time s) by (rewrite Esp; sproj; rewrite Hf; reflexivity).
  assert (Ep : pricing sp = pricing s) by (rewrite Esp; sproj; rewrite Hf; reflexivity).
  assert (Ev : vols sp = vols s) by (rewrite Esp; sproj; rewrite Hf; reflexivity).
  assert (Hfees : issue_fees (issue_evs sp c rc n 0 provs) = sum_prices el).
  { unfold provs. rewrite issue_evs_fees.
    assert (E : forall l, fold_right (fun p z => fee_of sp rc p + z) 0 l
                     = fold_right (fun p z => fee_of s rc p + z) 0 l).
    { induction l as [|p t IH]; cbn [fold_right]; [reflexivity|].
      rewrite IH, (fee_of_stable s sp) by assumption. reflexivity. }
    rewrite E. unfold el. now rewrite fee_sum_prices, Es. }
  assert (Hlen : len provs = len (issue_evs sp c rc n 0 provs)).
  { unfold len. now rewrite issue_evs_length. }
  exists rc, (sum_prices el), n, (issue_evs sp c rc n 0 provs).
  split; [exact Grc|]. split; [now rewrite Ea|]. split; [exact Es|].
  split; [rewrite El, Els, Hlen, Ea; reflexivity|].
  split; [rewrite <- Eh, Ea; apply issue_evs_of|].
  split; [exact Hfees|]. split; [lia|].
  split; [|reflexivity].
  rewrite <- Hlen. unfold provs, len in *. rewrite map_length. exact Epos.
Qed.

Theorem endblock_debit_issued cfg s dt a :
  wf_cfg cfg -> Reach cfg s -> wf_op s (OEndBlock dt) ->
  bal (end_block cfg s dt) (User a) < bal s (User a) ->
  exists c amt n evs d1 d2,
    log (end_block cfg s dt)
      = d1 ++ (EvBatchStart c n (height s) (len evs) :: evs ++ [EvDebit c a amt]) ++ d2 ++ log s
    /\ Forall (issue_of c n (height s) a) evs /\ issue_fees evs = amt
    /\ 0 < amt /\ 0 < len evs.
Proof.
  intros Hcfg HR (Hdt & Hb) Hlt. pose proof (Reach_Inv cfg s Hcfg HR) as HI.
  unfold end_block, end_blocker in *.
  set (l1 := due (expq s) (height s)) in *.
  assert (Hn1 : NoDup l1) by (apply NoDup_due; apply (inv_wf _ _ HI)).
  assert (Hl1 : forall c, In c l1 -> In (height s, c) (expq s)) by (intros c; apply In_due).
  destruct (fold_expire_phase cfg l1 s Hcfg HI Hb Hn1 Hl1) as (I1 & H1 & _).
  pose proof (fold_expire_no_debit cfg l1 a s) as Hnd.
  destruct (MV_log _ _ (MV_fold (expire_one cfg) l1 s (fun s0 c0 => MV_expire_one cfg s0 c0))) as (de & Ede).
  set (s1 := fold_left (expire_one cfg) l1 s) in *.
  set (l2 := due (newq s1) (height s1)) in *.
  assert (Hn2 : NoDup l2) by (apply NoDup_due; apply (inv_wf _ _ I1)).
  assert (Hb1 : height s1 < HEIGHT_BOUND) by now rewrite H1.
  change (bal (set_time (set_height (fold_left (new_one cfg) l2 s1) (height (fold_left (new_one cfg) l2 s1) + 1))
                 (time (fold_left (new_one cfg) l2 s1) + dt)) (User a))
    with (bal (fold_left (new_one cfg) l2 s1) (User a)) in Hlt.
  destruct (fold_decrease (new_one cfg) (User a) l2 s1) as (la & c & lb & El2 & Hstep); [lia|].
  rewrite El2 in Hn2.
  assert (Hnla : NoDup la) by (eapply NoDup_app_remove_r'; exact Hn2).
  assert (Hcla : ~ In c la).
  { intros Hin. apply NoDup_remove_2 in Hn2. apply Hn2. apply in_or_app. now left. }
  assert (Hin2 : forall c', In c' (la ++ c :: lb) -> In (height s1, c') (newq s1)).
  { intros c' Hc'. apply In_due. fold l2. now rewrite El2. }
  assert (Hla : forall c', In c' la -> In (height s1, c') (newq s1)).
  { intros c' Hc'. apply Hin2. apply in_or_app. now left. }
  destruct (fold_new_phase cfg la s1 Hcfg I1 Hb1 Hnla Hla) as (Ia & Eha & _ & Qa & _).
  destruct (MV_log _ _ (MV_fold (new_one cfg) la s1 (fun s0 c0 => MV_new_one cfg s0 c0))) as (da & Eda).
  set (sa := fold_left (new_one cfg) la s1) in *.
  assert (Hdue : In (height sa, c) (newq sa)).
  { rewrite Eha. apply Qa. split; [|exact Hcla]. apply Hin2. apply in_or_app. right. now left. }
  destruct (new_one_debit_shape cfg sa c a Ia Hdue Hstep)
    as (rca & amt & n & evs & Grca & Hcons & Hsup & Elog & Hev & Hfees & Hamt & Hlen & _).
  rewrite Eha, H1 in Elog, Hev.
  destruct (MV_log _ _ (MV_fold (new_one cfg) lb (new_one cfg sa c) (fun s0 c0 => MV_new_one cfg s0 c0)))
    as (db & Edb).
  exists c, amt, n, evs, db, (da ++ de).
  split; [|auto].
  change (log (set_time (set_height (fold_left (new_one cfg) l2 s1) (height (fold_left (new_one cfg) l2 s1) + 1))
                 (time (fold_left (new_one cfg) l2 s1) + dt)))
    with (log (fold_left (new_one cfg) l2 s1)).
  rewrite El2, fold_left_app. cbn [fold_left]. fold sa.
  rewrite Edb, Elog, Eda, Ede. rewrite <- !app_assoc. cbn [app]. rewrite <- !app_assoc. reflexivity.
Qed.

(* on the example history of Proofs/TraceSettle.v: the EndBlock of height 11 charges consumer 20
   for batch 2 (two requests of fee 100) *)
Example tx_endblock_debit :
  let s := run tx_cfg tx_s0 (firstn 16 tx_ops) in
  height s = 11 /\ bal (end_block tx_cfg s 5) (User 20) < bal s (User 20)
  /\ firstn 4 (log (end_block tx_cfg s 5))
     = [EvBatchStart tx_c 2 11 2; EvIssue tx_r4 12 20 100; EvIssue tx_r3 11 20 100; EvDebit tx_c 20 200].
Proof. vm_compute. repeat split. Qed.

(* ------------------------------------------------------------------ *)
(* the keeper API driven by the owning module, with its real scope: the Go keeper compares the
   consumer only for a context that carries a module name; calls aimed at a context without one
   are excluded from histories by wf_op.  Under that hypothesis the consumer named by the caller
   is the context's own and the context does belong to a module. *)

Theorem auth_mod_scoped cfg s o c who s' :
  (exists provs thr cap timeout freq total, o = OModUpdate c who provs thr cap timeout freq total)
  \/ o = OModPause c who \/ o = OModStart c who \/ o = OModKill c who ->
  wf_op s o -> handle cfg s o = Ok s' ->
  exists rc, get c (ctxs s) = Some rc /\ c_mod rc <> 0 /\ c_cons rc = who.
Proof.
  intros Ho Hwf H.
  assert (Hrc : exists rc, get c (ctxs s) = Some rc /\ c_cons rc = who).
  { destruct Ho as [(provs & thr & cap & timeout & freq & total & ->)|[ -> | [ -> | -> ]]].
    - eapply C05_auth_mod_update; eauto.
    - eapply C05_auth_mod_pause; eauto.
    - eapply C05_auth_mod_start; eauto.
    - eapply C05_auth_mod_kill; eauto. }
  destruct Hrc as (rc & G & Hw). exists rc. split; [exact G|]. split; [|exact Hw].
  destruct Ho as [(provs & thr & cap & timeout & freq & total & ->)|[ -> | [ -> | -> ]]]; cbn [wf_op] in Hwf.
  - destruct Hwf as (_ & Hm). now apply Hm.
  - now apply Hwf.
  - now apply Hwf.
  - now apply Hwf.
Qed.

(* withdrawing touches only earned-fee records of the signer's own providers *)
Theorem withdraw_touches_own cfg s owner prov ok s' p :
  Inv cfg s -> h_withdraw s owner prov ok = Ok s' ->
  get p (earned s') <> get p (earned s) -> get p (owner_of s) = Some owner.
Proof.
  intros HI H Hne.
  assert (Hok : ok = true) by (unfold h_withdraw in H; destruct ok; [reflexivity|discriminate]).
  subst ok. destruct (Z.eq_dec prov 0) as [->|Hp].
  - destruct (C13_withdraw_owner cfg s owner s' HI H) as (_ & _ & _ & _ & _ & _ & _ & Hoth & _).
    destruct (get p (owner_of s)) as [o|] eqn:G.
    + destruct (Z.eq_dec o owner) as [->|Hn]; [reflexivity|].
      exfalso. apply Hne, Hoth. rewrite G. congruence.
    + exfalso. apply Hne, Hoth. rewrite G. discriminate.
  - destruct (C13_withdraw_provider cfg s owner prov s' HI Hp H) as (Gown & _ & _ & _ & _ & Hoth & _).
    destruct (Z.eq_dec p prov) as [->|Hn]; [exact Gown|].
    exfalso. apply Hne, Hoth, Hn.
Qed.
