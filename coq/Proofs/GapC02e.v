(* Gap closing for C02, history level: in every reachable state every request that was ever
   issued is either still pending -- stored, active, not past its expiry height, no settlement
   event yet -- or has been settled by exactly one of the four closed traces (earn + tax /
   refund + slash after a malformed answer / time-out in super mode with fee 0 / time-out with
   refund + slash).  With C02_settled_at_expiry (the EndBlock of the expiry height settles what is
   still pending) this is "exactly one settlement happens, once". *)
From Coq Require Import List ZArith Bool Lia.
From SVC Require Import Base.AMap Base.Res Base.Dec Model.Types Model.Pricing
  Model.Handlers Model.EndBlock Model.Step Proofs.Inv Proofs.Lemmas Proofs.InvAll
  Proofs.ReachRun Proofs.StepSpecs_window Proofs.TraceLemmas Proofs.TraceSettle Proofs.GapC04b.
Import ListNotations.
Open Scope Z_scope.

Theorem issued_settled_or_pending cfg s r p c f :
  wf_cfg cfg -> Reach cfg s -> In (EvIssue r p c f) (log s) ->
  (exists q, get r (reqs s) = Some q /\ r_active q = true /\ r_prov q = p /\ r_fee q = f
        /\ height s <= r_exp q /\ tr r (log s) = [EvIssue r p c f])
  \/ closed cfg r p c f (tr r (log s)).
Proof.
  intros Hcfg HR Hin. pose proof (Reach_T cfg s Hcfg HR) as HT.
  pose proof (Reach_Inv cfg s Hcfg HR) as HI.
  pose proof (request_trace cfg s r Hcfg HR) as H.
  assert (Hcl : forall p' c' f', closed cfg r p' c' f' (tr r (log s)) -> closed cfg r p c f (tr r (log s))).
  { intros p' c' f' Hc. pose proof (closed_issue cfg r p' c' f' _ Hc) as Hi. apply tr_In in Hi.
    destruct (issue_unique cfg s r p c f p' c' f' HT Hin Hi) as (-> & -> & ->). exact Hc. }
  destruct (get r (reqs s)) as [q|] eqn:G.
  - destruct H as (cons & H). destruct (r_active q) eqn:Ha.
    + left. exists q. assert (Hi : In (EvIssue r (r_prov q) cons (r_fee q)) (log s)).
      { apply In_issue_tr. rewrite H. now left. }
      destruct (issue_unique cfg s r p c f _ _ _ HT Hin Hi) as (-> & -> & ->).
      destruct (C08_window_inv cfg s r q HI G) as (Hle & _). auto 7.
    + right. eapply Hcl; eauto.
  - destruct H as [E|(p' & c' & f' & Hc)]; [|right; eapply Hcl; eauto].
    exfalso. apply In_issue_tr in Hin. rewrite E in Hin. destruct Hin.
Qed.
