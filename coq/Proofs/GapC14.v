(* C14: "rejected" as "returns an error" (not a panic) under the two overflow bounds K1
   (price x multiple < 2^255) and K6 (deposit + top-up < 2^255); what happens outside the bounds
   (panic, rolled back: the state is unchanged either way); the invariant inside both phases of
   EndBlock, after every step and along histories; when a binding stops being available. *)
From Coq Require Import List ZArith Bool Lia.
From SVC Require Import Base.AMap Base.Res Base.Dec Model.Types Model.Pricing
  Model.Handlers Model.EndBlock Model.Step Proofs.Inv Proofs.Lemmas Proofs.PFrame
  Proofs.PricingProofs Proofs.InvBank Proofs.InvSched Proofs.InvAll Proofs.ReachProps Proofs.ReachRun
  Proofs.StepSpecs_deposit Proofs.TraceBase.
Import ListNotations.
Open Scope Z_scope.

(* ------------------------------------------------------------------ *)
(* taking  h = Panic  apart *)

Lemma guard_panic {B} (b : bool) (k : Res B) : guard b k = Panic -> b = true /\ k = Panic.
Proof. destruct b; cbn [guard]; [auto|discriminate]. Qed.

Lemma bind_panic {A B} (r : Res A) (f : A -> Res B) :
  bind r f = Panic -> r = Panic \/ exists a, r = Ok a /\ f a = Panic.
Proof. destruct r; cbn [bind]; [eauto|discriminate|auto]. Qed.

Lemma of_opt_not_panic {A} (o : option A) : of_opt o <> Panic.
Proof. destruct o; discriminate. Qed.

Lemma one_base_coin_not_panic dep : one_base_coin dep <> Panic.
Proof. destruct dep; cbn; try discriminate. destruct (0 <? amt); discriminate. Qed.

Lemma pay_deposit_not_panic s k o amt : pay_deposit s k o amt <> Panic.
Proof. unfold pay_deposit. destruct (transfer (User o) Deposit amt s); discriminate. Qed.

Lemma min_deposit_panic cfg p : min_deposit cfg p = Panic -> INT_LIMIT <= pr_price p * p_multiple cfg.
Proof. unfold min_deposit. destruct (INT_LIMIT <=? pr_price p * p_multiple cfg) eqn:E; [|discriminate]. intros _. now apply Z.leb_le. Qed.

Lemma min_deposit_val cfg p : pr_price p * p_multiple cfg < INT_LIMIT ->
  min_deposit cfg p = Ok (min_dep_val cfg p).
Proof.
  intros H. unfold min_deposit, min_dep_val.
  destruct (INT_LIMIT <=? pr_price p * p_multiple cfg) eqn:E; [apply Z.leb_le in E; lia|reflexivity].
Qed.

Lemma add_deposit_amt_panic cur dep : add_deposit_amt cur dep = Panic ->
  exists a, one_base_coin dep = Ok a /\ INT_LIMIT <= cur + a.
Proof.
  unfold add_deposit_amt. intros H. apply bind_panic in H.
  destruct H as [H|(a & Ha & H)]; [exfalso; eapply one_base_coin_not_panic; eauto|].
  exists a. split; [exact Ha|]. destruct (cur + a <? INT_LIMIT) eqn:E; [discriminate|]. now apply Z.ltb_ge.
Qed.

(* a panic of MsgBindService can only be the overflow of price x multiple (K1) *)
Lemma bind_panic_inv cfg s svc prov dep pr qos owner ok :
  h_bind cfg s svc prov dep pr qos owner ok = Panic ->
  exists raw, pr = Some raw /\ INT_LIMIT <= pr_price (parse_pricing raw) * p_multiple cfg.
Proof.
  unfold h_bind. intros H.
  repeat (apply guard_panic in H; destruct H as [_ H]).
  apply bind_panic in H. destruct H as [H|(amt & _ & H)]; [exfalso; eapply one_base_coin_not_panic; eauto|].
  apply guard_panic in H. destruct H as [_ H].
  apply bind_panic in H. destruct H as [H|(raw & Hr & H)]; [exfalso; eapply of_opt_not_panic; eauto|].
  apply of_opt_ok in Hr.
  repeat (apply guard_panic in H; destruct H as [_ H]).
  apply bind_panic in H. destruct H as [H|(md & _ & H)].
  - exists raw. split; [exact Hr|]. now apply min_deposit_panic.
  - exfalso. apply guard_panic in H. destruct H as [_ H].
    apply bind_panic in H. destruct H as [H|(s1 & _ & H)]; [eapply pay_deposit_not_panic; eauto|].
    sproj. destruct (get prov (owner_of s1)); discriminate.
Qed.

(* a panic of MsgUpdateServiceBinding is the overflow of the deposit sum (K6) or, for an available
   binding that the message changes, of price x multiple for the price after the update (K1) *)
Lemma update_panic_inv cfg s svc prov dep pr qos owner ok :
  h_update cfg s svc prov dep pr qos owner ok = Panic ->
  exists b, get (svc, prov) (binds s) = Some b
    /\ ((coins_empty dep = false /\ exists a, one_base_coin dep = Ok a /\ INT_LIMIT <= b_deposit b + a)
        \/ (b_avail b = true /\ is_update dep pr qos = true
            /\ INT_LIMIT <= pr_price (price_after_update s (svc, prov) pr) * p_multiple cfg)).
Proof.
  unfold h_update. intros H.
  apply guard_panic in H. destruct H as [_ H].
  apply bind_panic in H. destruct H as [H|(b & Hb & H)]; [exfalso; eapply of_opt_not_panic; eauto|].
  apply of_opt_ok in Hb. exists b. split; [exact Hb|].
  repeat (apply guard_panic in H; destruct H as [_ H]).
  assert (Hd1 : b_deposit (if qos =? 0 then b else setb_qos b qos) = b_deposit b) by (destruct (qos =? 0); reflexivity).
  apply bind_panic in H. destruct H as [H|(amt & _ & H)].
  { left. destruct (coins_empty dep) eqn:Ec; [discriminate|]. split; [reflexivity|].
    apply add_deposit_amt_panic in H. now rewrite Hd1 in H. }
  apply bind_panic in H. destruct H as [H|(newp & Hnp & H)].
  { exfalso. destruct pr as [[raw|]|]; try discriminate.
    apply guard_panic in H. destruct H as [_ H]. apply guard_panic in H. destruct H as [_ H]. discriminate. }
  apply bind_panic in H. destruct H as [H|(u & _ & H)].
  - right. fold (is_update dep pr qos) in H.
    destruct (b_avail b) eqn:Ea; [|discriminate]. cbn [andb] in H.
    destruct (is_update dep pr qos) eqn:Eu; [|discriminate]. split; [reflexivity|]. split; [reflexivity|].
    apply bind_panic in H. destruct H as [H|(md & _ & H)].
    + apply min_deposit_panic in H.
      assert (Hp : match newp with Some (_, p) => p | None => pricing_of s (svc, prov) end
                   = price_after_update s (svc, prov) pr).
      { unfold price_after_update. destruct pr as [[raw|]|]; inv_ok Hnp; subst; reflexivity. }
      now rewrite Hp in H.
    + apply guard_panic in H. destruct H as [_ H]. discriminate.
  - exfalso. apply bind_panic in H. destruct H as [H|(s1 & _ & H)].
    + destruct (coins_empty dep); [discriminate|]. eapply pay_deposit_not_panic; eauto.
    + destruct (negb (qos =? 0) || negb (coins_empty dep) || match pr with Some _ => true | None => false end);
        [destruct newp as [[raw p]|]|]; discriminate.
Qed.

(* a panic of MsgEnableServiceBinding: K6, or K1 for the stored price (the facet of K1 of K1Enable.v) *)
Lemma enable_panic_inv cfg s svc prov dep owner ok :
  h_enable cfg s svc prov dep owner ok = Panic ->
  exists b, get (svc, prov) (binds s) = Some b
    /\ ((coins_empty dep = false /\ exists a, one_base_coin dep = Ok a /\ INT_LIMIT <= b_deposit b + a)
        \/ INT_LIMIT <= pr_price (pricing_of s (svc, prov)) * p_multiple cfg).
Proof.
  unfold h_enable. intros H.
  apply guard_panic in H. destruct H as [_ H].
  apply bind_panic in H. destruct H as [H|(b & Hb & H)]; [exfalso; eapply of_opt_not_panic; eauto|].
  apply of_opt_ok in Hb. exists b. split; [exact Hb|].
  repeat (apply guard_panic in H; destruct H as [_ H]).
  apply bind_panic in H. destruct H as [H|(amt & _ & H)].
  { left. destruct (coins_empty dep) eqn:Ec; [discriminate|]. split; [reflexivity|].
    now apply add_deposit_amt_panic in H. }
  apply bind_panic in H. destruct H as [H|(md & _ & H)]; [right; now apply min_deposit_panic|].
  exfalso. apply guard_panic in H. destruct H as [_ H].
  apply bind_panic in H. destruct H as [H|(s1 & _ & H)]; [|discriminate].
  destruct (coins_empty dep); [discriminate|]. eapply pay_deposit_not_panic; eauto.
Qed.

(* ------------------------------------------------------------------ *)
(* rejected = an error is returned, inside the bounds *)

Lemma opt_amt_one a dep amt :
  (if coins_empty dep then Ok 0 else one_base_coin dep) = Ok amt ->
  coins_empty dep = false -> one_base_coin dep = Ok a -> a = amt.
Proof. intros H E Ha. rewrite E in H. congruence. Qed.

Theorem reject_bind_err cfg s svc prov dep pr qos owner ok amt raw :
  one_base_coin dep = Ok amt -> pr = Some raw ->
  pr_price (parse_pricing raw) * p_multiple cfg < INT_LIMIT ->
  amt < min_dep_val cfg (parse_pricing raw) ->
  handle cfg s (OBind svc prov dep pr qos owner ok) = Err
  /\ step cfg s (OBind svc prov dep pr qos owner ok) = (s, RErr).
Proof.
  intros Hd Hp Hb Hlt.
  assert (E : handle cfg s (OBind svc prov dep pr qos owner ok) = Err).
  { cbn [handle]. destruct (h_bind cfg s svc prov dep pr qos owner ok) as [s'| |] eqn:E; [|reflexivity|]; exfalso.
    - eapply C14_reject_bind; eauto.
    - apply bind_panic_inv in E. destruct E as (raw' & Er & Hge). rewrite Hp in Er. injection Er as <-. lia. }
  split; [exact E|]. unfold step. now rewrite E.
Qed.

Theorem reject_update_err cfg s svc prov dep pr qos owner ok b amt :
  get (svc, prov) (binds s) = Some b -> b_avail b = true ->
  (if coins_empty dep then Ok 0 else one_base_coin dep) = Ok amt ->
  is_update dep pr qos = true ->
  b_deposit b + amt < INT_LIMIT ->
  pr_price (price_after_update s (svc, prov) pr) * p_multiple cfg < INT_LIMIT ->
  b_deposit b + amt < min_dep_val cfg (price_after_update s (svc, prov) pr) ->
  handle cfg s (OUpdate svc prov dep pr qos owner ok) = Err
  /\ step cfg s (OUpdate svc prov dep pr qos owner ok) = (s, RErr).
Proof.
  intros Hb Hav Hamt Hupd H6 H1 Hlt.
  assert (E : handle cfg s (OUpdate svc prov dep pr qos owner ok) = Err).
  { cbn [handle]. destruct (h_update cfg s svc prov dep pr qos owner ok) as [s'| |] eqn:E; [|reflexivity|]; exfalso.
    - eapply C14_reject_update_changed; eauto.
    - apply update_panic_inv in E. destruct E as (b' & Gb & [(Ec & a & Ha & Hge)|(_ & _ & Hge)]).
      + assert (b' = b) by congruence. subst b'. rewrite (opt_amt_one a dep amt Hamt Ec Ha) in Hge. lia.
      + lia. }
  split; [exact E|]. unfold step. now rewrite E.
Qed.

(* under the invariant the hypothesis "the message changes something" is not needed: a message
   that changes nothing cannot be below the minimum (I_min) *)
Theorem reject_update_err_inv cfg s svc prov dep pr qos owner ok b amt :
  Inv cfg s ->
  get (svc, prov) (binds s) = Some b -> b_avail b = true ->
  (if coins_empty dep then Ok 0 else one_base_coin dep) = Ok amt ->
  b_deposit b + amt < INT_LIMIT ->
  pr_price (price_after_update s (svc, prov) pr) * p_multiple cfg < INT_LIMIT ->
  b_deposit b + amt < min_dep_val cfg (price_after_update s (svc, prov) pr) ->
  handle cfg s (OUpdate svc prov dep pr qos owner ok) = Err
  /\ step cfg s (OUpdate svc prov dep pr qos owner ok) = (s, RErr).
Proof.
  intros HI Hb Hav Hamt H6 H1 Hlt.
  destruct (is_update dep pr qos) eqn:Hupd; [eapply reject_update_err; eauto|exfalso].
  unfold is_update in Hupd. apply orb_false_elim in Hupd. destruct Hupd as (Hupd & Hpr).
  apply orb_false_elim in Hupd. destruct Hupd as (_ & Hce). apply negb_false_iff in Hce.
  rewrite Hce in Hamt. injection Hamt as <-. destruct pr; [discriminate|].
  unfold price_after_update in Hlt.
  pose proof (inv_min _ _ HI _ _ (get_In _ _ _ Hb) Hav). lia.
Qed.

Theorem reject_enable_err cfg s svc prov dep owner ok b amt :
  get (svc, prov) (binds s) = Some b ->
  (if coins_empty dep then Ok 0 else one_base_coin dep) = Ok amt ->
  b_deposit b + amt < INT_LIMIT ->
  pr_price (pricing_of s (svc, prov)) * p_multiple cfg < INT_LIMIT ->
  b_deposit b + amt < min_dep_val cfg (pricing_of s (svc, prov)) ->
  handle cfg s (OEnable svc prov dep owner ok) = Err
  /\ step cfg s (OEnable svc prov dep owner ok) = (s, RErr).
Proof.
  intros Hb Hamt H6 H1 Hlt.
  assert (E : handle cfg s (OEnable svc prov dep owner ok) = Err).
  { cbn [handle]. destruct (h_enable cfg s svc prov dep owner ok) as [s'| |] eqn:E; [|reflexivity|]; exfalso.
    - eapply C14_reject_enable; eauto.
    - apply enable_panic_inv in E. destruct E as (b' & Gb & [(Ec & a & Ha & Hge)|Hge]).
      + assert (b' = b) by congruence. subst b'. rewrite (opt_amt_one a dep amt Hamt Ec Ha) in Hge. lia.
      + lia. }
  split; [exact E|]. unfold step. now rewrite E.
Qed.

(* ------------------------------------------------------------------ *)
(* without any bound: below the minimum the message is never accepted and the state is unchanged
   (an error, or a panic rolled back by the host) *)

Lemma not_ok_step cfg s o : (forall s', handle cfg s o <> Ok s') ->
  fst (step cfg s o) = s /\ snd (step cfg s o) <> ROk.
Proof.
  intros H. unfold step. destruct (handle cfg s o) as [s'| |] eqn:E; cbn [fst snd].
  - exfalso. eapply H; eauto.
  - split; [reflexivity|discriminate].
  - split; [reflexivity|discriminate].
Qed.

Theorem below_minimum_unchanged cfg s :
  (forall svc prov dep pr qos owner ok amt raw,
     one_base_coin dep = Ok amt -> pr = Some raw -> amt < min_dep_val cfg (parse_pricing raw) ->
     fst (step cfg s (OBind svc prov dep pr qos owner ok)) = s
     /\ snd (step cfg s (OBind svc prov dep pr qos owner ok)) <> ROk)
  /\ (forall svc prov dep pr qos owner ok b amt,
        get (svc, prov) (binds s) = Some b -> b_avail b = true ->
        (if coins_empty dep then Ok 0 else one_base_coin dep) = Ok amt ->
        is_update dep pr qos = true ->
        b_deposit b + amt < min_dep_val cfg (price_after_update s (svc, prov) pr) ->
        fst (step cfg s (OUpdate svc prov dep pr qos owner ok)) = s
        /\ snd (step cfg s (OUpdate svc prov dep pr qos owner ok)) <> ROk)
  /\ (forall svc prov dep owner ok b amt,
        get (svc, prov) (binds s) = Some b ->
        (if coins_empty dep then Ok 0 else one_base_coin dep) = Ok amt ->
        b_deposit b + amt < min_dep_val cfg (pricing_of s (svc, prov)) ->
        fst (step cfg s (OEnable svc prov dep owner ok)) = s
        /\ snd (step cfg s (OEnable svc prov dep owner ok)) <> ROk).
Proof.
  split; [|split].
  - intros. apply not_ok_step. intros s'. cbn [handle]. eapply C14_reject_bind; eauto.
  - intros. apply not_ok_step. intros s'. cbn [handle]. eapply C14_reject_update_changed; eauto.
  - intros. apply not_ok_step. intros s'. cbn [handle]. eapply C14_reject_enable; eauto.
Qed.

(* the K1 region, stated separately: price x multiple does not fit 255 bits.  MsgBindService is
   never accepted there; when every earlier check passes the outcome is a panic *)
Theorem bind_K1 cfg s svc prov dep pr qos owner ok raw :
  pr = Some raw -> INT_LIMIT <= pr_price (parse_pricing raw) * p_multiple cfg ->
  (forall s', h_bind cfg s svc prov dep pr qos owner ok <> Ok s')
  /\ (ok = true -> svc <> p_modsvc cfg -> has svc (defs s) = true -> has (svc, prov) (binds s) = false ->
      (forall o, get prov (owner_of s) = Some o -> o = owner) ->
      (exists amt, one_base_coin dep = Ok amt) -> qos <= p_max_timeout cfg ->
      validate_pricing (parse_pricing raw) = true -> schema_pricing (parse_pricing raw) = true ->
      h_bind cfg s svc prov dep pr qos owner ok = Panic).
Proof.
  intros Hp Hge. split.
  - intros s' H. apply bind_inv in H. destruct H as (amt & raw' & Er & _ & _ & _ & _ & _ & Hb & _).
    rewrite Hp in Er. injection Er as <-. lia.
  - intros -> Hm Hd Hnb Ho (amt & Ha) Hq Hv Hs. unfold h_bind. subst pr. cbn [guard].
    apply Z.eqb_neq in Hm. rewrite Hm, Hd, Hnb. cbn [negb guard].
    assert (E : match get prov (owner_of s) with Some o => o =? owner | None => true end = true).
    { destruct (get prov (owner_of s)) as [o|] eqn:Eo; [|reflexivity]. apply Z.eqb_eq. now apply Ho. }
    rewrite E, Ha. cbn [guard bind of_opt]. apply Z.leb_le in Hq. rewrite Hq. cbn [guard bind].
    rewrite Hv, Hs. cbn [guard]. unfold min_deposit.
    apply Z.leb_le in Hge. rewrite Hge. reflexivity.
Qed.

(* ------------------------------------------------------------------ *)
(* the invariant inside EndBlock: after every per-context handler of BOTH phases *)

Theorem I_min_new_one_handler cfg s c : wf_cfg cfg -> Inv cfg s -> In (height s, c) (newq s) ->
  height s < HEIGHT_BOUND -> I_min cfg (new_one cfg s c).
Proof. exact (I_min_new_one cfg s c). Qed.

Theorem Inv_inside_new_phase cfg s : wf_cfg cfg -> Inv cfg s -> height s < HEIGHT_BOUND ->
  let s1 := fold_left (expire_one cfg) (due (expq s) (height s)) s in
  forall k, Inv cfg (fold_left (new_one cfg) (firstn k (due (newq s1) (height s1))) s1).
Proof.
  intros Hcfg Hi Hb s1 k.
  assert (Hn1 : NoDup (due (expq s) (height s))) by (apply NoDup_due; apply (inv_wf _ _ Hi)).
  assert (Hl1 : forall c, In c (due (expq s) (height s)) -> In (height s, c) (expq s)) by (intros c; apply In_due).
  destruct (fold_expire_phase cfg _ s Hcfg Hi Hb Hn1 Hl1) as (I1 & H1 & _). fold s1 in I1, H1.
  set (l := firstn k (due (newq s1) (height s1))).
  assert (Hn : NoDup l).
  { unfold l. assert (Hq : NoDup (newq s1)) by apply (inv_wf _ _ I1).
    pose proof (NoDup_due (newq s1) (height s1) Hq) as Hd.
    rewrite <- (firstn_skipn k (due (newq s1) (height s1))) in Hd. now apply NoDup_app_remove_r' in Hd. }
  assert (Hl : forall c, In c l -> In (height s1, c) (newq s1)).
  { intros c Hc. apply In_due. unfold l in Hc.
    rewrite <- (firstn_skipn k (due (newq s1) (height s1))). apply in_or_app. now left. }
  assert (Hb1 : height s1 < HEIGHT_BOUND) by now rewrite H1.
  exact (proj1 (fold_new_phase cfg l s1 Hcfg I1 Hb1 Hn Hl)).
Qed.

(* C14 inside EndBlock: every available binding holds its minimum after each handler of either phase *)
Theorem min_inside_end_block cfg s : wf_cfg cfg -> Reach cfg s -> height s < HEIGHT_BOUND ->
  (forall k, I_min cfg (fold_left (expire_one cfg) (firstn k (due (expq s) (height s))) s))
  /\ (let s1 := fold_left (expire_one cfg) (due (expq s) (height s)) s in
      forall k, I_min cfg (fold_left (new_one cfg) (firstn k (due (newq s1) (height s1))) s1)).
Proof.
  intros Hcfg Hr Hb. pose proof (Reach_Inv cfg s Hcfg Hr) as Hi. split.
  - intros k. apply (inv_min cfg), Inv_inside_end_block; assumption.
  - cbv zeta. intros k. apply (inv_min cfg). now apply Inv_inside_new_phase.
Qed.

(* along every history *)
Theorem min_inv_run cfg s ops k b : wf_cfg cfg -> Reach cfg s -> wf_run cfg s ops ->
  get k (binds (run cfg s ops)) = Some b -> b_avail b = true ->
  min_dep_val cfg (pricing_of (run cfg s ops) k) <= b_deposit b
  /\ pricing_of (run cfg s ops) k = parse_pricing (b_raw b).
Proof.
  intros Hcfg Hr Hw G Ha.
  exact (available_has_min_deposit cfg _ Hcfg (reach_run cfg s ops Hr Hw) k b G Ha).
Qed.

(* after any operation -- in particular one that slashes: a malformed response, or an EndBlock
   that expires requests -- a binding that is (still) available holds the minimum; so a slash that
   takes the deposit below the minimum leaves the binding unavailable *)
Theorem slash_op cfg s o r k amt b' : wf_cfg cfg -> Reach cfg s -> wf_op s o ->
  In (EvSlash r k amt) (log (fst (step cfg s o))) ->
  get k (binds (fst (step cfg s o))) = Some b' ->
  (b_avail b' = true -> min_dep_val cfg (pricing_of (fst (step cfg s o)) k) <= b_deposit b')
  /\ (b_deposit b' < min_dep_val cfg (pricing_of (fst (step cfg s o)) k) -> b_avail b' = false).
Proof.
  intros Hcfg Hr Ho _ G.
  pose proof (Reach_Inv cfg _ Hcfg (Reach_step cfg s o Hr Ho)) as HI.
  pose proof (inv_min _ _ HI k b' (get_In _ _ _ G)) as Hm.
  split; [exact Hm|]. intros Hlt. destruct (b_avail b'); [specialize (Hm eq_refl); lia|reflexivity].
Qed.

(* ------------------------------------------------------------------ *)
(* the hypotheses are satisfiable; the K1 region is inhabited *)

Example reject_bind_err_ex :
  step exd_cfg ex_bound (OBind 1 12 (CBase 199) (Some ex_raw) 5 10 true) = (ex_bound, RErr).
Proof.
  apply (reject_bind_err exd_cfg ex_bound 1 12 _ _ 5 10 true 199 ex_raw);
    [reflexivity|reflexivity|vm_compute; reflexivity|vm_compute; reflexivity].
Qed.

Example reject_update_err_ex :
  step exd_cfg ex_bound (OUpdate 1 11 (CBase 19) (Some (Some (mkRaw (130 * ONE) [] []))) 0 10 true)
  = (ex_bound, RErr).
Proof.
  apply (reject_update_err exd_cfg ex_bound 1 11 _ _ 0 10 true (mkBinding 240 ex_raw 5 true TIME0 10) 19);
    vm_compute; reflexivity.
Qed.

Example reject_enable_err_ex :
  step exd_cfg ex_refunded (OEnable 1 11 (CBase 199) 10 true) = (ex_refunded, RErr).
Proof.
  apply (reject_enable_err exd_cfg ex_refunded 1 11 _ 10 true (mkBinding 0 ex_raw 5 false 1000 10) 199);
    vm_compute; reflexivity.
Qed.

(* K1: a price whose minimum deposit does not fit 255 bits makes a valid MsgBindService panic *)
Example bind_K1_panics :
  handle exd_cfg ex_bound (OBind 1 12 (CBase 500) (Some (mkRaw (2 ^ 254 * ONE) [] [])) 5 10 true) = Panic
  /\ step exd_cfg ex_bound (OBind 1 12 (CBase 500) (Some (mkRaw (2 ^ 254 * ONE) [] [])) 5 10 true)
     = (ex_bound, RPanic).
Proof. split; vm_compute; reflexivity. Qed.

(* K6: a top-up that takes the deposit sum beyond 255 bits makes MsgUpdateServiceBinding panic *)
Example update_K6_panics :
  handle exd_cfg ex_bound (OUpdate 1 11 (CBase (2 ^ 255)) None 0 10 true) = Panic.
Proof. vm_compute. reflexivity. Qed.
