(* Gap closing for C03, part 2: the availability flag and the disabling time of a binding.
     * available -> unavailable happens only by the owner's disable message, by a slash during
       EndBlock, or by the slash of a malformed response; the disabling time becomes the time
       of the current block;
     * unavailable -> available happens only by the owner's enable message, which resets the
       disabling time;
     * a step that leaves the flag alone leaves the disabling time alone;
     * a binding that appears is available (bind message).
   Hence in every reachable state an unavailable binding has a disabling time >= 0, i.e. the
   encoding TIME0 = -1 of time.Time{} never meets the refund rule (C03_refund_iff).
   Also: a second refund of the same binding fails. *)
From Coq Require Import List ZArith Bool Lia.
From SVC Require Import Base.AMap Base.Res Base.Dec Model.Types Model.Pricing
  Model.Handlers Model.EndBlock Model.Step Proofs.Inv Proofs.Lemmas Proofs.ReqLemmas
  Proofs.CtxOps Proofs.BankLemmas Proofs.InvBank Proofs.PFrame Proofs.StepSpecs_deposit
  Proofs.InvAll Proofs.ReachRun Proofs.TraceLemmas Proofs.TraceSettle Proofs.GapC02 Proofs.GapC03.
Import ListNotations.
Open Scope Z_scope.

Definition dt_rule (s : State) (o : Op) (k : BKey) (b b' : Binding) : Prop :=
  (b_avail b = true -> b_avail b' = false ->
     b_dtime b' = time s
     /\ ((exists ok, o = ODisable (fst k) (snd k) (b_owner b) ok)
         \/ (exists dt, o = OEndBlock dt)
         \/ (exists r w c out ok, o = ORespond r w c out false ok /\ out <> 0)))
  /\ (b_avail b = false -> b_avail b' = true ->
        b_dtime b' = TIME0 /\ exists dep ok, o = OEnable (fst k) (snd k) dep (b_owner b) ok)
  /\ (b_avail b' = b_avail b -> b_dtime b' = b_dtime b).

Lemma rule_same s o k b : dt_rule s o k b b.
Proof. unfold dt_rule. split; [|split]; [intros A B; congruence|intros A B; congruence|auto]. Qed.

Lemma rule_keep s o k b b' : b_avail b' = b_avail b -> b_dtime b' = b_dtime b -> dt_rule s o k b b'.
Proof. intros E1 E2. unfold dt_rule. split; [|split]; [intros A B; congruence|intros A B; congruence|auto]. Qed.

(* one binding replaced *)
Lemma set_case (m m' : amap BKey Binding) k0 b0 b0' k b b' :
  m' = set k0 b0' m -> get k0 m = Some b0 -> get k m = Some b -> get k m' = Some b' ->
  (k = k0 /\ b = b0 /\ b' = b0') \/ b' = b.
Proof.
  intros -> G0 G G'. rewrite get_set in G'. destruct (eqb_spec k k0) as [->|Hn].
  - left. split; [reflexivity|]. split; congruence.
  - right. congruence.
Qed.

Theorem dtime_rule cfg s o s' k b b' :
  handle cfg s o = Ok s' -> get k (binds s) = Some b -> get k (binds s') = Some b' ->
  dt_rule s o k b b'.
Proof.
  intros H G G'. unfold BKey in *.
  assert (Hsame : binds s' = binds s -> dt_rule s o k b b').
  { intros E. rewrite E, G in G'. injection G' as <-. apply rule_same. }
  destruct o; cbn [handle] in H.
  - (* define *) apply Hsame. unfold h_define in H. inv_ok H. destruct (get svc (defs s)); inv_ok H. now subst.
  - (* bind *) apply bind_inv in H.
    destruct H as (amt & raw & _ & _ & Gn & _ & _ & _ & _ & _ & Eb & _).
    rewrite Eb, get_set in G'. destruct (eqb_spec k (svc, prov)) as [->|Hn]; [congruence|].
    rewrite G in G'. injection G' as <-. apply rule_same.
  - (* update *) unfold h_update in H. inv_ok H.
    rename a into b0, a0 into amt, a1 into newp, a3 into s1.
    pose proof (opt_pay_frame _ _ _ _ _ _ Ha3) as (_ & Ei0 & _ & _).
    set (b1 := if qos =? 0 then b0 else setb_qos b0 qos) in *.
    assert (Hb1 : b_avail b1 = b_avail b0 /\ b_dtime b1 = b_dtime b0)
      by (subst b1; destruct (qos =? 0); auto).
    destruct Hb1 as (Hv1 & Ht1).
    match type of H with (if ?u then _ else _) = _ => destruct u end.
    2:{ inv_ok H. subst s'. now apply Hsame. }
    assert (Hex : exists x, binds s' = set (svc, prov) x (binds s)
                    /\ b_avail x = b_avail b0 /\ b_dtime x = b_dtime b0).
    { destruct newp as [[raw p]|]; inv_ok H; subst s'; eexists; sproj; rewrite Ei0;
        (split; [reflexivity|]); cbn [b_avail b_dtime setb_raw setb_deposit]; auto. }
    destruct Hex as (x & Eb & Hxa & Hxt).
    destruct (set_case _ _ _ _ _ _ _ _ Eb Ha G G') as [(-> & -> & ->) | -> ]; [|apply rule_same].
    apply rule_keep; assumption.
  - (* disable *) unfold h_disable in H. inv_ok H. subst s'. rename a into b0. b2p. sproj.
    destruct (set_case _ _ _ _ _ _ _ _ eq_refl Ha G G') as [(-> & -> & ->) | -> ]; [|apply rule_same].
    cbn [fst snd]. subst owner. split; [|split].
    + intros _ _. split; [reflexivity|]. left. eauto.
    + intros A. congruence.
    + cbn [b_avail setb_dtime setb_avail]. intros A. congruence.
  - (* enable *) apply enable_inv in H.
    destruct H as (b0 & amt & md & G0 & Ho & Hav & _ & _ & Eb & _).
    destruct (set_case _ _ _ _ _ _ _ _ Eb G0 G G') as [(-> & -> & ->) | -> ]; [|apply rule_same].
    cbn [fst snd]. subst owner. split; [|split].
    + intros A. congruence.
    + intros _ _. split; [reflexivity|]. eauto.
    + cbn [b_avail setb_dtime setb_avail setb_deposit]. intros A. congruence.
  - (* refund *) unfold h_refund_deposit in H. inv_ok H. subst s'. rename a into b0.
    apply transfer_core in Ha0. destruct Ha0 as (_ & Ei0 & _). sproj.
    assert (Eb : set (svc, prov) (setb_deposit b0 0) (binds a0) = set (svc, prov) (setb_deposit b0 0) (binds s))
      by now rewrite Ei0.
    destruct (set_case _ _ _ _ _ _ _ _ Eb Ha G G') as [(-> & -> & ->) | -> ]; [|apply rule_same].
    apply rule_keep; reflexivity.
  - (* set withdraw *) apply Hsame. unfold h_set_withdraw in H. inv_ok H. now subst.
  - (* call *) apply Hsame. unfold h_call, create_context in H. inv_ok H. now subst.
  - (* modcall *) apply Hsame. unfold create_context in H. inv_ok H. now subst.
  - (* respond *)
    pose proof (AV_respond _ _ _ _ _ _ _ _ _ H) as (_ & _ & Hr).
    destruct (Hr _ _ _ G G') as (R1 & R2 & R3).
    split; [|split; [|exact R3]].
    + intros A B. split; [now apply R1|]. right; right.
      apply respond_effect in H. destruct H as (q & rc & dq & _ & _ & _ & _ & _ & _ & H).
      destruct (negb (out =? 0) && negb out_valid) eqn:E.
      * apply andb_prop in E. destruct E as (E1 & E2). b2p. subst out_valid. eauto 7.
      * destruct H as (_ & _ & _ & _ & Eb & _). rewrite Eb, G in G'. congruence.
    + intros A B. specialize (R2 B). congruence.
  - (* pause *) apply Hsame. unfold h_pause, authorized in H. inv_ok H. now subst.
  - (* start *) apply Hsame. unfold h_start, authorized in H. inv_ok H.
    match type of H with (if ?b then _ else _) = _ => destruct b end; inv_ok H; now subst.
  - (* kill *) apply Hsame. unfold h_kill, authorized in H. inv_ok H. now subst.
  - (* update ctx *) apply Hsame. unfold h_update_ctx, update_ctx_tail, authorized in H. inv_ok H. now subst.
  - (* withdraw *) apply Hsame. unfold h_withdraw in H. inv_ok H.
    destruct (prov =? 0).
    + inv_ok H. subst. sproj. apply transfer_core in Ha. destruct Ha as (_ & -> & _). reflexivity.
    + inv_ok H. subst. sproj. apply transfer_core in Ha0. destruct Ha0 as (_ & -> & _).
      destruct (get0 prov (earned s) =? get0 owner (own_earned s)); [|destruct (_ <? 0)]; inv_ok Ha; now subst.
  - (* transfer *) apply Hsame. unfold h_transfer in H. inv_ok H.
    apply transfer_core in H. tauto.
  - (* end block *) injection H as <-.
    change (binds (end_block cfg s dt)) with (binds (end_blocker cfg s)) in G'.
    destruct (AV_end_blocker cfg s) as (_ & _ & Hr).
    destruct (Hr _ _ _ G G') as (R1 & R2 & R3).
    split; [|split; [|exact R3]].
    + intros A B. split; [now apply R1|]. right; left. eauto.
    + intros A B. specialize (R2 B). congruence.
  - (* module update *) apply Hsame. mod_shape H; reflexivity.
  - (* module pause *) apply Hsame. mod_shape H; reflexivity.
  - (* module start *) apply Hsame. mod_shape H; reflexivity.
  - (* module kill *) apply Hsame. mod_shape H; reflexivity.
Qed.

(* a binding that appears in a step is the one of a bind message: available, no disabling time *)
Theorem new_binding_available cfg s o s' k b' :
  handle cfg s o = Ok s' -> get k (binds s) = None -> get k (binds s') = Some b' ->
  b_avail b' = true /\ b_dtime b' = TIME0
  /\ exists dep pr qos ok, o = OBind (fst k) (snd k) dep pr qos (b_owner b') ok.
Proof.
  intros H G G'. unfold BKey in *.
  assert (Hsim : bsim (binds s) (binds s') -> False).
  { intros Hs. specialize (Hs k). unfold BKey in *. rewrite G, G' in Hs. exact Hs. }
  assert (Hset : forall k0 x b0, binds s' = set k0 x (binds s) -> get k0 (binds s) = Some b0 -> False).
  { intros k0 x b0 E G0. rewrite E, get_set in G'. unfold BKey in *.
    destruct (eqb_spec k k0) as [->|Hn]; congruence. }
  destruct (static_op o) eqn:Es; [exfalso; apply Hsim, (sf_binds _ _ (sframe_msg _ _ _ _ H Es))|].
  destruct o; try discriminate Es; cbn [handle] in H.
  - exfalso. apply define_inv in H. destruct H as (_ & _ & ->). sproj. congruence.
  - apply bind_inv in H.
    destruct H as (amt & raw & _ & _ & _ & _ & _ & _ & _ & _ & Ebs & _).
    rewrite Ebs, get_set in G'. destruct (eqb_spec k (svc, prov)) as [->|Hn]; [|congruence].
    injection G' as <-. cbn [b_avail b_dtime b_owner fst snd]. repeat split. eauto.
  - exfalso. apply update_inv in H.
    destruct H as (b0 & b1 & G0 & _ & _ & _ & [E|E] & _); [rewrite E in G'; congruence|eauto].
  - exfalso. apply enable_inv in H. destruct H as (b0 & amt & md & G0 & _ & _ & _ & _ & E & _). eauto.
  - exfalso. apply setwd_inv in H. destruct H as (_ & ->). sproj. congruence.
Qed.

(* ------------------------------------------------------------------ *)
(* reachable states: an unavailable binding carries a real disabling time *)

Definition I_dtime (s : State) : Prop :=
  forall k b, get k (binds s) = Some b -> b_avail b = false -> 0 <= b_dtime b.

Theorem unavailable_has_dtime cfg s : wf_cfg cfg -> Reach cfg s -> I_dtime s.
Proof.
  intros Hcfg HR. induction HR as [h0 t0 f H1 H2 H3|s o HR IH Ho].
  - intros k b G. discriminate G.
  - pose proof (Reach_Inv cfg s Hcfg HR) as HI. destruct (inv_time _ _ HI) as (_ & Ht).
    unfold step. destruct (handle cfg s o) as [s'| |] eqn:E; cbn [fst]; try assumption.
    intros k b' G' Hav. destruct (get k (binds s)) as [b|] eqn:G.
    + destruct (dtime_rule cfg s o s' k b b' E G G') as (R1 & R2 & R3).
      destruct (b_avail b) eqn:Eb.
      * destruct (R1 eq_refl Hav) as (-> & _). exact Ht.
      * rewrite R3 by congruence. now apply (IH k b).
    + destruct (new_binding_available cfg s o s' k b' E G G') as (A & _). congruence.
Qed.

(* so the refund rule never sees the encoding of time.Time{}: for a reachable state the
   refundable instant of an unavailable binding is a real time *)
Corollary refund_time_real cfg s svc prov b :
  wf_cfg cfg -> Reach cfg s -> get (svc, prov) (binds s) = Some b -> b_avail b = false ->
  b_dtime b <> TIME0 /\ 0 <= b_dtime b + p_arb cfg + p_compl cfg.
Proof.
  intros Hcfg HR G Hav. pose proof (unavailable_has_dtime cfg s Hcfg HR _ _ G Hav) as H.
  destruct Hcfg as (_ & _ & _ & _ & _ & Ha & Hc & _). unfold TIME0. lia.
Qed.

(* ------------------------------------------------------------------ *)
(* a refund cannot be repeated *)

Theorem refund_once cfg s svc prov owner ok s' owner' ok' :
  h_refund_deposit cfg s svc prov owner ok = Ok s' ->
  h_refund_deposit cfg s' svc prov owner' ok' = Err
  /\ dep_at s' (svc, prov) = 0.
Proof.
  intros H. unfold h_refund_deposit in H. inv_ok H. subst s'. rename a into b.
  split.
  - unfold h_refund_deposit. destruct ok'; [|reflexivity]. cbn [guard]. sproj.
    rewrite get_set_eq. cbn [of_opt bind b_owner b_avail b_deposit setb_deposit].
    destruct (b_owner b =? owner'); [|reflexivity]. cbn [guard].
    destruct (negb (b_avail b)); reflexivity.
  - unfold dep_at, fget. sproj. now rewrite get_set_eq.
Qed.

(* ------------------------------------------------------------------ *)
(* on the example history of Proofs/StepSpecs_deposit.v *)

Example ex_disable_sets_dtime :
  exists s', handle exd_cfg ex_bound (ODisable 1 11 10 true) = Ok s'
    /\ option_map b_dtime (get (1, 11) (binds s')) = Some (time ex_bound)
    /\ option_map b_avail (get (1, 11) (binds s')) = Some false.
Proof. eexists. split; [vm_compute; reflexivity|]. vm_compute. split; reflexivity. Qed.

Example ex_refund_twice :
  exists s', h_refund_deposit exd_cfg ex_disabled 1 11 10 true = Ok s'
    /\ h_refund_deposit exd_cfg s' 1 11 10 true = Err.
Proof. eexists. split; [vm_compute; reflexivity|]. vm_compute. reflexivity. Qed.
