(* C15: uniqueness (re-binding is rejected), who creates definitions / bindings / provider owners
   (per step and over histories), history-level stability, the listing statement at Reach level,
   and the validity facts of stored bindings that the model can see. *)
From Coq Require Import List ZArith Bool Lia Permutation.
From SVC Require Import Base.AMap Base.Res Base.Dec Model.Types Model.Pricing
  Model.Handlers Model.EndBlock Model.Step Model.Queries Proofs.Inv Proofs.Lemmas Proofs.PFrame
  Proofs.InvAll Proofs.ReachProps Proofs.ReachRun Proofs.StepSpecs_earn Proofs.QueryProofs.
Import ListNotations.
Open Scope Z_scope.

Lemma run_cons cfg s o t : run cfg s (o :: t) = run cfg (fst (step cfg s o)) t.
Proof. reflexivity. Qed.

(* ------------------------------------------------------------------ *)
(* a binding exists at most once per (service, provider) *)

Theorem rebind_rejected cfg s svc prov dep pr qos owner ok :
  has (svc, prov) (binds s) = true ->
  handle cfg s (OBind svc prov dep pr qos owner ok) = Err
  /\ step cfg s (OBind svc prov dep pr qos owner ok) = (s, RErr).
Proof.
  intros Hh.
  assert (E : handle cfg s (OBind svc prov dep pr qos owner ok) = Err).
  { cbn [handle]. unfold h_bind. rewrite Hh. cbn [negb].
    destruct ok; [|reflexivity]. cbn [guard].
    destruct (negb (svc =? p_modsvc cfg)); [|reflexivity].
    destruct (has svc (defs s)); reflexivity. }
  split; [exact E|]. unfold step. now rewrite E.
Qed.

Lemma bind_args cfg s svc prov dep pr qos owner ok s' :
  h_bind cfg s svc prov dep pr qos owner ok = Ok s' ->
  ok = true /\ exists amt raw, one_base_coin dep = Ok amt /\ pr = Some raw
    /\ binds s' = set (svc, prov) (mkBinding amt raw qos true TIME0 owner) (binds s)
    /\ qos <= p_max_timeout cfg /\ has svc (defs s) = true /\ get (svc, prov) (binds s) = None.
Proof.
  intros H. pose proof H as H0. unfold h_bind in H. inv_ok H.
  rename a into amt, a0 into raw, a1 into md, a2 into s1.
  pose proof (cf_pay_deposit _ _ _ _ _ Ha2) as [F1 F2 F3 F4 F5 F6 F7 F8 F9].
  split; [exact Hc|]. exists amt, raw. split; [exact Ha|]. split; [exact Ha0|].
  apply bind_inv in H0. destruct H0 as (amt' & raw' & _ & Hd & Hn & _).
  split.
  { sproj. destruct (get prov (owner_of s1)); inv_ok H; subst s'; sproj;
      rewrite ?F1, ?F2, ?F3, ?F4, ?F5, ?F6, ?F7, ?F8, ?F9; reflexivity. }
  b2p. auto.
Qed.

(* ------------------------------------------------------------------ *)
(* history-level stability *)

Theorem def_stable_run cfg ops : forall s svc c,
  get svc (defs s) = Some c -> get svc (defs (run cfg s ops)) = Some c.
Proof.
  induction ops as [|o t IH]; intros s svc c H; [exact H|].
  rewrite run_cons. apply IH. now apply C15_def_stable.
Qed.

Theorem owner_write_once_run cfg ops : forall s p ow,
  get p (owner_of s) = Some ow -> get p (owner_of (run cfg s ops)) = Some ow.
Proof.
  induction ops as [|o t IH]; intros s p ow H; [exact H|].
  rewrite run_cons. apply IH. now apply C15_owner_write_once.
Qed.

Theorem binding_identity_run cfg ops : forall s k b,
  get k (binds s) = Some b ->
  exists b', get k (binds (run cfg s ops)) = Some b' /\ b_owner b' = b_owner b.
Proof.
  induction ops as [|o t IH]; intros s k b H; [exists b; auto|].
  rewrite run_cons. destruct (C15_binding_identity cfg s o k b H) as (b1 & G1 & E1).
  destruct (IH _ k b1 G1) as (b' & G' & E'). exists b'. split; [exact G'|congruence].
Qed.

(* ------------------------------------------------------------------ *)
(* only Bind creates bindings *)

Theorem binding_created_only_by_bind cfg s o k b' :
  get k (binds s) = None -> get k (binds (fst (step cfg s o))) = Some b' ->
  exists dep amt raw qos,
    o = OBind (fst k) (snd k) dep (Some raw) qos (b_owner b') true
    /\ one_base_coin dep = Ok amt
    /\ b' = mkBinding amt raw qos true TIME0 (b_owner b')
    /\ qos <= p_max_timeout cfg /\ has (fst k) (defs s) = true.
Proof.
  intros Hn Hs. unfold step in Hs. destruct (handle cfg s o) as [s'| |] eqn:H; cbn [fst] in Hs;
    try congruence.
  destruct (static_op o) eqn:Hst.
  { pose proof (sframe_msg _ _ _ _ H Hst) as [_ _ _ _ _ _ F].
    destruct (bsim_get_rev _ _ _ _ F Hs) as (b & E & _). congruence. }
  destruct o; try discriminate; cbn [handle] in H.
  - apply define_inv in H. destruct H as (_ & _ & ->). sproj. congruence.
  - destruct (bind_args _ _ _ _ _ _ _ _ _ _ H) as (-> & amt & raw & Ec & -> & Eb & Hq & Hd & _).
    rewrite Eb, get_set in Hs. destruct (eqb_spec k (svc, prov)) as [->|Hne]; [|unfold BKey in *; congruence].
    injection Hs as <-. cbn [fst snd b_owner]. exists dep, amt, raw, qos. auto.
  - apply update_inv in H. destruct H as (b0 & b1 & Hb0 & _ & _ & _ & [E|E] & _).
    + rewrite E in Hs. congruence.
    + rewrite E, get_set in Hs. destruct (eqb_spec k (svc, prov)) as [->|Hne]; unfold BKey in *; congruence.
  - apply enable_inv in H. destruct H as (b0 & amt & md & Hb0 & _ & _ & _ & _ & E & _).
    rewrite E, get_set in Hs. destruct (eqb_spec k (svc, prov)) as [->|Hne]; unfold BKey in *; congruence.
  - apply setwd_inv in H. destruct H as (_ & ->). sproj. congruence.
Qed.

(* a binding is never removed (any operation, any state) *)
Theorem binding_never_removed cfg s o k :
  has k (binds s) = true -> has k (binds (fst (step cfg s o))) = true.
Proof.
  unfold has. destruct (get k (binds s)) as [b|] eqn:G; [|discriminate]. intros _.
  destruct (C15_binding_identity cfg s o k b G) as (b' & -> & _). reflexivity.
Qed.

(* over a history: a binding present at the end and absent at the start was created by a
   successful MsgBindService for exactly that service and provider, by its owner, occurring in the history *)
Theorem binding_created_only_by_bind_run cfg ops : forall s k b',
  get k (binds s) = None -> get k (binds (run cfg s ops)) = Some b' ->
  exists dep raw qos, In (OBind (fst k) (snd k) dep (Some raw) qos (b_owner b') true) ops.
Proof.
  induction ops as [|o t IH]; intros s k b' Hn Hs.
  - change (run cfg s []) with s in Hs. congruence.
  - rewrite run_cons in Hs.
    destruct (get k (binds (fst (step cfg s o)))) as [b1|] eqn:G1.
    + destruct (binding_created_only_by_bind cfg s o k b1 Hn G1) as (dep & amt & raw & qos & -> & _).
      destruct (binding_identity_run cfg t _ k b1 G1) as (bx & Gx & Eo). rewrite Hs in Gx. injection Gx as <-.
      rewrite Eo. exists dep, raw, qos. now left.
    + destruct (IH _ k b' G1 Hs) as (dep & raw & qos & Hin). exists dep, raw, qos. now right.
Qed.

(* ------------------------------------------------------------------ *)
(* only Define creates definitions: every other operation leaves `defs` EQUAL *)

Lemma defs_step_cases cfg s o :
  defs (fst (step cfg s o)) = defs s
  \/ exists svc content, o = ODefine svc content true /\ get svc (defs s) = None
       /\ defs (fst (step cfg s o)) = set svc content (defs s).
Proof.
  unfold step. destruct (handle cfg s o) as [s'| |] eqn:H; cbn [fst]; try (left; reflexivity).
  destruct (static_op o) eqn:Hst.
  { pose proof (sframe_msg _ _ _ _ H Hst) as [F _ _ _ _ _ _]. now left. }
  destruct o; try discriminate; cbn [handle] in H.
  - apply define_inv in H. destruct H as (-> & Hn & ->). sproj. right. eauto.
  - apply bind_inv in H. destruct H as (amt & raw & H). left. tauto.
  - apply update_inv in H. destruct H as (b & b' & H). left. tauto.
  - apply enable_inv in H. destruct H as (b & amt & md & H). left. tauto.
  - apply setwd_inv in H. destruct H as (_ & ->). now left.
Qed.

Theorem defs_frame cfg s o :
  defs (fst (step cfg s o)) <> defs s ->
  exists svc content, o = ODefine svc content true /\ get svc (defs s) = None
    /\ defs (fst (step cfg s o)) = set svc content (defs s).
Proof. intros Hne. destruct (defs_step_cases cfg s o) as [E|H]; [contradiction|exact H]. Qed.

Corollary defs_unchanged_unless_define cfg s o :
  (forall svc content, o <> ODefine svc content true) -> defs (fst (step cfg s o)) = defs s.
Proof.
  intros Hno. destruct (defs_step_cases cfg s o) as [E|(svc & content & -> & _)]; [exact E|].
  exfalso. eapply Hno. reflexivity.
Qed.

(* over a history: a name defined at the end and undefined at the start was defined by a
   successful MsgDefineService of the history, with the content that is stored *)
Theorem def_created_only_by_define_run cfg ops : forall s svc c,
  get svc (defs s) = None -> get svc (defs (run cfg s ops)) = Some c ->
  In (ODefine svc c true) ops.
Proof.
  induction ops as [|o t IH]; intros s svc c Hn Hs.
  - change (run cfg s []) with s in Hs. congruence.
  - rewrite run_cons in Hs.
    destruct (get svc (defs (fst (step cfg s o)))) as [c1|] eqn:G1.
    + left. rewrite (def_stable_run cfg t _ svc c1 G1) in Hs. injection Hs as <-.
      destruct (defs_step_cases cfg s o) as [E|(svc0 & content & -> & _ & E)]; rewrite E in G1.
      * congruence.
      * rewrite get_set in G1. destruct (eqb_spec svc svc0) as [->|Hne]; [|congruence].
        now injection G1 as ->.
    + right. exact (IH _ svc c G1 Hs).
Qed.

(* ------------------------------------------------------------------ *)
(* only Bind gives a provider its owner *)

Theorem owner_created_only_by_bind cfg s o p ow :
  get p (owner_of s) = None -> get p (owner_of (fst (step cfg s o))) = Some ow ->
  exists svc dep raw qos, o = OBind svc p dep (Some raw) qos ow true.
Proof.
  intros Hn Hs. unfold step in Hs. destruct (handle cfg s o) as [s'| |] eqn:H; cbn [fst] in Hs;
    try congruence.
  destruct (is_bind o) eqn:Hb.
  - destruct o; try discriminate. cbn [handle] in H.
    destruct (bind_args _ _ _ _ _ _ _ _ _ _ H) as (-> & amt & raw & _ & -> & _).
    apply bind_inv in H. destruct H as (amt' & raw' & _ & _ & _ & _ & _ & _ & _ & _ & _ & _ & _ & _ & _ & _ & E & _).
    rewrite E in Hs. destruct (get prov (owner_of s)) eqn:E1; [congruence|].
    rewrite get_set in Hs. destruct (eqb_spec p prov) as [->|Hne]; [|congruence].
    injection Hs as ->. eauto.
  - destruct (owner_of_msg _ _ _ _ H Hb) as [E _]. rewrite E in Hs. congruence.
Qed.

(* ------------------------------------------------------------------ *)
(* listing, at Reach level *)

Theorem listing cfg s svc owner : wf_cfg cfg -> Reach cfg s ->
  (forall k b, In (k, b) (bindings_of_service s svc) <-> get k (binds s) = Some b /\ fst k = svc)
  /\ NoDup (bindings_of_service s svc)
  /\ (forall k b, In (k, b) (bindings_of_owner s owner svc)
                  <-> get k (binds s) = Some b /\ fst k = svc /\ b_owner b = owner)
  /\ NoDup (bindings_of_owner s owner svc).
Proof.
  intros Hcfg Hr. destruct (query_hypotheses cfg s Hcfg Hr) as (Hidx & _ & _ & Wb & _ & _ & _ & _ & _ & Hnd).
  split; [|split; [|split]].
  - intros k b. unfold bindings_of_service. rewrite filter_In. cbn [fst snd]. rewrite Z.eqb_eq.
    split; intros (A & B); (split; [|exact B]); [now apply In_get|now apply get_In].
  - unfold bindings_of_service. apply NoDup_filter, NoDup_pairs, Wb.
  - intros [sv p] b. rewrite In_bindings_of_owner. cbn [fst snd]. unfold idx_own_bind_ok, BKey in *. split.
    + intros (Hi & -> & Hg). apply Hidx in Hi. destruct Hi as (b' & Hg' & Hb).
      rewrite Hg in Hg'. injection Hg' as <-. auto.
    + intros (Hg & -> & Hb). split; [|auto]. apply Hidx. now exists b.
  - now apply NoDup_bindings_of_owner.
Qed.

(* ------------------------------------------------------------------ *)
(* what the model knows about the validity of a stored binding *)

(* the response time stored with a binding never exceeds the maximum timeout parameter:
   not a conjunct of Inv; preserved by every operation from every state *)
Definition I_qos (cfg : Params) (s : State) : Prop :=
  forall k b, get k (binds s) = Some b -> b_qos b <= p_max_timeout cfg.

Lemma update_qos cfg s svc prov dep pr qos owner ok s' :
  h_update cfg s svc prov dep pr qos owner ok = Ok s' ->
  forall k b', get k (binds s') = Some b' ->
    exists b, get k (binds s) = Some b
      /\ (b_qos b' = b_qos b \/ (b_qos b' = qos /\ qos <= p_max_timeout cfg)).
Proof.
  unfold h_update. intros H. inv_ok H.
  rename a into b, a0 into amt, a1 into newp, a3 into s1.
  assert (Hcf : cframe s s1).
  { destruct (coins_empty dep); inv_ok Ha3; [subst; apply cframe_refl|]. eapply cf_pay_deposit; eauto. }
  destruct Hcf as [F1 F2 F3 F4 F5 F6 F7 F8 F9].
  set (b1 := if qos =? 0 then b else setb_qos b qos) in *.
  assert (Hq1 : b_qos b1 = b_qos b \/ (b_qos b1 = qos /\ qos <= p_max_timeout cfg)).
  { subst b1. destruct (qos =? 0) eqn:E0; [now left|]. right. split; [reflexivity|].
    cbn [orb] in Hc1. now apply Z.leb_le. }
  assert (Hset : forall bx, b_qos bx = b_qos b1 ->
            forall k b', get k (set (svc, prov) bx (binds s)) = Some b' ->
            exists b0, get k (binds s) = Some b0
              /\ (b_qos b' = b_qos b0 \/ (b_qos b' = qos /\ qos <= p_max_timeout cfg))).
  { intros bx Ex k b' G. rewrite get_set in G. destruct (eqb_spec k (svc, prov)) as [->|Hne].
    - injection G as <-. exists b. split; [exact Ha|]. rewrite Ex. exact Hq1.
    - exists b'. auto. }
  intros k b' G.
  destruct (negb (qos =? 0) || negb (coins_empty dep) || match pr with Some _ => true | None => false end).
  - destruct newp as [[raw p]|]; inv_ok H; subst s'; sproj; rewrite ?F2 in G;
      eapply Hset; try exact G; reflexivity.
  - inv_ok H. subst s'. rewrite F2 in G. exists b'. auto.
Qed.

Lemma I_qos_step cfg s o : I_qos cfg s -> I_qos cfg (fst (step cfg s o)).
Proof.
  intros HQ. unfold step. destruct (handle cfg s o) as [s'| |] eqn:H; cbn [fst]; try exact HQ.
  intros k b' G.
  destruct (static_op o) eqn:Hst.
  { pose proof (sframe_msg _ _ _ _ H Hst) as [_ _ _ _ _ _ F].
    destruct (bsim_get_rev _ _ _ _ F G) as (b & E & _ & _ & _ & Eq). rewrite Eq. eapply HQ; eauto. }
  destruct o; try discriminate; cbn [handle] in H.
  - apply define_inv in H. destruct H as (_ & _ & ->). eapply HQ; eauto.
  - destruct (bind_args _ _ _ _ _ _ _ _ _ _ H) as (_ & amt & raw & _ & _ & Eb & Hq & _).
    rewrite Eb, get_set in G. destruct (eqb_spec k (svc, prov)) as [->|Hne].
    + injection G as <-. exact Hq.
    + eapply HQ; eauto.
  - destruct (update_qos _ _ _ _ _ _ _ _ _ _ H k b' G) as (b & Gb & [E|(E & Hle)]).
    + rewrite E. eapply HQ; eauto.
    + now rewrite E.
  - apply enable_inv in H. destruct H as (b0 & amt & md & Hb0 & _ & _ & _ & _ & E & _).
    rewrite E, get_set in G. destruct (eqb_spec k (svc, prov)) as [->|Hne].
    + injection G as <-. cbn. eapply HQ; eauto.
    + eapply HQ; eauto.
  - apply setwd_inv in H. destruct H as (_ & ->). eapply HQ; eauto.
Qed.

Theorem Reach_I_qos cfg s : Reach cfg s -> I_qos cfg s.
Proof.
  induction 1 as [h0 t0 f _ _ _|s o _ IH _]; [intros k b G; discriminate|now apply I_qos_step].
Qed.

(* C15_valid: every validity fact about a stored binding that the model carries *)
Theorem valid cfg s k b : wf_cfg cfg -> Reach cfg s -> get k (binds s) = Some b ->
  has (fst k) (defs s) = true
  /\ get (snd k) (owner_of s) = Some (b_owner b)
  /\ get k (pricing s) = Some (parse_pricing (b_raw b))
  /\ validate_pricing (parse_pricing (b_raw b)) = true
  /\ schema_pricing (parse_pricing (b_raw b)) = true
  /\ 0 <= b_deposit b
  /\ b_qos b <= p_max_timeout cfg
  /\ (b_avail b = true ->
        pr_price (parse_pricing (b_raw b)) * p_multiple cfg < INT_LIMIT
        /\ Z.max (pr_price (parse_pricing (b_raw b)) * p_multiple cfg) (p_min_deposit cfg) <= b_deposit b).
Proof.
  intros Hcfg Hr G. pose proof (Reach_Inv cfg s Hcfg Hr) as HI. pose proof (get_In _ _ _ G) as Hin.
  destruct (inv_index _ _ HI) as (I1 & _). destruct (I1 _ _ Hin) as (A1 & A2 & _ & A4 & A5 & A6 & A7).
  destruct (inv_deposit _ _ HI) as (_ & D2).
  split; [exact A1|]. split; [exact A2|]. split; [exact A4|]. split; [exact A5|]. split; [exact A6|].
  split; [exact (D2 _ _ Hin)|]. split; [exact (Reach_I_qos cfg s Hr k b G)|].
  intros Ha. split; [exact (A7 Ha)|].
  pose proof (inv_min _ _ HI k b Hin Ha) as Hm. unfold min_dep_val, pricing_of in Hm.
  now rewrite A4 in Hm.
Qed.

(* the lower bound qos >= 1 (types.ValidateQoS) is part of the opaque validity flag `ok` of the
   message: the model accepts, and stores, a binding with response time 0 when handed ok = true *)
Example valid_qos_not_in_model :
  let s := run ex_cfg ex_s0 [ODefine 1 5 true; OBind 1 7 (CBase 200000) (Some ex_raw) 0 42 true] in
  Reach ex_cfg s /\ exists b, get (1, 7) (binds s) = Some b /\ b_qos b = 0.
Proof.
  cbv zeta. split.
  - apply reach_init_run; [lia|lia|unfold ex_funding; wf_funding_tac|]. wf_run_tac.
  - eexists. split; vm_compute; reflexivity.
Qed.

(* the hypotheses of the theorems above are satisfiable on the example history of StepSpecs_earn.v *)
Example rebind_rejected_ex :
  has (1, 7) (binds ex_s) = true
  /\ step ex_cfg ex_s (OBind 1 7 (CBase 200000) (Some ex_raw) 10 42 true) = (ex_s, RErr).
Proof. split; [vm_compute; reflexivity|]. apply rebind_rejected. vm_compute. reflexivity. Qed.

Example created_by_bind_ex :
  get (1, 9) (binds ex_s0) = None /\ exists b, get (1, 9) (binds ex_s) = Some b /\ b_owner b = 43
  /\ In (OBind 1 9 (CBase 200000) (Some ex_raw) 10 43 true) ex_ops.
Proof. split; [reflexivity|]. eexists. split; [vm_compute; reflexivity|]. split; [reflexivity|]. cbn. auto. Qed.
