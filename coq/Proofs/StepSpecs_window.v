(* Property C08: a request can be answered once, by its provider, until its expiry block ends.
   - C08_accept: a stateless-valid response from the designated provider to an ACTIVE request
     is accepted in every state satisfying the invariant (never Err, never Panic);
   - C08_reject: unknown request, wrong sender, inactive request or invalid message: Err and
     the state is unchanged;
   - C08_once: an accepted response deactivates the request, every later response is rejected;
   - C08_window_inv: a request record exists only up to its expiry height;
   - C08_gone_after_expiry: the expiry handler of its context removes the record and the
     response; C08_msg_keeps_requests: no message removes or changes a request record,
     only a response to r deactivates r;
   - C08_end_block_keeps / C08_end_block_expires: EndBlock at a height below the expiry
     height leaves the record alone, EndBlock of the expiry block removes it. *)
From Coq Require Import List ZArith Bool Lia Permutation.
From SVC Require Import Base.AMap Base.Res Base.Dec Model.Types Model.Pricing
  Model.Handlers Model.EndBlock Model.Step Proofs.Inv Proofs.Lemmas Proofs.ReqLemmas
  Proofs.DecProofs Proofs.PricingProofs Proofs.BankLemmas Proofs.InvBank Proofs.CtxOps
  Proofs.InvSched Proofs.InvEscrow Proofs.InvReq Proofs.InvAll Proofs.ReachRun
  Proofs.StepSpecs_batch.
Import ListNotations.
Open Scope Z_scope.

(* ------------------------------------------------------------------ *)
(* rejection *)

Theorem C08_reject cfg s r who code out ov ok :
  ok = false \/ get r (reqs s) = None
  \/ (exists q, get r (reqs s) = Some q /\ (who <> r_prov q \/ r_active q = false)) ->
  handle cfg s (ORespond r who code out ov ok) = Err
  /\ step cfg s (ORespond r who code out ov ok) = (s, RErr).
Proof.
  intros H.
  assert (E : handle cfg s (ORespond r who code out ov ok) = Err).
  { cbn [handle]. unfold h_respond. destruct ok; [|reflexivity]. cbn [guard].
    destruct H as [H|[H|(q & Hq & H)]]; [discriminate|now rewrite H|].
    rewrite Hq. cbn [of_opt bind].
    destruct (get (rid_ctx r) (ctxs s)) as [rc0|]; [|reflexivity]. cbn [of_opt bind].
    destruct H as [H|H].
    - destruct (Z.eqb_spec who (r_prov q)); [contradiction|reflexivity].
    - rewrite H. destruct (who =? r_prov q); reflexivity. }
  split; [exact E|]. unfold step. now rewrite E.
Qed.

(* ------------------------------------------------------------------ *)
(* acceptance *)

Lemma transfer_ok a b amt s : 0 <= amt <= bal s a -> exists s1, transfer a b amt s = Some s1.
Proof.
  intros [H0 H1]. unfold transfer.
  assert (E : (amt <? 0) || (bal s a <? amt) = false) by (apply orb_false_intro; apply Z.ltb_ge; lia).
  rewrite E. eauto.
Qed.

Lemma ctxs_resp_mid s1 r who rc0 code out : ctxs (resp_mid s1 r who rc0 code out) = ctxs s1.
Proof. unfold resp_mid. sproj. unfold deactivate. sproj. destruct (get r (reqs s1)); reflexivity. Qed.

Definition settle (cfg : Params) (s : State) (r : ReqId) (q : Req) (rc0 : Ctx) (out : Z)
    (ov : bool) : Res State :=
  if negb (out =? 0) && negb ov
  then match slash cfg s r with
       | Ok sa => match refund_fee sa r (c_cons rc0) (r_fee q) with
                  | Some sb => Ok sb
                  | None => Panic
                  end
       | _ => Panic
       end
  else add_earned_fee cfg s r (r_prov q) (r_fee q).

Lemma respond_ok cfg s r q rc0 code out ov s1 :
  get r (reqs s) = Some q -> get (rid_ctx r) (ctxs s) = Some rc0 -> r_active q = true ->
  settle cfg s r q rc0 out ov = Ok s1 -> ctxs s1 = ctxs s ->
  h_respond cfg s r (r_prov q) code out ov true
  = Ok (resp_finish (resp_mid s1 r (r_prov q) rc0 code out) (rid_ctx r) rc0).
Proof.
  intros Hq Hrc Hact Es1 Ec. unfold settle in Es1. unfold h_respond. cbn [guard].
  rewrite Hq. cbn [of_opt bind]. rewrite Hrc. cbn [of_opt bind].
  rewrite Z.eqb_refl, Hact. cbn [guard]. rewrite Es1. cbn [bind].
  fold (resp_mid s1 r (r_prov q) rc0 code out).
  rewrite ctxs_resp_mid, Ec, Hrc. unfold resp_finish.
  destruct (c_bresp (setc_bresp rc0 (c_bresp rc0 + 1)) =? c_breq (setc_bresp rc0 (c_bresp rc0 + 1)));
    [|reflexivity].
  destruct (complete_batch (resp_mid s1 r (r_prov q) rc0 code out) (rid_ctx r)
              (setc_bresp rc0 (c_bresp rc0 + 1))) as [s6 rc2]. reflexivity.
Qed.

Lemma escrow_covers_fee cfg s r q :
  Inv cfg s -> get r (reqs s) = Some q -> r_active q = true -> 0 <= r_fee q <= bal s Escrow.
Proof.
  intros Hinv Hq Hact. pose proof (Inv_J _ _ Hinv) as (_ & _ & He & Hf & Hea & _).
  pose proof (fee_active_le_sum s r q Hf Hq) as Hle. unfold fee_active at 1 in Hle. rewrite Hact in Hle.
  assert (0 <= msum vid (earned s)) by (apply msum_nonneg; exact Hea).
  unfold I_escrow in He. split; [apply (Hf r), get_In, Hq|lia].
Qed.

Lemma settle_ok cfg s r q rc0 out ov :
  wf_cfg cfg -> Inv cfg s -> get r (reqs s) = Some q -> get (rid_ctx r) (ctxs s) = Some rc0 ->
  r_active q = true ->
  exists s1, settle cfg s r q rc0 out ov = Ok s1 /\ ctxs s1 = ctxs s.
Proof.
  intros Hcfg Hinv Hq Hrc Hact.
  destruct Hcfg as (_ & _ & _ & Htax & Hsl & _).
  destruct (inv_req _ _ Hinv) as (R1 & _).
  destruct (R1 _ _ (get_In _ _ _ Hq)) as (rc & G & _ & _ & Hfee0 & _ & _ & Hown & Hbind & _).
  assert (rc = rc0) by congruence. subst rc.
  pose proof (escrow_covers_fee cfg s r q Hinv Hq Hact) as Hesc.
  unfold settle. destruct (negb (out =? 0) && negb ov).
  - (* malformed output: slash the provider, refund the consumer *)
    apply has_get in Hbind. destruct Hbind as (b & Gb).
    pose proof (Inv_BDM _ _ Hinv) as HB.
    destruct (slash_ok cfg s r q rc0 b Hsl Hq Hrc Gb) as (sa & Esa).
    + eapply BDM_dep_nonneg; eauto.
    + eapply BDM_dep_le_custody; eauto.
    + intros Hav. destruct (inv_index _ _ Hinv) as (I1 & _).
      destruct (I1 _ _ (get_In _ _ _ Gb)) as (_ & _ & _ & Gp & _ & _ & Hlim).
      unfold pricing_of. rewrite Gp. exact (Hlim Hav).
    + rewrite Esa.
      pose proof (slash_bal _ _ _ _ Escrow Esa ltac:(discriminate)) as Hb.
      destruct (transfer_ok Escrow (User (c_cons rc0)) (r_fee q) sa) as (sb & Et); [lia|].
      unfold refund_fee. rewrite Et. eexists. split; [reflexivity|].
      pose proof (slash_core _ _ _ _ Esa) as (_ & _ & C3 & _).
      rewrite (transfer_frame _ _ _ _ _ Et). sproj. exact C3.
  - (* accepted: tax and earnings *)
    pose proof (mul_trunc_bounds (r_fee q) (p_tax cfg) Hfee0 ltac:(lia)) as Hm.
    destruct (transfer_ok Escrow FeeColl (mul_trunc (r_fee q) (p_tax cfg)) s) as (sa & Et); [lia|].
    unfold add_earned_fee. rewrite Et. cbn [of_opt bind].
    assert (El : (mul_trunc (r_fee q) (p_tax cfg) <=? r_fee q) = true) by (apply Z.leb_le; lia).
    rewrite El. cbn [guard]. pose proof (transfer_frame _ _ _ _ _ Et) as Hf.
    rewrite Hf. sproj. apply has_get in Hown. destruct Hown as (o & Go). rewrite Go.
    eexists. split; [reflexivity|]. reflexivity.
Qed.

(* a stateless-valid response from the designated provider to an active request is accepted *)
Theorem C08_accept cfg s r q code out ov :
  wf_cfg cfg -> Inv cfg s -> get r (reqs s) = Some q -> r_active q = true ->
  exists s', handle cfg s (ORespond r (r_prov q) code out ov true) = Ok s'.
Proof.
  intros Hcfg Hinv Hq Hact.
  destruct (inv_req _ _ Hinv) as (R1 & _).
  destruct (R1 _ _ (get_In _ _ _ Hq)) as (rc0 & Hrc & _).
  destruct (settle_ok cfg s r q rc0 out ov Hcfg Hinv Hq Hrc Hact) as (s1 & Es1 & Ec).
  eexists. cbn [handle]. exact (respond_ok cfg s r q rc0 code out ov s1 Hq Hrc Hact Es1 Ec).
Qed.

(* ------------------------------------------------------------------ *)
(* once *)

Lemma respond_reqs cfg s r who code out ov ok s' :
  h_respond cfg s r who code out ov ok = Ok s' ->
  exists q rc0, ok = true /\ get r (reqs s) = Some q /\ get (rid_ctx r) (ctxs s) = Some rc0
    /\ who = r_prov q /\ r_active q = true
    /\ reqs s' = set r (setr_active q false) (reqs s)
    /\ resps s' = set r (mkResp who (c_cons rc0) code out) (resps s).
Proof.
  intros H. apply respond_inv in H.
  destruct H as (q & rc0 & s1 & rc & Hok & Hq & Hrc0 & Hwho & Hact & Hset & Hrc & ->).
  destruct (settle_core _ _ _ _ _ _ _ _ Hset) as ((C1 & C2 & _) & _).
  pose proof (resp_tail_req s1 r who rc0 code out (rid_ctx r) rc) as T. cbv zeta in T.
  destruct T as (T1 & T2 & _).
  exists q, rc0. repeat split; try assumption.
  - rewrite T1, deactivate_reqs, C1, Hq. reflexivity.
  - rewrite T2, C2. reflexivity.
Qed.

Theorem C08_once cfg s r who code out ov ok s' :
  handle cfg s (ORespond r who code out ov ok) = Ok s' ->
  (exists q, get r (reqs s) = Some q /\ r_active q = true /\ who = r_prov q /\ ok = true
     /\ get r (reqs s') = Some (setr_active q false)
     /\ exists cons, get r (resps s') = Some (mkResp who cons code out))
  /\ forall who' code' out' ov' ok',
       handle cfg s' (ORespond r who' code' out' ov' ok') = Err
       /\ step cfg s' (ORespond r who' code' out' ov' ok') = (s', RErr).
Proof.
  cbn [handle]. intros H. apply respond_reqs in H.
  destruct H as (q & rc0 & Hok & Hq & Hrc & Hwho & Hact & Er & Ep).
  assert (G : get r (reqs s') = Some (setr_active q false)) by (rewrite Er; apply get_set_eq).
  split.
  - exists q. repeat split; try assumption. exists (c_cons rc0). rewrite Ep. apply get_set_eq.
  - intros who' code' out' ov' ok'. apply C08_reject. right; right.
    exists (setr_active q false). split; [exact G|]. right. reflexivity.
Qed.

(* ------------------------------------------------------------------ *)
(* the window *)

(* a request record exists only while its expiry is pending: up to and including the block
   of its expiry height *)
Theorem C08_window_inv cfg s r q :
  Inv cfg s -> get r (reqs s) = Some q ->
  height s <= r_exp q /\ rid_height r < r_exp q
  /\ In (r_exp q, rid_ctx r) (expq s).
Proof.
  intros Hinv Hq. destruct (inv_req _ _ Hinv) as (R1 & _).
  destruct (R1 _ _ (get_In _ _ _ Hq)) as (rc & _ & _ & Ge & _ & _ & Hlt & _).
  destruct (inv_sched _ _ Hinv) as (S1 & _ & _ & _ & S5 & _).
  split; [exact (S5 _ _ Ge)|]. split; [exact Hlt|]. now apply S1.
Qed.

(* the expiry handler of a context removes every request and response record of it *)
Theorem C08_gone_after_expiry cfg s c r :
  wf_cfg cfg -> Inv cfg s -> In (height s, c) (expq s) -> height s < HEIGHT_BOUND ->
  rid_ctx r = c ->
  get r (reqs (expire_one cfg s c)) = None /\ get r (resps (expire_one cfg s c)) = None.
Proof.
  intros Hcfg Hinv Hdue Hh Hc.
  pose proof (Inv_expire_one cfg s c Hcfg Hinv Hdue Hh) as Hinv'.
  destruct (expire_one_spec cfg s c Hcfg Hinv Hdue Hh) as (rc & rc1 & _ & _ & _ & _ & _ & _ & _ & Ee & _).
  assert (G : get r (reqs (expire_one cfg s c)) = None) by (eapply no_expiry_no_reqs; eauto).
  split; [exact G|].
  destruct (get r (resps (expire_one cfg s c))) as [x|] eqn:Gx; [|reflexivity].
  destruct (inv_req _ _ Hinv') as (_ & R2 & _).
  destruct (R2 _ _ (get_In _ _ _ Gx)) as (q & Gq & _). congruence.
Qed.

(* the expiry handler of another context leaves the records alone *)
Lemma expire_one_other cfg s c r :
  wf_cfg cfg -> Inv cfg s -> In (height s, c) (expq s) -> height s < HEIGHT_BOUND ->
  rid_ctx r <> c ->
  get r (reqs (expire_one cfg s c)) = get r (reqs s)
  /\ get r (resps (expire_one cfg s c)) = get r (resps s).
Proof.
  intros Hcfg Hinv Hdue Hh Hne. destruct (due_ctx _ _ _ Hinv Hdue) as (rc & Grc & Gexp).
  pose proof (inv_wf _ _ Hinv) as Hwf. assert (Hwr : wf (reqs s)) by apply Hwf.
  assert (Hwp : wf (resps s)) by apply Hwf.
  assert (HX : let p := (if c_bdone rc then (s, rc)
                 else complete_batch (fold_left (expire_req cfg) (active_rids s c (c_counter rc)) s) c rc) in
      get r (reqs (fst p)) = get r (reqs s) /\ resps (fst p) = resps s /\ wf (reqs (fst p))).
  { cbv zeta. destruct (c_bdone rc); cbn [fst]; [auto|].
    set (l := active_rids s c (c_counter rc)). set (sf := fold_left (expire_req cfg) l s).
    assert (Hlc : forall r0, In r0 l -> rid_ctx r0 = c).
    { intros r0 Hr. apply In_active_rids in Hr; [|assumption]. destruct Hr as (? & _ & Hc & _). exact Hc. }
    pose proof (complete_batch_frame sf c rc) as F. cbv zeta in F. destruct F as (F1 & F2 & _).
    pose proof (fold_expire_core cfg l s) as C. cbv zeta in C. fold sf in C. destruct C as (C1 & _).
    destruct (fold_expire_reqs cfg l s Hwr) as (Hwsf & Hg).
    { intros r0 Hr. rewrite (Hlc r0 Hr). eauto. }
    fold sf in Hg, Hwsf. rewrite F1, F2, Hg. split; [|split; [exact C1|exact Hwsf]].
    destruct (mem r l) eqn:M; [|reflexivity]. apply mem_In in M. apply Hlc in M. contradiction. }
  cbv zeta in HX. unfold expire_one, ctx_or_zero. rewrite Grc.
  destruct (if c_bdone rc then (s, rc) else complete_batch _ c rc) as [s1 rc1].
  cbn [fst] in HX. destruct HX as (X1 & X2 & X3).
  match goal with |- context [clean_batch ?x c ?y] => set (s3 := x); set (n := y) end.
  assert (H3 : reqs s3 = reqs s1 /\ resps s3 = resps s1).
  { unfold s3. destruct (c_state rc1); [destruct (c_rep rc1 && _)| |]; sproj; auto. }
  destruct H3 as (H31 & H32).
  destruct (clean_batch_fields s3 c n) as (Cr & Cp & _). cbv zeta in Cr, Cp.
  assert (M : mem r (batch_rids s3 c n) = false).
  { apply mem_nIn. intros Hin. apply In_batch_rids in Hin. tauto. }
  rewrite Cr, Cp, H31, H32, X2, !get_fold_del, M by assumption. auto.
Qed.

(* the two phases of EndBlock *)
Lemma fold_expire_records cfg l s r :
  wf_cfg cfg -> Inv cfg s -> height s < HEIGHT_BOUND -> NoDup l ->
  (forall c, In c l -> In (height s, c) (expq s)) ->
  let s' := fold_left (expire_one cfg) l s in
  (~ In (rid_ctx r) l ->
     get r (reqs s') = get r (reqs s) /\ get r (resps s') = get r (resps s))
  /\ (In (rid_ctx r) l -> get r (reqs s') = None /\ get r (resps s') = None).
Proof.
  intros Hcfg. revert s. induction l as [|a l IH]; intros s Hi Hb Hn Hl; cbn [fold_left]; cbv zeta.
  - split; [auto|intros []].
  - inversion Hn as [|? ? Hna Hn']; subst.
    assert (Hda : In (height s, a) (expq s)) by (apply Hl; now left).
    pose proof (Inv_expire_one cfg s a Hcfg Hi Hda Hb) as Hi1.
    pose proof (height_expire_one cfg s a Hcfg Hi Hda Hb) as Eh.
    pose proof (expq_after_expire_one cfg s a Hcfg Hi Hda Hb) as Eq.
    destruct (IH (expire_one cfg s a) Hi1) as (K1 & K2); try assumption.
    + now rewrite Eh.
    + intros c Hc. rewrite Eh. apply Eq. split; [apply Hl; now right|]. intros ->. contradiction.
    + cbv zeta in K1, K2. split.
      * intros Hni. assert (Hne : rid_ctx r <> a) by (intros E; apply Hni; now left).
        assert (Hnl : ~ In (rid_ctx r) l) by (intros E; apply Hni; now right).
        destruct (K1 Hnl) as (-> & ->). now apply expire_one_other.
      * intros [Ea|Hin]; [|exact (K2 Hin)].
        assert (Hnl : ~ In (rid_ctx r) l) by (rewrite <- Ea; exact Hna).
        destruct (K1 Hnl) as (-> & ->). apply C08_gone_after_expiry; auto.
Qed.

Lemma end_block_records cfg s dt r :
  wf_cfg cfg -> Inv cfg s -> height s < HEIGHT_BOUND ->
  let s' := end_block cfg s dt in
  let due_now := In (height s, rid_ctx r) (expq s) in
  (~ due_now -> (forall q, get r (reqs s) = Some q -> get r (reqs s') = Some q)
                /\ get r (resps s') = get r (resps s))
  /\ (due_now -> rid_height r <> height s ->
        get r (reqs s') = None /\ get r (resps s') = None).
Proof.
  intros Hcfg Hi Hb. cbv zeta. unfold end_block, end_blocker.
  set (l1 := due (expq s) (height s)).
  assert (Hn1 : NoDup l1) by (apply NoDup_due; apply (inv_wf _ _ Hi)).
  assert (Hl1 : forall c, In c l1 -> In (height s, c) (expq s)) by (intros c; apply In_due).
  destruct (fold_expire_phase cfg l1 s Hcfg Hi Hb Hn1 Hl1) as (I1 & H1 & _).
  destruct (fold_expire_records cfg l1 s r Hcfg Hi Hb Hn1 Hl1) as (P1 & P2).
  set (s1 := fold_left (expire_one cfg) l1 s) in *.
  set (l2 := due (newq s1) (height s1)).
  assert (Hn2 : NoDup l2) by (apply NoDup_due; apply (inv_wf _ _ I1)).
  assert (Hl2 : forall c, In c l2 -> In (height s1, c) (newq s1)) by (intros c; apply In_due).
  assert (Hb1 : height s1 < HEIGHT_BOUND) by now rewrite H1.
  destruct (fold_new_records cfg l2 s1 r Hcfg I1 Hb1 Hn2 Hl2) as (Q1 & Q2 & Q3).
  set (s2 := fold_left (new_one cfg) l2 s1) in *. sproj.
  split.
  - intros Hnd. assert (Hnl : ~ In (rid_ctx r) l1) by (intros E; apply Hnd, In_due, E).
    destruct (P1 Hnl) as (E1 & E2). split.
    + intros q G. apply Q1. now rewrite E1.
    + now rewrite Q3.
  - intros Hd Hh'. assert (Hl : In (rid_ctx r) l1) by (apply In_due, Hd).
    destruct (P2 Hl) as (E1 & E2). split.
    + apply Q2; [exact E1|now rewrite H1].
    + now rewrite Q3.
Qed.

(* EndBlock of a block before the expiry height: the record (with its pending status)
   and its response are left alone *)
Theorem C08_end_block_keeps cfg s dt r q :
  wf_cfg cfg -> Inv cfg s -> height s < HEIGHT_BOUND ->
  get r (reqs s) = Some q -> height s < r_exp q ->
  get r (reqs (end_block cfg s dt)) = Some q
  /\ get r (resps (end_block cfg s dt)) = get r (resps s).
Proof.
  intros Hcfg Hi Hb Hq Hlt.
  destruct (end_block_records cfg s dt r Hcfg Hi Hb) as (K & _). cbv zeta in K.
  destruct K as (K1 & K2); [|auto].
  intros Hd. destruct (inv_sched _ _ Hi) as (S1 & _). apply S1 in Hd.
  destruct (inv_req _ _ Hi) as (R1 & _).
  destruct (R1 _ _ (get_In _ _ _ Hq)) as (rc & _ & _ & Ge & _). rewrite Ge in Hd.
  injection Hd as Hd. lia.
Qed.

(* EndBlock of the expiry block: the record and its response are removed; from then on
   every response is rejected (C08_reject, unknown request) *)
Theorem C08_end_block_expires cfg s dt r q :
  wf_cfg cfg -> Inv cfg s -> height s < HEIGHT_BOUND ->
  get r (reqs s) = Some q -> r_exp q = height s ->
  get r (reqs (end_block cfg s dt)) = None /\ get r (resps (end_block cfg s dt)) = None.
Proof.
  intros Hcfg Hi Hb Hq He.
  destruct (C08_window_inv cfg s r q Hi Hq) as (_ & Hlt & Hin).
  destruct (end_block_records cfg s dt r Hcfg Hi Hb) as (_ & K). cbv zeta in K.
  apply K; [now rewrite <- He|lia].
Qed.

(* ------------------------------------------------------------------ *)
(* messages *)

(* what a message does to the request records: nothing, except that an accepted response
   to r deactivates r *)
Lemma msg_reqs cfg s o s' :
  handle cfg s o = Ok s' -> (forall dt, o <> OEndBlock dt) ->
  reqs s' = reqs s
  \/ exists r who code out ov q,
       o = ORespond r who code out ov true /\ get r (reqs s) = Some q /\ r_active q = true
       /\ who = r_prov q /\ reqs s' = set r (setr_active q false) (reqs s).
Proof.
  intros H Hne.
  destruct o;
    try (left; exact (proj1 (escrow_msg_simple _ _ _ _ H I)));
    try (left; exact (proj1 (req_msg_simple _ _ _ _ H I))).
  - right. cbn [handle] in H. apply respond_reqs in H.
    destruct H as (q & rc0 & -> & Hq & _ & Hwho & Hact & Er & _).
    exists r, who, code, out, out_valid, q. auto.
  - exfalso. eapply Hne. reflexivity.
Qed.

(* no message removes or alters a request record; a pending request stays pending unless
   the message is an accepted response to it *)
Theorem C08_msg_keeps_requests cfg s o s' r q :
  handle cfg s o = Ok s' -> (forall dt, o <> OEndBlock dt) -> get r (reqs s) = Some q ->
  exists q', get r (reqs s') = Some q'
    /\ r_prov q' = r_prov q /\ r_fee q' = r_fee q /\ r_exp q' = r_exp q
    /\ (r_active q' = true -> r_active q = true)
    /\ (r_active q = true -> r_active q' = false ->
          exists code out ov, o = ORespond r (r_prov q) code out ov true).
Proof.
  intros H Hne Hq. destruct (msg_reqs cfg s o s' H Hne) as [E|(r0 & who & code & out & ov & q0 & -> & Hq0 & Ha0 & -> & E)].
  - exists q. rewrite E. repeat split; auto. intros Ha Hf. congruence.
  - rewrite E, get_set. destruct (eqb_spec r r0) as [->|Hn].
    + assert (q0 = q) by congruence. subst q0. exists (setr_active q false).
      repeat split; auto. intros _ _. eauto.
    + exists q. repeat split; auto. intros Ha Hf. congruence.
Qed.

(* no message creates a request record *)
Theorem C08_msg_no_new_requests cfg s o s' r :
  handle cfg s o = Ok s' -> (forall dt, o <> OEndBlock dt) ->
  get r (reqs s) = None -> get r (reqs s') = None.
Proof.
  intros H Hne Hq. destruct (msg_reqs cfg s o s' H Hne) as [E|(r0 & who & code & out & ov & q0 & _ & Hq0 & _ & _ & E)].
  - now rewrite E.
  - rewrite E, get_set_neq; [exact Hq|]. intros ->. congruence.
Qed.

(* the whole window, one step at a time: in every state up to and including the block of the
   expiry height a pending request accepts its provider's response (C08_accept needs only the
   invariant); once that block has ended every response is rejected *)
Corollary C08_rejected_after_expiry cfg s dt r q who code out ov ok :
  wf_cfg cfg -> Inv cfg s -> height s < HEIGHT_BOUND ->
  get r (reqs s) = Some q -> r_exp q = height s ->
  handle cfg (end_block cfg s dt) (ORespond r who code out ov ok) = Err.
Proof.
  intros Hcfg Hi Hb Hq He.
  destruct (C08_end_block_expires cfg s dt r q Hcfg Hi Hb Hq He) as (G & _).
  apply C08_reject. auto.
Qed.

(* ------------------------------------------------------------------ *)
(* Examples (by computation) on a reachable history: the providers of StepSpecs_batch.ExB,
   one call with timeout 5 issued at height 1: requests r0 (provider 7, fee 10) and r1
   (provider 11, fee 30), expiry height 6.  [Reach cfg s] stands for [Inv cfg s]. *)
Module ExW.
  Import ExB.
  Definition cw : CtxId := (2001, 0).
  Definition r0 : ReqId := (cw, 1, 1, 0).
  Definition r1 : ReqId := (cw, 1, 1, 1).
  Definition ops_1 : list Op := ops_common ++
    [ OCall cw 1 [7; 11] 50 0 (CBase 50) 5 false false 0 0 true true; OEndBlock 1 ].
  Definition ops_2 : list Op := ops_1 ++ [ ORespond r0 7 200 1 true true ].
  Definition ops_3 : list Op := ops_2 ++ [ OEndBlock 1; OEndBlock 1; OEndBlock 1; OEndBlock 1 ].
  Definition ops_4 : list Op := ops_3 ++ [ OEndBlock 1 ].
  Definition s_1 : State := run cfg s0 ops_1.   (* height 2: both pending *)
  Definition s_2 : State := run cfg s0 ops_2.   (* height 2: r0 answered *)
  Definition s_3 : State := run cfg s0 ops_3.   (* height 6: the expiry block *)
  Definition s_4 : State := run cfg s0 ops_4.   (* height 7: expired *)

  Ltac reach_tac ops :=
    apply reach_init_run; [lia|lia|unfold funding; wf_funding_tac|];
    unfold ops, ops_3, ops_2, ops_1, ops_common; cbn [app]; wf_run_tac.
  Example reach_1 : Reach cfg s_1. Proof. reach_tac ops_1. Qed.
  Example reach_2 : Reach cfg s_2. Proof. reach_tac ops_2. Qed.
  Example reach_3 : Reach cfg s_3. Proof. reach_tac ops_3. Qed.
  Example reach_4 : Reach cfg s_4. Proof. reach_tac ops_4. Qed.

  Example records_1 :
    height s_1 = 2
    /\ reqs s_1 = [(r0, mkReq 7 10 6 true); (r1, mkReq 11 30 6 true)] /\ expq s_1 = [(6, cw)].
  Proof. vm_compute. auto. Qed.

  (* C08_accept: hypotheses, and the outcome for a normal and for a malformed output *)
  Example C08_accept_ex :
    wf_cfg cfg /\ Reach cfg s_1 /\ get r1 (reqs s_1) = Some (mkReq 11 30 6 true)
    /\ is_ok (handle cfg s_1 (ORespond r1 11 200 1 true true)) = true
    /\ is_ok (handle cfg s_1 (ORespond r1 11 200 1 false true)) = true.
  Proof. split; [exact wf_cfg_ex|]. split; [exact reach_1|]. vm_compute. auto. Qed.

  (* ... still accepted in the block of the expiry height *)
  Example C08_accept_ex_last_block :
    Reach cfg s_3 /\ height s_3 = 6 /\ get r1 (reqs s_3) = Some (mkReq 11 30 6 true)
    /\ is_ok (handle cfg s_3 (ORespond r1 11 200 1 true true)) = true.
  Proof. split; [exact reach_3|]. vm_compute. auto. Qed.

  Example C08_accept_applies : exists s', handle cfg s_3 (ORespond r1 11 200 1 true true) = Ok s'.
  Proof.
    destruct C08_accept_ex_last_block as (Hr & _ & Hq & _).
    exact (C08_accept cfg s_3 r1 _ 200 1 true wf_cfg_ex (Reach_Inv _ _ wf_cfg_ex Hr) Hq eq_refl).
  Qed.

  (* C08_reject: stranger, unknown id, inactive (answered) request, invalid message *)
  Example C08_reject_ex :
    get r1 (reqs s_1) = Some (mkReq 11 30 6 true) /\ 7 <> 11
    /\ handle cfg s_1 (ORespond r1 7 200 1 true true) = Err
    /\ get (cw, 1, 1, 2) (reqs s_1) = None
    /\ handle cfg s_1 (ORespond (cw, 1, 1, 2) 11 200 1 true true) = Err
    /\ handle cfg s_1 (ORespond r1 11 200 1 true false) = Err
    /\ get r0 (reqs s_2) = Some (mkReq 7 10 6 false)
    /\ handle cfg s_2 (ORespond r0 7 200 1 true true) = Err.
  Proof. vm_compute. repeat split; try reflexivity; discriminate. Qed.

  (* C08_once: the hypothesis (an accepted response) and the record afterwards *)
  Example C08_once_ex :
    handle cfg s_1 (ORespond r0 7 200 1 true true) = Ok s_2
    /\ get r0 (reqs s_2) = Some (mkReq 7 10 6 false)
    /\ get r0 (resps s_2) = Some (mkResp 7 50 200 1).
  Proof. vm_compute. auto. Qed.

  (* C08_window_inv / C08_end_block_keeps / C08_end_block_expires *)
  Example C08_end_block_keeps_ex :
    wf_cfg cfg /\ Reach cfg s_2 /\ height s_2 < HEIGHT_BOUND
    /\ get r1 (reqs s_2) = Some (mkReq 11 30 6 true) /\ height s_2 < 6
    /\ get r1 (reqs (end_block cfg s_2 1)) = Some (mkReq 11 30 6 true)
    /\ get r0 (reqs (end_block cfg s_2 1)) = Some (mkReq 7 10 6 false)
    /\ get r0 (resps (end_block cfg s_2 1)) = get r0 (resps s_2).
  Proof. split; [exact wf_cfg_ex|]. split; [exact reach_2|]. vm_compute. auto 10. Qed.

  Example C08_end_block_expires_ex :
    wf_cfg cfg /\ Reach cfg s_3 /\ height s_3 < HEIGHT_BOUND
    /\ get r1 (reqs s_3) = Some (mkReq 11 30 6 true) /\ height s_3 = 6
    /\ reqs (end_block cfg s_3 1) = [] /\ resps (end_block cfg s_3 1) = []
    /\ end_block cfg s_3 1 = s_4
    /\ handle cfg s_4 (ORespond r1 11 200 1 true true) = Err
    (* the unanswered request was refunded and its provider slashed *)
    /\ bal s_4 (User 50) = bal s_3 (User 50) + 30 /\ bal s_4 Deposit = bal s_3 Deposit - 100.
  Proof. split; [exact wf_cfg_ex|]. split; [exact reach_3|]. vm_compute. auto 12. Qed.

  (* C08_gone_after_expiry: the hypotheses of the per-context expiry handler *)
  Example C08_gone_after_expiry_ex :
    wf_cfg cfg /\ Reach cfg s_3 /\ In (height s_3, cw) (expq s_3) /\ height s_3 < HEIGHT_BOUND
    /\ rid_ctx r0 = cw /\ rid_ctx r1 = cw
    /\ reqs (expire_one cfg s_3 cw) = [] /\ resps (expire_one cfg s_3 cw) = [].
  Proof.
    split; [exact wf_cfg_ex|]. split; [exact reach_3|]. split; [vm_compute; tauto|].
    vm_compute. auto 10.
  Qed.

  (* C08_msg_keeps_requests: a message of another kind, even one disabling the provider,
     leaves the pending request alone *)
  Example C08_msg_keeps_requests_ex :
    let o := ODisable 1 11 43 true in
    (forall dt, o <> OEndBlock dt)
    /\ exists s', handle cfg s_1 o = Ok s' /\ get r1 (reqs s_1) = Some (mkReq 11 30 6 true)
         /\ reqs s' = reqs s_1
         /\ is_ok (handle cfg s' (ORespond r1 11 200 1 true true)) = true.
  Proof.
    split; [intros; discriminate|]. eexists. split; [vm_compute; reflexivity|]. vm_compute. auto.
  Qed.
End ExW.
