(* Reachability of the final state of a concrete history: the hypotheses of wf_op are
   collected along the run, so that examples can discharge them by computation. *)
From Coq Require Import List ZArith Bool Lia.
From SVC Require Import Base.AMap Base.Res Base.Dec Model.Types Model.Pricing
  Model.Handlers Model.EndBlock Model.Step Proofs.Inv.
Import ListNotations.
Open Scope Z_scope.

Fixpoint wf_run (cfg : Params) (s : State) (ops : list Op) : Prop :=
  match ops with
  | [] => True
  | o :: t => wf_op s o /\ wf_run cfg (fst (step cfg s o)) t
  end.

Lemma reach_run cfg s ops : Reach cfg s -> wf_run cfg s ops -> Reach cfg (run cfg s ops).
Proof.
  revert s. induction ops as [|o t IH]; intros s Hr Hw; [exact Hr|].
  destruct Hw as [Ho Ht]. unfold run. cbn [fold_left].
  apply IH; [|exact Ht]. now apply Reach_step.
Qed.

Lemma reach_init_run cfg h0 t0 f ops :
  1 <= h0 -> 0 <= t0 -> wf_funding f -> wf_run cfg (init h0 t0 f) ops ->
  Reach cfg (run cfg (init h0 t0 f) ops).
Proof. intros. apply reach_run; [now apply Reach_init|assumption]. Qed.

(* closed arithmetic / list-membership side conditions *)
Ltac zc :=
  vm_compute;
  first [ reflexivity | discriminate | exact I
        | (split; first [reflexivity | discriminate])
        | (intuition discriminate) ].

Ltac wf_run_tac :=
  cbn [wf_run]; repeat match goal with |- _ /\ _ => split end;
  try exact I;
  try (unfold wf_op, ctx_fresh; repeat match goal with |- _ /\ _ => split end; zc).

Ltac wf_funding_tac :=
  let a := fresh "a" in let v := fresh "v" in let Hin := fresh "Hin" in
  intros a v Hin; cbn [In] in Hin;
  repeat match goal with
  | H : _ \/ _ |- _ => destruct H
  | H : (_, _) = (_, _) |- _ => injection H as <- <-
  | H : False |- _ => destruct H
  end; lia.

Example wf_funding_tac_example : wf_funding [(1, 5); (2, 0)].
Proof. wf_funding_tac. Qed.
